(* C11 property theorems.  Nothing but statements closed by `exact`, each followed by Print Assumptions.
   Model.v follows src/kernel/rational/givratreconstruct.C; PolyModel.v follows src/library/poly1/givpoly1ratrecon.inl.
   cong m a b := exists c, a - b = c * m.
   sound f m k fr (ok,n,d) := ok = true -> cong m n (d*f) /\ |n| < k /\ 0 < d /\ (fr = true -> Z.gcd n d = 1). *)
From Coq Require Import ZArith.
From C11 Require Import Model ProofsLoop ProofsSound ProofsComplete ProofsEntry ProofsTotal PolyModel PolyProofs PolyLists.
Local Open Scope Z_scope.

(* the loop of ratrecon terminates within the fuel 2*log2 m + 4 for every f, m >= 2, k >= 1 *)
Theorem C11_ratrecon_terminates : Ratrecon_total.              Proof. exact ratrecon_total. Qed.
Print Assumptions C11_ratrecon_terminates.
(* soundness of Rational::ratrecon for all f (negative, >= m), m >= 1, 1 <= k <= m, with and without forcereduce *)
Theorem C11_ratrecon_sound : Ratrecon_sound.                   Proof. exact ratrecon_sound. Qed.
Print Assumptions C11_ratrecon_sound.
(* RationalReconstruction(a,b,x,m): bound sqrt m, reduced *)
Theorem C11_rr4_sound : RR4_sound.                             Proof. exact rr4_sound. Qed.
Print Assumptions C11_rr4_sound.
(* RationalReconstruction(a,b,f,m,k,forcereduce,recursive) including the widening loop *)
Theorem C11_rr7_sound : RR7_sound.                             Proof. exact rr7_sound. Qed.
Print Assumptions C11_rr7_sound.
(* RationalReconstruction(a,b,x,m,numbound,denbound).
   HISTORY - body with `bound = x/bb` (in /repo until 224c4ab = frag/C11.fix-2.diff; no longer extracted or compared): a success satisfied the clauses for
   the bound max(x/denbound, numbound) the code derives - NOT for the caller's numbound, which is refuted: 31 mod 101, (2, 3) -> -8/3 *)
Theorem C11_rr6_sound_derived_bound : RR6_sound.               Proof. exact rr6_sound. Qed.
Print Assumptions C11_rr6_sound_derived_bound.
Theorem C11_rr6_numbound_refuted : RR6_numbound_refuted.       Proof. exact rr6_numbound_refuted. Qed.
Print Assumptions C11_rr6_numbound_refuted.
(* the body in /repo now (224c4ab: ratrecon is given numbound itself): the property's clauses against the caller's bounds, and completeness *)
Theorem C11_rr6f_sound : RR6f_sound.                           Proof. exact rr6f_sound. Qed.
Print Assumptions C11_rr6f_sound.
Theorem C11_rr6f_complete : RR6f_complete.                     Proof. exact rr6f_complete. Qed.
Print Assumptions C11_rr6f_complete.
(* totality: inside the domain (m >= 2, bound >= 1; denbound <> 0 for the x/bb body, whose C++ divides by zero there) no wrapper
   answers None - the widening fuel log2 f + 2 suffices - so the conditional theorems are not vacuous for lack of fuel *)
Theorem C11_rr4_total : RR4_total.                             Proof. exact rr4_total. Qed.
Print Assumptions C11_rr4_total.
Theorem C11_rr7_total : RR7_total.                             Proof. exact rr7_total. Qed.
Print Assumptions C11_rr7_total.
Theorem C11_rr6_total : RR6_total.                             Proof. exact rr6_total. Qed.
Print Assumptions C11_rr6_total.
Theorem C11_rr6f_total : RR6f_total.                           Proof. exact rr6f_total. Qed.
Print Assumptions C11_rr6f_total.
Theorem C11_rational_ctor_total : RatCtor_total.               Proof. exact ratctor_total. Qed.
Print Assumptions C11_rational_ctor_total.
Theorem C11_qfield_total : QField_total.                       Proof. exact qfield_total. Qed.
Print Assumptions C11_qfield_total.
(* Rational(f,m,k,recurs) / QField<Rational>::ratrecon (no success report): for EVERY f, m >= 2, 1 <= k <= m, any flags / recurs
   (widening loop beyond m included) the stored pair has num == den*f (mod m) and den > 0 *)
Theorem C11_ratrecon_pair_always_congruent : Ratrecon_always.  Proof. exact ratrecon_always. Qed.
Print Assumptions C11_ratrecon_pair_always_congruent.
Theorem C11_rational_ctor_congruent : RatCtor_always.         Proof. exact ratctor_always. Qed.
Print Assumptions C11_rational_ctor_congruent.
Theorem C11_qfield_ratrecon_congruent : QField_always.        Proof. exact qfield_always. Qed.
Print Assumptions C11_qfield_ratrecon_congruent.
(* completeness: any coprime a/b, b > 0, a == b f (mod m), |a| m + b k^2 <= k m, is returned exactly *)
Theorem C11_ratrecon_complete : Ratrecon_complete.             Proof. exact ratrecon_complete. Qed.
Print Assumptions C11_ratrecon_complete.
(* the property's envelope: 4|a| <= sqrt m, 4 b <= sqrt m, default bound *)
Theorem C11_rr4_complete : RR4_complete.                       Proof. exact rr4_complete. Qed.
Print Assumptions C11_rr4_complete.
Theorem C11_rr4_complete_inverse : RR4_complete_inverse.       Proof. exact rr4_complete_inverse. Qed.
Print Assumptions C11_rr4_complete_inverse.
(* the Reduce guarantee of the callers without a success report: when the last call of ratrecon made by Rational(f,m,k,recurs)
   (resp. by both QField<Rational>::ratrecon forms) succeeded, the stored pair has num == den*f (mod m), den > 0, gcd = 1 under
   Rational::flags = Reduce, and |num| < k' for the bound k' in use (k, or k < k' < f inside the widening loop, also past m) *)
Theorem C11_rational_ctor_sound : RatCtor_sound.               Proof. exact ratctor_sound. Qed.
Print Assumptions C11_rational_ctor_sound.
Theorem C11_qfield_ratrecon_sound : QField_sound.              Proof. exact qfield_sound. Qed.
Print Assumptions C11_qfield_ratrecon_sound.
(* ... and when the first call succeeds the constructor stores exactly that reconstruction (the widening loop does not run;
   an unfolding of the model, stated because it is the clause the oracle judges on ctor / qfk / qf) *)
Theorem C11_rational_ctor_first : RatCtor_first.               Proof. exact ratctor_first. Qed.
Print Assumptions C11_rational_ctor_first.
(* completeness through every other entry point: RationalReconstruction(a,b,f,m,k,fr,rc) (any representative f, also the x == 0
   shortcut), Rational(f,m,k,recurs), QField<Rational>::ratrecon with a bound and with the default bound sqrt m *)
Theorem C11_rr7_complete : RR7_complete.                       Proof. exact rr7_complete. Qed.
Print Assumptions C11_rr7_complete.
Theorem C11_rr7_complete_envelope : RR7_complete_envelope.     Proof. exact rr7_complete_envelope. Qed.
Print Assumptions C11_rr7_complete_envelope.
Theorem C11_rational_ctor_complete : RatCtor_complete.         Proof. exact ratctor_complete. Qed.
Print Assumptions C11_rational_ctor_complete.
Theorem C11_qfield_complete_k : QField_complete_k.             Proof. exact qfield_complete_k. Qed.
Print Assumptions C11_qfield_complete_k.
Theorem C11_qfield_complete : QField_complete.                 Proof. exact qfield_complete. Qed.
Print Assumptions C11_qfield_complete.
(* polynomial ratrecon: N == D*P (mod M), deg N <= dk, D <> 0, over every ring with a degree function *)
Theorem C11_poly_ratrecon_sound : Poly_ratrecon_sound.         Proof. exact poly_ratrecon_sound_full. Qed.
Print Assumptions C11_poly_ratrecon_sound.
(* ratreconcheck and the 6-argument ratrecon: a success passed the gcd-degree test, is the pair of ratrecon (possibly times the
   unit 1/leadcoef D) and still satisfies congruence, degree bound and D <> 0 *)
Theorem C11_poly_ratreconcheck_sound : Poly_ratreconcheck_sound. Proof. exact poly_ratreconcheck_sound_full. Qed.
Print Assumptions C11_poly_ratreconcheck_sound.
(* ... and it terminates within the fuel deg P + deg M + 4 whenever div is a Euclidean quotient (deg (a - (a div b) b) < deg b) *)
Theorem C11_poly_ratrecon_terminates : Poly_ratrecon_total.   Proof. exact poly_ratrecon_total_full. Qed.
Print Assumptions C11_poly_ratrecon_terminates.
(* the same three clauses for the CONCRETE coefficient-vector polynomials: every operation ratrecon calls (degree, assign,
   divmodin = Newton-inverse division + Karatsuba product, maxpyin, gcd, leadcoef, divin) is the model of Poly1Dom of coq/C08,
   over every coefficient domain satisfying the field laws, for every Karatsuba threshold >= 1; the ring and degree laws are
   proved (C08's theorems + PolyLists.v), not assumed.  Equality of polynomials is coefficientwise (C08.Spec.peq). *)
Theorem C11_list_ratrecon_sound : List_ratrecon_sound.         Proof. exact list_ratrecon_sound. Qed.
Print Assumptions C11_list_ratrecon_sound.
Theorem C11_list_ratrecon6_sound : List_ratrecon6_sound.       Proof. exact list_ratrecon6_sound. Qed.
Print Assumptions C11_list_ratrecon6_sound.
(* a success of ratreconcheck passed the gcd-degree test of the MODEL of Poly1Dom::gcd (an unfolding of the model; that this gcd
   model computes a gcd is C08's subject: reducedness itself is judged by the oracle) and is ratrecon's pair, possibly divided by leadcoef D *)
Theorem C11_list_ratreconcheck_passed_gcd_test : List_ratreconcheck_reduced. Proof. exact list_ratreconcheck_reduced. Qed.
Print Assumptions C11_list_ratreconcheck_passed_gcd_test.
(* the list instance terminates within its fuel (C08.ProofsDivDeg: deg of the remainder of the Newton-inverse division) *)
Theorem C11_list_ratrecon_total : List_ratrecon_total.         Proof. exact list_ratrecon_total. Qed.
Print Assumptions C11_list_ratrecon_total.
(* END TO END, the functions that are extracted and run: zp_ratrecon5 / zp_ratreconcheck / zp_ratrecon6 compute over C08.Fp.FpDom q (subset
   type of canonical residues; FieldOK proved for prime q in C08.ProofsFp).  For every prime q, thresholds >= 1, integer coefficient
   lists P, M, 0 <= dk < deg M: a success returns canonical lists N, D, images of polynomials N', D' over F_q with
   N' - D' P = C M, deg N' <= dk, D' <> 0; and the executed functions never answer None. *)
Theorem C11_fp_ratrecon_sound : Fp_ratrecon_sound.             Proof. exact fp_ratrecon_sound. Qed.
Print Assumptions C11_fp_ratrecon_sound.
Theorem C11_fp_ratrecon_total : Fp_ratrecon_total.             Proof. exact fp_ratrecon_total. Qed.
Print Assumptions C11_fp_ratrecon_total.
