(* C11 driver: one case per line "<op> <args...>" (decimal) -> "<ok> <num> <den>" or NONE (fuel exhausted) *)
let zs = z_of_string
let b s = s <> "0"
(* argv: fx1 fx2 (which of the two repairs the source carries; probed by the check) *)
let fx1 = Array.length Sys.argv > 1 && Sys.argv.(1) = "1"
let fx2 = Array.length Sys.argv > 2 && Sys.argv.(2) = "1"
let pr = function
  | None -> "NONE"
  | Some ((ok, n), d) -> string_of_bool ok ^ " " ^ string_of_z n ^ " " ^ string_of_z d
let () = run_lines (fun toks ->
  match toks with
  | ["ratrecon"; f; m; k; fr] -> pr (Model.ratrecon fx1 (zs f) (zs m) (zs k) (b fr))
  | ["rr7"; f; m; k; fr; rc] -> pr (Model.rR7 fx1 (zs f) (zs m) (zs k) (b fr) (b rc))
  | ["rr4"; f; m] -> pr (Model.rR4 fx1 (zs f) (zs m))
  | ["rr6"; f; m; ab; bb] -> pr (Model.rR6 fx1 fx2 (zs f) (zs m) (zs ab) (zs bb))
  | ["ctor"; f; m; k; fl; rc] -> pr (Model.ratCtor fx1 (zs f) (zs m) (zs k) (b fl) (b rc))
  | ["qfk"; f; m; k; fl; rc] -> pr (Model.qF_ratrecon_k fx1 (zs f) (zs m) (zs k) (b fl) (b rc))
  | ["qf"; f; m; fl; rc] -> pr (Model.qF_ratrecon fx1 (zs f) (zs m) (b fl) (b rc))
  | _ -> "BAD-LINE")
