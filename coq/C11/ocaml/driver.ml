(* C11 driver: one case per line "<op> <args...>" (decimal)
     integer ops  -> "<ok> <num> <den>"                         or NONE (fuel exhausted)
     poly ops     -> "<ok> N <coeffs low degree first> D <coeffs>"   or NONE
       poly.rr5 / poly.check / poly.rr6   p dk fr nP c0 .. nM c0 ..
   argv: KARA_THRESHOLD SQR_THRESHOLD (read by the check from givpoly1kara.inl) for the polynomial model        *)
let thr i = if Array.length Sys.argv > i then nat_of_int (int_of_string Sys.argv.(i)) else (prerr_endline "usage: driver KARA_THRESHOLD SQR_THRESHOLD"; exit 2)
let kthr = lazy (thr 1)
let sthr = lazy (thr 2)
let zs = z_of_string
let b s = s <> "0"
let pr = function
  | None -> "NONE"
  | Some ((ok, n), d) -> string_of_bool ok ^ " " ^ string_of_z n ^ " " ^ string_of_z d
let prp = function
  | None -> "NONE"
  | Some ((ok, n), d) ->
    String.concat " " ([string_of_bool ok; "N"] @ List.map string_of_z n @ ["D"] @ List.map string_of_z d)
let rec take n l = if n <= 0 then [] else match l with [] -> [] | x :: t -> x :: take (n - 1) t
let rec drop n l = if n <= 0 then l else match l with [] -> [] | _ :: t -> drop (n - 1) t
let poly op p dk fr rest =
  match rest with
  | np :: r1 ->
    let np = int_of_string np in
    let pp = List.map zs (take np r1) in
    (match drop np r1 with
     | nm :: r2 ->
       let nm = int_of_string nm in
       let mm = List.map zs (take nm r2) in
       let p = zs p and dk = zs dk in
       (match op with
        | "poly.rr5" -> prp (Model.zp_ratrecon5 p (Lazy.force kthr) (Lazy.force sthr) pp mm dk)
        | "poly.check" -> prp (Model.zp_ratreconcheck p (Lazy.force kthr) (Lazy.force sthr) pp mm dk)
        | "poly.rr6" -> prp (Model.zp_ratrecon6 p (Lazy.force kthr) (Lazy.force sthr) pp mm dk (b fr))
        | _ -> "BAD-LINE")
     | [] -> "BAD-LINE")
  | [] -> "BAD-LINE"
let () = run_lines (fun toks ->
  match toks with
  | ["ratrecon"; f; m; k; fr] -> pr (Model.ratrecon (zs f) (zs m) (zs k) (b fr))
  | ["rr7"; f; m; k; fr; rc] -> pr (Model.rR7 (zs f) (zs m) (zs k) (b fr) (b rc))
  | ["rr4"; f; m] -> pr (Model.rR4 (zs f) (zs m))
  | ["rr6f"; f; m; ab; bb] -> pr (Model.rR6f (zs f) (zs m) (zs ab) (zs bb))    (* body of /repo 224c4ab *)
  | ["ctor"; f; m; k; fl; rc] -> pr (Model.ratCtor (zs f) (zs m) (zs k) (b fl) (b rc))
  | ["qfk"; f; m; k; fl; rc] -> pr (Model.qF_ratrecon_k (zs f) (zs m) (zs k) (b fl) (b rc))
  | ["qf"; f; m; fl; rc] -> pr (Model.qF_ratrecon (zs f) (zs m) (b fl) (b rc))
  | op :: p :: dk :: fr :: rest when String.length op > 5 && String.sub op 0 5 = "poly." -> poly op p dk fr rest
  | _ -> "BAD-LINE")
