(* Extraction of the executable model for the correspondence run (ExtrOcamlBasic only). *)
From Coq Require Import ZArith List.
From Coq Require Extraction.
From Coq Require Import ExtrOcamlBasic.
Require Import C12.gen.Tables.
From C12 Require Import Model ModelScript ModelErat ModelFermat ModelDom.
Extraction Language OCaml.
Cd "ocaml".
Extraction "model.ml" isprime_model isprime_total tabule1 tabule2
  nextprime_model nextprimein_model prevprime_model prevprimein_model protected_prevprime_model
  factor_model pollard_model lenstra_model iffactorprime_model primefactor_model
  set2_model set1_model write_model divisors_model divisors_of_model isprimepower_model
  pollard_s factor_s iffactorprime_s primefactor_s factor_inplace_s iffactorprime_inplace_s pollard_inplace_s miller_model erat_model fermat_model pepin_model set2_s divisors_of_s dom_make dom_copy dom_assign dom_copies factor_d.
Cd "..".
