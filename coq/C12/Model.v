(* C12 — executable model of givaro's primality / factorisation front end.  No proofs here.
   Written after the code (control structure of the C++), not after the specification.
   Every constant and table comes from gen/Tables.v, which the check regenerates from the
   current source text of /repo on every run.

   givintprime.h   IntPrimeDom::isprime                      -> isprime_model
   givintprime.C   isprime_Tabule / isprime_Tabule2          -> tabule1 / tabule2   (tab_search)
                   nextprime(in) / prevprime(in)             -> nextprime_model ... (up_loop / down_loop)
                   isprimepower                              -> isprimepower_model
   gmp++_int_misc.C Protected::prevprime                     -> protected_prevprime_model
   givintfactor.h  factor / iffactorprime / primefactor      -> factor_model / iffactorprime_model / primefactor_model
   givintfactor.inl set (2 forms) / write / divisors (2)     -> set2_model / set1_model / write_model / divisors_model
   Random walks (Pollard's rho, Lenstra's ECM) and GMP's mpz_probab_prime_p / mpz_root are oracles
   (function arguments); option None = the loop did not finish within the fuel / read outside an array. *)
From Coq Require Import ZArith List Bool FMapPositive.
Require Import C12.gen.Tables.
Import ListNotations.
Local Open Scope Z_scope.
Arguments Z.mul : simpl never.
Arguments Z.add : simpl never.
Arguments Z.pow : simpl never.

(* ------------------------------------------------------------------ static arrays *)
Definition tabmap := PositiveMap.t Z.
Fixpoint tab_build (l : list Z) (i : positive) (m : tabmap) : tabmap :=
  match l with [] => m | v :: t => tab_build t (Pos.succ i) (PositiveMap.add i v m) end.
Definition tab_of (l : list Z) : tabmap := tab_build l 1%positive (PositiveMap.empty Z).
(* element k (0-based) of the array; None = outside the array (undefined behaviour in C++) *)
Definition tab_get (m : tabmap) (k : Z) : option Z :=
  if k <? 0 then None else PositiveMap.find (Z.to_pos (k + 1)) m.

Definition tab1 : tabmap := Eval vm_compute in tab_of IP.     (* int IntPrimeDom::IP[LOGMAX+5]  *)
Definition tab2 : tabmap := Eval vm_compute in tab_of IP2.    (* int IntPrimeDom::IP2[LOGMAX2+5] *)

(* (int32_t) of an int64_t *)
Definition wrap32 (z : Z) : Z :=
  let r := z mod 4294967296 in if r <? 2147483648 then r else r - 4294967296.

(* ------------------------------------------------------------------ isprime_Tabule / isprime_Tabule2
   int plus = LOGMAX >> 1; int here = plus;
   for (int loop = LOGMAX; loop; loop >>= 1) {
       a = TP[here] - n; if (a == 0) return 1;
       if (a > 0) here -= (++plus >>= 1); else here += (++plus >>= 1); }
   return 0;                                   TP = &IP[offset] *)
Fixpoint tab_search (tab : tabmap) (offset loopshift stepshift : Z) (fuel : nat) (loop plus here n : Z) : option bool :=
  match fuel with
  | O => None
  | S f =>
    if loop =? 0 then Some false else
    match tab_get tab (here + offset) with
    | None => None
    | Some v =>
      let a := v - n in
      if a =? 0 then Some true else
      let plus' := Z.shiftr (plus + 1) stepshift in
      if a >? 0 then tab_search tab offset loopshift stepshift f (Z.shiftr loop loopshift) plus' (here - plus') n
      else tab_search tab offset loopshift stepshift f (Z.shiftr loop loopshift) plus' (here + plus') n
    end
  end.

Definition tabule1 (n : Z) : option bool :=
  tab_search tab1 TP_OFFSET T1_LOOPSHIFT T1_STEPSHIFT 64 T1_LOOP0 T1_PLUS0 T1_HERE0 n.
Definition tabule2 (n : Z) : option bool :=
  tab_search tab2 TP2_OFFSET T2_LOOPSHIFT T2_STEPSHIFT 64 T2_LOOP0 T2_PLUS0 T2_HERE0 n.

(* IntPrimeDom::isprime(n, r):  [n < G ? 0 :  -- only when the source has this guard]  n < B1 ? Tabule((int32_t)n) : n < B2 ? Tabule2((int32_t)n) : local_prime(n, r)
   local_prime = mpz_probab_prime_p: the oracle lp *)
Definition isprime_model (lp : Z -> bool) (n : Z) : option bool :=
  if ISPRIME_HAS_GUARD && (n <? ISPRIME_GUARD) then Some false else
  if n <? DISPATCH1 then tabule1 (wrap32 n)
  else if n <? DISPATCH2 then tabule2 (wrap32 n)
  else Some (lp n).
Definition isprime_total (lp : Z -> bool) (n : Z) : bool :=
  match isprime_model lp n with Some b => b | None => false end.

(* ------------------------------------------------------------------ nextprime / prevprime *)
Section NextPrev.
  Variable isprime : Z -> bool.
  (* while (!isprime(n, r)) addin(n, step); *)
  Fixpoint up_loop (fuel : nat) (step n : Z) : option Z :=
    match fuel with O => None | S f => if isprime n then Some n else up_loop f step (n + step) end.
  Fixpoint down_loop (fuel : nat) (step n : Z) : option Z :=
    match fuel with O => None | S f => if isprime n then Some n else down_loop f step (n - step) end.
  (* (x & 1u) ? a : b *)
  Definition first_step (a b x : Z) : Z := if Z.odd x then a else b.

  Definition gen_next (fuel : nat) (low lowval a b step p : Z) : option Z :=
    if p <=? low then Some lowval else up_loop fuel step (p + first_step a b p).
  Definition gen_prev (fuel : nat) (low lowval a b step p : Z) : option Z :=
    if p <=? low then Some lowval else down_loop fuel step (p - first_step a b p).

  Definition nextprimein_model (fuel : nat) (n : Z) : option Z :=
    gen_next fuel NEXTIN_LOW NEXTIN_LOWVAL NEXTIN_ODD NEXTIN_EVEN NEXTIN_STEP n.
  (* nextprime(n, p): if (p <= 1) return n = 2; if (&n == &p) return nextprimein(n); ... *)
  Definition nextprime_model (fuel : nat) (alias : bool) (p : Z) : option Z :=
    if p <=? NEXT_LOW then Some NEXT_LOWVAL
    else if alias then nextprimein_model fuel p
    else up_loop fuel NEXT_STEP (p + first_step NEXT_ODD NEXT_EVEN p).
  Definition prevprimein_model (fuel : nat) (n : Z) : option Z :=
    gen_prev fuel PREVIN_LOW PREVIN_LOWVAL PREVIN_ODD PREVIN_EVEN PREVIN_STEP n.
  Definition prevprime_model (fuel : nat) (alias : bool) (p : Z) : option Z :=
    if p <=? PREV_LOW then Some PREV_LOWVAL
    else if alias then prevprimein_model fuel p
    else down_loop fuel PREV_STEP (p - first_step PREV_ODD PREV_EVEN p).
  (* Protected::prevprime(r, p); here isprime stands for mpz_probab_prime_p *)
  Definition protected_prevprime_model (fuel : nat) (p : Z) : option Z :=
    gen_prev fuel PPREV_LOW PPREV_LOWVAL PPREV_ODD PPREV_EVEN PPREV_STEP p.
End NextPrev.

(* ------------------------------------------------------------------ factor / iffactorprime / primefactor *)
(* factor_first_primes(tmp, n): tmp = isZero(mod(tmp,n,23)) ? 23 : ( ... : 13) *)
Fixpoint pick (tests : list (Z * Z)) (d n : Z) : Z :=
  match tests with
  | [] => d
  | (t, r) :: rest => if n mod t =? 0 then r else pick rest d n
  end.
Definition factor_first (n : Z) : Z := pick FIRST_TESTS FIRST_DEFAULT n.
Definition factor_second (n : Z) : Z := pick SECOND_TESTS SECOND_DEFAULT n.

Section Factor.
  Variable isprime : Z -> bool.
  Variables pollard_orc lenstra_orc : Z -> Z.    (* what the random walks return on a composite n >= 3 *)

  (* Pollard(gen, g, n, loops): if (n < 3) return g = n; if (isprime(n)) return g = n; ... random walk *)
  Definition pollard_model (n : Z) : Z :=
    if n <? 3 then n else if isprime n then n else pollard_orc n.
  (* Lenstra(gen, g, n): n < 3 -> n; isprime -> n; n%2 == 0 -> 2; n%3 == 0 -> 3; curves *)
  Definition lenstra_model (n : Z) : Z :=
    if n <? 3 then n else if isprime n then n
    else if n mod 2 =? 0 then 2 else if n mod 3 =? 0 then 3 else lenstra_orc n.

  (* factor(r, n, loops) *)
  Definition factor_model (n : Z) : Z :=
    if Z.gcd n PROD_FIRST =? 1 then
      if Z.gcd n PROD_SECOND =? 1 then pollard_model n else factor_second n
    else factor_first n.

  (* while (!isprime(r)) { nn = r; r = <same cascade as factor>(nn); if (r == nn) { Lenstra(r, nn); break; } } *)
  Fixpoint ifp_loop (fuel : nat) (r : Z) : option Z :=
    match fuel with
    | O => None
    | S f =>
      if isprime r then Some r else
      let nn := r in
      let r' := factor_model nn in
      if r' =? nn then Some (lenstra_model nn) else ifp_loop f r'
    end.
  Definition iffactorprime_model (fuel : nat) (n : Z) : option Z :=
    let r := factor_model n in
    if r =? 1 then Some r else
    let r := if isprime r then r else factor_model r in
    ifp_loop fuel r.
  (* while (iffactorprime(r, n, 0) == 1 [&& n > 1 -- when the source has it] && !isprime(n)) {}   — None: would try again for ever *)
  Definition primefactor_model (fuel : nat) (n : Z) : option Z :=
    match iffactorprime_model fuel n with
    | None => None
    | Some r => if (r =? 1) && (if PRIMEFACTOR_GUARD then n >? 1 else true) && negb (isprime n) then None else Some r
    end.
End Factor.

(* ------------------------------------------------------------------ set / write / divisors *)
(* c = 0; r = 0; divexact(u, nn, g);  while (r == 0) { nn.copy(u); divmod(u, r, nn, g); c++; }
   strip fuel g u c = Some (final nn, final c) *)
Fixpoint strip (fuel : nat) (g u c : Z) : option (Z * Z) :=
  match fuel with
  | O => None
  | S f =>
    let nn := u in
    let u' := nn / g in
    let r := nn mod g in
    if r =? 0 then strip f g u' (c + 1) else Some (nn, c + 1)
  end.
Definition divexact (a b : Z) : Z := if a =? 0 then 0 else a / b.

Section SetDiv.
  Variable ifp : Z -> option Z.        (* iffactorprime(g, nn, loops)  resp. primefactor(g, nn) *)

  (* set(Lf, Lo, n, loops): factors with exponents, and the "complete" flag *)
  Fixpoint set2_loop (fuel : nat) (nn : Z) : option (list (Z * Z) * bool) :=
    match fuel with
    | O => None
    | S f =>
      if nn >? 1 then
        match ifp nn with
        | None => None
        | Some g0 =>
          let g := if g0 =? 1 then nn else g0 in
          match strip (S fuel) g (divexact nn g) 0 with
          | None => None
          | Some (nn', c) =>
            match set2_loop f nn' with
            | None => None
            | Some (rest, fl) => Some ((g, c) :: rest, if g0 =? 1 then false else fl)
            end
          end
        end
      else Some ([], true)
    end.
  Definition set2_model (fuel : nat) (n : Z) : option (list (Z * Z) * bool) :=
    set2_loop fuel (if n <? 0 then - n else n).

  (* set(Lf, n): nn = n (no sign handling unless the source negates), primefactor, no exponent kept *)
  Fixpoint set1_loop (fuel : nat) (nn : Z) : option (list Z) :=
    match fuel with
    | O => None
    | S f =>
      if nn >? 1 then
        match ifp nn with
        | None => None
        | Some g =>
          match strip (S fuel) g (divexact nn g) 0 with
          | None => None
          | Some (nn', _) =>
            match set1_loop f nn' with None => None | Some rest => Some (g :: rest) end
          end
        end
      else Some []
    end.
  Definition set1_model (fuel : nat) (n : Z) : option (list Z) :=
    set1_loop fuel (if SET1_ABS && (n <? 0) then - n else n).

  (* write(o, Lf, n): sign, then either the single entry nn <= 1 or the list of (g, c) *)
  Fixpoint write_loop (fuel : nat) (nn : Z) : option (list (Z * Z)) :=
    match fuel with
    | O => None
    | S f =>
      if nn >? 1 then
        match ifp nn with
        | None => None
        | Some g =>
          match strip (S fuel) g (divexact nn g) 0 with
          | None => None
          | Some (nn', c) =>
            match write_loop f nn' with None => None | Some rest => Some ((g, c) :: rest) end
          end
        end
      else Some []
    end.
  (* result: (minus sign printed?, Some v when nn <= 1 is pushed and printed as is, factor list) *)
  Definition write_model (fuel : nat) (n : Z) : option (bool * option Z * list (Z * Z)) :=
    let neg := n <? 0 in
    let nn := if neg then - n else n in
    if nn <=? 1 then Some (neg, Some nn, [])
    else match write_loop fuel nn with None => None | Some l => Some (neg, None, l) end.
End SetDiv.

(* divisors(L, Lf, Le):
   Res = [1]; for each (p, e): for r in Res: Itmp = r; e times: Itmp *= p; Res2.push_back(Itmp);  Res.splice(end, Res2) *)
Fixpoint powers (i : nat) (itmp p : Z) : list Z :=
  match i with O => [] | S k => let t := itmp * p in t :: powers k t p end.
Definition div_step (res : list Z) (p : Z) (e : nat) : list Z :=
  res ++ flat_map (fun r => powers e r p) res.
Fixpoint divisors_from (lf : list (Z * Z)) (res : list Z) : list Z :=
  match lf with
  | [] => res
  | (p, e) :: rest => divisors_from rest (div_step res p (Z.to_nat e))
  end.
Definition divisors_model (lf : list (Z * Z)) : list Z := divisors_from lf [1].
(* divisors(L, n) = set(Lf, Le, n) then divisors(L, Lf, Le) *)
Definition divisors_of_model (ifp : Z -> option Z) (fuel : nat) (n : Z) : option (list Z) :=
  match set2_model ifp fuel n with None => None | Some (l, _) => Some (divisors_model l) end.

(* ------------------------------------------------------------------ isprimepower *)
Section PrimePower.
  Variable isprime : Z -> bool.
  (* root(q, u, k) = mpz_root: Some (truncated k-th root, exact?); None = GMP raises (even root of a negative) *)
  Variable root : Z -> Z -> option (Z * bool).

  (* for ( ; !((unsigned)t & 1); t >>= 1, ++n2) {}        (t <> 0; >>= is mpz_tdiv_q_2exp) *)
  Fixpoint tz (fuel : nat) (t n2 : Z) : option (Z * Z) :=
    match fuel with
    | O => None
    | S f => if Z.odd t then Some (t, n2) else tz f (Z.quot t 2) (n2 + 1)
    end.
  (* for (n = 2;; ++n) { divmod(q, rem, u2, prime); if (rem != 0) break; swap(q, u2); }   -> (u2, q, n) *)
  Fixpoint mult_loop (fuel : nat) (prime u2 n : Z) : option (Z * Z * Z) :=
    match fuel with
    | O => None
    | S f =>
      let q := u2 / prime in
      let rem := u2 mod prime in
      if rem =? 0 then mult_loop f prime q (n + 1) else Some (u2, q, n)
    end.
  (* the loop over primes[1..] (0-terminated); Some None = fell through.
     usize = int(u.size()) is a limb COUNT (mpz_size), never negative: the `usize < 0` tests of the code are dead *)
  Fixpoint pp_small (fuel : nat) (ps : list Z) (u : Z) : option (option (Z * Z)) :=
    match ps with
    | [] => Some None
    | prime :: rest =>
      if prime =? 0 then Some None else
      if u mod prime =? 0 then
        let q := u / (prime * prime) in
        let rem := u mod (prime * prime) in
        if negb (rem =? 0) then Some (Some (0, q)) else
        match mult_loop fuel prime q 2 with
        | None => None
        | Some (u2, q', n) =>
          if Z.abs u2 =? 1 then Some (Some (n, prime))
          else Some (Some (0, q'))
        end
      else pp_small fuel rest u
    end.
  (* for (nth = 2;; ++nth) { if (!isprime(nth)) continue; exact = root(q, u2, nth);
       if (exact) return isprime(q) ? nth : 0 [repaired: q <= 1 ? 0 : nth * isprimepower(q, q)];  if (|q| < SMALLEST_OMITTED_PRIME) return 0; } *)
  Fixpoint pp_root (rec : Z -> option (Z * Z)) (fuel : nat) (nth u2 : Z) : option (Z * Z) :=
    match fuel with
    | O => None
    | S f =>
      if negb (isprime nth) then pp_root rec f (nth + 1) u2 else
      match root u2 nth with
      | None => None
      | Some (q, exact) =>
        if exact then
          (if isprime q then Some (nth, q)
           else if IPP_RECURSE then
             (if q <=? 1 then Some (0, q) else
              match rec q with None => None | Some (e, q') => Some (nth * e, q') end)
           else Some (0, q))
        else if Z.abs q <? SMALLEST_OMITTED_PRIME then Some (0, q)
        else pp_root rec f (nth + 1) u2
      end
    end.

  (* result (return value, final q); q0 = value of q on entry (returned untouched on some paths) *)
  Definition isprimepower_body (rec : Z -> option (Z * Z)) (fuel : nat) (q0 u : Z) : option (Z * Z) :=
    if u =? 0 then Some (IPP_ZERO_RET, q0) else
    if IPP_NEG_GUARD && (u <? 0) then Some (0, q0) else
    if Z.land (Z.abs u mod 18446744073709551616) 3 =? 2 then Some (0, q0) else
    match tz fuel u 0 with
    | None => None
    | Some (t, n2) =>
      if n2 >? 0 then (if t =? 1 then Some (n2, 2) else Some (0, q0)) else
      match pp_small fuel (tl PP_PRIMES) u with
      | None => None
      | Some (Some r) => Some r
      | Some None =>
        let u2 := match tl PP_PRIMES with p :: _ => if p =? 0 then 0 else u | [] => 0 end in
        pp_root rec fuel 2 u2
      end
    end.
  Fixpoint isprimepower_model (depth fuel : nat) (q0 u : Z) : option (Z * Z) :=
    match depth with
    | O => None
    | S d => isprimepower_body (fun v => isprimepower_model d fuel v v) fuel q0 u
    end.
End PrimePower.

(* ------------------------------------------------------------------ givprimes16.C *)
Definition primes16_count : Z := PRIMES16_SIZE.
Definition primes16_ith (i : Z) : option Z := if i <? 0 then None else nth_error PRIMES16 (Z.to_nat i).
