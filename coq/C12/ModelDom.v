(* C12 — the factor DOMAIN as an object: IntFactorDom<RandIter> carries three data members (both primorials and the generator);
   IntPrimeDom carries none (its tables are static).  What the copy constructor and operator= do with each member is read
   from the clang AST of the current source (gen/Tables.v: COPY_* / ASSIGN_*: copied from the source object, set to a literal,
   default-initialised, left untouched).  factor_d is factor() reading the primorials from the object.  No proofs here. *)
From Coq Require Import ZArith List Bool.
Require Import C12.gen.Tables.
From C12 Require Import Model.
Local Open Scope Z_scope.

Record dom : Set := { prod_first : Z; prod_second : Z; gen_state : Z }.
(* IntFactorDom(MyRandIter g = MyRandIter()) : PROD_first_primes(223092870), PROD_second_primes("1033..."), _g(g) *)
Definition dom_make (g : Z) : dom := {| prod_first := PROD_FIRST; prod_second := PROD_SECOND; gen_state := g |}.
(* a default-constructed Integer is 0; an int member without initialiser is indeterminate (modelled as 0 as well) *)
Definition apply_how (h : copy_how) (src old : Z) : Z :=
  match h with FromSource => src | Literal z => z | DefaultInit => 0 | Untouched => old end.
(* IntFactorDom(const IntFactorDom& F) *)
Definition dom_copy (F : dom) : dom :=
  {| prod_first := apply_how COPY_FIRST (prod_first F) 0; prod_second := apply_how COPY_SECOND (prod_second F) 0;
     gen_state := apply_how COPY_GEN (gen_state F) 0 |}.
(* operator=(const IntFactorDom& F) on an existing object *)
Definition dom_assign (this F : dom) : dom :=
  {| prod_first := apply_how ASSIGN_FIRST (prod_first F) (prod_first this);
     prod_second := apply_how ASSIGN_SECOND (prod_second F) (prod_second this);
     gen_state := apply_how ASSIGN_GEN (gen_state F) (gen_state this) |}.
Fixpoint dom_copies (k : nat) (d : dom) : dom := match k with O => d | S j => dom_copies j (dom_copy d) end.

(* factor(r, n, loops) of the object d *)
Definition factor_d (d : dom) (isprime : Z -> bool) (pollard_orc : Z -> Z) (n : Z) : Z :=
  if Z.gcd n (prod_first d) =? 1 then
    if Z.gcd n (prod_second d) =? 1 then pollard_model isprime pollard_orc n else factor_second n
  else factor_first n.
