(* C12 — executable model of IntFactorDom::Erathostene(Container& Lf, const Rep& p) (givintfactor.inl): the sieve /
   trial-division hybrid that returns the distinct prime factors of p.  No proofs here.

     uint64_t n = p;  if (!(n & 1)) { Lf.push_back(2); do n >>= 1; while (!(n & 1)); }
     short* Ip = new short[n + 1] (all 0);  i = 3;
     while (i <= sqrt(n)) {
         ii = i << 1;  j = i + ii;  while (j <= n) { Ip[j] = 1; j += ii; }            -- mark the odd multiples 3i, 5i, ... <= n
         if ((j - ii) == n) { Lf.push_back(i); do n /= i; while (!(n % i)); }          -- the last one is n: i divides n
         j = i + 1;  while (Ip[++j]) { j++; }  i = j;                                 -- next unmarked odd number
     }
     if (!Ip[n] && n > 1) Lf.push_back(n);

   The array is a set of marked indices; a read beyond the allocated size N0 + 1 is None (undefined behaviour in C++), so is an overflow of the `int` variables;
   p = 0 never leaves the halving loop (None). *)
From Coq Require Import ZArith List Bool FSets.FSetPositive.
Import ListNotations.
Local Open Scope Z_scope.

(* the loop variables i, j, ii are `int`; the model is partial (None) wherever one of them would leave the int range, so that no
   statement about erat_model speaks about inputs on which the C++ has undefined behaviour (the source: "Valid for p < BOUNDARY_factor") *)
Definition INT_MAX : Z := 2147483647.
Definition marks := PositiveSet.t.
Definition marked (M : marks) (j : Z) : bool := if j <=? 0 then false else PositiveSet.mem (Z.to_pos j) M.
Definition set_mark (M : marks) (j : Z) : marks := if j <=? 0 then M else PositiveSet.add (Z.to_pos j) M.

Fixpoint halve (fuel : nat) (n : Z) : option Z :=
  match fuel with O => None | S f => if Z.odd n then Some n else halve f (n / 2) end.
(* while (j <= n) { Ip[j] = 1; j += ii; }   -> (marks, final j) *)
Fixpoint mark_loop (fuel : nat) (M : marks) (j ii n : Z) : option (marks * Z) :=
  match fuel with
  | O => None
  | S f => if j <=? n then (if INT_MAX <? j + ii then None            (* `int j`: j += ii would overflow - undefined behaviour *)
                           else mark_loop f (set_mark M j) (j + ii) ii n)
           else Some (M, j)
  end.
(* do n /= i; while (!(n % i)); *)
Fixpoint divide_out (fuel : nat) (n i : Z) : option Z :=
  match fuel with
  | O => None
  | S f => let n' := n / i in if n' mod i =? 0 then divide_out f n' i else Some n'
  end.
(* j given; while (Ip[++j]) { j++; }   -> final j; None = read outside the array *)
Fixpoint scan_loop (fuel : nat) (M : marks) (N0 j : Z) : option Z :=
  match fuel with
  | O => None
  | S f => let j1 := j + 1 in
           if N0 <? j1 then None else if marked M j1 then scan_loop f M N0 (j1 + 1) else Some j1
  end.
Fixpoint erat_loop (F fuel : nat) (M : marks) (N0 n i : Z) (acc : list Z) : option (list Z) :=
  match fuel with
  | O => None
  | S f =>
    if i <=? Z.sqrt n then
      let ii := 2 * i in
      match mark_loop F M (i + ii) ii n with
      | None => None
      | Some (M', j) =>
        let hit := j - ii =? n in
        match (if hit then divide_out F n i else Some n) with
        | None => None
        | Some n' =>
          match scan_loop F M' N0 (i + 1) with
          | None => None
          | Some i' => erat_loop F f M' N0 n' i' (if hit then i :: acc else acc)
          end
        end
      end
    else Some (rev (if negb (marked M n) && (1 <? n) then n :: acc else acc))
  end.
Definition erat_model (p : Z) : option (list Z) :=
  if p <=? 0 then None else
  let even := negb (Z.odd p) in
  match (if even then halve (S (Z.to_nat p)) p else Some p) with
  | None => None
  | Some n => if INT_MAX - 1 <? n then None                             (* `(int)n + 1`, `new short[n + 1]`: outside int *)
              else let F := S (S (Z.to_nat n)) in erat_loop F F PositiveSet.empty n n 3 (if even then [2] else [])
  end.
