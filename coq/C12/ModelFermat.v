(* C12 — FermatDom (givintprime.C): fermat(f, n) = 2^(2^n) + 1 and Pepin's test
     pepin(fn): z = (fn - 1) / 2; y = 3^z mod fn; y = -(y - fn); return y == 1        i.e. 3^((fn-1)/2) = fn - 1 (mod fn)
   The base and the two constants of fermat() are read from the source (gen/Tables.v).  No proofs here. *)
From Coq Require Import ZArith.
Require Import C12.gen.Tables.
From C12 Require Import ModelScript.
Local Open Scope Z_scope.
Definition fermat_model (k : Z) : Z := 2 ^ (2 ^ k) + FERMAT_ADD.
Definition pepin_of (fn : Z) : bool :=
  let z := (fn - PEPIN_SUB) / PEPIN_DIV in
  let y := powmod PEPIN_BASE z fn in
  (- (y - fn)) =? 1.
Definition pepin_model (k : Z) : bool := pepin_of (fermat_model k).
