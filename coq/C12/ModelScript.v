(* C12 — second part of the executable model: the random walks themselves.  No proofs here.

   givintfactor.inl  IntFactorDom::Pollard (Brent's variant of the rho walk, both the bounded and the unbounded loop,
                     the "failure with the initial value" restart)                      -> rho_loop / pollard_s
   givintfactor.h    factor / iffactorprime / primefactor driven by that walk              -> factor_s / iffactorprime_s / primefactor_s
                     the same three called IN PLACE (result object == argument)            -> factor_inplace_model ...
   givintprime.inl   IntPrimeDom::Miller (one round of the strong pseudoprime test)        -> miller_model

   The only thing left outside is the random source: every `this->random(gen, y, n)` of the code takes the next value
   of a SCRIPT (list Z), reduced modulo n — the harness compiles IntFactorDom<ScriptRand> with exactly this random().
   So Pollard's answers are no longer oracle values: for a given script the whole call tree is determined, and the
   check chooses scripts that drive the rare paths (composite factor returned once, twice, three times; restart;
   loops exhausted) on every run.  None = the fuel / the script ran out. *)
From Coq Require Import ZArith List Bool.
Require Import C12.gen.Tables.
From C12 Require Import Model.
Import ListNotations.
Local Open Scope Z_scope.
Arguments Z.mul : simpl never.
Arguments Z.add : simpl never.
Arguments Z.gcd : simpl never.

Section Scripted.
  Variable isprime : Z -> bool.

  (* while (isOne(g) [&& (++c < threshold)]) {
         if (areEqual(p, addin(m, one))) { x = y; mulin(p, 2); }
         Pollard_fctin(y, n);                       y = (y*y + Pollard_cst) mod n
         gcd(g, sub(t, y, x), n); }
     thr = 0: the unbounded loop.  Result: (g, c) on leaving the loop. *)
  Fixpoint rho_loop (fuel : nat) (thr c n x y m p : Z) : option (Z * Z) :=
    match fuel with
    | O => None
    | S f =>
      let c' := c + 1 in
      if negb (thr =? 0) && negb (c' <? thr) then Some (1, c') else
      let m' := m + 1 in
      let hit := p =? m' in
      let x' := if hit then y else x in
      let p' := if hit then p * 2 else p in
      let y' := (y * y + POLLARD_CST) mod n in
      let g := Z.gcd (y' - x') n in
      if g =? 1 then rho_loop f thr c' n x' y' m' p' else Some (g, c')
    end.

  (* Pollard(gen, g, n, threshold):
       if (n < 3) return g = n;  if (isprime(n)) return g = n;
       g = 1; m = 0; p = 1; random(gen, y, n);  <loop>;
       if (g == n [&& c < threshold]) Pollard(gen, g, n, threshold [- c]);      -- a new random start
     result: (g, rest of the script) *)
  Fixpoint pollard_s (restarts fuel : nat) (ys : list Z) (n thr : Z) : option (Z * list Z) :=
    match restarts with
    | O => None
    | S k =>
      if n <? 3 then Some (n, ys) else
      if isprime n then Some (n, ys) else
      match ys with
      | [] => None
      | y0 :: ys' =>
        match rho_loop fuel thr 0 n 0 (y0 mod n) 0 1 with
        | None => None
        | Some (g, c) =>
          if (g =? n) && ((thr =? 0) || (c <? thr)) then pollard_s k fuel ys' n (if thr =? 0 then 0 else thr - c)
          else Some (g, ys')
        end
      end
    end.

  (* Lenstra is reached by iffactorprime only when the splitting step did not move (r == nn), which the unbounded walk
     never produces for a composite; its trivial front end is modelled, the curves are not (None). *)
  Definition lenstra_s (n : Z) : option Z :=
    if n <? 3 then Some n else if isprime n then Some n
    else if n mod 2 =? 0 then Some 2 else if n mod 3 =? 0 then Some 3 else None.

  Definition factor_s (restarts fuel : nat) (ys : list Z) (n thr : Z) : option (Z * list Z) :=
    if Z.gcd n PROD_FIRST =? 1 then
      if Z.gcd n PROD_SECOND =? 1 then pollard_s restarts fuel ys n thr else Some (factor_second n, ys)
    else Some (factor_first n, ys).

  (* while (!isprime(r)) { Rep nn = r; <factor's cascade>(r, nn); if (r == nn) { Lenstra(r, nn); break; } }
     the third component counts the passes through the loop body (evidence: which path was driven) *)
  Fixpoint ifp_loop_s (loopfuel restarts fuel : nat) (ys : list Z) (r thr passes : Z) : option (Z * list Z * Z) :=
    match loopfuel with
    | O => None
    | S lf =>
      if isprime r then Some (r, ys, passes) else
      match factor_s restarts fuel ys r thr with
      | None => None
      | Some (r', ys') =>
        if r' =? r then match lenstra_s r with None => None | Some g => Some (g, ys', passes + 1) end
        else ifp_loop_s lf restarts fuel ys' r' thr (passes + 1)
      end
    end.

  (* iffactorprime(r, n, loops) *)
  Definition iffactorprime_s (loopfuel restarts fuel : nat) (ys : list Z) (n thr : Z) : option (Z * list Z * Z) :=
    match factor_s restarts fuel ys n thr with
    | None => None
    | Some (r, ys1) =>
      if r =? 1 then Some (r, ys1, 0) else
      if isprime r then ifp_loop_s loopfuel restarts fuel ys1 r thr 0 else
      match factor_s restarts fuel ys1 r thr with
      | None => None
      | Some (r2, ys2) => ifp_loop_s loopfuel restarts fuel ys2 r2 thr 0
      end
    end.

  (* primefactor(r, n): while (iffactorprime(r, n, 0) == 1 [&& n > 1] && !isprime(n)) {} *)
  Fixpoint primefactor_s (tries loopfuel restarts fuel : nat) (ys : list Z) (n : Z) : option (Z * list Z * Z) :=
    match tries with
    | O => None
    | S t =>
      match iffactorprime_s loopfuel restarts fuel ys n 0 with
      | None => None
      | Some (r, ys', passes) =>
        if (r =? 1) && (if PRIMEFACTOR_GUARD then n >? 1 else true) && negb (isprime n)
        then primefactor_s t loopfuel restarts fuel ys' n
        else Some (r, ys', passes)
      end
    end.

  (* ---------------------------------------------------------------- the in-place call forms
     factor(r, r): without a guard the first gcd overwrites n with gcd(n, PROD_first_primes); every mod(tmp, n, p) of
     the cascade overwrites it again with n mod p. *)
  Fixpoint pick_inplace (tests : list (Z * Z)) (d n : Z) : Z :=
    match tests with
    | [] => d
    | (t, r) :: rest => let n' := n mod t in if n' =? 0 then r else pick_inplace rest d n'
    end.
  Definition factor_inplace_s (restarts fuel : nat) (ys : list Z) (n thr : Z) : option (Z * list Z) :=
    if FACTOR_INPLACE_GUARD then factor_s restarts fuel ys n thr else
    let g := Z.gcd n PROD_FIRST in
    if g =? 1 then
      (let g2 := Z.gcd g PROD_SECOND in
       if g2 =? 1 then pollard_s restarts fuel ys g2 thr else Some (pick_inplace SECOND_TESTS SECOND_DEFAULT g2, ys))
    else Some (pick_inplace FIRST_TESTS FIRST_DEFAULT g, ys).
  (* iffactorprime(r, r): after the first factor() the argument is not read again *)
  Definition iffactorprime_inplace_s (loopfuel restarts fuel : nat) (ys : list Z) (n thr : Z) : option (Z * list Z * Z) :=
    match factor_inplace_s restarts fuel ys n thr with
    | None => None
    | Some (r, ys1) =>
      if r =? 1 then Some (r, ys1, 0) else
      if isprime r then ifp_loop_s loopfuel restarts fuel ys1 r thr 0 else
      match factor_s restarts fuel ys1 r thr with
      | None => None
      | Some (r2, ys2) => ifp_loop_s loopfuel restarts fuel ys2 r2 thr 0
      end
    end.
  (* Pollard(gen, g, g): without a guard `g = 1` resets n: the walk runs modulo 1 for ever (None) *)
  Definition pollard_inplace_s (restarts fuel : nat) (ys : list Z) (n thr : Z) : option (Z * list Z) :=
    if POLLARD_INPLACE_GUARD then pollard_s restarts fuel ys n thr else
    if n <? 3 then Some (n, ys) else if isprime n then Some (n, ys) else
    if thr =? 0 then None else Some (1, tl ys).
End Scripted.

(* ---------------------------------------------------------------- IntPrimeDom::Miller(g, n), witness a from the script
   if (n < 2) return 0; if (n <= 3) return 1;
   t = n - 1; random(g, a, n) [nonzerorandom once repaired]; s = 0; for (; !(t & 1); t >>= 1, ++s) {}
   powmod(q, a, t, n); if (q == 1 || q == n - 1) return 1;
   for (; --s > 0;) { q = q*q % n; if (q == n - 1) return 1; }  return 0; *)
Fixpoint powmod_n (fuel : nat) (a e n acc : Z) : Z :=       (* right-to-left binary powering; value = acc * a^e mod n *)
  match fuel with
  | O => acc
  | S f => if e <=? 0 then acc else
           powmod_n f (a * a mod n) (e / 2) n (if Z.odd e then acc * a mod n else acc)
  end.
Definition powmod (a e n : Z) : Z := powmod_n (S (Z.to_nat (Z.log2 e + 1))) (a mod n) e n (1 mod n).
Fixpoint split2 (fuel : nat) (t s : Z) : Z * Z :=
  match fuel with O => (t, s) | S f => if Z.odd t then (t, s) else split2 f (t / 2) (s + 1) end.
Fixpoint miller_squares (fuel : nat) (s q n : Z) : bool :=
  match fuel with
  | O => false
  | S f => let s' := s - 1 in
           if s' >? 0 then (let q' := q * q mod n in if q' =? n - 1 then true else miller_squares f s' q' n) else false
  end.
(* first script value that random / nonzerorandom accepts *)
Fixpoint draw (nonzero : bool) (ys : list Z) (n : Z) : option Z :=
  match ys with
  | [] => None
  | y :: t => let a := y mod n in if nonzero && (a =? 0) then draw nonzero t n else Some a
  end.
Definition miller_model (ys : list Z) (n : Z) : option bool :=
  if n <? 2 then Some false else if n <=? 3 then Some true else
  match draw MILLER_NONZERO ys n with
  | None => None
  | Some a =>
    let '(t, s) := split2 (Z.to_nat (Z.log2 n + 1)) (n - 1) 0 in
    let q := powmod a t n in
    if (q =? 1) || (q =? n - 1) then Some true else Some (miller_squares (Z.to_nat s) s q n)
  end.

(* ---------------------------------------------------------------- complete factorisation on the scripted walk
   set(Lf, Lo, n, loops) and divisors(L, n) with iffactorprime_s as the factor finder: the script is threaded through the
   successive calls in Coq (no glue outside the extracted code).  Result: (factor list, complete flag, rest of the script). *)
Section ScriptedSet.
  Variable isprime : Z -> bool.
  Fixpoint set2_loop_s (fuel loopfuel restarts rhofuel : nat) (ys : list Z) (nn thr : Z) : option (list (Z * Z) * bool * list Z) :=
    match fuel with
    | O => None
    | S f =>
      if nn >? 1 then
        match iffactorprime_s isprime loopfuel restarts rhofuel ys nn thr with
        | None => None
        | Some (g0, ys', _) =>
          let g := if g0 =? 1 then nn else g0 in
          match strip (S fuel) g (divexact nn g) 0 with
          | None => None
          | Some (nn', c) =>
            match set2_loop_s f loopfuel restarts rhofuel ys' nn' thr with
            | None => None
            | Some (rest, fl, ys'') => Some ((g, c) :: rest, if g0 =? 1 then false else fl, ys'')
            end
          end
        end
      else Some ([], true, ys)
    end.
  Definition set2_s (fuel loopfuel restarts rhofuel : nat) (ys : list Z) (n thr : Z) : option (list (Z * Z) * bool * list Z) :=
    set2_loop_s fuel loopfuel restarts rhofuel ys (if n <? 0 then - n else n) thr.
  (* divisors(L, n) = set(Lf, Le, n) [loops = 0] then divisors(L, Lf, Le) *)
  Definition divisors_of_s (fuel loopfuel restarts rhofuel : nat) (ys : list Z) (n : Z) : option (list Z * list Z) :=
    match set2_s fuel loopfuel restarts rhofuel ys n 0 with
    | None => None
    | Some (l, _, ys') => Some (divisors_model l, ys')
    end.
End ScriptedSet.
