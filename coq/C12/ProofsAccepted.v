(* The statements for the ACCEPTED (repaired) state of the source.  Sixteen repairs of this area are in /repo; the flags and low-end
   constants that gen/Tables.v reads from the source say whether each is still there.  Every statement here begins with the flag having
   its repaired value (proved by computation on the generated constant), so a regression of the source makes THIS FILE fail - the
   theorems are no longer "true for either source" (dichotomies) or vacuously true (`FLAG = true ->` premises).  The dichotomy lemmas
   in the older files are kept as history of the unrepaired bodies. *)
From Coq Require Import ZArith Znumtheory Lia List Bool.
Require Import C12.gen.Tables.
From C12 Require Import PrimeB Model ModelScript ProofsTable ProofsNext ProofsPower ProofsComplete ProofsScript ProofsDecide.
Import ListNotations.
Local Open Scope Z_scope.

Ltac bad_side H := exfalso; vm_compute in H; discriminate H.

Definition Isprime_below_2_ok : Prop :=
  ISPRIME_HAS_GUARD = true /\ forall lp n, n < 2 -> isprime_model lp n = Some false.
Lemma isprime_below_2_ok : Isprime_below_2_ok.
Proof. destruct isprime_below_2 as [H|[Hf _]]; [exact H|bad_side Hf]. Qed.

Definition Isprime_all_ok : Prop :=
  ISPRIME_HAS_GUARD = true /\
  forall lp : Z -> bool, (forall n, 65536 <= n -> (lp n = true <-> prime n)) ->
  forall n, exists b, isprime_model lp n = Some b /\ (b = true <-> prime n).
Lemma isprime_all_ok : Isprime_all_ok.
Proof. split; [reflexivity|exact (isprime_all eq_refl)]. Qed.

Definition Prevprime_at_3_ok : Prop :=
  PREV_LOW = 3 /\ PREVIN_LOW = 3 /\ forall isprime fuel alias, prevprime_model isprime fuel alias 3 = Some 2.
Lemma prevprime_at_3_ok : Prevprime_at_3_ok.
Proof. destruct prevprime_at_3 as [H|[Hf _]]; [exact H|bad_side Hf]. Qed.

Definition Protected_prevprime_at_3_ok : Prop :=
  PPREV_LOW = 3 /\ forall isprime fuel, protected_prevprime_model isprime fuel 3 = Some 2.
Lemma protected_prevprime_at_3_ok : Protected_prevprime_at_3_ok.
Proof. destruct protected_prevprime_at_3 as [H|[Hf _]]; [exact H|bad_side Hf]. Qed.

Definition Factor_inplace_ok : Prop :=
  FACTOR_INPLACE_GUARD = true /\
  forall isprime restarts fuel ys n thr, factor_inplace_s isprime restarts fuel ys n thr = factor_s isprime restarts fuel ys n thr.
Lemma factor_inplace_ok : Factor_inplace_ok.
Proof. destruct factor_inplace as [H|[Hf _]]; [exact H|bad_side Hf]. Qed.

Definition Pollard_inplace_ok : Prop :=
  POLLARD_INPLACE_GUARD = true /\
  forall isprime restarts fuel ys n thr, pollard_inplace_s isprime restarts fuel ys n thr = pollard_s isprime restarts fuel ys n thr.
Lemma pollard_inplace_ok : Pollard_inplace_ok.
Proof. destruct pollard_inplace as [H|[Hf _]]; [exact H|bad_side Hf]. Qed.

Definition Miller_zero_ok : Prop :=
  MILLER_NONZERO = true /\ forall ys n, miller_model (0 :: ys) n = miller_model ys n.
Lemma miller_zero_ok : Miller_zero_ok.
Proof. destruct miller_zero as [H|[Hf _]]; [exact H|bad_side Hf]. Qed.

Definition Isprimepower_complete_ok : Prop :=
  IPP_RECURSE = true /\
  forall isprime root, isprime_exact isprime -> root_exact root ->
  forall r e, prime r -> 2 <= e ->
  forall depth fuel q0, (Z.to_nat e < fuel)%nat -> (Z.to_nat e <= depth)%nat ->
    isprimepower_model isprime root depth fuel q0 (r ^ e) = Some (e, r).
Lemma isprimepower_complete_ok : Isprimepower_complete_ok.
Proof. split; [reflexivity|exact (isprimepower_complete eq_refl)]. Qed.

Definition Isprimepower_decides_ok : Prop :=
  IPP_RECURSE = true /\ IPP_NEG_GUARD = true /\ IPP_ZERO_RET = 0 /\
  forall isprime root, isprime_exact isprime -> root_sound root -> root_exact root ->
  forall depth fuel q0 u e q, 0 < u ->
    (Z.to_nat (Z.log2 u) < fuel)%nat -> (Z.to_nat (Z.log2 u) <= depth)%nat ->
    isprimepower_model isprime root depth fuel q0 u = Some (e, q) ->
    (2 <= e /\ prime q /\ q ^ e = u) \/ (e = 0 /\ ~ proper_prime_power u).
Lemma isprimepower_decides_ok : Isprimepower_decides_ok.
Proof. split; [reflexivity|]. split; [reflexivity|]. split; [reflexivity|exact (isprimepower_decides eq_refl)]. Qed.

(* u <= 0 in the accepted state: 0 and every negative integer are answered 0 (no crash, no claim) *)
Definition Isprimepower_nonpositive_ok : Prop :=
  forall isprime root depth fuel q0 u, u <= 0 -> isprimepower_model isprime root (S depth) fuel q0 u = Some (0, q0).
Lemma isprimepower_nonpositive_ok : Isprimepower_nonpositive_ok.
Proof.
  intros isprime root depth fuel q0 u Hu. cbn [isprimepower_model]. unfold isprimepower_body.
  destruct (Z.eqb_spec u 0) as [E|E]; [reflexivity|].
  change IPP_NEG_GUARD with true. destruct (Z.ltb_spec u 0); [reflexivity|lia].
Qed.

(* primefactor / set(Lf, n) guards of the accepted state *)
Lemma other_flags_ok : PRIMEFACTOR_GUARD = true /\ SET1_ABS = true /\ LENSTRA_INPLACE_GUARD = true /\ ISPRIME_GUARD = 2
                       /\ NEXT_LOW = 1 /\ NEXTIN_LOW = 1.
Proof. repeat split; reflexivity. Qed.
