(* isprimepower: completeness.  For every prime r and every e >= 2 the model answers (e, r) on r^e, for ANY
   primality oracle that is exact and ANY root oracle that returns the floor root with a truthful "exact" flag,
   given enough fuel / recursion depth -- for the source as repaired (recursion on a non-prime exact root). *)
From Coq Require Import ZArith Znumtheory Zpow_facts Lia List Bool.
Require Import C12.gen.Tables.
From C12 Require Import PrimeB Model ProofsSweep ProofsPPTable ProofsFactor ProofsPower.
Import ListNotations.
Local Open Scope Z_scope.

Definition isprime_exact (isprime : Z -> bool) : Prop := forall m, isprime m = true <-> prime m.
Definition root_exact (root : Z -> Z -> option (Z * bool)) : Prop :=
  forall a k, 0 < a -> 2 <= k ->
    exists q ex, root a k = Some (q, ex) /\ 0 <= q /\ q ^ k <= a < (q + 1) ^ k /\ (ex = true <-> q ^ k = a).

(* ---------------------------------------------------------------- arithmetic of prime powers *)
Lemma pow_prime_root : forall r e x k, prime r -> 0 <= e -> 0 <= x -> 0 < k -> x ^ k = r ^ e ->
  exists m, 0 <= m /\ x = r ^ m /\ m * k = e.
Proof.
  intros r e x k Hr He Hx Hk H. pose proof (prime_ge_2 _ Hr) as Hr2.
  assert (Hdiv : (x | r ^ e)).
  { rewrite <- H. exists (x ^ (k - 1)). replace k with ((k - 1) + 1) at 1 by lia. rewrite Z.pow_add_r by lia. rewrite Z.pow_1_r. ring. }
  destruct (Zdivide_power_2 x r e He Hx Hr Hdiv) as [m Hm].
  assert (Hm0 : 0 <= m).
  { destruct (Z_lt_le_dec m 0) as [Hneg|]; [|assumption]. exfalso.
    rewrite Z.pow_neg_r in Hm by exact Hneg. subst x. rewrite Z.pow_0_l in H by lia.
    assert (0 < r ^ e) by (apply Z.pow_pos_nonneg; lia). lia. }
  exists m. split; [exact Hm0|]. split; [exact Hm|].
  subst x. rewrite <- Z.pow_mul_r in H by lia. apply (Z.pow_inj_r r); [lia|nia|exact He|exact H].
Qed.

Lemma prime_power_not_prime : forall r e, prime r -> 2 <= e -> ~ prime (r ^ e).
Proof.
  intros r e Hr He Hp. pose proof (prime_ge_2 _ Hr) as Hr2.
  apply prime_alt in Hp. destruct Hp as [_ Hp]. apply (Hp r).
  - split; [lia|]. replace e with (1 + (e - 1)) by lia. rewrite Z.pow_add_r by lia. rewrite Z.pow_1_r.
    assert (1 < r ^ (e - 1)) by (apply Z.pow_gt_1; lia). nia.
  - exists (r ^ (e - 1)). replace e with ((e - 1) + 1) at 1 by lia. rewrite Z.pow_add_r by lia. rewrite Z.pow_1_r. ring.
Qed.

Lemma other_prime_not_dividing : forall p r e, prime p -> prime r -> p <> r -> 0 <= e -> (r ^ e) mod p <> 0.
Proof.
  intros p r e Hp Hr Hne He H. pose proof (prime_ge_2 _ Hp).
  apply Z.mod_divide in H; [|lia]. apply Hne. apply (prime_power_prime p r e He Hp Hr H).
Qed.

(* ---------------------------------------------------------------- the root loop *)
Section RootLoop.
  Variable isprime : Z -> bool.
  Variable root : Z -> Z -> option (Z * bool).
  Hypothesis Hip : isprime_exact isprime.
  Hypothesis Hroot : root_exact root.
  Hypothesis Hrec : IPP_RECURSE = true.
  Variable r : Z.
  Hypothesis Hr : prime r.
  Hypothesis Hbig : SMALLEST_OMITTED_PRIME <= r.

  (* rec answers correctly on every smaller proper power of r *)
  Lemma pp_root_complete : forall rec e,
    2 <= e ->
    (forall e', 2 <= e' < e -> rec (r ^ e') = Some (e', r)) ->
    forall fuel nth, 2 <= nth <= e -> (forall p, prime p -> p < nth -> ~ (p | e)) ->
      (Z.to_nat (e - nth) < fuel)%nat ->
      pp_root isprime root rec fuel nth (r ^ e) = Some (e, r).
  Proof.
    intros rec e He Hrecok. pose proof (prime_ge_2 _ Hr) as Hr2.
    assert (Hu : 0 < r ^ e) by (apply Z.pow_pos_nonneg; lia).
    induction fuel as [|f IH]; intros nth Hn Hsmall Hf; [lia|].
    (* some prime divides e, and it is >= nth *)
    assert (Hnext : ~ (prime nth /\ (nth | e)) -> nth < e).
    { intro Hnot. destruct (prime_factor_exists e ltac:(lia)) as [p [Hp Hpe]].
      assert (p <= e) by (apply Z.divide_pos_le; [lia|exact Hpe]).
      destruct (Z_lt_le_dec p nth) as [Hlt|Hge]; [exfalso; exact (Hsmall p Hp Hlt Hpe)|].
      destruct (Z.eq_dec p nth) as [->|]; [exfalso; apply Hnot; split; assumption|lia]. }
    cbn [pp_root]. destruct (isprime nth) eqn:En; cbn [negb].
    2:{ assert (Hnp : ~ prime nth) by (intro Hp; apply Hip in Hp; congruence).
        assert (nth < e) by (apply Hnext; intros [Hp _]; exact (Hnp Hp)).
        apply IH; [lia| |lia]. intros p Hp Hlt. destruct (Z.eq_dec p nth) as [->|]; [contradiction|apply Hsmall; [exact Hp|lia]]. }
    apply Hip in En.
    destruct (Hroot (r ^ e) nth Hu ltac:(lia)) as [q [ex [Eroot [Hq0 [Hqb Hex]]]]]. rewrite Eroot.
    destruct ex.
    - (* exact: nth divides e *)
      assert (Hqe : q ^ nth = r ^ e) by (apply Hex; reflexivity).
      destruct (pow_prime_root r e q nth Hr ltac:(lia) Hq0 ltac:(lia) Hqe) as [m [Hm0 [Hqm Hme]]].
      destruct (Z.eq_dec m 1) as [->|Hm1].
      + rewrite Z.pow_1_r in Hqm. subst q. assert (isprime r = true) by (apply Hip; exact Hr). rewrite H.
        f_equal. f_equal. lia.
      + assert (Hm2 : 2 <= m) by (destruct (Z.eq_dec m 0) as [->|]; [lia|lia]).
        assert (Hnotp : isprime q = false).
        { destruct (isprime q) eqn:Eq; [|reflexivity]. apply Hip in Eq. subst q. exfalso. exact (prime_power_not_prime r m Hr Hm2 Eq). }
        rewrite Hnotp, Hrec.
        assert (Hq1 : 1 < q) by (subst q; apply Z.pow_gt_1; lia).
        destruct (Z.leb_spec q 1); [lia|].
        subst q. rewrite (Hrecok m) by nia. f_equal. f_equal. lia.
    - (* not exact: nth does not divide e, the floor root is >= r >= SMALLEST_OMITTED_PRIME *)
      assert (Hnd : ~ (nth | e)).
      { intros [c Hc]. assert (Hc0 : 0 <= c) by nia.
        assert (Hpow : (r ^ c) ^ nth = r ^ e) by (rewrite <- Z.pow_mul_r by lia; f_equal; lia).
        assert (q = r ^ c).
        { (* the floor root of a perfect power is its root *)
          assert (Hrc : 0 <= r ^ c) by (apply Z.pow_nonneg; lia).
          destruct (Z_lt_le_dec q (r ^ c)) as [Hlt|Hge].
          - exfalso. assert ((q + 1) ^ nth <= (r ^ c) ^ nth) by (apply Z.pow_le_mono_l; lia). lia.
          - destruct (Z.eq_dec q (r ^ c)); [assumption|]. exfalso.
            assert ((r ^ c) ^ nth < q ^ nth) by (apply Z.pow_lt_mono_l; lia). lia. }
        subst q. assert (false = true) by (apply Hex; exact Hpow). discriminate. }
      assert (Hlt : nth < e) by (apply Hnext; intros [_ Hd]; exact (Hnd Hd)).
      assert (Hqr : r <= q).
      { destruct (Z_lt_le_dec q r) as [Hl|]; [|assumption]. exfalso.
        assert ((q + 1) ^ nth <= r ^ nth) by (apply Z.pow_le_mono_l; lia).
        assert (r ^ nth <= r ^ e) by (apply Z.pow_le_mono_r; lia). lia. }
      destruct (Z.ltb_spec (Z.abs q) SMALLEST_OMITTED_PRIME); [lia|].
      apply IH; [lia| |lia]. intros p Hp Hl. destruct (Z.eq_dec p nth) as [->|]; [exact Hnd|apply Hsmall; [exact Hp|lia]].
  Qed.
End RootLoop.

(* ---------------------------------------------------------------- the 2-adic part and the table loop *)
Lemma land3_mod4 : forall u, Z.land (Z.abs u mod 18446744073709551616) 3 = Z.abs u mod 4.
Proof.
  intro u. change 3 with (Z.ones 2). rewrite Z.land_ones by lia. change (2 ^ 2) with 4.
  symmetry. apply Zmod_div_mod; [lia|lia|]. exists 4611686018427387904. reflexivity.
Qed.

Lemma tz_pow2 : forall k, 0 <= k -> forall t n2 fuel, Z.odd t = true -> 0 < t -> (Z.to_nat k < fuel)%nat ->
  tz fuel (t * 2 ^ k) n2 = Some (t, n2 + k).
Proof.
  intros k Hk. pattern k. apply natlike_ind; [| |exact Hk]; clear k Hk.
  - intros t n2 fuel Ho Ht Hf. destruct fuel as [|f]; [lia|]. cbn [tz]. rewrite Z.pow_0_r, Z.mul_1_r, Ho. f_equal. f_equal. lia.
  - intros k Hk IH t n2 fuel Ho Ht Hf. destruct fuel as [|f]; [lia|]. cbn [tz].
    assert (E : t * 2 ^ Z.succ k = (t * 2 ^ k) * 2) by (rewrite Z.pow_succ_r by exact Hk; ring).
    rewrite E. rewrite Z.odd_mul. cbn [Z.odd]. rewrite andb_false_r.
    rewrite Z.quot_mul by lia. rewrite IH; [f_equal; f_equal; lia|exact Ho|exact Ht|lia].
Qed.

Lemma mult_loop_pow : forall r, 1 < r -> forall k, 0 <= k -> forall fuel n, (Z.to_nat k < fuel)%nat ->
  mult_loop fuel r (r ^ k) n = Some (1, 0, n + k).
Proof.
  intros r Hr k Hk. pattern k. apply natlike_ind; [| |exact Hk]; clear k Hk.
  - intros fuel n Hf. destruct fuel as [|f]; [lia|]. cbn [mult_loop]. rewrite Z.pow_0_r.
    rewrite Z.mod_1_l by lia. cbn. rewrite Z.div_1_l by lia. f_equal. f_equal. lia.
  - intros k Hk IH fuel n Hf. destruct fuel as [|f]; [lia|]. cbn [mult_loop].
    rewrite Z.pow_succ_r by exact Hk. rewrite (Z.mul_comm r). rewrite Z.mod_mul by lia. cbn [Z.eqb].
    rewrite Z.div_mul by lia. rewrite IH by lia. f_equal. f_equal. lia.
Qed.

Lemma pp_small_found : forall r e fuel, prime r -> 2 <= e -> (Z.to_nat e < fuel)%nat ->
  forall l rest, Forall prime l -> In r l -> pp_small fuel (l ++ rest) (r ^ e) = Some (Some (e, r)).
Proof.
  intros r e fuel Hr He Hf. pose proof (prime_ge_2 _ Hr) as Hr2.
  induction l as [|p l IH]; intros rest Hall Hin; [destruct Hin|].
  inversion Hall as [|? ? Hp Hl]; subst. pose proof (prime_ge_2 _ Hp) as Hp2.
  cbn [app pp_small]. destruct (Z.eqb_spec p 0); [lia|].
  destruct (Z.eq_dec p r) as [->|Hne].
  - assert (E1 : r ^ e = r ^ (e - 1) * r) by (replace e with ((e - 1) + 1) at 1 by lia; rewrite Z.pow_add_r by lia; rewrite Z.pow_1_r; reflexivity).
    assert (E2 : r ^ e = r ^ (e - 2) * (r * r)) by (replace e with ((e - 2) + 2) at 1 by lia; rewrite Z.pow_add_r by lia; rewrite Z.pow_2_r; reflexivity).
    assert (M1 : r ^ e mod r = 0) by (rewrite E1; apply Z.mod_mul; lia).
    assert (M2 : r ^ e mod (r * r) = 0) by (rewrite E2; apply Z.mod_mul; nia).
    assert (D2 : r ^ e / (r * r) = r ^ (e - 2)) by (rewrite E2; apply Z.div_mul; nia).
    rewrite M1, M2, D2. cbn [Z.eqb negb]. rewrite mult_loop_pow by lia. cbn [Z.abs Z.eqb Pos.eqb].
    f_equal. f_equal. f_equal. lia.
  - destruct Hin as [Heq|Hin]; [congruence|].
    destruct (Z.eqb_spec (r ^ e mod p) 0) as [E|E]; [exfalso; exact (other_prime_not_dividing p r e Hp Hr Hne ltac:(lia) E)|].
    apply IH; assumption.
Qed.

Lemma pp_small_none : forall r e fuel, prime r -> 0 <= e ->
  forall l rest, Forall (fun p => prime p /\ p <> r) l -> pp_small fuel (l ++ 0 :: rest) (r ^ e) = Some None.
Proof.
  intros r e fuel Hr He. induction l as [|p l IH]; intros rest Hall; cbn [app pp_small]; [reflexivity|].
  inversion Hall as [|? ? [Hp Hne] Hl]; subst. pose proof (prime_ge_2 _ Hp).
  destruct (Z.eqb_spec p 0); [lia|].
  destruct (Z.eqb_spec (r ^ e mod p) 0) as [E|E]; [exfalso; exact (other_prime_not_dividing p r e Hp Hr Hne He E)|].
  apply IH. exact Hl.
Qed.

(* the shape of the small-prime table, from the sweep of ProofsPrimes16 *)
Local Notation FT := (filter primeb (Zseq 0 PPLEN)).
Lemma FT_head : list_eqb FT (2 :: tl FT) = true. Proof. vm_compute. reflexivity. Qed.
Lemma FT_tail : list_eqb (tl PP_PRIMES) (tl FT ++ [0]) = true. Proof. vm_compute. reflexivity. Qed.
Lemma FT_nonempty : (match tl FT with [] => false | _ => true end) = true. Proof. vm_compute. reflexivity. Qed.

Lemma table_shape : exists L, tl PP_PRIMES = L ++ [0] /\ L <> [] /\ Forall prime L
  /\ (forall p, In p L -> p < SMALLEST_OMITTED_PRIME)
  /\ (forall p, prime p -> 2 < p < SMALLEST_OMITTED_PRIME -> In p L).
Proof.
  destruct pp_primes_correct as (E & Hin & Hall).
  pose proof (list_eqb_eq _ _ FT_head) as HF. pose proof (list_eqb_eq _ _ FT_tail) as HT.
  exists (tl FT). split; [exact HT|]. split; [intro E0; pose proof FT_nonempty as N; rewrite E0 in N; discriminate|].
  assert (Hsub : forall p, In p (tl FT) -> In p PP_PRIMES /\ p <> 0).
  { intros p Hp. assert (HpF : In p FT) by (rewrite HF; right; exact Hp). split.
    - rewrite E. apply in_or_app. left. exact HpF.
    - apply filter_In in HpF. destruct HpF as [_ Hpb]. apply primeb_spec in Hpb. pose proof (prime_ge_2 _ Hpb). lia. }
  split; [|split].
  - apply Forall_forall. intros p Hp. destruct (Hsub p Hp) as [H1 H2]. destruct (Hin p H1) as [->|[Hpr _]]; [congruence|exact Hpr].
  - intros p Hp. destruct (Hsub p Hp) as [H1 H2]. destruct (Hin p H1) as [->|[_ Hlt]]; [congruence|exact Hlt].
  - intros p Hp Hr. pose proof (Hall p Hp ltac:(lia)) as HI. rewrite E in HI. apply in_app_or in HI.
    destruct HI as [HI|[HI|[]]]; [|lia]. rewrite HF in HI. destruct HI as [HI|HI]; [lia|exact HI].
Qed.

(* ---------------------------------------------------------------- the theorem *)
Definition Isprimepower_complete_stmt : Prop :=
  IPP_RECURSE = true ->
  forall isprime root, isprime_exact isprime -> root_exact root ->
  forall r e, prime r -> 2 <= e ->
  forall depth fuel q0, (Z.to_nat e < fuel)%nat -> (Z.to_nat e <= depth)%nat ->
    isprimepower_model isprime root depth fuel q0 (r ^ e) = Some (e, r).

Lemma isprimepower_complete : Isprimepower_complete_stmt.
Proof.
  intros Hrec isprime root Hip Hroot r e Hr He depth. revert e He.
  induction depth as [|d IHd]; intros e He fuel q0 Hf Hd; [lia|].
  pose proof (prime_ge_2 _ Hr) as Hr2.
  assert (Hu : 0 < r ^ e) by (apply Z.pow_pos_nonneg; lia).
  cbn [isprimepower_model]. unfold isprimepower_body.
  destruct (Z.eqb_spec (r ^ e) 0); [lia|].
  assert (Hneg : IPP_NEG_GUARD && (r ^ e <? 0) = false) by (destruct (Z.ltb_spec (r ^ e) 0); [lia|apply andb_false_r]).
  rewrite Hneg, land3_mod4. rewrite Z.abs_eq by lia.
  destruct (Z.eq_dec r 2) as [->|Hr3].
  - (* powers of two *)
    assert (E4 : 2 ^ e = 2 ^ (e - 2) * 4) by (replace e with ((e - 2) + 2) at 1 by lia; rewrite Z.pow_add_r by lia; reflexivity).
    assert (M4 : 2 ^ e mod 4 = 0) by (rewrite E4; apply Z.mod_mul; lia). rewrite M4. cbn [Z.eqb].
    replace (2 ^ e) with (1 * 2 ^ e) by ring. rewrite tz_pow2; [|lia|reflexivity|lia|lia].
    destruct (Z.gtb_spec (0 + e) 0); [|lia]. cbn [Z.eqb Pos.eqb]. rewrite Z.add_0_l. reflexivity.
  - (* odd primes *)
    assert (Hodd : Z.odd r = true).
    { destruct (Z.odd r) eqn:Eo; [reflexivity|]. exfalso. apply (even_not_prime r); [lia|rewrite <- Z.negb_odd, Eo; reflexivity|exact Hr]. }
    assert (Hoddu : Z.odd (r ^ e) = true) by (rewrite Z.odd_pow by lia; exact Hodd).
    assert (M4 : (r ^ e mod 4 =? 2) = false).
    { apply Z.eqb_neq. intro E. assert (Z.odd (r ^ e) = Z.odd (r ^ e mod 4)).
      { rewrite (Z.div_mod (r ^ e) 4) at 1 by lia. rewrite Z.odd_add, Z.odd_mul. cbn [Z.odd andb xorb]. destruct (Z.odd (r ^ e mod 4)); reflexivity. }
      rewrite E, Hoddu in H. discriminate. }
    rewrite M4.
    assert (Htz : tz fuel (r ^ e) 0 = Some (r ^ e, 0)) by (destruct fuel; [lia|cbn [tz]; rewrite Hoddu; reflexivity]).
    rewrite Htz. cbn [Z.gtb Z.compare].
    destruct table_shape as [L [Etl [HLne [HLp [HLlt HLall]]]]].
    destruct (Z_lt_le_dec r SMALLEST_OMITTED_PRIME) as [Hsmall|Hbig].
    + rewrite Etl. rewrite (pp_small_found r e fuel Hr He Hf L [0] HLp); [reflexivity|]. apply HLall; [exact Hr|lia].
    + rewrite Etl. rewrite (pp_small_none r e fuel Hr ltac:(lia) L []).
      2:{ apply Forall_forall. intros p Hp. rewrite Forall_forall in HLp. split; [exact (HLp p Hp)|]. specialize (HLlt p Hp). lia. }
      assert (Hhd : match L ++ [0] with p :: _ => if p =? 0 then 0 else r ^ e | [] => 0 end = r ^ e).
      { destruct L as [|p0 L']; [congruence|]. cbn [app]. rewrite Forall_forall in HLp. pose proof (prime_ge_2 _ (HLp p0 (or_introl eq_refl))).
        destruct (Z.eqb_spec p0 0); [lia|reflexivity]. }
      rewrite Hhd.
      apply (pp_root_complete isprime root Hip Hroot Hrec r Hr Hbig); [exact He| |lia| |lia].
      * intros e' He'. apply IHd; [lia|lia|lia].
      * intros p Hp Hlt. pose proof (prime_ge_2 _ Hp). lia.
Qed.

(* an executable instance (square roots only are needed here): 1013^4 -> (4, 1013) through the recursion *)
Definition sqrt_root (a k : Z) : option (Z * bool) :=
  if k =? 2 then Some (Z.sqrt a, Z.sqrt a * Z.sqrt a =? a) else None.
Example isprimepower_example :
  IPP_RECURSE = true -> isprimepower_model primeb sqrt_root 4 20 0 (1013 ^ 4) = Some (4, 1013).
Proof. intro H. vm_compute in H. first [discriminate H | (vm_compute; reflexivity)]. Qed.
