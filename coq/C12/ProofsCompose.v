(* Composition: the sentences of the property about the COMPOSED functions.
   1. isprime_total lp (what the driver and every composed model use as primality test) is exact for every n, given only GMP above 65536.
   2. next/prevprime with that test: closest prime, none skipped, 2 at the low end (no abstract oracle left).
   3. set(Lf,Lo,n,loops) with the scripted iffactorprime as factor finder (script threaded in Coq): distinct factors > 1, exponents >= 1,
      product |n|; all prime when flagged complete; with loops = 0 always complete and all prime.
   4. divisors(L, n) on top of it: exactly the positive divisors of n, no repetition. *)
From Coq Require Import ZArith Znumtheory Lia List Bool.
Require Import C12.gen.Tables.
From C12 Require Import PrimeB Model ModelScript ProofsTable ProofsNext ProofsFactor ProofsDivisors ProofsDivisorsNoDup ProofsComplete ProofsScript ProofsDecide.
Import ListNotations.
Local Open Scope Z_scope.

Definition gmp_exact (lp : Z -> bool) : Prop := forall n, 65536 <= n -> (lp n = true <-> prime n).

Lemma isprime_total_exact : forall lp, gmp_exact lp -> isprime_exact (isprime_total lp).
Proof.
  intros lp Hlp m. unfold isprime_total.
  destruct (isprime_all eq_refl lp Hlp m) as [b [E Hb]]. rewrite E. exact Hb.
Qed.

Definition Nextprime_total_stmt : Prop :=
  forall lp, gmp_exact lp -> forall fuel alias p r,
    nextprime_model (isprime_total lp) fuel alias p = Some r -> prime r /\ p < r /\ no_prime_between p r.
Lemma nextprime_total : Nextprime_total_stmt.
Proof.
  intros lp Hlp fuel alias p r H. apply (nextprime_correct (isprime_total lp) fuel alias p r H).
  intros m _. apply isprime_total_exact. exact Hlp.
Qed.
Definition Prevprime_total_stmt : Prop :=
  forall lp, gmp_exact lp -> forall fuel alias p r,
    prevprime_model (isprime_total lp) fuel alias p = Some r -> (p <= 2 /\ r = 2) \/ (prime r /\ r < p /\ no_prime_between r p).
Lemma prevprime_total : Prevprime_total_stmt.
Proof.
  intros lp Hlp fuel alias p r H. apply (prevprime_correct (isprime_total lp) fuel alias p r H).
  intros m _. apply isprime_total_exact. exact Hlp.
Qed.

Section SetS.
  Variable isprime : Z -> bool.
  Hypothesis Hex : isprime_exact isprime.

  Lemma set2_loop_s_spec : forall thr, 0 <= thr -> forall fuel lf rs rf ys nn l fl ys',
    1 <= nn -> set2_loop_s isprime fuel lf rs rf ys nn thr = Some (l, fl, ys') ->
    factor_list_ok nn l /\ (fl = true -> Forall (fun gc => prime (fst gc)) l) /\ (thr = 0 -> fl = true).
  Proof.
    intros thr Hthr. induction fuel as [|f IH]; intros lf rs rf ys nn l fl ys' Hn H; [discriminate|].
    cbn [set2_loop_s] in H. destruct (Z.gtb_spec nn 1) as [Hgt|Hle].
    2:{ inversion H; subst l fl ys'. assert (nn = 1) by lia. subst nn.
        split; [split; [reflexivity|split; constructor]|]. split; [intros _; constructor|intros _; reflexivity]. }
    destruct (iffactorprime_s isprime lf rs rf ys nn thr) as [[[g0 ys1] k]|] eqn:Eg; [|discriminate].
    assert (Hn2 : 2 <= nn) by lia.
    destruct (iffactorprime_correct isprime Hex _ _ _ _ _ _ _ _ _ Hn2 Hthr Eg) as (Hd0 & H1p & Hz).
    set (g := if g0 =? 1 then nn else g0) in *.
    assert (Hg : 1 < g /\ (g | nn)).
    { subst g. destruct (Z.eqb_spec g0 1) as [->|Hne]; [split; [lia|apply Z.divide_refl]|].
      destruct H1p as [E|Hp]; [contradiction|]. pose proof (prime_ge_2 _ Hp). split; [lia|exact Hd0]. }
    destruct Hg as [Hg1 Hgd].
    destruct (strip (S (S f)) g (divexact nn g) 0) as [[nn' c]|] eqn:Es; [|discriminate].
    destruct (set2_loop_s isprime f lf rs rf ys1 nn' thr) as [[[rest fl'] ys2]|] eqn:Er; [|discriminate].
    inversion H; subst l fl ys'. clear H.
    destruct (round_spec _ _ _ _ _ Hg1 Hgt Hgd Es) as (Hc & Hnn & Hrange & Hnd).
    assert (Hn'1 : 1 <= nn') by lia.
    destruct (IH lf rs rf ys1 nn' rest fl' ys2 Hn'1 Er) as ((Hprod & Hall & Hdup) & Hpr & Hz').
    assert (Hdiv' : (nn' | nn)) by (exists (g ^ c); lia).
    split; [split; [cbn [prodl]; rewrite Hprod; lia|split]|split].
    - constructor; [cbn [fst snd]; split; [exact Hg1|split; [exact Hc|exact Hgd]]|].
      exact (Forall_weaken_div rest nn' nn Hdiv' Hall).
    - cbn [map fst]. constructor; [|exact Hdup].
      intro Hin. apply in_map_iff in Hin. destruct Hin as [[g' c'] [Hfst Hin]]. cbn [fst] in Hfst. subst g'.
      rewrite Forall_forall in Hall. destruct (Hall _ Hin) as (_ & _ & Hd). cbn [fst] in Hd. exact (Hnd Hd).
    - destruct (Z.eqb_spec g0 1) as [E1|E1]; [discriminate|]. intro Hfl. constructor; [|exact (Hpr Hfl)].
      cbn [fst]. subst g. destruct (Z.eqb_spec g0 1); [contradiction|]. destruct H1p as [E|Hp]; [contradiction|exact Hp].
    - intro Ez. destruct (Z.eqb_spec g0 1) as [E1|E1]; [|exact (Hz' Ez)].
      exfalso. specialize (Hz Ez). subst g0. pose proof (prime_ge_2 _ Hz). lia.
  Qed.

  Definition Set2_s_stmt : Prop :=
    forall fuel lf rs rf ys n thr l fl ys', n <> 0 -> 0 <= thr ->
      set2_s isprime fuel lf rs rf ys n thr = Some (l, fl, ys') ->
      prodl l = Z.abs n
      /\ Forall (fun gc => 1 < fst gc /\ 1 <= snd gc /\ (fst gc | n)) l
      /\ NoDup (map fst l)
      /\ (fl = true -> Forall (fun gc => prime (fst gc)) l)
      /\ (thr = 0 -> fl = true).
  Lemma set2_s_correct : Set2_s_stmt.
  Proof.
    intros fuel lf rs rf ys n thr l fl ys' Hn Hthr H. unfold set2_s in H.
    set (nn := if n <? 0 then - n else n) in *.
    assert (Hnn : nn = Z.abs n) by (subst nn; destruct (Z.ltb_spec n 0); lia).
    assert (Hnn1 : 1 <= nn) by lia.
    destruct (set2_loop_s_spec thr Hthr _ _ _ _ _ _ _ _ _ Hnn1 H) as ((Hp & Hall & Hdup) & Hpr & Hz).
    split; [lia|]. split; [|split; [exact Hdup|split; assumption]].
    apply (Forall_weaken_div l nn n); [|exact Hall]. rewrite Hnn. apply Z.divide_abs_l. apply Z.divide_refl.
  Qed.

  Definition Divisors_of_s_stmt : Prop :=
    forall fuel lf rs rf ys n L ys', n <> 0 ->
      divisors_of_s isprime fuel lf rs rf ys n = Some (L, ys') ->
      NoDup L /\ forall d, In d L <-> (0 < d /\ (d | n)).
  Lemma divisors_of_s_correct : Divisors_of_s_stmt.
  Proof.
    intros fuel lf rs rf ys n L ys' Hn H. unfold divisors_of_s in H.
    destruct (set2_s isprime fuel lf rs rf ys n 0) as [[[l fl] ys1]|] eqn:Es; [|discriminate]. inversion H; subst L ys'. clear H.
    destruct (set2_s_correct _ _ _ _ _ _ _ _ _ _ Hn (Z.le_refl 0) Es) as (Hp & Hall & Hdup & Hpr & Hz).
    specialize (Hz eq_refl). specialize (Hpr Hz).
    assert (Hg : good_factors l).
    { split; [|exact Hdup]. rewrite Forall_forall in *. intros pe Hin. split; [exact (Hpr pe Hin)|]. destruct (Hall pe Hin) as (_ & Hc & _). lia. }
    split; [exact (divisors_nodup l Hg)|]. intro d. rewrite (divisors_correct l Hg d), Hp.
    split; intros [H0 Hd]; (split; [exact H0|]).
    - apply Z.divide_abs_r. exact Hd.
    - apply Z.divide_abs_r in Hd. exact Hd.
  Qed.
End SetS.

Definition Set2_s_all_stmt : Prop := forall lp, gmp_exact lp -> Set2_s_stmt (isprime_total lp).
Definition Divisors_of_s_all_stmt : Prop := forall lp, gmp_exact lp -> Divisors_of_s_stmt (isprime_total lp).
Lemma set2_s_all : Set2_s_all_stmt. Proof. intros lp H. apply set2_s_correct. apply isprime_total_exact. exact H. Qed.
Lemma divisors_of_s_all : Divisors_of_s_all_stmt. Proof. intros lp H. apply divisors_of_s_correct. apply isprime_total_exact. exact H. Qed.

(* the hypothesis is satisfiable, and the composed functions run: trial division as GMP oracle *)
Lemma primeb_gmp_exact : gmp_exact primeb. Proof. intros n _. apply primeb_spec. Qed.
Example set2_s_example : exists l ys,
  set2_s (isprime_total primeb) 30 10 10 1000 [11; 0; 0; 0; 0; 0; 0; 0] (-(101 * 103 * 103 * 107)) 0 = Some (l, true, ys) /\ prodl l = 101 * 103 * 103 * 107.
Proof. vm_compute. eexists; eexists; split; reflexivity. Qed.
Example divisors_of_s_example : exists L ys, divisors_of_s (isprime_total primeb) 30 10 10 1000 [5; 5; 5; 5] 10403 = Some (L, ys) /\ length L = 4%nat.
Proof. vm_compute. eexists; eexists; split; reflexivity. Qed.
