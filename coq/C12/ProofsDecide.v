(* Two statements that put earlier pieces together.
   1. isprime for ALL n: the dispatch (guard, two table searches, GMP above 65536) answers "prime n" for every integer n,
      conditional only on the oracle lp (mpz_probab_prime_p) being right for n >= 65536.
   2. isprimepower DECIDES: for u > 0 and exact oracles the answer (e, q) is either e >= 2 with q prime and q^e = u, or
      e = 0 and u is not a proper power of a prime (soundness of "yes", soundness of "no", and no other answer). *)
From Coq Require Import ZArith Znumtheory Zpow_facts Lia List Bool.
Require Import C12.gen.Tables.
From C12 Require Import PrimeB Model ProofsSweep ProofsTable ProofsPPTable ProofsFactor ProofsPower ProofsComplete.
Import ListNotations.
Local Open Scope Z_scope.

(* ---------------------------------------------------------------- isprime, every n *)
Definition Isprime_all_stmt : Prop :=
  ISPRIME_HAS_GUARD = true ->
  forall lp : Z -> bool, (forall n, 65536 <= n -> (lp n = true <-> prime n)) ->
  forall n, exists b, isprime_model lp n = Some b /\ (b = true <-> prime n).

Lemma guard_le : ISPRIME_GUARD <=? 65536 = true. Proof. vm_compute. reflexivity. Qed.
Lemma dispatch1_le : DISPATCH1 <=? 65536 = true. Proof. vm_compute. reflexivity. Qed.

Lemma isprime_all : Isprime_all_stmt.
Proof.
  intros Hg lp Hlp n.
  destruct (Z_lt_le_dec n 2) as [Hlt|Hge2].
  - destruct isprime_below_2 as [[_ H]|[Hf _]]; [|congruence].
    exists false. split; [apply H; exact Hlt|]. split; [discriminate|]. intro Hp. pose proof (prime_ge_2 _ Hp). lia.
  - destruct (Z_lt_le_dec n 65536) as [Hlt|Hge].
    + apply isprime_table. lia.
    + exists (lp n). split; [|apply Hlp; exact Hge].
      unfold isprime_model.
      pose proof guard_le as G. apply Z.leb_le in G. pose proof dispatch1_le as D. apply Z.leb_le in D.
      destruct (Z.ltb_spec n ISPRIME_GUARD); [lia|]. rewrite andb_false_r.
      destruct (Z.ltb_spec n DISPATCH1); [lia|].
      destruct (Z.ltb_spec n DISPATCH2) as [H2|H2]; [rewrite dispatch2_eq in H2; lia|reflexivity].
Qed.

(* the hypothesis is satisfiable: trial division is such an oracle *)
Example isprime_all_example : forall n, 65536 <= n -> (primeb n = true <-> prime n).
Proof. intros n _. apply primeb_spec. Qed.

(* ---------------------------------------------------------------- isprimepower: the value returned is 0 or >= 2 *)
Lemma mult_loop_ge : forall fuel prime u2 n u2' q' n', mult_loop fuel prime u2 n = Some (u2', q', n') -> n <= n'.
Proof.
  induction fuel as [|f IH]; intros prime u2 n u2' q' n' H; [discriminate|].
  cbn [mult_loop] in H. destruct (u2 mod prime =? 0).
  - specialize (IH _ _ _ _ _ _ H). lia.
  - inversion H; subst. lia.
Qed.

Lemma pp_small_range : forall fuel ps u e q, pp_small fuel ps u = Some (Some (e, q)) -> e = 0 \/ 2 <= e.
Proof.
  intros fuel ps u e q. induction ps as [|p rest IH]; intro H; cbn [pp_small] in H; [discriminate|].
  destruct (p =? 0); [discriminate|].
  destruct (u mod p =? 0); [|exact (IH H)].
  destruct (negb (u mod (p * p) =? 0)); [inversion H; left; reflexivity|].
  destruct (mult_loop fuel p (u / (p * p)) 2) as [[[u2 q'] n]|] eqn:Eml; [|discriminate].
  pose proof (mult_loop_ge _ _ _ _ _ _ _ Eml).
  destruct (Z.abs u2 =? 1); inversion H; subst; [right; lia|left; reflexivity].
Qed.

Lemma pp_root_range : forall isprime root rec, (forall v e q, 1 < v -> rec v = Some (e, q) -> e = 0 \/ 2 <= e) ->
  forall fuel nth u2 e q, 2 <= nth -> pp_root isprime root rec fuel nth u2 = Some (e, q) -> e = 0 \/ 2 <= e.
Proof.
  intros isprime root rec Hrec. induction fuel as [|f IH]; intros nth u2 e q Hn H; [discriminate|].
  cbn [pp_root] in H. destruct (negb (isprime nth)); [apply (IH (nth + 1) u2 e q); [lia|exact H]|].
  destruct (root u2 nth) as [[r ex]|]; [|discriminate].
  destruct ex.
  - destruct (isprime r); [inversion H; subst; right; exact Hn|].
    destruct IPP_RECURSE; [|inversion H; left; reflexivity].
    destruct (Z.leb_spec r 1) as [|Hr1]; [inversion H; left; reflexivity|].
    destruct (rec r) as [[e' q']|] eqn:Er; [|discriminate]. inversion H; subst e q.
    destruct (Hrec _ _ _ Hr1 Er) as [->|He']; [left; lia|right; nia].
  - destruct (Z.abs r <? SMALLEST_OMITTED_PRIME); [inversion H; left; reflexivity|].
    apply (IH (nth + 1) u2 e q); [lia|exact H].
Qed.

Lemma isprimepower_range : forall isprime root depth fuel q0 u e q, 0 < u ->
  isprimepower_model isprime root depth fuel q0 u = Some (e, q) -> e = 0 \/ 2 <= e.
Proof.
  intros isprime root. induction depth as [|d IHd]; intros fuel q0 u e q Hu H; [discriminate|].
  cbn [isprimepower_model] in H. unfold isprimepower_body in H.
  destruct (Z.eqb_spec u 0); [lia|].
  assert (Hneg : IPP_NEG_GUARD && (u <? 0) = false) by (destruct (Z.ltb_spec u 0); [lia|apply andb_false_r]).
  rewrite Hneg in H. rewrite land3_mod4 in H. rewrite Z.abs_eq in H by lia.
  destruct (Z.eqb_spec (u mod 4) 2) as [E4|E4]; [inversion H; left; reflexivity|].
  destruct (tz fuel u 0) as [[t n2]|] eqn:Etz; [|discriminate].
  assert (H00 : 0 <= 0) by lia.
  destruct (tz_spec fuel u 0 t n2 Hu H00 Etz) as (Hn2 & Ht & Hut).
  destruct (Z.gtb_spec n2 0) as [Hg|Hg].
  - destruct (Z.eqb_spec t 1) as [->|]; [|inversion H; left; reflexivity].
    inversion H; subst e q. right.
    destruct (Z.eq_dec n2 1) as [->|]; [|lia]. exfalso. apply E4. rewrite Hut. reflexivity.
  - destruct (pp_small fuel (tl PP_PRIMES) u) as [[[e1 q1]|]|] eqn:Es; [| |discriminate].
    + inversion H; subst e1 q1. exact (pp_small_range _ _ _ _ _ Es).
    + apply (pp_root_range isprime root (fun v => isprimepower_model isprime root d fuel v v)) with (fuel := fuel) (nth := 2) (u2 := match tl PP_PRIMES with p :: _ => if p =? 0 then 0 else u | [] => 0 end) (q := q); [|lia|exact H].
      intros v e' q' Hv Hr. exact (IHd fuel v v e' q' ltac:(lia) Hr).
Qed.

(* ---------------------------------------------------------------- isprimepower decides *)
Definition proper_prime_power (u : Z) : Prop := exists r k, prime r /\ 2 <= k /\ u = r ^ k.

Definition Isprimepower_decides_stmt : Prop :=
  IPP_RECURSE = true ->
  forall isprime root, isprime_exact isprime -> root_sound root -> root_exact root ->
  forall depth fuel q0 u e q, 0 < u ->
    (Z.to_nat (Z.log2 u) < fuel)%nat -> (Z.to_nat (Z.log2 u) <= depth)%nat ->
    isprimepower_model isprime root depth fuel q0 u = Some (e, q) ->
    (2 <= e /\ prime q /\ q ^ e = u) \/ (e = 0 /\ ~ proper_prime_power u).

Lemma isprimepower_decides : Isprimepower_decides_stmt.
Proof.
  intros Hrec isprime root Hex Hrs Hre depth fuel q0 u e q Hu Hf Hd H.
  destruct (isprimepower_range _ _ _ _ _ _ _ _ Hu H) as [E0|E2].
  - right. split; [exact E0|]. intros [r [k [Hr [Hk Huk]]]].
    pose proof (prime_ge_2 _ Hr) as Hr2.
    assert (Hkl : k <= Z.log2 u).
    { rewrite <- (Z.log2_pow2 k) by lia. apply Z.log2_le_mono. rewrite Huk. apply Z.pow_le_mono_l. lia. }
    assert (Hl0 : 0 <= Z.log2 u) by apply Z.log2_nonneg.
    pose proof (isprimepower_complete Hrec isprime root Hex Hre r k Hr Hk depth fuel q0 ltac:(lia) ltac:(lia)) as Hc.
    rewrite <- Huk in Hc. rewrite Hc in H. inversion H. lia.
  - left. split; [exact E2|].
    assert (His : isprime_sound isprime) by (intros m Hm; apply Hex; exact Hm).
    apply (isprimepower_sound isprime root His Hrs depth fuel q0 u e q Hu H). lia.
Qed.

(* the hypotheses are satisfiable: trial division and a bisection root *)
Fixpoint bisect (fuel : nat) (lo hi a k : Z) : Z :=
  match fuel with
  | O => lo
  | S f => if hi - lo <=? 1 then lo else
           let mid := (lo + hi) / 2 in if mid ^ k <=? a then bisect f mid hi a k else bisect f lo mid a k
  end.
Definition broot (a k : Z) : option (Z * bool) := let q := bisect 200 0 (a + 1) a k in Some (q, q ^ k =? a).
Example isprimepower_decides_example :
  IPP_RECURSE = true ->
  (exists q, isprimepower_model primeb broot 45 45 0 ((1013 * 1019) ^ 2) = Some (0, q)) /\
  isprimepower_model primeb broot 45 45 0 (1013 ^ 4) = Some (4, 1013).
Proof. intro H. vm_compute in H. first [discriminate H | (vm_compute; split; [eexists; reflexivity|reflexivity])]. Qed.
