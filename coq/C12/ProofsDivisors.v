(* divisors(L, Lf, Le): for distinct primes p_i with exponents e_i >= 0 the list contains exactly the positive
   divisors of prod p_i^e_i  (membership in both directions; absence of repetitions is tested, not proved). *)
From Coq Require Import ZArith Znumtheory Zpow_facts Lia List Bool.
Require Import C12.gen.Tables.
From C12 Require Import PrimeB Model ProofsFactor.
Import ListNotations.
Local Open Scope Z_scope.

Lemma powers_In : forall e r p d, In d (powers e r p) <-> exists j, 1 <= j <= Z.of_nat e /\ d = r * p ^ j.
Proof.
  induction e as [|k IH]; intros r p d; cbn [powers In].
  - split; [intros []|intros [j [Hj _]]; lia].
  - rewrite IH. split.
    + intros [H|[j [Hj H]]].
      * exists 1. split; [lia|]. rewrite Z.pow_1_r. symmetry. exact H.
      * exists (j + 1). split; [lia|]. rewrite Z.pow_add_r by lia. rewrite Z.pow_1_r. rewrite H. ring.
    + intros [j [Hj H]]. destruct (Z.eq_dec j 1) as [->|Hne].
      * left. rewrite Z.pow_1_r in H. symmetry. exact H.
      * right. exists (j - 1). split; [lia|]. rewrite H. replace j with ((j - 1) + 1) at 1 by lia.
        rewrite Z.pow_add_r by lia. rewrite Z.pow_1_r. ring.
Qed.

Lemma div_step_In : forall res p e d,
  In d (div_step res p e) <-> exists r j, In r res /\ 0 <= j <= Z.of_nat e /\ d = r * p ^ j.
Proof.
  intros res p e d. unfold div_step. rewrite in_app_iff, in_flat_map. split.
  - intros [H|[r [Hr H]]].
    + exists d, 0. split; [exact H|]. split; [lia|]. rewrite Z.pow_0_r. ring.
    + apply powers_In in H. destruct H as [j [Hj H]]. exists r, j. split; [exact Hr|]. split; [lia|exact H].
  - intros [r [j [Hr [Hj H]]]]. destruct (Z.eq_dec j 0) as [->|Hne].
    + left. rewrite Z.pow_0_r, Z.mul_1_r in H. subst d. exact Hr.
    + right. exists r. split; [exact Hr|]. apply powers_In. exists j. split; [lia|exact H].
Qed.

(* the divisors of m * p^e, p prime not dividing m *)
Lemma divisors_prime_power : forall p m, prime p -> ~ (p | m) -> forall e, 0 <= e -> forall d,
  (d | m * p ^ e) -> exists j r, 0 <= j <= e /\ (r | m) /\ d = r * p ^ j.
Proof.
  intros p m Hp Hnd e He. pattern e. apply natlike_ind; [| |exact He]; clear e He.
  - intros d Hd. rewrite Z.pow_0_r, Z.mul_1_r in Hd. exists 0, d. split; [lia|]. split; [exact Hd|]. rewrite Z.pow_0_r. ring.
  - intros e He IH d Hd. pose proof (prime_ge_2 _ Hp) as Hp2.
    destruct (Zdivide_dec p d) as [[d' Hd']|Hpd].
    + (* d = d' * p *)
      assert (Hd2 : (d' | m * p ^ e)).
      { destruct Hd as [k Hk]. exists k. rewrite Z.pow_succ_r in Hk by exact He. subst d. nia. }
      destruct (IH d' Hd2) as [j [r [Hj [Hr Hdr]]]]. exists (j + 1), r. split; [lia|]. split; [exact Hr|].
      rewrite Z.pow_add_r by lia. rewrite Z.pow_1_r. subst d d'. ring.
    + exists 0, d. split; [lia|]. split; [|rewrite Z.pow_0_r; ring].
      apply (Gauss d (p ^ Z.succ e) m); [rewrite Z.mul_comm; exact Hd|].
      apply rel_prime_Zpower_r; [lia|]. apply rel_prime_sym. apply prime_rel_prime; assumption.
Qed.

Definition posdivs (res : list Z) (m : Z) : Prop := forall d, In d res <-> (0 < d /\ (d | m)).

Lemma div_step_posdivs : forall res m p e, 0 < m -> prime p -> ~ (p | m) -> 0 <= e ->
  posdivs res m -> posdivs (div_step res p (Z.to_nat e)) (m * p ^ e).
Proof.
  intros res m p e Hm Hp Hnd He Hres d. rewrite div_step_In. rewrite Z2Nat.id by exact He.
  pose proof (prime_ge_2 _ Hp) as Hp2. split.
  - intros [r [j [Hr [Hj Hd]]]]. apply Hres in Hr. destruct Hr as [Hr0 [k Hk]].
    assert (0 < p ^ j) by (apply Z.pow_pos_nonneg; lia). split; [nia|].
    exists (k * p ^ (e - j)). subst d m. replace e with (j + (e - j)) at 1 by lia. rewrite Z.pow_add_r by lia. ring.
  - intros [Hd0 Hd]. destruct (divisors_prime_power p m Hp Hnd e He d Hd) as [j [r [Hj [Hr Hdr]]]].
    exists r, j. split; [|split; [exact Hj|exact Hdr]]. apply Hres. split; [|exact Hr].
    assert (0 < p ^ j) by (apply Z.pow_pos_nonneg; lia). nia.
Qed.

Definition good_factors (lf : list (Z * Z)) : Prop :=
  Forall (fun pe => prime (fst pe) /\ 0 <= snd pe) lf /\ NoDup (map fst lf).

Lemma divisors_from_posdivs : forall lf res m, 0 < m -> good_factors lf ->
  (forall pe, In pe lf -> ~ (fst pe | m)) -> posdivs res m ->
  posdivs (divisors_from lf res) (m * prodl lf).
Proof.
  induction lf as [|[p e] t IH]; intros res m Hm [Hall Hdup] Hcop Hres; cbn [divisors_from prodl].
  - rewrite Z.mul_1_r. exact Hres.
  - inversion Hall as [|? ? [Hp He] Ht]; subst. cbn [fst snd] in Hp, He.
    inversion Hdup as [|? ? Hnotin Hdup']; subst.
    pose proof (prime_ge_2 _ Hp) as Hp2.
    assert (Hpm : ~ (p | m)) by (apply (Hcop (p, e)); left; reflexivity).
    assert (Hpe : 0 < p ^ e) by (apply Z.pow_pos_nonneg; lia).
    replace (m * (p ^ e * prodl t)) with ((m * p ^ e) * prodl t) by ring.
    apply IH; [nia|split; assumption| |apply div_step_posdivs; assumption].
    intros [q f] Hin Hq. cbn [fst] in Hq.
    rewrite Forall_forall in Ht. destruct (Ht _ Hin) as [Hqp _]. cbn [fst] in Hqp.
    apply prime_mult in Hq; [|exact Hqp]. destruct Hq as [Hq|Hq].
    + apply (Hcop (q, f)); [right; exact Hin|exact Hq].
    + (* q | p^e -> q = p, but p is not among the remaining primes *)
      assert (q = p).
      { destruct (Z.eq_dec e 0) as [->|He0].
        - rewrite Z.pow_0_r in Hq. apply Z.divide_1_r_nonneg in Hq; [|pose proof (prime_ge_2 _ Hqp); lia]. pose proof (prime_ge_2 _ Hqp). lia.
        - apply prime_power_prime with (n := e); [lia|exact Hqp|exact Hp|exact Hq]. }
      subst q. apply Hnotin. apply in_map_iff. exists (p, f). split; [reflexivity|exact Hin].
Qed.

Definition Divisors_stmt : Prop :=
  forall (lf : list (Z * Z)), good_factors lf ->
    forall d, In d (divisors_model lf) <-> (0 < d /\ (d | prodl lf)).
Lemma divisors_correct : Divisors_stmt.
Proof.
  intros lf Hg d. unfold divisors_model.
  pose proof (divisors_from_posdivs lf [1] 1 ltac:(lia) Hg) as H. rewrite Z.mul_1_l in H. apply H.
  - intros pe Hin Hd. destruct Hg as [Hall _]. rewrite Forall_forall in Hall. destruct (Hall _ Hin) as [Hp _].
    pose proof (prime_ge_2 _ Hp). apply Z.divide_1_r_nonneg in Hd; lia.
  - intro x. cbn [In]. split.
    + intros [<-|[]]. split; [lia|apply Z.divide_refl].
    + intros [H0 H1]. left. apply Z.divide_1_r_nonneg in H1; lia.
Qed.

Example divisors_example : divisors_model [(2, 2); (3, 1)] = [1; 2; 4; 3; 6; 12].
Proof. vm_compute. reflexivity. Qed.
