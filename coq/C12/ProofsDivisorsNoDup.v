(* divisors(L, Lf, Le): no divisor is listed twice (distinct primes, exponents >= 0). *)
From Coq Require Import ZArith Znumtheory Zpow_facts Lia List Bool.
Require Import C12.gen.Tables.
From C12 Require Import PrimeB Model ProofsFactor ProofsDivisors.
Import ListNotations.
Local Open Scope Z_scope.

Lemma NoDup_app_intro : forall (a b : list Z), NoDup a -> NoDup b -> (forall x, In x a -> ~ In x b) -> NoDup (a ++ b).
Proof.
  induction a as [|x a IH]; intros b Ha Hb Hd; cbn [app]; [exact Hb|].
  inversion Ha as [|? ? Hx Ha']; subst. constructor.
  - intro Hin. apply in_app_or in Hin. destruct Hin as [Hin|Hin]; [exact (Hx Hin)|exact (Hd x (or_introl eq_refl) Hin)].
  - apply IH; [exact Ha'|exact Hb|]. intros y Hy. apply Hd. right. exact Hy.
Qed.

Lemma NoDup_flat_map_intro : forall (f : Z -> list Z) (l : list Z), NoDup l ->
  (forall x, In x l -> NoDup (f x)) ->
  (forall x y z, In x l -> In y l -> In z (f x) -> In z (f y) -> x = y) ->
  NoDup (flat_map f l).
Proof.
  intros f. induction l as [|x l IH]; intros Hl Hf Hc; cbn [flat_map]; [constructor|].
  inversion Hl as [|? ? Hx Hl']; subst. apply NoDup_app_intro.
  - apply Hf. left. reflexivity.
  - apply IH; [exact Hl'|intros y Hy; apply Hf; right; exact Hy|].
    intros a b z Ha Hb. apply Hc; right; assumption.
  - intros z Hz Hin. apply in_flat_map in Hin. destruct Hin as [y [Hy Hzy]].
    assert (x = y) by (apply (Hc x y z); [left; reflexivity|right; exact Hy|exact Hz|exact Hzy]).
    subst y. exact (Hx Hy).
Qed.

Lemma rpj_unique : forall p r r' j j', 1 < p -> ~ (p | r) -> ~ (p | r') -> 0 <= j -> 0 <= j' ->
  r * p ^ j = r' * p ^ j' -> r = r' /\ j = j'.
Proof.
  assert (Hlt : forall p r r' j j', 1 < p -> ~ (p | r) -> 0 <= j < j' -> r * p ^ j = r' * p ^ j' -> False).
  { intros p r r' j j' Hp Hr Hj H.
    assert (Hpj : p ^ j <> 0) by (apply Z.pow_nonzero; lia).
    replace j' with ((j' - j - 1) + 1 + j) in H by lia. rewrite !Z.pow_add_r in H by lia. rewrite Z.pow_1_r in H.
    assert (r = r' * (p ^ (j' - j - 1) * p)) by (apply (Z.mul_cancel_r _ _ (p ^ j) Hpj); rewrite H; ring).
    apply Hr. exists (r' * p ^ (j' - j - 1)). lia. }
  intros p r r' j j' Hp Hr Hr' Hj Hj' H.
  destruct (Z.lt_trichotomy j j') as [Hl|[He|Hg]].
  - exfalso. exact (Hlt p r r' j j' Hp Hr ltac:(lia) H).
  - subst j'. split; [|reflexivity]. apply (Z.mul_cancel_r _ _ (p ^ j)); [apply Z.pow_nonzero; lia|exact H].
  - exfalso. exact (Hlt p r' r j' j Hp Hr' ltac:(lia) (eq_sym H)).
Qed.

Lemma powers_NoDup : forall e r p, 0 < r -> 1 < p -> NoDup (powers e r p).
Proof.
  induction e as [|k IH]; intros r p Hr Hp; cbn [powers]; [constructor|].
  constructor; [|apply IH; nia].
  intro Hin. apply powers_In in Hin. destruct Hin as [j [Hj Hd]].
  assert (1 < p ^ j) by (apply Z.pow_gt_1; lia). nia.
Qed.

Lemma div_step_NoDup : forall res p e, 1 < p -> NoDup res ->
  (forall x, In x res -> 0 < x /\ ~ (p | x)) -> NoDup (div_step res p e).
Proof.
  intros res p e Hp Hnd Hres. unfold div_step. apply NoDup_app_intro; [exact Hnd| |].
  - apply NoDup_flat_map_intro; [exact Hnd| |].
    + intros x Hx. apply powers_NoDup; [apply Hres; exact Hx|exact Hp].
    + intros x y z Hx Hy Hzx Hzy. apply powers_In in Hzx. apply powers_In in Hzy.
      destruct Hzx as [j [Hj Hz]]. destruct Hzy as [j' [Hj' Hz']].
      destruct (Hres x Hx) as [_ Hpx]. destruct (Hres y Hy) as [_ Hpy].
      apply (rpj_unique p x y j j' Hp Hpx Hpy ltac:(lia) ltac:(lia)). congruence.
  - intros x Hx Hin. apply in_flat_map in Hin. destruct Hin as [y [Hy Hxy]]. apply powers_In in Hxy.
    destruct Hxy as [j [Hj Hd]]. destruct (Hres x Hx) as [_ Hpx]. destruct (Hres y Hy) as [_ Hpy].
    assert (E : x * p ^ 0 = y * p ^ j) by (rewrite Z.pow_0_r; lia).
    destruct (rpj_unique p x y 0 j Hp Hpx Hpy ltac:(lia) ltac:(lia) E). lia.
Qed.

Lemma divisors_from_NoDup : forall lf res m, 0 < m -> good_factors lf ->
  (forall pe, In pe lf -> ~ (fst pe | m)) -> posdivs res m -> NoDup res -> NoDup (divisors_from lf res).
Proof.
  induction lf as [|[p e] t IH]; intros res m Hm [Hall Hdup] Hcop Hres Hnd; cbn [divisors_from]; [exact Hnd|].
  inversion Hall as [|? ? [Hp He] Ht]; subst. cbn [fst snd] in Hp, He.
  inversion Hdup as [|? ? Hnotin Hdup']; subst.
  pose proof (prime_ge_2 _ Hp) as Hp2.
  assert (Hpm : ~ (p | m)) by (apply (Hcop (p, e)); left; reflexivity).
  assert (Hpe : 0 < p ^ e) by (apply Z.pow_pos_nonneg; lia).
  apply (IH _ (m * p ^ e)); [nia|split; assumption| |apply div_step_posdivs; assumption|].
  - intros [q f] Hin Hq. cbn [fst] in Hq.
    rewrite Forall_forall in Ht. destruct (Ht _ Hin) as [Hqp _]. cbn [fst] in Hqp.
    apply prime_mult in Hq; [|exact Hqp]. destruct Hq as [Hq|Hq].
    + apply (Hcop (q, f)); [right; exact Hin|exact Hq].
    + assert (q = p).
      { destruct (Z.eq_dec e 0) as [->|He0].
        - rewrite Z.pow_0_r in Hq. pose proof (prime_ge_2 _ Hqp). apply Z.divide_1_r_nonneg in Hq; lia.
        - apply prime_power_prime with (n := e); [lia|exact Hqp|exact Hp|exact Hq]. }
      subst q. apply Hnotin. apply in_map_iff. exists (p, f). split; [reflexivity|exact Hin].
  - apply div_step_NoDup; [lia|exact Hnd|]. intros x Hx. apply Hres in Hx. destruct Hx as [Hx0 Hxm].
    split; [exact Hx0|]. intro Hpx. apply Hpm. eapply Z.divide_trans; eassumption.
Qed.

Definition Divisors_NoDup_stmt : Prop :=
  forall (lf : list (Z * Z)), good_factors lf -> NoDup (divisors_model lf).
Lemma divisors_nodup : Divisors_NoDup_stmt.
Proof.
  intros lf Hg. unfold divisors_model.
  apply (divisors_from_NoDup lf [1] 1); [lia|exact Hg| | |].
  - intros pe Hin Hd. destruct Hg as [Hall _]. rewrite Forall_forall in Hall. destruct (Hall _ Hin) as [Hp _].
    pose proof (prime_ge_2 _ Hp). apply Z.divide_1_r_nonneg in Hd; lia.
  - intro x. cbn [In]. split.
    + intros [<-|[]]. split; [lia|apply Z.divide_refl].
    + intros [H0 H1]. left. apply Z.divide_1_r_nonneg in H1; lia.
  - constructor; [intros []|constructor].
Qed.
