(* Every IntFactorDom object obtained from a constructed one by any sequence of copy constructions and assignments carries the
   two primorials of the constructor (the copy constructor / operator= as the clang AST of the current source shows them), hence
   factor() - and with it iffactorprime, primefactor, set, write, divisors, which read the domain only through factor() - gives
   the same result on it as on the original.  A copy constructor that forgets a primorial makes `copy_ok` false and this file fail. *)
From Coq Require Import ZArith Lia List Bool.
Require Import C12.gen.Tables.
From C12 Require Import Model ModelDom.
Local Open Scope Z_scope.

Definition dom_ok (d : dom) : Prop := prod_first d = PROD_FIRST /\ prod_second d = PROD_SECOND.

Inductive reachable : dom -> Prop :=
| r_make : forall g, reachable (dom_make g)
| r_copy : forall d, reachable d -> reachable (dom_copy d)
| r_assign : forall a b, reachable a -> reachable b -> reachable (dom_assign a b).

(* what the copy constructor / operator= must do with a primorial: copy it, or set it to the constructor's literal; operator= may
   also leave it alone *)
Definition how_ok (h : copy_how) (c : Z) (assign : bool) : bool :=
  match h with FromSource => true | Literal z => z =? c | DefaultInit => false | Untouched => assign end.
Lemma copy_ok : how_ok COPY_FIRST PROD_FIRST false && how_ok COPY_SECOND PROD_SECOND false
             && how_ok ASSIGN_FIRST PROD_FIRST true && how_ok ASSIGN_SECOND PROD_SECOND true = true.
Proof. vm_compute. reflexivity. Qed.

Lemma apply_ok : forall h c assign src old, how_ok h c assign = true -> src = c -> (assign = true -> old = c) -> apply_how h src old = c.
Proof.
  intros h c assign src old H Hs Ho. destruct h; cbn [apply_how how_ok] in *; [exact Hs|apply Z.eqb_eq; exact H|discriminate|apply Ho; exact H].
Qed.

Lemma reachable_ok : forall d, reachable d -> dom_ok d.
Proof.
  pose proof copy_ok as H. apply andb_prop in H. destruct H as [H H4]. apply andb_prop in H. destruct H as [H H3].
  apply andb_prop in H. destruct H as [H1 H2].
  induction 1 as [g|d _ [I1 I2]|a b _ [A1 A2] _ [B1 B2]]; split; cbn [dom_make dom_copy dom_assign prod_first prod_second]; try reflexivity.
  - apply (apply_ok _ _ false); [exact H1|exact I1|discriminate].
  - apply (apply_ok _ _ false); [exact H2|exact I2|discriminate].
  - apply (apply_ok _ _ true); [exact H3|exact B1|intros _; exact A1].
  - apply (apply_ok _ _ true); [exact H4|exact B2|intros _; exact A2].
Qed.

Definition Dom_copy_stmt : Prop :=
  forall d, reachable d -> forall isprime pollard_orc n, factor_d d isprime pollard_orc n = factor_model isprime pollard_orc n.
Lemma dom_copy_same : Dom_copy_stmt.
Proof.
  intros d Hd isprime orc n. destruct (reachable_ok d Hd) as [H1 H2]. unfold factor_d, factor_model. rewrite H1, H2. reflexivity.
Qed.

(* the members matter: an object whose second primorial is 0 answers 73 for 101*103 *)
Example dom_bad_copy : factor_d {| prod_first := PROD_FIRST; prod_second := 0; gen_state := 0 |} (fun _ => false) (fun _ => 101) 10403
                       = SECOND_DEFAULT /\ factor_model (fun _ => false) (fun _ => 101) 10403 = 101.
Proof. vm_compute. split; reflexivity. Qed.
Example dom_reachable_example : reachable (dom_assign (dom_copy (dom_make 1)) (dom_copy (dom_copy (dom_make 2)))).
Proof. repeat constructor. Qed.
