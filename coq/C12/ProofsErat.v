(* Erathostene(Lf, p): the list returned is exactly the increasing list of the distinct primes dividing p --
   complete kernel sweep for 1 <= p < 1025 (a _partial statement: the bound is in it), against trial division. *)
From Coq Require Import ZArith Znumtheory Lia List Bool.
From C12 Require Import PrimeB ModelErat ProofsSweep.
Import ListNotations.
Local Open Scope Z_scope.

Definition pdivs (p : Z) : list Z := filter (fun q => if p mod q =? 0 then primeb q else false) (Zseq 2 (Z.to_nat (p - 1))).

Lemma pdivs_spec : forall p q, 1 <= p -> In q (pdivs p) <-> prime q /\ (q | p).
Proof.
  intros p q Hp. unfold pdivs. rewrite filter_In, In_Zseq. rewrite Z2Nat.id by lia. split.
  - intros [Hr Hf]. destruct (Z.eqb_spec (p mod q) 0) as [Hm|]; [|discriminate]. apply primeb_spec in Hf.
    split; [exact Hf|]. apply Z.mod_divide; [lia|exact Hm].
  - intros [Hq Hd]. pose proof (prime_ge_2 _ Hq). assert (q <= p) by (apply Z.divide_pos_le; [lia|exact Hd]).
    split; [lia|]. apply Z.mod_divide in Hd; [|lia]. rewrite Hd. cbn [Z.eqb]. apply primeb_spec. exact Hq.
Qed.

Definition erat_ok (p : Z) : bool :=
  match erat_model p with Some l => list_eqb l (pdivs p) | None => false end.
Definition ERAT_RANGE : nat := 1024.
Lemma erat_sweep : forallb erat_ok (Zseq 1 ERAT_RANGE) = true.
Proof. vm_compute. reflexivity. Qed.
Lemma ERAT_RANGE_eq : Z.of_nat ERAT_RANGE = 1024. Proof. reflexivity. Qed.
Global Opaque ERAT_RANGE.

Definition Erat_partial_stmt : Prop :=
  forall p, 1 <= p < 1025 -> exists l, erat_model p = Some l /\ l = pdivs p /\ forall q, In q l <-> prime q /\ (q | p).
Lemma erat_partial : Erat_partial_stmt.
Proof.
  intros p Hp.
  pose proof (sweep_lift erat_ok 1 ERAT_RANGE erat_sweep p ltac:(rewrite ERAT_RANGE_eq; lia)) as H.
  unfold erat_ok in H. destruct (erat_model p) as [l|]; [|discriminate].
  apply list_eqb_eq in H. exists l. split; [reflexivity|]. split; [exact H|].
  intro q. rewrite H. apply pdivs_spec. lia.
Qed.
