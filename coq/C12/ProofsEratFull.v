(* Erathostene(Lf, p), full statement: for EVERY p >= 1, whenever the model returns a list (i.e. the scan for the next
   unmarked number stayed inside the array), that list has no repetition and contains exactly the primes dividing p.
   Invariant of the main loop (n = what is left of p, i = current trial divisor, acc = factors found):
   n odd, n | p; every prime factor of p divides n or is in acc; the members of acc are primes dividing p and not n;
   no prime below i divides n; every marked index is composite. *)
From Coq Require Import ZArith Znumtheory Zpow_facts Lia List Bool FSets.FSetPositive.
From C12 Require Import PrimeB ModelErat ProofsFactor.
Import ListNotations.
Local Open Scope Z_scope.

Lemma marked_set_mark : forall M j x, marked (set_mark M j) x = true -> marked M x = true \/ (x = j /\ 0 < j).
Proof.
  intros M j x. unfold marked, set_mark. destruct (Z.leb_spec x 0) as [Hx|Hx]; [discriminate|].
  destruct (Z.leb_spec j 0) as [Hj|Hj]; [intro Hm; left; exact Hm|].
  intro Hm. change (PositiveSet.In (Z.to_pos x) (PositiveSet.add (Z.to_pos j) M)) in Hm.
  apply PositiveSet.add_spec in Hm. destruct Hm as [E|Hm]; [right|left; exact Hm].
  split; [|lia]. apply Z2Pos.inj in E; lia.
Qed.
Lemma marked_empty : forall x, marked PositiveSet.empty x = false.
Proof. intro x. unfold marked. destruct (x <=? 0); [reflexivity|]. apply PositiveSet.mem_Leaf. Qed.

Lemma halve_spec : forall fuel n n', 0 < n -> halve fuel n = Some n' ->
  0 < n' /\ Z.odd n' = true /\ exists k, 0 <= k /\ n = 2 ^ k * n'.
Proof.
  induction fuel as [|f IH]; intros n n' Hn H; [discriminate|].
  cbn [halve] in H. destruct (Z.odd n) eqn:Eo.
  - inversion H; subst n'. split; [exact Hn|]. split; [exact Eo|]. exists 0. split; [lia|]. rewrite Z.pow_0_r; ring.
  - assert (He : Z.even n = true) by (rewrite <- Z.negb_odd, Eo; reflexivity).
    apply Z.even_spec in He. destruct He as [m Hm].
    assert (Hd : n / 2 = m) by (subst n; rewrite Z.mul_comm; apply Z.div_mul; lia).
    rewrite Hd in H. destruct (IH m n' ltac:(lia) H) as (H1 & H2 & k & Hk & Hk2).
    split; [exact H1|]. split; [exact H2|]. exists (k + 1). split; [lia|].
    rewrite Z.pow_add_r by lia. rewrite Z.pow_1_r. subst n. rewrite Hk2. ring.
Qed.

Lemma mark_loop_spec : forall fuel M j ii n M' j', 0 < ii -> mark_loop fuel M j ii n = Some (M', j') ->
  exists k, 0 <= k /\ j' = j + k * ii /\ n < j' /\ (0 < k -> j' - ii <= n) /\
    forall x, marked M' x = true -> marked M x = true \/ exists t, 0 <= t < k /\ x = j + t * ii.
Proof.
  induction fuel as [|f IH]; intros M j ii n M' j' Hii H; [discriminate|].
  cbn [mark_loop] in H. destruct (Z.leb_spec j n) as [Hle|Hgt].
  - destruct (INT_MAX <? j + ii); [discriminate|].
    destruct (IH _ _ _ _ _ _ Hii H) as (k & Hk & Hj & Hn & Hlast & Hm).
    exists (k + 1). split; [lia|]. split; [lia|]. split; [exact Hn|]. split.
    + intros _. destruct (Z.eq_dec k 0) as [->|]; [lia|]. specialize (Hlast ltac:(lia)). lia.
    + intros x Hx. destruct (Hm x Hx) as [Hx'|[t [Ht Hxt]]].
      * destruct (marked_set_mark _ _ _ Hx') as [Hx''|[-> _]]; [left; exact Hx''|right; exists 0; split; [lia|ring]].
      * right. exists (t + 1). split; [lia|]. rewrite Hxt. ring.
  - inversion H; subst M' j'. exists 0. split; [lia|]. split; [ring|]. split; [lia|]. split; [lia|]. intros x Hx; left; exact Hx.
Qed.

Lemma divide_out_spec : forall fuel n i n', 1 < i -> 0 < n -> (i | n) -> divide_out fuel n i = Some n' ->
  0 < n' /\ ~ (i | n') /\ (n' | n) /\ exists e, 1 <= e /\ n = i ^ e * n'.
Proof.
  induction fuel as [|f IH]; intros n i n' Hi Hn Hd H; [discriminate|].
  cbn [divide_out] in H.
  assert (Hq : n = i * (n / i)) by (apply Z_div_exact_full_2; [lia|apply Z.mod_divide; [lia|exact Hd]]).
  assert (Hq0 : 0 < n / i) by nia.
  destruct (Z.eqb_spec ((n / i) mod i) 0) as [E|E].
  - assert (Hd' : (i | n / i)) by (apply Z.mod_divide; [lia|exact E]).
    destruct (IH _ _ _ Hi Hq0 Hd' H) as (H1 & H2 & H3 & e & He & Hne).
    split; [exact H1|]. split; [exact H2|]. split; [eapply Z.divide_trans; [exact H3|exists i; lia]|].
    exists (e + 1). split; [lia|]. rewrite Z.pow_add_r by lia. rewrite Z.pow_1_r. rewrite Hq at 1. rewrite Hne at 1. ring.
  - inversion H; subst n'. split; [exact Hq0|]. split; [intro Hc; apply E; apply Z.mod_divide; [lia|exact Hc]|].
    split; [exists i; lia|]. exists 1. split; [lia|]. rewrite Z.pow_1_r. exact Hq.
Qed.

Lemma scan_loop_spec : forall fuel M N0 j j', scan_loop fuel M N0 j = Some j' ->
  exists k, 0 <= k /\ j' = j + 1 + 2 * k /\ marked M j' = false /\ forall t, 0 <= t < k -> marked M (j + 1 + 2 * t) = true.
Proof.
  induction fuel as [|f IH]; intros M N0 j j' H; [discriminate|].
  cbn [scan_loop] in H. cbn zeta in H. destruct (N0 <? j + 1); [discriminate|].
  destruct (marked M (j + 1)) eqn:Em.
  - destruct (IH _ _ _ _ H) as (k & Hk & Hj & Hm & Hall). exists (k + 1). split; [lia|]. split; [lia|]. split; [exact Hm|].
    intros t Ht. destruct (Z.eq_dec t 0) as [->|]; [replace (j + 1 + 2 * 0) with (j + 1) by ring; exact Em|].
    replace (j + 1 + 2 * t) with (j + 1 + 1 + 1 + 2 * (t - 1)) by ring. replace (j + 1 + 1 + 1 + 2 * (t - 1)) with ((j + 1 + 1) + 1 + 2 * (t - 1)) by ring.
    apply Hall. lia.
  - inversion H; subst j'. exists 0. split; [lia|]. split; [ring|]. split; [exact Em|]. intros t Ht; lia.
Qed.

(* an odd n is an odd multiple of an odd i >= 3 iff the largest odd multiple of i below or at n is n *)
Lemma hit_iff : forall i n k, 3 <= i -> Z.odd i = true -> Z.odd n = true -> 3 * i <= n -> 0 <= k ->
  n < 3 * i + k * (2 * i) -> (0 < k -> 3 * i + k * (2 * i) - 2 * i <= n) ->
  (3 * i + k * (2 * i) - 2 * i = n <-> (i | n)).
Proof.
  intros i n k Hi Hoi Hon H3 Hk Hlt Hlast. split.
  - intro E. exists (2 * k + 1). lia.
  - intros [m Hm]. assert (Hk0 : 0 < k) by nia. specialize (Hlast Hk0).
    assert (Hom : Z.odd m = true) by (subst n; rewrite Z.odd_mul in Hon; apply andb_prop in Hon; tauto).
    (* i*(2k+1) <= i*m < i*(2k+3), m odd: m = 2k+1 *)
    assert (2 * k + 1 <= m) by nia. assert (m < 2 * k + 3) by nia.
    destruct (Z.eq_dec m (2 * k + 1)) as [->|Hne]; [lia|]. exfalso.
    assert (m = 2 * (k + 1)) by lia. subst m. rewrite Z.odd_mul in Hom. discriminate Hom.
Qed.

Section Main.
  Variable P : Z.
  Hypothesis HP : 1 <= P.

  Definition inv (M : marks) (n i : Z) (acc : list Z) : Prop :=
    0 < n /\ Z.odd n = true /\ (n | P)
    /\ (forall q, prime q -> (q | P) -> (q | n) \/ In q acc)
    /\ (forall a, In a acc -> prime a /\ (a | P) /\ ~ (a | n))
    /\ NoDup acc
    /\ (forall q, prime q -> q < i -> ~ (q | n))
    /\ (forall x, marked M x = true -> ~ prime x)
    /\ 3 <= i /\ Z.odd i = true.

  Lemma erat_loop_spec : forall F fuel M N0 n i acc l,
    inv M n i acc -> erat_loop F fuel M N0 n i acc = Some l ->
    NoDup l /\ forall q, In q l <-> prime q /\ (q | P).
  Proof.
    intros F. induction fuel as [|f IH]; intros M N0 n i acc l Hinv H; [discriminate|].
    destruct Hinv as (Hn & Hon & HnP & Hall & Hacc & Hnd & Hsm & Hmk & Hi3 & Hoi).
    cbn [erat_loop] in H. destruct (Z.leb_spec i (Z.sqrt n)) as [Hle|Hgt].
    - (* one round *)
      assert (Hii : i * i <= n).
      { pose proof (Z.sqrt_spec n ltac:(lia)) as Hs. cbn zeta in Hs. destruct Hs as [Hs _].
        assert (i * i <= Z.sqrt n * Z.sqrt n) by (apply Z.mul_le_mono_nonneg; lia). lia. }
      cbn zeta in H.
      destruct (mark_loop F M (i + 2 * i) (2 * i) n) as [[M' j]|] eqn:Em; [|discriminate].
      assert (Hii0 : 0 < 2 * i) by lia.
      destruct (mark_loop_spec _ _ _ _ _ _ _ Hii0 Em) as (k & Hk & Hj & Hnj & Hlast & Hmarks).
      assert (Hhit : (j - 2 * i = n) <-> (i | n)).
      { rewrite Hj. replace (i + 2 * i + k * (2 * i)) with (3 * i + k * (2 * i)) by ring.
        apply hit_iff; [exact Hi3|exact Hoi|exact Hon|nia|exact Hk|lia|intro Hk0; specialize (Hlast Hk0); lia]. }
      assert (Hmk' : forall x, marked M' x = true -> ~ prime x).
      { intros x Hx. destruct (Hmarks x Hx) as [Hx'|[t [Ht Hxt]]]; [exact (Hmk x Hx')|].
        intro Hp. apply prime_alt in Hp. destruct Hp as [_ Hp]. apply (Hp i); [nia|]. exists (3 + 2 * t). lia. }
      destruct (Z.eqb_spec (j - 2 * i) n) as [Eh|Eh].
      + (* i divides n: it is prime, push it, divide it out *)
        assert (Hd : (i | n)) by (apply Hhit; exact Eh).
        destruct (divide_out F n i) as [n'|] eqn:Ed; [|discriminate].
        assert (Hi1 : 1 < i) by lia.
        destruct (divide_out_spec _ _ _ _ Hi1 Hn Hd Ed) as (Hn' & Hnd' & Hn'n & e & He & Hne).
        destruct (scan_loop F M' N0 (i + 1)) as [i'|] eqn:Es; [|discriminate].
        destruct (scan_loop_spec _ _ _ _ _ Es) as (s & Hs & Hi' & Hum & Hskipped).
        assert (Hpi : prime i).
        { apply prime_alt. split; [lia|]. intros d Hd1 Hdi.
          destruct (prime_factor_exists d ltac:(lia)) as [q [Hq Hqd]].
          assert (q <= d) by (apply Z.divide_pos_le; [lia|exact Hqd]).
          apply (Hsm q Hq ltac:(lia)). eapply Z.divide_trans; [exact Hqd|]. eapply Z.divide_trans; eassumption. }
        apply (IH M' N0 n' i' (i :: acc) l); [|exact H].
        assert (Hon' : Z.odd n' = true).
        { rewrite Hne in Hon. rewrite Z.odd_mul in Hon. apply andb_prop in Hon. tauto. }
        split; [exact Hn'|]. split; [exact Hon'|]. split; [eapply Z.divide_trans; eassumption|].
        split.
        { intros q Hq HqP. destruct (Hall q Hq HqP) as [Hqn|Hin]; [|right; right; exact Hin].
          rewrite Hne in Hqn. apply prime_mult in Hqn; [|exact Hq]. destruct Hqn as [Hqi|Hqn']; [|left; exact Hqn'].
          right. left. symmetry. apply (prime_power_prime q i e ltac:(lia) Hq Hpi Hqi). }
        split.
        { intros a [<-|Hin].
          - split; [exact Hpi|]. split; [eapply Z.divide_trans; eassumption|exact Hnd'].
          - destruct (Hacc a Hin) as (H1 & H2 & H3). split; [exact H1|]. split; [exact H2|].
            intro Hc. apply H3. eapply Z.divide_trans; eassumption. }
        split.
        { constructor; [|exact Hnd]. intro Hin. destruct (Hacc i Hin) as (_ & _ & Hni). exact (Hni Hd). }
        split.
        { intros q Hq Hlt Hqn'. destruct (Z_lt_le_dec q i) as [Hl|Hg].
          - apply (Hsm q Hq Hl). eapply Z.divide_trans; eassumption.
          - destruct (Z.eq_dec q i) as [->|Hne']; [exact (Hnd' Hqn')|].
            (* i < q < i', q odd: it was skipped, hence marked, hence not prime *)
            assert (Hoq : Z.odd q = true).
            { destruct (Z.odd q) eqn:Eo; [reflexivity|]. exfalso. apply (even_not_prime q); [lia|rewrite <- Z.negb_odd, Eo; reflexivity|exact Hq]. }
            assert (Hev : Z.even (q - i) = true) by (rewrite Z.even_sub, <- !Z.negb_odd, Hoq, Hoi; reflexivity).
            apply Z.even_spec in Hev. destruct Hev as [t Ht].
            apply (Hmk' q); [|exact Hq]. replace q with (i + 1 + 1 + 2 * (t - 1)) by lia. apply Hskipped. lia. }
        split; [exact Hmk'|]. split; [lia|].
        rewrite Hi'. replace (i + 1 + 1 + 2 * s) with (i + 2 * (s + 1)) by ring. rewrite Z.odd_add, Z.odd_mul. cbn [Z.odd andb]. rewrite Hoi. reflexivity.
      + (* i does not divide n *)
        assert (Hnd' : ~ (i | n)) by (intro Hc; apply Eh; apply Hhit; exact Hc).
        destruct (scan_loop F M' N0 (i + 1)) as [i'|] eqn:Es; [|discriminate].
        destruct (scan_loop_spec _ _ _ _ _ Es) as (s & Hs & Hi' & Hum & Hskipped).
        apply (IH M' N0 n i' acc l); [|exact H].
        split; [exact Hn|]. split; [exact Hon|]. split; [exact HnP|]. split; [exact Hall|]. split; [exact Hacc|]. split; [exact Hnd|].
        split.
        { intros q Hq Hlt Hqn. destruct (Z_lt_le_dec q i) as [Hl|Hg]; [exact (Hsm q Hq Hl Hqn)|].
          destruct (Z.eq_dec q i) as [->|Hne']; [exact (Hnd' Hqn)|].
          assert (Hoq : Z.odd q = true).
          { destruct (Z.odd q) eqn:Eo; [reflexivity|]. exfalso. apply (even_not_prime q); [lia|rewrite <- Z.negb_odd, Eo; reflexivity|exact Hq]. }
          assert (Hev : Z.even (q - i) = true) by (rewrite Z.even_sub, <- !Z.negb_odd, Hoq, Hoi; reflexivity).
          apply Z.even_spec in Hev. destruct Hev as [t Ht].
          apply (Hmk' q); [|exact Hq]. replace q with (i + 1 + 1 + 2 * (t - 1)) by lia. apply Hskipped. lia. }
        split; [exact Hmk'|]. split; [lia|].
        rewrite Hi'. replace (i + 1 + 1 + 2 * s) with (i + 2 * (s + 1)) by ring. rewrite Z.odd_add, Z.odd_mul. cbn [Z.odd andb]. rewrite Hoi. reflexivity.
    - (* i > sqrt n: n is 1 or prime *)
      assert (Hlt : n < i * i).
      { pose proof (Z.sqrt_spec n ltac:(lia)) as Hs. cbn zeta in Hs. destruct Hs as [_ Hs].
        assert ((Z.sqrt n + 1) * (Z.sqrt n + 1) <= i * i) by (apply Z.mul_le_mono_nonneg; pose proof (Z.sqrt_nonneg n); lia). lia. }
      assert (Hn1 : n = 1 \/ prime n).
      { destruct (Z.eq_dec n 1) as [->|Hne]; [left; reflexivity|right].
        apply prime_alt. split; [lia|]. intros d Hd1 Hdn.
        destruct (small_divisor n d Hd1 Hdn) as [c [Hc Hcn]].
        destruct (prime_factor_exists c ltac:(lia)) as [q [Hq Hqc]].
        assert (q <= c) by (apply Z.divide_pos_le; [lia|exact Hqc]).
        assert (Hcs : c * c <= n).
        { pose proof (Z.sqrt_spec n ltac:(lia)) as Hs. cbn zeta in Hs. destruct Hs as [Hs _].
          assert (c * c <= Z.sqrt n * Z.sqrt n) by (apply Z.mul_le_mono_nonneg; lia). lia. }
        apply (Hsm q Hq ltac:(nia)). eapply Z.divide_trans; eassumption. }
      inversion H; subst l. clear H.
      destruct Hn1 as [->|Hpn].
      + (* n = 1 *)
        replace (negb (marked M 1) && (1 <? 1)) with false by (rewrite andb_comm; reflexivity).
        split; [apply NoDup_rev; exact Hnd|]. intro q. rewrite <- in_rev. split.
        * intro Hin. destruct (Hacc q Hin) as (H1 & H2 & _). split; assumption.
        * intros [Hq HqP]. destruct (Hall q Hq HqP) as [Hq1|Hin]; [|exact Hin].
          exfalso. pose proof (prime_ge_2 _ Hq). apply Z.divide_1_r_nonneg in Hq1; lia.
      + pose proof (prime_ge_2 _ Hpn) as Hn2.
        assert (Hum : marked M n = false) by (destruct (marked M n) eqn:E; [exfalso; exact (Hmk n E Hpn)|reflexivity]).
        rewrite Hum. destruct (Z.ltb_spec 1 n); [|lia]. cbn [negb andb].
        split.
        * apply NoDup_rev. constructor; [|exact Hnd]. intro Hin. destruct (Hacc n Hin) as (_ & _ & Hc). apply Hc. apply Z.divide_refl.
        * intro q. rewrite <- in_rev. split.
          -- intros [<-|Hin]; [split; assumption|]. destruct (Hacc q Hin) as (H1 & H2 & _). split; assumption.
          -- intros [Hq HqP]. destruct (Hall q Hq HqP) as [Hqn|Hin]; [|right; exact Hin].
             left. symmetry. apply prime_div_prime; assumption.
  Qed.
End Main.

(* the model is None for every p whose odd part exceeds INT_MAX - 1 and whenever `int j` would overflow: the statement covers exactly the
   inputs on which the C++ is defined *)
Definition Erat_stmt : Prop :=
  forall p l, 1 <= p -> erat_model p = Some l -> NoDup l /\ forall q, In q l <-> prime q /\ (q | p).

Lemma erat_correct : Erat_stmt.
Proof.
  intros p l Hp H. unfold erat_model in H. destruct (Z.leb_spec p 0); [lia|].
  destruct (Z.odd p) eqn:Eo; cbn [negb] in H.
  - destruct (INT_MAX - 1 <? p); [discriminate|].
    cbn zeta in H. apply (erat_loop_spec p _ _ _ _ _ _ _ _) in H; [exact H|].
    split; [lia|]. split; [exact Eo|]. split; [apply Z.divide_refl|]. split; [intros q _ Hq; left; exact Hq|].
    split; [intros a []|]. split; [constructor|]. split.
    + intros q Hq Hlt Hqp. pose proof (prime_ge_2 _ Hq). assert (q = 2) by lia. subst q.
      destruct Hqp as [m Hm]. subst p. rewrite Z.odd_mul in Eo. cbn in Eo. rewrite andb_false_r in Eo. discriminate.
    + split; [intros x Hx; rewrite marked_empty in Hx; discriminate|]. split; [lia|reflexivity].
  - destruct (halve (S (Z.to_nat p)) p) as [n|] eqn:Eh; [|discriminate].
    assert (Hp0 : 0 < p) by lia.
    destruct (halve_spec _ _ _ Hp0 Eh) as (Hn & Hon & k & Hk & Hpk).
    destruct (INT_MAX - 1 <? n); [discriminate|].
    cbn zeta in H. apply (erat_loop_spec p _ _ _ _ _ _ _ _) in H; [exact H|].
    assert (Hk1 : 1 <= k).
    { destruct (Z.eq_dec k 0) as [->|]; [|lia]. rewrite Z.pow_0_r, Z.mul_1_l in Hpk. subst n. congruence. }
    assert (H2p : (2 | p)) by (exists (2 ^ (k - 1) * n); rewrite Hpk; replace k with ((k - 1) + 1) at 1 by lia; rewrite Z.pow_add_r by lia; rewrite Z.pow_1_r; ring).
    assert (H2n : ~ (2 | n)).
    { intros [m Hm]. subst n. rewrite Z.odd_mul in Hon. cbn in Hon. rewrite andb_false_r in Hon. discriminate. }
    split; [exact Hn|]. split; [exact Hon|]. split; [exists (2 ^ k); lia|]. split.
    + intros q Hq Hqp. rewrite Hpk in Hqp. apply prime_mult in Hqp; [|exact Hq]. destruct Hqp as [Hq2|Hqn]; [|left; exact Hqn].
      right. left. symmetry. apply (prime_power_prime q 2 k ltac:(lia) Hq prime_2 Hq2).
    + split; [intros a [<-|[]]; split; [exact prime_2|split; assumption]|].
      split; [constructor; [intros []|constructor]|]. split.
      * intros q Hq Hlt Hqn. pose proof (prime_ge_2 _ Hq). assert (q = 2) by lia. subst q. exact (H2n Hqn).
      * split; [intros x Hx; rewrite marked_empty in Hx; discriminate|]. split; [lia|reflexivity].
Qed.

Example erat_example : erat_model 4095 = Some [3; 5; 7; 13] /\ erat_model (2 ^ 31 - 1) = None /\ erat_model 0 = None.
Proof. vm_compute. repeat split; reflexivity. Qed.
