(* Complete factorisation set(Lf, Lo, n, loops) and the trial-division front end of factor():
   for EVERY answer sequence of the factor finder (Pollard / ECM / the primality-checked wrappers are an
   oracle `ifp` constrained only by what the code itself relies on: the answer is 1 or a divisor > 1),
   the returned list has pairwise distinct factors > 1, exponents >= 1, and its product is |n|;
   if the oracle only returns primes and the result is flagged complete, every factor is prime. *)
From Coq Require Import ZArith Znumtheory Lia List Bool.
Require Import C12.gen.Tables.
From C12 Require Import PrimeB Model.
Import ListNotations.
Local Open Scope Z_scope.

Fixpoint prodl (l : list (Z * Z)) : Z :=
  match l with [] => 1 | (g, c) :: t => g ^ c * prodl t end.

Definition ifp_ok (ifp : Z -> option Z) : Prop :=
  forall nn g, 1 < nn -> ifp nn = Some g -> g = 1 \/ (1 < g /\ (g | nn)).
Definition ifp_primes (ifp : Z -> option Z) : Prop :=
  forall nn g, 1 < nn -> ifp nn = Some g -> g <> 1 -> prime g.
Definition ifp_total (ifp : Z -> option Z) : Prop :=
  forall nn, 1 < nn -> exists g, ifp nn = Some g.

(* ---------------------------------------------------------------- the exponent loop *)
Lemma strip_spec : forall fuel g u c nn' c',
  1 < g -> 0 < u -> strip fuel g u c = Some (nn', c') ->
  exists k, 0 <= k /\ c' = c + 1 + k /\ u = g ^ k * nn' /\ 0 < nn' /\ ~ (g | nn').
Proof.
  induction fuel as [|f IH]; intros g u c nn' c' Hg Hu H; [discriminate|].
  cbn [strip] in H. destruct (Z.eqb_spec (u mod g) 0) as [E|E].
  - assert (Hd : u = g * (u / g)) by (apply Z_div_exact_full_2; lia).
    assert (Hq : 0 < u / g) by nia.
    destruct (IH g (u / g) (c + 1) nn' c' Hg Hq H) as [k [Hk [Hc [Hu' [Hn Hnd]]]]].
    exists (k + 1). split; [lia|]. split; [lia|]. split; [|split; assumption].
    rewrite Z.pow_add_r by lia. rewrite Z.pow_1_r. rewrite Hd at 1. rewrite Hu' at 1. ring.
  - inversion H; subst nn' c'. exists 0. split; [lia|]. split; [lia|]. split; [rewrite Z.pow_0_r; ring|].
    split; [lia|]. intro Hdiv. apply E. apply Z.mod_divide; [lia|exact Hdiv].
Qed.

Lemma strip_terminates : forall fuel g u c,
  1 < g -> 0 < u -> (Z.to_nat u < fuel)%nat -> exists r, strip fuel g u c = Some r.
Proof.
  induction fuel as [|f IH]; intros g u c Hg Hu Hf; [lia|].
  cbn [strip]. destruct (Z.eqb_spec (u mod g) 0) as [E|E]; [|eexists; reflexivity].
  assert (Hd : u = g * (u / g)) by (apply Z_div_exact_full_2; lia).
  assert (Hq : 0 < u / g) by nia.
  apply IH; [exact Hg|exact Hq|]. assert (u / g < u) by nia. lia.
Qed.

(* one round of set(): g > 1 divides nn > 1 *)
Lemma round_spec : forall fuel g nn nn' c,
  1 < g -> 1 < nn -> (g | nn) -> strip fuel g (divexact nn g) 0 = Some (nn', c) ->
  1 <= c /\ nn = g ^ c * nn' /\ 0 < nn' < nn /\ ~ (g | nn').
Proof.
  intros fuel g nn nn' c Hg Hn [q Hq] H.
  assert (Hde : divexact nn g = q).
  { unfold divexact. destruct (Z.eqb_spec nn 0); [lia|]. subst nn. apply Z.div_mul. lia. }
  rewrite Hde in H. assert (Hq0 : 0 < q) by nia.
  destruct (strip_spec _ _ _ _ _ _ Hg Hq0 H) as [k [Hk [Hc [Hu [Hn' Hnd]]]]].
  split; [lia|]. assert (Hpow : g ^ c = g ^ k * g) by (subst c; replace (0 + 1 + k) with (k + 1) by lia; rewrite Z.pow_add_r by lia; rewrite Z.pow_1_r; reflexivity).
  split; [rewrite Hpow, Hq, Hu; ring|]. split; [|exact Hnd].
  assert (0 < g ^ k) by (apply Z.pow_pos_nonneg; lia). nia.
Qed.

(* ---------------------------------------------------------------- set(Lf, Lo, n, loops) *)
Definition factor_list_ok (nn : Z) (l : list (Z * Z)) : Prop :=
  prodl l = nn /\ Forall (fun gc => 1 < fst gc /\ 1 <= snd gc /\ (fst gc | nn)) l /\ NoDup (map fst l).

Lemma Forall_weaken_div : forall (l : list (Z * Z)) a b, (a | b) ->
  Forall (fun gc => 1 < fst gc /\ 1 <= snd gc /\ (fst gc | a)) l ->
  Forall (fun gc => 1 < fst gc /\ 1 <= snd gc /\ (fst gc | b)) l.
Proof.
  intros l a b Hab H. eapply Forall_impl; [|exact H]. cbn beta. intros gc (H1 & H2 & H3).
  split; [exact H1|]. split; [exact H2|]. eapply Z.divide_trans; eassumption.
Qed.

Lemma set2_loop_spec : forall ifp, ifp_ok ifp -> forall fuel nn l fl,
  1 <= nn -> set2_loop ifp fuel nn = Some (l, fl) -> factor_list_ok nn l.
Proof.
  intros ifp Hok. induction fuel as [|f IH]; intros nn l fl Hn H; [discriminate|].
  cbn [set2_loop] in H. destruct (Z.gtb_spec nn 1) as [Hgt|Hle].
  2:{ inversion H; subst l fl. assert (nn = 1) by lia. subst nn. split; [reflexivity|]. split; constructor. }
  destruct (ifp nn) as [g0|] eqn:Eg; [|discriminate].
  set (g := if g0 =? 1 then nn else g0) in *.
  assert (Hg : 1 < g /\ (g | nn)).
  { subst g. destruct (Z.eqb_spec g0 1) as [->|Hne]; [split; [lia|apply Z.divide_refl]|].
    destruct (Hok nn g0 Hgt Eg) as [->|[H1 H2]]; [congruence|split; assumption]. }
  destruct Hg as [Hg1 Hgd].
  destruct (strip (S (S f)) g (divexact nn g) 0) as [[nn' c]|] eqn:Es; [|discriminate].
  destruct (set2_loop ifp f nn') as [[rest fl']|] eqn:Er; [|discriminate].
  inversion H; subst l fl. clear H.
  destruct (round_spec _ _ _ _ _ Hg1 Hgt Hgd Es) as (Hc & Hnn & Hrange & Hnd).
  destruct (IH nn' rest fl' ltac:(lia) Er) as (Hp & Hall & Hdup).
  assert (Hdiv' : (nn' | nn)) by (exists (g ^ c); lia).
  split; [cbn [prodl]; rewrite Hp; lia|]. split.
  - constructor; [cbn [fst snd]; split; [exact Hg1|split; [exact Hc|exact Hgd]]|].
    exact (Forall_weaken_div rest nn' nn Hdiv' Hall).
  - cbn [map fst]. constructor; [|exact Hdup].
    intro Hin. apply in_map_iff in Hin. destruct Hin as [[g' c'] [Hfst Hin]]. cbn [fst] in Hfst. subst g'.
    rewrite Forall_forall in Hall. destruct (Hall _ Hin) as (_ & _ & Hd). cbn [fst] in Hd. exact (Hnd Hd).
Qed.

Lemma set2_loop_primes : forall ifp, ifp_ok ifp -> ifp_primes ifp -> forall fuel nn l,
  set2_loop ifp fuel nn = Some (l, true) -> Forall (fun gc => prime (fst gc)) l.
Proof.
  intros ifp Hok Hpr. induction fuel as [|f IH]; intros nn l H; [discriminate|].
  cbn [set2_loop] in H. destruct (Z.gtb_spec nn 1) as [Hgt|Hle]; [|inversion H; constructor].
  destruct (ifp nn) as [g0|] eqn:Eg; [|discriminate].
  destruct (strip (S (S f)) (if g0 =? 1 then nn else g0) (divexact nn (if g0 =? 1 then nn else g0)) 0) as [[nn' c]|]; [|discriminate].
  destruct (set2_loop ifp f nn') as [[rest fl']|] eqn:Er; [|discriminate].
  destruct (Z.eqb_spec g0 1) as [E1|E1]; inversion H; subst l. subst fl'.
  constructor; [cbn [fst]; exact (Hpr nn g0 Hgt Eg E1)|]. exact (IH nn' rest Er).
Qed.

Lemma set2_loop_terminates : forall ifp, ifp_ok ifp -> ifp_total ifp -> forall fuel nn,
  (Z.to_nat nn < fuel)%nat -> exists r, set2_loop ifp fuel nn = Some r.
Proof.
  intros ifp Hok Htot. induction fuel as [|f IH]; intros nn Hf; [lia|].
  cbn [set2_loop]. destruct (Z.gtb_spec nn 1) as [Hgt|Hle]; [|eexists; reflexivity].
  destruct (Htot nn Hgt) as [g0 Eg]. rewrite Eg.
  set (g := if g0 =? 1 then nn else g0).
  assert (Hg : 1 < g /\ (g | nn)).
  { subst g. destruct (Z.eqb_spec g0 1) as [->|Hne]; [split; [lia|apply Z.divide_refl]|].
    destruct (Hok nn g0 Hgt Eg) as [->|[H1 H2]]; [congruence|split; assumption]. }
  destruct Hg as [Hg1 [q Hq]].
  assert (Hde : divexact nn g = q).
  { unfold divexact. destruct (Z.eqb_spec nn 0); [lia|]. rewrite Hq. apply Z.div_mul. lia. }
  assert (Hq0 : 0 < q) by nia.
  destruct (strip_terminates (S (S f)) g (divexact nn g) 0 Hg1 ltac:(lia)) as [[nn' c] Es]; [rewrite Hde; nia|].
  rewrite Es.
  destruct (round_spec _ _ _ _ _ Hg1 Hgt (ex_intro _ q Hq) Es) as (_ & _ & Hrange & _).
  destruct (IH nn' ltac:(lia)) as [[rest fl'] Er]. rewrite Er. eexists; reflexivity.
Qed.

Definition Set2_stmt : Prop :=
  forall (ifp : Z -> option Z) (fuel : nat) (n : Z) (l : list (Z * Z)) (fl : bool),
    ifp_ok ifp -> n <> 0 -> set2_model ifp fuel n = Some (l, fl) ->
    prodl l = Z.abs n
    /\ Forall (fun gc => 1 < fst gc /\ 1 <= snd gc /\ (fst gc | n)) l
    /\ NoDup (map fst l)
    /\ (ifp_primes ifp -> fl = true -> Forall (fun gc => prime (fst gc)) l).
Lemma set2_correct : Set2_stmt.
Proof.
  intros ifp fuel n l fl Hok Hn H. unfold set2_model in H.
  set (nn := if n <? 0 then - n else n) in *.
  assert (Hnn : nn = Z.abs n) by (subst nn; destruct (Z.ltb_spec n 0); lia).
  destruct (set2_loop_spec ifp Hok fuel nn l fl ltac:(lia) H) as (Hp & Hall & Hdup).
  split; [lia|]. split; [|split; [exact Hdup|]].
  - apply (Forall_weaken_div l nn n); [|exact Hall]. rewrite Hnn. apply Z.divide_abs_l. apply Z.divide_refl.
  - intros Hpr ->. exact (set2_loop_primes ifp Hok Hpr fuel nn l H).
Qed.

Definition Set2_terminates_stmt : Prop :=
  forall (ifp : Z -> option Z) (fuel : nat) (n : Z),
    ifp_ok ifp -> ifp_total ifp -> (Z.to_nat (Z.abs n) < fuel)%nat -> exists r, set2_model ifp fuel n = Some r.
Lemma set2_terminates : Set2_terminates_stmt.
Proof.
  intros ifp fuel n Hok Htot Hf. unfold set2_model.
  apply (set2_loop_terminates ifp Hok Htot). destruct (Z.ltb_spec n 0); lia.
Qed.

(* the hypotheses are satisfiable: the least-divisor function is such an oracle *)
Fixpoint least_div (fuel : nat) (d n : Z) : Z :=
  match fuel with O => n | S f => if n mod d =? 0 then d else least_div f (d + 1) n end.
Example set2_example :
  set2_model (fun nn => Some (least_div (Z.to_nat nn) 2 nn)) 20 (-360) = Some ([(2, 3); (3, 2); (5, 1)], true).
Proof. vm_compute. reflexivity. Qed.

(* ---------------------------------------------------------------- factor(): trial division after the primorial gcd *)
Fixpoint prodz (l : list Z) : Z := match l with [] => 1 | x :: t => x * prodz t end.

Lemma prime_div_prodz : forall l p, prime p -> Forall prime l -> (p | prodz l) -> In p l.
Proof.
  induction l as [|x t IH]; intros p Hp Hall Hd; cbn [prodz] in Hd.
  - exfalso. destruct Hp as [Hp1 _]. apply Z.divide_1_r_nonneg in Hd; lia.
  - inversion Hall as [|? ? Hx Ht]; subst. apply prime_mult in Hd; [|exact Hp]. destruct Hd as [Hd|Hd].
    + left. symmetry. apply prime_div_prime; assumption.
    + right. exact (IH p Hp Ht Hd).
Qed.

Lemma pick_spec : forall tests d n,
  (pick tests d n = d /\ forall t r, In (t, r) tests -> n mod t <> 0)
  \/ (exists t r, In (t, r) tests /\ n mod t = 0 /\ pick tests d n = r).
Proof.
  induction tests as [|[t r] rest IH]; intros d n; cbn [pick].
  - left. split; [reflexivity|]. intros t r [].
  - destruct (Z.eqb_spec (n mod t) 0) as [E|E].
    + right. exists t, r. split; [left; reflexivity|]. split; [exact E|reflexivity].
    + destruct (IH d n) as [[H1 H2]|[t' [r' [Hin [Hm Hp]]]]].
      * left. split; [exact H1|]. intros t' r' [Heq|Hin]; [inversion Heq; subst; exact E|exact (H2 _ _ Hin)].
      * right. exists t', r'. split; [right; exact Hin|]. split; assumption.
Qed.

(* what the cascade needs from the source constants; checked by computation on the extracted values *)
Definition cascade_ok (prod : Z) (tests : list (Z * Z)) (d : Z) : bool :=
  (prodz (map fst tests ++ [d]) =? prod) && forallb (fun tr => (fst tr =? snd tr) && primeb (fst tr)) tests && primeb d.

Lemma prime_factor_exists : forall m, 1 < m -> exists p, prime p /\ (p | m).
Proof.
  intros m Hm. assert (H0 : 0 <= m) by lia. revert Hm. pattern m. apply Z_lt_induction; [|exact H0].
  clear. intros n IH Hn. destruct (prime_dec n) as [Hp|Hnp].
  - exists n. split; [exact Hp|apply Z.divide_refl].
  - apply not_prime_divide in Hnp; [|lia]. destruct Hnp as [d [Hd Hdn]].
    destruct (IH d ltac:(lia) ltac:(lia)) as [p [Hp Hpd]]. exists p. split; [exact Hp|].
    eapply Z.divide_trans; eassumption.
Qed.

Lemma cascade_spec : forall prod tests d n,
  cascade_ok prod tests d = true -> Z.gcd n prod <> 1 ->
  prime (pick tests d n) /\ (pick tests d n | n).
Proof.
  intros prod tests d n Hok Hg. unfold cascade_ok in Hok.
  apply andb_prop in Hok. destruct Hok as [Hok Hd]. apply andb_prop in Hok. destruct Hok as [Hprod Htests].
  apply Z.eqb_eq in Hprod. rewrite forallb_forall in Htests. apply primeb_spec in Hd.
  assert (Htr : forall t r, In (t, r) tests -> t = r /\ prime t).
  { intros t r Hin. specialize (Htests _ Hin). cbn [fst snd] in Htests. apply andb_prop in Htests.
    destruct Htests as [H1 H2]. split; [apply Z.eqb_eq; exact H1|apply primeb_spec; exact H2]. }
  assert (Hall : Forall prime (map fst tests ++ [d])).
  { apply Forall_app. split; [|constructor; [exact Hd|constructor]].
    apply Forall_forall. intros x Hx. apply in_map_iff in Hx. destruct Hx as [[t r] [Hfst Hin]]. cbn [fst] in Hfst. subst x.
    apply (Htr t r Hin). }
  assert (Hpos : 0 < prod).
  { rewrite <- Hprod. clear -Hall. induction Hall as [|x l Hx _ IH]; cbn [prodz]; [lia|]. pose proof (prime_ge_2 _ Hx). nia. }
  assert (Hgp : 1 < Z.gcd n prod).
  { pose proof (Z.gcd_nonneg n prod). assert (Z.gcd n prod <> 0) by (intro E0; apply Z.gcd_eq_0_r in E0; lia). lia. }
  destruct (prime_factor_exists _ Hgp) as [p [Hp Hpg]].
  assert (Hpn : (p | n)) by (eapply Z.divide_trans; [exact Hpg|apply Z.gcd_divide_l]).
  assert (Hpp : (p | prod)) by (eapply Z.divide_trans; [exact Hpg|apply Z.gcd_divide_r]).
  rewrite <- Hprod in Hpp. pose proof (prime_div_prodz _ p Hp Hall Hpp) as Hin.
  destruct (pick_spec tests d n) as [[Hpick Hnone]|[t [r [Hint [Hm Hpick]]]]].
  - rewrite Hpick. split; [exact Hd|]. apply in_app_or in Hin. destruct Hin as [Hin|[Hin|[]]].
    + exfalso. apply in_map_iff in Hin. destruct Hin as [[t r] [Hfst Hin]]. cbn [fst] in Hfst. subst t.
      apply (Hnone p r Hin). apply Z.mod_divide; [pose proof (prime_ge_2 _ Hp); lia|exact Hpn].
    + subst d. exact Hpn.
  - destruct (Htr t r Hint) as [Heq Hpt]. rewrite Hpick, <- Heq. split; [exact Hpt|].
    apply Z.mod_divide; [pose proof (prime_ge_2 _ Hpt); lia|exact Hm].
Qed.

Lemma first_cascade_ok : cascade_ok PROD_FIRST FIRST_TESTS FIRST_DEFAULT = true. Proof. vm_compute. reflexivity. Qed.
Lemma second_cascade_ok : cascade_ok PROD_SECOND SECOND_TESTS SECOND_DEFAULT = true. Proof. vm_compute. reflexivity. Qed.

(* factor(r, n, loops): the returned value divides n; it is a PRIME factor whenever n shares a factor with one of
   the two primorials; otherwise it is what Pollard's walk returned (oracle), n itself for n < 3 or n prime. *)
Definition Factor_stmt : Prop :=
  forall (isprime : Z -> bool) (pollard_orc : Z -> Z) (n : Z),
    (Z.gcd n PROD_FIRST <> 1 \/ Z.gcd n PROD_SECOND <> 1 ->
       prime (factor_model isprime pollard_orc n) /\ (factor_model isprime pollard_orc n | n))
    /\ ((forall m, (pollard_orc m | m)) -> (factor_model isprime pollard_orc n | n)).
Lemma factor_correct : Factor_stmt.
Proof.
  intros isprime orc n. unfold factor_model, factor_first, factor_second, pollard_model.
  destruct (Z.eqb_spec (Z.gcd n PROD_FIRST) 1) as [E1|E1].
  - destruct (Z.eqb_spec (Z.gcd n PROD_SECOND) 1) as [E2|E2].
    + split; [intros [H|H]; congruence|]. intro Horc.
      destruct (n <? 3); [apply Z.divide_refl|]. destruct (isprime n); [apply Z.divide_refl|apply Horc].
    + pose proof (cascade_spec _ _ _ n second_cascade_ok E2) as [Hp Hd]. split; [intros _; split; assumption|intros _; exact Hd].
  - pose proof (cascade_spec _ _ _ n first_cascade_ok E1) as [Hp Hd]. split; [intros _; split; assumption|intros _; exact Hd].
Qed.
