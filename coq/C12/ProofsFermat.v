(* Pepin's test agrees with primality on the Fermat numbers F_1 .. F_5 (F_1..F_4 prime, F_5 = 641 * 6700417):
   complete sweep of that finite range against trial division (F_6 has a 2^32-step trial division: out of reach here;
   the statement carries its bound). *)
From Coq Require Import ZArith Znumtheory Lia List Bool.
Require Import C12.gen.Tables.
From C12 Require Import PrimeB ModelScript ModelFermat ProofsSweep.
Import ListNotations.
Local Open Scope Z_scope.

Definition pepin_ok (k : Z) : bool := Bool.eqb (pepin_model k) (primeb (fermat_model k)).
Lemma pepin_sweep : forallb pepin_ok (Zseq 1 5) = true.
Proof. vm_compute. reflexivity. Qed.

Definition Pepin_partial_stmt : Prop :=
  forall k, 1 <= k <= 5 -> (pepin_model k = true <-> prime (fermat_model k)).
Lemma pepin_partial : Pepin_partial_stmt.
Proof.
  intros k Hk. pose proof (sweep_lift pepin_ok 1 5 pepin_sweep k ltac:(cbn; lia)) as H.
  unfold pepin_ok in H. apply Bool.eqb_prop in H. rewrite H. apply primeb_spec.
Qed.
Example pepin_example : pepin_model 4 = true /\ fermat_model 4 = 65537 /\ pepin_model 5 = false.
Proof. vm_compute. repeat split; reflexivity. Qed.
