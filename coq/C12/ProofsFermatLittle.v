(* Fermat's little theorem, by the permutation argument: x -> a*x mod p permutes 1..p-1. *)
From Coq Require Import ZArith Znumtheory Lia List Bool Permutation.
From C12 Require Import PrimeB ProofsFactor.
Import ListNotations.
Local Open Scope Z_scope.

Lemma NoDup_Zseq : forall len lo, NoDup (Zseq lo len).
Proof.
  induction len as [|k IH]; intro lo; cbn [Zseq]; constructor; [|apply IH].
  rewrite In_Zseq. lia.
Qed.
Lemma length_Zseq : forall len lo, length (Zseq lo len) = len.
Proof. induction len as [|k IH]; intro lo; cbn [Zseq length]; [reflexivity|rewrite IH; reflexivity]. Qed.

Lemma NoDup_map_local : forall (f : Z -> Z) l, NoDup l ->
  (forall x y, In x l -> In y l -> f x = f y -> x = y) -> NoDup (map f l).
Proof.
  intros f l Hnd. induction Hnd as [|x l Hx Hnd IH]; intro Hinj; cbn [map]; constructor.
  - intro Hin. apply in_map_iff in Hin. destruct Hin as [y [Hfy Hy]].
    assert (y = x) by (apply Hinj; [right; exact Hy|left; reflexivity|exact Hfy]). subst y. exact (Hx Hy).
  - apply IH. intros a b Ha Hb. apply Hinj; right; assumption.
Qed.

Lemma prodz_perm : forall l l', Permutation l l' -> prodz l = prodz l'.
Proof. intros l l' H. induction H; cbn [prodz]; [reflexivity|rewrite IHPermutation; reflexivity|ring|congruence]. Qed.

Lemma prodz_map_mul_mod : forall a p l, 0 < p ->
  prodz (map (fun x => a * x mod p) l) mod p = (a ^ Z.of_nat (length l) * prodz l) mod p.
Proof.
  intros a p l Hp. induction l as [|x l IH]; cbn [map prodz length].
  - rewrite Z.pow_0_r, Z.mul_1_l. reflexivity.
  - rewrite Nat2Z.inj_succ, Z.pow_succ_r by lia. rewrite Z.mul_mod by lia. rewrite IH. rewrite Z.mod_mod by lia.
    rewrite <- Z.mul_mod by lia. f_equal. ring.
Qed.

Lemma prime_not_div_prodz : forall p l, prime p -> (forall x, In x l -> ~ (p | x)) -> ~ (p | prodz l).
Proof.
  intros p l Hp. induction l as [|x l IH]; intros Hall Hd; cbn [prodz] in Hd.
  - pose proof (prime_ge_2 _ Hp). apply Z.divide_1_r_nonneg in Hd; lia.
  - apply prime_mult in Hd; [|exact Hp]. destruct Hd as [Hd|Hd]; [exact (Hall x (or_introl eq_refl) Hd)|].
    apply IH; [intros y Hy; apply Hall; right; exact Hy|exact Hd].
Qed.

Lemma not_div_small : forall p x, 1 <= x < p -> ~ (p | x).
Proof. intros p x Hx [q Hq]. assert (0 < q) by nia. nia. Qed.

Theorem fermat_little : forall p a, prime p -> ~ (p | a) -> a ^ (p - 1) mod p = 1.
Proof.
  intros p a Hp Hna. pose proof (prime_ge_2 _ Hp) as Hp2.
  set (L := Zseq 1 (Z.to_nat (p - 1))). set (f := fun x => a * x mod p). set (M := map f L).
  assert (HinL : forall x, In x L <-> 1 <= x < p) by (intro x; unfold L; rewrite In_Zseq, Z2Nat.id by lia; lia).
  assert (Hrange : forall x, In x L -> In (f x) L).
  { intros x Hx. apply HinL in Hx. apply HinL. unfold f. pose proof (Z.mod_pos_bound (a * x) p ltac:(lia)).
    assert (a * x mod p <> 0).
    { intro E. apply Z.mod_divide in E; [|lia]. apply prime_mult in E; [|exact Hp]. destruct E as [E|E]; [exact (Hna E)|exact (not_div_small p x Hx E)]. }
    lia. }
  assert (HndM : NoDup M).
  { apply NoDup_map_local; [apply NoDup_Zseq|]. intros x y Hx Hy Hf. apply HinL in Hx. apply HinL in Hy. unfold f in Hf.
    assert (Hd : (p | a * (x - y))).
    { apply Z.mod_divide; [lia|]. replace (a * (x - y)) with (a * x - a * y) by ring. rewrite Zminus_mod, Hf, Z.sub_diag. apply Z.mod_0_l. lia. }
    apply prime_mult in Hd; [|exact Hp]. destruct Hd as [Hd|[q Hq]]; [contradiction|].
    assert (q = 0) by nia. nia. }
  assert (Hperm : Permutation L M).
  { apply NoDup_Permutation; [apply NoDup_Zseq|exact HndM|]. intro x. split.
    - intro Hx. assert (Hincl : incl L M).
      { apply NoDup_length_incl; [exact HndM|unfold M; rewrite map_length; lia|].
        intros y Hy. apply in_map_iff in Hy. destruct Hy as [z [Hz Hzl]]. subst y. apply Hrange. exact Hzl. }
      apply Hincl. exact Hx.
    - intro Hx. apply in_map_iff in Hx. destruct Hx as [z [Hz Hzl]]. subst x. apply Hrange. exact Hzl. }
  pose proof (prodz_perm _ _ Hperm) as Hprod.
  pose proof (prodz_map_mul_mod a p L ltac:(lia)) as Hmm. fold f in Hmm. fold M in Hmm. rewrite <- Hprod in Hmm.
  assert (Hlen : Z.of_nat (length L) = p - 1) by (unfold L; rewrite length_Zseq, Z2Nat.id; lia). rewrite Hlen in Hmm.
  assert (Hd : (p | prodz L * (a ^ (p - 1) - 1))).
  { apply Z.mod_divide; [lia|]. replace (prodz L * (a ^ (p - 1) - 1)) with (a ^ (p - 1) * prodz L - prodz L) by ring.
    rewrite Zminus_mod, <- Hmm, Z.sub_diag. apply Z.mod_0_l. lia. }
  apply prime_mult in Hd; [|exact Hp]. destruct Hd as [Hd|Hd].
  - exfalso. apply (prime_not_div_prodz p L Hp); [|exact Hd]. intros x Hx. apply not_div_small. apply HinL. exact Hx.
  - destruct Hd as [q Hq]. replace (a ^ (p - 1)) with (1 + q * p) by lia. rewrite Z.mod_add by lia. apply Z.mod_small. lia.
Qed.
