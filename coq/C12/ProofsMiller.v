(* IntPrimeDom::Miller(g, n) never rejects a prime: for EVERY prime n > 3 and every witness not divisible by n the model
   answers 1 (Fermat's little theorem, the square roots of 1 modulo a prime, and the loop structure of the code:
   2-adic split of n - 1, binary powering, at most s - 1 squarings). *)
From Coq Require Import ZArith Znumtheory Zpow_facts Lia List Bool.
Require Import C12.gen.Tables.
From C12 Require Import PrimeB ModelScript ProofsPowmod ProofsFermatLittle.
Import ListNotations.
Local Open Scope Z_scope.

Lemma split2_spec : forall fuel t s t' s', 0 < t < 2 ^ Z.of_nat fuel -> 0 <= s -> split2 fuel t s = (t', s') ->
  Z.odd t' = true /\ 0 < t' /\ s <= s' /\ t = t' * 2 ^ (s' - s).
Proof.
  induction fuel as [|f IH]; intros t s t' s' Ht Hs H.
  - cbn [Z.of_nat] in Ht. rewrite Z.pow_0_r in Ht. lia.
  - cbn [split2] in H. destruct (Z.odd t) eqn:Eo.
    + inversion H; subst t' s'. split; [exact Eo|]. split; [lia|]. split; [lia|]. rewrite Z.sub_diag, Z.pow_0_r. ring.
    + assert (He : Z.even t = true) by (rewrite <- Z.negb_odd, Eo; reflexivity).
      apply Z.even_spec in He. destruct He as [m Hm].
      assert (Hd : t / 2 = m) by (subst t; rewrite Z.mul_comm; apply Z.div_mul; lia).
      rewrite Hd in H. rewrite Nat2Z.inj_succ, Z.pow_succ_r in Ht by lia.
      destruct (IH m (s + 1) t' s' ltac:(lia) ltac:(lia) H) as (H1 & H2 & H3 & H4).
      split; [exact H1|]. split; [exact H2|]. split; [lia|]. subst t. rewrite H4.
      replace (s' - s) with ((s' - (s + 1)) + 1) by lia. rewrite Z.pow_add_r by lia. rewrite Z.pow_1_r. ring.
Qed.

Lemma sqrt_one : forall p x, prime p -> 0 <= x < p -> x * x mod p = 1 -> x = 1 \/ x = p - 1.
Proof.
  intros p x Hp Hx H. pose proof (prime_ge_2 _ Hp) as Hp2.
  assert (Hd : (p | (x - 1) * (x + 1))).
  { apply Z.mod_divide; [lia|]. replace ((x - 1) * (x + 1)) with (x * x - 1) by ring.
    rewrite Zminus_mod, H. rewrite (Z.mod_small 1 p) by lia. rewrite Z.sub_diag. apply Z.mod_0_l. lia. }
  apply prime_mult in Hd; [|exact Hp]. destruct Hd as [[q Hq]|[q Hq]].
  - left. assert (q = 0) by nia. lia.
  - right. assert (q = 1) by nia. lia.
Qed.

Section Chain.
  Variable n : Z.
  Hypothesis Hp : prime n.
  Hypothesis Hn : 2 < n.

  Lemma pow_two_step : forall q j, 0 <= j -> (q * q mod n) ^ (2 ^ j) mod n = q ^ (2 ^ (j + 1)) mod n.
  Proof.
    intros q j Hj. rewrite Zpower_mod by lia. rewrite Z.mod_mod by lia. rewrite <- Zpower_mod by lia.
    replace (q * q) with (q ^ 2) by (rewrite Z.pow_2_r; reflexivity).
    rewrite <- Z.pow_mul_r by (try lia; apply Z.pow_nonneg; lia).
    rewrite Z.pow_add_r by lia. rewrite Z.pow_1_r. f_equal. f_equal. ring.
  Qed.

  Lemma chain : forall s : nat, forall q, 0 <= q < n -> q ^ (2 ^ Z.of_nat s) mod n = 1 ->
    q = 1 \/ q = n - 1 \/ exists j, 1 <= j < Z.of_nat s /\ q ^ (2 ^ j) mod n = n - 1.
  Proof.
    induction s as [|s IH]; intros q Hq H.
    - cbn [Z.of_nat] in H. rewrite Z.pow_0_r, Z.pow_1_r in H. rewrite Z.mod_small in H by lia. left. exact H.
    - rewrite Nat2Z.inj_succ in H. replace (Z.succ (Z.of_nat s)) with (Z.of_nat s + 1) in H by lia.
      rewrite <- pow_two_step in H by lia.
      pose proof (Z.mod_pos_bound (q * q) n ltac:(lia)) as Hq'.
      destruct (IH (q * q mod n) Hq' H) as [E|[E|[j [Hj Ej]]]].
      + destruct (sqrt_one n q Hp Hq E) as [->| ->]; [left; reflexivity|right; left; reflexivity].
      + right. right. exists 1. split.
        * destruct s as [|s']; [|lia]. exfalso. cbn [Z.of_nat] in H. rewrite Z.pow_0_r, Z.pow_1_r, Z.mod_mod in H by lia. lia.
        * rewrite Z.pow_1_r, Z.pow_2_r. exact E.
      + right. right. exists (j + 1). split; [lia|]. rewrite <- pow_two_step by lia. exact Ej.
  Qed.

  Lemma miller_squares_true : forall fuel s q j, (Z.to_nat s <= fuel)%nat -> 1 <= j < s ->
    q ^ (2 ^ j) mod n = n - 1 -> miller_squares fuel s q n = true.
  Proof.
    induction fuel as [|f IH]; intros s q j Hf Hj H; [lia|].
    cbn [miller_squares]. cbn zeta. destruct (Z.gtb_spec (s - 1) 0); [|lia].
    destruct (Z.eqb_spec (q * q mod n) (n - 1)) as [E|E]; [reflexivity|].
    destruct (Z.eq_dec j 1) as [->|Hj1].
    - exfalso. apply E. rewrite Z.pow_1_r, Z.pow_2_r in H. exact H.
    - apply (IH (s - 1) (q * q mod n) (j - 1)); [lia|lia|].
      rewrite pow_two_step by lia. replace (j - 1 + 1) with j by ring. exact H.
  Qed.
End Chain.

Definition Miller_stmt : Prop :=
  forall n a rest, prime n -> 3 < n -> ~ (n | a) -> miller_model (a :: rest) n = Some true.

Lemma miller_correct : Miller_stmt.
Proof.
  intros n a rest Hp Hn Hna. unfold miller_model.
  destruct (Z.ltb_spec n 2); [lia|]. destruct (Z.leb_spec n 3); [lia|].
  assert (Ham : a mod n <> 0) by (intro E; apply Hna; apply Z.mod_divide; [lia|exact E]).
  cbn [draw]. cbn zeta. destruct (Z.eqb_spec (a mod n) 0) as [|_]; [contradiction|]. rewrite andb_false_r.
  destruct (split2 (Z.to_nat (Z.log2 n + 1)) (n - 1) 0) as [t s] eqn:Es.
  assert (Hfuel : 0 < n - 1 < 2 ^ Z.of_nat (Z.to_nat (Z.log2 n + 1))).
  { split; [lia|]. rewrite Z2Nat.id by (pose proof (Z.log2_nonneg n); lia).
    pose proof (Z.log2_spec n ltac:(lia)) as [_ Hl]. replace (Z.log2 n + 1) with (Z.succ (Z.log2 n)) by lia. lia. }
  destruct (split2_spec _ _ _ _ _ Hfuel (Z.le_refl 0) Es) as (Hot & Ht & Hs & Hts). rewrite Z.sub_0_r in Hts.
  rewrite powmod_correct by lia.
  set (q := (a mod n) ^ t mod n).
  assert (Hq : 0 <= q < n) by (apply Z.mod_pos_bound; lia).
  assert (Hfer : q ^ (2 ^ Z.of_nat (Z.to_nat s)) mod n = 1).
  { rewrite Z2Nat.id by lia. unfold q. rewrite <- Zpower_mod by lia. rewrite <- Z.pow_mul_r by (try lia; apply Z.pow_nonneg; lia).
    rewrite <- Hts. rewrite <- Zpower_mod by lia. apply fermat_little; assumption. }
  destruct (chain n Hp ltac:(lia) (Z.to_nat s) q Hq Hfer) as [E|[E|[j [Hj Ej]]]].
  - rewrite E. cbn [Z.eqb Pos.eqb orb]. reflexivity.
  - rewrite E. rewrite Z.eqb_refl, orb_true_r. reflexivity.
  - rewrite Z2Nat.id in Hj by lia.
    destruct ((q =? 1) || (q =? n - 1)); [reflexivity|]. f_equal.
    assert (Hn2 : 2 < n) by lia. apply (miller_squares_true n Hn2 (Z.to_nat s) s q j); [lia|exact Hj|exact Ej].
Qed.

Example miller_example : miller_model [2; 0] 65537 = Some true /\ ~ (65537 | 2).
Proof. split; [vm_compute; reflexivity|intros [k Hk]; lia]. Qed.
