(* nextprime / prevprime: for ANY primality oracle that is correct on the visited range, the result is the
   least prime above (greatest prime below) the argument: no prime is skipped. *)
From Coq Require Import ZArith Znumtheory Lia List Bool.
Require Import C12.gen.Tables.
From C12 Require Import PrimeB Model.
Local Open Scope Z_scope.

Definition correct_on (isprime : Z -> bool) (lo hi : Z) : Prop :=
  forall m, lo <= m <= hi -> (isprime m = true <-> prime m).

Definition no_prime_between (a b : Z) : Prop := forall q, a < q < b -> ~ prime q.

(* constants read from the source: the proofs below are about these values *)
Lemma next_consts :
  NEXT_LOW = 1 /\ NEXT_LOWVAL = 2 /\ NEXT_ODD = 2 /\ NEXT_EVEN = 1 /\ NEXT_STEP = 2 /\
  NEXTIN_LOW = 1 /\ NEXTIN_LOWVAL = 2 /\ NEXTIN_ODD = 2 /\ NEXTIN_EVEN = 1 /\ NEXTIN_STEP = 2.
Proof. repeat split; reflexivity. Qed.

Lemma prev_consts :
  PREV_LOWVAL = 2 /\ PREV_ODD = 2 /\ PREV_EVEN = 1 /\ PREV_STEP = 2 /\
  PREVIN_LOWVAL = 2 /\ PREVIN_ODD = 2 /\ PREVIN_EVEN = 1 /\ PREVIN_STEP = 2 /\
  PPREV_LOWVAL = 2 /\ PPREV_ODD = 2 /\ PPREV_EVEN = 1 /\ PPREV_STEP = 2.
Proof. repeat split; reflexivity. Qed.

(* the low-end bounds may be 2 (the code as it stands) or 3 (after the repair of the p = 3 case) *)
Lemma prev_low_range : (PREV_LOW = 2 \/ PREV_LOW = 3) /\ (PREVIN_LOW = 2 \/ PREVIN_LOW = 3) /\ (PPREV_LOW = 2 \/ PPREV_LOW = 3).
Proof. repeat split; first [left; reflexivity | right; reflexivity]. Qed.

Section Loops.
  Variable isprime : Z -> bool.

  (* upward: invariant "n odd, nothing prime in (p, n)" *)
  Lemma up_loop_spec : forall fuel p n r,
    2 <= p -> p < n -> Z.odd n = true -> no_prime_between p n ->
    up_loop isprime fuel 2 n = Some r ->
    correct_on isprime n r ->
    prime r /\ p < r /\ no_prime_between p r.
  Proof.
    induction fuel as [|f IH]; intros p n r Hp Hpn Hodd Hnone H Hc; [discriminate|].
    cbn [up_loop] in H. destruct (isprime n) eqn:E.
    - inversion H; subst r. split; [apply (Hc n); [lia|exact E]|]. split; [lia|exact Hnone].
    - assert (Hle : n + 2 <= r).
      { clear -H. revert H. generalize (n + 2). induction f as [|f IHf]; intros s H; [discriminate|].
        cbn [up_loop] in H. destruct (isprime s); [inversion H; lia|].
        specialize (IHf _ H). lia. }
      apply (IH p (n + 2) r); try lia; try exact H.
      + rewrite Z.odd_add. rewrite Hodd. reflexivity.
      + intros q Hq. destruct (Z.eq_dec q n) as [->|Hne].
        * intro Hpr. apply (Hc n) in Hpr; [congruence|lia].
        * destruct (Z.eq_dec q (n + 1)) as [->|Hne2].
          -- apply even_not_prime; [lia|]. rewrite Z.even_add. rewrite <- Z.negb_odd, Hodd. reflexivity.
          -- apply Hnone. lia.
      + intros m Hm. apply Hc. lia.
  Qed.

  Lemma up_loop_terminates : forall fuel n q,
    n <= q -> isprime q = true -> (Z.to_nat (q - n) < fuel)%nat -> Z.even (q - n) = true ->
    exists r, up_loop isprime fuel 2 n = Some r.
  Proof.
    induction fuel as [|f IH]; intros n q Hnq Hq Hf Hpar; [lia|].
    cbn [up_loop]. destruct (isprime n) eqn:E; [eexists; reflexivity|].
    assert (n <> q) by congruence.
    apply Z.even_spec in Hpar. destruct Hpar as [k Hk].
    apply (IH (n + 2) q); try lia; try exact Hq.
    apply Z.even_spec. exists (k - 1). lia.
  Qed.

  (* downward: invariant "n odd, nothing prime in (n, p)" *)
  Lemma down_loop_spec : forall fuel p n r,
    n < p -> Z.odd n = true -> no_prime_between n p ->
    down_loop isprime fuel 2 n = Some r ->
    correct_on isprime r n ->
    prime r /\ r < p /\ no_prime_between r p.
  Proof.
    induction fuel as [|f IH]; intros p n r Hpn Hodd Hnone H Hc; [discriminate|].
    cbn [down_loop] in H. destruct (isprime n) eqn:E.
    - inversion H; subst r. split; [apply (Hc n); [lia|exact E]|]. split; [lia|exact Hnone].
    - assert (Hle : r <= n - 2).
      { clear -H. revert H. generalize (n - 2). induction f as [|f IHf]; intros s H; [discriminate|].
        cbn [down_loop] in H. destruct (isprime s); [inversion H; lia|].
        specialize (IHf _ H). lia. }
      apply (IH p (n - 2) r); try lia; try exact H.
      + rewrite Z.odd_sub. rewrite Hodd. reflexivity.
      + intros q Hq. destruct (Z.eq_dec q n) as [->|Hne].
        * intro Hpr. apply (Hc n) in Hpr; [congruence|lia].
        * destruct (Z.eq_dec q (n - 1)) as [->|Hne2].
          -- intro Hpr. pose proof (prime_ge_2 _ Hpr).
             destruct (Z.eq_dec (n - 1) 2) as [E2|E2].
             ++ (* n = 3 was rejected by a correct oracle: impossible *)
                assert (n = 3) by lia. subst n.
                assert (isprime 3 = true) by (apply (Hc 3); [lia|exact prime_3]). congruence.
             ++ revert Hpr. apply even_not_prime; [lia|]. rewrite Z.even_sub. rewrite <- Z.negb_odd, Hodd. reflexivity.
          -- apply Hnone. lia.
      + intros m Hm. apply Hc. lia.
  Qed.

  (* a downward search that starts at or below 1 never ends when the oracle is right *)
  Lemma down_loop_never : forall fuel n,
    n <= 1 -> (forall m, m <= 1 -> isprime m = false) -> down_loop isprime fuel 2 n = None.
  Proof.
    induction fuel as [|f IH]; intros n Hn Hc; [reflexivity|].
    cbn [down_loop]. rewrite (Hc n Hn). apply IH; [lia|exact Hc].
  Qed.
End Loops.

Lemma odd_first_step_up : forall p, Z.odd (p + first_step 2 1 p) = true.
Proof.
  intro p. unfold first_step. destruct (Z.odd p) eqn:E; rewrite Z.odd_add, E; reflexivity.
Qed.
Lemma odd_first_step_down : forall p, Z.odd (p - first_step 2 1 p) = true.
Proof.
  intro p. unfold first_step. destruct (Z.odd p) eqn:E; rewrite Z.odd_sub, E; reflexivity.
Qed.

(* ---------------------------------------------------------------- nextprime *)
Definition Nextprime_stmt : Prop :=
  forall (isprime : Z -> bool) (fuel : nat) (alias : bool) (p r : Z),
    nextprime_model isprime fuel alias p = Some r ->
    correct_on isprime (p + 1) r ->
    prime r /\ p < r /\ no_prime_between p r.

Lemma gen_next_spec : forall isprime fuel p r,
  gen_next isprime fuel 1 2 2 1 2 p = Some r -> correct_on isprime (p + 1) r ->
  prime r /\ p < r /\ no_prime_between p r.
Proof.
  intros isprime fuel p r H Hc. unfold gen_next in H.
  destruct (Z.leb_spec p 1) as [Hle|Hgt].
  - inversion H; subst r. split; [exact prime_2|]. split; [lia|].
    intros q Hq Hpr. pose proof (prime_ge_2 _ Hpr). lia.
  - assert (Hs : p < p + first_step 2 1 p <= p + 2) by (unfold first_step; destruct (Z.odd p); lia).
    apply (up_loop_spec isprime fuel p (p + first_step 2 1 p) r); try lia; try exact H.
    + apply odd_first_step_up.
    + intros q Hq. unfold first_step in *. destruct (Z.odd p) eqn:E; [|lia].
      assert (q = p + 1) by lia. subst q.
      apply even_not_prime; [lia|]. rewrite Z.even_add, <- Z.negb_odd, E. reflexivity.
    + intros m Hm. apply Hc. lia.
Qed.

Lemma nextprime_correct : Nextprime_stmt.
Proof.
  intros isprime fuel alias p r H Hc. unfold nextprime_model, nextprimein_model in H.
  destruct next_consts as (E1 & E2 & E3 & E4 & E5 & E6 & E7 & E8 & E9 & E10).
  rewrite E1, E2, E3, E4, E5, E6, E7, E8, E9, E10 in H.
  apply (gen_next_spec isprime fuel p r); [|exact Hc].
  unfold gen_next in *. destruct (p <=? 1); [exact H|]. destruct alias; exact H.
Qed.

Definition Nextprimein_stmt : Prop :=
  forall (isprime : Z -> bool) (fuel : nat) (p r : Z),
    nextprimein_model isprime fuel p = Some r ->
    correct_on isprime (p + 1) r ->
    prime r /\ p < r /\ no_prime_between p r.
Lemma nextprimein_correct : Nextprimein_stmt.
Proof.
  intros isprime fuel p r H Hc. unfold nextprimein_model in H.
  destruct next_consts as (E1 & E2 & E3 & E4 & E5 & E6 & E7 & E8 & E9 & E10).
  rewrite E6, E7, E8, E9, E10 in H. exact (gen_next_spec isprime fuel p r H Hc).
Qed.

(* termination: with enough fuel the search ends as soon as some prime above p exists *)
Definition Nextprime_terminates_stmt : Prop :=
  forall (isprime : Z -> bool) (alias : bool) (p q : Z) (fuel : nat),
    p < q -> prime q -> correct_on isprime (p + 1) q -> (Z.to_nat (q - p) < fuel)%nat ->
    exists r, nextprime_model isprime fuel alias p = Some r.
Lemma nextprime_terminates : Nextprime_terminates_stmt.
Proof.
  intros isprime alias p q fuel Hpq Hq Hc Hf.
  assert (G : exists r, gen_next isprime fuel 1 2 2 1 2 p = Some r).
  { unfold gen_next. destruct (Z.leb_spec p 1) as [Hle|Hgt]; [eexists; reflexivity|].
    (* q is odd or q = 2 < ... ; since p >= 2 and q > p, q is an odd prime *)
    assert (Hqodd : Z.odd q = true).
    { destruct (Z.odd q) eqn:E; [reflexivity|]. exfalso. revert Hq. apply even_not_prime; [lia|].
      rewrite <- Z.negb_odd, E. reflexivity. }
    assert (Hs : p < p + first_step 2 1 p <= p + 2) by (unfold first_step; destruct (Z.odd p); lia).
    assert (Hso := odd_first_step_up p).
    assert (Hle : p + first_step 2 1 p <= q).
    { destruct (Z_le_gt_dec (p + first_step 2 1 p) q); [assumption|].
      assert (q = p + 1) by lia. subst q. unfold first_step in *. destruct (Z.odd p) eqn:E; [|lia].
      rewrite Z.odd_add, E in Hqodd. discriminate. }
    apply (up_loop_terminates isprime fuel _ q Hle).
    - apply (Hc q); [lia|exact Hq].
    - lia.
    - rewrite Z.even_sub, <- (Z.negb_odd q), <- (Z.negb_odd (p + first_step 2 1 p)), Hqodd, Hso. reflexivity. }
  destruct G as [r G]. exists r. unfold nextprime_model, nextprimein_model.
  destruct next_consts as (E1 & E2 & E3 & E4 & E5 & E6 & E7 & E8 & E9 & E10).
  rewrite E1, E2, E3, E4, E5, E6, E7, E8, E9, E10.
  unfold gen_next in *. destruct (p <=? 1); [exact G|]. destruct alias; exact G.
Qed.

(* ---------------------------------------------------------------- prevprime *)
Lemma down_loop_result : forall isprime fuel n r,
  down_loop isprime fuel 2 n = Some r -> isprime r = true /\ r <= n.
Proof.
  induction fuel as [|f IH]; intros n r H; [discriminate|].
  cbn [down_loop] in H. destruct (isprime n) eqn:E.
  - inversion H; subst r. split; [exact E|lia].
  - destruct (IH _ _ H). split; [assumption|lia].
Qed.

(* low = the source's low-end bound: 2 as the code stands, 3 once the p = 3 case is repaired *)
Lemma gen_prev_spec : forall isprime fuel low p r,
  (low = 2 \/ low = 3) ->
  gen_prev isprime fuel low 2 2 1 2 p = Some r -> correct_on isprime r (p - 1) ->
  (p <= 2 /\ r = 2) \/ (prime r /\ r < p /\ no_prime_between r p).
Proof.
  intros isprime fuel low p r Hlow H Hc. unfold gen_prev in H.
  destruct (Z.leb_spec p low) as [Hle|Hgt].
  - inversion H; subst r. destruct (Z_le_gt_dec p 2); [left; lia|].
    right. assert (p = 3) by lia. subst p.
    split; [exact prime_2|]. split; [lia|]. intros q Hq. lia.
  - right.
    assert (Hs : p - 2 <= p - first_step 2 1 p < p) by (unfold first_step; destruct (Z.odd p); lia).
    destruct (down_loop_result _ _ _ _ H) as [Hr Hrn].
    destruct (Z.eq_dec p 3) as [->|Hne].
    + (* low = 2, p = 3: the search starts at 1; whatever it returns is <= 1 and accepted by the oracle *)
      exfalso. cbn in Hrn. apply (Hc r) in Hr; [|cbn; lia]. apply prime_ge_2 in Hr. lia.
    + apply (down_loop_spec isprime fuel p (p - first_step 2 1 p) r); try lia; try exact H.
      * apply odd_first_step_down.
      * intros q Hq. unfold first_step in *. destruct (Z.odd p) eqn:E; [|lia].
        assert (q = p - 1) by lia. subst q.
        apply even_not_prime; [lia|]. rewrite Z.even_sub, <- Z.negb_odd, E. reflexivity.
      * intros m Hm. apply Hc. lia.
Qed.

Definition Prevprime_stmt : Prop :=
  forall (isprime : Z -> bool) (fuel : nat) (alias : bool) (p r : Z),
    prevprime_model isprime fuel alias p = Some r ->
    correct_on isprime r (p - 1) ->
    (p <= 2 /\ r = 2) \/ (prime r /\ r < p /\ no_prime_between r p).

Lemma prevprime_correct : Prevprime_stmt.
Proof.
  intros isprime fuel alias p r H Hc. unfold prevprime_model, prevprimein_model in H.
  destruct prev_consts as (E1 & E2 & E3 & E4 & E5 & E6 & E7 & E8 & _).
  destruct prev_low_range as (L1 & L2 & _).
  rewrite E1, E2, E3, E4, E5, E6, E7, E8 in H.
  destruct (Z.leb_spec p PREV_LOW) as [Hle|Hgt].
  - apply (gen_prev_spec isprime fuel PREV_LOW p r L1); [|exact Hc].
    unfold gen_prev. destruct (Z.leb_spec p PREV_LOW); [exact H|lia].
  - destruct alias.
    + exact (gen_prev_spec isprime fuel PREVIN_LOW p r L2 H Hc).
    + apply (gen_prev_spec isprime fuel PREV_LOW p r L1); [|exact Hc].
      unfold gen_prev. destruct (Z.leb_spec p PREV_LOW); [lia|exact H].
Qed.

Definition Prevprimein_stmt : Prop :=
  forall (isprime : Z -> bool) (fuel : nat) (p r : Z),
    prevprimein_model isprime fuel p = Some r ->
    correct_on isprime r (p - 1) ->
    (p <= 2 /\ r = 2) \/ (prime r /\ r < p /\ no_prime_between r p).
Lemma prevprimein_correct : Prevprimein_stmt.
Proof.
  intros isprime fuel p r H Hc. unfold prevprimein_model in H.
  destruct prev_consts as (_ & _ & _ & _ & E5 & E6 & E7 & E8 & _).
  destruct prev_low_range as (_ & L2 & _).
  rewrite E5, E6, E7, E8 in H. exact (gen_prev_spec isprime fuel PREVIN_LOW p r L2 H Hc).
Qed.

Definition Protected_prevprime_stmt : Prop :=
  forall (isprime : Z -> bool) (fuel : nat) (p r : Z),
    protected_prevprime_model isprime fuel p = Some r ->
    correct_on isprime r (p - 1) ->
    (p <= 2 /\ r = 2) \/ (prime r /\ r < p /\ no_prime_between r p).
Lemma protected_prevprime_correct : Protected_prevprime_stmt.
Proof.
  intros isprime fuel p r H Hc. unfold protected_prevprime_model in H.
  destruct prev_consts as (_ & _ & _ & _ & _ & _ & _ & _ & E9 & E10 & E11 & E12).
  destruct prev_low_range as (_ & _ & L3).
  rewrite E9, E10, E11, E12 in H. exact (gen_prev_spec isprime fuel PPREV_LOW p r L3 H Hc).
Qed.

(* What happens at p = 3, the one argument above the low end whose predecessor is the even prime:
   with the bound the source has now (2) the search starts at 1 and, for an oracle that rejects everything
   <= 1, never returns (the documented value 2 is NOT produced); with the bound 3 it returns 2. *)
Definition gen_prev_at_3 (low : Z) : Prop :=
  (low = 3 -> forall isprime fuel, gen_prev isprime fuel low 2 2 1 2 3 = Some 2) /\
  (low = 2 -> forall isprime fuel, (forall m, m <= 1 -> isprime m = false) ->
              gen_prev isprime fuel low 2 2 1 2 3 = None).
Lemma gen_prev_at_3_holds : forall low, gen_prev_at_3 low.
Proof.
  intro low. split; intros -> isprime fuel.
  - reflexivity.
  - intro Hc. unfold gen_prev. cbn. apply down_loop_never; [lia|exact Hc].
Qed.

Definition Prevprime_at_3_stmt : Prop :=
  (PREV_LOW = 3 /\ PREVIN_LOW = 3 /\ forall isprime fuel alias, prevprime_model isprime fuel alias 3 = Some 2)
  \/
  (PREV_LOW = 2 /\ PREVIN_LOW = 2 /\ forall isprime fuel alias, (forall m, m <= 1 -> isprime m = false) ->
      prevprime_model isprime fuel alias 3 = None).
Lemma prevprime_at_3 : Prevprime_at_3_stmt.
Proof.
  destruct prev_consts as (E1 & E2 & E3 & E4 & E5 & E6 & E7 & E8 & _).
  destruct (Z.eq_dec PREV_LOW 3) as [A|A]; destruct (Z.eq_dec PREVIN_LOW 3) as [B|B].
  - left. split; [exact A|]. split; [exact B|]. intros isprime fuel alias.
    unfold prevprime_model. rewrite A, E1. reflexivity.
  - exfalso. revert A B. vm_compute. intros; congruence.
  - exfalso. revert A B. vm_compute. intros; congruence.
  - right. destruct prev_low_range as ([L1|L1] & [L2|L2] & _); try congruence.
    split; [exact L1|]. split; [exact L2|]. intros isprime fuel alias Hc.
    unfold prevprime_model, prevprimein_model. rewrite L1, L2, E1, E2, E3, E4, E5, E6, E7, E8.
    pose proof (proj2 (gen_prev_at_3_holds 2) eq_refl isprime fuel Hc) as G.
    unfold gen_prev in *. cbn in *. destruct alias; exact G.
Qed.

Definition Protected_prevprime_at_3_stmt : Prop :=
  (PPREV_LOW = 3 /\ forall isprime fuel, protected_prevprime_model isprime fuel 3 = Some 2)
  \/
  (PPREV_LOW = 2 /\ forall isprime fuel, (forall m, m <= 1 -> isprime m = false) ->
      protected_prevprime_model isprime fuel 3 = None).
Lemma protected_prevprime_at_3 : Protected_prevprime_at_3_stmt.
Proof.
  destruct prev_consts as (_ & _ & _ & _ & _ & _ & _ & _ & E9 & E10 & E11 & E12).
  destruct prev_low_range as (_ & _ & [L|L]).
  - right. split; [exact L|]. intros isprime fuel Hc. unfold protected_prevprime_model.
    rewrite L, E9, E10, E11, E12. exact (proj2 (gen_prev_at_3_holds 2) eq_refl isprime fuel Hc).
  - left. split; [exact L|]. intros isprime fuel. unfold protected_prevprime_model.
    rewrite L, E9, E10, E11, E12. reflexivity.
Qed.

(* termination of prevprime for p >= 4: the greatest prime below p is odd and is reached *)
Lemma down_loop_terminates : forall isprime fuel n q,
  q <= n -> isprime q = true -> (Z.to_nat (n - q) < fuel)%nat -> Z.even (n - q) = true ->
  exists r, down_loop isprime fuel 2 n = Some r.
Proof.
  induction fuel as [|f IH]; intros n q Hnq Hq Hf Hpar; [lia|].
  cbn [down_loop]. destruct (isprime n) eqn:E; [eexists; reflexivity|].
  assert (n <> q) by congruence.
  apply Z.even_spec in Hpar. destruct Hpar as [k Hk].
  apply (IH (n - 2) q); try lia; try exact Hq.
  apply Z.even_spec. exists (k - 1). lia.
Qed.

Definition Prevprime_terminates_stmt : Prop :=
  forall (isprime : Z -> bool) (alias : bool) (p : Z) (fuel : nat),
    4 <= p -> correct_on isprime 3 (p - 1) -> (Z.to_nat p < fuel)%nat ->
    exists r, prevprime_model isprime fuel alias p = Some r.
Lemma prevprime_terminates : Prevprime_terminates_stmt.
Proof.
  intros isprime alias p fuel Hp Hc Hf.
  assert (G : exists r, down_loop isprime fuel 2 (p - first_step 2 1 p) = Some r).
  { assert (Hs : p - 2 <= p - first_step 2 1 p < p) by (unfold first_step; destruct (Z.odd p); lia).
    assert (Hso := odd_first_step_down p).
    assert (H3 : 3 <= p - first_step 2 1 p).
    { destruct (Z_le_gt_dec 3 (p - first_step 2 1 p)); [assumption|].
      assert (p = 4) by lia. subst p. cbn in *. lia. }
    apply (down_loop_terminates isprime fuel _ 3 H3).
    - apply (Hc 3); [lia|exact prime_3].
    - lia.
    - rewrite Z.even_sub, <- (Z.negb_odd (p - first_step 2 1 p)), Hso. reflexivity. }
  destruct G as [r G]. exists r. unfold prevprime_model, prevprimein_model, gen_prev.
  destruct prev_consts as (E1 & E2 & E3 & E4 & E5 & E6 & E7 & E8 & _).
  destruct prev_low_range as (L1 & L2 & _).
  rewrite E1, E2, E3, E4, E5, E6, E7, E8.
  destruct (Z.leb_spec p PREV_LOW); [lia|]. destruct alias; [|exact G].
  destruct (Z.leb_spec p PREVIN_LOW); [lia|exact G].
Qed.

(* the hypotheses are satisfiable: primeb is an oracle that is correct everywhere *)
Example correct_on_primeb : forall lo hi, correct_on primeb lo hi.
Proof. intros lo hi m _. apply primeb_spec. Qed.
Example nextprime_example : nextprime_model primeb 10 false 13 = Some 17.
Proof. vm_compute. reflexivity. Qed.
Example prevprime_example : prevprime_model primeb 10 false 24 = Some 23.
Proof. vm_compute. reflexivity. Qed.
