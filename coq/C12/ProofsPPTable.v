(* the small-prime table of isprimepower is the list of all primes below SMALLEST_OMITTED_PRIME plus the terminator
   (separate from the 2^16 sweep of ProofsPrimes16 so that the isprimepower proofs do not wait for it). *)
From Coq Require Import ZArith Znumtheory Lia List Bool.
Require Import C12.gen.Tables.
From C12 Require Import PrimeB Model ProofsSweep.
Import ListNotations.
Local Open Scope Z_scope.

Definition PPLEN : nat := Z.to_nat SMALLEST_OMITTED_PRIME.
Lemma pp_primes_sweep : list_eqb PP_PRIMES (filter primeb (Zseq 0 PPLEN) ++ [0]) = true.
Proof. vm_compute. reflexivity. Qed.

Definition Pp_primes_stmt : Prop :=
  PP_PRIMES = filter primeb (Zseq 0 PPLEN) ++ [0]
  /\ (forall p, In p PP_PRIMES -> p = 0 \/ (prime p /\ p < SMALLEST_OMITTED_PRIME))
  /\ (forall p, prime p -> p < SMALLEST_OMITTED_PRIME -> In p PP_PRIMES).
Lemma pp_primes_correct : Pp_primes_stmt.
Proof.
  pose proof (list_eqb_eq _ _ pp_primes_sweep) as E. split; [exact E|].
  assert (L : Z.of_nat PPLEN = SMALLEST_OMITTED_PRIME) by (unfold PPLEN; apply Z2Nat.id; apply Z.leb_le; reflexivity).
  split; intro p; rewrite E, in_app_iff, filter_In, In_Zseq, primeb_spec, L; cbn [In].
  - intros [[H1 H2]|[H|[]]]; [right; split; [exact H2|lia]|left; symmetry; exact H].
  - intros Hp Hlt. left. split; [|exact Hp]. pose proof (prime_ge_2 _ Hp). lia.
Qed.
