(* isprimepower: soundness for u > 0.  Whenever the model returns (e, q) with e > 0 then q is prime and q^e = u,
   for ANY primality oracle that only accepts primes and ANY root oracle whose "exact" answers are exact.
   (Completeness -- 0 is returned only for non-prime-powers -- is tested against the specification oracle;
    see the known finding about composite exponents.) *)
From Coq Require Import ZArith Znumtheory Zpow_facts Lia List Bool.
Require Import C12.gen.Tables.
From C12 Require Import PrimeB Model ProofsSweep ProofsPPTable.
Import ListNotations.
Local Open Scope Z_scope.

Definition isprime_sound (isprime : Z -> bool) : Prop := forall m, isprime m = true -> prime m.
Definition root_sound (root : Z -> Z -> option (Z * bool)) : Prop :=
  forall a k r, root a k = Some (r, true) -> r ^ k = a.

Lemma tz_spec : forall fuel t n2 t' n2', 0 < t -> 0 <= n2 -> tz fuel t n2 = Some (t', n2') ->
  0 <= n2 <= n2' /\ 0 < t' /\ t = t' * 2 ^ (n2' - n2).
Proof.
  induction fuel as [|f IH]; intros t n2 t' n2' Ht Hn H; [discriminate|].
  cbn [tz] in H. destruct (Z.odd t) eqn:Eo.
  - inversion H; subst. replace (n2' - n2') with 0 by lia. rewrite Z.pow_0_r. lia.
  - assert (He : Z.even t = true) by (rewrite <- Z.negb_odd, Eo; reflexivity).
    apply Z.even_spec in He. destruct He as [k Hk].
    assert (Hq : Z.quot t 2 = k) by (subst t; rewrite Z.mul_comm; apply Z.quot_mul; lia).
    rewrite Hq in H. destruct (IH k (n2 + 1) t' n2' ltac:(lia) ltac:(lia) H) as (H1 & H2 & H3).
    split; [lia|]. split; [exact H2|]. subst t. rewrite H3.
    replace (n2' - n2) with ((n2' - (n2 + 1)) + 1) by lia. rewrite Z.pow_add_r by lia. rewrite Z.pow_1_r. ring.
Qed.

Lemma mult_loop_spec : forall fuel prime u2 n u2' q' n', 1 < prime -> 0 <= n ->
  mult_loop fuel prime u2 n = Some (u2', q', n') ->
  n <= n' /\ u2 = prime ^ (n' - n) * u2'.
Proof.
  induction fuel as [|f IH]; intros prime u2 n u2' q' n' Hp Hn H; [discriminate|].
  cbn [mult_loop] in H. destruct (Z.eqb_spec (u2 mod prime) 0) as [E|E].
  - assert (Hd : u2 = prime * (u2 / prime)) by (apply Z_div_exact_full_2; lia).
    destruct (IH prime (u2 / prime) (n + 1) u2' q' n' Hp ltac:(lia) H) as [H1 H2].
    split; [lia|]. rewrite Hd at 1. rewrite H2.
    replace (n' - n) with ((n' - (n + 1)) + 1) by lia. rewrite Z.pow_add_r by lia. rewrite Z.pow_1_r. ring.
  - inversion H; subst. split; [lia|]. replace (n' - n') with 0 by lia. rewrite Z.pow_0_r. ring.
Qed.

Lemma pp_small_spec : forall fuel ps u e q, 0 < u ->
  (forall p, In p ps -> p = 0 \/ prime p) ->
  pp_small fuel ps u = Some (Some (e, q)) -> 0 < e -> prime q /\ q ^ e = u.
Proof.
  intros fuel ps u e q Hu. induction ps as [|p rest IH]; intros Hps H He; cbn [pp_small] in H; [discriminate|].
  destruct (Z.eqb_spec p 0) as [E0|E0]; [discriminate|].
  assert (Hp : prime p) by (destruct (Hps p (or_introl eq_refl)); [contradiction|assumption]).
  pose proof (prime_ge_2 _ Hp) as Hp2.
  destruct (Z.eqb_spec (u mod p) 0) as [Em|Em].
  2:{ apply IH; [intros x Hx; apply Hps; right; exact Hx|exact H|exact He]. }
  destruct (Z.eqb_spec (u mod (p * p)) 0) as [Em2|Em2]; cbn [negb] in H; [|inversion H; subst; lia].
  destruct (mult_loop fuel p (u / (p * p)) 2) as [[[u2 q'] n]|] eqn:Eml; [|discriminate].
  destruct (Z.eqb_spec (Z.abs u2) 1) as [E1|E1]; [|inversion H; subst; lia].
  inversion H; subst e q. split; [exact Hp|].
  assert (Hp1 : 1 < p) by lia. assert (H02 : 0 <= 2) by lia.
  destruct (mult_loop_spec fuel p (u / (p * p)) 2 u2 q' n Hp1 H02 Eml) as [Hn Hq].
  assert (Hd : u = (p * p) * (u / (p * p))) by (apply Z_div_exact_full_2; nia).
  assert (Hpos : 0 < p ^ (n - 2)) by (apply Z.pow_pos_nonneg; lia).
  assert (Hu2 : u2 = 1).
  { destruct (Z.abs_spec u2) as [[_ Ha]|[_ Ha]]; [lia|]. exfalso. assert (u2 = -1) by lia. subst u2.
    assert (0 < u / (p * p)) by nia. lia. }
  subst u2. rewrite Hd, Hq. replace n with ((n - 2) + 2) at 1 by lia. rewrite Z.pow_add_r by lia.
  replace (p ^ 2) with (p * p) by (rewrite Z.pow_2_r; reflexivity). ring.
Qed.

Section Root.
  Variable isprime : Z -> bool.
  Variable root : Z -> Z -> option (Z * bool).
  Hypothesis Hip : isprime_sound isprime.
  Hypothesis Hroot : root_sound root.

  Lemma pp_root_spec : forall rec, (forall v e q, 1 < v -> rec v = Some (e, q) -> 0 < e -> prime q /\ q ^ e = v) ->
    forall fuel nth u2 e q, 0 < nth -> pp_root isprime root rec fuel nth u2 = Some (e, q) -> 0 < e -> prime q /\ q ^ e = u2.
  Proof.
    intros rec Hrec. induction fuel as [|f IH]; intros nth u2 e q Hn H He; [discriminate|].
    cbn [pp_root] in H. destruct (isprime nth) eqn:En; cbn [negb] in H; [|apply (IH (nth + 1) u2 e q); [lia|exact H|exact He]].
    destruct (root u2 nth) as [[r ex]|] eqn:Er; [|discriminate].
    destruct ex.
    - pose proof (Hroot _ _ _ Er) as Hpow.
      destruct (isprime r) eqn:Eq; [inversion H; subst e q; split; [apply Hip; exact Eq|exact Hpow]|].
      destruct IPP_RECURSE; [|inversion H; subst e q; lia].
      destruct (Z.leb_spec r 1) as [Hle|Hgt]; [inversion H; subst e q; lia|].
      destruct (rec r) as [[e' q']|] eqn:Erec; [|discriminate]. inversion H; subst e q.
      assert (He' : 0 < e') by nia.
      destruct (Hrec r e' q' Hgt Erec He') as [Hp Hq]. split; [exact Hp|].
      rewrite Z.mul_comm. rewrite Z.pow_mul_r by lia. rewrite Hq. exact Hpow.
    - destruct (Z.abs r <? SMALLEST_OMITTED_PRIME); [inversion H; subst e q; lia|].
      apply (IH (nth + 1) u2 e q); [lia|exact H|exact He].
  Qed.

  Lemma tl_pp_primes : (forall p, In p (tl PP_PRIMES) -> p = 0 \/ prime p) /\
                       (exists p rest, tl PP_PRIMES = p :: rest /\ p <> 0).
  Proof.
    destruct pp_primes_correct as (_ & Hin & _). split.
    - intros p Hp. destruct (Hin p) as [H|[H _]]; [|left; exact H|right; exact H].
      destruct PP_PRIMES; [destruct Hp|right; exact Hp].
    - vm_compute. eexists; eexists; split; [reflexivity|discriminate].
  Qed.

  Definition Isprimepower_sound_stmt : Prop :=
    forall depth fuel q0 u e q, 0 < u ->
      isprimepower_model isprime root depth fuel q0 u = Some (e, q) -> 0 < e -> prime q /\ q ^ e = u.

  Lemma isprimepower_sound : Isprimepower_sound_stmt.
  Proof.
    unfold Isprimepower_sound_stmt. induction depth as [|d IHd]; intros fuel q0 u e q Hu H He; [discriminate|].
    cbn [isprimepower_model] in H. unfold isprimepower_body in H.
    destruct (Z.eqb_spec u 0); [lia|].
    assert (Hneg : IPP_NEG_GUARD && (u <? 0) = false) by (destruct (Z.ltb_spec u 0); [lia|apply andb_false_r]).
    rewrite Hneg in H.
    destruct (Z.land (Z.abs u mod 18446744073709551616) 3 =? 2); [inversion H; subst; lia|].
    destruct (tz fuel u 0) as [[t n2]|] eqn:Etz; [|discriminate].
    assert (H00 : 0 <= 0) by lia.
    destruct (tz_spec fuel u 0 t n2 Hu H00 Etz) as (Hn2 & Ht & Hut).
    destruct (Z.gtb_spec n2 0) as [Hg|Hg].
    - destruct (Z.eqb_spec t 1) as [->|]; [|inversion H; subst; lia].
      inversion H; subst e q. split; [exact prime_2|]. rewrite Hut. replace (n2 - 0) with n2 by lia. ring.
    - destruct tl_pp_primes as [Hps [p0 [rest [Etl Hp0]]]].
      destruct (pp_small fuel (tl PP_PRIMES) u) as [[[e1 q1]|]|] eqn:Es; [| |discriminate].
      + inversion H; subst e1 q1. exact (pp_small_spec fuel (tl PP_PRIMES) u e q Hu Hps Es He).
      + rewrite Etl in H. destruct (Z.eqb_spec p0 0); [contradiction|].
        apply (pp_root_spec (fun v => isprimepower_model isprime root d fuel v v)) with (fuel := fuel) (nth := 2); [|lia|exact H|exact He].
        intros v e' q' Hv Hr He'. apply (IHd fuel v v e' q'); [lia|exact Hr|exact He'].
  Qed.
End Root.
