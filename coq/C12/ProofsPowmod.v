(* powmod (the binary powering used by miller_model and pepin_model) computes a^e mod n. *)
From Coq Require Import ZArith Zpow_facts Lia.
From C12 Require Import ModelScript.
Local Open Scope Z_scope.

Lemma powmod_n_spec : forall n, 0 < n -> forall fuel a e acc, 0 <= e < 2 ^ Z.of_nat fuel ->
  (powmod_n fuel a e n acc) mod n = (acc * a ^ e) mod n.
Proof.
  intros n Hn. induction fuel as [|f IH]; intros a e acc He.
  - cbn [Z.of_nat] in He. rewrite Z.pow_0_r in He. assert (e = 0) by lia. subst e. cbn [powmod_n]. rewrite Z.pow_0_r, Z.mul_1_r. reflexivity.
  - cbn [powmod_n]. destruct (Z.leb_spec e 0) as [Hle|Hgt].
    + assert (e = 0) by lia. subst e. rewrite Z.pow_0_r, Z.mul_1_r. reflexivity.
    + assert (Hh : 0 <= e / 2 < 2 ^ Z.of_nat f).
      { split; [apply Z.div_pos; lia|]. apply Z.div_lt_upper_bound; [lia|].
        rewrite Nat2Z.inj_succ, Z.pow_succ_r in He by lia. lia. }
      rewrite (IH _ _ _ Hh).
      assert (Hsq : ((a * a mod n) ^ (e / 2)) mod n = (a ^ (2 * (e / 2))) mod n).
      { rewrite Zpower_mod by lia. rewrite Z.mod_mod by lia. rewrite <- Zpower_mod by lia.
        rewrite Z.pow_mul_r by lia. rewrite Z.pow_2_r. reflexivity. }
      destruct (Z.odd e) eqn:Eo.
      * assert (Ee : e = 2 * (e / 2) + 1).
        { rewrite (Z.div_mod e 2) at 1 by lia. rewrite Zmod_odd, Eo. reflexivity. }
        assert (Hpow : a ^ e = a ^ (2 * (e / 2)) * a) by (rewrite Ee at 1; rewrite Z.pow_add_r by lia; rewrite Z.pow_1_r; reflexivity).
        rewrite Hpow. rewrite Z.mul_mod by lia. rewrite Hsq. rewrite Z.mod_mod by lia. rewrite <- Z.mul_mod by lia.
        f_equal. ring.
      * assert (Ee : e = 2 * (e / 2)).
        { rewrite (Z.div_mod e 2) at 1 by lia. rewrite Zmod_odd, Eo. lia. }
        assert (Hpow : a ^ e = a ^ (2 * (e / 2))) by (rewrite Ee at 1; reflexivity).
        rewrite Hpow. rewrite Z.mul_mod by lia. rewrite Hsq. rewrite <- Z.mul_mod by lia. reflexivity.
Qed.

Lemma powmod_n_range : forall n, 0 < n -> forall fuel a e acc, 0 <= acc < n -> 0 <= powmod_n fuel a e n acc < n.
Proof.
  intros n Hn. induction fuel as [|f IH]; intros a e acc Ha; cbn [powmod_n]; [exact Ha|].
  destruct (e <=? 0); [exact Ha|]. apply IH. destruct (Z.odd e); [apply Z.mod_pos_bound; lia|exact Ha].
Qed.

Definition Powmod_stmt : Prop := forall a e n, 0 < n -> 0 <= e -> powmod a e n = a ^ e mod n.
Lemma powmod_correct : Powmod_stmt.
Proof.
  intros a e n Hn He. unfold powmod.
  assert (Hb : 0 <= e < 2 ^ Z.of_nat (S (Z.to_nat (Z.log2 e + 1)))).
  { split; [exact He|]. rewrite Nat2Z.inj_succ. rewrite Z2Nat.id by (pose proof (Z.log2_nonneg e); lia).
    destruct (Z.eq_dec e 0) as [->|Hne]; [cbn; lia|].
    pose proof (Z.log2_spec e ltac:(lia)) as [_ Hl]. rewrite Z.pow_succ_r by (pose proof (Z.log2_nonneg e); lia).
    assert (0 < 2 ^ Z.succ (Z.log2 e)) by (apply Z.pow_pos_nonneg; pose proof (Z.log2_nonneg e); lia).
    replace (Z.log2 e + 1) with (Z.succ (Z.log2 e)) by lia. lia. }
  pose proof (powmod_n_spec n Hn _ (a mod n) e (1 mod n) Hb) as Hs.
  pose proof (powmod_n_range n Hn (S (Z.to_nat (Z.log2 e + 1))) (a mod n) e (1 mod n) ltac:(apply Z.mod_pos_bound; lia)) as Hr.
  rewrite Z.mod_small in Hs by exact Hr. rewrite Hs.
  rewrite Z.mul_mod by lia. rewrite Z.mod_mod by lia. rewrite <- Zpower_mod by lia.
  rewrite <- Z.mul_mod by lia. rewrite Z.mul_1_l. reflexivity.
Qed.
