(* givprimes16.C: the table is exactly the increasing list of all primes below 2^16, and _size is its length;
   the small-prime table of isprimepower is the list of all primes below SMALLEST_OMITTED_PRIME plus the terminator. *)
From Coq Require Import ZArith Znumtheory Lia List Bool.
Require Import C12.gen.Tables.
From C12 Require Import PrimeB Model ProofsSweep.
Import ListNotations.
Local Open Scope Z_scope.

Lemma primes16_sweep : list_eqb PRIMES16 (filter primeb (Zseq 0 RANGE)) = true.
Proof. vm_compute. reflexivity. Qed.
Lemma primes16_size_ok : Z.of_nat (length PRIMES16) =? PRIMES16_SIZE = true.
Proof. vm_compute. reflexivity. Qed.

Definition Primes16_stmt : Prop :=
  PRIMES16 = filter primeb (Zseq 0 RANGE)
  /\ (forall n, In n PRIMES16 <-> (0 <= n < 65536 /\ prime n))
  /\ Z.of_nat (length PRIMES16) = PRIMES16_SIZE.

Lemma primes16_correct : Primes16_stmt.
Proof.
  pose proof (list_eqb_eq _ _ primes16_sweep) as E.
  split; [exact E|]. split.
  - intro n. rewrite E, filter_In, In_Zseq, RANGE_eq, primeb_spec. split; intros [H1 H2]; (split; [lia|exact H2]).
  - apply Z.eqb_eq. exact primes16_size_ok.
Qed.

