(* Pollard's rho walk (Brent's variant) as it is coded, and the primality-checked wrappers driven by it:
   for EVERY script of random start values,
   - whatever Pollard returns on an n >= 3 that isprime rejects divides n and is < n; with loops = 0 it is > 1
     (a NON-TRIVIAL divisor: the loop only leaves with g <> 1 and restarts when g = n);
   - iffactorprime / primefactor (loops = 0) return a PRIME divisor of n for every n >= 2, whatever number of times the
     walk answered with a composite factor (the re-split loop), given an exact primality test;
   - with loops > 0 the answer is 1 or a prime divisor.
   The in-place call forms: equal to the three-address forms once the source copies its argument (guard), refuted by
   factor(9 in place) = 13 while it does not. *)
From Coq Require Import ZArith Znumtheory Lia List Bool.
Require Import C12.gen.Tables.
From C12 Require Import PrimeB Model ModelScript ProofsFactor ProofsComplete.
Import ListNotations.
Local Open Scope Z_scope.

Lemma rho_loop_spec : forall fuel thr c n x y m p g c',
  0 < n -> rho_loop fuel thr c n x y m p = Some (g, c') ->
  (g | n) /\ 0 <= g /\ (thr = 0 -> g <> 1) /\ (thr <> 0 -> g <> 1 -> c' < thr).
Proof.
  induction fuel as [|f IH]; intros thr c n x y m p g c' Hn H; [discriminate|].
  cbn [rho_loop] in H.
  destruct (Z.eqb_spec thr 0) as [E0|E0]; cbn [negb andb] in H.
  - destruct (Z.eqb_spec (Z.gcd ((y * y + POLLARD_CST) mod n - (if p =? m + 1 then y else x)) n) 1) as [E1|E1].
    + exact (IH _ _ _ _ _ _ _ _ _ Hn H).
    + inversion H; subst g c'. split; [apply Z.gcd_divide_r|]. split; [apply Z.gcd_nonneg|]. split; [intros _; exact E1|intros Hc; contradiction].
  - destruct (Z.ltb_spec (c + 1) thr) as [Hlt|Hge]; cbn [negb] in H.
    + destruct (Z.eqb_spec (Z.gcd ((y * y + POLLARD_CST) mod n - (if p =? m + 1 then y else x)) n) 1) as [E1|E1].
      * exact (IH _ _ _ _ _ _ _ _ _ Hn H).
      * inversion H; subst g c'. split; [apply Z.gcd_divide_r|]. split; [apply Z.gcd_nonneg|]. split; [intros Hc; contradiction|intros _ _; exact Hlt].
    + inversion H; subst g c'. split; [apply Z.divide_1_l|]. split; [lia|]. split; [intros Hc; contradiction|intros _ Hc; contradiction].
Qed.

Section WithIsprime.
  Variable isprime : Z -> bool.

  Definition Pollard_stmt : Prop :=
    forall (restarts fuel : nat) (ys : list Z) (n thr g : Z) (ys' : list Z),
      3 <= n -> isprime n = false -> 0 <= thr ->
      pollard_s isprime restarts fuel ys n thr = Some (g, ys') ->
      (g | n) /\ 1 <= g < n /\ (thr = 0 -> 1 < g).

  Lemma pollard_correct : Pollard_stmt.
  Proof.
    unfold Pollard_stmt. induction restarts as [|k IH]; intros fuel ys n thr g ys' Hn Hip Hthr H; [discriminate|].
    cbn [pollard_s] in H. destruct (Z.ltb_spec n 3); [lia|]. rewrite Hip in H.
    destruct ys as [|y0 ys1]; [discriminate|].
    destruct (rho_loop fuel thr 0 n 0 (y0 mod n) 0 1) as [[g1 c]|] eqn:Er; [|discriminate].
    assert (Hn0 : 0 < n) by lia.
    destruct (rho_loop_spec _ _ _ _ _ _ _ _ _ _ Hn0 Er) as (Hd & Hg0 & Hu & Hb).
    assert (Hgle : g1 <= n) by (apply Z.divide_pos_le; [lia|exact Hd]).
    assert (Hgne : g1 <> 0) by (intro E; subst g1; destruct Hd as [q Hq]; lia).
    destruct (Z.eqb_spec g1 n) as [En|En]; cbn [andb] in H.
    - destruct (Z.eqb_spec thr 0) as [E0|E0]; cbn [orb] in H.
      + subst thr. exact (IH fuel ys1 n 0 g ys' Hn Hip (Z.le_refl 0) H).
      + assert (Hc : c < thr) by (apply Hb; [exact E0|lia]).
        destruct (Z.ltb_spec c thr); [|lia].
        assert (Htc : 0 <= thr - c) by lia.
        destruct (IH fuel ys1 n (thr - c) g ys' Hn Hip Htc H) as (K1 & K2 & K3).
        split; [exact K1|]. split; [exact K2|]. intro Ez; contradiction.
    - inversion H; subst g1 ys'. split; [exact Hd|]. split; [lia|]. intro Ez. specialize (Hu Ez). lia.
  Qed.

  Hypothesis Hex : isprime_exact isprime.

  Lemma not_isprime : forall m, isprime m = false -> ~ prime m.
  Proof. intros m H Hp. apply Hex in Hp. congruence. Qed.

  Lemma factor_s_spec : forall restarts fuel ys n thr g ys',
    1 <= n -> 0 <= thr -> factor_s isprime restarts fuel ys n thr = Some (g, ys') ->
    (g | n) /\ 1 <= g /\ (2 <= n -> thr = 0 -> 1 < g) /\ (2 <= n -> ~ prime n -> g < n).
  Proof.
    intros restarts fuel ys n thr g ys' Hn Hthr H. unfold factor_s in H.
    destruct (Z.eqb_spec (Z.gcd n PROD_FIRST) 1) as [E1|E1].
    - destruct (Z.eqb_spec (Z.gcd n PROD_SECOND) 1) as [E2|E2].
      + destruct restarts as [|k]; [discriminate|].
        destruct (Z_lt_le_dec n 3) as [Hlt|Hge].
        * cbn [pollard_s] in H. destruct (Z.ltb_spec n 3); [|lia]. inversion H; subst g ys'.
          split; [apply Z.divide_refl|]. split; [lia|]. split; [lia|]. intros H2 Hnp. exfalso. assert (n = 2) by lia. subst n. exact (Hnp prime_2).
        * destruct (isprime n) eqn:Ep.
          -- cbn [pollard_s] in H. destruct (Z.ltb_spec n 3); [lia|]. rewrite Ep in H. inversion H; subst g ys'.
             split; [apply Z.divide_refl|]. split; [lia|]. split; [lia|]. intros _ Hnp. exfalso. apply Hnp. apply Hex. exact Ep.
          -- destruct (pollard_correct (S k) fuel ys n thr g ys' Hge Ep Hthr H) as (H1 & H2 & H3).
             split; [exact H1|]. split; [lia|]. split; [intros _ Ez; exact (H3 Ez)|intros _ _; lia].
      + inversion H; subst g ys'. unfold factor_second.
        destruct (cascade_spec _ _ _ n second_cascade_ok E2) as [Hp Hd]. pose proof (prime_ge_2 _ Hp).
        split; [exact Hd|]. split; [lia|]. split; [lia|]. intros _ Hnp.
        assert (pick SECOND_TESTS SECOND_DEFAULT n <= n) by (apply Z.divide_pos_le; [lia|exact Hd]).
        destruct (Z.eq_dec (pick SECOND_TESTS SECOND_DEFAULT n) n) as [E|E]; [rewrite E in Hp; contradiction|lia].
    - inversion H; subst g ys'. unfold factor_first.
      destruct (cascade_spec _ _ _ n first_cascade_ok E1) as [Hp Hd]. pose proof (prime_ge_2 _ Hp).
      split; [exact Hd|]. split; [lia|]. split; [lia|]. intros _ Hnp.
      assert (pick FIRST_TESTS FIRST_DEFAULT n <= n) by (apply Z.divide_pos_le; [lia|exact Hd]).
      destruct (Z.eq_dec (pick FIRST_TESTS FIRST_DEFAULT n) n) as [E|E]; [rewrite E in Hp; contradiction|lia].
  Qed.

  Lemma factor_s_one : forall restarts fuel ys thr g ys',
    factor_s isprime restarts fuel ys 1 thr = Some (g, ys') -> g = 1.
  Proof.
    intros restarts fuel ys thr g ys' H. unfold factor_s in H.
    rewrite !Z.gcd_1_l in H. cbn [Z.eqb Pos.eqb] in H.
    destruct restarts; [discriminate|]. cbn [pollard_s] in H. cbn [Z.ltb Z.compare Pos.compare Pos.compare_cont] in H.
    inversion H. reflexivity.
  Qed.

  Lemma ifp_loop_s_spec : forall thr, 0 <= thr -> forall lf restarts fuel ys r passes g ys' k,
    1 <= r -> ifp_loop_s isprime lf restarts fuel ys r thr passes = Some (g, ys', k) ->
    (g | r) /\ (g = 1 \/ prime g) /\ (thr = 0 -> 2 <= r -> prime g).
  Proof.
    intros thr Hthr. induction lf as [|lf IH]; intros restarts fuel ys r passes g ys' k Hr H; [discriminate|].
    cbn [ifp_loop_s] in H. destruct (isprime r) eqn:Ep.
    - inversion H; subst g ys' k. assert (prime r) by (apply Hex; exact Ep).
      split; [apply Z.divide_refl|]. split; [right; assumption|intros _ _; assumption].
    - destruct (factor_s isprime restarts fuel ys r thr) as [[r' ys1]|] eqn:Ef; [|discriminate].
      destruct (Z.eq_dec r 1) as [E1|E1].
      + subst r. pose proof (factor_s_one _ _ _ _ _ _ Ef) as Hr'. subst r'. cbn [Z.eqb Pos.eqb] in H.
        unfold lenstra_s in H. cbn [Z.ltb Z.compare Pos.compare Pos.compare_cont] in H. inversion H; subst g ys' k.
        split; [apply Z.divide_refl|]. split; [left; reflexivity|intros _ Hc; lia].
      + pose proof (not_isprime _ Ep) as Hnp.
        destruct (factor_s_spec _ _ _ _ _ _ _ Hr Hthr Ef) as (Hd & Hg1 & Hgt & Hlt).
        specialize (Hlt ltac:(lia) Hnp).
        destruct (Z.eqb_spec r' r) as [E|E]; [lia|].
        destruct (IH _ _ _ _ _ _ _ _ Hg1 H) as (H1 & H2 & H3).
        split; [eapply Z.divide_trans; eassumption|]. split; [exact H2|].
        intros Ez _. apply H3; [exact Ez|]. specialize (Hgt ltac:(lia) Ez). lia.
  Qed.

  Definition Iffactorprime_stmt : Prop :=
    forall (lf restarts fuel : nat) (ys : list Z) (n thr g : Z) (ys' : list Z) (k : Z),
      2 <= n -> 0 <= thr -> iffactorprime_s isprime lf restarts fuel ys n thr = Some (g, ys', k) ->
      (g | n) /\ (g = 1 \/ prime g) /\ (thr = 0 -> prime g).

  Lemma iffactorprime_correct : Iffactorprime_stmt.
  Proof.
    intros lf restarts fuel ys n thr g ys' k Hn Hthr H. unfold iffactorprime_s in H.
    destruct (factor_s isprime restarts fuel ys n thr) as [[r ys1]|] eqn:Ef; [|discriminate].
    assert (Hn1 : 1 <= n) by lia.
    destruct (factor_s_spec _ _ _ _ _ _ _ Hn1 Hthr Ef) as (Hd & Hg1 & Hgt & _).
    destruct (Z.eqb_spec r 1) as [E1|E1].
    - inversion H; subst g ys' k. subst r. split; [exact Hd|]. split; [left; reflexivity|].
      intro Ez. specialize (Hgt Hn Ez). lia.
    - destruct (isprime r) eqn:Ep.
      + destruct (ifp_loop_s_spec thr Hthr _ _ _ _ _ _ _ _ _ Hg1 H) as (H1 & H2 & H3).
        split; [eapply Z.divide_trans; eassumption|]. split; [exact H2|]. intro Ez. apply H3; [exact Ez|lia].
      + destruct (factor_s isprime restarts fuel ys1 r thr) as [[r2 ys2]|] eqn:Ef2; [|discriminate].
        destruct (factor_s_spec _ _ _ _ _ _ _ Hg1 Hthr Ef2) as (Hd2 & Hg2 & Hgt2 & _).
        destruct (ifp_loop_s_spec thr Hthr _ _ _ _ _ _ _ _ _ Hg2 H) as (H1 & H2 & H3).
        split; [eapply Z.divide_trans; [exact H1|eapply Z.divide_trans; eassumption]|]. split; [exact H2|].
        intro Ez. apply H3; [exact Ez|]. specialize (Hgt2 ltac:(lia) Ez). lia.
  Qed.

  Definition Primefactor_stmt : Prop :=
    forall (tries lf restarts fuel : nat) (ys : list Z) (n g : Z) (ys' : list Z) (k : Z),
      2 <= n -> primefactor_s isprime tries lf restarts fuel ys n = Some (g, ys', k) -> prime g /\ (g | n).

  Lemma primefactor_correct : Primefactor_stmt.
  Proof.
    unfold Primefactor_stmt. induction tries as [|t IH]; intros lf restarts fuel ys n g ys' k Hn H; [discriminate|].
    cbn [primefactor_s] in H.
    destruct (iffactorprime_s isprime lf restarts fuel ys n 0) as [[[r ys1] k1]|] eqn:Ei; [|discriminate].
    destruct ((r =? 1) && (if PRIMEFACTOR_GUARD then n >? 1 else true) && negb (isprime n)).
    - exact (IH _ _ _ _ _ _ _ _ Hn H).
    - inversion H; subst g ys' k. assert (H00 : 0 <= 0) by lia. destruct (iffactorprime_correct _ _ _ _ _ _ _ _ _ Hn H00 Ei) as (H1 & _ & H3).
      split; [apply H3; reflexivity|exact H1].
  Qed.
End WithIsprime.

Definition Pollard_all_stmt : Prop := forall isprime, Pollard_stmt isprime.
Definition Iffactorprime_all_stmt : Prop := forall isprime, isprime_exact isprime -> Iffactorprime_stmt isprime.
Definition Primefactor_all_stmt : Prop := forall isprime, isprime_exact isprime -> Primefactor_stmt isprime.
Lemma pollard_all : Pollard_all_stmt. Proof. exact pollard_correct. Qed.
Lemma iffactorprime_all : Iffactorprime_all_stmt. Proof. exact iffactorprime_correct. Qed.
Lemma primefactor_all : Primefactor_all_stmt. Proof. exact primefactor_correct. Qed.

Lemma primeb_exact : isprime_exact primeb. Proof. intro m. apply primeb_spec. Qed.

(* the hypotheses are satisfiable, and the re-split loop is really entered: with the starts 11, 0 the walk on
   101*103*107*109*113*127 answers 13843 = 109*127 (composite); the one-shot re-split then finds a prime (0 passes);
   with other starts the loop body runs (passes > 0) and the answer is prime all the same *)
Example iffactorprime_example :
  exists g rest, iffactorprime_s primeb 10 10 1000 [11; 0; 0; 0] 1741209542339 0 = Some (g, rest, 0) /\ primeb g = true.
Proof. vm_compute. eexists; eexists; split; reflexivity. Qed.
Example pollard_example : pollard_s primeb 10 1000 [11] 1741209542339 0 = Some (13843, []).
Proof. vm_compute. reflexivity. Qed.

(* ---------------------------------------------------------------- the in-place call forms *)
Definition Factor_inplace_stmt : Prop :=
  (FACTOR_INPLACE_GUARD = true /\
   forall isprime restarts fuel ys n thr, factor_inplace_s isprime restarts fuel ys n thr = factor_s isprime restarts fuel ys n thr)
  \/
  (FACTOR_INPLACE_GUARD = false /\
   exists n g, 2 <= n /\ (forall isprime restarts fuel ys thr, factor_inplace_s isprime restarts fuel ys n thr = Some (g, ys)) /\ ~ (g | n)).
Lemma factor_inplace : Factor_inplace_stmt.
Proof.
  first
  [ left; split; [reflexivity|]; intros; unfold factor_inplace_s; change FACTOR_INPLACE_GUARD with true; reflexivity
  | right; split; [reflexivity|]; exists 9, 13; split; [lia|]; split;
    [intros; vm_compute; reflexivity|intros [q Hq]; lia] ].
Qed.

Definition Pollard_inplace_stmt : Prop :=
  (POLLARD_INPLACE_GUARD = true /\
   forall isprime restarts fuel ys n thr, pollard_inplace_s isprime restarts fuel ys n thr = pollard_s isprime restarts fuel ys n thr)
  \/
  (POLLARD_INPLACE_GUARD = false /\
   forall isprime restarts fuel ys n, 3 <= n -> isprime n = false -> pollard_inplace_s isprime restarts fuel ys n 0 = None).
Lemma pollard_inplace : Pollard_inplace_stmt.
Proof.
  first
  [ left; split; [reflexivity|]; intros; unfold pollard_inplace_s; change POLLARD_INPLACE_GUARD with true; reflexivity
  | right; split; [reflexivity|]; intros isprime restarts fuel ys n Hn Hp; unfold pollard_inplace_s;
    change POLLARD_INPLACE_GUARD with false; cbn iota; destruct (Z.ltb_spec n 3); [lia|]; rewrite Hp; reflexivity ].
Qed.

(* ---------------------------------------------------------------- Miller(g, n): one strong-pseudoprime round *)
(* that Miller accepts every prime for every witness is proved in ProofsMiller.v (Fermat's little theorem) *)

(* the witness 0: either the source draws a non-zero witness (0 in the script is skipped), or Miller rejects the prime 5 *)
Definition Miller_zero_stmt : Prop :=
  (MILLER_NONZERO = true /\ forall ys n, miller_model (0 :: ys) n = miller_model ys n)
  \/ (MILLER_NONZERO = false /\ prime 5 /\ miller_model [0] 5 = Some false).
Lemma miller_zero : Miller_zero_stmt.
Proof.
  first
  [ left; split; [reflexivity|]; intros ys n; unfold miller_model; cbn [draw]; change MILLER_NONZERO with true;
    rewrite Zmod_0_l; reflexivity
  | right; split; [reflexivity|]; split; [apply primeb_spec; vm_compute; reflexivity|vm_compute; reflexivity] ].
Qed.
