(* set(Lf, n) and write(o, Lf, n) run the same loop as set(Lf, Lo, n, loops) with primefactor as the factor finder
   (which never answers 1): their results are projections of the two-container result, so they inherit its theorem. *)
From Coq Require Import ZArith Znumtheory Lia List Bool.
Require Import C12.gen.Tables.
From C12 Require Import PrimeB Model ProofsFactor.
Import ListNotations.
Local Open Scope Z_scope.

Definition never_one (ifp : Z -> option Z) : Prop := forall nn g, ifp nn = Some g -> g <> 1.

Lemma write_loop_set2 : forall ifp, never_one ifp -> forall fuel nn,
  write_loop ifp fuel nn = option_map fst (set2_loop ifp fuel nn).
Proof.
  intros ifp Hn1. induction fuel as [|f IH]; intro nn; [reflexivity|].
  cbn [write_loop set2_loop]. destruct (nn >? 1); [|reflexivity].
  destruct (ifp nn) as [g0|] eqn:Eg; [|reflexivity].
  destruct (Z.eqb_spec g0 1) as [E|E]; [exfalso; exact (Hn1 _ _ Eg E)|].
  destruct (strip (S (S f)) g0 (divexact nn g0) 0) as [[nn' c]|]; [|reflexivity].
  rewrite IH. destruct (set2_loop ifp f nn') as [[rest fl]|]; reflexivity.
Qed.

Lemma set1_loop_set2 : forall ifp, never_one ifp -> forall fuel nn,
  set1_loop ifp fuel nn = option_map (fun r => map fst (fst r)) (set2_loop ifp fuel nn).
Proof.
  intros ifp Hn1. induction fuel as [|f IH]; intro nn; [reflexivity|].
  cbn [set1_loop set2_loop]. destruct (nn >? 1); [|reflexivity].
  destruct (ifp nn) as [g0|] eqn:Eg; [|reflexivity].
  destruct (Z.eqb_spec g0 1) as [E|E]; [exfalso; exact (Hn1 _ _ Eg E)|].
  destruct (strip (S (S f)) g0 (divexact nn g0) 0) as [[nn' c]|]; [|reflexivity].
  rewrite IH. destruct (set2_loop ifp f nn') as [[rest fl]|]; reflexivity.
Qed.

Lemma never_one_flag : forall ifp, never_one ifp -> forall fuel nn l fl,
  set2_loop ifp fuel nn = Some (l, fl) -> fl = true.
Proof.
  intros ifp Hn1. induction fuel as [|f IH]; intros nn l fl Es; [discriminate|].
  cbn [set2_loop] in Es. destruct (nn >? 1); [|inversion Es; reflexivity].
  destruct (ifp nn) as [g0|] eqn:Eg; [|discriminate].
  destruct (Z.eqb_spec g0 1) as [E|E]; [exfalso; exact (Hn1 _ _ Eg E)|].
  destruct (strip (S (S f)) g0 (divexact nn g0) 0) as [[nn' c]|]; [|discriminate].
  destruct (set2_loop ifp f nn') as [[rest fl']|] eqn:Er; [|discriminate].
  inversion Es; subst. exact (IH _ _ _ Er).
Qed.

(* write: sign, then |n| itself when |n| <= 1, else a factor list with the properties of set *)
Definition Write_stmt : Prop :=
  forall (ifp : Z -> option Z) (fuel : nat) (n : Z) (neg : bool) (optv : option Z) (l : list (Z * Z)),
    ifp_ok ifp -> never_one ifp -> write_model ifp fuel n = Some (neg, optv, l) ->
    neg = (n <? 0)
    /\ (Z.abs n <= 1 -> optv = Some (Z.abs n) /\ l = [])
    /\ (1 < Z.abs n -> optv = None /\ factor_list_ok (Z.abs n) l
                       /\ (ifp_primes ifp -> Forall (fun gc => prime (fst gc)) l)).
Lemma write_correct : Write_stmt.
Proof.
  intros ifp fuel n neg optv l Hok Hn1 H. unfold write_model in H.
  set (nn := if n <? 0 then - n else n) in *.
  assert (Hnn : nn = Z.abs n) by (subst nn; destruct (Z.ltb_spec n 0); lia).
  destruct (Z.leb_spec nn 1) as [Hle|Hgt].
  - inversion H; subst neg optv l. split; [reflexivity|]. split; [intros _; rewrite Hnn; split; reflexivity|lia].
  - rewrite write_loop_set2 in H by exact Hn1.
    destruct (set2_loop ifp fuel nn) as [[l' fl]|] eqn:Es; cbn [option_map fst] in H; [|discriminate].
    inversion H; subst neg optv l. split; [reflexivity|]. split; [lia|]. intros _. split; [reflexivity|].
    rewrite <- Hnn. split; [exact (set2_loop_spec ifp Hok fuel nn l' fl ltac:(lia) Es)|].
    intro Hpr. assert (fl = true) by exact (never_one_flag ifp Hn1 fuel nn l' fl Es).
    subst fl. exact (set2_loop_primes ifp Hok Hpr fuel nn l' Es).
Qed.

(* set(Lf, n): the list of the distinct factors, each > 1 and dividing, whose powers (with the exponents set(Lf,Lo,n)
   would report) multiply to the argument; nn = |n| when the source negates a negative argument, n otherwise *)
Definition Set1_stmt : Prop :=
  forall (ifp : Z -> option Z) (fuel : nat) (n : Z) (gs : list Z),
    ifp_ok ifp -> never_one ifp ->
    let nn := if SET1_ABS && (n <? 0) then - n else n in
    1 <= nn -> set1_model ifp fuel n = Some gs ->
    exists l, gs = map fst l /\ factor_list_ok nn l /\ (ifp_primes ifp -> Forall prime gs).
Lemma set1_correct : Set1_stmt.
Proof.
  intros ifp fuel n gs Hok Hn1 nn Hnn H. unfold set1_model in H. fold nn in H.
  rewrite set1_loop_set2 in H by exact Hn1.
  destruct (set2_loop ifp fuel nn) as [[l fl]|] eqn:Es; cbn [option_map fst] in H; [|discriminate].
  inversion H; subst gs. exists l. split; [reflexivity|].
  split; [exact (set2_loop_spec ifp Hok fuel nn l fl Hnn Es)|].
  intro Hpr. assert (fl = true) by exact (never_one_flag ifp Hn1 fuel nn l fl Es).
  subst fl. pose proof (set2_loop_primes ifp Hok Hpr fuel nn l Es) as Hp.
  apply Forall_forall. intros g Hg. apply in_map_iff in Hg. destruct Hg as [gc [<- Hin]].
  rewrite Forall_forall in Hp. exact (Hp gc Hin).
Qed.

(* the hypotheses of Write_stmt / Set1_stmt are satisfiable (least-divisor oracle: never 1 on nn > 1), and the models run *)
Example write_example :
  write_model (fun nn => Some (least_div (Z.to_nat nn) 2 nn)) 20 (-360) = Some (true, None, [(2, 3); (3, 2); (5, 1)])
  /\ set1_model (fun nn => Some (least_div (Z.to_nat nn) 2 nn)) 20 (-360) = Some (if SET1_ABS then [2; 3; 5] else []).
Proof. vm_compute. split; reflexivity. Qed.
