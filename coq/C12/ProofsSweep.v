(* Generic lifting of a complete sweep: forallb over [lo, lo+len) = true gives the statement for every n of the range.
   Proved once, abstractly, so that no proof term ever makes the kernel re-evaluate a sweep outside vm_compute. *)
From Coq Require Import ZArith Znumtheory Lia List Bool.
Require Import C12.gen.Tables.
From C12 Require Import PrimeB Model.
Import ListNotations.
Local Open Scope Z_scope.

Lemma sweep_lift : forall (f : Z -> bool) (lo : Z) (len : nat),
  forallb f (Zseq lo len) = true -> forall n, lo <= n < lo + Z.of_nat len -> f n = true.
Proof.
  intros f lo len H n Hn. rewrite forallb_forall in H. apply H. apply In_Zseq. exact Hn.
Qed.

Definition agree (f : Z -> option bool) (n : Z) : bool :=
  match f n with Some b => Bool.eqb b (primeb n) | None => false end.

Lemma agree_spec : forall f n, agree f n = true -> exists b, f n = Some b /\ (b = true <-> prime n).
Proof.
  intros f n H. unfold agree in H. destruct (f n) as [b|]; [|discriminate].
  exists b. split; [reflexivity|]. apply Bool.eqb_prop in H. subst b. apply primeb_spec.
Qed.

Definition RANGE : nat := Z.to_nat 65536.
Lemma RANGE_eq : Z.of_nat RANGE = 65536. Proof. unfold RANGE. rewrite Z2Nat.id; lia. Qed.
Global Opaque RANGE.

Fixpoint list_eqb (a b : list Z) : bool :=
  match a, b with
  | [], [] => true
  | x :: a', y :: b' => if x =? y then list_eqb a' b' else false
  | _, _ => false
  end.
Lemma list_eqb_eq : forall a b, list_eqb a b = true -> a = b.
Proof.
  induction a as [|x a IH]; destruct b as [|y b]; cbn [list_eqb]; intro H; try discriminate; [reflexivity|].
  destruct (Z.eqb_spec x y); [|discriminate]. subst. f_equal. apply IH. exact H.
Qed.
