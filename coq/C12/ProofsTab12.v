(* The two searches on their own sub-ranges (public members of IntPrimeDom). *)
From Coq Require Import ZArith Znumtheory Lia List Bool.
Require Import C12.gen.Tables.
From C12 Require Import PrimeB Model ProofsSweep.
Import ListNotations.
Local Open Scope Z_scope.

Lemma dispatch1_le : 0 <= DISPATCH1 <= DISPATCH2. Proof. split; apply Z.leb_le; reflexivity. Qed.
Definition LEN1 : nat := Z.to_nat DISPATCH1.
Definition LEN2 : nat := Z.to_nat (DISPATCH2 - DISPATCH1).
Lemma LEN1_eq : Z.of_nat LEN1 = DISPATCH1. Proof. unfold LEN1. apply Z2Nat.id. apply dispatch1_le. Qed.
Lemma LEN2_eq : Z.of_nat LEN2 = DISPATCH2 - DISPATCH1.
Proof. unfold LEN2. apply Z2Nat.id. pose proof dispatch1_le. lia. Qed.
Global Opaque LEN1 LEN2.

Lemma sweep_tab1_ok : forallb (agree tabule1) (Zseq 0 LEN1) = true. Proof. vm_compute. reflexivity. Qed.
Lemma sweep_tab2_ok : forallb (agree tabule2) (Zseq DISPATCH1 LEN2) = true. Proof. vm_compute. reflexivity. Qed.

Definition Tabule1_stmt : Prop :=
  forall n, 0 <= n < DISPATCH1 -> exists b, tabule1 n = Some b /\ (b = true <-> prime n).
Definition Tabule2_stmt : Prop :=
  forall n, DISPATCH1 <= n < DISPATCH2 -> exists b, tabule2 n = Some b /\ (b = true <-> prime n).

Lemma tabule1_correct : Tabule1_stmt.
Proof.
  intros n Hn. apply agree_spec. apply (sweep_lift (agree tabule1) 0 LEN1 sweep_tab1_ok).
  rewrite LEN1_eq. lia.
Qed.
Lemma tabule2_correct : Tabule2_stmt.
Proof.
  intros n Hn. apply agree_spec. apply (sweep_lift (agree tabule2) DISPATCH1 LEN2 sweep_tab2_ok).
  rewrite LEN2_eq. lia.
Qed.
