(* The tabulated range: isprime n <-> prime n for every 0 <= n < 65536, by a complete sweep of the
   finite domain inside the kernel (vm_compute), against the verified primeb. *)
From Coq Require Import ZArith Znumtheory Lia List Bool.
Require Import C12.gen.Tables.
From C12 Require Import PrimeB Model.
Import ListNotations.
Local Open Scope Z_scope.

Definition RANGE : nat := Z.to_nat 65536.
Lemma RANGE_eq : Z.of_nat RANGE = 65536. Proof. unfold RANGE. rewrite Z2Nat.id; lia. Qed.

Definition agree (f : Z -> option bool) (n : Z) : bool :=
  match f n with Some b => Bool.eqb b (primeb n) | None => false end.

(* forallb with an early exit is not needed: every n must be visited anyway *)
Definition sweep_isprime : bool := forallb (agree (isprime_model (fun _ => false))) (Zseq 0 RANGE).

Lemma sweep_isprime_ok : sweep_isprime = true.
Proof. vm_compute. reflexivity. Qed.

Lemma dispatch2_eq : DISPATCH2 = 65536. Proof. reflexivity. Qed.
Lemma dispatch1_le : 0 <= DISPATCH1 <= DISPATCH2. Proof. split; apply Z.leb_le; reflexivity. Qed.

Lemma isprime_model_oracle_irrelevant : forall lp lp' n, n < 65536 -> isprime_model lp n = isprime_model lp' n.
Proof.
  intros lp lp' n Hn. unfold isprime_model.
  destruct (Z.ltb_spec n DISPATCH1); [reflexivity|].
  destruct (Z.ltb_spec n DISPATCH2) as [|H2]; [reflexivity|].
  rewrite dispatch2_eq in H2. lia.
Qed.

Definition Isprime_table_stmt : Prop :=
  forall (lp : Z -> bool) (n : Z), 0 <= n < 65536 ->
    exists b, isprime_model lp n = Some b /\ (b = true <-> prime n).

Lemma isprime_table : Isprime_table_stmt.
Proof.
  intros lp n Hn.
  pose proof sweep_isprime_ok as H. unfold sweep_isprime in H.
  rewrite forallb_forall in H.
  specialize (H n). rewrite In_Zseq in H. rewrite RANGE_eq in H. specialize (H ltac:(lia)).
  unfold agree in H.
  rewrite (isprime_model_oracle_irrelevant lp (fun _ => false) n ltac:(lia)).
  destruct (isprime_model (fun _ => false) n) as [b|]; [|discriminate].
  exists b. split; [reflexivity|].
  apply Bool.eqb_prop in H. subst b. apply primeb_spec.
Qed.

(* the two searches on their own sub-ranges (public members of IntPrimeDom) *)
Definition sweep_tab1 : bool := forallb (agree tabule1) (Zseq 0 (Z.to_nat DISPATCH1)).
Definition sweep_tab2 : bool := forallb (agree tabule2) (Zseq DISPATCH1 (Z.to_nat (DISPATCH2 - DISPATCH1))).
Lemma sweep_tab1_ok : sweep_tab1 = true. Proof. vm_compute. reflexivity. Qed.
Lemma sweep_tab2_ok : sweep_tab2 = true. Proof. vm_compute. reflexivity. Qed.

Definition Tabule1_stmt : Prop :=
  forall n, 0 <= n < DISPATCH1 -> exists b, tabule1 n = Some b /\ (b = true <-> prime n).
Definition Tabule2_stmt : Prop :=
  forall n, DISPATCH1 <= n < DISPATCH2 -> exists b, tabule2 n = Some b /\ (b = true <-> prime n).

Lemma tabule1_correct : Tabule1_stmt.
Proof.
  intros n Hn. pose proof sweep_tab1_ok as H. unfold sweep_tab1 in H. rewrite forallb_forall in H.
  specialize (H n). rewrite In_Zseq in H.
  assert (Hd : 0 <= DISPATCH1) by apply dispatch1_le.
  rewrite Z2Nat.id in H by exact Hd. specialize (H ltac:(lia)). unfold agree in H.
  destruct (tabule1 n) as [b|]; [|discriminate]. exists b. split; [reflexivity|].
  apply Bool.eqb_prop in H. subst b. apply primeb_spec.
Qed.

Lemma tabule2_correct : Tabule2_stmt.
Proof.
  intros n Hn. pose proof sweep_tab2_ok as H. unfold sweep_tab2 in H. rewrite forallb_forall in H.
  specialize (H n). rewrite In_Zseq in H.
  assert (Hd : 0 <= DISPATCH1 <= DISPATCH2) by apply dispatch1_le.
  rewrite Z2Nat.id in H by lia. specialize (H ltac:(lia)). unfold agree in H.
  destruct (tabule2 n) as [b|]; [|discriminate]. exists b. split; [reflexivity|].
  apply Bool.eqb_prop in H. subst b. apply primeb_spec.
Qed.

(* givprimes16.C: the table is exactly the increasing list of all primes below 2^16, and _size is its length *)
Fixpoint list_eqb (a b : list Z) : bool :=
  match a, b with
  | [], [] => true
  | x :: a', y :: b' => if x =? y then list_eqb a' b' else false
  | _, _ => false
  end.
Lemma list_eqb_eq : forall a b, list_eqb a b = true -> a = b.
Proof.
  induction a as [|x a IH]; destruct b as [|y b]; cbn [list_eqb]; intro H; try discriminate; [reflexivity|].
  destruct (Z.eqb_spec x y); [|discriminate]. subst. f_equal. apply IH. exact H.
Qed.

Definition all_primes_below_65536 : list Z := filter primeb (Zseq 0 RANGE).

Lemma primes16_sweep : list_eqb PRIMES16 all_primes_below_65536 = true.
Proof. vm_compute. reflexivity. Qed.
Lemma primes16_size_ok : Z.of_nat (length PRIMES16) =? PRIMES16_SIZE = true.
Proof. vm_compute. reflexivity. Qed.

Definition Primes16_stmt : Prop :=
  PRIMES16 = filter primeb (Zseq 0 RANGE)
  /\ (forall n, In n PRIMES16 <-> (0 <= n < 65536 /\ prime n))
  /\ Z.of_nat (length PRIMES16) = primes16_count.

Lemma primes16_correct : Primes16_stmt.
Proof.
  pose proof (list_eqb_eq _ _ primes16_sweep) as E. unfold all_primes_below_65536 in E.
  split; [exact E|]. split.
  - intro n. rewrite E, filter_In, In_Zseq, RANGE_eq, primeb_spec. lia.
  - apply Z.eqb_eq. exact primes16_size_ok.
Qed.

(* the small-prime table of isprimepower: every non-zero entry is prime, entries are all the primes below
   SMALLEST_OMITTED_PRIME, in order, then the 0 terminator *)
Lemma pp_primes_sweep :
  list_eqb PP_PRIMES (filter primeb (Zseq 0 (Z.to_nat SMALLEST_OMITTED_PRIME)) ++ [0]) = true.
Proof. vm_compute. reflexivity. Qed.

Definition Pp_primes_stmt : Prop :=
  PP_PRIMES = filter primeb (Zseq 0 (Z.to_nat SMALLEST_OMITTED_PRIME)) ++ [0].
Lemma pp_primes_correct : Pp_primes_stmt.
Proof. apply list_eqb_eq. exact pp_primes_sweep. Qed.
