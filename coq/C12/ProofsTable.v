(* The tabulated range: isprime n <-> prime n for every 0 <= n < 65536, by a complete sweep of the
   finite domain inside the kernel (vm_compute), against the verified primeb. *)
From Coq Require Import ZArith Znumtheory Lia List Bool.
Require Import C12.gen.Tables.
From C12 Require Import PrimeB Model ProofsSweep.
Import ListNotations.
Local Open Scope Z_scope.

Lemma sweep_isprime_ok : forallb (agree (isprime_model (fun _ => false))) (Zseq 0 RANGE) = true.
Proof. vm_compute. reflexivity. Qed.

Lemma dispatch2_eq : DISPATCH2 = 65536. Proof. reflexivity. Qed.

Lemma isprime_model_oracle_irrelevant : forall lp lp' n, n < 65536 -> isprime_model lp n = isprime_model lp' n.
Proof.
  intros lp lp' n Hn. unfold isprime_model.
  destruct (ISPRIME_HAS_GUARD && (n <? ISPRIME_GUARD)); [reflexivity|].
  destruct (Z.ltb_spec n DISPATCH1); [reflexivity|].
  destruct (Z.ltb_spec n DISPATCH2) as [|H2]; [reflexivity|].
  rewrite dispatch2_eq in H2. lia.
Qed.

Definition Isprime_table_stmt : Prop :=
  forall (lp : Z -> bool) (n : Z), 0 <= n < 65536 ->
    exists b, isprime_model lp n = Some b /\ (b = true <-> prime n).

Lemma isprime_table : Isprime_table_stmt.
Proof.
  intros lp n Hn.
  rewrite (isprime_model_oracle_irrelevant lp (fun _ => false) n ltac:(lia)).
  apply agree_spec.
  apply (sweep_lift (agree (isprime_model (fun _ => false))) 0 RANGE sweep_isprime_ok).
  rewrite RANGE_eq. lia.
Qed.

(* n < 2 (in particular every negative n): either the source rejects it before looking at the tables, and then
   isprime is false there; or it does not, and then there is a negative n that isprime accepts
   (the tables start with the sentinel -1, and the argument is truncated to 32 bits). *)
Definition Isprime_below_2_stmt : Prop :=
  (ISPRIME_HAS_GUARD = true /\ forall lp n, n < 2 -> isprime_model lp n = Some false)
  \/
  (ISPRIME_HAS_GUARD = false /\ exists n, n < 0 /\ forall lp, isprime_model lp n = Some true).
Lemma isprime_below_2 : Isprime_below_2_stmt.
Proof.
  first
  [ left; split; [reflexivity|]; intros lp n Hn; unfold isprime_model;
    change ISPRIME_HAS_GUARD with true; change ISPRIME_GUARD with 2;
    destruct (Z.ltb_spec n 2); [reflexivity|lia]
  | right; split; [reflexivity|]; exists (-1); split; [lia|]; intro lp; vm_compute; reflexivity ].
Qed.
