(* isprimepower terminates: for exact oracles and every u > 0 there are bounds F, D such that the model returns an answer
   for every fuel >= F and depth >= D (so that ProofsDecide.isprimepower_decides applies to it: the hypothesis "returns
   Some" of that theorem is not vacuous for any u).  The root loop stops at the latest at the first PRIME exponent B with
   2^B > u (floor root 1 < SMALLEST_OMITTED_PRIME); that such a prime exists is Euclid's theorem, proved here. *)
From Coq Require Import ZArith Znumtheory Zpow_facts Lia List Bool Arith.Factorial.
Require Import C12.gen.Tables.
From C12 Require Import PrimeB Model ProofsSweep ProofsPPTable ProofsFactor ProofsPower ProofsComplete.
Import ListNotations.
Local Open Scope Z_scope.

(* ---------------------------------------------------------------- Euclid *)
Lemma divide_fact : forall n p : nat, (1 <= p <= n)%nat -> Nat.divide p (fact n).
Proof.
  induction n as [|n IH]; intros p Hp; [lia|].
  cbn [fact]. destruct (Nat.eq_dec p (S n)) as [->|Hne].
  - apply Nat.divide_factor_l.
  - apply Nat.divide_mul_r. apply IH. lia.
Qed.

Lemma euclid : forall k, exists p, prime p /\ k < p.
Proof.
  intro k0. set (k := Z.max k0 1).
  set (N := Z.of_nat (fact (Z.to_nat k)) + 1).
  assert (HN : 1 < N) by (subst N; pose proof (lt_O_fact (Z.to_nat k)); lia).
  destruct (prime_factor_exists N HN) as [p [Hp Hd]]. exists p. split; [exact Hp|].
  destruct (Z_lt_le_dec k p) as [Hlt|Hle]; [lia|]. exfalso.
  pose proof (prime_ge_2 _ Hp) as Hp2.
  assert (Hdf : (p | Z.of_nat (fact (Z.to_nat k)))).
  { destruct (divide_fact (Z.to_nat k) (Z.to_nat p) ltac:(lia)) as [q Hq].
    exists (Z.of_nat q). rewrite Hq. rewrite Nat2Z.inj_mul. rewrite Z2Nat.id by lia. reflexivity. }
  assert (H1 : (p | 1)).
  { replace 1 with (N - Z.of_nat (fact (Z.to_nat k))) by (subst N; lia). apply Z.divide_sub_r; assumption. }
  apply Z.divide_1_r_nonneg in H1; lia.
Qed.

(* ---------------------------------------------------------------- the loops *)
Lemma tz_terminates : forall fuel t n2, 0 < t -> (Z.to_nat t < fuel)%nat -> exists r, tz fuel t n2 = Some r.
Proof.
  induction fuel as [|f IH]; intros t n2 Ht Hf; [lia|].
  cbn [tz]. destruct (Z.odd t) eqn:Eo; [eexists; reflexivity|].
  assert (He : Z.even t = true) by (rewrite <- Z.negb_odd, Eo; reflexivity).
  apply Z.even_spec in He. destruct He as [k Hk].
  assert (Hq : Z.quot t 2 = k) by (subst t; rewrite Z.mul_comm; apply Z.quot_mul; lia).
  rewrite Hq. apply IH; lia.
Qed.

Lemma mult_loop_terminates : forall fuel prime u2 n, 1 < prime -> 0 < u2 -> (Z.to_nat u2 < fuel)%nat ->
  exists r, mult_loop fuel prime u2 n = Some r.
Proof.
  induction fuel as [|f IH]; intros prime u2 n Hp Hu Hf; [lia|].
  cbn [mult_loop]. destruct (Z.eqb_spec (u2 mod prime) 0) as [E|E]; [|eexists; reflexivity].
  assert (Hd : u2 = prime * (u2 / prime)) by (apply Z_div_exact_full_2; lia).
  assert (0 < u2 / prime) by nia. assert (u2 / prime < u2) by nia.
  apply IH; lia.
Qed.

Lemma pp_small_terminates : forall fuel ps u, 0 < u -> (Z.to_nat u < fuel)%nat ->
  (forall p, In p ps -> p = 0 \/ prime p) -> exists r, pp_small fuel ps u = Some r.
Proof.
  intros fuel ps u Hu Hf. induction ps as [|p rest IH]; intro Hps; cbn [pp_small]; [eexists; reflexivity|].
  destruct (Z.eqb_spec p 0); [eexists; reflexivity|].
  assert (Hp : prime p) by (destruct (Hps p (or_introl eq_refl)); [contradiction|assumption]).
  pose proof (prime_ge_2 _ Hp) as Hp2.
  destruct (Z.eqb_spec (u mod p) 0); [|apply IH; intros x Hx; apply Hps; right; exact Hx].
  destruct (Z.eqb_spec (u mod (p * p)) 0) as [Em2|Em2]; cbn [negb]; [|eexists; reflexivity].
  assert (Hpp : 4 <= p * p) by nia.
  assert (Hd : u = (p * p) * (u / (p * p))) by (apply Z_div_exact_full_2; lia).
  remember (p * p) as pp eqn:Epp. remember (u / pp) as qq eqn:Eqq.
  assert (0 < qq) by nia. assert (qq < u) by nia.
  destruct (mult_loop_terminates fuel p qq 2 ltac:(lia) ltac:(lia) ltac:(lia)) as [[[u2 q'] n'] E]. rewrite E.
  destruct (Z.abs u2 =? 1); eexists; reflexivity.
Qed.

Lemma som_ge_2 : 2 <=? SMALLEST_OMITTED_PRIME = true. Proof. vm_compute. reflexivity. Qed.

Section RootLoop.
  Variable isprime : Z -> bool.
  Variable root : Z -> Z -> option (Z * bool).
  Hypothesis Hip : isprime_exact isprime.
  Hypothesis Hroot : root_exact root.

  Lemma pp_root_terminates : forall rec u2 B, 0 < u2 -> prime B -> u2 < 2 ^ B ->
    (forall v, 1 < v < u2 -> exists r, rec v = Some r) ->
    forall fuel nth, 2 <= nth <= B -> (Z.to_nat (B - nth) < fuel)%nat ->
      exists r, pp_root isprime root rec fuel nth u2 = Some r.
  Proof.
    intros rec u2 B Hu HB Hpow Hrec. pose proof som_ge_2 as Hs. apply Z.leb_le in Hs.
    induction fuel as [|f IH]; intros nth Hn Hf; [lia|].
    cbn [pp_root]. destruct (isprime nth) eqn:En; cbn [negb].
    2:{ assert (nth <> B) by (intro E; subst nth; apply Hip in HB; congruence). apply IH; lia. }
    destruct (Hroot u2 nth Hu ltac:(lia)) as [q [ex [Eroot [Hq0 [Hqb Hex]]]]]. rewrite Eroot.
    destruct ex.
    - destruct (isprime q); [eexists; reflexivity|]. destruct IPP_RECURSE; [|eexists; reflexivity].
      destruct (Z.leb_spec q 1) as [|Hq1]; [eexists; reflexivity|].
      assert (Hqe : q ^ nth = u2) by (apply Hex; reflexivity).
      assert (Hlt : q < u2).
      { rewrite <- Hqe. replace q with (q ^ 1) at 1 by apply Z.pow_1_r. apply Z.pow_lt_mono_r; lia. }
      destruct (Hrec q ltac:(lia)) as [[e' q'] Er]. rewrite Er. eexists; reflexivity.
    - destruct (Z.ltb_spec (Z.abs q) SMALLEST_OMITTED_PRIME) as [|Hge]; [eexists; reflexivity|].
      assert (nth <> B).
      { intro E. subst nth. assert (2 <= q) by lia. assert (2 ^ B <= q ^ B) by (apply Z.pow_le_mono_l; lia). lia. }
      apply IH; lia.
  Qed.
End RootLoop.

(* ---------------------------------------------------------------- the theorem *)
Definition Isprimepower_terminates_stmt : Prop :=
  forall isprime root, isprime_exact isprime -> root_exact root ->
  forall u, 0 < u -> exists F D : nat, forall fuel depth q0, (F <= fuel)%nat -> (D <= depth)%nat ->
    exists r, isprimepower_model isprime root depth fuel q0 u = Some r.

Lemma isprimepower_terminates_upto : forall isprime root, isprime_exact isprime -> root_exact root ->
  forall n : nat, exists F D : nat, forall v, 0 < v <= Z.of_nat n -> forall fuel depth q0, (F <= fuel)%nat -> (D <= depth)%nat ->
    exists r, isprimepower_model isprime root depth fuel q0 v = Some r.
Proof.
  intros isprime root Hip Hroot. induction n as [|n IH].
  - exists O, O. intros v Hv. lia.
  - destruct IH as [F [D IH]].
    set (u := Z.of_nat (S n)).
    destruct (euclid (Z.log2 u + 2)) as [B [HB HBk]].
    exists (Nat.max F (Nat.max (S (Z.to_nat u)) (S (Z.to_nat B)))), (S D).
    intros v Hv fuel depth q0 Hf Hd.
    destruct (Z_le_gt_dec v (Z.of_nat n)) as [Hle|Hgt]; [apply IH; [lia|lia|lia]|].
    assert (Hvu : v = u) by (subst u; lia). subst v.
    assert (Hu : 0 < u) by (subst u; lia).
    destruct depth as [|d]; [lia|].
    cbn [isprimepower_model]. unfold isprimepower_body.
    destruct (Z.eqb_spec u 0); [lia|].
    assert (Hneg : IPP_NEG_GUARD && (u <? 0) = false) by (destruct (Z.ltb_spec u 0); [lia|apply andb_false_r]).
    rewrite Hneg.
    destruct (Z.land (Z.abs u mod 18446744073709551616) 3 =? 2); [eexists; reflexivity|].
    destruct (tz_terminates fuel u 0 Hu ltac:(lia)) as [[t n2] Etz]. rewrite Etz.
    destruct (n2 >? 0); [destruct (t =? 1); eexists; reflexivity|].
    destruct (ProofsPower.tl_pp_primes) as [Hps [p0 [rest [Etl Hp0]]]].
    destruct (pp_small_terminates fuel (tl PP_PRIMES) u Hu ltac:(lia) Hps) as [[rr|] Es]; rewrite Es; [eexists; reflexivity|].
    rewrite Etl. destruct (Z.eqb_spec p0 0); [contradiction|].
    pose proof (prime_ge_2 _ HB) as HB2.
    apply (pp_root_terminates isprime root Hip Hroot _ u B Hu HB).
    + assert (Hl : u < 2 ^ (Z.log2 u + 1)) by (apply Z.log2_spec; exact Hu).
      assert (2 ^ (Z.log2 u + 1) <= 2 ^ B) by (apply Z.pow_le_mono_r; lia). lia.
    + intros w Hw. apply IH; [subst u; lia|lia|lia].
    + lia.
    + lia.
Qed.

Lemma isprimepower_terminates : Isprimepower_terminates_stmt.
Proof.
  intros isprime root Hip Hroot u Hu.
  destruct (isprimepower_terminates_upto isprime root Hip Hroot (Z.to_nat u)) as [F [D H]].
  exists F, D. intros fuel depth q0 Hf Hd. apply H; [rewrite Z2Nat.id; lia|exact Hf|exact Hd].
Qed.
