(* C12 property theorems.  Nothing but statements closed by `exact`, each followed by Print Assumptions.
   Statements (`..._stmt`) are spelled out in the Proofs* files next to their proofs.
   Tables, dispatch bounds and low-end constants come from gen/Tables.v = the current source text of /repo. *)
From Coq Require Import ZArith.
Require Import C12.gen.Tables.
From C12 Require Import PrimeB Model ProofsSweep ProofsTable ProofsTab12 ProofsPrimes16 ProofsPPTable ProofsNext ProofsFactor ProofsDivisors ProofsDivisorsNoDup ProofsPower ProofsComplete ProofsSetForms ModelScript ProofsScript ProofsDecide ModelErat ProofsErat ProofsTerminate ProofsEratFull ProofsPowmod ModelFermat ProofsFermat ProofsFermatLittle ProofsMiller ModelDom ProofsDom ProofsCompose ProofsAccepted.
Local Open Scope Z_scope.

Theorem C12_isprime_exact_below_65536 : Isprime_table_stmt.          Proof. exact isprime_table. Qed.
Print Assumptions C12_isprime_exact_below_65536.
Theorem C12_isprime_below_2 : Isprime_below_2_ok.                    Proof. exact isprime_below_2_ok. Qed.
Print Assumptions C12_isprime_below_2.
Theorem C12_isprime_Tabule_exact : Tabule1_stmt.                     Proof. exact tabule1_correct. Qed.
Print Assumptions C12_isprime_Tabule_exact.
Theorem C12_isprime_Tabule2_exact : Tabule2_stmt.                    Proof. exact tabule2_correct. Qed.
Print Assumptions C12_isprime_Tabule2_exact.
Theorem C12_primes16_table_exact : Primes16_stmt.                    Proof. exact primes16_correct. Qed.
Print Assumptions C12_primes16_table_exact.
Theorem C12_isprimepower_small_primes_exact : Pp_primes_stmt.        Proof. exact pp_primes_correct. Qed.
Print Assumptions C12_isprimepower_small_primes_exact.
Theorem C12_nextprime_least_prime_above : Nextprime_stmt.            Proof. exact nextprime_correct. Qed.
Print Assumptions C12_nextprime_least_prime_above.
Theorem C12_nextprimein_least_prime_above : Nextprimein_stmt.        Proof. exact nextprimein_correct. Qed.
Print Assumptions C12_nextprimein_least_prime_above.
Theorem C12_nextprime_terminates : Nextprime_terminates_stmt.        Proof. exact nextprime_terminates. Qed.
Print Assumptions C12_nextprime_terminates.
Theorem C12_prevprime_greatest_prime_below : Prevprime_stmt.         Proof. exact prevprime_correct. Qed.
Print Assumptions C12_prevprime_greatest_prime_below.
Theorem C12_prevprimein_greatest_prime_below : Prevprimein_stmt.     Proof. exact prevprimein_correct. Qed.
Print Assumptions C12_prevprimein_greatest_prime_below.
Theorem C12_protected_prevprime_greatest_prime_below : Protected_prevprime_stmt. Proof. exact protected_prevprime_correct. Qed.
Print Assumptions C12_protected_prevprime_greatest_prime_below.
Theorem C12_prevprime_terminates : Prevprime_terminates_stmt.        Proof. exact prevprime_terminates. Qed.
Print Assumptions C12_prevprime_terminates.
Theorem C12_prevprime_at_3 : Prevprime_at_3_ok.                      Proof. exact prevprime_at_3_ok. Qed.
Print Assumptions C12_prevprime_at_3.
Theorem C12_protected_prevprime_at_3 : Protected_prevprime_at_3_ok. Proof. exact protected_prevprime_at_3_ok. Qed.
Print Assumptions C12_protected_prevprime_at_3.
Theorem C12_set_distinct_factors_product_abs_n : Set2_stmt.             Proof. exact set2_correct. Qed.
Print Assumptions C12_set_distinct_factors_product_abs_n.
Theorem C12_set_terminates : Set2_terminates_stmt.                        Proof. exact set2_terminates. Qed.
Print Assumptions C12_set_terminates.
Theorem C12_factor_divides_prime_when_small_factor : Factor_stmt.         Proof. exact factor_correct. Qed.
Print Assumptions C12_factor_divides_prime_when_small_factor.
Theorem C12_divisors_exactly_positive_divisors : Divisors_stmt.            Proof. exact divisors_correct. Qed.
Print Assumptions C12_divisors_exactly_positive_divisors.
Theorem C12_isprimepower_sound :
  forall isprime root, isprime_sound isprime -> root_sound root -> Isprimepower_sound_stmt isprime root.
Proof. exact isprimepower_sound. Qed.
Print Assumptions C12_isprimepower_sound.
Theorem C12_isprimepower_complete : Isprimepower_complete_ok.              Proof. exact isprimepower_complete_ok. Qed.
Print Assumptions C12_isprimepower_complete.
Theorem C12_write_sign_and_factor_list : Write_stmt.                       Proof. exact write_correct. Qed.
Print Assumptions C12_write_sign_and_factor_list.
Theorem C12_set_one_container_distinct_factors : Set1_stmt.                Proof. exact set1_correct. Qed.
Print Assumptions C12_set_one_container_distinct_factors.
Theorem C12_divisors_no_repetition : Divisors_NoDup_stmt.                    Proof. exact divisors_nodup. Qed.
Print Assumptions C12_divisors_no_repetition.
Theorem C12_isprime_exact_for_all_n_given_gmp : Isprime_all_ok.             Proof. exact isprime_all_ok. Qed.
Print Assumptions C12_isprime_exact_for_all_n_given_gmp.
Theorem C12_pollard_nontrivial_divisor_if_it_returns : Pollard_all_stmt.         Proof. exact pollard_all. Qed.
Print Assumptions C12_pollard_nontrivial_divisor_if_it_returns.
Theorem C12_iffactorprime_prime_divisor_any_script : Iffactorprime_all_stmt. Proof. exact iffactorprime_all. Qed.
Print Assumptions C12_iffactorprime_prime_divisor_any_script.
Theorem C12_primefactor_prime_divisor_any_script : Primefactor_all_stmt.     Proof. exact primefactor_all. Qed.
Print Assumptions C12_primefactor_prime_divisor_any_script.
Theorem C12_factor_in_place : Factor_inplace_ok.                             Proof. exact factor_inplace_ok. Qed.
Print Assumptions C12_factor_in_place.
Theorem C12_pollard_in_place : Pollard_inplace_ok.                           Proof. exact pollard_inplace_ok. Qed.
Print Assumptions C12_pollard_in_place.
Theorem C12_miller_accepts_every_prime : Miller_stmt.                        Proof. exact miller_correct. Qed.
Print Assumptions C12_miller_accepts_every_prime.
Theorem C12_miller_witness_zero : Miller_zero_ok.                            Proof. exact miller_zero_ok. Qed.
Print Assumptions C12_miller_witness_zero.
Theorem C12_isprimepower_decides : Isprimepower_decides_ok.                  Proof. exact isprimepower_decides_ok. Qed.
Print Assumptions C12_isprimepower_decides.
Theorem C12_isprimepower_terminates : Isprimepower_terminates_stmt.         Proof. exact isprimepower_terminates. Qed.
Print Assumptions C12_isprimepower_terminates.
Theorem C12_erathostene_returns_below_1025_partial : Erat_partial_stmt. Proof. exact erat_partial. Qed.
Print Assumptions C12_erathostene_returns_below_1025_partial.
Theorem C12_erathostene_distinct_primes : Erat_stmt.                          Proof. exact erat_correct. Qed.
Print Assumptions C12_erathostene_distinct_primes.
Theorem C12_powmod_is_power_mod : Powmod_stmt.                               Proof. exact powmod_correct. Qed.
Print Assumptions C12_powmod_is_power_mod.
Theorem C12_pepin_agrees_with_primality_partial : Pepin_partial_stmt.        Proof. exact pepin_partial. Qed.
Print Assumptions C12_pepin_agrees_with_primality_partial.
Theorem C12_factor_same_on_every_copy_of_the_domain : Dom_copy_stmt.         Proof. exact dom_copy_same. Qed.
Print Assumptions C12_factor_same_on_every_copy_of_the_domain.
Theorem C12_isprimepower_zero_for_nonpositive : Isprimepower_nonpositive_ok.  Proof. exact isprimepower_nonpositive_ok. Qed.
Print Assumptions C12_isprimepower_zero_for_nonpositive.
Theorem C12_isprime_total_exact_given_gmp : forall lp, gmp_exact lp -> isprime_exact (isprime_total lp). Proof. exact isprime_total_exact. Qed.
Print Assumptions C12_isprime_total_exact_given_gmp.
Theorem C12_nextprime_closest_with_isprime : Nextprime_total_stmt.           Proof. exact nextprime_total. Qed.
Print Assumptions C12_nextprime_closest_with_isprime.
Theorem C12_prevprime_closest_with_isprime : Prevprime_total_stmt.           Proof. exact prevprime_total. Qed.
Print Assumptions C12_prevprime_closest_with_isprime.
Theorem C12_set_with_scripted_iffactorprime : Set2_s_all_stmt.               Proof. exact set2_s_all. Qed.
Print Assumptions C12_set_with_scripted_iffactorprime.
Theorem C12_divisors_of_n_exactly_positive_divisors : Divisors_of_s_all_stmt. Proof. exact divisors_of_s_all. Qed.
Print Assumptions C12_divisors_of_n_exactly_positive_divisors.
