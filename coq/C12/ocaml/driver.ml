(* C12 driver: one case per line "<op> <decimal args...>" -> one result line, same format as harness/c12_prime.C.
   The oracles of the model are instantiated here:
     lp    (mpz_probab_prime_p)  = Zarith's binding of the same GMP function
     root  (mpz_root)            = Zarith's Z.root + exactness by re-powering; None for an even root of a negative
     pollard/lenstra/iffactorprime/primefactor results that depend on the random walk = the values the
     implementation returned on this case (passed as extra arguments), replayed in call order. *)
let zs = z_of_string
let sz = string_of_z
let lp (x : Model.z) : bool = ZA.probab_prime (za_of_z x) 5 <> 0
let isp (x : Model.z) : bool = Model.isprime_total lp x
let last_u : (Model.z * ZA.t) option ref = ref None      (* the root loop asks for many roots of the same number *)
let za_cached (u : Model.z) : ZA.t =
  match !last_u with
  | Some (v, z) when v == u -> z
  | _ -> let z = za_of_z u in last_u := Some (u, z); z
let root (u : Model.z) (k : Model.z) : (Model.z * bool) option =
  let u' = za_cached u and k' = ZA.to_int (za_of_z k) in
  if ZA.sign u' < 0 && k' land 1 = 0 then None
  else begin
    let r = if ZA.sign u' >= 0 then ZA.root u' k' else ZA.neg (ZA.root (ZA.neg u') k') in
    Some (z_of_za r, ZA.equal (ZA.pow r k') u')
  end
let fuel_np = nat_of_int 4000
let fuel_f = nat_of_int 400
let fuel_ipp = nat_of_int 60000
let ob = function Some true -> "1" | Some false -> "0" | None -> "NONE"
let oz = function Some x -> sz x | None -> "NONE"
let range f a b =
  let a = ZA.to_int (za_of_z a) and b = ZA.to_int (za_of_z b) in
  let buf = Buffer.create (max 16 (b - a)) in
  let bad = ref false in
  for n = a to b - 1 do
    match f (z_of_za (ZA.of_int n)) with
    | Some true -> Buffer.add_char buf '1' | Some false -> Buffer.add_char buf '0' | None -> bad := true; Buffer.add_char buf '?'
  done;
  Buffer.contents buf
let zrange f a b =
  let a = ZA.to_int (za_of_z a) and b = ZA.to_int (za_of_z b) in
  let l = ref [] in
  for n = b - 1 downto a do l := oz (f (z_of_za (ZA.of_int n))) :: !l done;
  String.concat " " !l
let replay (gs : Model.z list) : Model.z -> Model.z option =
  let r = ref gs in
  fun _ -> match !r with [] -> None | g :: t -> r := t; Some g
let const (v : Model.z) : Model.z -> Model.z = fun _ -> v
let pairs l = String.concat "" (List.map (fun (g, c) -> " " ^ sz g ^ ":" ^ sz c) l)
let zlist l = String.concat " " (List.map sz l)
let is_one c = ZA.equal (za_of_z c) ZA.one
let wstring ((neg, optv), l) =
  (if neg then "-" else "") ^
  (match optv with
   | Some v -> sz v
   | None -> String.concat "*" (List.map (fun (g, c) -> if is_one c then sz g else sz g ^ "^" ^ sz c) l))
let rec pairup = function a :: b :: t -> (a, b) :: pairup t | _ -> []
let garbage = zs "-123456789012345678901234567890"

(* ---- scripted random source (ModelScript): the script is threaded through the extracted functions; for the complete
   factorisations the successive calls of iffactorprime / primefactor consume it in call order *)
let fuel_rho = nat_of_int 100000
let fuel_loop = nat_of_int 64
let used (ys : Model.z list) (rest : Model.z list) = string_of_int (List.length ys - List.length rest)
let sres ys = function None -> "NONE" | Some (g, rest) -> sz g ^ " | " ^ used ys rest ^ " 0"
let sres3 ys = function None -> "NONE" | Some ((g, rest), passes) -> sz g ^ " | " ^ used ys rest ^ " 0 # " ^ sz passes
let ip_res ys = function None -> "NONE" | Some (g, rest) -> sz g ^ " 1 | " ^ used ys rest ^ " 0"
let ip_res3 ys = function None -> "NONE" | Some ((g, rest), passes) -> sz g ^ " 1 | " ^ used ys rest ^ " 0 # " ^ sz passes
let threaded (ys : Model.z list) (f : Model.z list -> Model.z -> ((Model.z * Model.z list) * Model.z) option) =
  let st = ref ys and passes = ref [] in
  let ifp nn = match f !st nn with
    | None -> None
    | Some ((g, rest), k) -> st := rest; passes := sz k :: !passes; Some g in
  (ifp, (fun () -> " | " ^ used ys !st ^ " 0 # " ^ String.concat "," (List.rev !passes)))

let () = run_lines (fun toks ->
  match toks with
  | op :: args ->
    let a = Array.of_list (List.map zs args) in
    let rest k = Array.to_list (Array.sub a k (Array.length a - k)) in
    (match op with
     | "isprime" -> ob (Model.isprime_model lp a.(0))
     | "tab1" -> ob (Model.tabule1 a.(0))
     | "tab2" -> ob (Model.tabule2 a.(0))
     | "lp" -> ob (Some (lp a.(0)))
     | "range" -> range (Model.isprime_model lp) a.(0) a.(1)
     | "range.tab1" -> range Model.tabule1 a.(0) a.(1)
     | "range.tab2" -> range Model.tabule2 a.(0) a.(1)
     | "next.na" -> oz (Model.nextprime_model isp fuel_np false a.(0))
     | "next.alias" -> oz (Model.nextprime_model isp fuel_np true a.(0))
     | "next.in" -> oz (Model.nextprimein_model isp fuel_np a.(0))
     | "prev.na" -> oz (Model.prevprime_model isp fuel_np false a.(0))
     | "prev.alias" -> oz (Model.prevprime_model isp fuel_np true a.(0))
     | "prev.in" -> oz (Model.prevprimein_model isp fuel_np a.(0))
     | "pprev" -> oz (Model.protected_prevprime_model lp fuel_np a.(0))
     | "nextrange" -> zrange (Model.nextprime_model isp fuel_np false) a.(0) a.(1)
     | "prevrange" -> zrange (Model.prevprime_model isp fuel_np false) a.(0) a.(1)
     | "nextrange.in" -> zrange (Model.nextprimein_model isp fuel_np) a.(0) a.(1)
     | "prevrange.in" -> zrange (Model.prevprimein_model isp fuel_np) a.(0) a.(1)
     | "pprevrange" -> zrange (Model.protected_prevprime_model lp fuel_np) a.(0) a.(1)
     (* factor n obs: obs = what the implementation returned; used only where the code asks the random walk *)
     | "factor" -> sz (Model.factor_model isp (const a.(1)) a.(0))
     | "pollard" -> sz (Model.pollard_model isp (const a.(1)) a.(0))
     | "lenstra" -> sz (Model.lenstra_model isp (const a.(1)) a.(0))
     | "iffactorprime" -> oz (Model.iffactorprime_model isp (const a.(1)) (const a.(1)) fuel_f a.(0))
     | "primefactor" -> oz (Model.primefactor_model isp (const a.(1)) (const a.(1)) fuel_f a.(0))
     (* set2 n g1 g2 ...: the successive answers of iffactorprime *)
     | "set2" -> (match Model.set2_model (replay (rest 1)) fuel_f a.(0) with
                  | None -> "NONE" | Some (l, fl) -> (if fl then "1" else "0") ^ pairs l)
     | "set1" -> (match Model.set1_model (replay (rest 1)) fuel_f a.(0) with None -> "NONE" | Some l -> zlist l)
     | "write" -> (match Model.write_model (replay (rest 1)) fuel_f a.(0) with None -> "NONE" | Some w -> "[" ^ wstring w ^ "]")
     | "write.L" -> (match Model.write_model (replay (rest 1)) fuel_f a.(0) with
                     | None -> "NONE"
                     | Some (((neg, optv), l) as w) ->
                       "[" ^ wstring w ^ "] " ^ (match optv with Some v -> sz v | None -> zlist (List.map fst l)))
     | "divisors.n" -> (match Model.divisors_of_model (replay (rest 1)) fuel_f a.(0) with None -> "NONE" | Some l -> zlist l)
     | "divisors.lf" | "divisors.lf.alias" -> zlist (Model.divisors_model (pairup (rest 0)))
     | "nextrange.alias" -> zrange (Model.nextprime_model isp fuel_np true) a.(0) a.(1)
     | "prevrange.alias" -> zrange (Model.prevprime_model isp fuel_np true) a.(0) a.(1)
     | "pprevrange.alias" -> zrange (Model.protected_prevprime_model lp fuel_np) a.(0) a.(1)
     | "ipp.alias" -> (match Model.isprimepower_model isp root (nat_of_int 16) fuel_ipp a.(0) a.(0) with
                       | None -> "NONE" | Some (e, q) -> sz e ^ " " ^ sz q)
     (* s.<op> n thr y1 y2 ... *)
     | "s.pollard" -> let ys = rest 2 in sres ys (Model.pollard_s isp fuel_loop fuel_rho ys a.(0) a.(1))
     | "s.factor" -> let ys = rest 2 in sres ys (Model.factor_s isp fuel_loop fuel_rho ys a.(0) a.(1))
     | "s.iffactorprime" -> let ys = rest 2 in sres3 ys (Model.iffactorprime_s isp fuel_loop fuel_loop fuel_rho ys a.(0) a.(1))
     | "s.primefactor" -> let ys = rest 2 in sres3 ys (Model.primefactor_s isp fuel_loop fuel_loop fuel_loop fuel_rho ys a.(0))
     | "s.pollard.ip" -> let ys = rest 2 in ip_res ys (Model.pollard_inplace_s isp fuel_loop fuel_rho ys a.(0) a.(1))
     | "s.factor.ip" -> let ys = rest 2 in ip_res ys (Model.factor_inplace_s isp fuel_loop fuel_rho ys a.(0) a.(1))
     | "s.iffactorprime.ip" -> let ys = rest 2 in ip_res3 ys (Model.iffactorprime_inplace_s isp fuel_loop fuel_loop fuel_rho ys a.(0) a.(1))
     (* complete factorisation / divisor list on the scripted walk: the script is threaded INSIDE the extracted Coq functions (set2_s, divisors_of_s) *)
     | "s.set2" | "s.set2.list" ->
       let ys = rest 2 in
       (match Model.set2_s isp fuel_f fuel_loop fuel_loop fuel_rho ys a.(0) a.(1) with
        | None -> "NONE" | Some ((l, fl), rest') -> (if fl then "1" else "0") ^ pairs l ^ " | " ^ used ys rest' ^ " 0")
     | "s.divisors" ->
       let ys = rest 2 in
       (match Model.divisors_of_s isp fuel_f fuel_loop fuel_loop fuel_rho ys a.(0) with
        | None -> "NONE" | Some (l, rest') -> zlist l ^ " | " ^ used ys rest' ^ " 0")
     | "s.set1" ->
       let (ifp, tail) = threaded (rest 2) (fun ys nn -> Model.primefactor_s isp fuel_loop fuel_loop fuel_loop fuel_rho ys nn) in
       (match Model.set1_model ifp fuel_f a.(0) with None -> "NONE" | Some l -> zlist l ^ tail ())
     | "s.write" ->
       let (ifp, tail) = threaded (rest 2) (fun ys nn -> Model.primefactor_s isp fuel_loop fuel_loop fuel_loop fuel_rho ys nn) in
       (match Model.write_model ifp fuel_f a.(0) with None -> "NONE" | Some w -> "[" ^ wstring w ^ "]" ^ tail ())
     (* d.factor k n obs: factor() of an object obtained by k copy constructions (and one assignment when k is odd) from a constructed one *)
     | "d.factor" ->
       let k = ZA.to_int (za_of_z a.(0)) in
       let d0 = Model.dom_make a.(0) in
       let d = Model.dom_copies (nat_of_int k) d0 in
       let d = if k land 1 = 1 then Model.dom_assign (Model.dom_copy d0) d else d in
       sz (Model.factor_d d isp (const a.(2)) a.(1))
     | "fermat" -> sz (Model.fermat_model a.(0)) ^ " 1"
     | "pepin" -> if Model.pepin_model a.(0) then "1" else "0"
     | "erat" -> (match Model.erat_model a.(0) with None -> "NONE" | Some l -> zlist l)
     | "s.miller" -> ob (Model.miller_model (rest 2) a.(0))
     | "ipp" -> (match Model.isprimepower_model isp root (nat_of_int 16) fuel_ipp garbage a.(0) with
                 | None -> "NONE" | Some (e, q) -> sz e ^ " " ^ sz q)
     | _ -> "UNKNOWN-OP")
  | _ -> "BAD-LINE")
