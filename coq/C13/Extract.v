(* Extraction of the executable model for the correspondence run (ExtrOcamlBasic only). *)
From Coq Require Import ZArith List.
From Coq Require Extraction.
From Coq Require Import ExtrOcamlBasic.
From C13 Require Import Model.
Extraction Language OCaml.
Cd "ocaml".
Extraction "model.ml" powmod invmod legendre phi mobiusL order isorder is_prim_root lowest_prim_root prim_root
  prim_root_of_prime lambda lambda_inv lambda_inv_primpow lambda_primpow prim_elem prim_inv rns_to_ring logp
  sqrootmodprime sqrootlinear sqroottwolinear hensellift onemorelift twolift sqrootmodpoweroftwo pow2_fuel
  sqrootmodprimepower sqrootmod brillhart sos_nonres sos_det sos_noerh sos_mc probable_prim_root kronecker_sym count_units isprime_td.
Cd "..".
