(* C13 model: number-theoretic functions and modular square roots of givaro, written after the code:
     src/kernel/integer/givintnumtheo.{h,inl}     IntNumTheoDom   (phi, mobius, order, primitive roots, lambda)
     src/kernel/integer/givintsqrootmod.{h,inl}   IntSqrtModDom   (sqrt mod p / p^k / 2^k / n, Brillhart, sums of squares)
     src/kernel/gmp++/gmp++_int_misc.C            logp
     src/kernel/integer/givintrns_{cstor,convert}.inl   RnsToRing (Garner), as used by sqrootmod / prim_base
   Integers are Z; containers are lists; what the code obtains from the factoriser (IntFactorDom::set), from the
   random generator (Integer::nonzerorandom / random) or from the primality test enters as an INPUT of the model
   (factor set, list of draws, candidate) and is constrained only by the guards the code itself applies.
   GMP calls are modelled by their Z-level meaning:  mpz_mod = mod,  mpz_tdiv_q/r = Z.quot/Z.rem,
   mpz_powm = powmod, mpz_invert = invmod, mpz_legendre (odd prime modulus) = Euler's criterion, mpz_sqrt = Z.sqrt,
   mpz_gcd = Z.gcd, mpz_lcm = Z.lcm, shifts of non-negative values = * 2^k and / 2^k.
   Where /repo's code was repaired through frag/C13.fix-*.diff the model follows the REPAIRED code (marked "fix-n").
   No proofs in this file (it must still extract when a proof breaks). *)
From Coq Require Import ZArith Bool List.
Import ListNotations.
Local Open Scope Z_scope.

(* ========================================================================================== *)
(* GMP primitives                                                                             *)

(* mpz_powm for a non-negative exponent and a positive modulus: left-to-right square and multiply *)
Fixpoint powmod_pos (a : Z) (e : positive) (n : Z) : Z :=
  match e with
  | xH => a mod n
  | xO e' => let t := powmod_pos a e' n in (t * t) mod n
  | xI e' => let t := powmod_pos a e' n in (((t * t) mod n) * a) mod n
  end.
Definition powmod (a e n : Z) : Z :=
  match e with Z0 => 1 mod n | Zpos e' => powmod_pos a e' n | Zneg _ => 0 end.

(* mpz_invert: extended Euclid on (n, a mod n), cofactor of a reduced to [0,n) *)
Fixpoint egcd_loop (fuel : nat) (r0 r1 s0 s1 : Z) : Z * Z :=
  match fuel with
  | O => (r0, s0)
  | S f => if r1 =? 0 then (r0, s0)
           else let q := r0 / r1 in egcd_loop f r1 (r0 - q * r1) s1 (s0 - q * s1)
  end.
Definition egcd_fuel (n : Z) : nat := S (Z.to_nat (2 * Z.log2_up n)).
Definition egcd (a n : Z) : Z * Z := egcd_loop (egcd_fuel n) n (a mod n) 0 1.
Definition invmod (a n : Z) : Z := snd (egcd a n) mod n.

(* mpz_legendre(a,p), p an odd prime: Euler's criterion (p = 2: Kronecker symbol (a/2) restricted to what the code uses) *)
Definition legendre (a p : Z) : Z :=
  if a mod p =? 0 then 0
  else let r := powmod a ((p - 1) / 2) p in if r =? 1 then 1 else -1.

Definition log2_fuel (x : Z) : nat := S (Z.to_nat (Z.log2 x)).

(* ========================================================================================== *)
(* givintnumtheo.inl                                                                          *)

(* phi(res, Lf, n):  res = n; for f in Lf: res = divexact(res,f) * (f-1)      (lines 47-55; 34-42 has the same guards) *)
Definition phi_loop (res : Z) (Lf : list Z) : Z := fold_left (fun r f => (r / f) * (f - 1)) Lf res.
Definition phi (n : Z) (Lf : list Z) : Z :=
  if n <=? 1 then n else if n <=? 3 then n - 1 else phi_loop n Lf.

(* mobius(lpow): list of exponents  (lines 67-81) *)
Fixpoint mobius_loop (mob : Z) (l : list Z) : Z :=
  match l with
  | [] => mob
  | e :: tl => if 1 <? e then 0 else mobius_loop (- mob) tl
  end.
Definition mobiusL (lpow : list Z) : Z := match lpow with [] => 1 | _ => mobius_loop 1 lpow end.

(* std::list::sort *)
Fixpoint insert_sorted (x : Z) (l : list Z) : list Z :=
  match l with [] => [x] | y :: tl => if x <=? y then x :: l else y :: insert_sorted x tl end.
Definition sortZ (l : list Z) : list Z := fold_right insert_sorted [] l.

(* while (g mod f == 0 && A^(g/f) == 1 mod n) g = g/f         (order, lines 499-501; prim_root_of_prime 353-356) *)
Fixpoint strip_while (fuel : nat) (A n f g : Z) : Z :=
  match fuel with
  | O => g
  | S k => if (g mod f =? 0) && (powmod A (g / f) n =? 1) then strip_while k A n f (g / f) else g
  end.
Fixpoint strip_all (A n : Z) (fs : list Z) (g : Z) : Z :=
  match fs with
  | [] => g
  | f :: tl => strip_all A n tl (strip_while (log2_fuel g) A n f g)
  end.
(* first loop of order: the first f with A^(phin/f) == 1; g = phin/f; iteration continues FROM that f *)
Fixpoint order_find (A n phin : Z) (fs : list Z) : option (Z * list Z) :=
  match fs with
  | [] => None
  | f :: tl => if powmod A (phin / f) n =? 1 then Some (phin / f, fs) else order_find A n phin tl
  end.
(* order(g, p, n)   Ln = set(n), Lphi = set(phi(n))      (lines 477-507) *)
Definition order (p n : Z) (Ln Lphi : list Z) : Z :=
  let A := p mod n in
  if A =? 0 then 0 else if A =? 1 then 1 else
  let phin := phi n Ln in
  let Lf := sortZ Lphi in
  if Z.gcd A n =? 1 then
    match order_find A n phin Lf with
    | Some (g, rest) => strip_all A n rest g
    | None => phin
    end
  else 0.

(* isorder(g, p, n)  (lines 469-474) *)
Definition isorder (g p n : Z) (Ln Lphi : list Z) : bool :=
  (powmod p g n =? 1) && (g =? order p n Ln Lphi).

(* is_prim_root(p, n)  (lines 447-466) *)
Definition is_prim_root (p n : Z) (Ln Lphi : list Z) : bool :=
  let phin := phi n Ln in
  let A := p mod n in
  if Z.gcd A n =? 1 then forallb (fun f => negb (powmod A (phin / f) n =? 1)) Lphi else false.

(* the candidate test of prim_root / lowest_prim_root: A^q != 1 for every q = phi/f *)
Definition pr_test (A m : Z) (Lq : list Z) : bool := forallb (fun q => negb (powmod A q m =? 1)) Lq.

(* lowest_prim_root(A, n)  (lines 419-444) *)
Fixpoint lpr_loop (fuel : nat) (A n : Z) (Lq : list Z) : Z :=
  match fuel with
  | O => 0
  | S k => if A <=? n then
             if (Z.gcd A n =? 1) && pr_test A n Lq
             then (if A + 1 <=? n then A else 0)     (* the for-increment runs once more before the exit test *)
             else lpr_loop k (A + 1) n Lq
           else 0
  end.
Definition lowest_prim_root (n : Z) (Ln Lphi : list Z) : Z :=
  if n <=? 4 then n - 1 else if n mod 4 =? 0 then 0 else
  let phin := phi n Ln in
  lpr_loop (Z.to_nat n) 2 n (map (fun f => phin / f) Lphi).

(* prim_root(A, runs, n)  (lines 98-185).
   p   : the prime the isprime/sqrt/factor loop (114-127) ends with          (input; factoriser)
   Lp1 : set(phi(p)) = prime divisors of p-1                                 (input; factoriser)
   cand: the value A = random mod (p-7) + 7 the random loop (163-171) ends with (input; constrained by its guards)
   result (A, runs); runs = 0 stands for "not observable" (random loop, or the early returns that leave runs untouched) *)
Fixpoint pr_k (fuel : nat) (q n p k : Z) : option Z :=      (* for(;q != n;++k,q*=p) ;  -- does not terminate if n is not of the shape *)
  match fuel with
  | O => None
  | S f => if q =? n then Some k else pr_k f (q * p) n p (k + 1)
  end.
Definition prim_root (n p : Z) (Lp1 : list Z) (cand : Z) : option (Z * Z) :=
  if n <=? 4 then Some (n - 1, 0) else
  if n mod 4 =? 0 then Some (0, 0) else
  let ismod2 := n mod 2 in
  let no2 := if ismod2 =? 0 then n / 2 else n in
  let q0 := if ismod2 =? 0 then p * 2 else p in
  match pr_k (log2_fuel n) q0 n p 1 with
  | None => None
  | Some k =>
    let phin := phi p [p] in
    let Lq := map (fun f => phin / f) Lp1 in
    let found :=
      if pr_test 2 p Lq then Some (2, 1) else
      if pr_test 3 p Lq then Some (3, 2) else
      if pr_test 5 p Lq then Some (5, 3) else
      if pr_test 6 p Lq then Some (6, 4) else
      if (7 <=? cand) && (cand <? p) && (Z.gcd cand p =? 1) && pr_test cand p Lq then Some (cand, 0) else None in
    match found with
    | None => None
    | Some (A, runs) =>
      if k =? 1 then
        if (ismod2 =? 0) && (A mod 2 =? 0) then Some (A + p, runs) else Some (A, runs)
      else
        (* is_prim_root(A,no2): set(no2) = [p], set(phi(no2)) = p and the primes of p-1 *)
        let A1 := if is_prim_root A no2 [p] (p :: Lp1) then A else A + p in
        if (ismod2 =? 0) && (A1 mod 2 =? 0) then Some (A1 + no2, runs) else Some (A1, runs)
    end
  end.

(* IntPrimeDom::nextprimein on the small primes prim_root_of_prime walks through: trial division *)
Fixpoint td_loop (fuel : nat) (n d : Z) : bool :=
  match fuel with
  | O => true
  | S f => if n <? d * d then true else if n mod d =? 0 then false else td_loop f n (d + 1)
  end.
Definition isprime_td (n : Z) : bool := if n <? 2 then false else td_loop (Z.to_nat (Z.sqrt n)) n 2.
Fixpoint nextprime_loop (fuel : nat) (c : Z) : Z :=
  match fuel with O => c | S f => if isprime_td c then c else nextprime_loop f (c + 1) end.
Definition nextprime (n : Z) : Z := nextprime_loop (Z.to_nat n + 2) (n + 1).

(* ppin(res, prime): while (res mod prime == 0) res = res / prime   (lines 319-326) *)
Fixpoint ppin (fuel : nat) (res prime : Z) : Z :=
  match fuel with O => res | S f => if res mod prime =? 0 then ppin f (res / prime) prime else res end.

(* prim_root_of_prime(A, Lf, phin, n)  (lines 333-414) *)
(* inner loop of the first phase, one prime: state (primeorder, newLf, oldLf, exemp) *)
Fixpoint prp_first_inner (prime n : Z) (fs : list Z) (st : Z * list Z * list Z * bool) : Z * list Z * list Z * bool :=
  match fs with
  | [] => st
  | f :: tl =>
    let '(primeorder, newLf, oldLf, exemp) := st in
    let expo := primeorder / f in
    if powmod prime expo n =? 1
    then let expo' := strip_while (log2_fuel expo) prime n f expo in
         prp_first_inner prime n tl (expo', newLf ++ [f], oldLf, exemp)
    else prp_first_inner prime n tl (primeorder, newLf, oldLf ++ [f], false)
  end.
(* for(bool exemp = true; exemp; nextprimein(prime)); fix-4: newLf / oldLf are emptied at the top of every iteration *)
Fixpoint prp_first (fuel : nat) (prime n phin : Z) (Lf newLf oldLf : list Z) : option (Z * Z * Z * list Z) :=
  match fuel with
  | O => None
  | S k =>
    let '(primeorder, newLf', oldLf', exemp) := prp_first_inner prime n Lf (phin, [], [], true) in
    if exemp then prp_first k (nextprime prime) n phin Lf newLf' oldLf'
    else Some (prime, nextprime prime, primeorder, newLf')          (* A, next prime, order of A, new Lf *)
  end.
(* for ( ; Aorder < phin; nextprimein(prime) ) *)
Fixpoint prp_second (fuel : nat) (A Aorder prime n phin : Z) (Lf : list Z) : option Z :=
  match fuel with
  | O => None
  | S k =>
    if Aorder <? phin then
      let newLf := filter (fun f => powmod prime (phin / f) n =? 1) Lf in
      let oldLf := filter (fun f => negb (powmod prime (phin / f) n =? 1)) Lf in
      match oldLf with
      | [] => prp_second k A Aorder (nextprime prime) n phin Lf
      | _ =>
        let g := fold_left (fun g f => ppin (log2_fuel g) g f) oldLf phin in
        let Ao := fold_left (fun g f => ppin (log2_fuel g) g f) oldLf Aorder in
        let tmp := powmod prime g n in
        prp_second k ((A * tmp) mod n) (Ao * (phin / g)) (nextprime prime) n phin newLf
      end
    else Some A
  end.
Definition prim_root_of_prime (n : Z) (Lf : list Z) : option Z :=
  let phin := n - 1 in
  if phin =? 1 then Some 1 else     (* fix-6: n = 2 *)
  match prp_first 200 2 n phin Lf [] [] with
  | None => None
  | Some (A, prime, Aorder, Lf') => prp_second 200 A Aorder prime n phin Lf'
  end.

(* lambda_inv_primpow / lambda_primpow  (lines 560-588); dom_power = Z.pow *)
Definition lambda_inv_primpow (p e : Z) : Z :=
  if p =? 2 then (if e <=? 2 then e else if e =? 3 then 2 else 2 ^ (e - 2))
  else p ^ (e - 1) * (p - 1).
Definition lambda_primpow (p e : Z) : Z :=
  if p =? 2 then (if e <=? 3 then e else 2 ^ (e - 2))
  else p ^ (e - 1) * (p - 1).
(* lambda_base(z, m): factors = set(Lp, Le, m)  (lines 617-640) *)
Definition lambda_base (factors : list (Z * Z)) : Z :=
  match factors with
  | [] => 0                                                   (* Lp.front() of an empty vector: outside the domain *)
  | (p, e) :: tl => fold_left (fun z pe => Z.lcm z (lambda_inv_primpow (fst pe) (snd pe))) tl (lambda_inv_primpow p e)
  end.
Definition lambda_inv (m : Z) (factors : list (Z * Z)) : Z :=
  if m =? 2 then 1 else if (m =? 3) || (m =? 4) || (m =? 8) then 2 else lambda_base factors.
(* 01ad5d5 (fix-8): lambda / prim_elem = maximal orbit size over ALL elements / an element reaching it.
   for (mask = 0; mask < 2^nbf; ++mask) { tail = max_{i in mask} (e_i - 1); cyc = lcm_{i not in mask} lambda_inv_primpow(p_i, e_i);
                                          cyc += tail; if (cyc > best) { best = cyc; bestmask = mask; } }
   bit i of mask <-> factor i *)
Fixpoint mask_eval (factors : list (Z * Z)) (mask : Z) : Z * Z :=          (* (tail, cyc) *)
  match factors with
  | [] => (0, 1)
  | (p, e) :: tl =>
    let '(tail, cyc) := mask_eval tl (mask / 2) in
    if Z.odd mask then (Z.max tail (e - 1), cyc) else (tail, Z.lcm cyc (lambda_inv_primpow p e))
  end.
Fixpoint best_mask (n : nat) (mask : Z) (factors : list (Z * Z)) (best bestmask : Z) : Z * Z :=
  match n with
  | O => (best, bestmask)
  | S k => let '(tail, cyc) := mask_eval factors mask in
           let cand := cyc + tail in
           if best <? cand then best_mask k (mask + 1) factors cand mask else best_mask k (mask + 1) factors best bestmask
  end.
Definition orbit_best (factors : list (Z * Z)) : Z * Z := best_mask (Nat.pow 2 (length factors)) 0 factors 0 0.
Definition lambda (m : Z) (factors : list (Z * Z)) : Z :=
  if m =? 2 then 1 else if (m =? 3) || (m =? 4) then 2 else if m =? 8 then 3 else fst (orbit_best factors).

(* IntRNSsystem::RnsToRing = RnsToMixedRadix (Garner, Horner form) + MixedRadixToRing.
   done = [(p_{i-1}, m_{i-1}); ...; (p_0, m_0)];  m_0 = residu[0] mod p_0 (since b08bb0c) *)
Definition horner (pi : Z) (done : list (Z * Z)) : Z :=
  match done with
  | [] => 0
  | (_, m) :: tl => fold_left (fun tmp pm => (tmp * fst pm + snd pm) mod pi) tl m
  end.
Definition ckprod (pk : Z) (prev : list Z) : Z :=          (* prev = [p_0; ...; p_{k-1}] *)
  match prev with
  | [] => 1
  | p0 :: tl => fold_left (fun prod pi => (prod * pi) mod pk) tl p0
  end.
Fixpoint mr_loop (done : list (Z * Z)) (todo : list (Z * Z)) : list (Z * Z) :=
  match todo with
  | [] => done
  | (pi, ri) :: tl =>
    let tmp := horner pi done in
    let ck := invmod (ckprod pi (rev (map fst done))) pi in
    mr_loop ((pi, ((ri - tmp) * ck) mod pi) :: done) tl
  end.
Definition rns_to_ring (primes residues : list Z) : Z :=
  match primes, residues with
  | p0 :: ps, r0 :: rs =>
    match mr_loop [(p0, r0 mod p0)] (combine ps rs) with      (* b08bb0c: mixrad[0] = residu[0] is reduced like the others *)
    | [] => 0
    | (_, m) :: tl => fold_left (fun res pm => res * fst pm + snd pm) tl m
    end
  | _, _ => 0
  end.

(* prim_elem / prim_inv / prim_base  (lines 510-556).  factors = set(Lp,Le,m); roots: for each odd prime power the value
   prim_root(p^e) returned (input, its own model is prim_root above); 2^e contributes 3 *)
Definition prim_base (factors : list (Z * Z)) (roots : list Z) : Z :=
  let Pe := map (fun pe => fst pe ^ snd pe) factors in
  let Ra := map (fun pr => if fst (fst pr) =? 2 then 3 else snd pr) (combine factors roots) in
  rns_to_ring Pe Ra.
Fixpoint mask_residues (factors : list (Z * Z)) (roots : list Z) (mask : Z) : list Z :=
  match factors, roots with
  | (p, e) :: tl, r :: rtl =>
    (if Z.odd mask then p else if p =? 2 then (if e =? 1 then 1 else 3) else r) :: mask_residues tl rtl (mask / 2)
  | _, _ => []
  end.
Definition prim_elem (n : Z) (factors : list (Z * Z)) (roots : list Z) : Z :=
  if n <=? 4 then n - 1 else if n =? 8 then 2 else
  let bestmask := snd (orbit_best factors) in
  if bestmask =? 0 then prim_base factors roots
  else rns_to_ring (map (fun pe => fst pe ^ snd pe) factors) (mask_residues factors roots bestmask).
Definition prim_inv (n : Z) (factors : list (Z * Z)) (roots : list Z) : Z :=
  if n <=? 4 then n - 1 else if n =? 8 then 3 else prim_base factors roots.

(* ========================================================================================== *)
(* gmp++_int_misc.C : logp(a, p)                                                              *)
Fixpoint logp_up (fuel : nat) (puiss a : Z) (pows : list Z) : list Z :=     (* pows: most recent first *)
  match fuel with
  | O => puiss :: pows
  | S f => let pows' := puiss :: pows in
           let p2 := puiss * puiss in
           if p2 <=? a then logp_up f p2 a pows' else pows'
  end.
Fixpoint logp_down (pows : list Z) (puiss a res : Z) : Z :=
  match pows with
  | [] => res
  | back :: tl => let sq := puiss * back in
                  if sq <=? a then logp_down tl sq a (res + 2 ^ Z.of_nat (length tl))
                  else logp_down tl puiss a res
  end.
Definition logp (a p : Z) : Z :=
  if a <? p then 0 else             (* fix-5 *)
  match logp_up (log2_fuel a) p a [] with
  | [] => 0
  | top :: rest => logp_down rest top a (2 ^ Z.of_nat (length rest))
  end.

(* ========================================================================================== *)
(* givintsqrootmod.inl                                                                        *)

(* the first draw accepted by a `while (guard(random))` loop *)
Fixpoint pick (ok : Z -> bool) (draws : list Z) : option Z :=
  match draws with
  | [] => None
  | d :: tl => if ok d then Some d else pick ok tl
  end.

(* for( ; (q & 1) == 0; ++e) q >>= 1 *)
Fixpoint split2 (fuel : nat) (q e : Z) : Z * Z :=
  match fuel with
  | O => (q, e)
  | S f => if Z.even q then split2 f (q / 2) (e + 1) else (q, e)
  end.

(* S. Mueller, p = 9 mod 16  (lines 108-122) *)
Definition mueller (amp p : Z) (draws : list Z) : option Z :=
  let i := amp * 2 in
  let x0 := powmod i ((p - 1) / 4) p in
  let s := if x0 =? 1 then 1 else -1 in
  match pick (fun d => negb (legendre d p =? s)) draws with
  | None => None
  | Some d =>
    let i1 := i * d * d in
    let x1 := powmod i1 ((p - 9) / 16) p in
    let i2 := Z.rem (Z.rem (i1 * x1) p * x1) p in
    let i3 := i2 - 1 in
    let x2 := Z.rem (x1 * d) p in
    let x3 := Z.rem (x2 * i3) p in
    Some (Z.rem (x3 * amp) p)
  end.

(* Tonelli-Shanks  (lines 127-166) *)
Fixpoint b2k_loop (fuel : nat) (b2k p m : Z) : Z :=          (* for(m = 0; b2k != 1; ++m) b2k = b2k^2 % p; capped at r *)
  match fuel with
  | O => m
  | S f => if b2k =? 1 then m else b2k_loop f (Z.rem (b2k * b2k) p) p (m + 1)
  end.
(* Integer::operator<<=(int64_t) (mpz_mul_2exp): exact for EVERY shift count, no machine word involved.
   `puis = 1; puis <<= lpuis;` below shifts the multi-precision 1; lpuis >= 64 happens as soon as 2^66 | p - 1 *)
Definition shl (x k : Z) : Z := x * 2 ^ k.
Fixpoint ts_loop (fuel : nat) (p x b y r : Z) : Z :=
  match fuel with
  | O => -1                                  (* fuel exhausted: reported like a failure (never happens for a prime p: r decreases) *)
  | S f =>
    if b =? 1 then x else
    let m := b2k_loop (Z.to_nat r) b p 0 in
    if m =? r then -1 else
    let lpuis := r - m - 1 in
    let puis := shl 1 lpuis in
    let t := powmod y puis p in
    let y' := Z.rem (t * t) p in
    ts_loop f p (Z.rem (x * t) p) (Z.rem (b * y') p) y' m
  end.
Definition tonelli (amp p : Z) (draws : list Z) : option Z :=
  let p1 := p - 1 in
  let '(q, e) := split2 (log2_fuel p1) p1 0 in
  match pick (fun g => legendre g p =? -1) draws with
  | None => None
  | Some g =>
    let z := powmod g q p in
    let x0 := powmod amp ((q - 1) / 2) p in
    let b := Z.rem (x0 * x0 * amp) p in
    let x := Z.rem (x0 * amp) p in
    Some (ts_loop (S (Z.to_nat e)) p x b z e)
  end.

(* sqrootmodprime(x, a, p)  (lines 68-167); -1 = "not a quadratic residue" *)
Definition sqrootmodprime (a p : Z) (draws : list Z) : option Z :=
  let amp := a mod p in
  if (amp =? 0) || (amp =? 1) then Some amp else
  if legendre amp p =? -1 then Some (-1) else
  if p mod 4 =? 3 then Some (powmod amp ((p + 1) / 4) p) else
  if p mod 8 =? 5 then
    let tmp := powmod amp ((p - 1) / 4) p in
    if tmp =? 1 then Some (powmod amp ((p + 3) / 8) p)
    else let x := powmod (amp * 4) ((p - 5) / 8) p in Some (Z.rem ((x * amp) * 2) p)
  else if p mod 16 =? 9 then mueller amp p draws
  else tonelli amp p draws.

(* liftings (lines 359-428) *)
Definition hensellift (x a pk : Z) : Z :=
  let u := a - x * x in
  if u =? 0 then x else
  let u1 := Z.quot u pk in
  let h := invmod (x * 2) pk in
  x + Z.rem (h * u1) pk * pk.
Definition onemorelift (x0 a p pk : Z) : Z :=
  let u := Z.rem (Z.quot (a - x0 * x0) pk) p in
  if u =? 0 then x0 else
  let h := invmod (x0 * 2) p in
  x0 + Z.rem (h * u) p * pk.
Definition twolift (x a pk : Z) : Z :=
  let pk1 := pk / 2 in
  let u := Z.rem (Z.quot (a - x * x) pk) pk1 in
  if u =? 0 then x else
  let h := invmod x pk1 in
  x + Z.rem (h * u) pk1 * pk1.

(* sqrootlinear(x, a, p, k)  (lines 323-335); fix-1: a non-residue is returned as -1 instead of being lifted *)
Fixpoint linear_loop (n : nat) (x a p pk : Z) : Z :=
  match n with O => x | S m => linear_loop m (onemorelift x a p pk) a p (pk * p) end.
Definition sqrootlinear (a p k : Z) (draws : list Z) : option Z :=
  match sqrootmodprime a p draws with
  | None => None
  | Some x => if x =? -1 then Some x else Some (linear_loop (Z.to_nat (k - 1)) x a p p)
  end.

(* sqrootmodpoweroftwo, first cases k = 1,2,3  (lines 239-256) *)
Definition pow2_k123 (tmpa k : Z) : Z :=
  if k =? 1 then tmpa else
  if k =? 2 then (if tmpa =? 0 then 0 else if tmpa =? 1 then 1 else -1)
  else (if tmpa =? 0 then 0 else if tmpa =? 1 then 1 else if tmpa =? 4 then 2 else -1).

(* sqroottwolinear(x, a, k)  (lines 337-356) *)
Fixpoint twolinear_loop (n : nat) (x a pk pk2 : Z) : Z :=
  match n with
  | O => x
  | S m => let x' := if negb (Z.rem (x * x) pk =? Z.rem a pk) then x + pk2 else x in
           twolinear_loop m x' a (pk * 2) (pk / 2)
  end.
Definition sqroottwolinear (a k : Z) : Z :=
  let x := pow2_k123 (a mod 8) 3 in
  if (x =? -1) || (k <? 4) then x else twolinear_loop (Z.to_nat (k - 3)) x a 16 4.

(* sqrootmodpoweroftwo(x, a, k, pk)  (lines 231-321).
   fix-1: the root of the odd part is tested for -1;  fix-2: sqroottwolinear receives the reduced tmpa *)
Fixpoint sqrootmodpoweroftwo (fuel : nat) (a k pk : Z) : Z :=
  match fuel with
  | O => -1                                  (* fuel exhausted (pow2_fuel k suffices: k halves) *)
  | S f =>
    let tmpa := a mod pk in
    if (k =? 1) || (k =? 2) || (k =? 3) then pow2_k123 tmpa k else
    if tmpa =? 0 then 0 else if tmpa =? 1 then 1 else
    if Z.even tmpa then
      let '(b, t) := split2 (log2_fuel tmpa) tmpa 0 in
      if Z.even t then
        let x := sqrootmodpoweroftwo f b k pk in
        if x =? -1 then x else Z.rem (x * 2 ^ (t / 2)) pk
      else -1
    else if k <? 29 then sqroottwolinear tmpa k
    else
      let kk := k / 2 + 1 in
      let spk := 2 * 2 ^ (k / 2) in
      let x := sqrootmodpoweroftwo f tmpa kk spk in
      if x =? -1 then x else
      let x1 := twolift x tmpa spk in
      if Z.even k then x1 else
      if x1 =? -1 then x1 else
      let u := Z.rem (tmpa - x1 * x1) pk in
      if u =? 0 then x1 else x1 + pk / 4
  end.
Definition pow2_fuel (k : Z) : nat := (2 * log2_fuel k + 4)%nat.

(* for( ; (b%p) == 0; ++t) b/=p; *)
Fixpoint strip_p (fuel : nat) (b p t : Z) : Z * Z :=
  match fuel with
  | O => (b, t)
  | S f => if Z.rem b p =? 0 then strip_p f (Z.quot b p) p (t + 1) else (b, t)
  end.

(* sqrootmodprimepower(x, a, p, k, pk)  (lines 169-229); fix-1: sqrtb == -1 is propagated *)
Fixpoint sqrootmodprimepower (fuel : nat) (a p k pk : Z) (draws : list Z) : option Z :=
  match fuel with
  | O => None
  | S f =>
    let tmpa := a mod pk in
    if tmpa =? 0 then Some 0 else if tmpa =? 1 then Some 1 else
    if k =? 1 then sqrootmodprime tmpa p draws else
    if Z.rem tmpa p =? 0 then
      let '(b, t) := strip_p (log2_fuel tmpa) tmpa p 0 in
      if Z.even t then
        match sqrootmodprimepower f b p k pk draws with
        | None => None
        | Some sqrtb => if sqrtb =? -1 then Some (-1) else Some (Z.rem (powmod p (t / 2) pk * sqrtb) pk)
        end
      else Some (-1)
    else if k <? 3 then sqrootlinear a p k draws
    else
      let kd := k / 2 in
      let sq := p ^ kd in
      match sqrootmodprimepower f a p kd sq draws with
      | None => None
      | Some x =>
        if x =? -1 then Some x else
        let x1 := hensellift x a sq in
        if Z.odd k then
          if x1 =? -1 then Some x1 else Some (onemorelift x1 a p (Z.quot pk p))
        else Some x1
      end
  end.

(* sqrootmod(x, a, n)  (lines 23-63); factors = set(Lf, Le, n); fix-1: a component -1 gives -1 *)
Fixpoint roots_of (a : Z) (factors : list (Z * Z)) (draws : list Z) : option (list Z) :=
  match factors with
  | [] => Some []
  | (p, e) :: tl =>
    let pe := p ^ e in
    let r := if p =? 2 then Some (sqrootmodpoweroftwo (pow2_fuel e) a e pe)
             else sqrootmodprimepower (pow2_fuel e) a p e pe draws in
    match r, roots_of a tl draws with
    | Some x, Some l => Some (x :: l)
    | _, _ => None
    end
  end.
Definition sqrootmod (a n : Z) (factors : list (Z * Z)) (draws : list Z) : option Z :=
  match roots_of a factors draws with
  | None => None
  | Some roots =>
    if existsb (fun x => x =? -1) roots then Some (-1) else
    let Pe := map (fun pe => fst pe ^ snd pe) factors in
    Some (Z.abs (rns_to_ring Pe roots))
  end.

(* Brillhart(a, b, p)  (lines 435-462) *)
Fixpoint brill_loop (fuel : nat) (a b s : Z) : Z * Z :=     (* while (a > s) { r = b; b = a; a = r mod b; } *)
  match fuel with
  | O => (a, b)
  | S f => if s <? a then brill_loop f (b mod a) a s else (a, b)
  end.
Definition brillhart (p : Z) (draws : list Z) : option (Z * Z) :=
  match sqrootmodprime (p - 1) p draws with
  | None => None
  | Some x =>
    let s := Z.sqrt p in
    let b := if p / 2 <? x then p - x else x in
    let a := p mod b in
    if a =? 1 then Some (a, b) else
    let '(a1, b1) := brill_loop (2 * log2_fuel p) a b s in
    Some (b1 mod a1, a1)
  end.

(* sumofsquaresmodprimewithnonresidue(a, b, k, s, p)  (lines 555-576) *)
Definition sos_nonres (k s p : Z) (draws : list Z) : option (Z * Z) :=
  match sqrootmodprime (s - 1) p draws with
  | None => None
  | Some b0 =>
    let r := (k * invmod s p) mod p in
    match sqrootmodprime r p draws with
    | None => None
    | Some a => Some (a, Z.rem (b0 * a) p)
    end
  end.
(* for( ; legendre(lsnqr,p) != -1; ++lsnqr); *)
Fixpoint least_nonres (fuel : nat) (c p : Z) : Z :=
  match fuel with O => c | S f => if legendre c p =? -1 then c else least_nonres f (c + 1) p end.
(* sumofsquaresmodprimeDeterministic (= sumofsquaresmodprime)  (lines 482-516) *)
Definition sos_det (k p : Z) (draws : list Z) : option (Z * Z) :=
  let r := k mod p in
  if r =? 0 then Some (0, 0) else
  if legendre r p =? 1 then
    match sqrootmodprime r p draws with None => None | Some a => Some (a, 0) end
  else
    let s := r - 1 in
    if legendre s p =? 1 then
      match sqrootmodprime s p draws with None => None | Some b => Some (1, b) end
    else sos_nonres r (least_nonres (Z.to_nat (4 * Z.log2 p * Z.log2 p + 10)) 2 p) p draws.
(* sumofsquaresmodprimeNoERH  (lines 579-622).  rprime: the prime the loop `while(!isprime(r)) r += 4p` stops at
   (input; primality test), constrained by r = start (mod 4p), r >= start *)
Definition noerh_start (k p : Z) : Z :=
  let r0 := p mod 4 in
  let c := if r0 =? 1 then r0 - Z.rem k 4 else r0 + Z.rem k 4 in
  c * p + k.
Definition sos_noerh (k p rprime : Z) (draws : list Z) : option (Z * Z) :=
  let r := k mod p in
  if r =? 0 then Some (0, 0) else
  let ab :=
    if legendre r p =? 1 then
      match sqrootmodprime r p draws with None => None | Some a => Some (a, 0) end
    else
      let start := noerh_start k p in
      if ((rprime - start) mod (4 * p) =? 0) && (start <=? rprime) then brillhart rprime draws else None in
  match ab with
  | None => None
  | Some (a, b) =>
    let a1 := a mod p in let b1 := b mod p in
    let half := p / 2 in
    Some (if half <? a1 then p - a1 else a1, if half <? b1 then p - b1 else b1)
  end.

(* sumofsquaresmodprimeMonteCarlo  (lines 518-553).  draws_s: the values nonzerorandom(s, p.bitsize()) of the loop at 540-542 *)
Fixpoint mc_down (fuel : nat) (t p : Z) : Z :=               (* for(--t ; legendre(t,p) == -1; --t); *)
  match fuel with O => t | S f => if legendre t p =? -1 then mc_down f (t - 1) p else t end.
Definition sos_mc (k p : Z) (draws_s draws : list Z) : option (Z * Z) :=
  let r := k mod p in
  if r =? 0 then Some (0, 0) else
  if legendre r p =? 1 then
    match sqrootmodprime r p draws with None => None | Some a => Some (a, 0) end
  else
    let s := r - 1 in
    if legendre s p =? 1 then
      match sqrootmodprime s p draws with None => None | Some b => Some (1, b) end
    else
      match pick (fun s => legendre s p =? -1) draws_s with
      | None => None
      | Some s0 => let t := mc_down (Z.to_nat (4 * Z.log2 p * Z.log2 p + 10)) (s0 - 1) p in
                   sos_nonres r (t + 1) p draws
      end.

(* probable_prim_root(primroot, error, p, L) when the factorisation of p-1 is complete  (lines 201-262).
   draws: the values nonzerorandom(alea, p); every loop `do ... while (essai == 1)` consumes draws until alea^((p-1)/q) != 1 *)
Fixpoint ppr_pick (Temp p : Z) (draws : list Z) : option (Z * list Z) :=
  match draws with
  | [] => None
  | d :: tl => let alea := d mod p in if powmod alea Temp p =? 1 then ppr_pick Temp p tl else Some (alea, tl)
  end.
Fixpoint ppr_loop (p pmun primroot : Z) (factors : list (Z * Z)) (draws : list Z) : option Z :=
  match factors with
  | [] => Some (primroot mod p)
  | (q, e) :: tl =>
    match ppr_pick (pmun / q) p draws with
    | None => None
    | Some (alea, draws') =>
      let Temp := (pmun / q) / q ^ (e - 1) in
      ppr_loop p pmun (primroot * powmod alea Temp p) tl draws'
    end
  end.
Definition probable_prim_root (p : Z) (factors : list (Z * Z)) (draws : list Z) : option Z :=
  ppr_loop p (p - 1) 1 factors draws.

(* ========================================================================================== *)
(* gmp++_int_misc.C : jacobi / legendre / kronecker are single calls of mpz_jacobi / mpz_legendre / mpz_kronecker,
   which all compute the Kronecker symbol: binary Jacobi algorithm + the extension to even / negative / zero b *)
Fixpoint jacobi_loop (fuel : nat) (a n t : Z) : Z :=          (* n odd positive, 0 <= a < n *)
  match fuel with
  | O => 0
  | S f =>
    if a =? 0 then (if n =? 1 then t else 0) else
    let '(a', e) := split2 (log2_fuel a) a 0 in
    let t1 := if Z.odd e && ((n mod 8 =? 3) || (n mod 8 =? 5)) then - t else t in
    let t2 := if (a' mod 4 =? 3) && (n mod 4 =? 3) then - t1 else t1 in
    jacobi_loop f (n mod a') a' t2
  end.
Definition jacobi_sym (a n : Z) : Z := jacobi_loop (2 * log2_fuel n + 2) (a mod n) n 1.
Definition kronecker_sym (a b : Z) : Z :=
  if b =? 0 then (if Z.abs a =? 1 then 1 else 0) else
  if Z.even a && Z.even b then 0 else
  let t0 := if (b <? 0) && (a <? 0) then -1 else 1 in
  let '(b', v) := split2 (log2_fuel (Z.abs b)) (Z.abs b) 0 in
  let t1 := if Z.odd v && ((a mod 8 =? 3) || (a mod 8 =? 5)) then - t0 else t0 in
  t1 * jacobi_sym a b'.

(* ========================================================================================== *)
(* definitions the finite sweeps compare with (used by the proofs and by the driver's self-check) *)
Definition count_units (n : Z) : Z :=
  Z.of_nat (length (filter (fun a => Z.gcd a n =? 1) (map Z.of_nat (seq 1 (Z.to_nat n))))).
