(* C13 proofs, part 13: in-place calls.  The model functions are three-address (values in, value out).  For the driver
   sqrootmod(x, a, n) the code is modelled once more at the level of LOCATIONS: the caller may pass the same object for the
   output x and the input a (`alias`), and the body may use either a local (`Rep tmp`, the code as it is) or the output x
   itself as the scratch object that receives each per-prime-power root.  A write to x is a write to a when they alias. *)
From Coq Require Import ZArith Bool List Lia.
From C13 Require Import Model.
Import ListNotations.
Local Open Scope Z_scope.

(* the loop "roots mod powers of primes" with the current value of the object a threaded through *)
Fixpoint roots_loc (scratch_is_x alias : bool) (a : Z) (factors : list (Z * Z)) (draws : list Z) : option (list Z) :=
  match factors with
  | [] => Some []
  | (p, e) :: tl =>
    let pe := p ^ e in
    let r := if p =? 2 then Some (sqrootmodpoweroftwo (pow2_fuel e) a e pe)
             else sqrootmodprimepower (pow2_fuel e) a p e pe draws in
    match r with
    | None => None
    | Some x =>
      let a' := if scratch_is_x && alias then x else a in       (* the root was written into x, which IS a *)
      match roots_loc scratch_is_x alias a' tl draws with
      | Some l => Some (x :: l)
      | None => None
      end
    end
  end.
Definition sqrootmod_loc (scratch_is_x alias : bool) (a n : Z) (factors : list (Z * Z)) (draws : list Z) : option Z :=
  match roots_loc scratch_is_x alias a factors draws with
  | None => None
  | Some roots =>
    if existsb (fun x => x =? -1) roots then Some (-1) else
    let Pe := map (fun pe => fst pe ^ snd pe) factors in
    Some (Z.abs (rns_to_ring Pe roots))
  end.

Lemma roots_loc_tmp alias : forall factors a draws, roots_loc false alias a factors draws = roots_of a factors draws.
Proof.
  induction factors as [|[p e] tl IH]; intros a draws; cbn [roots_loc roots_of]; [reflexivity|].
  cbn [andb]. rewrite IH.
  destruct (if p =? 2 then Some (sqrootmodpoweroftwo (pow2_fuel e) a e (p ^ e)) else sqrootmodprimepower (pow2_fuel e) a p e (p ^ e) draws) as [x|];
    [|reflexivity].
  destruct (roots_of a tl draws); reflexivity.
Qed.
(* the code as it is (scratch = the local tmp; x is written once, after the last read of a):
   the in-place call sqrootmod(y, y, n) IS the three-address call, for every input *)
Definition Sqrootmod_inplace_stmt := forall alias a n factors draws,
  sqrootmod_loc false alias a n factors draws = sqrootmod a n factors draws.
Lemma sqrootmod_inplace : Sqrootmod_inplace_stmt.
Proof. intros alias a n factors draws. unfold sqrootmod_loc, sqrootmod. rewrite roots_loc_tmp. reflexivity. Qed.
(* with distinct objects the body that uses x as scratch computes the same value ... *)
Definition Sqrootmod_scratch_distinct_stmt := forall a n factors draws,
  sqrootmod_loc true false a n factors draws = sqrootmod a n factors draws.
Lemma sqrootmod_scratch_distinct : Sqrootmod_scratch_distinct_stmt.
Proof.
  intros a n factors draws. unfold sqrootmod_loc, sqrootmod.
  assert (H : forall factors a, roots_loc true false a factors draws = roots_of a factors draws).
  { induction factors0 as [|[p e] tl IH]; intros a0; cbn [roots_loc roots_of]; [reflexivity|]. cbn [andb]. rewrite IH.
    destruct (if p =? 2 then _ else _) as [x|]; [|reflexivity]. destruct (roots_of a0 tl draws); reflexivity. }
  rewrite H. reflexivity.
Qed.
(* ... but in place it does not: sqrootmod(y, y, 10) with y = 4 returns 0 (the root 0 of 4 modulo 2 overwrites a before 5 is
   treated), and the non-residue 2 modulo 6 is answered 0 instead of -1 *)
Definition Sqrootmod_scratch_inplace_refuted_stmt :=
  sqrootmod_loc true true 4 10 [(2, 1); (5, 1)] [] = Some 0 /\ sqrootmod 4 10 [(2, 1); (5, 1)] [] = Some 8 /\
  sqrootmod_loc true true 2 6 [(2, 1); (3, 1)] [] = Some 0 /\ sqrootmod 2 6 [(2, 1); (3, 1)] [] = Some (-1).
Lemma sqrootmod_scratch_inplace_refuted : Sqrootmod_scratch_inplace_refuted_stmt.
Proof. repeat split; vm_compute; reflexivity. Qed.
