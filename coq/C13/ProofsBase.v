(* C13 proofs, part 1: congruences as a setoid, specification of the modelled GMP primitives. *)
From Coq Require Import ZArith Znumtheory Bool List Lia Morphisms Setoid.
From C13 Require Import Model.
Import ListNotations.
Local Open Scope Z_scope.
Ltac Zify.zify_post_hook ::= Z.div_mod_to_equations.

(* a = b (mod n) *)
Definition cong (n a b : Z) : Prop := (n | a - b).

Lemma cong_refl n a : cong n a a.
Proof. exists 0. ring. Qed.
Lemma cong_sym n a b : cong n a b -> cong n b a.
Proof. intros [k H]. exists (- k). lia. Qed.
Lemma cong_trans n a b c : cong n a b -> cong n b c -> cong n a c.
Proof. intros [k H] [l H']. exists (k + l). lia. Qed.

#[global] Instance cong_equiv n : Equivalence (cong n).
Proof. split; [exact (cong_refl n) | exact (cong_sym n) | exact (cong_trans n)]. Qed.

#[global] Instance cong_add n : Proper (cong n ==> cong n ==> cong n) Z.add.
Proof. intros a b [k H] c d [l H']. exists (k + l). lia. Qed.
#[global] Instance cong_sub n : Proper (cong n ==> cong n ==> cong n) Z.sub.
Proof. intros a b [k H] c d [l H']. exists (k - l). lia. Qed.
#[global] Instance cong_opp n : Proper (cong n ==> cong n) Z.opp.
Proof. intros a b [k H]. exists (- k). lia. Qed.
#[global] Instance cong_mul n : Proper (cong n ==> cong n ==> cong n) Z.mul.
Proof.
  intros a b [k H] c d [l H']. exists (k * c + b * l).
  replace (a * c - b * d) with ((a - b) * c + b * (c - d)) by ring. rewrite H, H'. ring.
Qed.

Lemma cong_pow_nat n a b (e : nat) : cong n a b -> cong n (a ^ Z.of_nat e) (b ^ Z.of_nat e).
Proof.
  intros H. induction e as [|e IH].
  - reflexivity.
  - rewrite Nat2Z.inj_succ, !Z.pow_succ_r by lia. apply cong_mul; assumption.
Qed.
#[global] Instance cong_pow n : Proper (cong n ==> eq ==> cong n) Z.pow.
Proof.
  intros a b H e e' <-. destruct (Z.neg_nonneg_cases e) as [Hn|Hp].
  - rewrite !Z.pow_neg_r by lia. reflexivity.
  - rewrite <- (Z2Nat.id e Hp). apply cong_pow_nat, H.
Qed.

Lemma cong_mod n a : cong n (a mod n) a.
Proof. destruct (Z.eq_dec n 0) as [->|Hn]. - rewrite Zmod_0_r. reflexivity. - exists (- (a / n)). pose proof (Z.div_mod a n Hn). lia. Qed.
Lemma cong_rem n a : cong n (Z.rem a n) a.
Proof.
  destruct (Z.eq_dec n 0) as [->|Hn].
  - rewrite Z.rem_0_r_ext by reflexivity. reflexivity.
  - exists (- (Z.quot a n)). pose proof (Z.quot_rem' a n). lia.
Qed.
Lemma cong_self n : cong n n 0.
Proof. exists 1. ring. Qed.
Lemma cong_mult_l n k : cong n (k * n) 0.
Proof. exists k. ring. Qed.
Lemma cong_0_divide n a : cong n a 0 <-> (n | a).
Proof. unfold cong. rewrite Z.sub_0_r. tauto. Qed.
Lemma cong_weaken n m a b : (m | n) -> cong n a b -> cong m a b.
Proof. intros H1 H2. exact (Z.divide_trans _ _ _ H1 H2). Qed.
Lemma cong_eq_small n a b : 0 <= a < n -> 0 <= b < n -> cong n a b -> a = b.
Proof. intros Ha Hb [k H]. assert (k = 0) by nia. lia. Qed.
Lemma cong_mod_eq n a b : 0 < n -> (cong n a b <-> a mod n = b mod n).
Proof.
  intros Hn. split.
  - intros H. apply (cong_eq_small n); try (apply Z.mod_pos_bound; lia).
    rewrite !cong_mod. exact H.
  - intros H. rewrite <- (cong_mod n a), <- (cong_mod n b), H. reflexivity.
Qed.

(* ------------------------------------------------------------------------------------------ *)
(* mpz_powm *)
Lemma powmod_pos_cong n a e : cong n (powmod_pos a e n) (a ^ Zpos e).
Proof.
  induction e as [e IH|e IH|]; cbn [powmod_pos].
  - rewrite !cong_mod, IH. rewrite Pos2Z.inj_xI.
    replace (2 * Z.pos e + 1) with (Z.pos e + Z.pos e + 1) by lia.
    rewrite !Z.pow_add_r, Z.pow_1_r by lia. reflexivity.
  - rewrite cong_mod, IH. rewrite Pos2Z.inj_xO.
    replace (2 * Z.pos e) with (Z.pos e + Z.pos e) by lia.
    rewrite Z.pow_add_r by lia. reflexivity.
  - rewrite cong_mod, Z.pow_1_r. reflexivity.
Qed.
Lemma powmod_cong n a e : 0 <= e -> cong n (powmod a e n) (a ^ e).
Proof.
  intros He. destruct e as [|e|e]; cbn [powmod].
  - rewrite cong_mod. reflexivity.
  - apply powmod_pos_cong.
  - lia.
Qed.
Lemma powmod_pos_range n a e : 0 < n -> 0 <= powmod_pos a e n < n.
Proof. intros Hn. destruct e; cbn [powmod_pos]; apply Z.mod_pos_bound; lia. Qed.
Lemma powmod_range n a e : 0 < n -> 0 <= e -> 0 <= powmod a e n < n.
Proof.
  intros Hn He. destruct e; cbn [powmod]; try lia.
  all: first [apply Z.mod_pos_bound; lia | apply powmod_pos_range; lia].
Qed.
(* the form used everywhere: mpz_powm returns a^e mod n *)
Theorem powmod_spec n a e : 0 < n -> 0 <= e -> powmod a e n = a ^ e mod n.
Proof.
  intros Hn He. apply (cong_eq_small n).
  - apply powmod_range; lia.
  - apply Z.mod_pos_bound; lia.
  - rewrite cong_mod. apply powmod_cong; lia.
Qed.
Lemma powmod_eq_1 n a e : 1 < n -> 0 <= e -> powmod a e n = 1 -> cong n (a ^ e) 1.
Proof. intros Hn He H. rewrite <- (powmod_cong n a e He), H. reflexivity. Qed.

(* ------------------------------------------------------------------------------------------ *)
(* mpz_invert: whatever the Euclid loop returns satisfies  r0 = s0 * a (mod n); it is an inverse when r0 = 1 *)
Lemma egcd_loop_inv n a fuel : forall r0 r1 s0 s1,
  cong n r0 (s0 * a) -> cong n r1 (s1 * a) ->
  let '(g, s) := egcd_loop fuel r0 r1 s0 s1 in cong n g (s * a).
Proof.
  induction fuel as [|f IH]; intros r0 r1 s0 s1 H0 H1; cbn [egcd_loop].
  - exact H0.
  - destruct (r1 =? 0); [exact H0|].
    apply IH; [exact H1|]. generalize (r0 / r1); intro q.
    replace ((s0 - q * s1) * a) with (s0 * a - q * (s1 * a)) by ring.
    apply cong_sub; [exact H0 | apply cong_mul; [reflexivity | exact H1]].
Qed.
Theorem invmod_sound a n : fst (egcd a n) = 1 -> cong n (a * invmod a n) 1.
Proof.
  unfold invmod, egcd. intros Hg.
  pose proof (egcd_loop_inv n a (egcd_fuel n) n (a mod n) 0 1) as H.
  destruct (egcd_loop (egcd_fuel n) n (a mod n) 0 1) as [g s]. cbn [fst snd] in *. subst g.
  rewrite cong_mod. rewrite Z.mul_comm. symmetry. apply H.
  - exists 1. ring.
  - replace (1 * a) with a by ring. apply cong_mod.
Qed.

(* ------------------------------------------------------------------------------------------ *)
(* prime moduli *)
Lemma cong_prime_mul_0 p a b : prime p -> cong p (a * b) 0 -> cong p a 0 \/ cong p b 0.
Proof. rewrite !cong_0_divide. intros Hp H. apply prime_mult; assumption. Qed.
Lemma cong_prime_sq_1 p x : prime p -> cong p (x * x) 1 -> cong p x 1 \/ cong p x (-1).
Proof.
  intros Hp H. assert (H' : cong p ((x - 1) * (x + 1)) 0).
  { replace ((x - 1) * (x + 1)) with (x * x - 1) by ring. rewrite H. reflexivity. }
  destruct (cong_prime_mul_0 _ _ _ Hp H') as [H1|H1]; [left|right].
  - replace x with (x - 1 + 1) by ring. rewrite H1. reflexivity.
  - replace x with (x + 1 - 1) by ring. rewrite H1. reflexivity.
Qed.
Lemma cong_cancel p c a b : rel_prime c p -> cong p (c * a) (c * b) -> cong p a b.
Proof.
  unfold cong. intros Hr H. replace (c * a - c * b) with (c * (a - b)) in H by ring.
  apply Gauss with c; [exact H | apply rel_prime_sym; exact Hr].
Qed.
Lemma rel_prime_of_cong_unit p c d : cong p (c * d) 1 -> rel_prime c p.
Proof.
  intros [k H]. apply bezout_rel_prime. apply Bezout_intro with d (- k). lia.
Qed.
