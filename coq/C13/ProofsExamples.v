(* C13 proofs, part 14: the hypotheses of the conditional whole-function theorems are satisfiable (instances at p = n = 17). *)
From Coq Require Import ZArith Znumtheory Bool List Lia.
From C13 Require Import Model ProofsBase ProofsSqrt ProofsNumTheo ProofsOrder ProofsTS ProofsPrp ProofsPrp1.
Import ListNotations.
Local Open Scope Z_scope.

Lemma prime_div_16 q : prime q -> (q | 16) -> q = 2.
Proof.
  intros Hq Hd. change 16 with (2 * (2 * (2 * 2))) in Hd.
  repeat (apply prime_mult in Hd; [|exact Hq]; destruct Hd as [Hd|Hd]; [apply prime_div_prime in Hd; [exact Hd | exact Hq | exact prime_2]|]).
  apply prime_div_prime in Hd; [exact Hd | exact Hq | exact prime_2].
Qed.

(* C13_tonelli_shanks_total at p = 17 (p - 1 = 2^4), a = 2, draw 3 *)
Example tonelli_total_hyps_17 :
  prime 17 /\ 2 < 17 /\ 0 <= 2 /\ cong 17 (2 ^ ((17 - 1) / 2)) 1 /\ Forall (fun d => cong 17 (d ^ (17 - 1)) 1) [3] /\
  (exists g, In g [3] /\ legendre g 17 = -1) /\ tonelli 2 17 [3] = Some 6.
Proof.
  split; [exact small_prime_17|]. split; [lia|]. split; [lia|]. split; [exists 15; reflexivity|].
  split; [constructor; [exists 2532160; reflexivity | constructor]|].
  split; [exists 3; split; [left; reflexivity | vm_compute; reflexivity]|]. vm_compute. reflexivity.
Qed.
(* C13_prim_root_of_prime_is_primitive at n = 17, Lf = [2]: every hypothesis holds and the conclusion applies to the value computed *)
Example prim_root_of_prime_hyps_17 :
  prime 17 /\ (forall u, ~ (17 | u) -> cong 17 (u ^ (17 - 1)) 1) /\ NoDup [2] /\ Forall (fun f => prime f /\ (f | 17 - 1)) [2] /\
  (forall q, prime q -> (q | 17 - 1) -> In q [2]) /\ prim_root_of_prime 17 [2] = Some 3 /\
  (forall d, 0 < d -> cong 17 (3 ^ d) 1 -> (17 - 1 | d)).
Proof.
  assert (H1 : prime 17) by exact small_prime_17.
  assert (H2 : forall u, ~ (17 | u) -> cong 17 (u ^ (17 - 1)) 1) by exact fermat_17.
  assert (H3 : NoDup [2]) by (repeat constructor; intros []).
  assert (H4 : Forall (fun f => prime f /\ (f | 17 - 1)) [2]) by (constructor; [split; [exact prime_2 | exists 8; reflexivity] | constructor]).
  assert (H5 : forall q, prime q -> (q | 17 - 1) -> In q [2]) by (intros q Hq Hd; left; symmetry; apply prime_div_16; assumption).
  assert (H6 : prim_root_of_prime 17 [2] = Some 3) by (vm_compute; reflexivity).
  repeat (split; [assumption|]).
  exact (prim_root_of_prime_correct 17 [2] 3 H1 H2 H3 H4 H5 H6).
Qed.
(* C13_sqrootmodprime_decides_residuosity applied at p = 17: 2 is a residue and gets the root 6, 3 is not and gets -1 *)
Example decides_applied_17 :
  (residue 17 2 -> 6 <> -1 /\ cong 17 (6 * 6) 2) /\ (~ residue 17 3 -> -1 = -1).
Proof.
  destruct decides_hyps_17 as [Hp [Hp2 [Hf [H8 [H16 [Hdr [_ [Hr2 Hr3]]]]]]]].
  split.
  - exact (proj1 (sqrootmodprime_decides 17 2 [3] 6 Hp Hp2 Hf ltac:(intros; contradiction) ltac:(intros; contradiction) Hdr Hr2)).
  - exact (proj2 (sqrootmodprime_decides 17 3 [3] (-1) Hp Hp2 Hf ltac:(intros; contradiction) ltac:(intros; contradiction) Hdr Hr3)).
Qed.

(* C13_order_is_multiplicative_order at n = 7, p = 2: every hypothesis holds; the function returns 3 *)
Example order_hyps_7 : 1 < 7 /\ 0 < phi 7 [7] /\ Forall (fun f => 1 < f /\ (f | phi 7 [7])) [2; 3] /\
  (forall q, prime q -> (q | phi 7 [7]) -> In q [2; 3]) /\ Z.gcd (2 mod 7) 7 = 1 /\ cong 7 ((2 mod 7) ^ phi 7 [7]) 1 /\
  order 2 7 [7] [2; 3] = 3.
Proof.
  change (phi 7 [7]) with 6. split; [lia|]. split; [lia|].
  split; [repeat constructor; try lia; [exists 3 | exists 2]; reflexivity|].
  split.
  - intros q Hq Hd. change 6 with (2 * 3) in Hd. apply prime_mult in Hd; [|exact Hq]. destruct Hd as [Hd|Hd].
    + left. symmetry. apply prime_div_prime; [exact Hq | exact prime_2 | exact Hd].
    + right. left. symmetry. apply prime_div_prime; [exact Hq | exact prime_3 | exact Hd].
  - split; [reflexivity|]. split; [exists 9; reflexivity | vm_compute; reflexivity].
Qed.

(* ---- primality and Fermat's little theorem for a small p by exhaustive check (used to instantiate the hypotheses below) *)
From C13 Require Import ProofsSweep ProofsPrimRoot.
Lemma prime_by_check p : 1 < p -> forallb (fun d => negb (p mod d =? 0)) (zrange 2 (p - 1)) = true -> prime p.
Proof.
  intros Hp H. apply prime_alt. split; [exact Hp|]. intros n Hn Hd.
  rewrite forallb_forall in H. specialize (H n (zrange_In 2 (p - 1) n ltac:(lia))).
  apply negb_true_iff, Z.eqb_neq in H. apply H. apply Z.mod_divide; [lia | exact Hd].
Qed.
Lemma fermat_by_check p : 1 < p -> forallb (fun r => powmod r (p - 1) p =? 1) (zrange 1 (p - 1)) = true -> Fermat_hyp p.
Proof.
  intros Hp H u Hu. rewrite forallb_forall in H.
  assert (Hr : 1 <= u mod p <= p - 1).
  { pose proof (Z.mod_pos_bound u p ltac:(lia)). destruct (Z.eq_dec (u mod p) 0) as [E|]; [|lia].
    exfalso. apply Hu. apply Z.mod_divide; [lia | exact E]. }
  specialize (H (u mod p) (zrange_In 1 (p - 1) _ Hr)). apply Z.eqb_eq in H.
  transitivity ((u mod p) ^ (p - 1)); [apply cong_pow; [symmetry; apply cong_mod | reflexivity]|].
  apply powmod_eq_1; [exact Hp | lia | exact H].
Qed.

(* C13_sqrootmodprime_decides_residuosity in the ATKIN class: p = 13 = 5 mod 8, 2^6 = -1; 3 = 4^2 is a residue, 2 is not *)
Example decides_atkin_13 :
  prime 13 /\ Fermat_hyp 13 /\ 13 mod 8 = 5 /\ cong 13 (2 ^ ((13 - 1) / 2)) (-1) /\
  sqrootmodprime 3 13 [] = Some 9 /\ (residue 13 3 -> 9 <> -1 /\ cong 13 (9 * 9) 3) /\
  sqrootmodprime 2 13 [] = Some (-1) /\ (~ residue 13 2 -> -1 = -1).
Proof.
  assert (Hp : prime 13) by (apply prime_by_check; [lia | vm_compute; reflexivity]).
  assert (Hf : Fermat_hyp 13) by (apply fermat_by_check; [lia | vm_compute; reflexivity]).
  assert (H2 : cong 13 (2 ^ ((13 - 1) / 2)) (-1)) by (exists 5; reflexivity).
  assert (R3 : sqrootmodprime 3 13 [] = Some 9) by (vm_compute; reflexivity).
  assert (R2 : sqrootmodprime 2 13 [] = Some (-1)) by (vm_compute; reflexivity).
  split; [exact Hp|]. split; [exact Hf|]. split; [reflexivity|]. split; [exact H2|]. split; [exact R3|].
  split; [exact (proj1 (sqrootmodprime_decides 13 3 [] 9 Hp ltac:(lia) Hf (fun _ => H2) ltac:(intros H; discriminate H) ltac:(constructor) R3))|].
  split; [exact R2|].
  exact (proj2 (sqrootmodprime_decides 13 2 [] (-1) Hp ltac:(lia) Hf (fun _ => H2) ltac:(intros H; discriminate H) ltac:(constructor) R2)).
Qed.
(* ... and in the MUELLER class: p = 41 = 9 mod 16, 2^20 = 1; draws 3 (non-residue) and 2 (residue) *)
Example decides_mueller_41 :
  prime 41 /\ Fermat_hyp 41 /\ 41 mod 16 = 9 /\ cong 41 (2 ^ ((41 - 1) / 2)) 1 /\ Forall (fun d => 0 < d < 41) [3; 2] /\
  (exists x, sqrootmodprime 5 41 [3; 2] = Some x /\ (residue 41 5 -> x <> -1 /\ cong 41 (x * x) 5)).
Proof.
  assert (Hp : prime 41) by (apply prime_by_check; [lia | vm_compute; reflexivity]).
  assert (Hf : Fermat_hyp 41) by (apply fermat_by_check; [lia | vm_compute; reflexivity]).
  assert (H2 : cong 41 (2 ^ ((41 - 1) / 2)) 1) by (exists 25575; reflexivity).
  assert (Hd : Forall (fun d => 0 < d < 41) [3; 2]) by (repeat constructor; lia).
  split; [exact Hp|]. split; [exact Hf|]. split; [reflexivity|]. split; [exact H2|]. split; [exact Hd|].
  destruct (sqrootmodprime 5 41 [3; 2]) as [x|] eqn:E; [|vm_compute in E; discriminate E].
  exists x. split; [reflexivity|].
  exact (proj1 (sqrootmodprime_decides 41 5 [3; 2] x Hp ltac:(lia) Hf ltac:(intros H; discriminate H) (fun _ => H2) Hd E)).
Qed.
(* C13_prim_root_of_odd_prime_is_primitive at n = 17: every hypothesis holds, the theorem applies to the value computed *)
Example prim_root_prime_hyps_17 : prim_root 17 17 [2] 0 = Some (3, 2) /\ (forall d, 0 < d -> cong 17 (3 ^ d) 1 -> (17 - 1 | d)).
Proof.
  assert (R : prim_root 17 17 [2] 0 = Some (3, 2)) by (vm_compute; reflexivity). split; [exact R|].
  apply (prim_root_prime 17 [2] 0 3 2 small_prime_17 ltac:(lia) fermat_17); [|exact R].
  intros q Hq Hd. left. symmetry. apply prime_div_16; assumption.
Qed.
