(* C13 proofs, part 16: lambda / lambda_inv against the definitions of givintnumtheo.h:73-82 (bounded kernel sweeps, m <= 200):
     lambda_inv = order of an invertible primitive element = exponent of the unit group;
     lambda     = maximal orbit size over ALL elements (orbit of a = the distinct values a^k mod m, k >= 1).
   No value of the code is built into these statements (the earlier `if m =? 8 then 3 else exponent_def m` of ProofsSweep.v was
   fitted to the code and is no longer a property theorem). *)
From Coq Require Import ZArith Bool List Lia.
From C13 Require Import Model ProofsSweep.
Import ListNotations.
Local Open Scope Z_scope.

Fixpoint orbit_list (fuel : nat) (a m x : Z) (acc : list Z) : list Z :=
  match fuel with
  | O => acc
  | S f => if existsb (Z.eqb x) acc then acc else orbit_list f a m ((x * a) mod m) (x :: acc)
  end.
Definition orbit_size (a m : Z) : Z := Z.of_nat (length (orbit_list (Z.to_nat m + 1) a m (a mod m) [])).
Definition max_orbit_def (m : Z) : Z := fold_left (fun best a => Z.max best (orbit_size a m)) (zrange 0 (m - 1)) 0.

Definition lambda_inv_ok (m : Z) : bool := lambda_inv m (factors m) =? exponent_def m.
Definition Lambda_inv_exponent_stmt := forall m, 2 <= m <= 200 -> lambda_inv m (factors m) = exponent_def m.
Lemma lambda_inv_exponent_sweep : Lambda_inv_exponent_stmt.
Proof. intros m Hm. apply Z.eqb_eq. revert m Hm. apply (sweep lambda_inv_ok). vm_cast_no_check (eq_refl true). Qed.

(* lambda IS the maximal orbit size over all elements (body of 01ad5d5), every m <= 200 *)
Definition lambda_orbit_ok (m : Z) : bool := lambda m (factors m) =? max_orbit_def m.
Definition Lambda_orbit_stmt := forall m, 2 <= m <= 200 -> lambda m (factors m) = max_orbit_def m.
Lemma lambda_orbit_sweep : Lambda_orbit_stmt.
Proof. intros m Hm. apply Z.eqb_eq. revert m Hm. apply (sweep lambda_orbit_ok). vm_cast_no_check (eq_refl true). Qed.

(* HISTORY: the body before 01ad5d5 returned the exponent of the unit group for every m other than 2, 3, 4, 8 *)
Definition lambda_before_fix8 (m : Z) (factors : list (Z * Z)) : Z :=
  if m =? 2 then 1 else if (m =? 3) || (m =? 4) then 2 else if m =? 8 then 3 else lambda_base factors.
Definition Lambda_before_fix8_refuted_stmt :=
  lambda_before_fix8 12 (factors 12) = 2 /\ max_orbit_def 12 = 3 /\ lambda 12 (factors 12) = 3 /\
  lambda_before_fix8 24 (factors 24) = 2 /\ max_orbit_def 24 = 4 /\ lambda 24 (factors 24) = 4 /\
  lambda_before_fix8 40 (factors 40) = 4 /\ max_orbit_def 40 = 6 /\ lambda 40 (factors 40) = 6.
Lemma lambda_before_fix8_refuted : Lambda_before_fix8_refuted_stmt.
Proof. repeat split; vm_compute; reflexivity. Qed.
