(* C13 proofs, part 3: lifting steps (Hensel p^k -> p^2k, one more power, 2-adic), the linear 2-adic loop, CRT recombination. *)
From Coq Require Import ZArith Znumtheory Bool List Lia Morphisms Setoid.
From C13 Require Import Model ProofsBase.
Import ListNotations.
Local Open Scope Z_scope.

Lemma cong_elim n a b : cong n a b -> exists k, a = b + n * k.
Proof. intros [k H]. exists k. lia. Qed.
Lemma quot_exact n c : n <> 0 -> Z.quot (n * c) n = c.
Proof. intros Hn. rewrite Z.mul_comm. apply Z.quot_mul. exact Hn. Qed.

(* sqroothensellift: x^2 = a (mod pk), the returned inverse of 2x is an inverse  ==>  x'^2 = a (mod pk^2) *)
Definition Hensel_step_stmt := forall x a pk, pk <> 0 ->
  cong pk (x * x) a -> cong pk ((x * 2) * invmod (x * 2) pk) 1 ->
  cong (pk * pk) (hensellift x a pk * hensellift x a pk) a.
Lemma hensel_step : Hensel_step_stmt.
Proof.
  intros x a pk Hpk Hx Hinv. unfold hensellift.
  destruct (Z.eqb_spec (a - x * x) 0) as [E|E].
  - replace (x * x) with a by lia. reflexivity.
  - apply cong_elim in Hx. destruct Hx as [k E1].
    apply cong_elim in Hinv. destruct Hinv as [l E3].
    set (h := invmod (x * 2) pk) in *.
    replace (a - x * x) with (pk * (- k)) by lia. rewrite quot_exact by exact Hpk.
    destruct (cong_elim _ _ _ (cong_rem pk (h * - k))) as [j E2].
    rewrite E2. exists (- (l * k) + 2 * x * j + (h * - k + pk * j) * (h * - k + pk * j)).
    assert (Hlin : forall X Y, X - Y = (x * x - (a + pk * k)) + (x * 2 * h - (1 + pk * l)) * (- (k * pk)) -> X = Y).
    { intros X Y HXY. rewrite E1, E3 in HXY. lia. }
    apply Hlin. ring.
Qed.

(* sqrootonemorelift: x0^2 = a (mod pk), p | pk  ==>  x'^2 = a (mod pk*p) *)
Definition Onemore_step_stmt := forall x0 a p pk, pk <> 0 -> p <> 0 -> (p | pk) ->
  cong pk (x0 * x0) a -> cong p ((x0 * 2) * invmod (x0 * 2) p) 1 ->
  cong (pk * p) (onemorelift x0 a p pk * onemorelift x0 a p pk) a.
Lemma onemore_step : Onemore_step_stmt.
Proof.
  intros x0 a p pk Hpk Hp [m Hm] Hx Hinv. unfold onemorelift.
  apply cong_elim in Hx. destruct Hx as [k E1].
  apply cong_elim in Hinv. destruct Hinv as [l E3].
  set (h := invmod (x0 * 2) p) in *.
  replace (a - x0 * x0) with (pk * (- k)) by lia. rewrite quot_exact by exact Hpk.
  destruct (cong_elim _ _ _ (cong_rem p (- k))) as [j1 E4].
  destruct (Z.eqb_spec (Z.rem (- k) p) 0) as [E|E].
  - rewrite E in E4. exists j1. rewrite E1. replace k with (p * j1) by lia. ring.
  - set (u := Z.rem (- k) p) in *.
    destruct (cong_elim _ _ _ (cong_rem p (h * u))) as [j2 E2].
    rewrite E2.
    exists (j1 + l * u + 2 * x0 * j2 + (h * u + p * j2) * (h * u + p * j2) * m).
    assert (Hlin : forall X Y, X - Y = (x0 * x0 - (a + pk * k)) + (x0 * 2 * h - (1 + p * l)) * (u * pk)
                                       + (u - (- k + p * j1)) * pk + (pk - m * p) * ((h * u + p * j2) * (h * u + p * j2) * pk) -> X = Y).
    { intros X Y HXY. rewrite E1, E3, E4, Hm in HXY. lia. }
    apply Hlin. ring.
Qed.

(* sqrootmodtwolift: pk = 2*pk1, x^2 = a (mod pk), the returned inverse of x mod pk1 is an inverse  ==>  x'^2 = a (mod pk1^2) *)
Definition Twolift_step_stmt := forall x a pk, pk <> 0 -> pk mod 2 = 0 ->
  cong pk (x * x) a -> cong (pk / 2) (x * invmod x (pk / 2)) 1 ->
  cong ((pk / 2) * (pk / 2)) (twolift x a pk * twolift x a pk) a.
Lemma twolift_step : Twolift_step_stmt.
Proof.
  intros x a pk Hpk Hev Hx Hinv. unfold twolift.
  assert (Hpk1 : pk = 2 * (pk / 2)) by (pose proof (Z.div_mod pk 2); lia).
  set (pk1 := pk / 2) in *. assert (Hpk1n : pk1 <> 0) by lia.
  apply cong_elim in Hx. destruct Hx as [k E1].
  apply cong_elim in Hinv. destruct Hinv as [l E3].
  set (h := invmod x pk1) in *.
  replace (a - x * x) with (pk * (- k)) by lia. rewrite quot_exact by exact Hpk.
  destruct (cong_elim _ _ _ (cong_rem pk1 (- k))) as [j1 E4].
  destruct (Z.eqb_spec (Z.rem (- k) pk1) 0) as [E|E].
  - rewrite E in E4. exists (2 * j1). rewrite E1. replace k with (pk1 * j1) by lia. rewrite Hpk1 at 1. ring.
  - set (u := Z.rem (- k) pk1) in *.
    destruct (cong_elim _ _ _ (cong_rem pk1 (h * u))) as [j2 E2].
    rewrite E2.
    exists (2 * j1 + 2 * l * u + 2 * x * j2 + (h * u + pk1 * j2) * (h * u + pk1 * j2)).
    assert (Hlin : forall X Y, X - Y = (x * x - (a + pk * k)) + (x * h - (1 + pk1 * l)) * (u * 2 * pk1)
                                       + (u - (- k + pk1 * j1)) * (2 * pk1) + (pk - 2 * pk1) * k -> X = Y).
    { intros X Y HXY. rewrite E1, E3, E4 in HXY. replace (pk - 2 * pk1) with 0 in HXY by lia. lia. }
    apply Hlin. ring.
Qed.

(* sqroottwolinear: one step and the loop.  pk = 16 m, pk2 = 4 m; the root is known modulo 8 m *)
Lemma twolinear_step m x a : 0 < m -> 0 <= a -> Z.odd x = true -> cong (8 * m) (x * x) a ->
  let x' := if negb (Z.rem (x * x) (16 * m) =? Z.rem a (16 * m)) then x + 4 * m else x in
  cong (16 * m) (x' * x') a /\ Z.odd x' = true.
Proof.
  intros Hm Ha Hodd Hx. cbn zeta.
  rewrite !Z.rem_mod_nonneg by nia.
  destruct (Z.eqb_spec ((x * x) mod (16 * m)) (a mod (16 * m))) as [E|E]; cbn [negb].
  - split; [|exact Hodd]. apply cong_mod_eq; [lia|exact E].
  - apply cong_elim in Hx. destruct Hx as [c E1].
    assert (Hc : Z.odd c = true).
    { destruct (Z.odd c) eqn:Ec; [reflexivity|]. exfalso. apply E. apply cong_mod_eq; [lia|].
      rewrite <- Z.negb_even in Ec. apply negb_false_iff in Ec. apply Z.even_spec in Ec. destruct Ec as [c' ->].
      exists c'. lia. }
    apply Z.odd_spec in Hc. destruct Hc as [c' ->].
    pose proof Hodd as Hodd'. apply Z.odd_spec in Hodd'. destruct Hodd' as [y Hy].
    split.
    + exists (c' + y + 1 + m). subst x. nia.
    + rewrite Z.odd_add, Hodd. replace (4 * m) with (2 * (2 * m)) by ring. rewrite Z.odd_mul. reflexivity.
Qed.
Definition Twolinear_loop_stmt := forall n m x a, 0 < m -> 0 <= a -> Z.odd x = true -> cong (8 * m) (x * x) a ->
  let r := twolinear_loop n x a (16 * m) (4 * m) in
  cong (8 * m * 2 ^ Z.of_nat n) (r * r) a /\ Z.odd r = true.
Lemma twolinear_loop_inv : Twolinear_loop_stmt.
Proof.
  unfold Twolinear_loop_stmt. induction n as [|n IH]; intros m x a Hm Ha Hodd Hx.
  - cbn [twolinear_loop]. change (2 ^ Z.of_nat 0) with 1. rewrite Z.mul_1_r. split; assumption.
  - cbn [twolinear_loop]. cbn zeta.
    destruct (twolinear_step m x a Hm Ha Hodd Hx) as [H1 H2]. cbn zeta in H1, H2.
    set (x' := if negb (Z.rem (x * x) (16 * m) =? Z.rem a (16 * m)) then x + 4 * m else x) in *.
    replace (16 * m * 2) with (16 * (2 * m)) by ring.
    replace (16 * m / 2) with (4 * (2 * m)) by (replace (16 * m) with ((8 * m) * 2) by ring; rewrite Z.div_mul by lia; ring).
    specialize (IH (2 * m) x' a).
    replace (8 * (2 * m)) with (16 * m) in IH by ring.
    destruct (IH ltac:(lia) Ha H2 H1) as [H3 H4]. split; [|exact H4].
    rewrite Nat2Z.inj_succ, Z.pow_succ_r by lia.
    replace (8 * m * (2 * 2 ^ Z.of_nat n)) with (16 * m * 2 ^ Z.of_nat n) by ring. exact H3.
Qed.
(* the whole of sqroottwolinear on an odd residue: a = 1 (mod 8), k >= 3 *)
Definition Sqroottwolinear_stmt := forall a k, 3 <= k -> 0 <= a -> a mod 8 = 1 ->
  cong (2 ^ k) (sqroottwolinear a k * sqroottwolinear a k) a.
Lemma sqroottwolinear_correct : Sqroottwolinear_stmt.
Proof.
  intros a k Hk Ha H8. unfold sqroottwolinear. rewrite H8.
  change (pow2_k123 1 3) with 1. change (1 =? -1) with false. cbn [orb].
  assert (H1 : cong 8 (1 * 1) a) by (apply cong_mod_eq; [lia | rewrite H8; reflexivity]).
  destruct (Z.ltb_spec k 4) as [Hk4|Hk4].
  - replace k with 3 by lia. exact H1.
  - pose proof (twolinear_loop_inv (Z.to_nat (k - 3)) 1 1 a ltac:(lia) Ha eq_refl H1) as H.
    cbn zeta in H. change (16 * 1) with 16 in H. change (4 * 1) with 4 in H.
    destruct H as [H _].
    rewrite Z2Nat.id in H by lia. replace (8 * 1 * 2 ^ (k - 3)) with (2 ^ k) in H; [exact H|].
    change (8 * 1) with (2 ^ 3). rewrite <- Z.pow_add_r by lia. f_equal. lia.
Qed.

(* the final correction of sqrootmodpoweroftwo for odd k (lines 310-317): a root mod 2^(k-1) of an odd a, k >= 4 *)
Definition Pow2_fixup_stmt := forall m x a, 0 < m -> Z.odd x = true -> cong (8 * m) (x * x) a ->
  let x' := if Z.rem (a - x * x) (16 * m) =? 0 then x else x + (16 * m) / 4 in
  cong (16 * m) (x' * x') a.
Lemma pow2_fixup : Pow2_fixup_stmt.
Proof.
  intros m x a Hm Hodd Hx. cbn zeta.
  destruct (Z.eqb_spec (Z.rem (a - x * x) (16 * m)) 0) as [E|E].
  - symmetry. destruct (cong_elim _ _ _ (cong_rem (16 * m) (a - x * x))) as [j Hj]. exists (- j). lia.
  - replace (16 * m / 4) with (4 * m) by (replace (16 * m) with ((4 * m) * 4) by ring; rewrite Z.div_mul by lia; ring).
    apply cong_elim in Hx. destruct Hx as [c E1].
    assert (Hc : Z.odd c = true).
    { destruct (Z.odd c) eqn:Ec; [reflexivity|]. exfalso. apply E.
      rewrite <- Z.negb_even in Ec. apply negb_false_iff in Ec. apply Z.even_spec in Ec. destruct Ec as [c' ->].
      replace (a - x * x) with ((- c') * (16 * m)) by lia. apply Z.rem_mul. lia. }
    apply Z.odd_spec in Hc. destruct Hc as [c' ->].
    apply Z.odd_spec in Hodd. destruct Hodd as [y ->].
    exists (c' + y + 1 + m). nia.
Qed.

(* Chinese remaindering of roots: x^2 = a modulo pairwise coprime q_i  ==>  x^2 = a modulo their product *)
Definition pairwise_coprime (l : list Z) : Prop := forall i j, (i < j < length l)%nat -> rel_prime (nth i l 1) (nth j l 1).
Definition Crt_combine_stmt := forall (qs : list Z) x a,
  ForallOrdPairs rel_prime qs -> Forall (fun q => cong q (x * x) a) qs -> cong (fold_right Z.mul 1 qs) (x * x) a.
Lemma crt_combine : Crt_combine_stmt.
Proof.
  intros qs x a Hco Hall. induction qs as [|q tl IH]; cbn [fold_right].
  - exists (x * x - a). ring.
  - inversion Hco as [|? ? Hq Htl]; subst. inversion Hall as [|? ? H1 H2]; subst.
    specialize (IH Htl H2). unfold cong in *.
    assert (Hrel : rel_prime q (fold_right Z.mul 1 tl)).
    { clear - Hq. induction tl as [|t tl IHt]; cbn [fold_right].
      - apply rel_prime_sym, rel_prime_1.
      - inversion Hq; subst. apply rel_prime_mult; [assumption | apply IHt; assumption]. }
    destruct IH as [k Hk]. rewrite Hk in H1 |- *.
    assert (Hqk : (q | k)).
    { apply Gauss with (fold_right Z.mul 1 tl); [rewrite Z.mul_comm; exact H1 | exact Hrel]. }
    destruct Hqk as [k' ->]. exists k'. ring.
Qed.

(* sumofsquaresmodprimewithnonresidue: b0^2 = s - 1, a^2 = k / s  ==>  a^2 + (b0 a)^2 = k *)
Definition Sos_nonres_stmt := forall p k s il a b0, cong p (s * il) 1 -> cong p (b0 * b0) (s - 1) -> cong p (a * a) (k * il) ->
  cong p (a * a + Z.rem (b0 * a) p * Z.rem (b0 * a) p) k.
Lemma sos_nonres_algebra : Sos_nonres_stmt.
Proof.
  intros p k s il a b0 Hs Hb Ha. rewrite !cong_rem.
  transitivity ((a * a) * (1 + b0 * b0)); [apply eq_subrelation; [typeclasses eauto|ring]|].
  rewrite Hb, Ha. transitivity (k * (s * il)); [apply eq_subrelation; [typeclasses eauto|ring]|].
  rewrite Hs. apply eq_subrelation; [typeclasses eauto|ring].
Qed.
