(* C13 proofs, part 7: logp(a,p) = floor(log_p a) for ALL a >= 1, p >= 2 (table of repeated squares, greedy descent). *)
From Coq Require Import ZArith Bool List Lia.
From C13 Require Import Model.
Import ListNotations.
Local Open Scope Z_scope.

Section Logp.
Variables (p a : Z).
Hypothesis Hp : 2 <= p.

Definition pw (j : nat) : Z := p ^ (2 ^ Z.of_nat j).
Fixpoint tower_below (j : nat) : list Z := match j with O => [] | S j' => pw j' :: tower_below j' end.

Lemma two_pow_pos (j : nat) : 0 < 2 ^ Z.of_nat j.
Proof. apply Z.pow_pos_nonneg; lia. Qed.
Lemma pw_S j : pw (S j) = pw j * pw j.
Proof.
  unfold pw. rewrite Nat2Z.inj_succ, Z.pow_succ_r by lia.
  replace (2 * 2 ^ Z.of_nat j) with (2 ^ Z.of_nat j + 2 ^ Z.of_nat j) by ring.
  pose proof (two_pow_pos j). rewrite Z.pow_add_r by lia. reflexivity.
Qed.
Lemma pw_0 : pw 0 = p.
Proof. unfold pw. change (2 ^ Z.of_nat 0) with 1. apply Z.pow_1_r. Qed.
Lemma pw_lower j : 2 ^ (Z.of_nat j + 1) <= pw j.
Proof.
  induction j as [|j IH].
  - rewrite pw_0. change (2 ^ (Z.of_nat 0 + 1)) with 2. lia.
  - rewrite pw_S. rewrite Nat2Z.inj_succ. replace (Z.succ (Z.of_nat j) + 1) with (Z.succ (Z.of_nat j + 1)) by lia.
    rewrite Z.pow_succ_r by lia. assert (2 <= 2 ^ (Z.of_nat j + 1)) by (rewrite Z.pow_add_r, Z.pow_1_r by lia; pose proof (two_pow_pos j); lia).
    set (X := 2 ^ (Z.of_nat j + 1)) in *. nia.
Qed.
Lemma tower_below_length j : length (tower_below j) = j.
Proof. induction j; cbn [tower_below length]; congruence. Qed.

Lemma logp_up_spec : forall fuel j, pw j <= a -> a < 2 ^ Z.of_nat (fuel + j) ->
  exists J, logp_up fuel (pw j) a (tower_below j) = pw J :: tower_below J /\ pw J <= a < pw (S J).
Proof.
  induction fuel as [|f IH]; intros j Hle Hlt.
  - exfalso. pose proof (pw_lower j). cbn [plus] in Hlt.
    assert (2 ^ Z.of_nat j < 2 ^ (Z.of_nat j + 1)) by (apply Z.pow_lt_mono_r; lia). lia.
  - cbn [logp_up]. rewrite <- pw_S. destruct (Z.leb_spec (pw (S j)) a) as [H|H].
    + apply (IH (S j)); [exact H|]. replace (f + S j)%nat with (S f + j)%nat by lia. exact Hlt.
    + exists j. split; [reflexivity | lia].
Qed.

Lemma logp_down_spec : forall i res, 0 <= res -> p ^ res <= a < p ^ (res + 2 ^ Z.of_nat i) ->
  let r := logp_down (tower_below i) (p ^ res) a res in 0 <= r /\ p ^ r <= a < p ^ (r + 1).
Proof.
  induction i as [|i IH]; intros res Hres Hb; cbn [tower_below logp_down].
  - change (2 ^ Z.of_nat 0) with 1 in Hb. split; lia.
  - rewrite tower_below_length. pose proof (two_pow_pos i) as H2.
    assert (Hsq : p ^ res * pw i = p ^ (res + 2 ^ Z.of_nat i)) by (unfold pw; rewrite Z.pow_add_r by lia; reflexivity).
    rewrite Hsq. cbv zeta.
    rewrite Nat2Z.inj_succ, Z.pow_succ_r in Hb by lia.
    destruct (Z.leb_spec (p ^ (res + 2 ^ Z.of_nat i)) a) as [H|H].
    + apply IH; [lia|]. replace (res + 2 ^ Z.of_nat i + 2 ^ Z.of_nat i) with (res + 2 * 2 ^ Z.of_nat i) by ring. lia.
    + apply IH; [lia | lia].
Qed.
End Logp.

Lemma log2_fuel_gt a : 0 < a -> a < 2 ^ Z.of_nat (log2_fuel a).
Proof.
  intros Ha. unfold log2_fuel. rewrite Nat2Z.inj_succ, Z2Nat.id by apply Z.log2_nonneg. apply Z.log2_spec. exact Ha.
Qed.

(* logp(a,p) is THE exponent r with p^r <= a < p^(r+1), for every a >= 1 and p >= 2 *)
Definition Logp_correct_stmt := forall p a, 2 <= p -> 1 <= a -> 0 <= logp a p /\ p ^ logp a p <= a < p ^ (logp a p + 1).
Lemma logp_correct : Logp_correct_stmt.
Proof.
  intros p a Hp Ha. unfold logp. destruct (Z.ltb_spec a p) as [Hlt|Hge].
  - change (p ^ 0) with 1. change (0 + 1) with 1. rewrite Z.pow_1_r. lia.
  - assert (H0 : pw p 0 = p) by (apply pw_0).
    destruct (logp_up_spec p a Hp (log2_fuel a) 0) as [J [HJ Hb]].
    + rewrite H0. exact Hge.
    + rewrite Nat.add_0_r. apply log2_fuel_gt. lia.
    + rewrite H0 in HJ. cbn [tower_below] in HJ. rewrite HJ. rewrite tower_below_length.
      pose proof (two_pow_pos J) as H2.
      apply (logp_down_spec p a Hp J (2 ^ Z.of_nat J)); [lia|].
      fold (pw p J). rewrite pw_S in Hb. unfold pw in Hb |- *. rewrite Z.pow_add_r by lia. exact Hb.
Qed.
