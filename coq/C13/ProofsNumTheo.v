(* C13 proofs, part 4: phi / mobius from the factor set, multiplicative order, primitive-root test. *)
From Coq Require Import ZArith Znumtheory Bool List Lia Morphisms Setoid.
From C13 Require Import Model ProofsBase.
Import ListNotations.
Local Open Scope Z_scope.

(* ---------------------------------------------------------------------------------------- phi *)
(* a factorisation: list of (p, e) standing for p^(e+1) *)
Fixpoint prodpow (l : list (Z * nat)) : Z :=
  match l with [] => 1 | (p, e) :: tl => p ^ Z.of_nat (S e) * prodpow tl end.
Fixpoint prodphi (l : list (Z * nat)) : Z :=
  match l with [] => 1 | (p, e) :: tl => p ^ Z.of_nat e * (p - 1) * prodphi tl end.

Lemma phi_loop_formula : forall l c, Forall (fun pe => fst pe <> 0) l ->
  phi_loop (c * prodpow l) (map fst l) = c * prodphi l.
Proof.
  unfold phi_loop. induction l as [|[p e] tl IH]; intros c Hnz; cbn [map fold_left prodpow prodphi fst].
  - reflexivity.
  - inversion Hnz as [|? ? Hp Htl]; subst. cbn [fst] in Hp.
    rewrite Nat2Z.inj_succ, Z.pow_succ_r by lia.
    replace (c * (p * p ^ Z.of_nat e * prodpow tl)) with ((c * p ^ Z.of_nat e * prodpow tl) * p) by ring.
    rewrite Z.div_mul by exact Hp.
    replace (c * p ^ Z.of_nat e * prodpow tl * (p - 1)) with ((c * p ^ Z.of_nat e * (p - 1)) * prodpow tl) by ring.
    rewrite IH by exact Htl. ring.
Qed.
(* phi(res, Lf, n) = prod p^(e-1) (p-1)  whenever Lf lists the bases of a factorisation of n (order irrelevant, no primality needed) *)
Definition Phi_formula_stmt := forall n l, 3 < n -> n = prodpow l -> Forall (fun pe => fst pe <> 0) l ->
  phi n (map fst l) = prodphi l.
Lemma phi_formula : Phi_formula_stmt.
Proof.
  intros n l Hn -> Hnz. unfold phi.
  destruct (Z.leb_spec (prodpow l) 1); [lia|]. destruct (Z.leb_spec (prodpow l) 3); [lia|].
  rewrite <- (Z.mul_1_l (prodpow l)) at 1. rewrite phi_loop_formula by exact Hnz. ring.
Qed.
Definition Phi_small_stmt := forall n Lf, n <= 3 -> phi n Lf = if n <=? 1 then n else n - 1.
Lemma phi_small : Phi_small_stmt.
Proof. intros n Lf Hn. unfold phi. destruct (n <=? 1); [reflexivity|]. destruct (Z.leb_spec n 3); [reflexivity|lia]. Qed.

(* ---------------------------------------------------------------------------------------- mobius *)
Lemma mobius_loop_spec : forall l mob,
  mobius_loop mob l = if existsb (fun e => 1 <? e) l then 0 else mob * (-1) ^ Z.of_nat (length l).
Proof.
  induction l as [|e tl IH]; intros mob; cbn [mobius_loop existsb length].
  - cbn. ring.
  - destruct (1 <? e); cbn [orb]; [reflexivity|]. rewrite IH. destruct (existsb _ tl); [reflexivity|].
    rewrite Nat2Z.inj_succ, Z.pow_succ_r by lia. ring.
Qed.
(* mobius(list of exponents) = 0 if some exponent exceeds 1, else (-1)^(number of primes) *)
Definition Mobius_stmt := forall l, mobiusL l = if existsb (fun e => 1 <? e) l then 0 else (-1) ^ Z.of_nat (length l).
Lemma mobius_spec : Mobius_stmt.
Proof.
  intros [|e tl]; [reflexivity|]. unfold mobiusL. rewrite mobius_loop_spec.
  destruct (existsb _ (e :: tl)); [reflexivity|ring].
Qed.

(* ---------------------------------------------------------------------------------------- order *)
Lemma pow_mul_cong n A x k : 0 <= x -> 0 <= k -> cong n (A ^ x) 1 -> cong n (A ^ (x * k)) 1.
Proof. intros Hx Hk H. rewrite Z.pow_mul_r by lia. rewrite H. rewrite Z.pow_1_l by lia. reflexivity. Qed.

(* exponents of 1 are closed under remainder, hence under gcd *)
Lemma pow_gcd_cong n A : forall (k : nat) x y, 0 <= y < Z.of_nat k -> 0 <= x ->
  cong n (A ^ x) 1 -> cong n (A ^ y) 1 -> cong n (A ^ Z.gcd x y) 1.
Proof.
  induction k as [|k IH]; intros x y Hy Hx Hax Hay; [lia|].
  destruct (Z.eq_dec y 0) as [->|Hy0].
  - rewrite Z.gcd_0_r, Z.abs_eq by lia. exact Hax.
  - rewrite (Z.gcd_comm x y), <- (Z.gcd_mod x y Hy0), Z.gcd_comm.
    pose proof (Z.mod_pos_bound x y ltac:(lia)) as Hb.
    apply IH; [lia | lia | exact Hay |].
    assert (Hsplit : A ^ x = A ^ (y * (x / y)) * A ^ (x mod y)).
    { rewrite <- Z.pow_add_r; [|apply Z.mul_nonneg_nonneg; [lia|apply Z.div_pos; lia]|lia].
      f_equal. apply Z.div_mod. exact Hy0. }
    rewrite Hsplit in Hax.
    rewrite (pow_mul_cong n A y (x / y)) in Hax; [|lia|apply Z.div_pos; lia|exact Hay].
    rewrite Z.mul_1_l in Hax. exact Hax.
Qed.

Lemma prime_divisor_nat : forall (k : nat) c, 1 < c < Z.of_nat k -> exists q, prime q /\ (q | c).
Proof.
  induction k as [|k IH]; intros c Hc; [lia|].
  destruct (prime_dec c) as [Hp|Hnp].
  - exists c. split; [exact Hp | apply Z.divide_refl].
  - destruct (not_prime_divide c ltac:(lia) Hnp) as [d [Hd1 Hd2]].
    destruct (IH d ltac:(lia)) as [q [Hq1 Hq2]]. exists q. split; [exact Hq1 | exact (Z.divide_trans _ _ _ Hq2 Hd2)].
Qed.
Lemma prime_divisor c : 1 < c -> exists q, prime q /\ (q | c).
Proof. intros Hc. apply (prime_divisor_nat (Z.to_nat (c + 1))). lia. Qed.

(* g is THE multiplicative order as soon as A^g = 1 and A^(g/q) <> 1 for every prime q | g:
   g divides every exponent d with A^d = 1 (in particular g is the least positive one) *)
Definition Order_minimal_stmt := forall n A g, 0 < g -> cong n (A ^ g) 1 ->
  (forall q, prime q -> (q | g) -> ~ cong n (A ^ (g / q)) 1) ->
  forall d, 0 < d -> cong n (A ^ d) 1 -> (g | d).
Lemma order_minimal : Order_minimal_stmt.
Proof.
  intros n A g Hg Hag Hmin d Hd Had.
  pose proof (pow_gcd_cong n A (Z.to_nat (d + 1)) g d ltac:(lia) ltac:(lia) Hag Had) as He.
  set (e := Z.gcd g d) in *.
  assert (He0 : 0 < e).
  { pose proof (Z.gcd_nonneg g d). destruct (Z.eq_dec e 0) as [E|E]; [|lia].
    apply Z.gcd_eq_0_l in E. lia. }
  destruct (Z.gcd_divide_l g d) as [c Hc]. fold e in Hc.
  assert (Hc0 : 0 < c) by nia.
  destruct (Z.eq_dec c 1) as [->|Hc1].
  - rewrite Z.mul_1_l in Hc. rewrite Hc. apply Z.gcd_divide_r.
  - exfalso. destruct (prime_divisor c ltac:(lia)) as [q [Hq [c' Hc']]].
    assert (Hq2 : 2 <= q) by (destruct Hq; lia).
    apply (Hmin q Hq).
    + exists (c' * e). rewrite Hc, Hc'. ring.
    + replace (g / q) with (e * c').
      * apply pow_mul_cong; [lia | nia | exact He].
      * rewrite Hc, Hc'. replace (c' * q * e) with ((e * c') * q) by ring. rewrite Z.div_mul by lia. reflexivity.
Qed.

(* the inner loop of order / prim_root_of_prime: sound for every fuel *)
Definition Strip_while_stmt := forall n A f fuel g, 0 < g -> 1 < f -> 1 < n -> cong n (A ^ g) 1 ->
  let g' := strip_while fuel A n f g in 0 < g' /\ (g' | g) /\ cong n (A ^ g') 1.
Lemma strip_while_sound : Strip_while_stmt.
Proof.
  intros n A f fuel. induction fuel as [|k IH]; intros g Hg Hf Hn Hag; cbn [strip_while].
  - split; [exact Hg|]. split; [apply Z.divide_refl | exact Hag].
  - destruct (Z.eqb_spec (g mod f) 0) as [Em|Em]; cbn [andb];
      [|split; [exact Hg|]; split; [apply Z.divide_refl | exact Hag]].
    destruct (Z.eqb_spec (powmod A (g / f) n) 1) as [Ep|Ep];
      [|split; [exact Hg|]; split; [apply Z.divide_refl | exact Hag]].
    assert (Hgf : g = f * (g / f)) by (pose proof (Z.div_mod g f ltac:(lia)); lia).
    assert (Hq : 0 < g / f) by nia.
    destruct (IH (g / f) Hq Hf Hn) as [H1 [H2 H3]].
    { apply powmod_eq_1; [lia | lia | exact Ep]. }
    split; [exact H1|]. split; [|exact H3].
    apply Z.divide_trans with (g / f); [exact H2 | exists f; lia].
Qed.

(* is_prim_root: the loop is the conjunction of the tests *)
Definition Is_prim_root_stmt := forall p n Ln Lphi,
  is_prim_root p n Ln Lphi = true <->
  Z.gcd (p mod n) n = 1 /\ forall f, In f Lphi -> powmod (p mod n) (phi n Ln / f) n <> 1.
Lemma is_prim_root_spec : Is_prim_root_stmt.
Proof.
  intros p n Ln Lphi. unfold is_prim_root. destruct (Z.eqb_spec (Z.gcd (p mod n) n) 1) as [E|E].
  - rewrite forallb_forall. split.
    + intros H. split; [exact E|]. intros f Hf. specialize (H f Hf). apply negb_true_iff, Z.eqb_neq in H. exact H.
    + intros [_ H] f Hf. apply negb_true_iff, Z.eqb_neq. apply H, Hf.
  - split; [discriminate | intros [H _]; contradiction].
Qed.
(* an element accepted by is_prim_root has order exactly phi(n): phi(n) divides every exponent of 1.
   Hypotheses: Euler's theorem for this element, and Lphi contains every prime divisor of phi(n) (the factor set) *)
Definition Prim_root_order_stmt := forall p n Ln Lphi, 1 < n -> 0 < phi n Ln ->
  (forall q, prime q -> (q | phi n Ln) -> In q Lphi) ->
  cong n ((p mod n) ^ phi n Ln) 1 ->
  is_prim_root p n Ln Lphi = true ->
  forall d, 0 < d -> cong n (p ^ d) 1 -> (phi n Ln | d).
Lemma prim_root_order : Prim_root_order_stmt.
Proof.
  intros p n Ln Lphi Hn Hphi Hcov Heuler Hpr d Hd Hpd.
  apply is_prim_root_spec in Hpr. destruct Hpr as [_ Hall].
  apply (order_minimal n (p mod n) (phi n Ln) Hphi Heuler); [|exact Hd|].
  - intros q Hq Hdiv Hc. apply (Hall q (Hcov q Hq Hdiv)).
    assert (Hq2 : 2 <= q) by (destruct Hq; lia).
    apply (cong_eq_small n); [apply powmod_range; [lia|apply Z.div_pos; lia] | lia |].
    rewrite (powmod_cong n (p mod n) (phi n Ln / q)) by (apply Z.div_pos; lia). exact Hc.
  - rewrite (cong_mod n p). exact Hpd.
Qed.
