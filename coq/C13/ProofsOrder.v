(* C13 proofs, part 6: the Euclid loop of mpz_invert terminates within its fuel (so invmod IS the inverse of a unit),
   and `order` as a whole function: the value returned is the multiplicative order. *)
From Coq Require Import ZArith Znumtheory Bool List Lia Morphisms Setoid.
From C13 Require Import Model ProofsBase ProofsNumTheo.
Import ListNotations.
Local Open Scope Z_scope.

(* ---------------------------------------------------------------------------------------- mpz_invert *)
Lemma egcd_loop_gcd : forall fuel r0 r1 s0 s1, 0 <= r1 < r0 -> r0 * r1 < 2 ^ Z.of_nat fuel ->
  fst (egcd_loop fuel r0 r1 s0 s1) = Z.gcd r0 r1.
Proof.
  induction fuel as [|f IH]; intros r0 r1 s0 s1 Hr Hprod; cbn [egcd_loop].
  - change (2 ^ Z.of_nat 0) with 1 in Hprod. assert (r1 = 0) by nia. subst. cbn [fst]. rewrite Z.gcd_0_r, Z.abs_eq; lia.
  - destruct (Z.eqb_spec r1 0) as [->|Hr1]; cbn [fst].
    + rewrite Z.gcd_0_r, Z.abs_eq; lia.
    + assert (Hq : r0 - r0 / r1 * r1 = r0 mod r1) by (rewrite Z.mod_eq by lia; ring).
      rewrite Hq. pose proof (Z.mod_pos_bound r0 r1 ltac:(lia)) as Hm.
      rewrite IH.
      * rewrite Z.gcd_comm, Z.gcd_mod by lia. apply Z.gcd_comm.
      * lia.
      * rewrite Nat2Z.inj_succ, Z.pow_succ_r in Hprod by lia.
        assert (Hle : r1 + r0 mod r1 <= r0).
        { pose proof (Z.div_mod r0 r1 Hr1). assert (1 <= r0 / r1) by (apply Z.div_le_lower_bound; lia). nia. }
        nia.
Qed.
(* mpz_invert on a unit: the result is the inverse (no hypothesis on the Euclid loop left) *)
Definition Invmod_spec_stmt := forall a n, 1 < n -> Z.gcd a n = 1 -> cong n (a * invmod a n) 1 /\ 0 <= invmod a n < n.
Lemma invmod_spec : Invmod_spec_stmt.
Proof.
  intros a n Hn Hg. split; [|unfold invmod; apply Z.mod_pos_bound; lia].
  apply invmod_sound. unfold egcd.
  pose proof (Z.mod_pos_bound a n ltac:(lia)) as Hm.
  rewrite egcd_loop_gcd.
  - rewrite Z.gcd_comm, Z.gcd_mod by lia. rewrite Z.gcd_comm. exact Hg.
  - lia.
  - unfold egcd_fuel. rewrite Nat2Z.inj_succ, Z2Nat.id by (pose proof (Z.log2_up_nonneg n); lia).
    pose proof (Z.log2_up_spec n Hn) as [_ Hup]. pose proof (Z.log2_up_nonneg n) as Hl0.
    rewrite Z.pow_succ_r by lia. replace (2 * Z.log2_up n) with (Z.log2_up n + Z.log2_up n) by ring.
    rewrite Z.pow_add_r by lia. nia.
Qed.

(* ---------------------------------------------------------------------------------------- order *)
Section Order.
Variables (n A : Z).
Hypothesis Hn : 1 < n.

(* "f cannot be stripped from g" *)
Definition NS (f g : Z) : Prop := ~ ((f | g) /\ cong n (A ^ (g / f)) 1).

Lemma NS_divisor f g g' : 0 < g -> 0 < g' -> 1 < f -> (g' | g) -> NS f g -> NS f g'.
Proof.
  intros Hg Hg' Hf [c Hc] HNS [Hdiv Hc1]. apply HNS.
  assert (Hc0 : 0 < c) by nia.
  destruct Hdiv as [k Hk]. assert (Hk0 : 0 < k) by nia.
  split.
  - exists (c * k). rewrite Hc, Hk. ring.
  - replace (g / f) with ((g' / f) * c).
    + apply pow_mul_cong; [apply Z.div_pos; lia | lia | exact Hc1].
    + rewrite Hc, Hk. rewrite Z.div_mul by lia. replace (c * (k * f)) with ((k * c) * f) by ring. rewrite Z.div_mul by lia. reflexivity.
Qed.

Lemma powmod_1_iff e : 0 <= e -> (powmod A e n =? 1) = true <-> cong n (A ^ e) 1.
Proof.
  intros He. rewrite Z.eqb_eq. split.
  - apply powmod_eq_1; lia.
  - intros H. apply (cong_eq_small n); [apply powmod_range; lia | lia |]. rewrite (powmod_cong n A e He). exact H.
Qed.

(* the strip loop stops only when f cannot be stripped any more: its fuel suffices *)
Lemma strip_while_complete f : 1 < f -> forall fuel g, 0 < g < 2 ^ Z.of_nat fuel -> NS f (strip_while fuel A n f g).
Proof.
  intros Hf. induction fuel as [|k IH]; intros g Hg; cbn [strip_while].
  - change (2 ^ Z.of_nat 0) with 1 in Hg. lia.
  - destruct (Z.eqb_spec (g mod f) 0) as [Em|Em]; cbn [andb].
    + destruct (powmod A (g / f) n =? 1) eqn:Ep.
      * apply IH. rewrite Nat2Z.inj_succ, Z.pow_succ_r in Hg by lia.
        assert (g = f * (g / f)) by (pose proof (Z.div_mod g f ltac:(lia)); lia). split; nia.
      * intros [_ Hc]. apply powmod_1_iff in Hc; [congruence | apply Z.div_pos; lia].
    + intros [[c Hc] _]. apply Em. rewrite Hc. apply Z.mod_mul. lia.
Qed.
Lemma log2_fuel_bound g : 0 < g -> g < 2 ^ Z.of_nat (log2_fuel g).
Proof.
  intros Hg. unfold log2_fuel. rewrite Nat2Z.inj_succ, Z2Nat.id by apply Z.log2_nonneg.
  apply Z.log2_spec. exact Hg.
Qed.

(* strip_all: every listed factor is stripped as far as possible; earlier results are inherited by the later divisors *)
Lemma strip_all_spec : forall fs g, Forall (fun f => 1 < f) fs -> 0 < g -> cong n (A ^ g) 1 ->
  let g' := strip_all A n fs g in 0 < g' /\ (g' | g) /\ cong n (A ^ g') 1 /\ forall f, In f fs -> NS f g'.
Proof.
  induction fs as [|f tl IH]; intros g Hfs Hg Hag; cbn [strip_all].
  - split; [exact Hg|]. split; [apply Z.divide_refl|]. split; [exact Hag | intros f []].
  - inversion Hfs as [|? ? Hf Htl]; subst.
    destruct (strip_while_sound n A f (log2_fuel g) g Hg Hf Hn Hag) as [H1 [H2 H3]]. cbn zeta in H1, H2, H3.
    pose proof (strip_while_complete f Hf (log2_fuel g) g (conj Hg (log2_fuel_bound g Hg))) as H4.
    set (g1 := strip_while (log2_fuel g) A n f g) in *.
    destruct (IH g1 Htl H1 H3) as [K1 [K2 [K3 K4]]]. cbn zeta in K1, K2, K3, K4.
    split; [exact K1|]. split; [exact (Z.divide_trans _ _ _ K2 H2)|]. split; [exact K3|].
    intros q [<-|Hq]; [|apply K4, Hq].
    apply (NS_divisor f g1); assumption.
Qed.

Lemma order_find_spec phin : forall fs,
  match order_find A n phin fs with
  | Some (g, rest) => exists pre f tl, fs = pre ++ rest /\ rest = f :: tl /\ g = phin / f /\
                                       (powmod A (phin / f) n =? 1) = true /\ forall q, In q pre -> (powmod A (phin / q) n =? 1) = false
  | None => forall q, In q fs -> (powmod A (phin / q) n =? 1) = false
  end.
Proof.
  induction fs as [|f tl IH]; cbn [order_find].
  - intros q [].
  - destruct (powmod A (phin / f) n =? 1) eqn:E.
    + exists [], f, tl. repeat split; try reflexivity. exact E. intros q [].
    + destruct (order_find A n phin tl) as [[g rest]|].
      * destruct IH as [pre [f' [tl' [H1 [H2 [H3 [H4 H5]]]]]]]. exists (f :: pre), f', tl'.
        split; [cbn; rewrite H1; reflexivity|]. split; [exact H2|]. split; [exact H3|]. split; [exact H4|].
        intros q [<-|Hq]; [exact E | apply H5, Hq].
      * intros q [<-|Hq]; [exact E | apply IH, Hq].
Qed.
End Order.

Lemma insert_sorted_In x y l : In y (insert_sorted x l) <-> y = x \/ In y l.
Proof.
  induction l as [|z tl IH]; cbn [insert_sorted].
  - cbn. intuition.
  - destruct (x <=? z); cbn [In]; [intuition | rewrite IH; intuition].
Qed.
Lemma sortZ_In y l : In y (sortZ l) <-> In y l.
Proof.
  unfold sortZ. induction l as [|x tl IH]; cbn [fold_right]; [tauto|].
  rewrite insert_sorted_In, IH. cbn [In]. intuition.
Qed.

(* order(g, p, n): the value returned is the multiplicative order of p modulo n — it is positive, p^g = 1, and it divides
   every positive exponent d with p^d = 1 (hence is the least one).
   Hypotheses: Lphi is the factor set of phi(n) (its elements are > 1, divide phi(n), and every prime divisor of phi(n)
   is listed) and Euler's theorem p^phi(n) = 1 for this unit. *)
Definition Order_correct_stmt := forall p n Ln Lphi, 1 < n ->
  let phin := phi n Ln in
  0 < phin ->
  Forall (fun f => 1 < f /\ (f | phin)) Lphi ->
  (forall q, prime q -> (q | phin) -> In q Lphi) ->
  Z.gcd (p mod n) n = 1 -> cong n ((p mod n) ^ phin) 1 ->
  let g := order p n Ln Lphi in
  0 < g /\ cong n (p ^ g) 1 /\ forall d, 0 < d -> cong n (p ^ d) 1 -> (g | d).
Lemma order_correct : Order_correct_stmt.
Proof.
  intros p n Ln Lphi Hn phin Hphi HL Hcov Hgcd Heuler. cbn zeta. rewrite Forall_forall in HL.
  assert (HpA : forall e, cong n (p ^ e) ((p mod n) ^ e)) by (intros e; rewrite (cong_mod n p); reflexivity).
  unfold order. fold phin. set (A := p mod n) in *.
  destruct (Z.eqb_spec A 0) as [E0|E0].
  { exfalso. rewrite E0 in Hgcd. rewrite Z.gcd_0_l, Z.abs_eq in Hgcd; lia. }
  destruct (Z.eqb_spec A 1) as [E1|E1].
  { split; [lia|]. split; [rewrite HpA, E1; reflexivity | intros d _ _; apply Z.divide_1_l]. }
  rewrite Hgcd. cbn [Z.eqb Pos.eqb].
  (* the certificate, then order_minimal *)
  assert (Hcert : forall g, 0 < g -> (g | phin) -> cong n (A ^ g) 1 -> (forall f, In f (sortZ Lphi) -> NS n A f g) ->
                  0 < g /\ cong n (p ^ g) 1 /\ forall d, 0 < d -> cong n (p ^ d) 1 -> (g | d)).
  { intros g Hg Hdiv Hag HNS. split; [exact Hg|]. split; [rewrite HpA; exact Hag|].
    intros d Hd Hpd. apply (order_minimal n A g Hg Hag); [|exact Hd|rewrite <- HpA; exact Hpd].
    intros q Hq Hqg Hc. apply (HNS q); [|split; assumption].
    apply (proj2 (sortZ_In _ _)), Hcov; [exact Hq | exact (Z.divide_trans _ _ _ Hqg Hdiv)]. }
  assert (HL' : Forall (fun f => 1 < f) (sortZ Lphi)).
  { apply Forall_forall. intros f Hf. apply (proj1 (sortZ_In _ _)) in Hf. apply (proj1 (HL f Hf)). }
  pose proof (order_find_spec n A phin (sortZ Lphi)) as Hfind.
  destruct (order_find A n phin (sortZ Lphi)) as [[g0 rest]|].
  - destruct Hfind as [pre [f [tl [Hsplit [Hrest [Hg0 [Hf1 Hpre]]]]]]].
    assert (Hfin : In f (sortZ Lphi)) by (rewrite Hsplit, Hrest; apply in_or_app; right; left; reflexivity).
    assert (HfL : 1 < f /\ (f | phin)) by (apply HL, (proj1 (sortZ_In _ _)), Hfin).
    destruct HfL as [Hf2 [c Hc]].
    assert (Hg0eq : g0 = c) by (rewrite Hg0, Hc; apply Z.div_mul; lia).
    assert (Hg0pos : 0 < g0) by nia.
    assert (Hag0 : cong n (A ^ g0) 1) by (rewrite Hg0; apply (powmod_1_iff n A Hn); [apply Z.div_pos; lia | exact Hf1]).
    assert (Hrest1 : Forall (fun f => 1 < f) rest).
    { apply Forall_forall. intros q Hq. rewrite Forall_forall in HL'. apply HL'. rewrite Hsplit. apply in_or_app. right. exact Hq. }
    destruct (strip_all_spec n A Hn rest g0 Hrest1 Hg0pos Hag0) as [K1 [K2 [K3 K4]]]. cbn zeta in K1, K2, K3, K4.
    assert (Hdivphi : (strip_all A n rest g0 | phin)).
    { apply Z.divide_trans with g0; [exact K2|]. exists f. rewrite Hg0eq, Hc. ring. }
    apply Hcert; [exact K1 | exact Hdivphi | exact K3 |].
    intros q Hq. rewrite Hsplit in Hq. apply in_app_or in Hq. destruct Hq as [Hq|Hq]; [|apply K4, Hq].
    (* q before f in the list: A^(phin/q) <> 1, inherited by the divisor *)
    assert (Hq1 : 1 < q) by (rewrite Forall_forall in HL'; apply HL'; rewrite Hsplit; apply in_or_app; left; exact Hq).
    apply (NS_divisor n A q phin); [exact Hphi | exact K1 | exact Hq1 | exact Hdivphi |].
    intros [_ Hc1]. apply (powmod_1_iff n A Hn) in Hc1; [|apply Z.div_pos; lia]. rewrite (Hpre q Hq) in Hc1. discriminate.
  - apply Hcert; [exact Hphi | apply Z.divide_refl | exact Heuler |].
    intros q Hq [_ Hc1].
    assert (Hq1 : 1 < q) by (rewrite Forall_forall in HL'; apply HL', Hq).
    apply (powmod_1_iff n A Hn) in Hc1; [|apply Z.div_pos; lia]. rewrite (Hfind q Hq) in Hc1. discriminate.
Qed.
