(* C13 proofs, part 9: sqrootmodprimepower as a whole function (soundness, odd prime p, every a, k >= 1, every fuel):
   whatever it returns other than -1 is a square root of a modulo p^k. *)
From Coq Require Import ZArith Znumtheory Zpow_facts Bool List Lia Morphisms Setoid.
From C13 Require Import Model ProofsBase ProofsSqrt ProofsLift ProofsOrder.
Import ListNotations.
Local Open Scope Z_scope.

Lemma strip_p_spec p : p <> 0 -> forall fuel b t, 0 <= t ->
  let '(b', t') := strip_p fuel b p t in b * p ^ t = b' * p ^ t' /\ 0 <= t'.
Proof.
  intros Hp. induction fuel as [|f IH]; intros b t Ht; cbn [strip_p]; [split; [reflexivity|exact Ht]|].
  destruct (Z.eqb_spec (Z.rem b p) 0) as [E|E]; [|split; [reflexivity|exact Ht]].
  specialize (IH (Z.quot b p) (t + 1) ltac:(lia)). destruct (strip_p f (Z.quot b p) p (t + 1)) as [b' t'].
  destruct IH as [H1 H2]. split; [|exact H2]. rewrite <- H1.
  pose proof (Z.quot_rem' b p) as Hq. rewrite E in Hq. rewrite Z.pow_add_r, Z.pow_1_r by lia.
  rewrite Hq at 1. ring.
Qed.

Lemma pow_divide p j : 1 <= j -> (p | p ^ j).
Proof.
  intros Hj. exists (p ^ (j - 1)). replace j with ((j - 1) + 1) at 1 by lia. rewrite Z.pow_add_r, Z.pow_1_r by lia. reflexivity.
Qed.

(* a root of a unit is a unit; for an odd prime so is twice the root *)
Lemma two_root_unit p m x a j : prime p -> 2 < p -> (p | m) -> cong m (x * x) a -> ~ (p | a) -> 0 <= j ->
  Z.gcd (x * 2) (p ^ j) = 1.
Proof.
  intros Hp Hp2 Hpm Hx Hpa Hj. apply Zgcd_1_rel_prime. apply rel_prime_Zpower_r; [exact Hj|].
  apply rel_prime_sym. apply prime_rel_prime; [exact Hp|]. intros Hd.
  apply prime_mult in Hd; [|exact Hp]. destruct Hd as [Hd|Hd].
  - apply Hpa. destruct Hx as [c Hc]. destruct Hpm as [m' ->]. destruct Hd as [x' ->].
    exists (x' * x' * p - c * m'). lia.
  - apply Z.divide_pos_le in Hd; lia.
Qed.

Definition Draw_hyps (p : Z) (draws : list Z) : Prop :=
  (p mod 8 = 5 -> cong p (2 ^ ((p - 1) / 2)) (-1)) /\
  (p mod 16 = 9 -> cong p (2 ^ ((p - 1) / 2)) 1 /\ Forall (fun d => 0 < d < p /\ cong p (d ^ (p - 1)) 1) draws).

Definition Sqrootmodprimepower_sound_stmt := forall fuel a p k draws x, prime p -> 2 < p -> 1 <= k -> Draw_hyps p draws ->
  sqrootmodprimepower fuel a p k (p ^ k) draws = Some x -> x <> -1 -> cong (p ^ k) (x * x) a.
Lemma sqrootmodprimepower_sound : Sqrootmodprimepower_sound_stmt.
Proof.
  unfold Sqrootmodprimepower_sound_stmt. induction fuel as [|f IH]; intros a p k draws x Hp Hp2 Hk [Hd5 Hd9]; cbn [sqrootmodprimepower]; [discriminate|].
  assert (Hpk : 0 < p ^ k) by (apply Z.pow_pos_nonneg; lia).
  set (pk := p ^ k) in *. set (tmpa := a mod pk).
  assert (Hta : cong pk tmpa a) by apply cong_mod.
  assert (Hppk : (p | pk)) by (apply pow_divide; lia).
  destruct (Z.eqb_spec tmpa 0) as [E0|E0]; [intros [= <-] _; rewrite <- Hta, E0; reflexivity|].
  destruct (Z.eqb_spec tmpa 1) as [E1|E1]; [intros [= <-] _; rewrite <- Hta, E1; reflexivity|].
  destruct (Z.eqb_spec k 1) as [Ek1|Ek1].
  { intros Hx Hm1. rewrite <- Hta. unfold pk. rewrite Ek1, Z.pow_1_r.
    exact (sqrootmodprime_sound p tmpa draws x Hp Hd5 Hd9 Hx Hm1). }
  destruct (Z.eqb_spec (Z.rem tmpa p) 0) as [Er|Er].
  - (* a = b p^t *)
    pose proof (strip_p_spec p ltac:(lia) (log2_fuel tmpa) tmpa 0 ltac:(lia)) as Hs.
    destruct (strip_p (log2_fuel tmpa) tmpa p 0) as [b t]. destruct Hs as [Hs Ht]. rewrite Z.pow_0_r, Z.mul_1_r in Hs.
    destruct (Z.even t) eqn:Et; [|intros [= <-] H; contradiction H; reflexivity].
    destruct (sqrootmodprimepower f b p k pk draws) as [sqrtb|] eqn:Erec; [|discriminate].
    destruct (Z.eqb_spec sqrtb (-1)) as [Em|Em]; [intros [= <-] H; contradiction H; reflexivity|].
    intros [= <-] _. pose proof (IH b p k draws sqrtb Hp Hp2 Hk (conj Hd5 Hd9) Erec Em) as Hb. fold pk in Hb.
    rewrite cong_rem. apply Z.even_spec in Et. destruct Et as [h ->].
    replace (2 * h / 2) with h by (rewrite (Z.mul_comm 2 h), Z.div_mul; lia).
    rewrite (powmod_cong pk p h) by lia.
    transitivity ((sqrtb * sqrtb) * p ^ (2 * h)).
    { apply eq_subrelation; [typeclasses eauto|]. replace (2 * h) with (h + h) by ring. rewrite Z.pow_add_r by lia. ring. }
    rewrite Hb, <- Hta, Hs. reflexivity.
  - assert (Hpa : ~ (p | a)).
    { intros Hd. apply Er. apply Z.rem_divide; [lia|]. destruct Hta as [c Hc]. destruct Hppk as [m Hm]. destruct Hd as [a' Ha'].
      exists (a' + c * m). lia. }
    destruct (Z.ltb_spec k 3) as [Hk3|Hk3].
    + (* k = 2: sqrootlinear *)
      assert (k = 2) by lia. subst k. unfold sqrootlinear.
      destruct (sqrootmodprime a p draws) as [x0|] eqn:E0'; [|discriminate].
      destruct (Z.eqb_spec x0 (-1)) as [Em|Em]; [intros [= <-] H; contradiction H; exact Em|].
      change (Z.to_nat (2 - 1)) with 1%nat. cbn [linear_loop]. intros [= <-] _.
      pose proof (sqrootmodprime_sound p a draws x0 Hp Hd5 Hd9 E0' Em) as Hx0.
      unfold pk. rewrite Z.pow_2_r.
      apply onemore_step; [lia | lia | apply Z.divide_refl | exact Hx0 |].
      apply invmod_spec; [lia|].
      pose proof (two_root_unit p p x0 a 1 Hp Hp2 (Z.divide_refl p) Hx0 Hpa ltac:(lia)) as Hu. rewrite Z.pow_1_r in Hu. exact Hu.
    + (* quadratic version *)
      set (kd := k / 2). assert (Hkd : 1 <= kd) by (apply Z.div_le_lower_bound; lia).
      assert (Hsq : 1 < p ^ kd) by (apply Z.pow_gt_1; lia).
      destruct (sqrootmodprimepower f a p kd (p ^ kd) draws) as [x0|] eqn:Erec; [|discriminate].
      destruct (Z.eqb_spec x0 (-1)) as [Em|Em]; [intros [= <-] H; contradiction H; exact Em|].
      pose proof (IH a p kd draws x0 Hp Hp2 Hkd (conj Hd5 Hd9) Erec Em) as Hx0.
      assert (Hdiv : (p | p ^ kd)) by (apply pow_divide; lia).
      assert (Hlift : cong (p ^ kd * p ^ kd) (hensellift x0 a (p ^ kd) * hensellift x0 a (p ^ kd)) a).
      { apply hensel_step; [lia | exact Hx0 |]. apply invmod_spec; [exact Hsq|].
        apply (two_root_unit p (p ^ kd) x0 a kd Hp Hp2 Hdiv Hx0 Hpa); lia. }
      rewrite <- Z.pow_add_r in Hlift by lia.
      set (x1 := hensellift x0 a (p ^ kd)) in *.
      destruct (Z.odd k) eqn:Eo.
      * destruct (Z.eqb_spec x1 (-1)) as [Em1|Em1]; [intros [= <-] H; contradiction H; exact Em1|].
        intros [= <-] _. apply Z.odd_spec in Eo. destruct Eo as [h Hkh].
        assert (Hkd2 : kd = h) by (unfold kd; rewrite Hkh; replace (2 * h + 1) with (1 + h * 2) by ring; rewrite Z.div_add by lia; reflexivity).
        rewrite Hkd2 in Hlift.
        assert (Hq : Z.quot pk p = p ^ (h + h)).
        { unfold pk. rewrite Hkh. replace (2 * h + 1) with (Z.succ (h + h)) by lia. rewrite Z.pow_succ_r by lia.
          rewrite (Z.mul_comm p), Z.quot_mul by lia. reflexivity. }
        rewrite Hq. unfold pk. replace k with ((h + h) + 1) by lia. rewrite (Z.pow_add_r p (h + h) 1), Z.pow_1_r by lia.
        assert (Hdiv2 : (p | p ^ (h + h))) by (apply pow_divide; lia).
        apply onemore_step; [apply Z.pow_nonzero; lia | lia | exact Hdiv2 | exact Hlift |].
        apply invmod_spec; [lia|].
        pose proof (two_root_unit p (p ^ (h + h)) x1 a 1 Hp Hp2 Hdiv2 Hlift Hpa ltac:(lia)) as Hu. rewrite Z.pow_1_r in Hu. exact Hu.
      * intros [= <-] _. assert (Hev : Z.even k = true) by (rewrite <- Z.negb_odd, Eo; reflexivity).
        apply Z.even_spec in Hev. destruct Hev as [h Hkh].
        assert (Hkd2 : kd = h) by (unfold kd; rewrite Hkh, (Z.mul_comm 2 h), Z.div_mul by lia; reflexivity).
        rewrite Hkd2 in Hlift. unfold pk. replace k with (h + h) by lia. exact Hlift.
Qed.
