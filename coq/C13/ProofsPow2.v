(* C13 proofs, part 8: sqrootmodpoweroftwo as a whole function (soundness for every a, k >= 1, every fuel):
   whatever it returns other than -1 is a square root of a modulo 2^k. *)
From Coq Require Import ZArith Znumtheory Zpow_facts Bool List Lia Morphisms Setoid.
From C13 Require Import Model ProofsBase ProofsLift ProofsOrder.
Import ListNotations.
Local Open Scope Z_scope.

Lemma split2_spec : forall fuel q e, 0 <= e ->
  let '(q', e') := split2 fuel q e in q * 2 ^ e = q' * 2 ^ e' /\ 0 <= e'.
Proof.
  induction fuel as [|f IH]; intros q e He; cbn [split2]; [split; [reflexivity|exact He]|].
  destruct (Z.even q) eqn:Ev; [|split; [reflexivity|exact He]].
  specialize (IH (q / 2) (e + 1) ltac:(lia)). destruct (split2 f (q / 2) (e + 1)) as [q' e'].
  destruct IH as [H1 H2]. split; [|exact H2]. rewrite <- H1.
  apply Z.even_spec in Ev. destruct Ev as [c ->]. replace (2 * c / 2) with c by (rewrite (Z.mul_comm 2 c), Z.div_mul; lia).
  rewrite Z.pow_add_r, Z.pow_1_r by lia. ring.
Qed.

Lemma odd_of_square_cong c x a : cong (2 * c) (x * x) a -> Z.odd a = true -> Z.odd x = true.
Proof.
  intros [k Hk] Ha. destruct (Z.odd x) eqn:Ex; [reflexivity|exfalso].
  rewrite <- Z.negb_even in Ex. apply negb_false_iff, Z.even_spec in Ex. destruct Ex as [y ->].
  apply Z.odd_spec in Ha. destruct Ha as [b ->]. lia.
Qed.
Lemma gcd_odd_pow2 x j : 0 <= j -> Z.odd x = true -> Z.gcd x (2 ^ j) = 1.
Proof.
  intros Hj Hx. apply Zgcd_1_rel_prime. apply rel_prime_Zpower_r; [exact Hj|].
  apply Z.odd_spec in Hx. destruct Hx as [y ->]. apply bezout_rel_prime. apply Bezout_intro with 1 (- y). ring.
Qed.
Lemma pow2_k123_sound tmpa k : (k = 1 \/ k = 2 \/ k = 3) -> 0 <= tmpa < 2 ^ k -> pow2_k123 tmpa k <> -1 ->
  cong (2 ^ k) (pow2_k123 tmpa k * pow2_k123 tmpa k) tmpa.
Proof.
  intros Hk Hr. unfold pow2_k123. destruct Hk as [-> | [-> | ->]].
  - change (2 ^ 1) with 2 in *. cbn [Z.eqb Pos.eqb]. intros _. assert (H : tmpa = 0 \/ tmpa = 1) by lia. destruct H as [-> | ->]; reflexivity.
  - cbn [Z.eqb Pos.eqb]. destruct (Z.eqb_spec tmpa 0) as [->|]; [reflexivity|].
    destruct (Z.eqb_spec tmpa 1) as [->|]; [reflexivity|]. intros H; contradiction H; reflexivity.
  - cbn [Z.eqb Pos.eqb]. destruct (Z.eqb_spec tmpa 0) as [->|]; [reflexivity|].
    destruct (Z.eqb_spec tmpa 1) as [->|]; [reflexivity|].
    destruct (Z.eqb_spec tmpa 4) as [->|]; [reflexivity|]. intros H; contradiction H; reflexivity.
Qed.
Lemma sqroottwolinear_nonres a k : Z.odd a = true -> a mod 8 <> 1 -> sqroottwolinear a k = -1.
Proof.
  intros Ha H8. unfold sqroottwolinear.
  assert (Hm : a mod 8 = 3 \/ a mod 8 = 5 \/ a mod 8 = 7).
  { apply Z.odd_spec in Ha. destruct Ha as [y ->]. pose proof (Z.mod_pos_bound (2 * y + 1) 8 ltac:(lia)).
    pose proof (Z.div_mod (2 * y + 1) 8 ltac:(lia)). lia. }
  destruct Hm as [-> | [-> | ->]]; reflexivity.
Qed.

Definition Sqrootmodpoweroftwo_sound_stmt := forall fuel a k, 1 <= k ->
  sqrootmodpoweroftwo fuel a k (2 ^ k) <> -1 ->
  cong (2 ^ k) (sqrootmodpoweroftwo fuel a k (2 ^ k) * sqrootmodpoweroftwo fuel a k (2 ^ k)) a.
Lemma sqrootmodpoweroftwo_sound : Sqrootmodpoweroftwo_sound_stmt.
Proof.
  unfold Sqrootmodpoweroftwo_sound_stmt. induction fuel as [|f IH]; intros a k Hk; cbn [sqrootmodpoweroftwo]; [intros H; contradiction H; reflexivity|].
  assert (Hpk : 0 < 2 ^ k) by (apply Z.pow_pos_nonneg; lia).
  set (pk := 2 ^ k) in *. set (tmpa := a mod pk).
  assert (Hta : cong pk tmpa a) by apply cong_mod.
  assert (Htr : 0 <= tmpa < pk) by (apply Z.mod_pos_bound; lia).
  destruct ((k =? 1) || (k =? 2) || (k =? 3)) eqn:E123.
  { intros Hx. rewrite <- Hta. apply pow2_k123_sound; [|exact Htr|exact Hx].
    apply orb_true_iff in E123. destruct E123 as [E|E]; [apply orb_true_iff in E; destruct E as [E|E]|]; apply Z.eqb_eq in E; lia. }
  assert (Hk4 : 4 <= k).
  { apply orb_false_iff in E123. destruct E123 as [E E3]. apply orb_false_iff in E. destruct E as [E1 E2].
    apply Z.eqb_neq in E1, E2, E3. lia. }
  destruct (Z.eqb_spec tmpa 0) as [E0|E0]; [intros _; rewrite <- Hta, E0; reflexivity|].
  destruct (Z.eqb_spec tmpa 1) as [E1|E1]; [intros _; rewrite <- Hta, E1; reflexivity|].
  destruct (Z.even tmpa) eqn:Eev.
  - (* a = b 2^t *)
    pose proof (split2_spec (log2_fuel tmpa) tmpa 0 ltac:(lia)) as Hs.
    destruct (split2 (log2_fuel tmpa) tmpa 0) as [b t]. destruct Hs as [Hs Ht]. rewrite Z.pow_0_r, Z.mul_1_r in Hs.
    destruct (Z.even t) eqn:Et; [|intros H; contradiction H; reflexivity].
    destruct (Z.eqb_spec (sqrootmodpoweroftwo f b k pk) (-1)) as [Em|Em]; [intros H; contradiction H; exact Em|].
    intros _. specialize (IH b k Hk Em). fold pk in IH. rewrite cong_rem.
    set (x := sqrootmodpoweroftwo f b k pk) in *.
    apply Z.even_spec in Et. destruct Et as [h ->]. replace (2 * h / 2) with h by (rewrite (Z.mul_comm 2 h), Z.div_mul; lia).
    transitivity ((x * x) * 2 ^ (2 * h)).
    { apply eq_subrelation; [typeclasses eauto|]. replace (2 * h) with (h + h) by ring. rewrite Z.pow_add_r by lia. ring. }
    rewrite IH, <- Hta, Hs. reflexivity.
  - assert (Hodd : Z.odd tmpa = true) by (rewrite <- Z.negb_even, Eev; reflexivity).
    destruct (Z.ltb_spec k 29) as [Hk29|Hk29].
    + (* linear 2-adic version *)
      intros Hx. rewrite <- Hta. destruct (Z.eq_dec (tmpa mod 8) 1) as [E8|E8].
      * apply sqroottwolinear_correct; lia.
      * exfalso. apply Hx. apply sqroottwolinear_nonres; assumption.
    + (* quadratic version: recursion on k/2+1, 2-adic lift, correction for odd k *)
      set (kk := k / 2 + 1). set (spk := 2 * 2 ^ (k / 2)).
      assert (Hk2 : 14 <= k / 2) by (apply Z.div_le_lower_bound; lia).
      assert (Hspk : spk = 2 ^ kk) by (unfold spk, kk; rewrite Z.pow_add_r, Z.pow_1_r by lia; ring).
      assert (Hh : 0 < 2 ^ (k / 2)) by (apply Z.pow_pos_nonneg; lia).
      destruct (Z.eqb_spec (sqrootmodpoweroftwo f tmpa kk spk) (-1)) as [Em|Em]; [intros H; contradiction H; exact Em|].
      rewrite Hspk in Em. pose proof (IH tmpa kk ltac:(unfold kk; lia) Em) as Hx0. rewrite <- Hspk in Hx0, Em.
      set (x0 := sqrootmodpoweroftwo f tmpa kk spk) in *.
      assert (Hx0odd : Z.odd x0 = true) by (apply (odd_of_square_cong (2 ^ (k / 2)) x0 tmpa); [exact Hx0 | exact Hodd]).
      assert (Hhalf : spk / 2 = 2 ^ (k / 2)) by (unfold spk; rewrite Z.mul_comm, Z.div_mul by lia; reflexivity).
      assert (Hlift : cong (2 ^ (k / 2) * 2 ^ (k / 2)) (twolift x0 tmpa spk * twolift x0 tmpa spk) tmpa).
      { rewrite <- Hhalf. apply twolift_step; [lia | unfold spk; rewrite Z.mul_comm, Z.mod_mul by lia; reflexivity | exact Hx0 |].
        rewrite Hhalf. apply invmod_spec; [|apply gcd_odd_pow2; [lia | exact Hx0odd]].
        apply Z.pow_gt_1; lia. }
      set (x1 := twolift x0 tmpa spk) in *.
      destruct (Z.even k) eqn:Ek.
      * intros _. rewrite <- Hta. apply Z.even_spec in Ek. destruct Ek as [h Ek].
        assert (Hkh : k / 2 = h) by (rewrite Ek, Z.mul_comm, Z.div_mul by lia; reflexivity).
        rewrite Hkh in Hlift. rewrite <- Z.pow_add_r in Hlift by lia. unfold pk. replace k with (h + h) by lia. exact Hlift.
      * destruct (Z.eqb_spec x1 (-1)) as [Em1|Em1]; [intros H; contradiction H; exact Em1|].
        intros _. rewrite <- Hta.
        assert (Hko : Z.odd k = true) by (rewrite <- Z.negb_even, Ek; reflexivity).
        apply Z.odd_spec in Hko. destruct Hko as [h Hkh].
        assert (Hkh2 : k / 2 = h) by (rewrite Hkh; replace (2 * h + 1) with (1 + h * 2) by ring; rewrite Z.div_add by lia; reflexivity).
        rewrite Hkh2 in Hlift. rewrite <- Z.pow_add_r in Hlift by lia.
        set (m := 2 ^ (k - 4)). assert (Hm : 0 < m) by (apply Z.pow_pos_nonneg; lia).
        assert (H16 : pk = 16 * m) by (unfold pk, m; change 16 with (2 ^ 4); rewrite <- Z.pow_add_r by lia; f_equal; lia).
        assert (H8 : 2 ^ (h + h) = 8 * m) by (unfold m; change 8 with (2 ^ 3); rewrite <- Z.pow_add_r by lia; f_equal; lia).
        rewrite H8 in Hlift.
        assert (Hx1odd : Z.odd x1 = true) by (apply (odd_of_square_cong (4 * m) x1 tmpa); [replace (2 * (4 * m)) with (8 * m) by ring; exact Hlift | exact Hodd]).
        pose proof (pow2_fixup m x1 tmpa Hm Hx1odd Hlift) as Hfix. cbv zeta in Hfix.
        rewrite H16. exact Hfix.
Qed.
