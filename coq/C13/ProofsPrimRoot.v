(* C13 proofs, part 15: prim_root(A, runs, n) for an odd prime n > 4 (the k = 1, odd branch: no lifting, no parity correction):
   whatever candidate the function returns (2, 3, 5, 6 or the random one that passed the guards) has order exactly n - 1. *)
From Coq Require Import ZArith Znumtheory Bool List Lia Morphisms Setoid.
From C13 Require Import Model ProofsBase ProofsSqrt ProofsNumTheo ProofsOrder ProofsTS ProofsPrp.
Ltac Zify.zify_post_hook ::= Z.div_mod_to_equations.
Import ListNotations.
Local Open Scope Z_scope.

Lemma phi_prime_self p : 3 < p -> phi p [p] = p - 1.
Proof.
  intros Hp. unfold phi. destruct (Z.leb_spec p 1); [lia|]. destruct (Z.leb_spec p 3); [lia|].
  unfold phi_loop. cbn [fold_left]. rewrite Z.div_same by lia. ring.
Qed.

Lemma pr_test_spec A m Lq : pr_test A m Lq = true -> forall q, In q Lq -> powmod A q m <> 1.
Proof.
  unfold pr_test. rewrite forallb_forall. intros H q Hq. specialize (H q Hq). apply negb_true_iff, Z.eqb_neq in H. exact H.
Qed.

Definition Prim_root_prime_stmt := forall p Lp1 cand A runs, prime p -> 4 < p ->
  (forall u, ~ (p | u) -> cong p (u ^ (p - 1)) 1) ->                      (* Fermat's little theorem for p *)
  (forall q, prime q -> (q | p - 1) -> In q Lp1) ->                       (* Lp1 = set(phi(p)) is complete *)
  prim_root p p Lp1 cand = Some (A, runs) ->
  forall d, 0 < d -> cong p (A ^ d) 1 -> (p - 1 | d).
Lemma prim_root_prime : Prim_root_prime_stmt.
Proof.
  intros p Lp1 cand A runs Hp Hp4 Hfer Hcov. assert (Hp1 : 1 < p) by lia.
  assert (Hodd : p mod 2 = 1).
  { pose proof (odd_prime_odd p Hp ltac:(lia)) as Ho. apply Z.odd_spec in Ho. destruct Ho as [h Hh]. lia. }
  unfold prim_root. destruct (Z.leb_spec p 4); [lia|].
  destruct (Z.eqb_spec (p mod 4) 0) as [E4|_]; [exfalso; clear - E4 Hodd; lia|].
  rewrite Hodd. cbn [Z.eqb]. change (log2_fuel p) with (S (Z.to_nat (Z.log2 p))). cbn [pr_k]. rewrite Z.eqb_refl.
  rewrite phi_prime_self by lia. cbn [Z.eqb andb].
  set (Lq := map (fun f => (p - 1) / f) Lp1).
  assert (Hkey : forall B, pr_test B p Lq = true -> forall d, 0 < d -> cong p (B ^ d) 1 -> (p - 1 | d)).
  { intros B Ht d Hd HBd.
    assert (Hunit : ~ (p | B)) by (apply (unit_of_pow1 p (p - 1) Hp ltac:(lia) Hfer B d Hd HBd)).
    apply (order_minimal p B (p - 1) ltac:(lia) (Hfer B Hunit)); [|exact Hd | exact HBd].
    intros q Hq Hdiv Hc. apply (pr_test_spec B p Lq Ht ((p - 1) / q)).
    - unfold Lq. apply in_map_iff. exists q. split; [reflexivity | apply Hcov; assumption].
    - assert (Hq2 : 2 <= q) by (destruct Hq; lia).
      apply (cong_eq_small p); [apply powmod_range; [lia | apply Z.div_pos; lia] | lia |].
      rewrite (powmod_cong p B ((p - 1) / q)) by (apply Z.div_pos; lia). exact Hc. }
  destruct (pr_test 2 p Lq) eqn:E2; [intros [= <- _]; apply Hkey, E2|].
  destruct (pr_test 3 p Lq) eqn:E3; [intros [= <- _]; apply Hkey, E3|].
  destruct (pr_test 5 p Lq) eqn:E5; [intros [= <- _]; apply Hkey, E5|].
  destruct (pr_test 6 p Lq) eqn:E6; [intros [= <- _]; apply Hkey, E6|].
  destruct ((7 <=? cand) && (cand <? p) && (Z.gcd cand p =? 1) && pr_test cand p Lq) eqn:Ec; [|discriminate].
  intros [= <- _]. apply andb_true_iff in Ec. destruct Ec as [_ Ec]. apply Hkey, Ec.
Qed.

Example prim_root_prime_17 : prim_root 17 17 [2] 0 = Some (3, 2).
Proof. vm_compute. reflexivity. Qed.
