(* C13 proofs, part 11: prim_root_of_prime, second phase ("we need to add other primes"): the order bookkeeping
   `ppin(g,f); ppin(Aorder,f); ... Aorder *= phin/g` keeps  Aorder | ord(A)  and  Aorder | phin, so the element returned when
   the loop ends (Aorder >= phin) has order exactly phin = n - 1: it is a primitive root. *)
From Coq Require Import ZArith Znumtheory Bool List Lia Morphisms Setoid.
From C13 Require Import Model ProofsBase ProofsNumTheo ProofsOrder.
Import ListNotations.
Local Open Scope Z_scope.
Ltac Zify.zify_post_hook ::= Z.div_mod_to_equations.

(* ppin(res, f): while (res mod f == 0) res /= f *)
Lemma ppin_spec f : 1 < f -> forall fuel res, 0 < res < 2 ^ Z.of_nat fuel ->
  0 < ppin fuel res f /\ (exists j, 0 <= j /\ res = ppin fuel res f * f ^ j) /\ ~ (f | ppin fuel res f).
Proof.
  intros Hf. induction fuel as [|k IH]; intros res Hres; cbn [ppin].
  - change (2 ^ Z.of_nat 0) with 1 in Hres. lia.
  - destruct (Z.eqb_spec (res mod f) 0) as [E|E].
    + assert (Hq : res = f * (res / f)) by (pose proof (Z.div_mod res f ltac:(lia)); lia).
      rewrite Nat2Z.inj_succ, Z.pow_succ_r in Hres by lia.
      destruct (IH (res / f) ltac:(nia)) as [H1 [[j [Hj H2]] H3]].
      split; [exact H1|]. split; [|exact H3]. exists (j + 1). split; [lia|].
      rewrite Z.pow_add_r, Z.pow_1_r by lia. rewrite Hq at 1. rewrite H2 at 1. ring.
    + split; [lia|]. split; [exists 0; split; [lia|]; rewrite Z.pow_0_r; ring|].
      intros Hd. apply E. apply Z.mod_divide; [lia | exact Hd].
Qed.

(* products of elements of a list *)
Inductive mult_of (l : list Z) : Z -> Prop :=
  | mo_one : mult_of l 1
  | mo_mul : forall q Q, In q l -> mult_of l Q -> mult_of l (q * Q).
Lemma mult_of_pow l f Q : In f l -> mult_of l Q -> forall j, 0 <= j -> mult_of l (f ^ j * Q).
Proof.
  intros Hf HQ. apply natlike_ind.
  - rewrite Z.pow_0_r, Z.mul_1_l. exact HQ.
  - intros j Hj IH. rewrite Z.pow_succ_r by lia. rewrite <- Z.mul_assoc. apply mo_mul; assumption.
Qed.
Lemma mult_of_mul l Q1 : mult_of l Q1 -> forall Q2, mult_of l Q2 -> mult_of l (Q1 * Q2).
Proof.
  induction 1 as [|q Q Hq HQ IH]; intros Q2 H2; [rewrite Z.mul_1_l; exact H2|].
  rewrite <- Z.mul_assoc. apply mo_mul; [exact Hq | apply IH, H2].
Qed.
Lemma mult_of_rel_prime l c Q : (forall q, In q l -> rel_prime q c) -> mult_of l Q -> rel_prime Q c.
Proof.
  intros Hl. induction 1 as [|q Q Hq HQ IH].
  - apply rel_prime_1.
  - apply rel_prime_sym, rel_prime_mult; apply rel_prime_sym; [apply Hl, Hq | exact IH].
Qed.
Lemma mult_of_pos l Q : (forall q, In q l -> 0 < q) -> mult_of l Q -> 0 < Q.
Proof. intros Hl. induction 1 as [|q Q Hq HQ IH]; [lia|]. specialize (Hl q Hq). nia. Qed.

(* for f in oldLf: ppin(x, f) *)
Lemma ppin_fold_spec l : forall fs x, incl fs l -> Forall (fun f => 1 < f) fs -> 0 < x ->
  let r := fold_left (fun g f => ppin (log2_fuel g) g f) fs x in
  0 < r /\ (exists Q, mult_of l Q /\ x = r * Q) /\ (forall f, In f fs -> ~ (f | r)).
Proof.
  induction fs as [|f tl IH]; intros x Hincl Hfs Hx; cbn [fold_left].
  - cbn zeta. split; [exact Hx|]. split; [exists 1; split; [constructor | ring]|]. intros f [].
  - inversion Hfs as [|? ? Hf Htl]; subst.
    destruct (ppin_spec f Hf (log2_fuel x) x (conj Hx (log2_fuel_bound x Hx))) as [H1 [[j [Hj H2]] H3]].
    set (x1 := ppin (log2_fuel x) x f) in *.
    assert (Hincl' : incl tl l) by (intros y Hy; apply Hincl; right; exact Hy).
    destruct (IH x1 Hincl' Htl H1) as [K1 [[Q [KQ K2]] K3]]. cbn zeta in K1, K2, K3 |- *.
    set (r := fold_left (fun g f0 => ppin (log2_fuel g) g f0) tl x1) in *.
    split; [exact K1|]. split.
    + exists (f ^ j * Q). split; [apply mult_of_pow; [apply Hincl; left; reflexivity | exact KQ | exact Hj]|].
      rewrite H2, K2. ring.
    + intros q [<-|Hq]; [|apply K3, Hq]. intros [c Hc]. apply H3. exists (c * Q). rewrite K2, Hc. ring.
Qed.

Lemma pos_factor a b c : 0 < a -> a = b * c -> 0 < c -> 0 < b.
Proof. intros. nia. Qed.
Lemma pow_pred_split u g : 0 < g -> u ^ g = u ^ (g - 1) * u.
Proof. intros Hg. replace g with ((g - 1) + 1) at 1 by lia. rewrite Z.pow_add_r, Z.pow_1_r by lia. reflexivity. Qed.
Lemma div_exact_l a b c : a = b * c -> 0 < c -> a / c = b.
Proof. intros -> Hc. apply Z.div_mul. lia. Qed.

Section SecondPhase.
Variables (n phin : Z).
Hypothesis Hn : prime n.
Hypothesis Hphi : 0 < phin.
Hypothesis Hfer : forall u, ~ (n | u) -> cong n (u ^ phin) 1.       (* Fermat's little theorem for n, phin = n - 1 *)

Lemma n_gt_1 : 1 < n.
Proof. destruct Hn; lia. Qed.

Lemma unit_of_pow1 u d : 0 < d -> cong n (u ^ d) 1 -> ~ (n | u).
Proof.
  intros Hd H Hdiv. assert (H0 : cong n u 0) by (apply cong_0_divide; exact Hdiv).
  rewrite H0 in H. rewrite Z.pow_0_l in H by lia. destruct H as [k Hk].
  pose proof n_gt_1. assert (Hk1 : n * (- k) = 1) by lia.
  assert (Hdiv1 : (n | 1)) by (exists (- k); lia). apply Z.divide_1_r_nonneg in Hdiv1; lia.
Qed.

(* the invariant of the loop `for ( ; Aorder < phin; nextprimein(prime))` *)
Definition Inv (A Aorder : Z) (Lf : list Z) : Prop :=
  Forall (fun f => prime f /\ (f | phin)) Lf /\
  0 < Aorder /\ (Aorder | phin) /\
  (forall d, 0 < d -> cong n (A ^ d) 1 -> (Aorder | d)) /\
  (forall f, In f Lf -> cong n (A ^ (phin / f)) 1).

Lemma second_phase_step A Aorder pr Lf :
  Inv A Aorder Lf ->
  let newLf := filter (fun f => powmod pr (phin / f) n =? 1) Lf in
  let oldLf := filter (fun f => negb (powmod pr (phin / f) n =? 1)) Lf in
  let g := fold_left (fun g f => ppin (log2_fuel g) g f) oldLf phin in
  let Ao := fold_left (fun g f => ppin (log2_fuel g) g f) oldLf Aorder in
  Inv ((A * powmod pr g n) mod n) (Ao * (phin / g)) newLf.
Proof.
  intros [HLf [HAo0 [HAodiv [Hord Hlack]]]] newLf oldLf g Ao. pose proof n_gt_1 as Hn1.
  rewrite Forall_forall in HLf.
  assert (Hold : forall q, In q oldLf -> In q Lf /\ powmod pr (phin / q) n <> 1).
  { intros q Hq. apply filter_In in Hq. destruct Hq as [H1 H2]. split; [exact H1|].
    apply negb_true_iff, Z.eqb_neq in H2. exact H2. }
  assert (Hnew : forall q, In q newLf -> In q Lf /\ (powmod pr (phin / q) n =? 1) = true).
  { intros q Hq. apply filter_In in Hq. exact Hq. }
  assert (Holdp : forall q, In q oldLf -> prime q) by (intros q Hq; apply HLf, Hold, Hq).
  assert (Hold1 : Forall (fun f => 1 < f) oldLf).
  { apply Forall_forall. intros q Hq. destruct (Holdp q Hq). lia. }
  destruct (ppin_fold_spec oldLf oldLf phin (incl_refl _) Hold1 Hphi) as [Hg0 [[Q [HQ HgQ]] Hgnd]].
  destruct (ppin_fold_spec oldLf oldLf Aorder (incl_refl _) Hold1 HAo0) as [HAop [[R [HR HAoR]] HAond]].
  cbn zeta in Hg0, HgQ, Hgnd, HAop, HAoR, HAond. fold g in Hg0, HgQ, Hgnd. fold Ao in HAop, HAoR, HAond.
  assert (HQ0 : 0 < Q) by (apply (mult_of_pos oldLf); [intros q Hq; destruct (Holdp q Hq); lia | exact HQ]).
  assert (Hdivg : phin / g = Q) by (apply div_exact_l; [rewrite HgQ; ring | exact Hg0]).
  rewrite Hdivg.
  assert (HrpQAo : rel_prime Q Ao).
  { apply (mult_of_rel_prime oldLf); [|exact HQ]. intros q Hq. apply prime_rel_prime; [apply Holdp, Hq | apply HAond, Hq]. }
  assert (HAog : (Ao | g)).
  { apply Gauss with Q; [|apply rel_prime_sym; exact HrpQAo].
    apply Z.divide_trans with Aorder; [exists R; rewrite HAoR; ring|].
    rewrite Z.mul_comm, <- HgQ. exact HAodiv. }
  set (T := powmod pr g n).
  assert (HT : cong n T (pr ^ g)) by (apply powmod_cong; clear - Hg0; lia).
  assert (HA' : forall e, cong n (((A * T) mod n) ^ e) (A ^ e * (pr ^ g) ^ e)).
  { intros e. rewrite cong_mod, HT. rewrite Z.pow_mul_l. reflexivity. }
  split; [|split; [|split; [|split]]].
  - apply Forall_forall. intros f Hf. apply HLf, Hnew, Hf.
  - apply Z.mul_pos_pos; assumption.
  - rewrite HgQ. apply Z.mul_divide_mono_r. exact HAog.
  - (* Aorder' divides every exponent of the new element *)
    intros d Hd Hd1. rewrite HA' in Hd1. rewrite <- Z.pow_mul_l in Hd1.
    assert (Hunit : ~ (n | A * pr ^ g)) by (apply (unit_of_pow1 _ d Hd Hd1)).
    assert (Hunitpr : ~ (n | pr)).
    { intros [c Hc]. apply Hunit. exists (A * pr ^ (g - 1) * c).
      rewrite (pow_pred_split pr g Hg0). rewrite Hc at 2. ring. }
    pose proof (Hfer pr Hunitpr) as Hprphi.
    pose proof (Hfer _ Hunit) as HATphi.
    assert (HTQ : cong n ((pr ^ g) ^ Q) 1).
    { rewrite <- Z.pow_mul_r by (clear - Hg0 HQ0; lia). rewrite <- HgQ. exact Hprphi. }
    (* fullness: the new element has the full q-part for every q in oldLf *)
    assert (Hfull : forall q, In q oldLf -> ~ cong n ((A * pr ^ g) ^ (phin / q)) 1).
    { intros q Hq Hc. destruct (Hold q Hq) as [HqLf Hne]. destruct (HLf q HqLf) as [Hqp [m Hm]].
      assert (Hq1 : 1 < q) by (destruct Hqp; assumption).
      assert (Hm0 : 0 < m) by (apply (pos_factor phin m q Hphi Hm); clear - Hq1; lia).
      assert (Hdivq : phin / q = m) by (apply div_exact_l; [exact Hm | clear - Hq1; lia]).
      pose proof (Hlack q HqLf) as Hlq.
      rewrite Hdivq in Hc, Hne, Hlq. rewrite Z.pow_mul_l in Hc. rewrite Hlq in Hc. rewrite Z.mul_1_l in Hc.
      rewrite <- Z.pow_mul_r in Hc by (clear - Hg0 Hm0; lia).
      assert (Hgm0 : 0 <= g * m) by (clear - Hg0 Hm0; nia).
      assert (Hphb : 0 <= phin < Z.of_nat (Z.to_nat (phin + 1))) by (clear - Hphi; lia).
      pose proof (pow_gcd_cong n pr (Z.to_nat (phin + 1)) (g * m) phin Hphb Hgm0 Hc Hprphi) as Hgc.
      assert (Hgcd : Z.gcd (g * m) phin = m).
      { rewrite Hm, (Z.mul_comm m q). rewrite Z.gcd_mul_mono_r_nonneg by (clear - Hm0; lia).
        assert (Hgq : Z.gcd g q = 1).
        { apply Zgcd_1_rel_prime. apply rel_prime_sym. apply prime_rel_prime; [exact Hqp | apply Hgnd, Hq]. }
        rewrite Hgq. ring. }
      rewrite Hgcd in Hgc. apply Hne. apply Z.eqb_eq. apply (powmod_1_iff n pr Hn1); [clear - Hm0; lia | exact Hgc]. }
    (* Ao | d *)
    assert (HAod : (Ao | d)).
    { apply Gauss with Q; [|apply rel_prime_sym; exact HrpQAo].
      apply Z.divide_trans with Aorder; [exists R; rewrite HAoR; ring|].
      assert (Hd0 : 0 <= d) by (clear - Hd; lia). assert (HQ00 : 0 <= Q) by (clear - HQ0; lia).
      apply Hord; [apply Z.mul_pos_pos; assumption|].
      pose proof (pow_mul_cong n (A * pr ^ g) d Q Hd0 HQ00 Hd1) as H2.
      rewrite Z.pow_mul_l in H2. replace (d * Q) with (Q * d) in H2 at 2 by ring.
      rewrite (Z.pow_mul_r (pr ^ g) Q d HQ00 Hd0) in H2. rewrite HTQ in H2. rewrite Z.pow_1_l, Z.mul_1_r in H2 by exact Hd0.
      rewrite Z.mul_comm. exact H2. }
    (* Q | d *)
    assert (HQd : (Q | d)).
    { assert (Hphb : 0 <= phin < Z.of_nat (Z.to_nat (phin + 1))) by (clear - Hphi; lia).
      assert (Hd0 : 0 <= d) by (clear - Hd; lia).
      pose proof (pow_gcd_cong n (A * pr ^ g) (Z.to_nat (phin + 1)) d phin Hphb Hd0 Hd1 HATphi) as Hgc.
      assert (Hd'0 : 0 < Z.gcd d phin).
      { pose proof (Z.gcd_nonneg d phin) as Hnn. destruct (Z.eq_dec (Z.gcd d phin) 0) as [E|E]; [|clear - Hnn E; lia].
        apply Z.gcd_eq_0_l in E. clear - E Hd. lia. }
      set (d' := Z.gcd d phin) in *.
      destruct (Z.gcd_divide_r d phin) as [c Hc]. fold d' in Hc.
      assert (Hc0 : 0 < c) by (apply (pos_factor phin c d' Hphi Hc Hd'0)).
      assert (Hcnd : forall q, In q oldLf -> ~ (q | c)).
      { intros q Hq [c' Hc']. destruct (Holdp q Hq) as [Hq1 _].
        assert (Hq0 : 0 < q) by (clear - Hq1; lia).
        assert (Hc'0 : 0 < c') by (apply (pos_factor c c' q Hc0 Hc' Hq0)).
        apply (Hfull q Hq). replace (phin / q) with (d' * c').
        - apply pow_mul_cong; [clear - Hd'0; lia | clear - Hc'0; lia | exact Hgc].
        - symmetry. apply div_exact_l; [rewrite Hc, Hc'; ring | exact Hq0]. }
      assert (HrpQc : rel_prime Q c).
      { apply (mult_of_rel_prime oldLf); [|exact HQ]. intros q Hq. apply prime_rel_prime; [apply Holdp, Hq | apply Hcnd, Hq]. }
      apply Z.divide_trans with d'; [|apply Z.gcd_divide_l].
      apply Gauss with c; [|exact HrpQc]. exists g. rewrite <- Hc, HgQ. ring. }
    destruct HAod as [k Hk]. assert (HQk : (Q | k)).
    { apply Gauss with Ao; [rewrite Z.mul_comm, <- Hk; exact HQd | exact HrpQAo]. }
    destruct HQk as [k' Hk']. exists k'. rewrite Hk, Hk'. ring.
  - (* the primes still missing are still missing *)
    intros f Hf. destruct (Hnew f Hf) as [HfLf Hone]. destruct (HLf f HfLf) as [Hfp [m Hm]].
    assert (Hf1 : 1 < f) by (destruct Hfp; assumption).
    assert (Hm0 : 0 < m) by (apply (pos_factor phin m f Hphi Hm); clear - Hf1; lia).
    assert (Hdivf : phin / f = m) by (apply div_exact_l; [exact Hm | clear - Hf1; lia]).
    pose proof (Hlack f HfLf) as Hlf. rewrite Hdivf in Hone, Hlf |- *.
    assert (Hm00 : 0 <= m) by (clear - Hm0; lia). assert (Hg00 : 0 <= g) by (clear - Hg0; lia).
    rewrite HA'. rewrite Hlf. rewrite Z.mul_1_l. rewrite <- Z.pow_mul_r by assumption.
    rewrite Z.mul_comm. rewrite Z.pow_mul_r by assumption.
    apply (powmod_1_iff n pr Hn1) in Hone; [|exact Hm00]. rewrite Hone. rewrite Z.pow_1_l by exact Hg00. reflexivity.
Qed.

Lemma second_phase_loop : forall fuel A Aorder pr Lf A',
  Inv A Aorder Lf -> prp_second fuel A Aorder pr n phin Lf = Some A' ->
  forall d, 0 < d -> cong n (A' ^ d) 1 -> (phin | d).
Proof.
  induction fuel as [|k IH]; intros A Aorder pr Lf A' HI; cbn [prp_second]; [discriminate|].
  destruct (Z.ltb_spec Aorder phin) as [Hlt|Hge].
  - pose proof (second_phase_step A Aorder pr Lf HI) as Hstep. cbn zeta in Hstep.
    destruct (filter (fun f => negb (powmod pr (phin / f) n =? 1)) Lf) as [|o ol] eqn:Eold.
    + apply IH. exact HI.
    + apply IH. exact Hstep.
  - intros [= <-] d Hd Hd1. destruct HI as [_ [H0 [Hdiv [Hord _]]]].
    assert (Aorder = phin) by (apply Z.divide_pos_le in Hdiv; lia). subst Aorder. apply Hord; assumption.
Qed.
End SecondPhase.

(* prim_root_of_prime, second phase: from any state in which Aorder is a positive divisor of phin dividing the order of A, and
   Lf lists primes f | phin whose part is not yet complete in A (A^(phin/f) = 1), the element returned has order EXACTLY phin.
   Hypotheses: n prime, Fermat's little theorem for n (number theory not proved here). *)
Definition Prp_second_phase_stmt := forall n phin fuel A Aorder pr Lf A',
  prime n -> 0 < phin -> (forall u, ~ (n | u) -> cong n (u ^ phin) 1) ->
  Forall (fun f => prime f /\ (f | phin)) Lf ->
  0 < Aorder -> (Aorder | phin) ->
  (forall d, 0 < d -> cong n (A ^ d) 1 -> (Aorder | d)) ->
  (forall f, In f Lf -> cong n (A ^ (phin / f)) 1) ->
  prp_second fuel A Aorder pr n phin Lf = Some A' ->
  forall d, 0 < d -> cong n (A' ^ d) 1 -> (phin | d).
Lemma prp_second_phase : Prp_second_phase_stmt.
Proof.
  intros n phin fuel A Aorder pr Lf A' Hn Hphi Hfer HLf H0 Hdiv Hord Hlack Hrun.
  apply (second_phase_loop n phin Hn Hphi Hfer fuel A Aorder pr Lf A'); [|exact Hrun].
  repeat split; assumption.
Qed.

(* the hypotheses are satisfiable and the step is exercised: n = 2017 (the first prime on which the bookkeeping without
   `ppin(Aorder,f)` returns a non-primitive root): after the first phase A = 2 has order 336 = 2^4 3 7, Lf = [2; 3] *)
Example prp_second_2017 : prp_second 200 2 336 3 2017 2016 [2; 3] = Some 714 /\ 336 * 6 = 2016 /\
  powmod 2 336 2017 = 1 /\ powmod 2 (2016 / 2) 2017 = 1 /\ powmod 2 (2016 / 3) 2017 = 1 /\
  powmod 714 (2016 / 2) 2017 <> 1 /\ powmod 714 (2016 / 3) 2017 <> 1 /\ powmod 714 (2016 / 7) 2017 <> 1.
Proof. repeat split; vm_compute; (reflexivity || discriminate). Qed.

(* WHAT IF the correction step `ppin(Aorder, f)` is dropped (Aorder is multiplied by phin/g without removing the partial
   f-parts it already has)?  The invariant "Aorder | phin" breaks and the loop stops too early: for n = 2017 it returns 1849,
   whose order is 1008, not 2016. *)
Fixpoint prp_second_noppin (fuel : nat) (A Aorder prime n phin : Z) (Lf : list Z) : option Z :=
  match fuel with
  | O => None
  | S k =>
    if Aorder <? phin then
      let newLf := filter (fun f => powmod prime (phin / f) n =? 1) Lf in
      let oldLf := filter (fun f => negb (powmod prime (phin / f) n =? 1)) Lf in
      match oldLf with
      | [] => prp_second_noppin k A Aorder (nextprime prime) n phin Lf
      | _ =>
        let g := fold_left (fun g f => ppin (log2_fuel g) g f) oldLf phin in
        let tmp := powmod prime g n in
        prp_second_noppin k ((A * tmp) mod n) (Aorder * (phin / g)) (nextprime prime) n phin newLf
      end
    else Some A
  end.
Definition Prp_noppin_refuted_stmt :=
  prp_second_noppin 200 2 336 3 2017 2016 [2; 3] = Some 1849 /\ powmod 1849 (2016 / 2) 2017 = 1 /\
  prp_second 200 2 336 3 2017 2016 [2; 3] = Some 714 /\
  powmod 714 (2016 / 2) 2017 <> 1 /\ powmod 714 (2016 / 3) 2017 <> 1 /\ powmod 714 (2016 / 7) 2017 <> 1.
Lemma prp_noppin_refuted : Prp_noppin_refuted_stmt.
Proof. repeat split; vm_compute; (reflexivity || discriminate). Qed.
