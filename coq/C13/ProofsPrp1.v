(* C13 proofs, part 12: prim_root_of_prime, first phase (the first small prime that has the complete f-part for some f) and
   the whole function: the value returned is a primitive root of the prime n. *)
From Coq Require Import ZArith Znumtheory Bool List Lia Morphisms Setoid.
From C13 Require Import Model ProofsBase ProofsNumTheo ProofsOrder ProofsPrp.
Import ListNotations.
Local Open Scope Z_scope.
Ltac Zify.zify_post_hook ::= Z.div_mod_to_equations.

Lemma mult_of_incl l l' Q : incl l l' -> mult_of l Q -> mult_of l' Q.
Proof. intros Hi. induction 1 as [|q Q Hq HQ IH]; [constructor|]. apply mo_mul; [apply Hi, Hq | exact IH]. Qed.

Section FirstPhase.
Variables (n phin A : Z).
Hypothesis Hn1 : 1 < n.
Hypothesis Hphi : 0 < phin.

Lemma strip_while_pow f : 1 < f -> forall fuel g, 0 < g -> exists j, 0 <= j /\ g = strip_while fuel A n f g * f ^ j.
Proof.
  intros Hf. induction fuel as [|k IH]; intros g Hg; cbn [strip_while].
  - exists 0. split; [lia | rewrite Z.pow_0_r; ring].
  - destruct (Z.eqb_spec (g mod f) 0) as [Em|Em]; cbn [andb]; [|exists 0; split; [lia | rewrite Z.pow_0_r; ring]].
    destruct (powmod A (g / f) n =? 1); [|exists 0; split; [lia | rewrite Z.pow_0_r; ring]].
    assert (Hgf : g = f * (g / f)) by (pose proof (Z.div_mod g f ltac:(lia)); lia).
    assert (Hq : 0 < g / f) by nia.
    destruct (IH (g / f) Hq) as [j [Hj Hgj]]. exists (j + 1). split; [lia|].
    rewrite Z.pow_add_r, Z.pow_1_r by lia. rewrite Hgf at 1. rewrite Hgj at 1. ring.
Qed.

(* state of the inner loop after the prefix `done` of Lf *)
Definition Inner (done : list Z) (st : Z * list Z * list Z * bool) : Prop :=
  let '(po, newLf, oldLf, exemp) := st in
  0 < po /\ (po | phin) /\
  (cong n (A ^ phin) 1 -> cong n (A ^ po) 1) /\
  (forall f, In f newLf -> In f done /\ cong n (A ^ (phin / f)) 1) /\
  (forall f, In f oldLf -> In f done) /\
  (forall f, In f done -> NS n A f po) /\
  (exists M, mult_of done M /\ phin = po * M) /\
  (exemp = true -> oldLf = []).

Lemma inner_step : forall fs done st,
  NoDup (done ++ fs) -> Forall (fun f => prime f /\ (f | phin)) (done ++ fs) ->
  Inner done st -> Inner (done ++ fs) (prp_first_inner A n fs st).
Proof.
  induction fs as [|f tl IH]; intros done st Hnd Hall HI; cbn [prp_first_inner].
  - rewrite app_nil_r. exact HI.
  - destruct st as [[[po newLf] oldLf] exemp].
    assert (Hfnot : ~ In f done).
    { intros Hin. apply NoDup_remove_2 in Hnd. apply Hnd. apply in_or_app. left. exact Hin. }
    replace (done ++ f :: tl) with ((done ++ [f]) ++ tl) in * by (rewrite <- app_assoc; reflexivity).
    destruct HI as [Hpo [Hdiv [Hpow [Hnew [Hold [HNS [[M [HM HphiM]] Hex]]]]]]].
    assert (Hfall : prime f /\ (f | phin)).
    { rewrite Forall_forall in Hall. apply Hall. apply in_or_app. left. apply in_or_app. right. left. reflexivity. }
    destruct Hfall as [Hfp Hfphi]. assert (Hf1 : 1 < f) by (destruct Hfp; assumption).
    (* f divides po: the part removed so far is a product of other primes *)
    assert (Hfpo : (f | po)).
    { apply Gauss with M; [rewrite Z.mul_comm, <- HphiM; exact Hfphi|].
      apply rel_prime_sym. apply (mult_of_rel_prime done); [|exact HM].
      intros q Hq. apply rel_prime_sym. apply prime_rel_prime; [exact Hfp|].
      intros Hfq.
      assert (Hqp : prime q).
      { rewrite Forall_forall in Hall. apply Hall. apply in_or_app. left. apply in_or_app. left. exact Hq. }
      apply prime_div_prime in Hfq; [|exact Hfp|exact Hqp]. subst q. exact (Hfnot Hq). }
    destruct Hfpo as [e He].
    assert (He0 : 0 < e) by (apply (pos_factor po e f Hpo He); clear - Hf1; lia).
    assert (Hdivf : po / f = e) by (apply div_exact_l; [exact He | clear - Hf1; lia]).
    assert (HdoneS : forall x, In x done -> In x (done ++ [f])) by (intros x Hx; apply in_or_app; left; exact Hx).
    assert (Hfin : In f (done ++ [f])) by (apply in_or_app; right; left; reflexivity).
    rewrite Hdivf.
    destruct (Z.eqb_spec (powmod A e n) 1) as [E|E].
    + (* f joins newLf; the order estimate is stripped of f as far as possible *)
      apply IH; [exact Hnd | exact Hall|].
      assert (HAe : cong n (A ^ e) 1) by (apply powmod_eq_1; [exact Hn1 | clear - He0; lia | exact E]).
      destruct (strip_while_sound n A f (log2_fuel e) e He0 Hf1 Hn1 HAe) as [S1 [S2 S3]]. cbn zeta in S1, S2, S3.
      pose proof (strip_while_complete n A Hn1 f Hf1 (log2_fuel e) e (conj He0 (log2_fuel_bound e He0))) as S4.
      set (e' := strip_while (log2_fuel e) A n f e) in *.
      assert (He'po : (e' | po)) by (apply Z.divide_trans with e; [exact S2 | exists f; rewrite He; ring]).
      split; [exact S1|]. split; [exact (Z.divide_trans _ _ _ He'po Hdiv)|]. split; [intros _; exact S3|].
      split; [|split; [|split; [|split]]].
      * intros q Hq. apply in_app_or in Hq. destruct Hq as [Hq|[<-|[]]].
        -- destruct (Hnew q Hq) as [H1 H2]. split; [apply HdoneS, H1 | exact H2].
        -- split; [exact Hfin|].
           replace (phin / f) with (e * M).
           ++ apply pow_mul_cong; [clear - He0; lia | | exact HAe].
              pose proof (mult_of_pos done M) as HMp. assert (0 < M); [|lia].
              apply HMp; [|exact HM]. intros q Hq. rewrite Forall_forall in Hall.
              assert (Hqp : prime q) by (apply Hall; apply in_or_app; left; apply in_or_app; left; exact Hq).
              destruct Hqp; lia.
           ++ symmetry. apply div_exact_l; [rewrite HphiM, He; ring | clear - Hf1; lia].
      * intros q Hq. apply HdoneS, Hold, Hq.
      * intros q Hq. apply in_app_or in Hq. destruct Hq as [Hq|[<-|[]]]; [|exact S4].
        assert (Hq1 : 1 < q).
        { rewrite Forall_forall in Hall. assert (Hqp : prime q) by (apply Hall; apply in_or_app; left; apply in_or_app; left; exact Hq).
          destruct Hqp; assumption. }
        apply (NS_divisor n A q po e' Hpo S1 Hq1 He'po). apply HNS, Hq.
      * destruct (strip_while_pow f Hf1 (log2_fuel e) e He0) as [j [Hj Hej]]. fold e' in Hej.
        exists (f ^ (j + 1) * M). split.
        -- apply mult_of_pow; [exact Hfin | apply (mult_of_incl done); [intros x Hx; apply HdoneS, Hx | exact HM] | clear - Hj; lia].
        -- rewrite HphiM, He. rewrite Hej at 1. rewrite Z.pow_add_r, Z.pow_1_r by (clear - Hj; lia). ring.
      * exact Hex.
    + apply IH; [exact Hnd | exact Hall|].
      split; [exact Hpo|]. split; [exact Hdiv|]. split; [exact Hpow|].
      split; [|split; [|split; [|split]]].
      * intros q Hq. destruct (Hnew q Hq) as [H1 H2]. split; [apply HdoneS, H1 | exact H2].
      * intros q Hq. apply in_app_or in Hq. destruct Hq as [Hq|[<-|[]]]; [apply HdoneS, Hold, Hq | exact Hfin].
      * intros q Hq. apply in_app_or in Hq. destruct Hq as [Hq|[<-|[]]]; [apply HNS, Hq|].
        intros [_ Hc]. rewrite Hdivf in Hc. apply E. apply (cong_eq_small n); [apply powmod_range; [clear - Hn1; lia | clear - He0; lia] | clear - Hn1; lia |].
        rewrite (powmod_cong n A e) by (clear - He0; lia). exact Hc.
      * exists M. split; [apply (mult_of_incl done); [intros x Hx; apply HdoneS, Hx | exact HM] | exact HphiM].
      * discriminate.
Qed.

(* after the whole list Lf (the complete factor set of phin): the invariant of the second phase holds *)
Lemma first_phase_inv : prime n -> (forall u, ~ (n | u) -> cong n (u ^ phin) 1) ->
  forall Lf po newLf oldLf exemp,
  NoDup Lf -> Forall (fun f => prime f /\ (f | phin)) Lf -> (forall q, prime q -> (q | phin) -> In q Lf) ->
  prp_first_inner A n Lf (phin, [], [], true) = (po, newLf, oldLf, exemp) ->
  Inv n phin A po newLf.
Proof.
  intros Hn Hfer Lf po newLf oldLf exemp Hnd Hall Hcov Hrun.
  assert (Hinit : Inner [] (phin, [], [], true)).
  { split; [exact Hphi|]. split; [apply Z.divide_refl|]. split; [tauto|]. split; [intros f []|]. split; [intros f []|].
    split; [intros f []|]. split; [exists 1; split; [constructor | ring]|]. reflexivity. }
  pose proof (inner_step Lf [] (phin, [], [], true) Hnd Hall Hinit) as HI. cbn [app] in HI. rewrite Hrun in HI.
  destruct HI as [Hpo [Hdiv [Hpow [Hnew [Hold [HNS [_ Hex]]]]]]].
  rewrite Forall_forall in Hall.
  split; [apply Forall_forall; intros f Hf; apply Hall, Hnew, Hf|]. split; [exact Hpo|]. split; [exact Hdiv|]. split.
  - intros d Hd Had.
    assert (Hunit : ~ (n | A)) by (apply (unit_of_pow1 n phin Hn Hphi Hfer A d Hd Had)).
    pose proof (Hpow (Hfer A Hunit)) as HApo.
    apply (order_minimal n A po Hpo HApo); [|exact Hd | exact Had].
    intros q Hq Hqpo Hc. apply (HNS q); [|split; assumption].
    apply Hcov; [exact Hq | exact (Z.divide_trans _ _ _ Hqpo Hdiv)].
  - intros f Hf. apply Hnew, Hf.
Qed.
End FirstPhase.

Lemma first_phase_loop n phin : prime n -> 0 < phin -> (forall u, ~ (n | u) -> cong n (u ^ phin) 1) ->
  forall Lf, NoDup Lf -> Forall (fun f => prime f /\ (f | phin)) Lf -> (forall q, prime q -> (q | phin) -> In q Lf) ->
  forall fuel pr nl ol A pr' Aorder Lf',
  prp_first fuel pr n phin Lf nl ol = Some (A, pr', Aorder, Lf') -> Inv n phin A Aorder Lf'.
Proof.
  intros Hn Hphi Hfer Lf Hnd Hall Hcov. assert (Hn1 : 1 < n) by (destruct Hn; lia).
  induction fuel as [|k IH]; intros pr nl ol A pr' Aorder Lf'; cbn [prp_first]; [discriminate|].
  destruct (prp_first_inner pr n Lf (phin, [], [], true)) as [[[po nl'] ol'] ex] eqn:E.
  destruct ex.
  - apply IH.
  - intros [= <- _ <- <-]. exact (first_phase_inv n phin pr Hn1 Hphi Hn Hfer Lf po nl' ol' false Hnd Hall Hcov E).
Qed.

(* prim_root_of_prime(A, n) as a whole: the value returned has order exactly n - 1 -- it is a primitive root of the prime n.
   Hypotheses: n prime, Lf is the factor set of n - 1 (distinct primes, all dividing, complete), Fermat's little theorem. *)
Definition Prim_root_of_prime_stmt := forall n Lf A, prime n ->
  (forall u, ~ (n | u) -> cong n (u ^ (n - 1)) 1) ->
  NoDup Lf -> Forall (fun f => prime f /\ (f | n - 1)) Lf -> (forall q, prime q -> (q | n - 1) -> In q Lf) ->
  prim_root_of_prime n Lf = Some A ->
  forall d, 0 < d -> cong n (A ^ d) 1 -> (n - 1 | d).
Lemma prim_root_of_prime_correct : Prim_root_of_prime_stmt.
Proof.
  intros n Lf A Hn Hfer Hnd Hall Hcov. unfold prim_root_of_prime.
  assert (Hphi : 0 < n - 1) by (destruct Hn; lia).
  destruct (Z.eqb_spec (n - 1) 1) as [E|E].
  - intros _ d _ _. rewrite E. apply Z.divide_1_l.
  - destruct (prp_first 200 2 n (n - 1) Lf [] []) as [[[[A0 pr] Ao] Lf']|] eqn:E1; [|discriminate].
    intros Hrun. pose proof (first_phase_loop n (n - 1) Hn Hphi Hfer Lf Hnd Hall Hcov 200%nat 2 [] [] A0 pr Ao Lf' E1) as HI.
    exact (second_phase_loop n (n - 1) Hn Hphi Hfer 200%nat A0 Ao pr Lf' A HI Hrun).
Qed.

(* the hypotheses are satisfiable: n = 17 *)
Example prim_root_of_prime_17 : prim_root_of_prime 17 [2] = Some 3 /\ NoDup [2] /\ prime 2 /\ (2 | 17 - 1).
Proof. split; [vm_compute; reflexivity|]. split; [repeat constructor; intros []|]. split; [exact prime_2 | exists 8; reflexivity]. Qed.
