(* C13 proofs, part 2: square roots modulo a prime — one theorem per branch of sqrootmodprime, then the whole function. *)
From Coq Require Import ZArith Znumtheory Bool List Lia Morphisms Setoid.
From C13 Require Import Model ProofsBase.
Import ListNotations.
Local Open Scope Z_scope.
Ltac Zify.zify_post_hook ::= Z.div_mod_to_equations.

(* mpz_legendre is modelled by Euler's criterion: "not -1 and not 0" IS a^((p-1)/2) = 1 *)
Lemma legendre_residue a p : 2 < p -> a mod p <> 0 -> legendre a p <> -1 -> cong p (a ^ ((p - 1) / 2)) 1.
Proof.
  intros Hp Ha. unfold legendre. destruct (Z.eqb_spec (a mod p) 0); [contradiction|].
  destruct (Z.eqb_spec (powmod a ((p - 1) / 2) p) 1) as [E|E]; [|intros H; exfalso; apply H; reflexivity].
  intros _. apply powmod_eq_1; [lia | lia | exact E].
Qed.
Lemma legendre_values a p : legendre a p = 0 \/ legendre a p = 1 \/ legendre a p = -1.
Proof. unfold legendre. destruct (a mod p =? 0); [tauto|]. destruct (_ =? 1); tauto. Qed.
Lemma legendre_one a p : 2 < p -> legendre a p = 1 -> cong p (a ^ ((p - 1) / 2)) 1.
Proof.
  intros Hp. unfold legendre. destruct (a mod p =? 0); [discriminate|].
  destruct (Z.eqb_spec (powmod a ((p - 1) / 2) p) 1) as [E|E]; [|discriminate].
  intros _. apply powmod_eq_1; [lia | lia | exact E].
Qed.
Lemma legendre_minus_one a p : 2 < p -> legendre a p = -1 -> powmod a ((p - 1) / 2) p <> 1.
Proof.
  intros Hp. unfold legendre. destruct (a mod p =? 0); [discriminate|].
  destruct (Z.eqb_spec (powmod a ((p - 1) / 2) p) 1) as [E|E]; [discriminate|]. intros _. exact E.
Qed.

(* ---------------------------------------------------------------------------------------- p = 3 mod 4 *)
Definition Sqrt_3mod4_stmt := forall p a, 1 < p -> p mod 4 = 3 -> cong p (a ^ ((p - 1) / 2)) 1 ->
  let x := powmod a ((p + 1) / 4) p in cong p (x * x) a.
Lemma sqrt_3mod4_correct : Sqrt_3mod4_stmt.
Proof.
  intros p a Hp H4 He x. subst x.
  assert (Hk : exists k, 0 <= k /\ p = 4 * k + 3) by (exists (p / 4); lia).
  destruct Hk as [k [Hk0 ->]].
  replace ((4 * k + 3 - 1) / 2) with (2 * k + 1) in He by lia.
  replace ((4 * k + 3 + 1) / 4) with (k + 1) by lia. clear H4 Hp.
  rewrite (powmod_cong (4 * k + 3) a (k + 1)) by lia.
  transitivity (a ^ (2 * k + 1) * a); [|rewrite He; replace (1 * a) with a by ring; reflexivity].
  apply eq_subrelation; [typeclasses eauto|].
  replace (2 * k + 1) with (k + k + 1) by ring. rewrite !Z.pow_add_r, !Z.pow_1_r by (clear - Hk0; lia). ring.
Qed.

(* ---------------------------------------------------------------------------------------- Atkin, p = 5 mod 8 *)
Definition atkin (a p : Z) : Z :=
  let tmp := powmod a ((p - 1) / 4) p in
  if tmp =? 1 then powmod a ((p + 3) / 8) p
  else Z.rem ((powmod (a * 4) ((p - 5) / 8) p * a) * 2) p.
Definition Sqrt_atkin_stmt := forall p a, prime p -> p mod 8 = 5 ->
  cong p (a ^ ((p - 1) / 2)) 1 ->                  (* Euler's criterion for the residue a (the legendre guard) *)
  cong p (2 ^ ((p - 1) / 2)) (-1) ->                (* 2 is a non-residue for p = 5 mod 8 (second supplementary law) *)
  cong p (atkin a p * atkin a p) a.
Lemma sqrt_atkin_correct : Sqrt_atkin_stmt.
Proof.
  intros p a Hp H8 He H2. assert (Hp1 : 1 < p) by (destruct Hp; lia).
  unfold atkin.
  assert (Hk : exists k, 0 <= k /\ p = 8 * k + 5) by (exists (p / 8); lia).
  destruct Hk as [k [Hk0 Hpk]].
  replace ((p - 1) / 2) with (4 * k + 2) in * by lia.
  replace ((p - 1) / 4) with (2 * k + 1) in * by lia.
  replace ((p + 3) / 8) with (k + 1) by lia.
  replace ((p - 5) / 8) with k by lia. clear H8.
  destruct (Z.eqb_spec (powmod a (2 * k + 1) p) 1) as [E|E].
  - apply powmod_eq_1 in E; [|lia|lia].
    rewrite (powmod_cong p a (k + 1)) by lia.
    transitivity (a ^ (2 * k + 1) * a); [|rewrite E; replace (1 * a) with a by ring; reflexivity].
    apply eq_subrelation; [typeclasses eauto|].
    replace (2 * k + 1) with (k + k + 1) by ring. rewrite !Z.pow_add_r, !Z.pow_1_r by (clear - Hk0; lia). ring.
  - (* t = a^((p-1)/4) squares to 1, is not 1, hence is -1 *)
    assert (Ht : cong p (a ^ (2 * k + 1)) (-1)).
    { assert (Hsq : cong p (a ^ (2 * k + 1) * a ^ (2 * k + 1)) 1).
      { transitivity (a ^ (4 * k + 2)); [|exact He]. apply eq_subrelation; [typeclasses eauto|].
        replace (4 * k + 2) with (2 * k + 1 + (2 * k + 1)) by ring. rewrite !Z.pow_add_r by (clear - Hk0; lia). ring. }
      destruct (cong_prime_sq_1 _ _ Hp Hsq) as [H1|H1]; [|exact H1].
      exfalso. apply E. apply (cong_eq_small p); [apply powmod_range; lia | lia |].
      rewrite (powmod_cong p a (2 * k + 1)) by lia. exact H1. }
    rewrite cong_rem. rewrite (powmod_cong p (a * 4) k) by lia.
    transitivity (2 ^ (4 * k + 2) * a ^ (2 * k + 1) * a).
    { apply eq_subrelation; [typeclasses eauto|].
      replace (4 * k + 2) with (2 * (2 * k + 1)) by ring. rewrite (Z.pow_mul_r 2 2) by lia.
      change (2 ^ 2) with 4. replace (2 * k + 1) with (k + k + 1) by ring.
      rewrite Z.pow_mul_l. rewrite !Z.pow_add_r, !Z.pow_1_r by (clear - Hk0; lia). ring. }
    rewrite Ht, H2. replace (-1 * -1 * a) with a by ring. reflexivity.
Qed.

(* ---------------------------------------------------------------------------------------- Mueller, p = 9 mod 16 *)
(* the algebra of lines 116-121:  I = 2 a d^2 z^2,  I^2 = -1  ==>  (z d (I-1) a)^2 = a *)
Lemma mueller_algebra p a d z I : cong p I (2 * a * d * d * z * z) -> cong p (I * I) (-1) ->
  cong p ((z * d * (I - 1) * a) * (z * d * (I - 1) * a)) a.
Proof.
  intros H1 H2.
  transitivity (z * z * d * d * a * a * (I * I) - a * ((2 * a * d * d * z * z) * I) + z * z * d * d * a * a).
  { apply eq_subrelation; [typeclasses eauto|ring]. }
  rewrite <- H1. rewrite H2. apply eq_subrelation; [typeclasses eauto|]. ring_simplify.
  (* remaining: a * I^2 handled by a second use of H2 is not needed: ring closes only if I*I was rewritten *)
  ring.
Qed.

Lemma pick_spec ok draws d : pick ok draws = Some d -> In d draws /\ ok d = true.
Proof.
  induction draws as [|c tl IH]; cbn [pick]; [discriminate|].
  destruct (ok c) eqn:E.
  - intros [= <-]. split; [left; reflexivity | exact E].
  - intros H. destruct (IH H). split; [right|]; assumption.
Qed.

Definition Sqrt_mueller_stmt := forall p a draws x, prime p -> p mod 16 = 9 ->
  cong p (a ^ ((p - 1) / 2)) 1 ->                  (* Euler's criterion for the residue a (the legendre guard) *)
  cong p (2 ^ ((p - 1) / 2)) 1 ->                   (* 2 is a residue for p = 1 mod 8 (second supplementary law) *)
  Forall (fun d => 0 < d < p /\ cong p (d ^ (p - 1)) 1) draws ->      (* draws are units (Fermat) *)
  mueller a p draws = Some x -> cong p (x * x) a.
Lemma sqrt_mueller_correct : Sqrt_mueller_stmt.
Proof.
  intros p a draws x Hp H16 Ha H2 Hdr. assert (Hp1 : 2 < p) by (destruct Hp; lia).
  unfold mueller, legendre.
  assert (Hk : exists k, 0 <= k /\ p = 16 * k + 9) by (exists (p / 16); lia).
  destruct Hk as [k [Hk0 Hpk]].
  replace ((p - 1) / 2) with (8 * k + 4) in * by lia.
  replace ((p - 1) / 4) with (4 * k + 2) in * by lia.
  replace ((p - 9) / 16) with k by lia.
  replace (p - 1) with (16 * k + 8) in Hdr by lia. clear H16.
  set (s := if powmod (a * 2) (4 * k + 2) p =? 1 then 1 else -1).
  destruct (pick _ draws) as [d|] eqn:Epick; [|discriminate]. intros [= <-].
  apply pick_spec in Epick. destruct Epick as [Hin Hok].
  rewrite Forall_forall in Hdr. destruct (Hdr d Hin) as [Hdrange Hfermat].
  (* s = (2a)^((p-1)/4), and s = 1 or -1 *)
  assert (Hsq2a : cong p ((a * 2) ^ (4 * k + 2) * (a * 2) ^ (4 * k + 2)) 1).
  { transitivity (a ^ (8 * k + 4) * 2 ^ (8 * k + 4)); [|rewrite Ha, H2; reflexivity].
    apply eq_subrelation; [typeclasses eauto|].
    replace (8 * k + 4) with (4 * k + 2 + (4 * k + 2)) by ring. rewrite Z.pow_mul_l, !Z.pow_add_r by (clear - Hk0; lia). ring. }
  assert (Hs : cong p ((a * 2) ^ (4 * k + 2)) s /\ (s = 1 \/ s = -1)).
  { subst s. destruct (Z.eqb_spec (powmod (a * 2) (4 * k + 2) p) 1) as [E|E].
    - split; [|left; reflexivity]. apply powmod_eq_1; [lia|lia|exact E].
    - split; [|right; reflexivity]. destruct (cong_prime_sq_1 _ _ Hp Hsq2a) as [H1|H1]; [|exact H1].
      exfalso. apply E. apply (cong_eq_small p); [apply powmod_range; lia | lia |].
      rewrite (powmod_cong p (a * 2) (4 * k + 2)) by lia. exact H1. }
  destruct Hs as [Hs Hs1].
  (* the draw: d^((p-1)/2) = -s *)
  assert (Hd : cong p (d ^ (8 * k + 4)) (- s)).
  { assert (Hdm : d mod p <> 0) by (rewrite Z.mod_small by lia; lia).
    apply negb_true_iff in Hok. apply Z.eqb_neq in Hok.
    destruct (Z.eqb_spec (d mod p) 0) as [|_]; [contradiction|].
    destruct (Z.eqb_spec (powmod d (8 * k + 4) p) 1) as [E|E].
    - (* legendre d p = 1 <> s: s = -1 *)
      destruct Hs1 as [-> | ->]; [contradiction Hok; reflexivity|].
      apply powmod_eq_1; [lia|lia|exact E].
    - destruct Hs1 as [-> | ->]; [|contradiction Hok; reflexivity].
      assert (Hsq : cong p (d ^ (8 * k + 4) * d ^ (8 * k + 4)) 1).
      { transitivity (d ^ (16 * k + 8)); [|exact Hfermat]. apply eq_subrelation; [typeclasses eauto|].
        replace (16 * k + 8) with (8 * k + 4 + (8 * k + 4)) by ring. rewrite !Z.pow_add_r by (clear - Hk0; lia). ring. }
      destruct (cong_prime_sq_1 _ _ Hp Hsq) as [H1|H1]; [|exact H1].
      exfalso. apply E. apply (cong_eq_small p); [apply powmod_range; lia | lia |].
      rewrite (powmod_cong p d (8 * k + 4)) by lia. exact H1. }
  (* the computation *)
  set (i1 := a * 2 * d * d).
  rewrite !cong_rem. rewrite (powmod_cong p i1 k) by lia.
  set (z := i1 ^ k).
  set (Iv := i1 * z * z).
  transitivity ((z * d * (Iv - 1) * a) * (z * d * (Iv - 1) * a)).
  { apply eq_subrelation; [typeclasses eauto|]. subst Iv. ring. }
  apply mueller_algebra.
  - apply eq_subrelation; [typeclasses eauto|]. subst Iv i1. ring.
  - transitivity ((a * 2) ^ (4 * k + 2) * d ^ (8 * k + 4)).
    { apply eq_subrelation; [typeclasses eauto|]. subst Iv z i1.
      replace (8 * k + 4) with (2 * (4 * k + 2)) by ring. rewrite (Z.pow_mul_r d 2) by (clear - Hk0; lia).
      rewrite Z.pow_2_r. replace (4 * k + 2) with (k + k + 1 + (k + k + 1)) by ring.
      rewrite <- Z.pow_mul_l. replace (a * 2 * (d * d)) with (a * 2 * d * d) by ring.
      rewrite !Z.pow_add_r, !Z.pow_1_r by (clear - Hk0; lia). ring. }
    rewrite Hs, Hd. apply eq_subrelation; [typeclasses eauto|]. destruct Hs1 as [-> | ->]; reflexivity.
Qed.

(* ---------------------------------------------------------------------------------------- Tonelli-Shanks *)
(* partial correctness by the loop invariant x^2 = a b:  for EVERY modulus, draw and input *)
Lemma ts_loop_sound p a : forall fuel x b y r,
  cong p (x * x) (a * b) ->
  ts_loop fuel p x b y r <> -1 ->
  cong p (ts_loop fuel p x b y r * ts_loop fuel p x b y r) a.
Proof.
  induction fuel as [|f IH]; intros x b y r Hinv; cbn [ts_loop]; [intros H; contradiction H; reflexivity|].
  destruct (Z.eqb_spec b 1) as [->|Hb].
  - intros _. rewrite Hinv. replace (a * 1) with a by ring. reflexivity.
  - destruct (b2k_loop (Z.to_nat r) b p 0 =? r); [intros H; contradiction H; reflexivity|].
    apply IH. rewrite !cong_rem.
    set (t := powmod y (shl 1 (r - b2k_loop (Z.to_nat r) b p 0 - 1)) p).
    transitivity ((x * x) * (t * t)); [apply eq_subrelation; [typeclasses eauto|ring]|].
    rewrite Hinv. apply eq_subrelation; [typeclasses eauto|ring].
Qed.
Definition Tonelli_sound_stmt := forall p a draws x,
  tonelli a p draws = Some x -> x <> -1 -> cong p (x * x) a.
Lemma tonelli_sound : Tonelli_sound_stmt.
Proof.
  intros p a draws x. unfold tonelli.
  destruct (split2 _ (p - 1) 0) as [q e].
  destruct (pick _ draws) as [g|]; [|discriminate].
  match goal with |- Some ?t = Some x -> _ => intros Hx; assert (Hx' : t = x) by congruence; clear Hx end.
  intros Hm1. rewrite <- Hx' in *. apply ts_loop_sound; [|exact Hm1].
  rewrite !cong_rem. apply eq_subrelation; [typeclasses eauto|ring].
Qed.

(* ---------------------------------------------------------------------------------------- sqrootmodprime *)
Definition Sqrootmodprime_sound_stmt := forall p a draws x, prime p ->
  (p mod 8 = 5 -> cong p (2 ^ ((p - 1) / 2)) (-1)) ->
  (p mod 16 = 9 -> cong p (2 ^ ((p - 1) / 2)) 1 /\ Forall (fun d => 0 < d < p /\ cong p (d ^ (p - 1)) 1) draws) ->
  sqrootmodprime a p draws = Some x -> x <> -1 -> cong p (x * x) a.
Lemma sqrootmodprime_sound : Sqrootmodprime_sound_stmt.
Proof.
  intros p a draws x Hp H5 H9. assert (Hp1 : 1 < p) by (destruct Hp; lia).
  unfold sqrootmodprime. set (amp := a mod p).
  assert (Hamp : cong p amp a) by apply cong_mod.
  destruct ((amp =? 0) || (amp =? 1)) eqn:E01.
  - intros [= <-] _. apply orb_true_iff in E01. rewrite <- Hamp.
    destruct E01 as [E|E]; apply Z.eqb_eq in E; rewrite E; reflexivity.
  - apply orb_false_iff in E01. destruct E01 as [E0 E1]. apply Z.eqb_neq in E0.
    destruct (Z.eqb_spec (legendre amp p) (-1)) as [El|El]; [intros [= <-] H; contradiction H; reflexivity|].
    assert (Hp2 : 2 < p).
    { destruct (Z.eq_dec p 2) as [->|]; [|lia]. subst amp. pose proof (Z.mod_pos_bound a 2). apply Z.eqb_neq in E1. lia. }
    assert (Hres : cong p (amp ^ ((p - 1) / 2)) 1).
    { apply legendre_residue; [lia| |exact El]. subst amp. rewrite Z.mod_mod by lia. exact E0. }
    destruct (Z.eqb_spec (p mod 4) 3) as [E4|E4].
    { intros [= <-] _. rewrite <- Hamp. apply sqrt_3mod4_correct; assumption. }
    destruct (Z.eqb_spec (p mod 8) 5) as [E8|E8].
    { intros Hx _. rewrite <- Hamp. pose proof (sqrt_atkin_correct p amp Hp E8 Hres (H5 E8)) as Hat.
      unfold atkin in Hat. destruct (powmod amp ((p - 1) / 4) p =? 1); injection Hx as <-; exact Hat. }
    destruct (Z.eqb_spec (p mod 16) 9) as [E16|E16].
    { intros Hx _. rewrite <- Hamp. destruct (H9 E16) as [H2 Hdr].
      exact (sqrt_mueller_correct p amp draws x Hp E16 Hres H2 Hdr Hx). }
    intros Hx Hm1. rewrite <- Hamp. exact (tonelli_sound p amp draws x Hx Hm1).
Qed.

(* the hypotheses of the branch theorems are satisfiable *)
Example atkin_hyps_13 : prime 13 /\ 13 mod 8 = 5 /\ cong 13 (3 ^ ((13 - 1) / 2)) 1 /\ cong 13 (2 ^ ((13 - 1) / 2)) (-1).
Proof. split; [apply prime_intro; [lia|]; intros n Hn; assert (Hc : n = 1 \/ n = 2 \/ n = 3 \/ n = 4 \/ n = 5 \/ n = 6 \/ n = 7 \/ n = 8 \/ n = 9 \/ n = 10 \/ n = 11 \/ n = 12) by lia;
  repeat (destruct Hc as [->|Hc]; [apply Zgcd_1_rel_prime; reflexivity|]); subst; apply Zgcd_1_rel_prime; reflexivity|].
  split; [reflexivity|]. split; [exists 56; reflexivity | exists 5; reflexivity]. Qed.
Example mueller_hyps_41 : 41 mod 16 = 9 /\ cong 41 (2 ^ ((41 - 1) / 2)) 1 /\ cong 41 (3 ^ (41 - 1)) 1.
Proof. split; [reflexivity|]. split; [exists 25575; reflexivity | exists 296528425830656800; reflexivity]. Qed.
