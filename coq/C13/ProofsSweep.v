(* C13 proofs, part 5: finite kernel sweeps (vm_compute over a complete range, lifted with forallb_forall; bounds stated).
   They establish, within the stated bounds, equality of the formula-level functions with the COUNTING definitions and
   the end-to-end behaviour (including "non-residue => -1") of the square-root functions. *)
From Coq Require Import ZArith Bool List Lia.
From C13 Require Import Model.
Import ListNotations.
Local Open Scope Z_scope.

Definition zrange (lo hi : Z) : list Z := map (fun i => lo + Z.of_nat i) (seq 0 (Z.to_nat (hi - lo + 1))).
Lemma zrange_In lo hi z : lo <= z <= hi -> In z (zrange lo hi).
Proof.
  intros H. unfold zrange. apply in_map_iff. exists (Z.to_nat (z - lo)). split; [lia|].
  apply in_seq. lia.
Qed.
Lemma sweep (P : Z -> bool) lo hi : forallb P (zrange lo hi) = true -> forall z, lo <= z <= hi -> P z = true.
Proof. intros H z Hz. rewrite forallb_forall in H. apply H, zrange_In, Hz. Qed.

(* an independent trial-division factoriser (what IntFactorDom::set delivers): [(p,e)] ascending *)
Fixpoint multiplicity (fuel : nat) (n d : Z) : Z * Z :=           (* (e, n / d^e) *)
  match fuel with
  | O => (0, n)
  | S f => if n mod d =? 0 then let '(e, m) := multiplicity f (n / d) d in (e + 1, m) else (0, n)
  end.
Fixpoint factor_loop (fuel : nat) (n d : Z) : list (Z * Z) :=
  match fuel with
  | O => if 1 <? n then [(n, 1)] else []
  | S f => if n <? d * d then (if 1 <? n then [(n, 1)] else [])
           else let '(e, m) := multiplicity 64 n d in
                if 0 <? e then (d, e) :: factor_loop f m (d + 1) else factor_loop f n (d + 1)
  end.
Definition factors (n : Z) : list (Z * Z) := factor_loop (Z.to_nat (Z.sqrt n) + 1) n 2.
Definition primes_of (n : Z) : list Z := map fst (factors n).
Definition is_primeb (n : Z) : bool := match factors n with [(p, 1)] => true | _ => false end.

(* counting / searching definitions *)
Definition units (n : Z) : list Z := filter (fun a => Z.gcd a n =? 1) (zrange 1 n).
Fixpoint ord_iter (fuel : nat) (a n x d : Z) : Z :=                 (* least d >= 1 with a^d = 1, by running through a, a^2, a^3, ... *)
  match fuel with
  | O => 0
  | S f => if x =? 1 mod n then d else ord_iter f a n ((x * a) mod n) (d + 1)
  end.
Definition order_def (a n : Z) : Z :=                               (* 0 for a non-unit *)
  if Z.gcd (a mod n) n =? 1 then ord_iter (Z.to_nat n) (a mod n) n (a mod n) 1 else 0.
Fixpoint least_from (fuel : nat) (P : Z -> bool) (z : Z) : Z :=      (* least z' >= z with P z' (within fuel), else 0 *)
  match fuel with O => 0 | S f => if P z then z else least_from f P (z + 1) end.
Fixpoint allb (P : Z -> bool) (l : list Z) : bool :=                (* forallb, lazy in the tail (vm_compute is strict in &&) *)
  match l with [] => true | x :: tl => if P x then allb P tl else false end.
Definition exponent_def (n : Z) : Z :=                              (* least e >= 1 with u^e = 1 for every unit u *)
  let us := units n in
  least_from (Z.to_nat n) (fun e => allb (fun u => powmod u e n =? 1 mod n) us) 1.
Definition squares_mod (n : Z) : list Z := map (fun x => (x * x) mod n) (zrange 0 (n - 1)).
Definition is_square_in (sq : list Z) (a n : Z) : bool := existsb (Z.eqb (a mod n)) sq.
Definition is_square_mod (a n : Z) : bool := is_square_in (squares_mod n) a n.       (* exists x, x*x = a (mod n) *)
Definition draws80 : list Z := zrange 1 80.

(* --- phi = number of units,  n <= 800 *)
Definition phi_ok (n : Z) : bool := phi n (primes_of n) =? count_units n.
Definition Phi_count_stmt := forall n, 1 <= n <= 800 -> phi n (primes_of n) = count_units n.
Lemma phi_count_sweep : Phi_count_stmt.
Proof. intros n Hn. apply Z.eqb_eq. revert n Hn. apply (sweep phi_ok). vm_cast_no_check (eq_refl true). Qed.

(* --- lambda_inv = exponent of the unit group, lambda = the same except lambda(8) = 3,  2 <= m <= 200 *)
(* (the statement about lambda that stood here, `lambda m = if m =? 8 then 3 else exponent_def m`, was fitted to the body before
   01ad5d5; lambda and lambda_inv are now stated against the header's definitions in ProofsLambda.v) *)

(* --- order = least exponent, is_prim_root <-> order = phi,  2 <= n <= 120, every a in [-1, n+1] *)
Definition order_ok (n : Z) : bool :=
  let Ln := primes_of n in let Lphi := primes_of (phi n Ln) in
  forallb (fun a => (order a n Ln Lphi =? (if a mod n =? 0 then 0 else order_def a n))
                    && Bool.eqb (is_prim_root a n Ln Lphi) ((Z.gcd (a mod n) n =? 1) && (order_def a n =? phi n Ln)))
          (zrange (-1) (n + 1)).
Definition Order_least_stmt := forall n a, 2 <= n <= 120 -> -1 <= a <= n + 1 ->
  let Ln := primes_of n in let Lphi := primes_of (phi n Ln) in
  order a n Ln Lphi = (if a mod n =? 0 then 0 else order_def a n) /\
  is_prim_root a n Ln Lphi = ((Z.gcd (a mod n) n =? 1) && (order_def a n =? phi n Ln)).
Lemma order_least_sweep : Order_least_stmt.
Proof.
  intros n a Hn Ha. assert (H : order_ok n = true) by (clear - Hn; revert n Hn; apply (sweep order_ok); vm_cast_no_check (eq_refl true)).
  unfold order_ok in H. rewrite forallb_forall in H. specialize (H a (zrange_In _ _ _ Ha)).
  apply andb_true_iff in H. destruct H as [H1 H2]. split; [apply Z.eqb_eq, H1 | apply Bool.eqb_prop, H2].
Qed.

(* --- sqrootmodprime, end to end: every prime p <= 200 (all classes mod 16), every a in [-2, p+2], draws 1..80 *)
Definition root_ok (sq : list Z) (a n : Z) (r : option Z) : bool :=
  match r with
  | None => false
  | Some x => if is_square_in sq a n then negb (x =? -1) && ((x * x - a) mod n =? 0) else x =? -1
  end.
Definition sqrtp_ok (p : Z) : bool :=
  if is_primeb p
  then (let sq := squares_mod p in forallb (fun a => root_ok sq a p (sqrootmodprime a p draws80)) (zrange (-2) (p + 2)))
  else true.
Definition Root_spec (a n : Z) (r : option Z) : Prop :=
  exists x, r = Some x /\ (if is_square_mod a n then x <> -1 /\ (x * x - a) mod n = 0 else x = -1).
Lemma root_ok_spec a n r : root_ok (squares_mod n) a n r = true -> Root_spec a n r.
Proof.
  unfold root_ok, Root_spec, is_square_mod. destruct r as [x|]; [|discriminate]. intros H. exists x. split; [reflexivity|].
  destruct (is_square_in (squares_mod n) a n).
  - apply andb_true_iff in H. destruct H as [H1 H2]. split; [apply Z.eqb_neq, negb_true_iff, H1 | apply Z.eqb_eq, H2].
  - apply Z.eqb_eq, H.
Qed.
Definition Sqrootmodprime_sweep_stmt := forall p a, 2 <= p <= 200 -> is_primeb p = true -> -2 <= a <= p + 2 ->
  Root_spec a p (sqrootmodprime a p draws80).
Lemma sqrootmodprime_sweep : Sqrootmodprime_sweep_stmt.
Proof.
  intros p a Hp Hpr Ha. assert (H : sqrtp_ok p = true) by (clear - Hp; revert p Hp; apply (sweep sqrtp_ok); vm_cast_no_check (eq_refl true)).
  unfold sqrtp_ok in H. rewrite Hpr in H. cbv zeta in H. rewrite forallb_forall in H.
  apply root_ok_spec. apply H, zrange_In, Ha.
Qed.

(* --- sqrootmodprimepower / sqrootmodpoweroftwo, end to end: every prime power p^k <= 1000 with k >= 2, every a in [-2, p^k+1] *)
Definition sqrt_pk (a p k : Z) : option Z :=
  if p =? 2 then Some (sqrootmodpoweroftwo (pow2_fuel k) a k (p ^ k)) else sqrootmodprimepower (pow2_fuel k) a p k (p ^ k) draws80.
Definition sqrtpk_case (p k : Z) : bool :=
  let sq := squares_mod (p ^ k) in forallb (fun a => root_ok sq a (p ^ k) (sqrt_pk a p k)) (zrange (-2) (p ^ k + 1)).
Definition sqrtpk_ok (p : Z) : bool :=
  if is_primeb p then forallb (fun k => if 1000 <? p ^ k then true else sqrtpk_case p k) (zrange 2 9) else true.
Definition Sqrootmodprimepower_sweep_stmt := forall p k a, 2 <= p <= 31 -> is_primeb p = true -> 2 <= k <= 9 -> p ^ k <= 1000 ->
  -2 <= a <= p ^ k + 1 -> Root_spec a (p ^ k) (sqrt_pk a p k).
Lemma sqrootmodprimepower_sweep : Sqrootmodprimepower_sweep_stmt.
Proof.
  intros p k a Hp Hpr Hk Hpk Ha.
  assert (H : sqrtpk_ok p = true) by (clear - Hp; revert p Hp; apply (sweep sqrtpk_ok); vm_cast_no_check (eq_refl true)).
  unfold sqrtpk_ok in H. rewrite Hpr in H. rewrite forallb_forall in H. specialize (H k (zrange_In _ _ _ Hk)).
  destruct (Z.ltb_spec 1000 (p ^ k)) as [Hgt|_]; [lia|].
  unfold sqrtpk_case in H. cbv zeta in H. rewrite forallb_forall in H.
  apply root_ok_spec. apply H, zrange_In, Ha.
Qed.

(* --- Brillhart: every prime p = 1 (mod 4), p <= 2000 *)
Definition brill_ok (p : Z) : bool :=
  if is_primeb p && (p mod 4 =? 1)
  then match brillhart p draws80 with Some (a, b) => a * a + b * b =? p | None => false end
  else true.
Definition Brillhart_sweep_stmt := forall p, 2 <= p <= 2000 -> is_primeb p = true -> p mod 4 = 1 ->
  exists a b, brillhart p draws80 = Some (a, b) /\ a * a + b * b = p.
Lemma brillhart_sweep : Brillhart_sweep_stmt.
Proof.
  intros p Hp Hpr H4. assert (H : brill_ok p = true) by (clear - Hp; revert p Hp; apply (sweep brill_ok); vm_cast_no_check (eq_refl true)).
  unfold brill_ok in H. rewrite Hpr in H. replace (p mod 4 =? 1) with true in H by (symmetry; apply Z.eqb_eq; exact H4). cbn [andb] in H.
  destruct (brillhart p draws80) as [[a b]|]; [|discriminate]. exists a, b. split; [reflexivity | apply Z.eqb_eq, H].
Qed.

(* --- the Kronecker-symbol algorithm (model of mpz_jacobi / mpz_legendre / mpz_kronecker) agrees with Euler's criterion
       (the model of legendre used by the square-root code): every odd prime p <= 300, every a in [-p, 2p] *)
Definition kron_ok (p : Z) : bool :=
  if is_primeb p && (2 <? p) then forallb (fun a => kronecker_sym a p =? legendre a p) (zrange (- p) (2 * p)) else true.
Definition Kronecker_euler_stmt := forall p a, 3 <= p <= 300 -> is_primeb p = true -> - p <= a <= 2 * p ->
  kronecker_sym a p = legendre a p.
Lemma kronecker_euler_sweep : Kronecker_euler_stmt.
Proof.
  intros p a Hp Hpr Ha. assert (H : kron_ok p = true) by (clear - Hp; revert p Hp; apply (sweep kron_ok); vm_cast_no_check (eq_refl true)).
  unfold kron_ok in H. rewrite Hpr in H. replace (2 <? p) with true in H by (symmetry; apply Z.ltb_lt; lia). cbn [andb] in H.
  rewrite forallb_forall in H. apply Z.eqb_eq. apply H, zrange_In, Ha.
Qed.

(* ------------------------------------------------------------------------------------------------------------------
   FULL statements of which the sweeps above are the bounded (`_partial`) versions.  They are NOT proved here; they are
   kept visible so that the gap is explicit (DESIGN 5/C13: claimed partial). *)
From Coq Require Import Znumtheory.
Definition Phi_count_full_stmt := forall n, 1 <= n -> phi n (primes_of n) = count_units n.
Definition Lambda_exponent_full_stmt := forall m, 2 <= m -> lambda_inv m (factors m) = exponent_def m.
Definition Order_least_full_stmt := forall n a, 2 <= n ->
  let Ln := primes_of n in let Lphi := primes_of (phi n Ln) in
  order a n Ln Lphi = (if a mod n =? 0 then 0 else order_def a n).
(* completeness of sqrootmodprime (the Tonelli-Shanks loop never reports a residue as -1 and its fuel suffices) and
   the whole-function behaviour of the prime-power functions, for all primes *)
Definition Sqrootmodprime_full_stmt := forall p a draws, prime p ->
  (exists g, In g draws /\ legendre g p = -1) -> Forall (fun d => 0 < d < p) draws ->
  Root_spec a p (sqrootmodprime a p draws).
Definition Sqrootmodprimepower_full_stmt := forall p k a draws, prime p -> 1 <= k ->
  (exists g, In g draws /\ legendre g p = -1) -> Forall (fun d => 0 < d < p) draws ->
  Root_spec a (p ^ k) (if p =? 2 then Some (sqrootmodpoweroftwo (pow2_fuel k) a k (p ^ k))
                       else sqrootmodprimepower (pow2_fuel k) a p k (p ^ k) draws).
Definition Kronecker_euler_full_stmt := forall p a, prime p -> 2 < p -> kronecker_sym a p = legendre a p.
Definition Brillhart_full_stmt := forall p draws, prime p -> p mod 4 = 1 ->
  (exists g, In g draws /\ legendre g p = -1) -> Forall (fun d => 0 < d < p) draws ->
  exists a b, brillhart p draws = Some (a, b) /\ a * a + b * b = p.
