(* C13 proofs, part 10: the Tonelli-Shanks loop is TOTAL on residues (it never reports a residue as -1, for every 2-adic
   valuation e of p - 1, in particular for the exponents 2^(r-m-1) >= 2^64), and sqrootmodprime as a whole decides residuosity. *)
From Coq Require Import ZArith Znumtheory Bool List Lia Morphisms Setoid.
From C13 Require Import Model ProofsBase ProofsSqrt ProofsNumTheo ProofsOrder.
Import ListNotations.
Local Open Scope Z_scope.
Ltac Zify.zify_post_hook ::= Z.div_mod_to_equations.

Lemma shl_1 k : shl 1 k = 2 ^ k.
Proof. unfold shl. ring. Qed.

Lemma pow2_pow2 u i j : 0 <= i -> 0 <= j -> (u ^ (2 ^ i)) ^ (2 ^ j) = u ^ (2 ^ (i + j)).
Proof.
  intros Hi Hj. rewrite <- Z.pow_mul_r by (apply Z.pow_nonneg; lia). rewrite <- Z.pow_add_r by lia. reflexivity.
Qed.
Lemma sq_pow2 u i : 0 <= i -> u ^ (2 ^ i) * u ^ (2 ^ i) = u ^ (2 ^ (i + 1)).
Proof.
  intros Hi. rewrite <- Z.pow_add_r by (apply Z.pow_nonneg; lia). f_equal. rewrite Z.pow_add_r, Z.pow_1_r by lia. ring.
Qed.

(* for(m = 0; b2k != 1; ++m) b2k = b2k^2 % p  (capped): m is the least exponent with c^(2^m) = 1, or the cap *)
Lemma b2k_spec p : 1 < p -> forall fuel c m0, 0 <= c < p ->
  let m := b2k_loop fuel c p m0 in
  m0 <= m <= m0 + Z.of_nat fuel /\
  (m < m0 + Z.of_nat fuel -> cong p (c ^ (2 ^ (m - m0))) 1) /\
  (forall i, 0 <= i < m - m0 -> ~ cong p (c ^ (2 ^ i)) 1).
Proof.
  intros Hp. induction fuel as [|f IH]; intros c m0 Hc; cbn [b2k_loop].
  - cbn zeta. split; [lia|]. split; [lia|]. intros i Hi; lia.
  - destruct (Z.eqb_spec c 1) as [E|E].
    + cbn zeta. split; [lia|]. split.
      * intros _. rewrite Z.sub_diag. change (2 ^ 0) with 1. rewrite Z.pow_1_r, E. reflexivity.
      * intros i Hi; lia.
    + assert (Hc' : 0 <= Z.rem (c * c) p < p) by (apply Z.rem_bound_pos; nia).
      specialize (IH (Z.rem (c * c) p) (m0 + 1) Hc'). cbn zeta in IH |- *.
      set (m := b2k_loop f (Z.rem (c * c) p) p (m0 + 1)) in *.
      destruct IH as [H1 [H2 H3]].
      split; [lia|]. split.
      * intros Hm. assert (Hm' : m < m0 + 1 + Z.of_nat f) by lia.
        specialize (H2 Hm'). rewrite (cong_rem p (c * c)) in H2.
        replace (m - m0) with ((m - (m0 + 1)) + 1) by lia.
        rewrite <- sq_pow2 by lia. rewrite <- Z.pow_mul_l. exact H2.
      * intros i Hi Hci. destruct (Z.eq_dec i 0) as [->|Hi0].
        -- change (2 ^ 0) with 1 in Hci. rewrite Z.pow_1_r in Hci. apply E.
           apply (cong_eq_small p); [exact Hc | lia | exact Hci].
        -- apply (H3 (i - 1)); [lia|]. rewrite (cong_rem p (c * c)). rewrite Z.pow_mul_l, sq_pow2 by lia.
           replace (i - 1 + 1) with i by lia. exact Hci.
Qed.

(* THE invariant of the Tonelli-Shanks loop (Cohen 1.5.1):  x^2 = a b,  y has order exactly 2^r  (y^(2^(r-1)) = -1),
   b^(2^(r-1)) = 1.   Under it the `m == r` exit is never taken, r strictly decreases, and the value returned is a root.
   The exponent 2^(r-m-1) is the exact Integer shift `shl 1 (r-m-1)`: no bound on r. *)
Lemma ts_loop_complete p a : prime p -> forall fuel x b y r,
  1 <= r <= Z.of_nat fuel -> 0 <= x -> 0 <= b < p ->
  cong p (x * x) (a * b) ->
  cong p (y ^ (2 ^ (r - 1))) (-1) ->
  cong p (b ^ (2 ^ (r - 1))) 1 ->
  0 <= ts_loop fuel p x b y r /\ cong p (ts_loop fuel p x b y r * ts_loop fuel p x b y r) a.
Proof.
  intros Hp. assert (Hp1 : 1 < p) by (destruct Hp; lia).
  induction fuel as [|f IH]; intros x b y r Hr Hx Hb Hinv Hy Hbr; [lia|]. cbn [ts_loop].
  destruct (Z.eqb_spec b 1) as [->|Hb1].
  - split; [exact Hx|]. rewrite Hinv. replace (a * 1) with a by ring. reflexivity.
  - pose proof (b2k_spec p Hp1 (Z.to_nat r) b 0 Hb) as Hm. cbn zeta in Hm.
    set (m := b2k_loop (Z.to_nat r) b p 0) in *.
    rewrite Z2Nat.id in Hm by lia. destruct Hm as [Hm1 [Hm2 Hm3]].
    assert (Hmr : m <= r - 1).
    { destruct (Z_le_gt_dec m (r - 1)) as [|Hgt]; [assumption|]. exfalso. apply (Hm3 (r - 1)); [lia | exact Hbr]. }
    assert (Hm0 : 1 <= m).
    { destruct (Z_le_gt_dec 1 m) as [|Hlt]; [assumption|]. exfalso. assert (Hmz : m = 0) by lia.
      apply Hb1. apply (cong_eq_small p); [exact Hb | lia |].
      specialize (Hm2 ltac:(lia)). rewrite Hmz in Hm2. change (2 ^ (0 - 0)) with 1 in Hm2. rewrite Z.pow_1_r in Hm2. exact Hm2. }
    specialize (Hm2 ltac:(lia)). rewrite Z.sub_0_r in Hm2.
    destruct (Z.eqb_spec m r) as [E|_]; [lia|].
    rewrite shl_1.
    set (t := powmod y (2 ^ (r - m - 1)) p).
    assert (Ht : cong p t (y ^ (2 ^ (r - m - 1)))) by (apply powmod_cong; apply Z.pow_nonneg; lia).
    assert (Htr : 0 <= t < p) by (apply powmod_range; [lia | apply Z.pow_nonneg; lia]).
    assert (Hy'r : 0 <= Z.rem (t * t) p < p) by (apply Z.rem_bound_pos; nia).
    assert (Hy'2 : cong p (Z.rem (t * t) p) (t * t)) by apply cong_rem.
    set (y' := Z.rem (t * t) p) in *.
    assert (Hy' : cong p y' (y ^ (2 ^ (r - m)))).
    { rewrite Hy'2, Ht. rewrite sq_pow2 by lia. replace (r - m - 1 + 1) with (r - m) by lia. reflexivity. }
    assert (Hbm : cong p (b ^ (2 ^ (m - 1))) (-1)).
    { assert (Hsq : cong p (b ^ (2 ^ (m - 1)) * b ^ (2 ^ (m - 1))) 1).
      { rewrite sq_pow2 by lia. replace (m - 1 + 1) with m by lia. exact Hm2. }
      destruct (cong_prime_sq_1 _ _ Hp Hsq) as [H1|H1]; [|exact H1].
      exfalso. apply (Hm3 (m - 1)); [lia | exact H1]. }
    apply IH.
    + lia.
    + apply Z.rem_bound_pos; nia.
    + apply Z.rem_bound_pos; nia.
    + rewrite !cong_rem. rewrite Hy'2.
      transitivity ((x * x) * (t * t)); [apply eq_subrelation; [typeclasses eauto|ring]|].
      rewrite Hinv. apply eq_subrelation; [typeclasses eauto|ring].
    + rewrite Hy'. rewrite pow2_pow2 by lia. replace (r - m + (m - 1)) with (r - 1) by lia. exact Hy.
    + rewrite cong_rem. rewrite Z.pow_mul_l. rewrite Hbm, Hy'. rewrite pow2_pow2 by lia.
      replace (r - m + (m - 1)) with (r - 1) by lia. rewrite Hy. reflexivity.
Qed.

(* for( ; (q & 1) == 0; ++e) q >>= 1 *)
Lemma split2_spec : forall fuel q0 e0, 0 < q0 < 2 ^ Z.of_nat fuel ->
  let '(q, e) := split2 fuel q0 e0 in q0 = q * 2 ^ (e - e0) /\ e0 <= e /\ Z.odd q = true /\ 0 < q.
Proof.
  induction fuel as [|f IH]; intros q0 e0 Hq; cbn [split2].
  - change (2 ^ Z.of_nat 0) with 1 in Hq. lia.
  - destruct (Z.even q0) eqn:Ev.
    + apply Z.even_spec in Ev. destruct Ev as [h Hh].
      assert (Hdiv : q0 / 2 = h) by (subst q0; rewrite Z.mul_comm, Z.div_mul; lia).
      rewrite Hdiv. rewrite Nat2Z.inj_succ, Z.pow_succ_r in Hq by lia.
      specialize (IH h (e0 + 1) ltac:(lia)). destruct (split2 f h (e0 + 1)) as [q e].
      destruct IH as [H1 [H2 [H3 H4]]]. split; [|split; [lia|split; assumption]].
      rewrite Hh, H1. replace (e - e0) with ((e - (e0 + 1)) + 1) by lia. rewrite Z.pow_add_r, Z.pow_1_r by lia. ring.
    + split; [rewrite Z.sub_diag; change (2 ^ 0) with 1; ring|]. split; [lia|].
      split; [rewrite <- Z.negb_even, Ev; reflexivity | lia].
Qed.

Lemma pick_some (ok : Z -> bool) draws : (exists g, In g draws /\ ok g = true) -> exists d, pick ok draws = Some d.
Proof.
  induction draws as [|c tl IH]; intros [g [Hin Hok]]; [destruct Hin|]. cbn [pick].
  destruct (ok c) eqn:E; [eexists; reflexivity|]. apply IH.
  destruct Hin as [<-|Hin]; [congruence|]. exists g; split; assumption.
Qed.

Lemma odd_prime_odd p : prime p -> 2 < p -> Z.odd p = true.
Proof.
  intros Hp Hp2. rewrite <- Z.negb_even. destruct (Z.even p) eqn:Ev; [|reflexivity]. exfalso.
  apply Z.even_spec in Ev. destruct Ev as [h Hh].
  destruct (prime_divisors p Hp 2) as [H|[H|[H|H]]]; try lia. exists h. lia.
Qed.

(* a draw with legendre = -1 satisfies Euler's criterion with value -1 (given Fermat for that draw) *)
Lemma nonresidue_minus_one p g : prime p -> 2 < p -> cong p (g ^ (p - 1)) 1 -> legendre g p = -1 ->
  cong p (g ^ ((p - 1) / 2)) (-1).
Proof.
  intros Hp Hp2 Hf Hl. assert (Ho := odd_prime_odd p Hp Hp2). apply Z.odd_spec in Ho. destruct Ho as [h Hh].
  assert (Hhalf : (p - 1) / 2 = h) by lia.
  pose proof (legendre_minus_one g p Hp2 Hl) as Hne. rewrite Hhalf in *.
  assert (Hh0 : 0 <= h) by lia.
  assert (Hsq : cong p (g ^ h * g ^ h) 1).
  { rewrite <- Z.pow_add_r by lia. replace (h + h) with (p - 1) by lia. exact Hf. }
  destruct (cong_prime_sq_1 _ _ Hp Hsq) as [H1|H1]; [|exact H1].
  exfalso. apply Hne. apply (cong_eq_small p); [apply powmod_range; lia | lia |].
  rewrite (powmod_cong p g h Hh0). exact H1.
Qed.

(* Tonelli-Shanks as a whole: whatever the function returns IS a root in [0, oo) of the residue a -- never -1 *)
Lemma tonelli_some p a draws x : prime p -> 2 < p -> 0 <= a ->
  cong p (a ^ ((p - 1) / 2)) 1 ->
  Forall (fun d => cong p (d ^ (p - 1)) 1) draws ->
  tonelli a p draws = Some x -> 0 <= x /\ cong p (x * x) a.
Proof.
  intros Hp Hp2 Ha He Hdr. unfold tonelli.
  assert (Hp1 : 0 < p - 1) by lia.
  pose proof (split2_spec (log2_fuel (p - 1)) (p - 1) 0 (conj Hp1 (log2_fuel_bound (p - 1) Hp1))) as Hs.
  destruct (split2 (log2_fuel (p - 1)) (p - 1) 0) as [q e]. rewrite Z.sub_0_r in Hs. destruct Hs as [Hpq [He0 [Hodd Hq0]]].
  assert (Ho := odd_prime_odd p Hp Hp2). apply Z.odd_spec in Ho. destruct Ho as [hp Hhp].
  apply Z.odd_spec in Hodd. destruct Hodd as [hq Hhq].
  assert (He1 : 1 <= e).
  { destruct (Z.eq_dec e 0) as [Ez|]; [|lia]. exfalso. rewrite Ez in Hpq. change (2 ^ 0) with 1 in Hpq. lia. }
  assert (Hhalf : (p - 1) / 2 = q * 2 ^ (e - 1)).
  { replace e with ((e - 1) + 1) in Hpq by lia. rewrite Z.pow_add_r, Z.pow_1_r in Hpq by lia.
    remember (q * 2 ^ (e - 1)) as qw. assert (p - 1 = qw * 2) by (rewrite Heqqw; lia). lia. }
  assert (Hq12 : (q - 1) / 2 = hq) by lia.
  destruct (pick (fun g => legendre g p =? -1) draws) as [g|] eqn:Epick; [|discriminate].
  apply pick_spec in Epick. destruct Epick as [Hin Hok]. apply Z.eqb_eq in Hok.
  rewrite Forall_forall in Hdr.
  pose proof (nonresidue_minus_one p g Hp Hp2 (Hdr g Hin) Hok) as Hg. rewrite Hhalf in Hg, He.
  assert (H2e : 0 <= 2 ^ (e - 1)) by (apply Z.pow_nonneg; lia).
  match goal with |- Some ?t = Some x -> _ => intros Hx; assert (Hx' : t = x) by congruence; clear Hx end.
  rewrite <- Hx'. clear Hx'. rewrite Hq12.
  assert (Hx0 : 0 <= powmod a hq p < p) by (apply powmod_range; lia).
  set (x0 := powmod a hq p) in *.
  assert (Hx0c : cong p x0 (a ^ hq)) by (apply powmod_cong; lia).
  apply ts_loop_complete; try assumption.
  - lia.
  - apply Z.rem_bound_pos; nia.
  - apply Z.rem_bound_pos; nia.
  - rewrite !cong_rem. apply eq_subrelation; [typeclasses eauto|ring].
  - rewrite (powmod_cong p g q) by lia. rewrite <- Z.pow_mul_r by lia. exact Hg.
  - rewrite cong_rem, Hx0c.
    transitivity ((a ^ q) ^ (2 ^ (e - 1))); [|rewrite <- Z.pow_mul_r by lia; exact He].
    apply eq_subrelation; [typeclasses eauto|]. f_equal. rewrite Hhq.
    replace (2 * hq + 1) with (hq + hq + 1) by ring. rewrite !Z.pow_add_r, Z.pow_1_r by lia. ring.
Qed.

Definition Tonelli_complete_stmt := forall p a draws, prime p -> 2 < p -> 0 <= a ->
  cong p (a ^ ((p - 1) / 2)) 1 ->                          (* Euler's criterion for the residue a (the legendre guard) *)
  Forall (fun d => cong p (d ^ (p - 1)) 1) draws ->          (* Fermat for the draws *)
  (exists g, In g draws /\ legendre g p = -1) ->            (* some draw passes the loop guard *)
  exists x, tonelli a p draws = Some x /\ 0 <= x /\ cong p (x * x) a.
Lemma tonelli_complete : Tonelli_complete_stmt.
Proof.
  intros p a draws Hp Hp2 Ha He Hdr [g [Hin Hg]].
  destruct (pick_some (fun g => legendre g p =? -1) draws) as [d Hd].
  { exists g. split; [exact Hin | apply Z.eqb_eq; exact Hg]. }
  assert (Hsome : exists x, tonelli a p draws = Some x).
  { unfold tonelli. destruct (split2 _ (p - 1) 0) as [q e]. rewrite Hd. eexists; reflexivity. }
  destruct Hsome as [x Hx]. exists x. split; [exact Hx|]. exact (tonelli_some p a draws x Hp Hp2 Ha He Hdr Hx).
Qed.

(* ---------------------------------------------------------------------------------------- sqrootmodprime decides *)
Definition Fermat_hyp (p : Z) : Prop := forall u, ~ (p | u) -> cong p (u ^ (p - 1)) 1.
Definition residue (p a : Z) : Prop := exists y, cong p (y * y) a.

(* sqrootmodprime as a whole, every odd prime, every branch: a residue gets a root (never -1), a non-residue gets -1.
   Hypotheses (number theory not proved here): Fermat's little theorem for p, the value of (2/p) in the Atkin / Mueller classes. *)
Definition Sqrootmodprime_decides_stmt := forall p a draws x, prime p -> 2 < p -> Fermat_hyp p ->
  (p mod 8 = 5 -> cong p (2 ^ ((p - 1) / 2)) (-1)) ->
  (p mod 16 = 9 -> cong p (2 ^ ((p - 1) / 2)) 1) ->
  Forall (fun d => 0 < d < p) draws ->
  sqrootmodprime a p draws = Some x ->
  (residue p a -> x <> -1 /\ cong p (x * x) a) /\ (~ residue p a -> x = -1).
Lemma sqrootmodprime_decides : Sqrootmodprime_decides_stmt.
Proof.
  intros p a draws x Hp Hp2 Hfer H5 H9 Hdr Hx. assert (Hp1 : 1 < p) by lia.
  assert (Hdr' : Forall (fun d => 0 < d < p /\ cong p (d ^ (p - 1)) 1) draws).
  { rewrite Forall_forall in *. intros d Hd. specialize (Hdr d Hd). split; [exact Hdr|].
    apply Hfer. intros Hdiv. apply Z.divide_pos_le in Hdiv; lia. }
  assert (Hdr'' : Forall (fun d => cong p (d ^ (p - 1)) 1) draws).
  { rewrite Forall_forall in *. intros d Hd. exact (proj2 (Hdr' d Hd)). }
  assert (Ho := odd_prime_odd p Hp Hp2). apply Z.odd_spec in Ho. destruct Ho as [h Hh].
  assert (Hhalf : (p - 1) / 2 = h) by lia. assert (Hh0 : 0 <= h) by lia.
  (* either -1 for a non-residue, or a root other than -1 *)
  assert (Hmain : (x = -1 /\ ~ residue p a) \/ (x <> -1 /\ cong p (x * x) a)).
  { revert Hx. unfold sqrootmodprime. set (amp := a mod p).
    assert (Hamp : cong p amp a) by apply cong_mod.
    assert (Hampr : 0 <= amp < p) by (apply Z.mod_pos_bound; lia).
    destruct ((amp =? 0) || (amp =? 1)) eqn:E01.
    { intros [= <-]. right. apply orb_true_iff in E01. rewrite <- Hamp.
      destruct E01 as [E|E]; apply Z.eqb_eq in E; rewrite E; split; try lia; reflexivity. }
    apply orb_false_iff in E01. destruct E01 as [E0 E1]. apply Z.eqb_neq in E0. apply Z.eqb_neq in E1.
    destruct (Z.eqb_spec (legendre amp p) (-1)) as [El|El].
    { intros [= <-]. left. split; [reflexivity|]. intros [y Hy].
      assert (Hny : ~ (p | y)).
      { intros [k Hk]. apply E0. apply (cong_eq_small p); [exact Hampr | lia |]. rewrite Hamp, <- Hy, Hk.
        exists (k * k * p). ring. }
      pose proof (Hfer y Hny) as Hfy.
      apply (legendre_minus_one amp p Hp2 El). rewrite Hhalf.
      apply (cong_eq_small p); [apply powmod_range; lia | lia |].
      rewrite (powmod_cong p amp h Hh0). rewrite Hamp, <- Hy. rewrite Z.pow_mul_l, <- Z.pow_add_r by lia.
      replace (h + h) with (p - 1) by lia. exact Hfy. }
    assert (Hres : cong p (amp ^ ((p - 1) / 2)) 1).
    { apply legendre_residue; [lia | | exact El]. subst amp. rewrite Z.mod_mod by lia. exact E0. }
    intros Hx. right.
    assert (Hroot : cong p (x * x) a).
    { revert Hx. destruct (Z.eqb_spec (p mod 4) 3) as [E4|E4].
      { intros [= <-]. rewrite <- Hamp. apply sqrt_3mod4_correct; assumption. }
      destruct (Z.eqb_spec (p mod 8) 5) as [E8|E8].
      { intros Hx. rewrite <- Hamp. pose proof (sqrt_atkin_correct p amp Hp E8 Hres (H5 E8)) as Hat.
        unfold atkin in Hat. destruct (powmod amp ((p - 1) / 4) p =? 1); injection Hx as <-; exact Hat. }
      destruct (Z.eqb_spec (p mod 16) 9) as [E16|E16].
      { intros Hx. rewrite <- Hamp. exact (sqrt_mueller_correct p amp draws x Hp E16 Hres (H9 E16) Hdr' Hx). }
      intros Hx. rewrite <- Hamp. exact (proj2 (tonelli_some p amp draws x Hp Hp2 (proj1 Hampr) Hres Hdr'' Hx)). }
    split; [|exact Hroot]. intros ->. apply E1. apply (cong_eq_small p); [exact Hampr | lia |].
    rewrite Hamp, <- Hroot. reflexivity. }
  destruct Hmain as [[Hm1 Hnr]|[Hn1 Hroot]].
  - split; [intros Hr; contradiction | intros _; exact Hm1].
  - split; [intros _; split; assumption | intros Hnr; exfalso; apply Hnr; exists x; exact Hroot].
Qed.

(* the random loop of the Tonelli-Shanks class ends as soon as a draw is a non-residue: the function then returns *)
Definition Sqrootmodprime_returns_stmt := forall p a draws, p mod 4 <> 3 -> p mod 8 <> 5 -> p mod 16 <> 9 ->
  (exists g, In g draws /\ legendre g p = -1) -> exists x, sqrootmodprime a p draws = Some x.
Lemma sqrootmodprime_returns : Sqrootmodprime_returns_stmt.
Proof.
  intros p a draws H4 H8 H16 [g [Hin Hg]]. unfold sqrootmodprime.
  destruct (_ || _); [eexists; reflexivity|]. destruct (legendre (a mod p) p =? -1); [eexists; reflexivity|].
  destruct (Z.eqb_spec (p mod 4) 3); [contradiction|]. destruct (Z.eqb_spec (p mod 8) 5); [contradiction|].
  destruct (Z.eqb_spec (p mod 16) 9); [contradiction|].
  unfold tonelli. destruct (split2 _ (p - 1) 0) as [q e].
  destruct (pick_some (fun g => legendre g p =? -1) draws) as [d Hd].
  { exists g. split; [exact Hin | apply Z.eqb_eq; exact Hg]. }
  rewrite Hd. eexists; reflexivity.
Qed.

(* ---------------------------------------------------------------------------------------- the hypotheses are satisfiable *)
Lemma small_prime_17 : prime 17.
Proof.
  apply prime_intro; [lia|]. intros n Hn.
  assert (Hc : n = 1 \/ n = 2 \/ n = 3 \/ n = 4 \/ n = 5 \/ n = 6 \/ n = 7 \/ n = 8 \/ n = 9 \/ n = 10 \/ n = 11 \/ n = 12 \/
               n = 13 \/ n = 14 \/ n = 15 \/ n = 16) by lia.
  repeat (destruct Hc as [->|Hc]; [apply Zgcd_1_rel_prime; reflexivity|]). subst. apply Zgcd_1_rel_prime; reflexivity.
Qed.
Lemma fermat_17 : Fermat_hyp 17.
Proof.
  intros u Hu. change (17 - 1) with 16.
  transitivity ((u mod 17) ^ 16); [apply cong_pow; [symmetry; apply cong_mod | reflexivity]|].
  assert (Hr : 0 < u mod 17 < 17).
  { pose proof (Z.mod_pos_bound u 17 ltac:(lia)). destruct (Z.eq_dec (u mod 17) 0) as [E|]; [|lia].
    exfalso. apply Hu. apply Z.mod_divide; [lia | exact E]. }
  set (r := u mod 17) in *. clearbody r.
  assert (Hc : r = 1 \/ r = 2 \/ r = 3 \/ r = 4 \/ r = 5 \/ r = 6 \/ r = 7 \/ r = 8 \/ r = 9 \/ r = 10 \/ r = 11 \/ r = 12 \/
               r = 13 \/ r = 14 \/ r = 15 \/ r = 16) by lia.
  repeat (destruct Hc as [->|Hc]; [apply (proj2 (cong_mod_eq 17 _ _ ltac:(lia))); reflexivity|]).
  subst. apply (proj2 (cong_mod_eq 17 _ _ ltac:(lia))); reflexivity.
Qed.
(* p = 17 = 2^4 + 1 is in the Tonelli-Shanks class; 3 is a non-residue; 2 = 6^2 is a residue, 3 is not *)
Example decides_hyps_17 : prime 17 /\ 2 < 17 /\ Fermat_hyp 17 /\ 17 mod 8 <> 5 /\ 17 mod 16 <> 9 /\
  Forall (fun d => 0 < d < 17) [3] /\ legendre 3 17 = -1 /\
  sqrootmodprime 2 17 [3] = Some 6 /\ sqrootmodprime 3 17 [3] = Some (-1).
Proof.
  split; [exact small_prime_17|]. split; [lia|]. split; [exact fermat_17|]. split; [discriminate|]. split; [discriminate|].
  split; [repeat constructor|]. repeat split; vm_compute; reflexivity.
Qed.

(* ---------------------------------------------------------------------------------------- shift counts >= 64 *)
(* WHAT IF the exponent were built with a native 64-bit shift `1UL << lpuis` (x86-64: count taken mod 64, value mod 2^64)? *)
Definition shl_u64 (x k : Z) : Z := (x * 2 ^ (k mod 64)) mod 2 ^ 64.
Fixpoint ts_loop_u64 (fuel : nat) (p x b y r : Z) : Z :=
  match fuel with
  | O => -1
  | S f =>
    if b =? 1 then x else
    let m := b2k_loop (Z.to_nat r) b p 0 in
    if m =? r then -1 else
    let t := powmod y (shl_u64 1 (r - m - 1)) p in
    let y' := Z.rem (t * t) p in
    ts_loop_u64 f p (Z.rem (x * t) p) (Z.rem (b * y') p) y' m
  end.
Definition tonelli_u64 (amp p : Z) (draws : list Z) : option Z :=
  let p1 := p - 1 in
  let '(q, e) := split2 (log2_fuel p1) p1 0 in
  match pick (fun g => legendre g p =? -1) draws with
  | None => None
  | Some g =>
    let z := powmod g q p in
    let x0 := powmod amp ((q - 1) / 2) p in
    Some (ts_loop_u64 (S (Z.to_nat e)) p (Z.rem (x0 * amp) p) (Z.rem (x0 * x0 * amp) p) z e)
  end.
Lemma shl_u64_agrees k : 0 <= k < 64 -> shl_u64 1 k = shl 1 k.
Proof.
  intros Hk. unfold shl_u64, shl. rewrite (Z.mod_small k 64) by lia. apply Z.mod_small.
  split; [apply Z.mul_nonneg_nonneg; [lia | apply Z.pow_nonneg; lia]|].
  rewrite Z.mul_1_l. apply Z.pow_lt_mono_r; lia.
Qed.
(* p = 3 2^66 + 1, a = -1: first pass m = 1, r = 66, shift count r - m - 1 = 64.  The model (exact Integer shift) returns a
   root; the native-shift variant returns -1 "not a residue".  So the model DISTINGUISHES the two, and the theorems above
   (valid for every e) are theorems about the exact shift only. *)
Definition Shift_64_stmt := let p := 3 * 2 ^ 66 + 1 in
  b2k_loop 66 (p - 1) p 0 = 1 /\ 66 - 1 - 1 = 64 /\
  (exists x, tonelli (p - 1) p [5] = Some x /\ 0 <= x /\ (x * x) mod p = p - 1) /\
  tonelli_u64 (p - 1) p [5] = Some (-1).
Lemma shift_64 : Shift_64_stmt.
Proof.
  cbv zeta. split; [vm_compute; reflexivity|]. split; [reflexivity|]. split.
  - eexists. split; [vm_compute; reflexivity|]. split; vm_compute; [discriminate | reflexivity].
  - vm_compute. reflexivity.
Qed.
