(* C13 property theorems.  Nothing but statements closed by `exact`, each followed by Print Assumptions.
   cong n a b  is  a = b (mod n)  (n | a - b).  The statements are the `..._stmt` definitions of the Proofs files.
   `_partial` = a finite kernel sweep (bound in the statement) of a statement whose full form is kept in ProofsSweep.v. *)
From Coq Require Import ZArith Znumtheory List.
From C13 Require Import Model ProofsBase ProofsSqrt ProofsLift ProofsNumTheo ProofsOrder ProofsLogp ProofsPow2 ProofsPk ProofsTS ProofsPrp ProofsPrp1 ProofsAlias ProofsPrimRoot ProofsSweep ProofsLambda ProofsExamples.
Local Open Scope Z_scope.

Theorem C13_powmod_is_power_mod : forall n a e, 0 < n -> 0 <= e -> powmod a e n = a ^ e mod n.   Proof. exact powmod_spec. Qed.
Print Assumptions C13_powmod_is_power_mod.
Theorem C13_invmod_checked_inverse : forall a n, fst (egcd a n) = 1 -> cong n (a * invmod a n) 1.  Proof. exact invmod_sound. Qed.
Print Assumptions C13_invmod_checked_inverse.
Theorem C13_invmod_of_unit_is_inverse : Invmod_spec_stmt.            Proof. exact invmod_spec. Qed.
Print Assumptions C13_invmod_of_unit_is_inverse.
Theorem C13_sqrt_p_3_mod_4 : Sqrt_3mod4_stmt.                        Proof. exact sqrt_3mod4_correct. Qed.
Print Assumptions C13_sqrt_p_3_mod_4.
Theorem C13_sqrt_atkin_5_mod_8 : Sqrt_atkin_stmt.                    Proof. exact sqrt_atkin_correct. Qed.
Print Assumptions C13_sqrt_atkin_5_mod_8.
Theorem C13_sqrt_mueller_9_mod_16 : Sqrt_mueller_stmt.               Proof. exact sqrt_mueller_correct. Qed.
Print Assumptions C13_sqrt_mueller_9_mod_16.
Theorem C13_tonelli_shanks_invariant : Tonelli_sound_stmt.           Proof. exact tonelli_sound. Qed.
Print Assumptions C13_tonelli_shanks_invariant.
Theorem C13_sqrootmodprime_sound : Sqrootmodprime_sound_stmt.        Proof. exact sqrootmodprime_sound. Qed.
Print Assumptions C13_sqrootmodprime_sound.
Theorem C13_hensel_lift_step : Hensel_step_stmt.                     Proof. exact hensel_step. Qed.
Print Assumptions C13_hensel_lift_step.
Theorem C13_one_more_lift_step : Onemore_step_stmt.                  Proof. exact onemore_step. Qed.
Print Assumptions C13_one_more_lift_step.
Theorem C13_two_adic_lift_step : Twolift_step_stmt.                  Proof. exact twolift_step. Qed.
Print Assumptions C13_two_adic_lift_step.
Theorem C13_two_linear_loop_invariant : Twolinear_loop_stmt.         Proof. exact twolinear_loop_inv. Qed.
Print Assumptions C13_two_linear_loop_invariant.
Theorem C13_sqroottwolinear_correct : Sqroottwolinear_stmt.          Proof. exact sqroottwolinear_correct. Qed.
Print Assumptions C13_sqroottwolinear_correct.
Theorem C13_power_of_two_odd_k_fixup : Pow2_fixup_stmt.              Proof. exact pow2_fixup. Qed.
Print Assumptions C13_power_of_two_odd_k_fixup.
Theorem C13_crt_recombination_of_roots : Crt_combine_stmt.           Proof. exact crt_combine. Qed.
Print Assumptions C13_crt_recombination_of_roots.
Theorem C13_sum_of_squares_with_nonresidue : Sos_nonres_stmt.        Proof. exact sos_nonres_algebra. Qed.
Print Assumptions C13_sum_of_squares_with_nonresidue.
Theorem C13_phi_formula : Phi_formula_stmt.                          Proof. exact phi_formula. Qed.
Print Assumptions C13_phi_formula.
Theorem C13_phi_small : Phi_small_stmt.                              Proof. exact phi_small. Qed.
Print Assumptions C13_phi_small.
Theorem C13_mobius_from_exponents : Mobius_stmt.                     Proof. exact mobius_spec. Qed.
Print Assumptions C13_mobius_from_exponents.
Theorem C13_order_certificate_is_least : Order_minimal_stmt.         Proof. exact order_minimal. Qed.
Print Assumptions C13_order_certificate_is_least.
Theorem C13_order_strip_loop_sound : Strip_while_stmt.               Proof. exact strip_while_sound. Qed.
Print Assumptions C13_order_strip_loop_sound.
Theorem C13_order_is_multiplicative_order : Order_correct_stmt.      Proof. exact order_correct. Qed.
Print Assumptions C13_order_is_multiplicative_order.
Theorem C13_is_prim_root_tests : Is_prim_root_stmt.                  Proof. exact is_prim_root_spec. Qed.
Print Assumptions C13_is_prim_root_tests.
Theorem C13_prim_root_has_order_phi : Prim_root_order_stmt.          Proof. exact prim_root_order. Qed.
Print Assumptions C13_prim_root_has_order_phi.
Theorem C13_phi_counts_units_partial : Phi_count_stmt.               Proof. exact phi_count_sweep. Qed.
Print Assumptions C13_phi_counts_units_partial.
Theorem C13_lambda_inv_is_group_exponent_partial : Lambda_inv_exponent_stmt.   Proof. exact lambda_inv_exponent_sweep. Qed.
Print Assumptions C13_lambda_inv_is_group_exponent_partial.
Theorem C13_lambda_is_maximal_orbit_size_partial : Lambda_orbit_stmt.   Proof. exact lambda_orbit_sweep. Qed.
Print Assumptions C13_lambda_is_maximal_orbit_size_partial.
Theorem C13_lambda_before_fix8_refuted_history : Lambda_before_fix8_refuted_stmt.   Proof. exact lambda_before_fix8_refuted. Qed.
Print Assumptions C13_lambda_before_fix8_refuted_history.
Theorem C13_order_is_least_exponent_partial : Order_least_stmt.      Proof. exact order_least_sweep. Qed.
Print Assumptions C13_order_is_least_exponent_partial.
Theorem C13_sqrootmodprime_end_to_end_partial : Sqrootmodprime_sweep_stmt.          Proof. exact sqrootmodprime_sweep. Qed.
Print Assumptions C13_sqrootmodprime_end_to_end_partial.
Theorem C13_sqrootmodprimepower_end_to_end_partial : Sqrootmodprimepower_sweep_stmt. Proof. exact sqrootmodprimepower_sweep. Qed.
Print Assumptions C13_sqrootmodprimepower_end_to_end_partial.
Theorem C13_brillhart_two_squares_partial : Brillhart_sweep_stmt.    Proof. exact brillhart_sweep. Qed.
Print Assumptions C13_brillhart_two_squares_partial.
Theorem C13_kronecker_is_euler_criterion_partial : Kronecker_euler_stmt.  Proof. exact kronecker_euler_sweep. Qed.
Print Assumptions C13_kronecker_is_euler_criterion_partial.
Theorem C13_logp_is_floor_log : Logp_correct_stmt.                   Proof. exact logp_correct. Qed.
Print Assumptions C13_logp_is_floor_log.
Theorem C13_sqrootmodpoweroftwo_sound : Sqrootmodpoweroftwo_sound_stmt.   Proof. exact sqrootmodpoweroftwo_sound. Qed.
Print Assumptions C13_sqrootmodpoweroftwo_sound.
Theorem C13_sqrootmodprimepower_sound : Sqrootmodprimepower_sound_stmt.   Proof. exact sqrootmodprimepower_sound. Qed.
Print Assumptions C13_sqrootmodprimepower_sound.
Theorem C13_tonelli_shanks_total : Tonelli_complete_stmt.             Proof. exact tonelli_complete. Qed.
Print Assumptions C13_tonelli_shanks_total.
Theorem C13_sqrootmodprime_decides_residuosity : Sqrootmodprime_decides_stmt.   Proof. exact sqrootmodprime_decides. Qed.
Print Assumptions C13_sqrootmodprime_decides_residuosity.
Theorem C13_sqrootmodprime_returns : Sqrootmodprime_returns_stmt.     Proof. exact sqrootmodprime_returns. Qed.
Print Assumptions C13_sqrootmodprime_returns.
Theorem C13_tonelli_shift_count_64_exact_vs_native : Shift_64_stmt.   Proof. exact shift_64. Qed.
Print Assumptions C13_tonelli_shift_count_64_exact_vs_native.
Theorem C13_prim_root_of_prime_second_phase : Prp_second_phase_stmt.  Proof. exact prp_second_phase. Qed.
Print Assumptions C13_prim_root_of_prime_second_phase.
Theorem C13_prim_root_of_prime_order_correction_needed : Prp_noppin_refuted_stmt.  Proof. exact prp_noppin_refuted. Qed.
Print Assumptions C13_prim_root_of_prime_order_correction_needed.
Theorem C13_prim_root_of_prime_is_primitive : Prim_root_of_prime_stmt.   Proof. exact prim_root_of_prime_correct. Qed.
Print Assumptions C13_prim_root_of_prime_is_primitive.
Theorem C13_sqrootmod_in_place_is_three_address : Sqrootmod_inplace_stmt.   Proof. exact sqrootmod_inplace. Qed.
Print Assumptions C13_sqrootmod_in_place_is_three_address.
Theorem C13_sqrootmod_output_as_scratch_distinct_objects : Sqrootmod_scratch_distinct_stmt.   Proof. exact sqrootmod_scratch_distinct. Qed.
Print Assumptions C13_sqrootmod_output_as_scratch_distinct_objects.
Theorem C13_sqrootmod_output_as_scratch_in_place_refuted : Sqrootmod_scratch_inplace_refuted_stmt.   Proof. exact sqrootmod_scratch_inplace_refuted. Qed.
Print Assumptions C13_sqrootmod_output_as_scratch_in_place_refuted.
Theorem C13_prim_root_of_odd_prime_is_primitive : Prim_root_prime_stmt.   Proof. exact prim_root_prime. Qed.
Print Assumptions C13_prim_root_of_odd_prime_is_primitive.
