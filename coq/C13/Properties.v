(* C13 property theorems (filled in below). *)
From Coq Require Import ZArith.
From C13 Require Import Model.
