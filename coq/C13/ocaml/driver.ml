(* C13 driver: one case per line  "<op> <tokens...>"; integers in decimal; a list is written  [ x y z ]  .
   Output: decimal tokens; NONE when the model's oracle inputs were rejected by the guards / fuel ran out. *)
let zs = z_of_string
let sz = string_of_z
(* split the token list into items: a scalar or a bracketed list *)
type item = S of Model.z | L of Model.z list
let rec items toks = match toks with
  | [] -> []
  | "[" :: tl ->
    let rec grab acc = function
      | "]" :: rest -> (List.rev acc, rest)
      | x :: rest -> grab (zs x :: acc) rest
      | [] -> (List.rev acc, []) in
    let (l, rest) = grab [] tl in L l :: items rest
  | x :: tl -> S (zs x) :: items tl
let sc = function S x -> x | L _ -> failwith "scalar expected"
let ls = function L l -> l | S _ -> failwith "list expected"
let rec pairs = function a :: b :: tl -> (a, b) :: pairs tl | _ -> []
let rec triples = function a :: b :: c :: tl -> (a, b, c) :: triples tl | _ -> []
let opt f = function None -> "NONE" | Some x -> f x
let p2 (a, b) = sz a ^ " " ^ sz b
let sb b = if b then "1" else "0"
let rec upto i n = if i > n then [] else z_of_za (ZA.of_int i) :: upto (i + 1) n
let small = upto 1 80
let () = run_lines (fun toks ->
  match toks with
  | op :: rest ->
    let a = Array.of_list (items rest) in
    let s i = sc a.(i) and l i = ls a.(i) in
    (match op with
     | "phi" -> sz (Model.phi (s 0) (l 1))
     | "mobiusL" -> sz (Model.mobiusL (l 0))
     | "order" -> sz (Model.order (s 0) (s 1) (l 2) (l 3))
     | "isorder" -> sb (Model.isorder (s 0) (s 1) (s 2) (l 3) (l 4))
     | "is_prim_root" -> sb (Model.is_prim_root (s 0) (s 1) (l 2) (l 3))
     | "lowest_prim_root" -> sz (Model.lowest_prim_root (s 0) (l 1) (l 2))
     | "prim_root" -> opt p2 (Model.prim_root (s 0) (s 1) (l 2) (s 3))
     | "prim_root_of_prime" -> opt sz (Model.prim_root_of_prime (s 0) (l 1))
     | "lambda" -> sz (Model.lambda (s 0) (pairs (l 1)))
     | "lambda_inv" -> sz (Model.lambda_inv (s 0) (pairs (l 1)))
     | "lambda_inv_primpow" -> sz (Model.lambda_inv_primpow (s 0) (s 1))
     | "lambda_primpow" -> sz (Model.lambda_primpow (s 0) (s 1))
     | "prim_elem" -> let t = triples (l 1) in
       sz (Model.prim_elem (s 0) (List.map (fun (p, e, _) -> (p, e)) t) (List.map (fun (_, _, r) -> r) t))
     | "prim_inv" -> let t = triples (l 1) in
       sz (Model.prim_inv (s 0) (List.map (fun (p, e, _) -> (p, e)) t) (List.map (fun (_, _, r) -> r) t))
     | "logp" -> sz (Model.logp (s 0) (s 1))
     | "sqrootmodprime" -> opt sz (Model.sqrootmodprime (s 0) (s 1) (l 2))
     | "sqrootmodprimepower" ->
       let k = s 2 in let pk = Model.Z.pow (s 1) k in
       opt sz (Model.sqrootmodprimepower (Model.pow2_fuel k) (s 0) (s 1) k pk (l 3))
     | "sqrootmodpoweroftwo" ->
       let k = s 1 in let pk = Model.Z.pow (zs "2") k in
       sz (Model.sqrootmodpoweroftwo (Model.pow2_fuel k) (s 0) k pk)
     | "sqrootmod" -> opt sz (Model.sqrootmod (s 0) (s 1) (pairs (l 2)) small)
     | "sqrootlinear" -> opt sz (Model.sqrootlinear (s 0) (s 1) (s 2) (l 3))
     | "sqroottwolinear" -> sz (Model.sqroottwolinear (s 0) (s 1))
     | "sqroothensellift" -> sz (Model.hensellift (s 0) (s 1) (Model.Z.pow (s 2) (s 3)))
     | "sqrootonemorelift" -> sz (Model.onemorelift (s 0) (s 1) (s 2) (Model.Z.pow (s 2) (s 3)))
     | "sqrootmodtwolift" -> sz (Model.twolift (s 0) (s 1) (Model.Z.pow (zs "2") (s 2)))
     | "brillhart" -> opt p2 (Model.brillhart (s 0) small)
     | "sos_det" -> opt p2 (Model.sos_det (s 0) (s 1) small)
     | "sos_nonres" -> opt p2 (Model.sos_nonres (s 0) (s 1) (s 2) small)
     | "sos_noerh" -> opt p2 (Model.sos_noerh (s 0) (s 1) (s 2) small)
     | "sos_mc" -> opt p2 (Model.sos_mc (s 0) (s 1) (l 2) small)
     | "probable_prim_root" -> opt sz (Model.probable_prim_root (s 0) (pairs (l 1)) (l 2))
     | "kronecker" -> sz (Model.kronecker_sym (s 0) (s 1))
     | "count_units" -> sz (Model.count_units (s 0))
     | _ -> "UNKNOWN-OP")
  | _ -> "BAD-LINE")
