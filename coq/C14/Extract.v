(* Extraction of the executable model for the correspondence run (ExtrOcamlBasic only). *)
From Coq Require Import ZArith List.
From Coq Require Extraction.
From Coq Require Import ExtrOcamlBasic.
From C14 Require Import Model.
Extraction Language OCaml.
Cd "ocaml".
Extraction "model.ml" int_run dom_run fix_run dom_exc_run cra_reduce cra_noreduce cra_reduce_fixed poly_RnsToRing poly_RingToRns poly_ComputeCk lift_run dom_RnsToRing dom_mk bal_run int_mk int_mk_tt fixed_tree.
Cd "..".
