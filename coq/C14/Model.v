(* C14 model: Chinese remaindering / residue number systems of givaro, written after the code:
     src/kernel/integer/givintrns{.h,_cstor.inl,_convert.inl}      IntRNSsystem
     src/kernel/field/givrns{.h,cstor.inl,convert.inl}             RNSsystem<RING,Domain>
     src/kernel/field/givrnsfixed.{h,inl}                          RNSsystemFixed<Ints>
     src/kernel/field/chineseremainder.h                           ChineseRemainder<Ring,Domain,REDUCE>
     src/library/poly1/givpoly1crt{.h,cstor.inl,convert.inl}       Poly1CRT<Field>
   Integers are Z, arrays are lists, a residue-domain element is the canonical integer it denotes
   (that the Modular<..> operations compute exactly mod p is property C03/C04, not re-modelled here).
   No proofs in this file (it must still extract when a proof breaks). *)
From Coq Require Import ZArith Bool List.
Import ListNotations.
Local Open Scope Z_scope.

(* ------------------------------------------------------------------------------------------
   modular inverse: what mpz_gcdext / mpz_invert / Modular::inv deliver, up to congruence.
   Extended Euclid on (p, b mod p), keeping only the cofactor of b; result reduced to [0,p).
   (GMP's gcdext may return a negative cofactor; every use in the code reduces mod p afterwards,
   see RnsToMixedRadix; the theorems are stated for ANY list of reciprocals that satisfies the
   defining congruence, so the sign does not matter.) *)
(* Division used by the model's Euclid: shift-and-subtract, q bit by bit.  On the extracted inductive Z this costs
   O((log2 a - log2 b + 1) * log2 a) instead of the O(log2 a * log2 b) of Z.div_eucl, so that Euclid on n-bit
   operands is O(n^2) and not O(n^3).  Proofs.v: qdiv a b = (a / b, a mod b) for 0 <= a, 0 < b. *)
Fixpoint qdiv_loop (k : nat) (bs a q : Z) : Z * Z :=           (* bs = b * 2^k *)
  let a1 := if bs <=? a then a - bs else a in
  let q1 := if bs <=? a then 2 * q + 1 else 2 * q in
  match k with
  | O => (q1, a1)
  | S k' => qdiv_loop k' (Z.div2 bs) a1 q1
  end.
Definition qdiv (a b : Z) : Z * Z :=
  let k := Z.to_nat (Z.log2 a - Z.log2 b) in
  qdiv_loop k (Z.shiftl b (Z.of_nat k)) a 0.

Fixpoint egcd_loop (fuel : nat) (r0 r1 s0 s1 : Z) : Z * Z :=
  match fuel with
  | O => (r0, s0)
  | S f => if r1 =? 0 then (r0, s0)
           else let '(q, r2) := qdiv r0 r1 in egcd_loop f r1 r2 s1 (s0 - q * s1)
  end.

Definition egcd_fuel (p : Z) : nat := S (2 * Z.to_nat (Z.log2_up p)).

Definition invmod (b p : Z) : Z :=
  snd (egcd_loop (egcd_fuel p) p (b mod p) 0 1) mod p.

(* ------------------------------------------------------------------------------------------
   mixed radix machinery shared by IntRNSsystem and RNSsystem.
   A "done" list holds the pairs (p_j, m_j) already computed, most recent first:
       [(p_{i-1}, m_{i-1}); ... ; (p_0, m_0)]                                            *)

(* IntRNSsystem::RnsToMixedRadix inner loop:
     tmp = mixrad[i-1];  for (j = i-1; j--; ) tmp = (tmp * _primes[j] + mixrad[j]) mod _primes[i]  *)
Definition horner_int (pi : Z) (done : list (Z * Z)) : Z :=
  match done with
  | [] => 0
  | (_, m) :: tl => fold_left (fun tmp pm => (tmp * fst pm + snd pm) mod pi) tl m
  end.

(* RNSsystem::RnsToMixedRadix inner loop (every operand is first brought into domain i):
     tmp = init_i(m_{i-1});  for j = i-2..0:  t3 = init_i(m_j); t4 = init_i(p_j); tmp = axpy(tmp,t4,t3) *)
Definition horner_dom (pi : Z) (done : list (Z * Z)) : Z :=
  match done with
  | [] => 0
  | (_, m) :: tl => fold_left (fun tmp pm => (tmp * (fst pm mod pi) + (snd pm mod pi)) mod pi) tl (m mod pi)
  end.

(* outer loops: todo = remaining (p_i, r_i, ck_i) *)
(* Int:  mod(mixrad[i], mulin(sub(tmp, residu[i], tmp), _ck[i]), _primes[i]) *)
Fixpoint mr_loop_int (done : list (Z * Z)) (todo : list (Z * Z * Z)) : list (Z * Z) :=
  match todo with
  | [] => done
  | (pi, ri, cki) :: tl =>
      let tmp := horner_int pi done in
      mr_loop_int ((pi, ((ri - tmp) * cki) mod pi) :: done) tl
  end.
(* Dom:  sub(t2, residu[i], tmp); mul(mixrad[i], t2, _ck[i])   in domain i *)
Fixpoint mr_loop_dom (done : list (Z * Z)) (todo : list (Z * Z * Z)) : list (Z * Z) :=
  match todo with
  | [] => done
  | (pi, ri, cki) :: tl =>
      let tmp := horner_dom pi done in
      mr_loop_dom ((pi, (((ri - tmp) mod pi) * cki) mod pi) :: done) tl
  end.

Definition todo_of (ps rs cks : list Z) : list (Z * Z * Z) := combine (combine ps rs) cks.

(* mixrad[0] = residu[0]  (NOT reduced), then the loop.  ck has the size of primes; ck[0] is never used *)
Definition RnsToMixedRadix_int (primes ck residu : list Z) : list Z :=
  match primes, residu with
  | p0 :: ps, r0 :: rs => map snd (rev (mr_loop_int [(p0, r0)] (todo_of ps rs (tl ck))))
  | _, _ => []
  end.
Definition RnsToMixedRadix_dom (primes ck residu : list Z) : list Z :=
  match primes, residu with
  | p0 :: ps, r0 :: rs => map snd (rev (mr_loop_dom [(p0, r0)] (todo_of ps rs (tl ck))))
  | _, _ => []
  end.

(* MixedRadixToRing:  res = mixrad[size-1]; for (i = size-1; i--; ) res = res * _primes[i] + mixrad[i] *)
Definition MixedRadixToRing (primes mixrad : list Z) : Z :=
  match rev (combine primes mixrad) with
  | [] => 0
  | (_, m) :: tl => fold_left (fun res pm => res * fst pm + snd pm) tl m
  end.

(* RingToRns:  rns[i] = a mod _primes[i]   (mpz_mod / Domain::init: canonical, non-negative) *)
Definition RingToRns (primes : list Z) (a : Z) : list Z := map (fun p => a mod p) primes.

(* ------------------------------------------------------------------------------------------
   ComputeCk.
   IntRNSsystem:  prod = _primes[0]; for (i=1;i<k;++i) prod = (prod * _primes[i]) mod _primes[k];
                  gcd(g,u,_ck[k],_primes[k],prod)                                                   *)
Definition ck_prod_int (pk : Z) (prev : list Z) : Z :=       (* prev = [p_0; ...; p_{k-1}] *)
  match prev with
  | [] => 1
  | p0 :: tl => fold_left (fun prod pi => (prod * pi) mod pk) tl p0
  end.
(* RNSsystem:  prod = init_k(p_0); for (i=1;i<k;++i) prod = prod * init_k(p_i);  _ck[k] = inv(prod)  in domain k *)
Definition ck_prod_dom (pk : Z) (prev : list Z) : Z :=
  match prev with
  | [] => 1
  | p0 :: tl => fold_left (fun prod pi => (prod * (pi mod pk)) mod pk) tl (p0 mod pk)
  end.

(* the loop over k, carrying the primes seen so far (in order) *)
Fixpoint ck_loop (ckprod : Z -> list Z -> Z) (prev : list Z) (rest : list Z) : list Z :=
  match rest with
  | [] => []
  | pk :: tl => invmod (ckprod pk prev) pk :: ck_loop ckprod (prev ++ [pk]) tl
  end.

(* _ck[0] = 0 ("undefined and never used"), then k = 1 .. size-1 *)
Definition ComputeCk_with (ckprod : Z -> list Z -> Z) (primes : list Z) : list Z :=
  match primes with
  | [] => []
  | p0 :: ps => 0 :: ck_loop ckprod [p0] ps
  end.
Definition ComputeCk_int := ComputeCk_with ck_prod_int.
Definition ComputeCk_dom := ComputeCk_with ck_prod_dom.

(* ------------------------------------------------------------------------------------------
   The system objects.  The reciprocals _ck and the product _prod are computed by the constructors that receive the
   primes (and by setPrimes); the const accessors product() / Reciprocals() / reciprocal(i) only read them (since
   a42d959; before, they were filled lazily from the accessors).  RnsToMixedRadix still calls ComputeCk() when _ck is
   empty, and ComputeCk() / ComputeProd() keep their guards ("_ck non-empty" / "_prod not one" = already computed). *)
Record IntRNS := mkIntRNS { i_primes : list Z; i_prod : Z; i_ck : list Z }.

(* ComputeCk(): if (_ck.size() != 0) return; if (size == 0) return; ... *)
Definition int_ensure_ck (S : IntRNS) : IntRNS :=
  match i_ck S with
  | [] => mkIntRNS (i_primes S) (i_prod S) (ComputeCk_int (i_primes S))
  | _ => S
  end.
(* ComputeProd(): if (isOne(_prod)) for all p: _prod *= p *)
Definition int_ensure_prod (S : IntRNS) : IntRNS :=
  if i_prod S =? 1 then mkIntRNS (i_primes S) (fold_left Z.mul (i_primes S) (i_prod S)) (i_ck S) else S.

(* IntRNSsystem(const array& primes): _primes(primes), _prod(one), _ck(0) { ComputeProd(); ComputeCk(); } *)
Definition int_mk (primes : list Z) : IntRNS := int_ensure_ck (int_ensure_prod (mkIntRNS primes 1 [])).
(* the templated converting constructor IntRNSsystem(const Container<TT,Alloc<TT>>&): same body after the element-wise
   conversion.  How its initialiser list sizes _ck is READ FROM THE SOURCE by the check:  _ck(0) = CkEmpty (the unchanged
   tree);  _ck(inprimes.size()) = CkSized, i.e. a table of default-constructed (zero) Integers that ComputeCk() then takes
   for "already computed" *)
Inductive ckinit := CkEmpty | CkSized.
Definition int_mk_tt (ci : ckinit) (primes : list Z) : IntRNS :=
  int_ensure_ck (int_ensure_prod
    (mkIntRNS primes 1 (match ci with CkEmpty => [] | CkSized => repeat 0 (length primes) end))).
(* IntRNSsystem(): _primes(0), _prod(one), _ck(0) *)
Definition int_default : IntRNS := mkIntRNS [] 1 [].

(* which member of the source a copy constructor uses to initialise _ck; READ FROM THE SOURCE by the check
   (givintrns.h:  _ck(R._ck)   as of the unchanged tree) *)
Inductive cksrc := FromPrimes | FromCk | FromNothing.
Definition int_copy (src : cksrc) (R : IntRNS) : IntRNS :=
  mkIntRNS (i_primes R) (i_prod R)
           (match src with FromPrimes => i_primes R | FromCk => i_ck R | FromNothing => [] end).
(* implicit operator=: memberwise *)
Definition int_assign (dst src : IntRNS) : IntRNS := src.

(* product() const { return _prod; } *)
Definition int_product (S : IntRNS) : IntRNS * Z := (S, i_prod S).

(* RnsToMixedRadix: if (_ck.size()==0) ComputeCk(); ... *)
Definition int_RnsToMixedRadix (S : IntRNS) (residu : list Z) : IntRNS * list Z :=
  let S' := int_ensure_ck S in (S', RnsToMixedRadix_int (i_primes S') (i_ck S') residu).
Definition int_RnsToRing (S : IntRNS) (residu : list Z) : IntRNS * Z :=
  let '(S', mix) := int_RnsToMixedRadix S residu in (S', MixedRadixToRing (i_primes S') mix).
Definition int_RingToRns (S : IntRNS) (a : Z) : list Z := RingToRns (i_primes S) a.
(* Reciprocals() const { return _ck; } *)
Definition int_Reciprocals (S : IntRNS) : IntRNS * list Z := (S, i_ck S).

(* RNSsystem<RING,Domain>: { _primes; _ck } *)
Record DomRNS := mkDomRNS { d_primes : list Z; d_ck : list Z }.
Definition dom_ensure_ck (S : DomRNS) : DomRNS :=
  match d_ck S with
  | [] => mkDomRNS (d_primes S) (ComputeCk_dom (d_primes S))
  | _ => S
  end.
(* RNSsystem(const domains& primes): _primes(primes, givWithCopy()), _ck(0) { ComputeCk(); } *)
Definition dom_mk (primes : list Z) : DomRNS := dom_ensure_ck (mkDomRNS primes []).
Definition dom_default : DomRNS := mkDomRNS [] [].
(* RNSsystem(const Self_t& R) : _primes(R._primes, givWithCopy()), _ck(R._ck, givWithCopy()) *)
Definition dom_copy (R : DomRNS) : DomRNS := mkDomRNS (d_primes R) (d_ck R).
Definition dom_assign (dst src : DomRNS) : DomRNS := src.
(* setPrimes: _primes.allocate(0); _primes.copy(inprimes); _ck.resize(0); ComputeCk(); *)
Definition dom_setPrimes (S : DomRNS) (primes : list Z) : DomRNS := dom_ensure_ck (mkDomRNS primes []).
Definition dom_RnsToMixedRadix (S : DomRNS) (residu : list Z) : DomRNS * list Z :=
  let S' := dom_ensure_ck S in (S', RnsToMixedRadix_dom (d_primes S') (d_ck S') residu).
Definition dom_RnsToRing (S : DomRNS) (residu : list Z) : DomRNS * Z :=
  let '(S', mix) := dom_RnsToMixedRadix S residu in (S', MixedRadixToRing (d_primes S') mix).
Definition dom_RingToRns (S : DomRNS) (a : Z) : list Z := RingToRns (d_primes S) a.
(* Reciprocals() const { return _ck; } *)
Definition dom_Reciprocals (S : DomRNS) : DomRNS * list Z := (S, d_ck S).

(* ------------------------------------------------------------------------------------------
   ChineseRemainder<Ring,Domain,REDUCE>(R, M, D):
     ctor:  u = inv_D(init_D(M));  C_12 = convert(u) * M
     REDUCE = true :  smallA = init_D(A); smallM = sub_D(e, smallA); res = convert(smallM); res *= C_12; res += A
     REDUCE = false:  res = convert(e); res -= A; res *= C_12; res += A                                   *)
Definition cra_C12 (M D : Z) : Z := invmod (M mod D) D * M.
Definition cra_reduce (M D A e : Z) : Z := ((e - A mod D) mod D) * cra_C12 M D + A.
Definition cra_noreduce (M D A e : Z) : Z := (e - A) * cra_C12 M D + A.
(* the shape a repaired functor has: the domain product ((e-A) u) is reduced mod D before leaving the domain *)
Definition cra_reduce_fixed (M D A e : Z) : Z :=
  ((((e - A mod D) mod D) * invmod (M mod D) D) mod D) * M + A.

(* ------------------------------------------------------------------------------------------
   RNSsystemFixed<Ints>: a binary tree of products; in every completed pair (p0,p1) of a level the right
   entry is overwritten by  p0 * (p0^{-1} mod p1)   (constructor), the product p0*p1 goes one level up. *)
Fixpoint pair_level (l : list Z) : list Z * list Z :=      (* (next level, this level as stored) *)
  match l with
  | p0 :: p1 :: tl => let '(nx, cur) := pair_level tl in (p0 * p1 :: nx, p0 :: (invmod p0 p1 * p0) :: cur)
  | _ => ([], l)
  end.
Fixpoint build_tree (fuel : nat) (l : list Z) : list (list Z) :=
  match fuel with
  | O => []
  | S f => match l with
           | [] => []
           | _ => let '(nx, cur) := pair_level l in cur :: build_tree f nx
           end
  end.
Definition fixed_tree (primes : list Z) : list (list Z) := build_tree (length primes) primes.

Definition tree_at (t : list (list Z)) (level col : nat) : Z := nth col (nth level t []) 0.

(* RnsToRingLeft (left = true: result reduced mod _primes[level][col]) / RnsToRingRight *)
Fixpoint fixed_rec (t : list (list Z)) (res : list Z) (left : bool) (level col : nat) : Z :=
  match level with
  | O => nth col res 0
  | S l =>
      let u0 := fixed_rec t res true l (2 * col) in
      let u1 := fixed_rec t res false l (2 * col + 1) in
      let I := (u1 - u0) * tree_at t l (2 * col + 1) + u0 in
      if left then I mod tree_at t (S l) col else I
  end.

(* levels whose size is odd contribute their last entry (a plain product) as a modulus of the inner _RNS,
   lowest level first; Reds are the corresponding partial reconstructions *)
Fixpoint fixed_odd_levels (t : list (list Z)) (level : nat) : list (nat * nat) :=   (* (level, col) *)
  match t with
  | [] => []
  | lv :: tl => if Nat.odd (length lv) then (level, (length lv - 1)%nat) :: fixed_odd_levels tl (S level)
                else fixed_odd_levels tl (S level)
  end.
Definition fixed_RnsToRing (primes residues : list Z) : Z :=
  let t := fixed_tree primes in
  let odd := fixed_odd_levels t 0 in
  let mods := map (fun lc => tree_at t (fst lc) (snd lc)) odd in
  let reds := map (fun lc => fixed_rec t residues true (fst lc) (snd lc)) odd in
  snd (dom_RnsToRing (dom_setPrimes dom_default mods) reds).

(* ------------------------------------------------------------------------------------------
   Poly1CRT<Field> over GF(p): polynomials are coefficient lists, low degree first, entries in [0,p) *)
Fixpoint padd (p : Z) (a b : list Z) : list Z :=
  match a, b with
  | [], _ => b
  | _, [] => a
  | x :: a', y :: b' => ((x + y) mod p) :: padd p a' b'
  end.
Definition pscale (p c : Z) (a : list Z) : list Z := map (fun x => (c * x) mod p) a.
(* multiplication by the monic linear polynomial X + c0 *)
Definition pmul_lin (p c0 : Z) (a : list Z) : list Z := padd p (pscale p c0 a) (0 :: a).
(* Poly1Dom::eval: Horner from the leading coefficient *)
Definition peval (p : Z) (a : list Z) (x : Z) : Z := fold_right (fun c acc => (acc * x + c) mod p) 0 a.

(* ComputeCk: prod = 1; for k = 1..Size-1: prod *= (X - a_{k-1}); ck[k] = prod * (1 / prod(a_k)) *)
Fixpoint poly_ck_loop (p : Z) (prod : list Z) (prevpt : Z) (rest : list Z) : list (list Z) :=
  match rest with
  | [] => []
  | ak :: tl =>
      let prod' := pmul_lin p ((- prevpt) mod p) prod in
      let invC := invmod (peval p prod' ak) p in
      pscale p invC prod' :: poly_ck_loop p prod' ak tl
  end.
Definition poly_ComputeCk (p : Z) (pts : list Z) : list (list Z) :=
  match pts with [] => [] | a0 :: tl => poly_ck_loop p [1] a0 tl end.
(* RnsToRing: I = r_0; for i >= 1: addon = r_i - I(a_i); I += addon * ck[i] *)
Fixpoint poly_rns_loop (p : Z) (I : list Z) (todo : list (Z * Z * list Z)) : list Z :=
  match todo with
  | [] => I
  | (ai, ri, cki) :: tl =>
      let addon := (ri - peval p I ai) mod p in
      poly_rns_loop p (padd p I (pscale p addon cki)) tl
  end.
Definition poly_RnsToRing (p : Z) (pts rs : list Z) : list Z :=
  match pts, rs with
  | _ :: ps, r0 :: rs' => poly_rns_loop p [r0 mod p] (combine (combine ps rs') (poly_ComputeCk p pts))
  | _, _ => []
  end.
Definition poly_RingToRns (p : Z) (pts : list Z) (a : list Z) : list Z := map (peval p a) pts.

(* ------------------------------------------------------------------------------------------
   wrappers used by the extracted driver: a history is a list of constructor / copy / use events *)
Inductive hist :=
  | Hfresh | Hreuse | Hcopycold | Hcopywarm | Hcopy2 | Hassigncold | Hassignwarm | Hsetcold | Hsetwarm.

Definition ones (n : nat) : list Z := repeat 1 n.

(* the object each history of the harness yields; `other` is the unrelated system used to warm caches; `mk` is the
   constructor the harness used for the system under test (plain, or templated from a container of native integers) *)
Definition int_obtain (src : cksrc) (mk : list Z -> IntRNS) (h : hist) (primes other : list Z) : IntRNS :=
  let warm S := fst (int_product (fst (int_RnsToRing S (ones (length (i_primes S)))))) in
  match h with
  | Hfresh => mk primes
  | Hreuse => fst (int_RnsToRing (mk primes) (ones (length primes)))
  | Hcopycold => int_copy src (mk primes)
  | Hcopywarm => int_copy src (warm (mk primes))
  | Hcopy2 => int_copy src (int_copy src (fst (int_RnsToRing (mk primes) (ones (length primes)))))
  | Hassigncold => int_assign int_default (mk primes)
  | Hassignwarm => int_assign (warm (int_mk other)) (warm (mk primes))
  | Hsetcold | Hsetwarm => mk primes
  end.

(* the harness prints the reciprocals k = 1..n-1 reduced into [0, p_k) (gcdext's cofactor may be negative) *)
Definition ck_canon (primes ck : list Z) : list Z := map (fun pc => snd pc mod fst pc) (tl (combine primes ck)).

(* RingToRns of each integer of a list followed by RnsToRing of the residues just obtained, on one object *)
Fixpoint int_back (S : IntRNS) (als : list Z) : IntRNS * list (list Z * Z) :=
  match als with
  | [] => (S, [])
  | a :: tl =>
      let rr := int_RingToRns S a in
      let '(S1, w) := int_RnsToRing S rr in
      let '(S2, rest) := int_back S1 tl in
      (S2, (rr, w) :: rest)
  end.

(* which entry point the harness calls FIRST on the object it obtained (the caches are observed before and after first use) *)
Inductive first_op := Fmix | Fring | Frecip | Frecipi | Fprod | Frns.
Definition last1 (l : list Z) : list Z := match rev l with [] => [] | x :: _ => [x] end.
Definition int_first (o : first_op) (S : IntRNS) (residu : list Z) (a : Z) : IntRNS * list Z :=
  match o with
  | Fmix => int_RnsToMixedRadix S residu
  | Fring => let '(S', v) := int_RnsToRing S residu in (S', [v])
  | Frecip => let '(S', ck) := int_Reciprocals S in (S', ck_canon (i_primes S') ck)
  | Frecipi => let '(S', ck) := int_Reciprocals S in (S', last1 (ck_canon (i_primes S') ck))   (* reciprocal(n-1) *)
  | Fprod => let '(S', p) := int_product S in (S', [p])
  | Frns => (S, int_RingToRns S a)
  end.

(* int: (mixrad, V, P, [(rns(a_j), back_j)], ck, V2, P2, first) *)
Definition int_run (src : cksrc) (mk : list Z -> IntRNS) (o : first_op) (h : hist) (primes other residu als : list Z)
  : list Z * Z * Z * list (list Z * Z) * list Z * Z * Z * list Z :=
  let S00 := int_obtain src mk h primes other in
  let '(S0, first) := int_first o S00 residu (hd 0 als) in
  let '(S1, mix) := int_RnsToMixedRadix S0 residu in
  let '(S2, V) := int_RnsToRing S1 residu in
  let '(S3, P) := int_product S2 in
  let '(S3', rrs) := int_back S3 als in
  let '(S4, ck) := int_Reciprocals S3' in
  let '(S5, V2) := int_RnsToRing S4 residu in
  let '(S6, P2) := int_product S5 in
  (mix, V, P, rrs, ck_canon primes ck, V2, P2, first).

Definition dom_obtain (h : hist) (primes other : list Z) : DomRNS :=
  let warm S := fst (dom_RnsToRing S (ones (length (d_primes S)))) in
  match h with
  | Hfresh => dom_mk primes
  | Hreuse => warm (dom_mk primes)
  | Hcopycold => dom_copy (dom_mk primes)
  | Hcopywarm => dom_copy (warm (dom_mk primes))
  | Hcopy2 => dom_copy (dom_copy (warm (dom_mk primes)))
  | Hassigncold => dom_assign dom_default (dom_mk primes)
  | Hassignwarm => dom_assign (warm (dom_mk other)) (warm (dom_mk primes))
  | Hsetcold => dom_setPrimes dom_default primes
  | Hsetwarm => dom_setPrimes (warm (dom_mk other)) primes
  end.

Fixpoint dom_back (S : DomRNS) (als : list Z) : DomRNS * list (list Z * Z) :=
  match als with
  | [] => (S, [])
  | a :: tl =>
      let rr := dom_RingToRns S a in
      let '(S1, w) := dom_RnsToRing S rr in
      let '(S2, rest) := dom_back S1 tl in
      (S2, (rr, w) :: rest)
  end.

Definition dom_first (o : first_op) (S : DomRNS) (residu : list Z) (a : Z) : DomRNS * list Z :=
  match o with
  | Fmix | Fprod => dom_RnsToMixedRadix S residu
  | Fring => let '(S', v) := dom_RnsToRing S residu in (S', [v])
  | Frecip => let '(S', ck) := dom_Reciprocals S in (S', tl ck)
  | Frecipi => let '(S', ck) := dom_Reciprocals S in (S', last1 (tl ck))
  | Frns => (S, dom_RingToRns S a)
  end.

Definition dom_run (o : first_op) (h : hist) (primes other residu als : list Z)
  : list Z * Z * list (list Z * Z) * list Z * Z * list Z :=
  let S00 := dom_obtain h primes other in
  let '(S0, first) := dom_first o S00 residu (hd 0 als) in
  let '(S1, mix) := dom_RnsToMixedRadix S0 residu in
  let '(S2, V) := dom_RnsToRing S1 residu in
  let '(S2', rrs) := dom_back S2 als in
  let '(S3, ck) := dom_Reciprocals S2' in
  let '(S4, V2) := dom_RnsToRing S3 residu in
  (mix, V, rrs, tl ck, V2, first).

(* ------------------------------------------------------------------------------------------
   RNSsystem<RING, ModularBalanced<T>>: the same code, every domain operation returning the representative of least
   absolute value (odd p: -(p-1)/2 .. (p-1)/2); convert() hands that signed integer to the ring. *)
Definition bmod (p x : Z) : Z := let r := x mod p in if (p - 1) / 2 <? r then r - p else r.
Definition horner_bal (pi : Z) (done : list (Z * Z)) : Z :=
  match done with
  | [] => 0
  | (_, m) :: tl => fold_left (fun tmp pm => bmod pi (tmp * bmod pi (fst pm) + bmod pi (snd pm))) tl (bmod pi m)
  end.
Fixpoint mr_loop_bal (done : list (Z * Z)) (todo : list (Z * Z * Z)) : list (Z * Z) :=
  match todo with
  | [] => done
  | (pi, ri, cki) :: tl =>
      let tmp := horner_bal pi done in
      mr_loop_bal ((pi, bmod pi (bmod pi (ri - tmp) * cki)) :: done) tl
  end.
Definition ck_prod_bal (pk : Z) (prev : list Z) : Z :=
  match prev with
  | [] => 1
  | p0 :: tl => fold_left (fun prod pi => bmod pk (prod * bmod pk pi)) tl (bmod pk p0)
  end.
Fixpoint ck_loop_bal (prev : list Z) (rest : list Z) : list Z :=
  match rest with
  | [] => []
  | pk :: tl => bmod pk (invmod (ck_prod_bal pk prev) pk) :: ck_loop_bal (prev ++ [pk]) tl
  end.
Definition ComputeCk_bal (primes : list Z) : list Z :=
  match primes with [] => [] | p0 :: ps => 0 :: ck_loop_bal [p0] ps end.
Definition RnsToMixedRadix_bal (primes ck residu : list Z) : list Z :=
  match primes, residu with
  | p0 :: ps, r0 :: rs => map snd (rev (mr_loop_bal [(p0, r0)] (todo_of ps rs (tl ck))))
  | _, _ => []
  end.
Definition RingToRns_bal (primes : list Z) (a : Z) : list Z := map (fun p => bmod p a) primes.
Definition RnsToRing_bal (primes residu : list Z) : Z :=
  MixedRadixToRing primes (RnsToMixedRadix_bal primes (ComputeCk_bal primes) residu).
(* (digits, V, [(RingToRns a_j, RnsToRing of it)], reciprocals) of a system over balanced domains; residues given as any integers *)
Definition bal_run (primes residu als : list Z) : list Z * Z * list (list Z * Z) * list Z :=
  let res := map (fun pr => bmod (fst pr) (snd pr)) (combine primes residu) in
  (RnsToMixedRadix_bal primes (ComputeCk_bal primes) res, RnsToRing_bal primes res,
   map (fun a => let rr := RingToRns_bal primes a in (rr, RnsToRing_bal primes rr)) als, tl (ComputeCk_bal primes)).

(* incremental lifting by the functor f over a list of (p_i, r_i), starting from x with modulus M; all intermediate values *)
Fixpoint lift_chain (f : Z -> Z -> Z -> Z -> Z) (M x : Z) (todo : list (Z * Z)) : list Z :=
  match todo with
  | [] => []
  | (p, r) :: tl => let y := f M p x (r mod p) in y :: lift_chain f (M * p) y tl
  end.
Definition lift_run (f : Z -> Z -> Z -> Z -> Z) (primes residu : list Z) : list Z :=
  match primes, residu with
  | p0 :: ps, r0 :: rs => (r0 mod p0) :: lift_chain f p0 (r0 mod p0) (combine ps rs)
  | _, _ => []
  end.
