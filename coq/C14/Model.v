(* C14 model: Chinese remaindering / residue number systems of givaro, written after the code:
     src/kernel/integer/givintrns{.h,_cstor.inl,_convert.inl}      IntRNSsystem
     src/kernel/field/givrns{.h,cstor.inl,convert.inl}             RNSsystem<RING,Domain>
     src/kernel/field/givrnsfixed.{h,inl}                          RNSsystemFixed<Ints>
     src/kernel/field/chineseremainder.h                           ChineseRemainder<Ring,Domain,REDUCE>
     src/library/poly1/givpoly1crt{.h,cstor.inl,convert.inl}       Poly1CRT<Field>
   Integers are Z, arrays are lists, a residue-domain element is the canonical integer it denotes
   (that the Modular<..> operations compute exactly mod p is property C03/C04, not re-modelled here).
   No proofs in this file (it must still extract when a proof breaks). *)
From Coq Require Import ZArith Bool List.
Import ListNotations.
Local Open Scope Z_scope.

(* ------------------------------------------------------------------------------------------
   modular inverse: what mpz_gcdext / mpz_invert / Modular::inv deliver, up to congruence.
   Extended Euclid on (p, b mod p), keeping only the cofactor of b; result reduced to [0,p).
   (GMP's gcdext may return a negative cofactor; every use in the code reduces mod p afterwards,
   see RnsToMixedRadix; the theorems are stated for ANY list of reciprocals that satisfies the
   defining congruence, so the sign does not matter.) *)
(* Division used by the model's Euclid: shift-and-subtract, q bit by bit.  On the extracted inductive Z this costs
   O((log2 a - log2 b + 1) * log2 a) instead of the O(log2 a * log2 b) of Z.div_eucl, so that Euclid on n-bit
   operands is O(n^2) and not O(n^3).  Proofs.v: qdiv a b = (a / b, a mod b) for 0 <= a, 0 < b. *)
Fixpoint qdiv_loop (k : nat) (bs a q : Z) : Z * Z :=           (* bs = b * 2^k *)
  let a1 := if bs <=? a then a - bs else a in
  let q1 := if bs <=? a then 2 * q + 1 else 2 * q in
  match k with
  | O => (q1, a1)
  | S k' => qdiv_loop k' (Z.div2 bs) a1 q1
  end.
Definition qdiv (a b : Z) : Z * Z :=
  let k := Z.to_nat (Z.log2 a - Z.log2 b) in
  qdiv_loop k (Z.shiftl b (Z.of_nat k)) a 0.

Fixpoint egcd_loop (fuel : nat) (r0 r1 s0 s1 : Z) : Z * Z :=
  match fuel with
  | O => (r0, s0)
  | S f => if r1 =? 0 then (r0, s0)
           else let '(q, r2) := qdiv r0 r1 in egcd_loop f r1 r2 s1 (s0 - q * s1)
  end.

Definition egcd_fuel (p : Z) : nat := S (2 * Z.to_nat (Z.log2_up p)).

Definition invmod (b p : Z) : Z :=
  snd (egcd_loop (egcd_fuel p) p (b mod p) 0 1) mod p.

(* ------------------------------------------------------------------------------------------
   mixed radix machinery shared by IntRNSsystem and RNSsystem.
   A "done" list holds the pairs (p_j, m_j) already computed, most recent first:
       [(p_{i-1}, m_{i-1}); ... ; (p_0, m_0)]                                            *)

(* IntRNSsystem::RnsToMixedRadix inner loop:
     tmp = mixrad[i-1];  for (j = i-1; j--; ) tmp = (tmp * _primes[j] + mixrad[j]) mod _primes[i]  *)
Definition horner_int (pi : Z) (done : list (Z * Z)) : Z :=
  match done with
  | [] => 0
  | (_, m) :: tl => fold_left (fun tmp pm => (tmp * fst pm + snd pm) mod pi) tl m
  end.

(* RNSsystem::RnsToMixedRadix inner loop (every operand is first brought into domain i):
     tmp = init_i(m_{i-1});  for j = i-2..0:  t3 = init_i(m_j); t4 = init_i(p_j); tmp = axpy(tmp,t4,t3) *)
Definition horner_dom (pi : Z) (done : list (Z * Z)) : Z :=
  match done with
  | [] => 0
  | (_, m) :: tl => fold_left (fun tmp pm => (tmp * (fst pm mod pi) + (snd pm mod pi)) mod pi) tl (m mod pi)
  end.

(* outer loops: todo = remaining (p_i, r_i, ck_i) *)
(* Int:  mod(mixrad[i], mulin(sub(tmp, residu[i], tmp), _ck[i]), _primes[i]) *)
Fixpoint mr_loop_int (done : list (Z * Z)) (todo : list (Z * Z * Z)) : list (Z * Z) :=
  match todo with
  | [] => done
  | (pi, ri, cki) :: tl =>
      let tmp := horner_int pi done in
      mr_loop_int ((pi, ((ri - tmp) * cki) mod pi) :: done) tl
  end.
(* Dom:  sub(t2, residu[i], tmp); mul(mixrad[i], t2, _ck[i])   in domain i *)
Fixpoint mr_loop_dom (done : list (Z * Z)) (todo : list (Z * Z * Z)) : list (Z * Z) :=
  match todo with
  | [] => done
  | (pi, ri, cki) :: tl =>
      let tmp := horner_dom pi done in
      mr_loop_dom ((pi, (((ri - tmp) mod pi) * cki) mod pi) :: done) tl
  end.

Definition todo_of (ps rs cks : list Z) : list (Z * Z * Z) := combine (combine ps rs) cks.

(* mixrad[0] = residu[0]  (NOT reduced), then the loop.  ck has the size of primes; ck[0] is never used *)
Definition RnsToMixedRadix_int (primes ck residu : list Z) : list Z :=
  match primes, residu with
  | p0 :: ps, r0 :: rs => map snd (rev (mr_loop_int [(p0, r0)] (todo_of ps rs (tl ck))))
  | _, _ => []
  end.
(* how the first digit is produced is READ FROM THE SOURCE by the check:
     mixrad[0] = residu[0];                                  -> head_reduced = false  (unrepaired: any representative is copied)
     mixrad[0] = residu[0]; modin(mixrad[0], _primes[0]);    -> head_reduced = true                                        *)
Definition reduce_head (primes residu : list Z) : list Z :=
  match primes, residu with
  | p0 :: _, r0 :: rs => (r0 mod p0) :: rs
  | _, _ => residu
  end.
Definition RnsToMixedRadix_int_h (head_reduced : bool) (primes ck residu : list Z) : list Z :=
  RnsToMixedRadix_int primes ck (if head_reduced then reduce_head primes residu else residu).
Definition RnsToMixedRadix_dom (primes ck residu : list Z) : list Z :=
  match primes, residu with
  | p0 :: ps, r0 :: rs => map snd (rev (mr_loop_dom [(p0, r0)] (todo_of ps rs (tl ck))))
  | _, _ => []
  end.

(* MixedRadixToRing:  res = mixrad[size-1]; for (i = size-1; i--; ) res = res * _primes[i] + mixrad[i] *)
Definition MixedRadixToRing (primes mixrad : list Z) : Z :=
  match rev (combine primes mixrad) with
  | [] => 0
  | (_, m) :: tl => fold_left (fun res pm => res * fst pm + snd pm) tl m
  end.

(* RingToRns:  rns[i] = a mod _primes[i]   (mpz_mod / Domain::init: canonical, non-negative) *)
Definition RingToRns (primes : list Z) (a : Z) : list Z := map (fun p => a mod p) primes.

(* ------------------------------------------------------------------------------------------
   ComputeCk.
   IntRNSsystem:  prod = _primes[0]; for (i=1;i<k;++i) prod = (prod * _primes[i]) mod _primes[k];
                  gcd(g,u,_ck[k],_primes[k],prod)                                                   *)
Definition ck_prod_int (pk : Z) (prev : list Z) : Z :=       (* prev = [p_0; ...; p_{k-1}] *)
  match prev with
  | [] => 1
  | p0 :: tl => fold_left (fun prod pi => (prod * pi) mod pk) tl p0
  end.
(* RNSsystem:  prod = init_k(p_0); for (i=1;i<k;++i) prod = prod * init_k(p_i);  _ck[k] = inv(prod)  in domain k *)
Definition ck_prod_dom (pk : Z) (prev : list Z) : Z :=
  match prev with
  | [] => 1
  | p0 :: tl => fold_left (fun prod pi => (prod * (pi mod pk)) mod pk) tl (p0 mod pk)
  end.

(* the loop over k, carrying the primes seen so far (in order) *)
Fixpoint ck_loop (ckprod : Z -> list Z -> Z) (prev : list Z) (rest : list Z) : list Z :=
  match rest with
  | [] => []
  | pk :: tl => invmod (ckprod pk prev) pk :: ck_loop ckprod (prev ++ [pk]) tl
  end.

(* _ck[0] = 0 ("undefined and never used"), then k = 1 .. size-1 *)
Definition ComputeCk_with (ckprod : Z -> list Z -> Z) (primes : list Z) : list Z :=
  match primes with
  | [] => []
  | p0 :: ps => 0 :: ck_loop ckprod [p0] ps
  end.
Definition ComputeCk_int := ComputeCk_with ck_prod_int.
Definition ComputeCk_dom := ComputeCk_with ck_prod_dom.

(* ------------------------------------------------------------------------------------------
   The system objects.  The reciprocals _ck and the product _prod are computed by the constructors that receive the
   primes (and by setPrimes); the const accessors product() / Reciprocals() / reciprocal(i) only read them (since
   a42d959).  RnsToMixedRadix still calls ComputeCk() when _ck is empty, and ComputeCk() / ComputeProd() keep their
   guards ("_ck non-empty" / "_prod not one" = already computed).
   An object is the record of the data members the class has; copy construction and assignment act MEMBER BY MEMBER as
   the source says (facts read from the clang AST / the source text by the check and passed in as parameters), setPrimes
   is the statement list of its body.  A conversion on an object without primes (or with too few residues / digits) has
   no defined answer in the code (it indexes an empty array, or throws): the model returns None there. *)
Record IntRNS := mkIntRNS { i_primes : list Z; i_prod : Z; i_ck : list Z }.
Inductive imember := IMprimes | IMprod | IMck.
Definition imember_eqb (a b : imember) : bool :=
  match a, b with IMprimes, IMprimes | IMprod, IMprod | IMck, IMck => true | _, _ => false end.
Definition imem (m : imember) (l : list imember) : bool := existsb (imember_eqb m) l.

(* which member of the source a copy constructor uses to initialise _ck (givintrns.h: _ck(R._ck) as of the unchanged tree) *)
Inductive cksrc := FromPrimes | FromCk | FromNothing.
(* how the templated converting constructor sizes _ck in its initialiser list: _ck(0) = CkEmpty; _ck(inprimes.size()) = CkSized,
   a table of default-constructed (zero) Integers that ComputeCk() then takes for "already computed" *)
Inductive ckinit := CkEmpty | CkSized.
(* the facts about the IntRNSsystem source the object model depends on *)
Record isrc := mkIsrc { is_copy : cksrc; is_tt : ckinit; is_assign : list imember; is_head : bool }.

(* ComputeCk(): if (_ck.size() != 0) return; if (size == 0) return; ... *)
Definition int_ensure_ck (S : IntRNS) : IntRNS :=
  match i_ck S with
  | [] => mkIntRNS (i_primes S) (i_prod S) (ComputeCk_int (i_primes S))
  | _ => S
  end.
(* ComputeProd(): if (isOne(_prod)) for all p: _prod *= p *)
Definition int_ensure_prod (S : IntRNS) : IntRNS :=
  if i_prod S =? 1 then mkIntRNS (i_primes S) (fold_left Z.mul (i_primes S) (i_prod S)) (i_ck S) else S.

(* IntRNSsystem(const array& primes): _primes(primes), _prod(one), _ck(0) { ComputeProd(); ComputeCk(); } *)
Definition int_mk (primes : list Z) : IntRNS := int_ensure_ck (int_ensure_prod (mkIntRNS primes 1 [])).
(* the templated converting constructor: same body after the element-wise conversion *)
Definition int_mk_tt (ci : ckinit) (primes : list Z) : IntRNS :=
  int_ensure_ck (int_ensure_prod
    (mkIntRNS primes 1 (match ci with CkEmpty => [] | CkSized => repeat 0 (length primes) end))).
(* IntRNSsystem(): _primes(0), _prod(one), _ck(0) *)
Definition int_default : IntRNS := mkIntRNS [] 1 [].
(* IntRNSsystem(const IntRNSsystem& R) : _primes(R._primes), _prod(R._prod), _ck(<cksrc>) *)
Definition int_copy (src : cksrc) (R : IntRNS) : IntRNS :=
  mkIntRNS (i_primes R) (i_prod R)
           (match src with FromPrimes => i_primes R | FromCk => i_ck R | FromNothing => [] end).
(* operator=: every member in `ms` is assigned from the source, the others keep the value of the target
   (implicit operator=: all data members, read from the AST) *)
Definition int_assign (ms : list imember) (dst src : IntRNS) : IntRNS :=
  mkIntRNS (if imem IMprimes ms then i_primes src else i_primes dst)
           (if imem IMprod ms then i_prod src else i_prod dst)
           (if imem IMck ms then i_ck src else i_ck dst).

(* product() const { return _prod; } *)
Definition int_product (S : IntRNS) : IntRNS * Z := (S, i_prod S).
(* Reciprocals() const { return _ck; } *)
Definition int_Reciprocals (S : IntRNS) : IntRNS * list Z := (S, i_ck S).
Definition int_RingToRns (S : IntRNS) (a : Z) : list Z := RingToRns (i_primes S) a.

(* the conversions index _primes[0] / mixrad[size-1] / residu[i], i < size: defined only for size >= 1 and enough input *)
Definition enough (primes input : list Z) : bool :=
  match primes with [] => false | _ => (length primes <=? length input)%nat end.
(* RnsToMixedRadix: if (mixrad.size() < size) resize; if (_ck.size()==0) ComputeCk(); ... *)
Definition int_RnsToMixedRadix (hr : bool) (S : IntRNS) (residu : list Z) : IntRNS * option (list Z) :=
  let S' := int_ensure_ck S in
  (S', if enough (i_primes S') residu then Some (RnsToMixedRadix_int_h hr (i_primes S') (i_ck S') residu) else None).
(* MixedRadixToRing(res, mixrad) const: reads mixrad[0 .. size-1] (an oversized digit array is fine) *)
Definition int_MixedRadixToRing (S : IntRNS) (mixrad : list Z) : option Z :=
  if enough (i_primes S) mixrad then Some (MixedRadixToRing (i_primes S) mixrad) else None.
(* RnsToRing: array mixrad(_primes.size()); RnsToMixedRadix(mixrad, rns); MixedRadixToRing(I, mixrad)
   (mixrad has exactly _primes.size() entries: MixedRadixToRing is defined whenever RnsToMixedRadix was) *)
Definition int_RnsToRing (hr : bool) (S : IntRNS) (residu : list Z) : IntRNS * option Z :=
  let '(S', mix) := int_RnsToMixedRadix hr S residu in (S', option_map (MixedRadixToRing (i_primes S')) mix).

(* RNSsystem<RING,Domain>: { _primes; _ck } *)
Record DomRNS := mkDomRNS { d_primes : list Z; d_ck : list Z }.
Inductive dmember := DMprimes | DMck.
Definition dmember_eqb (a b : dmember) : bool :=
  match a, b with DMprimes, DMprimes | DMck, DMck => true | _, _ => false end.
Definition dmem (m : dmember) (l : list dmember) : bool := existsb (dmember_eqb m) l.
(* the statements of setPrimes(const domains& inprimes), in source order *)
Inductive set_stmt := SAllocPrimes0 | SCopyPrimes | SResizeCk0 | SComputeCk.
(* the facts about the RNSsystem source the object model depends on: members the copy constructor copies (the others are
   default-constructed), members operator= assigns, statement list of setPrimes *)
Record dsrc := mkDsrc { ds_copy : list dmember; ds_assign : list dmember; ds_set : list set_stmt }.

Definition dom_ensure_ck (S : DomRNS) : DomRNS :=
  match d_ck S with
  | [] => mkDomRNS (d_primes S) (ComputeCk_dom (d_primes S))
  | _ => S
  end.
(* RNSsystem(const domains& primes): _primes(primes, givWithCopy()), _ck(0) { ComputeCk(); } *)
Definition dom_mk (primes : list Z) : DomRNS := dom_ensure_ck (mkDomRNS primes []).
Definition dom_default : DomRNS := mkDomRNS [] [].
(* RNSsystem(const Self_t& R) : _primes(R._primes, givWithCopy()), _ck(R._ck, givWithCopy()) *)
Definition dom_copy (ms : list dmember) (R : DomRNS) : DomRNS :=
  mkDomRNS (if dmem DMprimes ms then d_primes R else []) (if dmem DMck ms then d_ck R else []).
(* operator= (implicit: Array0::operator= on both members) *)
Definition dom_assign (ms : list dmember) (dst src : DomRNS) : DomRNS :=
  mkDomRNS (if dmem DMprimes ms then d_primes src else d_primes dst) (if dmem DMck ms then d_ck src else d_ck dst).
(* setPrimes: _primes.allocate(0); _primes.copy(inprimes); _ck.resize(0); ComputeCk();  - statement by statement *)
Definition dom_set_step (inprimes : list Z) (S : DomRNS) (st : set_stmt) : DomRNS :=
  match st with
  | SAllocPrimes0 => mkDomRNS [] (d_ck S)
  | SCopyPrimes => mkDomRNS inprimes (d_ck S)
  | SResizeCk0 => mkDomRNS (d_primes S) []
  | SComputeCk => dom_ensure_ck S
  end.
Definition dom_setPrimes (prog : list set_stmt) (S : DomRNS) (inprimes : list Z) : DomRNS :=
  fold_left (dom_set_step inprimes) prog S.
Definition set_prog_repo : list set_stmt := [SAllocPrimes0; SCopyPrimes; SResizeCk0; SComputeCk].
Definition dmembers_all : list dmember := [DMprimes; DMck].
Definition dsrc_repo : dsrc := mkDsrc dmembers_all dmembers_all set_prog_repo.

Definition dom_RnsToMixedRadix (S : DomRNS) (residu : list Z) : DomRNS * option (list Z) :=
  let S' := dom_ensure_ck S in
  (S', if enough (d_primes S') residu then Some (RnsToMixedRadix_dom (d_primes S') (d_ck S') residu) else None).
(* MixedRadixToRing: if (!Size) [throw] GivError; if (Size != mixrad.size()) throw GivError; ...   no answer in both cases *)
Definition dom_MixedRadixToRing (S : DomRNS) (mixrad : list Z) : option Z :=
  match d_primes S with
  | [] => None
  | _ => if (length (d_primes S) =? length mixrad)%nat then Some (MixedRadixToRing (d_primes S) mixrad) else None
  end.
(* RnsToRing: array mixrad(_primes.size()) - exactly the right size, the size test of MixedRadixToRing cannot fire - ;
   RnsToMixedRadix; MixedRadixToRing *)
Definition dom_RnsToRing (S : DomRNS) (residu : list Z) : DomRNS * option Z :=
  let '(S', mix) := dom_RnsToMixedRadix S residu in (S', option_map (MixedRadixToRing (d_primes S')) mix).
Definition dom_RingToRns (S : DomRNS) (a : Z) : list Z := RingToRns (d_primes S) a.
(* Reciprocals() const { return _ck; } *)
Definition dom_Reciprocals (S : DomRNS) : DomRNS * list Z := (S, d_ck S).

(* ------------------------------------------------------------------------------------------
   ChineseRemainder<Ring,Domain,REDUCE>(R, M, D):
     ctor:  u = inv_D(init_D(M));  C_12 = convert(u) * M
     REDUCE = true :  smallA = init_D(A); smallM = sub_D(e, smallA); res = convert(smallM); res *= C_12; res += A
     REDUCE = false:  res = convert(e); res -= A; res *= C_12; res += A                                   *)
Definition cra_C12 (M D : Z) : Z := invmod (M mod D) D * M.
Definition cra_reduce (M D A e : Z) : Z := ((e - A mod D) mod D) * cra_C12 M D + A.
Definition cra_noreduce (M D A e : Z) : Z := (e - A) * cra_C12 M D + A.
(* the shape a repaired functor has: the domain product ((e-A) u) is reduced mod D before leaving the domain *)
Definition cra_reduce_fixed (M D A e : Z) : Z :=
  ((((e - A mod D) mod D) * invmod (M mod D) D) mod D) * M + A.

(* ------------------------------------------------------------------------------------------
   RNSsystemFixed<Ints>: a binary tree of products; in every completed pair (p0,p1) of a level the right
   entry is overwritten by  p0 * (p0^{-1} mod p1)   (constructor), the product p0*p1 goes one level up. *)
Fixpoint pair_level (l : list Z) : list Z * list Z :=      (* (next level, this level as stored) *)
  match l with
  | p0 :: p1 :: tl => let '(nx, cur) := pair_level tl in (p0 * p1 :: nx, p0 :: (invmod p0 p1 * p0) :: cur)
  | _ => ([], l)
  end.
Fixpoint build_tree (fuel : nat) (l : list Z) : list (list Z) :=
  match fuel with
  | O => []
  | S f => match l with
           | [] => []
           | _ => let '(nx, cur) := pair_level l in cur :: build_tree f nx
           end
  end.
Definition fixed_tree (primes : list Z) : list (list Z) := build_tree (length primes) primes.

Definition tree_at (t : list (list Z)) (level col : nat) : Z := nth col (nth level t []) 0.

(* RnsToRingLeft (left = true: result reduced mod _primes[level][col]) / RnsToRingRight.
   At level 0 both return residues[col]; whether RnsToRingLeft reduces it there is READ FROM THE SOURCE (leaf_reduced;
   a left leaf is always an even column of level 0, i.e. an unmodified prime) *)
Fixpoint fixed_rec (lr : bool) (t : list (list Z)) (res : list Z) (left : bool) (level col : nat) : Z :=
  match level with
  | O => let r := nth col res 0 in if left && lr then r mod tree_at t 0 col else r
  | S l =>
      let u0 := fixed_rec lr t res true l (2 * col) in
      let u1 := fixed_rec lr t res false l (2 * col + 1) in
      let I := (u1 - u0) * tree_at t l (2 * col + 1) + u0 in
      if left then I mod tree_at t (S l) col else I
  end.

(* levels whose size is odd contribute their last entry (a plain product) as a modulus of the inner _RNS,
   lowest level first; Reds are the corresponding partial reconstructions *)
Fixpoint fixed_odd_levels (t : list (list Z)) (level : nat) : list (nat * nat) :=   (* (level, col) *)
  match t with
  | [] => []
  | lv :: tl => if Nat.odd (length lv) then (level, (length lv - 1)%nat) :: fixed_odd_levels tl (S level)
                else fixed_odd_levels tl (S level)
  end.
Definition fixed_mods (t : list (list Z)) : list Z :=
  map (fun lc => tree_at t (fst lc) (snd lc)) (fixed_odd_levels t 0).
Definition fixed_reds (lr : bool) (t : list (list Z)) (residues : list Z) : list Z :=
  map (fun lc => fixed_rec lr t residues true (fst lc) (snd lc)) (fixed_odd_levels t 0).
(* the conversion of a freshly constructed system, as a function of the primes *)
Definition fixed_RnsToRing (lr : bool) (primes residues : list Z) : option Z :=
  let t := fixed_tree primes in
  if enough primes residues then snd (dom_RnsToRing (dom_mk (fixed_mods t)) (fixed_reds lr t residues)) else None.

(* the object: { tree _primes; RNS_t _RNS } *)
Record FixRNS := mkFixRNS { f_tree : list (list Z); f_rns : DomRNS }.
Inductive fmember := FMtree | FMrns.
Definition fmember_eqb (a b : fmember) : bool := match a, b with FMtree, FMtree | FMrns, FMrns => true | _, _ => false end.
Definition fmem (m : fmember) (l : list fmember) : bool := existsb (fmember_eqb m) l.
(* facts about the source: members the copy constructor copies / operator= assigns, leaf reduction, and the RNSsystem facts *)
Record fsrc := mkFsrc { fs_copy : list fmember; fs_assign : list fmember; fs_leaf : bool; fs_dom : dsrc }.
(* RNSsystemFixed(const array& primes): builds the tree, then _RNS.setPrimes(Mods) *)
Definition fix_mk (fs : fsrc) (primes : list Z) : FixRNS :=
  let t := fixed_tree primes in mkFixRNS t (dom_setPrimes (ds_set (fs_dom fs)) dom_default (fixed_mods t)).
Definition fix_default : FixRNS := mkFixRNS [] dom_default.
Definition fix_copy (fs : fsrc) (R : FixRNS) : FixRNS :=
  mkFixRNS (if fmem FMtree (fs_copy fs) then f_tree R else [])
           (if fmem FMrns (fs_copy fs) then dom_copy (ds_copy (fs_dom fs)) (f_rns R) else dom_default).
Definition fix_assign (fs : fsrc) (dst src : FixRNS) : FixRNS :=
  mkFixRNS (if fmem FMtree (fs_assign fs) then f_tree src else f_tree dst)
           (if fmem FMrns (fs_assign fs) then dom_assign (ds_assign (fs_dom fs)) (f_rns dst) (f_rns src) else f_rns dst).
(* RnsToRing: Reds(_RNS.Primes().size()); one RnsToRingLeft per level of odd size; _RNS.RnsToRing(I, Reds) *)
Definition fix_RnsToRing (fs : fsrc) (F : FixRNS) (residues : list Z) : FixRNS * option Z :=
  let t := f_tree F in
  let reds := fixed_reds (fs_leaf fs) t residues in
  let '(R', v) := dom_RnsToRing (f_rns F) reds in
  (mkFixRNS t R',
   if enough (nth 0 t []) residues && (length (d_primes (f_rns F)) =? length reds)%nat then v else None).
(* the histories of the harness (c14_rns.C: fresh, reuse, the assignments; c14_fixedcopy.C: the copies) *)
Inductive fhist := FHfresh | FHreuse | FHassigncold | FHassignwarm | FHassigncc | FHcopycold | FHcopywarm | FHcopy2 | FHcopyassign.
Definition fix_obtain (fs : fsrc) (h : fhist) (primes other : list Z) : FixRNS :=
  let use ps F := fst (fix_RnsToRing fs F (repeat 1 (length ps))) in
  match h with
  | FHfresh => fix_mk fs primes
  | FHreuse => use primes (fix_mk fs primes)
  | FHassigncold => fix_assign fs fix_default (fix_mk fs primes)
  | FHassignwarm => fix_assign fs (use other (fix_mk fs other)) (use primes (fix_mk fs primes))
  | FHassigncc => fix_assign fs (use other (fix_mk fs other)) (fix_mk fs primes)
  | FHcopycold => fix_copy fs (fix_mk fs primes)
  | FHcopywarm => fix_copy fs (use primes (fix_mk fs primes))
  | FHcopy2 => fix_copy fs (fix_copy fs (use primes (fix_mk fs primes)))
  | FHcopyassign => fix_assign fs fix_default (fix_copy fs (fix_mk fs primes))
  end.
(* (V, V2, stored tree) of the object a history yields *)
Definition fix_run (fs : fsrc) (h : fhist) (primes other residues : list Z) : option Z * option Z * list (list Z) :=
  let F0 := fix_obtain fs h primes other in
  let '(F1, v) := fix_RnsToRing fs F0 residues in
  let '(F2, v2) := fix_RnsToRing fs F1 residues in
  (v, v2, f_tree F2).

(* ------------------------------------------------------------------------------------------
   Poly1CRT<Field> over GF(p): polynomials are coefficient lists, low degree first, entries in [0,p) *)
Fixpoint padd (p : Z) (a b : list Z) : list Z :=
  match a, b with
  | [], _ => b
  | _, [] => a
  | x :: a', y :: b' => ((x + y) mod p) :: padd p a' b'
  end.
Definition pscale (p c : Z) (a : list Z) : list Z := map (fun x => (c * x) mod p) a.
(* multiplication by the monic linear polynomial X + c0 *)
Definition pmul_lin (p c0 : Z) (a : list Z) : list Z := padd p (pscale p c0 a) (0 :: a).
(* Poly1Dom::eval: Horner from the leading coefficient *)
Definition peval (p : Z) (a : list Z) (x : Z) : Z := fold_right (fun c acc => (acc * x + c) mod p) 0 a.

(* ComputeCk: prod = 1; for k = 1..Size-1: prod *= (X - a_{k-1}); ck[k] = prod * (1 / prod(a_k)) *)
Fixpoint poly_ck_loop (p : Z) (prod : list Z) (prevpt : Z) (rest : list Z) : list (list Z) :=
  match rest with
  | [] => []
  | ak :: tl =>
      let prod' := pmul_lin p ((- prevpt) mod p) prod in
      let invC := invmod (peval p prod' ak) p in
      pscale p invC prod' :: poly_ck_loop p prod' ak tl
  end.
Definition poly_ComputeCk (p : Z) (pts : list Z) : list (list Z) :=
  match pts with [] => [] | a0 :: tl => poly_ck_loop p [1] a0 tl end.
(* RnsToRing: I = r_0; for i >= 1: addon = r_i - I(a_i); I += addon * ck[i] *)
Fixpoint poly_rns_loop (p : Z) (I : list Z) (todo : list (Z * Z * list Z)) : list Z :=
  match todo with
  | [] => I
  | (ai, ri, cki) :: tl =>
      let addon := (ri - peval p I ai) mod p in
      poly_rns_loop p (padd p I (pscale p addon cki)) tl
  end.
Definition poly_RnsToRing (p : Z) (pts rs : list Z) : list Z :=
  match pts, rs with
  | _ :: ps, r0 :: rs' => poly_rns_loop p [r0 mod p] (combine (combine ps rs') (poly_ComputeCk p pts))
  | _, _ => []
  end.
Definition poly_RingToRns (p : Z) (pts : list Z) (a : list Z) : list Z := map (peval p a) pts.

(* ------------------------------------------------------------------------------------------
   wrappers used by the extracted driver.  One constructor per history of the harness (c14_rns.C); `other` is the
   unrelated system the harness uses as assignment target / to warm caches.  Steps that change the SOURCE of a copy after
   the copy was taken (copymod, the tail of assigncc) cannot reach a value copy: they are outside a Gallina model and
   are exercised by the harness and the oracle only; the terms below contain everything that happens to the object itself. *)
Inductive hist :=
  | Hfresh | Hreuse | Hcopycold | Hcopywarm | Hcopy2 | Hcopymod | Hassigncold | Hassignwarm | Hassignsame | Hassigncc
  | Hsetcold | Hsetwarm | Hsetsame | Hsetback | Hdfltcopyset.

Definition ones (n : nat) : list Z := repeat 1 n.

(* `mk` is the constructor the harness used for the system under test (plain, or templated from native integers) *)
Definition int_obtain (f : isrc) (mk : list Z -> IntRNS) (h : hist) (primes other : list Z) : IntRNS :=
  let use ps S := fst (int_RnsToRing (is_head f) S (ones (length ps))) in
  let warm ps S := fst (int_product (use ps S)) in
  match h with
  | Hfresh => mk primes
  | Hreuse => use primes (mk primes)
  | Hcopycold => int_copy (is_copy f) (mk primes)
  | Hcopywarm | Hcopymod => int_copy (is_copy f) (warm primes (mk primes))
  | Hcopy2 => int_copy (is_copy f) (int_copy (is_copy f) (use primes (mk primes)))
  | Hassigncold => int_assign (is_assign f) int_default (mk primes)
  | Hassignwarm | Hassignsame => int_assign (is_assign f) (warm other (int_mk other)) (warm primes (mk primes))
  | Hassigncc => int_assign (is_assign f) (fst (int_Reciprocals (warm other (int_mk other)))) (mk primes)
  | Hsetcold | Hsetwarm | Hsetsame | Hsetback | Hdfltcopyset => mk primes          (* IntRNSsystem has no setPrimes *)
  end.

(* the harness prints the reciprocals k = 1..n-1 reduced into [0, p_k) (gcdext's cofactor may be negative) *)
Definition ck_canon (primes ck : list Z) : list Z := map (fun pc => snd pc mod fst pc) (tl (combine primes ck)).

Definition obind {A B : Type} (o : option A) (k : A -> option B) : option B := match o with Some a => k a | None => None end.

(* RingToRns of each integer of a list followed by RnsToRing of the residues just obtained, on one object *)
Fixpoint int_back (hr : bool) (S : IntRNS) (als : list Z) : IntRNS * option (list (list Z * Z)) :=
  match als with
  | [] => (S, Some [])
  | a :: tl =>
      let rr := int_RingToRns S a in
      let '(S1, w) := int_RnsToRing hr S rr in
      let '(S2, rest) := int_back hr S1 tl in
      (S2, obind w (fun w => obind rest (fun rest => Some ((rr, w) :: rest))))
  end.

(* which entry point the harness calls FIRST on the object it obtained (the caches are observed before and after first use) *)
Inductive first_op := Fmix | Fring | Frecip | Frecipi | Fprod | Frns.
Definition last1 (l : list Z) : list Z := match rev l with [] => [] | x :: _ => [x] end.
Definition int_first (hr : bool) (o : first_op) (S : IntRNS) (residu : list Z) (a : Z) : IntRNS * option (list Z) :=
  match o with
  | Fmix => int_RnsToMixedRadix hr S residu
  | Fring => let '(S', v) := int_RnsToRing hr S residu in (S', option_map (fun v => [v]) v)
  | Frecip => let '(S', ck) := int_Reciprocals S in (S', Some (ck_canon (i_primes S') ck))
  | Frecipi => let '(S', ck) := int_Reciprocals S in (S', Some (last1 (ck_canon (i_primes S') ck)))   (* reciprocal(n-1) *)
  | Fprod => let '(S', p) := int_product S in (S', Some [p])
  | Frns => (S, Some (int_RingToRns S a))
  end.

(* everything the harness prints for one case, in its order; None = some call of the sequence has no defined answer.
   (mixrad, V, P, [(rns(a_j), back_j)], ck, V2, primes as the accessors see them, ck again, V3 from an oversized digit array, P2, first) *)
Definition int_run (f : isrc) (mk : list Z -> IntRNS) (o : first_op) (h : hist) (primes other residu als : list Z)
  : option (list Z * Z * Z * list (list Z * Z) * list Z * Z * list Z * list Z * Z * Z * list Z) :=
  let hr := is_head f in
  let S00 := int_obtain f mk h primes other in
  let '(S0, first) := int_first hr o S00 residu (hd 0 als) in
  let '(S1, mix) := int_RnsToMixedRadix hr S0 residu in
  let '(S2, V) := int_RnsToRing hr S1 residu in
  let '(S3, P) := int_product S2 in
  let '(S3', rrs) := int_back hr S3 als in
  let '(S4, ck) := int_Reciprocals S3' in
  let '(S5, V2) := int_RnsToRing hr S4 residu in
  let '(S6, ck2) := int_Reciprocals S5 in
  let '(S7, mix2) := int_RnsToMixedRadix hr S6 residu in
  let V3 := obind mix2 (fun m => int_MixedRadixToRing S7 (m ++ [5; 5; 5])) in
  let '(S8, P2) := int_product S7 in
  obind first (fun first => obind mix (fun mix => obind V (fun V => obind rrs (fun rrs => obind V2 (fun V2 => obind V3 (fun V3 =>
    Some (mix, V, P, rrs, ck_canon (i_primes S4) ck, V2, i_primes S8, ck_canon (i_primes S5) ck2, V3, P2, first))))))).

Definition dom_obtain (f : dsrc) (h : hist) (primes other : list Z) : DomRNS :=
  let use ps S := fst (dom_RnsToRing S (ones (length ps))) in
  let set := dom_setPrimes (ds_set f) in
  match h with
  | Hfresh => dom_mk primes
  | Hreuse => use primes (dom_mk primes)
  | Hcopycold => dom_copy (ds_copy f) (dom_mk primes)
  | Hcopywarm | Hcopymod => dom_copy (ds_copy f) (use primes (dom_mk primes))
  | Hcopy2 => dom_copy (ds_copy f) (dom_copy (ds_copy f) (use primes (dom_mk primes)))
  | Hassigncold => dom_assign (ds_assign f) dom_default (dom_mk primes)
  | Hassignwarm | Hassignsame => dom_assign (ds_assign f) (use other (dom_mk other)) (use primes (dom_mk primes))
  | Hassigncc => dom_assign (ds_assign f) (fst (dom_Reciprocals (use other (dom_mk other)))) (dom_mk primes)
  | Hsetcold => set dom_default primes
  | Hsetwarm | Hsetsame => set (use other (dom_mk other)) primes
  | Hsetback => set (fst (dom_Reciprocals (use other (set (use primes (dom_mk primes)) other)))) primes
  | Hdfltcopyset => set (dom_copy (ds_copy f) dom_default) primes
  end.

Fixpoint dom_back (S : DomRNS) (als : list Z) : DomRNS * option (list (list Z * Z)) :=
  match als with
  | [] => (S, Some [])
  | a :: tl =>
      let rr := dom_RingToRns S a in
      let '(S1, w) := dom_RnsToRing S rr in
      let '(S2, rest) := dom_back S1 tl in
      (S2, obind w (fun w => obind rest (fun rest => Some ((rr, w) :: rest))))
  end.

Definition dom_first (o : first_op) (S : DomRNS) (residu : list Z) (a : Z) : DomRNS * option (list Z) :=
  match o with
  | Fmix | Fprod => dom_RnsToMixedRadix S residu
  | Fring => let '(S', v) := dom_RnsToRing S residu in (S', option_map (fun v => [v]) v)
  | Frecip => let '(S', ck) := dom_Reciprocals S in (S', Some (tl ck))
  | Frecipi => let '(S', ck) := dom_Reciprocals S in (S', Some (last1 (tl ck)))
  | Frns => (S, Some (dom_RingToRns S a))
  end.

(* (mixrad, V, [(rns(a_j), back_j)], ck, V2, primes as the accessors see them, ck again, V3 = MixedRadixToRing(mixrad), mixrad again twice, first) *)
Definition dom_run (f : dsrc) (o : first_op) (h : hist) (primes other residu als : list Z)
  : option (list Z * Z * list (list Z * Z) * list Z * Z * list Z * list Z * Z * list Z * list Z * list Z) :=
  let S00 := dom_obtain f h primes other in
  let '(S0, first) := dom_first o S00 residu (hd 0 als) in
  let '(S1, mix) := dom_RnsToMixedRadix S0 residu in
  let '(S2, V) := dom_RnsToRing S1 residu in
  let '(S2', rrs) := dom_back S2 als in
  let '(S3, ck) := dom_Reciprocals S2' in
  let '(S4, V2) := dom_RnsToRing S3 residu in
  let '(S5, ck2) := dom_Reciprocals S4 in
  let V3 := obind mix (fun m => dom_MixedRadixToRing S5 m) in
  let '(S6, mixE) := dom_RnsToMixedRadix S5 residu in
  let '(S7, mixO) := dom_RnsToMixedRadix S6 residu in
  obind first (fun first => obind mix (fun mix => obind V (fun V => obind rrs (fun rrs => obind V2 (fun V2 => obind V3 (fun V3 =>
  obind mixE (fun mixE => obind mixO (fun mixO =>
    Some (mix, V, rrs, tl ck, V2, d_primes S7, tl ck2, V3, mixE, mixO, first))))))))).

(* the exception cases of RNSsystem::MixedRadixToRing driven by the harness: a system without primes; a digit array of the wrong size *)
Definition dom_exc_run (f : dsrc) (primes mixrad : list Z) : option Z :=
  dom_MixedRadixToRing (match primes with [] => dom_default | _ => dom_mk primes end) mixrad.

(* ------------------------------------------------------------------------------------------
   RNSsystem<RING, ModularBalanced<T>>: the same code, every domain operation returning the representative of least
   absolute value (odd p: -(p-1)/2 .. (p-1)/2); convert() hands that signed integer to the ring. *)
Definition bmod (p x : Z) : Z := let r := x mod p in if (p - 1) / 2 <? r then r - p else r.
Definition horner_bal (pi : Z) (done : list (Z * Z)) : Z :=
  match done with
  | [] => 0
  | (_, m) :: tl => fold_left (fun tmp pm => bmod pi (tmp * bmod pi (fst pm) + bmod pi (snd pm))) tl (bmod pi m)
  end.
Fixpoint mr_loop_bal (done : list (Z * Z)) (todo : list (Z * Z * Z)) : list (Z * Z) :=
  match todo with
  | [] => done
  | (pi, ri, cki) :: tl =>
      let tmp := horner_bal pi done in
      mr_loop_bal ((pi, bmod pi (bmod pi (ri - tmp) * cki)) :: done) tl
  end.
Definition ck_prod_bal (pk : Z) (prev : list Z) : Z :=
  match prev with
  | [] => 1
  | p0 :: tl => fold_left (fun prod pi => bmod pk (prod * bmod pk pi)) tl (bmod pk p0)
  end.
Fixpoint ck_loop_bal (prev : list Z) (rest : list Z) : list Z :=
  match rest with
  | [] => []
  | pk :: tl => bmod pk (invmod (ck_prod_bal pk prev) pk) :: ck_loop_bal (prev ++ [pk]) tl
  end.
Definition ComputeCk_bal (primes : list Z) : list Z :=
  match primes with [] => [] | p0 :: ps => 0 :: ck_loop_bal [p0] ps end.
Definition RnsToMixedRadix_bal (primes ck residu : list Z) : list Z :=
  match primes, residu with
  | p0 :: ps, r0 :: rs => map snd (rev (mr_loop_bal [(p0, r0)] (todo_of ps rs (tl ck))))
  | _, _ => []
  end.
Definition RingToRns_bal (primes : list Z) (a : Z) : list Z := map (fun p => bmod p a) primes.
Definition RnsToRing_bal (primes residu : list Z) : Z :=
  MixedRadixToRing primes (RnsToMixedRadix_bal primes (ComputeCk_bal primes) residu).
(* (digits, V, [(RingToRns a_j, RnsToRing of it)], reciprocals) of a system over balanced domains; residues given as any integers *)
Definition bal_run (primes residu als : list Z) : list Z * Z * list (list Z * Z) * list Z :=
  let res := map (fun pr => bmod (fst pr) (snd pr)) (combine primes residu) in
  (RnsToMixedRadix_bal primes (ComputeCk_bal primes) res, RnsToRing_bal primes res,
   map (fun a => let rr := RingToRns_bal primes a in (rr, RnsToRing_bal primes rr)) als, tl (ComputeCk_bal primes)).

(* incremental lifting by the functor f over a list of (p_i, r_i), starting from x with modulus M; all intermediate values *)
Fixpoint lift_chain (f : Z -> Z -> Z -> Z -> Z) (M x : Z) (todo : list (Z * Z)) : list Z :=
  match todo with
  | [] => []
  | (p, r) :: tl => let y := f M p x (r mod p) in y :: lift_chain f (M * p) y tl
  end.
Definition lift_run (f : Z -> Z -> Z -> Z -> Z) (primes residu : list Z) : list Z :=
  match primes, residu with
  | p0 :: ps, r0 :: rs => (r0 mod p0) :: lift_chain f p0 (r0 mod p0) (combine ps rs)
  | _, _ => []
  end.
