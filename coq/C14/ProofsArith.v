(* C14 proofs, part 1: the arithmetic kernel of the model
     - qdiv (shift-and-subtract division) is Euclidean division
     - egcd_loop / invmod compute the modular inverse for every modulus p > 0 and every b coprime to p
     - congruences as divisibility, products of lists, pairwise coprimality, uniqueness part of the CRT *)
From Coq Require Import ZArith Znumtheory Bool List Lia.
From C14 Require Import Model.
Import ListNotations.
Local Open Scope Z_scope.
Ltac Zify.zify_post_hook ::= Z.div_mod_to_equations.

(* ---------------------------------------------------------------- congruence as divisibility *)
Lemma mod_eq_divide : forall n a b, 0 < n -> (a mod n = b mod n <-> (n | a - b)).
Proof.
  intros n a b Hn; split.
  - intro H. exists (a / n - b / n).
    pose proof (Z.div_mod a n ltac:(lia)). pose proof (Z.div_mod b n ltac:(lia)). nia.
  - intros [k Hk]. replace a with (b + k * n) by lia. apply Z_mod_plus_full.
Qed.

Lemma divide_mod_small : forall n a b, 0 < n -> (n | a - b) -> 0 <= a < n -> 0 <= b < n -> a = b.
Proof.
  intros n a b Hn [k Hk] Ha Hb. assert (k = 0) by nia. subst; lia.
Qed.

(* ---------------------------------------------------------------- qdiv *)
Lemma div2_shift : forall b k, Z.div2 (b * 2 ^ Z.of_nat (S k)) = b * 2 ^ Z.of_nat k.
Proof.
  intros. rewrite Z.div2_div, Nat2Z.inj_succ, Z.pow_succ_r by lia.
  replace (b * (2 * 2 ^ Z.of_nat k)) with ((b * 2 ^ Z.of_nat k) * 2) by ring.
  apply Z.div_mul; lia.
Qed.

Lemma qdiv_loop_spec : forall k b a q,
  0 < b -> 0 <= a < 2 * (b * 2 ^ Z.of_nat k) ->
  fst (qdiv_loop k (b * 2 ^ Z.of_nat k) a q) * b + snd (qdiv_loop k (b * 2 ^ Z.of_nat k) a q)
    = q * (2 * (b * 2 ^ Z.of_nat k)) + a
  /\ 0 <= snd (qdiv_loop k (b * 2 ^ Z.of_nat k) a q) < b.
Proof.
  induction k as [|k IH]; intros b a q Hb Ha.
  - cbn [qdiv_loop Z.of_nat fst snd]. change (2 ^ 0) with 1 in *. rewrite Z.mul_1_r in *.
    destruct (Z.leb_spec b a); cbn [fst snd]; lia.
  - cbn [qdiv_loop]. rewrite div2_shift.
    set (bs := b * 2 ^ Z.of_nat (S k)) in *.
    assert (Hbs : bs = 2 * (b * 2 ^ Z.of_nat k)).
    { unfold bs. rewrite Nat2Z.inj_succ, Z.pow_succ_r by lia. ring. }
    clearbody bs. specialize (IH b). set (c := b * 2 ^ Z.of_nat k) in *. clearbody c.
    destruct (Z.leb_spec bs a).
    + destruct (IH (a - bs) (2 * q + 1) Hb ltac:(lia)) as [E R]. split; [rewrite E|exact R]. lia.
    + destruct (IH a (2 * q) Hb ltac:(lia)) as [E R]. split; [rewrite E|exact R]. lia.
Qed.

Lemma qdiv_spec : forall a b, 0 <= a -> 0 < b -> qdiv a b = (a / b, a mod b).
Proof.
  intros a b Ha Hb. unfold qdiv.
  set (k := Z.to_nat (Z.log2 a - Z.log2 b)).
  rewrite Z.shiftl_mul_pow2 by lia.
  assert (Hlt : a < 2 * (b * 2 ^ Z.of_nat k)).
  { destruct (Z.lt_ge_cases a b) as [Hab|Hab].
    - assert (0 < 2 ^ Z.of_nat k) by (apply Z.pow_pos_nonneg; lia). nia.
    - assert (Hl : Z.log2 b <= Z.log2 a) by (apply Z.log2_le_mono; lia).
      assert (Hk : Z.of_nat k = Z.log2 a - Z.log2 b) by (unfold k; rewrite Z2Nat.id; lia).
      pose proof (Z.log2_spec a ltac:(lia)) as [_ Hua].
      pose proof (Z.log2_spec b Hb) as [Hlb _].
      pose proof (Z.log2_nonneg b).
      assert (E : 2 ^ Z.succ (Z.log2 a) = 2 * (2 ^ Z.log2 b * 2 ^ Z.of_nat k)).
      { rewrite Hk, <- Z.pow_add_r by lia. rewrite <- Z.pow_succ_r by lia. f_equal; lia. }
      assert (0 < 2 ^ Z.of_nat k) by (apply Z.pow_pos_nonneg; lia). nia. }
  destruct (qdiv_loop_spec k b a 0 Hb ltac:(lia)) as [E R].
  destruct (qdiv_loop k (b * 2 ^ Z.of_nat k) a 0) as [q r]; cbn [fst snd] in *.
  assert (a = b * q + r) by lia.
  f_equal; [apply (Z.div_unique_pos a b q r)|apply (Z.mod_unique_pos a b q r)]; lia.
Qed.

(* ---------------------------------------------------------------- Euclid *)
Lemma egcd_loop_spec : forall b p n fuel r0 r1 s0 s1,
  (n < fuel)%nat -> 0 <= r1 < r0 -> r0 * r1 < 2 ^ Z.of_nat n ->
  (p | r0 - s0 * b) -> (p | r1 - s1 * b) ->
  fst (egcd_loop fuel r0 r1 s0 s1) = Z.gcd r0 r1 /\
  (p | fst (egcd_loop fuel r0 r1 s0 s1) - snd (egcd_loop fuel r0 r1 s0 s1) * b).
Proof.
  intros b p. induction n as [|n IH]; intros fuel r0 r1 s0 s1 Hf Hr Hb H0 H1.
  - change (2 ^ Z.of_nat 0) with 1 in Hb. assert (r1 = 0) by nia. subst r1.
    destruct fuel; [lia|]. cbn [egcd_loop]. rewrite Z.eqb_refl. cbn [fst snd].
    rewrite Z.gcd_0_r, Z.abs_eq by lia. auto.
  - destruct fuel as [|fuel]; [lia|]. cbn [egcd_loop].
    destruct (Z.eqb_spec r1 0) as [E|E].
    + subst r1. cbn [fst snd]. rewrite Z.gcd_0_r, Z.abs_eq by lia. auto.
    + rewrite qdiv_spec by lia.
      assert (Hm : 0 <= r0 mod r1 < r1) by (apply Z.mod_pos_bound; lia).
      assert (Hd : r0 = r1 * (r0 / r1) + r0 mod r1) by (apply Z.div_mod; lia).
      assert (Hq : 1 <= r0 / r1) by (apply Z.div_le_lower_bound; lia).
      destruct (IH fuel r1 (r0 mod r1) s1 (s0 - r0 / r1 * s1)) as [G B]; try lia.
      * rewrite Nat2Z.inj_succ, Z.pow_succ_r in Hb by lia. nia.
      * exact H1.
      * replace (r0 mod r1 - (s0 - r0 / r1 * s1) * b)
          with ((r0 - s0 * b) - (r0 / r1) * (r1 - s1 * b)) by lia.
        apply Z.divide_sub_r; [exact H0|apply Z.divide_mul_r; exact H1].
      * split; [|exact B]. rewrite G. rewrite Z.gcd_comm, Z.gcd_mod by lia. apply Z.gcd_comm.
Qed.

Lemma log2_up_bound : forall p, 0 < p -> p <= 2 ^ Z.log2_up p.
Proof.
  intros p Hp. destruct (Z.eq_dec p 1) as [->|Hn]; [cbn; lia|].
  apply Z.log2_up_spec; lia.
Qed.

(* the inverse: for every modulus p > 0 and every b coprime to p *)
Theorem invmod_spec : forall b p, 0 < p -> Z.gcd b p = 1 ->
  (p | invmod b p * b - 1) /\ 0 <= invmod b p < p.
Proof.
  intros b p Hp Hg. unfold invmod. split; [|apply Z.mod_pos_bound; lia].
  assert (Hbm : 0 <= b mod p < p) by (apply Z.mod_pos_bound; lia).
  pose proof (log2_up_bound p Hp) as HL. pose proof (Z.log2_up_nonneg p) as HL0.
  destruct (egcd_loop_spec b p (2 * Z.to_nat (Z.log2_up p)) (egcd_fuel p) p (b mod p) 0 1) as [G B].
  - unfold egcd_fuel; lia.
  - lia.
  - rewrite Nat2Z.inj_mul, Z2Nat.id by lia. change (Z.of_nat 2) with 2.
    replace (2 * Z.log2_up p) with (Z.log2_up p + Z.log2_up p) by lia. rewrite Z.pow_add_r by lia. nia.
  - exists 1; lia.
  - exists (- (b / p)). pose proof (Z.div_mod b p ltac:(lia)). lia.
  - set (g := fst (egcd_loop (egcd_fuel p) p (b mod p) 0 1)) in *.
    set (s := snd (egcd_loop (egcd_fuel p) p (b mod p) 0 1)) in *.
    assert (Hg1 : g = 1).
    { rewrite G. rewrite Z.gcd_comm, Z.gcd_mod by lia. rewrite Z.gcd_comm. exact Hg. }
    rewrite Hg1 in B. destruct B as [k Hk].
    exists (- k - (s / p) * b). pose proof (Z.div_mod s p ltac:(lia)). nia.
Qed.

Lemma invmod_cong : forall b b' p, b mod p = b' mod p -> invmod b p = invmod b' p.
Proof. intros. unfold invmod. rewrite H. reflexivity. Qed.

(* ---------------------------------------------------------------- products and coprimality *)
Definition prodl (l : list Z) : Z := fold_right Z.mul 1 l.

(* pairwise coprime *)
Fixpoint pcop (l : list Z) : Prop :=
  match l with
  | [] => True
  | p :: tl => Forall (fun q => Z.gcd p q = 1) tl /\ pcop tl
  end.

Definition allpos (l : list Z) : Prop := Forall (fun p => 0 < p) l.

Lemma prodl_cons : forall p l, prodl (p :: l) = p * prodl l.
Proof. reflexivity. Qed.

Lemma prodl_app : forall a b, prodl (a ++ b) = prodl a * prodl b.
Proof.
  induction a as [|x a IH]; intros b.
  - change (prodl []) with 1. rewrite Z.mul_1_l. reflexivity.
  - rewrite <- app_comm_cons, !prodl_cons, IH. ring.
Qed.

Lemma prodl_pos : forall l, allpos l -> 0 < prodl l.
Proof. induction 1; [cbn; lia|]. rewrite prodl_cons. nia. Qed.

Lemma prodl_divide : forall l p, In p l -> (p | prodl l).
Proof.
  induction l; intros p H; [destruct H|]. destruct H as [->|H]; rewrite prodl_cons.
  - apply Z.divide_factor_l.
  - apply Z.divide_mul_r. auto.
Qed.

Lemma fold_left_mul : forall l a, fold_left Z.mul l a = a * prodl l.
Proof. induction l; intros; cbn [fold_left]; [cbn; lia|]. rewrite IHl, prodl_cons. ring. Qed.

Lemma gcd_prodl : forall l p, Forall (fun q => Z.gcd q p = 1) l -> Z.gcd (prodl l) p = 1.
Proof.
  induction 1.
  - cbn. apply Z.gcd_1_l.
  - rewrite prodl_cons. apply Zgcd_1_rel_prime. apply rel_prime_sym.
    apply rel_prime_mult; apply rel_prime_sym; apply Zgcd_1_rel_prime; assumption.
Qed.

Lemma gcd_prodl_r : forall l p, Forall (fun q => Z.gcd p q = 1) l -> Z.gcd p (prodl l) = 1.
Proof.
  intros. rewrite Z.gcd_comm. apply gcd_prodl. eapply Forall_impl; [|exact H].
  intros a Ha. cbn beta in *. rewrite Z.gcd_comm. exact Ha.
Qed.

(* if every modulus of a pairwise coprime list divides d, so does the product *)
Lemma prodl_divides : forall l d, pcop l -> Forall (fun p => (p | d)) l -> (prodl l | d).
Proof.
  induction l as [|p l IH]; intros d Hc Hd.
  - cbn. apply Z.divide_1_l.
  - destruct Hc as [Hp Hc]. inversion Hd as [|? ? Hpd Hl]; subst.
    destruct (IH d Hc Hl) as [k Hk]. rewrite prodl_cons.
    assert (Hg : Z.gcd p (prodl l) = 1) by (apply gcd_prodl_r; exact Hp).
    assert (Hpk : (p | k)).
    { apply (Z.gauss p (prodl l) k); [|exact Hg]. rewrite Z.mul_comm, <- Hk. exact Hpd. }
    destruct Hpk as [j Hj]. exists j. subst. ring.
Qed.

(* uniqueness part of the Chinese remainder theorem *)
Theorem crt_unique : forall ps x y, allpos ps -> pcop ps ->
  0 <= x < prodl ps -> 0 <= y < prodl ps ->
  Forall (fun p => x mod p = y mod p) ps -> x = y.
Proof.
  intros ps x y Hpos Hc Hx Hy Hr.
  assert (Hd : (prodl ps | x - y)).
  { apply prodl_divides; [exact Hc|].
    unfold allpos in Hpos. rewrite Forall_forall in *. intros p Hin.
    apply (proj1 (mod_eq_divide p x y (Hpos p Hin))). apply Hr; exact Hin. }
  apply (divide_mod_small (prodl ps)); auto. apply prodl_pos; auto.
Qed.
