(* C14 proofs, part 5: RNSsystem over ModularBalanced residue domains (odd moduli): the same law in the representation
   of the domain - digits and residues of least absolute value, value V with 2|V| <= prod - 1, uniqueness in that range. *)
From Coq Require Import ZArith Znumtheory Bool List Lia Setoid Morphisms.
From C14 Require Import Model ProofsArith ProofsGarner ProofsPoly.
Import ListNotations.
Local Open Scope Z_scope.
Ltac Zify.zify_post_hook ::= Z.div_mod_to_equations.

Lemma bmod_cg : forall p x, cg p (bmod p x) x.
Proof.
  intros p x. unfold bmod. destruct (Z.ltb_spec ((p - 1) / 2) (x mod p)).
  - rewrite <- (cg_mod p x) at 2. exists (-1). lia.
  - apply cg_mod.
Qed.

Definition inr_b (p m : Z) : Prop := 0 < p /\ - (p / 2) <= m <= (p - 1) / 2.

Lemma bmod_range : forall p x, 0 < p -> inr_b p (bmod p x).
Proof.
  intros p x Hp. split; [exact Hp|]. unfold bmod.
  pose proof (Z.mod_pos_bound x p Hp). destruct (Z.ltb_spec ((p - 1) / 2) (x mod p)); lia.
Qed.

Lemma cg_mod_eq : forall p a b, 0 < p -> cg p a b -> a mod p = b mod p.
Proof. intros. apply cg_eq_mod; assumption. Qed.

Lemma horner_bal_spec : forall pi done, 0 < pi -> horner_bal pi done mod pi = mrval (rev done) mod pi.
Proof.
  intros pi [|[p m] tl] Hpi; [reflexivity|]. apply cg_mod_eq; [exact Hpi|].
  cbn [horner_bal rev]. rewrite mrval_app1, prodp_rev. cbn [snd].
  assert (G : forall d acc, cg pi (fold_left (fun tmp pm => bmod pi (tmp * bmod pi (fst pm) + bmod pi (snd pm))) d acc)
                                 (acc * prodp d + mrval (rev d))).
  { induction d as [|pm d IH]; intros acc.
    - cbn [fold_left rev mrval]. change (prodp []) with 1. replace (acc * 1 + 0) with acc by ring. reflexivity.
    - cbn [fold_left rev]. rewrite IH, mrval_app1, prodp_cons, prodp_rev. rewrite !bmod_cg.
      replace ((acc * fst pm + snd pm) * prodp d + mrval (rev d)) with (acc * (fst pm * prodp d) + (mrval (rev d) + prodp d * snd pm)) by ring.
      reflexivity. }
  rewrite G, bmod_cg. replace (m * prodp tl + mrval (rev tl)) with (mrval (rev tl) + prodp tl * m) by ring. reflexivity.
Qed.

Lemma dig_bal_ok : forall pi ri tmp cki V P, 0 < pi -> tmp mod pi = V mod pi -> (pi | cki * P - 1) ->
  inr_b pi (bmod pi (bmod pi (ri - tmp) * cki)) /\ (pi | (V + P * bmod pi (bmod pi (ri - tmp) * cki)) - ri).
Proof.
  intros pi ri tmp cki V P Hpi Ht Hck. split; [apply bmod_range; exact Hpi|].
  apply cg_eq_mod in Ht; [|exact Hpi].
  change (cg pi (V + P * bmod pi (bmod pi (ri - tmp) * cki)) ri).
  rewrite !bmod_cg, Ht.
  assert (E : cg pi (cki * P) 1) by exact Hck.
  replace (V + P * ((ri - V) * cki)) with (V + (ri - V) * (cki * P)) by ring. rewrite E.
  replace (V + (ri - V) * 1) with ri by ring. reflexivity.
Qed.

Lemma mr_loop_bal_gen : forall todo done,
  mr_loop_bal done todo = mr_loop_gen horner_bal (fun pi ri tmp cki => bmod pi (bmod pi (ri - tmp) * cki)) done todo.
Proof. induction todo as [|[[pi ri] cki] tl IH]; intros; cbn [mr_loop_bal mr_loop_gen fst snd]; [reflexivity|apply IH]. Qed.

Lemma ck_prod_bal_ok : forall pk prev, 0 < pk -> ck_prod_bal pk prev mod pk = prodl prev mod pk.
Proof.
  intros pk [|p0 tl] Hpk; [reflexivity|]. apply cg_mod_eq; [exact Hpk|]. cbn [ck_prod_bal]. rewrite prodl_cons.
  assert (G : forall tl acc, cg pk (fold_left (fun prod pi => bmod pk (prod * bmod pk pi)) tl acc) (acc * prodl tl)).
  { induction tl0 as [|a tl0 IH]; intros acc.
    - cbn [fold_left]. change (prodl []) with 1. replace (acc * 1) with acc by ring. reflexivity.
    - cbn [fold_left]. rewrite IH, prodl_cons, !bmod_cg. replace (acc * a * prodl tl0) with (acc * (a * prodl tl0)) by ring. reflexivity. }
  rewrite G, bmod_cg. reflexivity.
Qed.

Lemma ck_loop_bal_length : forall rest prev, length (ck_loop_bal prev rest) = length rest.
Proof. induction rest; intros; cbn [ck_loop_bal length]; [reflexivity|]. rewrite IHrest. reflexivity. Qed.

Lemma ck_loop_bal_ok : forall rest prev rs, allpos rest -> pcop rest ->
  Forall (fun q => Forall (fun p => Z.gcd q p = 1) rest) prev ->
  todo_ok (prodl prev) (todo_of rest rs (ck_loop_bal prev rest)).
Proof.
  induction rest as [|pk tl IH]; intros prev rs Hpos Hc Hprev.
  - destruct rs; exact I.
  - destruct rs as [|r rs]; [exact I|]. cbn [ck_loop_bal]. rewrite todo_of_cons.
    inversion Hpos as [|? ? Hpk Hpos']; subst. destruct Hc as [Hpktl Hc].
    cbn [todo_ok fst snd]. split; [exact Hpk|]. split.
    + rewrite (invmod_cong _ (prodl prev)) by (apply ck_prod_bal_ok; exact Hpk).
      assert (Hg : Z.gcd (prodl prev) pk = 1).
      { apply gcd_prodl. eapply Forall_impl; [|exact Hprev]. intros q Hq. cbn beta in Hq. inversion Hq; subst. assumption. }
      destruct (invmod_spec (prodl prev) pk Hpk Hg) as [Hd _].
      change (cg pk (bmod pk (invmod (prodl prev) pk) * prodl prev) 1). rewrite bmod_cg. exact Hd.
    + replace (pk * prodl prev) with (prodl (prev ++ [pk]))
        by (rewrite prodl_app, prodl_cons; change (prodl []) with 1; ring).
      apply IH; [exact Hpos'|exact Hc|]. apply Forall_app. split.
      * eapply Forall_impl; [|exact Hprev]. intros q Hq. cbn beta in Hq. inversion Hq; subst. assumption.
      * constructor; [exact Hpktl|constructor].
Qed.

(* value range from balanced digits, odd moduli *)
Definition allodd (l : list Z) : Prop := Forall (fun p => Z.odd p = true) l.
Lemma odd_half : forall p, Z.odd p = true -> 0 < p -> p / 2 = (p - 1) / 2 /\ p = 2 * ((p - 1) / 2) + 1.
Proof. intros p Ho Hp. rewrite Zodd_mod in Ho. apply Zeq_bool_eq in Ho. lia. Qed.
Lemma prodl_odd : forall l, allodd l -> Z.odd (prodl l) = true.
Proof. induction 1; [reflexivity|]. rewrite prodl_cons, Z.odd_mul, H, IHForall. reflexivity. Qed.

Lemma bal_range : forall l, Forall (fun pm => inr_b (fst pm) (snd pm)) l -> allodd (map fst l) ->
  2 * Z.abs (mrval l) <= prodp l - 1.
Proof.
  induction l as [|[p m] l IH]; intros Hd Ho.
  - cbn. lia.
  - inversion Hd as [|? ? [Hp Hm] Hd']; subst. cbn [map fst] in Ho. inversion Ho as [|? ? Hop Ho']; subst.
    cbn [fst snd] in *. specialize (IH Hd' Ho'). cbn [mrval fst snd]. rewrite prodp_cons. cbn [fst].
    destruct (odd_half p Hop Hp) as [E1 E2]. rewrite E1 in Hm.
    assert (HT : Z.abs (m + p * mrval l) <= Z.abs m + p * Z.abs (mrval l)).
    { eapply Z.le_trans; [apply Z.abs_triangle|]. rewrite Z.abs_mul, (Z.abs_eq p) by lia. lia. }
    assert (HM : Z.abs m <= (p - 1) / 2) by lia.
    set (a := (p - 1) / 2) in *. set (W := Z.abs (mrval l)) in *. set (Q := prodp l) in *.
    assert (p * (2 * W) <= p * (Q - 1)) by (apply Z.mul_le_mono_nonneg_l; lia).
    rewrite E2 at 2. lia.
Qed.

Definition vr_b (P V : Z) : Prop := True.

(* digits, value and residues, for every list of odd pairwise coprime positive moduli *)
Definition Balanced_stmt : Prop :=
  forall ps rs, ps <> [] -> good_moduli ps -> allodd ps -> length rs = length ps -> inr_b (hd 1 ps) (hd 0 rs) ->
  let mix := RnsToMixedRadix_bal ps (ComputeCk_bal ps) rs in
  let V := MixedRadixToRing ps mix in
  length mix = length ps /\
  Forall2 (fun m p => - (p / 2) <= m <= (p - 1) / 2) mix ps /\      (* balanced digits *)
  2 * Z.abs V <= prodl ps - 1 /\                                       (* value of least absolute value *)
  Forall2 (fun p r => V mod p = r mod p) ps rs /\                      (* with the given residues *)
  (forall x, 2 * Z.abs x <= prodl ps - 1 -> Forall2 (fun p r => x mod p = r mod p) ps rs -> x = V).   (* the only one *)

Lemma Forall2_combine : forall (A B : Type) (R : A -> B -> Prop) a b, Forall2 R a b -> Forall (fun x => R (fst x) (snd x)) (combine a b).
Proof. induction 1; cbn; constructor; assumption. Qed.

Lemma balanced : Balanced_stmt.
Proof.
  intros [|p0 ps] rs Hne Hg Ho Hl Hr0; [congruence|]. destruct rs as [|r0 rs]; [discriminate|].
  cbn [hd] in Hr0. cbn [length] in Hl. intros mix V.
  assert (HG : Garner_postG inr_b vr_b (p0 :: ps) (r0 :: rs) mix).
  { unfold mix, RnsToMixedRadix_bal, ComputeCk_bal. cbn [tl]. rewrite mr_loop_bal_gen.
    destruct Hg as [Hpos Hc]. inversion Hpos as [|? ? Hp0 Hpos']; subst. destruct Hc as [Hc0 Hc].
    apply (garner_whole_g horner_bal _ inr_b vr_b); auto.
    - intros p m [H _]; exact H.
    - intros; exact I.
    - exact horner_bal_spec.
    - exact dig_bal_ok.
    - apply ck_loop_bal_length.
    - replace p0 with (prodl [p0]) at 1 by (cbn; lia). apply ck_loop_bal_ok; auto. }
  destruct HG as (L & D & _ & R). fold V in R.
  assert (HV : 2 * Z.abs V <= prodl (p0 :: ps) - 1).
  { unfold V. rewrite <- (map_fst_combine _ _ (p0 :: ps) mix) at 1 by (symmetry; exact L).
    replace mix with (map snd (combine (p0 :: ps) mix)) at 2.
    2:{ clear - L. revert L. generalize (p0 :: ps) as a. induction mix as [|m mix IH]; intros [|x a] L; try discriminate; [reflexivity|].
        cbn [combine map snd]. f_equal. apply IH. cbn in L. lia. }
    rewrite MixedRadixToRing_spec.
    replace (prodl (p0 :: ps)) with (prodp (combine (p0 :: ps) mix)) by (unfold prodp; rewrite map_fst_combine; [reflexivity|symmetry; exact L]).
    apply bal_range.
    - apply Forall2_combine with (R := fun p m => inr_b p m). clear - D. induction D; constructor; assumption.
    - rewrite map_fst_combine by (symmetry; exact L). exact Ho. }
  repeat split; auto.
  - clear - D. induction D as [|m p mix' ps' [_ H] _ IH]; constructor; assumption.
  - intros x Hx Hxr.
    assert (Hd : (prodl (p0 :: ps) | x - V)).
    { destruct Hg as [Hpos Hc]. apply prodl_divides; [exact Hc|].
      clear - Hxr R Hpos. revert R Hxr Hpos. generalize (p0 :: ps) as a, (r0 :: rs) as b.
      induction a as [|p a IH]; intros b R Hxr Hpos; [constructor|].
      inversion R; inversion Hxr; inversion Hpos; subst. match goal with H : _ :: _ = _ :: _ |- _ => inversion H; subst end.
      constructor; [|eapply IH; eauto]. apply mod_eq_divide; [assumption|congruence]. }
    destruct Hd as [k Hk]. assert (0 < prodl (p0 :: ps)) by (apply prodl_pos; apply Hg). assert (k = 0) by nia. lia.
Qed.

(* ---------------------------------------------------------------- RNSsystemFixed: one node of the product tree *)
(* RnsToRingLeft/Right combine the values u0 (mod p0) and u1 (mod p1) of the two children with the stored entry
   M01 = p0 * (p0^-1 mod p1):  I = (u1 - u0) * M01 + u0  (Left: then reduced mod p0 p1).  The step is exact; the recursion
   over the levels of the tree (fixed_rec) is proved in ProofsFixed.v (fixed_tree_correct). *)
Definition Fixed_pair_stmt : Prop :=
  forall p0 p1 u0 u1, 0 < p0 -> 0 < p1 -> Z.gcd p0 p1 = 1 ->
  let I := (u1 - u0) * (invmod p0 p1 * p0) + u0 in
  (p0 | I - u0) /\ (p1 | I - u1) /\
  0 <= I mod (p0 * p1) < p0 * p1 /\ (p0 | I mod (p0 * p1) - u0) /\ (p1 | I mod (p0 * p1) - u1).
Lemma fixed_pair : Fixed_pair_stmt.
Proof.
  intros p0 p1 u0 u1 H0 H1 Hg I.
  destruct (invmod_spec p0 p1 H1 Hg) as [[k Hk] _].
  assert (A : (p0 | I - u0)) by (exists ((u1 - u0) * invmod p0 p1); unfold I; ring).
  assert (B : (p1 | I - u1)).
  { exists ((u1 - u0) * k). unfold I. replace (invmod p0 p1 * p0) with (1 + k * p1) by lia. ring. }
  assert (P : 0 < p0 * p1) by nia.
  pose proof (Z.div_mod I (p0 * p1) ltac:(lia)) as D.
  repeat split; auto; try apply Z.mod_pos_bound; auto.
  - destruct A as [a Ha]. exists (a - I / (p0 * p1) * p1). nia.
  - destruct B as [b Hb]. exists (b - I / (p0 * p1) * p0). nia.
Qed.

(* the hypotheses of Fixed_pair_stmt and of Balanced_stmt are satisfiable *)
Example fixed_pair_hyps : 0 < 7 /\ 0 < 10 /\ Z.gcd 7 10 = 1.
Proof. repeat split; lia. Qed.
Example balanced_hyps : good_moduli [3; 5; 7] /\ allodd [3; 5; 7] /\ inr_b 3 1 /\ RnsToRing_bal [3; 5; 7] [1; 2; 3] = 52.
Proof.
  split; [split; repeat constructor; try lia; reflexivity|]. split; [repeat constructor|].
  split; [unfold inr_b; cbn; lia|vm_compute; reflexivity].
Qed.
