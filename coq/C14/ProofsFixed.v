(* C14 proofs, part 6: RNSsystemFixed - the recursion RnsToRingLeft / RnsToRingRight over the stored product tree, for
   EVERY number of primes.  The index-based model (fixed_rec over build_tree, as the C++ walks _primes[level][col]) is
   shown equal to a structural computation over lists of nodes; every node carries the primes/residues below it, its
   true product, and the two values the code computes for it (Left: reduced, Right: unreduced).  Invariants of the
   nodes (node_ok) are preserved by the pairing step (fixed_pair, ProofsBalanced.v); the nodes handed to the inner
   "unbalanced recovery" RNSsystem (the last entry of every level of odd size) partition the primes, so that the inner
   Garner conversion (garner_dom) returns THE integer of [0, prod) with the given residues. *)
From Coq Require Import ZArith Znumtheory Bool List Lia Permutation.
From C14 Require Import Model ProofsArith ProofsGarner ProofsSystem ProofsBalanced.
Import ListNotations.
Local Open Scope Z_scope.
Ltac Zify.zify_post_hook ::= Z.div_mod_to_equations.

(* ---------------------------------------------------------------- two-step list induction *)
Lemma list_ind2 : forall (A : Type) (P : list A -> Prop),
  P [] -> (forall a, P [a]) -> (forall a b l, P l -> P (a :: b :: l)) -> forall l, P l.
Proof.
  intros A P H0 H1 H2. fix IH 1. intros [|a [|b l]]; [exact H0|apply H1|apply H2, IH].
Qed.

(* ---------------------------------------------------------------- the stored level: snd (pair_level l) *)
Lemma pair_level_cons2 : forall p0 p1 tl, pair_level (p0 :: p1 :: tl) =
  (p0 * p1 :: fst (pair_level tl), p0 :: invmod p0 p1 * p0 :: snd (pair_level tl)).
Proof. intros. cbn [pair_level]. destruct (pair_level tl). reflexivity. Qed.

Definition stored (l : list Z) : list Z := snd (pair_level l).

Lemma stored_length : forall l, length (stored l) = length l.
Proof.
  unfold stored. induction l as [| a | a b l IH] using list_ind2; [reflexivity|reflexivity|].
  rewrite pair_level_cons2. cbn [snd length]. rewrite IH. reflexivity.
Qed.

Lemma stored_even : forall l i, nth (2 * i) (stored l) 0 = nth (2 * i) l 0.
Proof.
  unfold stored. induction l as [| a | a b l IH] using list_ind2; intros i; [reflexivity|reflexivity|].
  rewrite pair_level_cons2. cbn [snd]. destruct i as [|i]; [reflexivity|].
  replace (2 * S i)%nat with (S (S (2 * i))) by lia. cbn [nth]. apply IH.
Qed.

Lemma stored_odd : forall l i, (2 * i + 1 < length l)%nat ->
  nth (2 * i + 1) (stored l) 0 = invmod (nth (2 * i) l 0) (nth (2 * i + 1) l 0) * nth (2 * i) l 0.
Proof.
  unfold stored. induction l as [| a | a b l IH] using list_ind2; intros i Hi; [cbn in Hi; lia|cbn in Hi; lia|].
  rewrite pair_level_cons2. cbn [snd]. destruct i as [|i]; [reflexivity|].
  replace (2 * S i + 1)%nat with (S (S (2 * i + 1))) by lia.
  replace (2 * S i)%nat with (S (S (2 * i))) by lia. cbn [nth]. apply IH. cbn [length] in Hi. lia.
Qed.

(* ---------------------------------------------------------------- nodes *)
(* nP: the true product of the primes below the node; npr: these primes with their residues, in order;
   nL / nR: what RnsToRingLeft / RnsToRingRight return for the node *)
Record node := mkN { nP : Z; npr : list (Z * Z); nL : Z; nR : Z }.
Definition dn : node := mkN 0 [] 0 0.
(* lr: RnsToRingLeft reduces the residue of a left leaf (read from the source) *)
Definition leaf (lr : bool) (pr : Z * Z) : node := mkN (fst pr) [pr] (if lr then snd pr mod fst pr else snd pr) (snd pr).
Definition join (a b : node) : node :=
  let I := (nR b - nL a) * (invmod (nP a) (nP b) * nP a) + nL a in
  mkN (nP a * nP b) (npr a ++ npr b) (I mod (nP a * nP b)) I.
Fixpoint pair_nodes (l : list node) : list node :=
  match l with a :: b :: tl => join a b :: pair_nodes tl | _ => [] end.
Fixpoint node_levels (fuel : nat) (l : list node) : list (list node) :=
  match fuel with
  | O => []
  | S f => match l with [] => [] | _ => l :: node_levels f (pair_nodes l) end
  end.

Lemma pair_level_nodes : forall l, fst (pair_level (map nP l)) = map nP (pair_nodes l).
Proof.
  induction l as [| a | a b l IH] using list_ind2; [reflexivity|reflexivity|].
  cbn [map pair_nodes]. rewrite pair_level_cons2. cbn [fst]. rewrite IH. reflexivity.
Qed.

Definition F (lv : list node) : list Z := stored (map nP lv).

Lemma build_tree_nodes : forall fuel l, build_tree fuel (map nP l) = map F (node_levels fuel l).
Proof.
  induction fuel as [|f IH]; intros l; [reflexivity|].
  destruct l as [|a l]; [reflexivity|].
  cbn [build_tree node_levels]. cbn [map].
  change (nP a :: map nP l) with (map nP (a :: l)).
  assert (E1 := pair_level_nodes (a :: l)). unfold F at 1, stored.
  destruct (pair_level (map nP (a :: l))) as [nx cur]. cbn [fst snd] in *. rewrite E1, IH. reflexivity.
Qed.

Lemma pair_nodes_length : forall l,
  (2 * length (pair_nodes l) <= length l /\ length l <= 2 * length (pair_nodes l) + 1)%nat.
Proof.
  induction l as [| a | a b l IH] using list_ind2; cbn [pair_nodes length]; lia.
Qed.

Lemma pair_nodes_nth : forall l j, (j < length (pair_nodes l))%nat ->
  nth j (pair_nodes l) dn = join (nth (2 * j) l dn) (nth (2 * j + 1) l dn) /\ (2 * j + 1 < length l)%nat.
Proof.
  induction l as [| a | a b l IH] using list_ind2; intros j Hj; [cbn in Hj; lia|cbn in Hj; lia|].
  cbn [pair_nodes length] in *. destruct j as [|j]; [split; [reflexivity|lia]|].
  replace (2 * S j + 1)%nat with (S (S (2 * j + 1))) by lia.
  replace (2 * S j)%nat with (S (S (2 * j))) by lia. cbn [nth].
  destruct (IH j ltac:(lia)) as [E L]. split; [exact E|lia].
Qed.

Lemma node_levels_0 : forall fuel l, (0 < fuel)%nat -> nth 0 (node_levels fuel l) [] = l.
Proof. intros [|f] l H; [lia|]. destruct l; reflexivity. Qed.

Lemma node_levels_S : forall k fuel l,
  nth (S k) (node_levels fuel l) [] = [] \/
  nth (S k) (node_levels fuel l) [] = pair_nodes (nth k (node_levels fuel l) []).
Proof.
  induction k as [|k IH]; intros fuel l.
  - destruct fuel as [|f]; [left; reflexivity|]. destruct l as [|a l]; [left; reflexivity|].
    cbn [node_levels nth]. destruct f as [|f]; [left; reflexivity|].
    cbn [node_levels]. destruct (pair_nodes (a :: l)) eqn:E; [left; reflexivity|right; reflexivity].
  - destruct fuel as [|f]; [left; reflexivity|]. destruct l as [|a l]; [left; reflexivity|].
    cbn [node_levels]. change (nth (S (S k)) (?x :: ?r) []) with (nth (S k) r []).
    change (nth (S k) ((a :: l) :: ?r) []) with (nth k r []). apply IH.
Qed.

(* ---------------------------------------------------------------- the index-based recursion computes nL / nR *)
Section Rec.
  Variable lr : bool.
  Variable prs : list (Z * Z).
  Variable fuel : nat.
  Hypothesis fuel_pos : (0 < fuel)%nat.
  Let leaves := map (leaf lr) prs.
  Let levels := node_levels fuel leaves.
  Let t := map F levels.
  Let res := map snd prs.

  Lemma nth_t : forall k, nth k t [] = F (nth k levels []).
  Proof. intros k. unfold t. change (@nil Z) with (F []). apply map_nth. Qed.

  Lemma nth_nP : forall (lv : list node) i, nth i (map nP lv) 0 = nP (nth i lv dn).
  Proof. intros. change 0 with (nP dn). apply map_nth. Qed.

  Lemma tree_at_0_even : forall i, tree_at t 0 (2 * i) = fst (nth (2 * i) prs (0, 0)).
  Proof.
    intros i. unfold tree_at. rewrite nth_t. unfold levels. rewrite node_levels_0 by exact fuel_pos.
    unfold F. rewrite stored_even. unfold leaves. rewrite map_map. cbn [leaf nP].
    pose proof (map_nth fst prs (0, 0) (2 * i)) as M. cbn [fst] in M. exact M.
  Qed.

  Lemma rec_nodes : forall k j, (j < length (nth k levels []))%nat ->
    (Nat.even j = true -> fixed_rec lr t res true k j = nL (nth j (nth k levels []) dn)) /\
    fixed_rec lr t res false k j = nR (nth j (nth k levels []) dn).
  Proof.
    induction k as [|k IH]; intros j Hj.
    - pose proof (tree_at_0_even) as T0.
      unfold levels in *. rewrite node_levels_0 in * by exact fuel_pos. cbn [fixed_rec].
      unfold leaves in *. rewrite map_length in Hj.
      rewrite (nth_indep _ dn (leaf lr (0, 0))) by (rewrite map_length; exact Hj).
      rewrite map_nth. cbn [leaf nL nR]. unfold res. pose proof (map_nth snd prs (0, 0) j) as M. cbn [snd] in M.
      rewrite M. split; [|reflexivity].
      intros Hev. apply Nat.even_spec in Hev. destruct Hev as [i Hi]. rewrite Hi, T0, <- Hi.
      cbn [andb]. destruct lr; reflexivity.
    - destruct (node_levels_S k fuel leaves) as [E|E]; fold levels in E.
      + rewrite E in Hj. cbn in Hj. lia.
      + rewrite E in *. set (lv := nth k levels []) in *.
        destruct (pair_nodes_nth lv j Hj) as [EJ L]. rewrite EJ.
        destruct (IH (2 * j)%nat ltac:(lia)) as [IL _].
        destruct (IH (2 * j + 1)%nat L) as [_ IR].
        assert (Ev : Nat.even (2 * j) = true) by (apply Nat.even_spec; exists j; reflexivity).
        specialize (IL Ev). fold lv in IL, IR.
        assert (T1 : tree_at t k (2 * j + 1) =
                     invmod (nP (nth (2 * j) lv dn)) (nP (nth (2 * j + 1) lv dn)) * nP (nth (2 * j) lv dn)).
        { unfold tree_at. rewrite nth_t. fold lv. unfold F. rewrite stored_odd by (rewrite map_length; exact L).
          rewrite !nth_nP. reflexivity. }
        cbn [fixed_rec]. rewrite IL, IR, T1. split; [|reflexivity].
        intros Hev. apply Nat.even_spec in Hev. destruct Hev as [i Hi].
        assert (T2 : tree_at t (S k) j = nP (nth (2 * j) lv dn) * nP (nth (2 * j + 1) lv dn)).
        { unfold tree_at. rewrite nth_t, E. unfold F. rewrite Hi, stored_even, <- Hi, nth_nP, EJ. reflexivity. }
        rewrite T2. reflexivity.
  Qed.

  (* the last entry of every level of odd size, lowest level first: what the constructor hands to _RNS and what
     RnsToRing reconstructs into Reds *)
  Definition odd_tail (lv : list node) : list node :=
    if Nat.odd (length lv) then [nth (length lv - 1) lv dn] else [].
  Definition odd_last (lvs : list (list node)) : list node := flat_map odd_tail lvs.

  Lemma skipn_cons_nth : forall (A : Type) n (l : list A) x r d, skipn n l = x :: r -> nth n l d = x /\ skipn (S n) l = r.
  Proof.
    induction n as [|n IH]; intros l x r d H.
    - destruct l; [discriminate|]. cbn in H. inversion H. split; reflexivity.
    - destruct l as [|y l]; [discriminate|]. cbn [skipn] in H. cbn [nth]. destruct (IH l x r d H) as [A1 A2].
      split; [exact A1|]. exact A2.
  Qed.

  Lemma odd_levels_nodes : forall sfx base, skipn base levels = sfx ->
    map (fun lc => tree_at t (fst lc) (snd lc)) (fixed_odd_levels (map F sfx) base) = map nP (odd_last sfx) /\
    map (fun lc => fixed_rec lr t res true (fst lc) (snd lc)) (fixed_odd_levels (map F sfx) base) = map nL (odd_last sfx).
  Proof.
    induction sfx as [|lv sfx IH]; intros base Hs; [split; reflexivity|].
    destruct (skipn_cons_nth _ _ _ _ _ [] Hs) as [Hn Hs'].
    destruct (IH (S base) Hs') as [I1 I2].
    cbn [map fixed_odd_levels]. unfold odd_last. cbn [flat_map]. fold (odd_last sfx).
    assert (LF : length (F lv) = length lv) by (unfold F; rewrite stored_length, map_length; reflexivity).
    rewrite !LF. unfold odd_tail.
    destruct (Nat.odd (length lv)) eqn:Ho; [|split; [exact I1|exact I2]].
    apply Nat.odd_spec in Ho. destruct Ho as [i Hi].
    cbn [map app fst snd]. rewrite I1, I2.
    replace (length lv - 1)%nat with (2 * i)%nat by lia. split; f_equal.
    - unfold tree_at. rewrite nth_t, Hn. unfold F. rewrite stored_even, nth_nP. reflexivity.
    - destruct (rec_nodes base (2 * i)%nat) as [RL _]; [rewrite Hn; lia|].
      rewrite RL by (apply Nat.even_spec; exists i; reflexivity). rewrite Hn. reflexivity.
  Qed.
End Rec.

(* ---------------------------------------------------------------- pairwise coprimality: lists, blocks, permutations *)
Lemma pcop_app : forall x y, pcop (x ++ y) <->
  pcop x /\ pcop y /\ Forall (fun p => Forall (fun q => Z.gcd p q = 1) y) x.
Proof.
  induction x as [|a x IH]; intros y.
  - cbn [app pcop]. split; [intros H; repeat split; auto|intros (_ & H & _); exact H].
  - cbn [app pcop]. rewrite Forall_app, IH. split.
    + intros ((A1 & A2) & B1 & B2 & B3). repeat split; auto.
    + intros ((A1 & B1) & B2 & B3). inversion B3; subst. repeat split; auto.
Qed.

Lemma gcd_prodl_prodl : forall x y, Forall (fun p => Forall (fun q => Z.gcd p q = 1) y) x ->
  Z.gcd (prodl x) (prodl y) = 1.
Proof.
  intros x y H. apply gcd_prodl. eapply Forall_impl; [|exact H]. intros p Hp. cbn beta in *.
  apply gcd_prodl_r. exact Hp.
Qed.

Lemma pcop_perm : forall l l', Permutation l l' -> pcop l -> pcop l'.
Proof.
  induction 1 as [|a l l' HP IH|a b l|l l' l'' _ IH1 _ IH2]; intros H.
  - exact H.
  - destruct H as [H1 H2]. split; [eapply Permutation_Forall; eassumption|apply IH; exact H2].
  - destruct H as [H1 [H2 H3]]. inversion H1; subst. cbn [pcop]. repeat split; auto.
    constructor; [rewrite Z.gcd_comm; assumption|assumption].
  - apply IH2, IH1, H.
Qed.

Lemma prodl_perm : forall l l', Permutation l l' -> prodl l = prodl l'.
Proof.
  induction 1; [reflexivity|rewrite !prodl_cons; congruence|rewrite !prodl_cons; ring|congruence].
Qed.

Lemma prodl_concat : forall bl, prodl (concat bl) = prodl (map prodl bl).
Proof.
  induction bl as [|b bl IH]; [reflexivity|]. cbn [concat map]. rewrite prodl_app, prodl_cons, IH. reflexivity.
Qed.

Lemma pcop_concat_prod : forall bl, pcop (concat bl) -> pcop (map prodl bl).
Proof.
  induction bl as [|b bl IH]; intros H; [exact I|].
  cbn [concat map pcop] in *. apply pcop_app in H. destruct H as (Hb & Hr & Hx). split; [|apply IH; exact Hr].
  apply Forall_forall. intros q Hq. apply in_map_iff in Hq. destruct Hq as [c [<- Hc]].
  apply gcd_prodl_prodl. eapply Forall_impl; [|exact Hx]. intros p Hp. cbn beta in *.
  rewrite Forall_forall in *. intros z Hz. apply Hp. apply in_concat. exists c. split; assumption.
Qed.

(* ---------------------------------------------------------------- invariants of the nodes *)
Definition node_ok (n : node) : Prop :=
  nP n = prodp (npr n) /\ Forall (fun pr => 0 < fst pr) (npr n) /\ 0 <= nL n < nP n /\
  Forall (fun pr => nL n mod fst pr = snd pr mod fst pr) (npr n) /\
  Forall (fun pr => nR n mod fst pr = snd pr mod fst pr) (npr n).

Lemma leaf_ok : forall lr pr, (lr = true /\ 0 < fst pr) \/ 0 <= snd pr < fst pr -> node_ok (leaf lr pr).
Proof.
  intros lr [p r] H. cbn [fst snd] in H. unfold node_ok, leaf. cbn [nP npr nL nR fst snd].
  assert (Hp : 0 < p) by (destruct H as [[_ H]|H]; lia).
  split; [unfold prodp; cbn; lia|]. split; [constructor; [cbn [fst]; exact Hp|constructor]|].
  split; [|split].
  - destruct lr; [apply Z.mod_pos_bound; exact Hp|]. destruct H as [[H _]|H]; [discriminate|exact H].
  - constructor; [|constructor]. cbn [fst snd]. destruct lr; [apply Z.mod_mod; lia|reflexivity].
  - constructor; [reflexivity|constructor].
Qed.

Lemma prodp_app : forall a b, prodp (a ++ b) = prodp a * prodp b.
Proof. intros. unfold prodp. rewrite map_app, prodl_app. reflexivity. Qed.

Lemma mod_of_divide : forall p P x y, 0 < p -> (p | P) -> (P | x - y) -> x mod p = y mod p.
Proof. intros p P x y Hp H1 H2. apply mod_eq_divide; [exact Hp|]. eapply Z.divide_trans; eassumption. Qed.

Lemma join_ok : forall a b, node_ok a -> node_ok b -> Z.gcd (nP a) (nP b) = 1 -> node_ok (join a b).
Proof.
  intros a b (Pa & Posa & La & CLa & CRa) (Pb & Posb & Lb & CLb & CRb) Hg.
  assert (Ha : 0 < nP a) by lia. assert (Hb : 0 < nP b) by lia.
  destruct (fixed_pair (nP a) (nP b) (nL a) (nR b) Ha Hb Hg) as (D0 & D1 & Rg & E0 & E1).
  set (I := (nR b - nL a) * (invmod (nP a) (nP b) * nP a) + nL a) in *.
  assert (DivA : Forall (fun pr => (fst pr | nP a)) (npr a)).
  { rewrite Pa. apply Forall_forall. intros pr Hin. apply prodl_divide. apply in_map. exact Hin. }
  assert (DivB : Forall (fun pr => (fst pr | nP b)) (npr b)).
  { rewrite Pb. apply Forall_forall. intros pr Hin. apply prodl_divide. apply in_map. exact Hin. }
  unfold node_ok, join. fold I. cbn [nP npr nL nR]. repeat split.
  - rewrite prodp_app. congruence.
  - apply Forall_app. split; assumption.
  - apply Rg.
  - apply Rg.
  - apply Forall_app. split; rewrite Forall_forall in *; intros pr Hin.
    + rewrite (mod_of_divide (fst pr) (nP a) (I mod (nP a * nP b)) (nL a)); auto.
    + rewrite (mod_of_divide (fst pr) (nP b) (I mod (nP a * nP b)) (nR b)); auto.
  - apply Forall_app. split; rewrite Forall_forall in *; intros pr Hin.
    + rewrite (mod_of_divide (fst pr) (nP a) I (nL a)); auto.
    + rewrite (mod_of_divide (fst pr) (nP b) I (nR b)); auto.
Qed.

Definition flat (lv : list node) : list (Z * Z) := concat (map npr lv).
Definition level_ok (lv : list node) : Prop := Forall node_ok lv /\ pcop (map fst (flat lv)).

Lemma flat_cons : forall a lv, flat (a :: lv) = npr a ++ flat lv.
Proof. reflexivity. Qed.
Lemma flat_app : forall x y, flat (x ++ y) = flat x ++ flat y.
Proof. intros. unfold flat. rewrite map_app, concat_app. reflexivity. Qed.

Lemma split_level : forall lv, flat lv = flat (pair_nodes lv) ++ flat (odd_tail lv).
Proof.
  induction lv as [| a | a b l IH] using list_ind2.
  - reflexivity.
  - unfold odd_tail. cbn. rewrite !app_nil_r. reflexivity.
  - cbn [pair_nodes]. rewrite !flat_cons, IH. cbn [join npr]. rewrite <- !app_assoc. do 3 f_equal.
    unfold odd_tail. cbn [length]. change (Nat.odd (S (S (length l)))) with (Nat.odd (length l)).
    destruct (Nat.odd (length l)) eqn:Ho; [|reflexivity].
    destruct l as [|c l]; [discriminate Ho|]. cbn [length].
    replace (S (S (S (length l))) - 1)%nat with (S (S (length l))) by lia.
    replace (S (length l) - 1)%nat with (length l) by lia. reflexivity.
Qed.

Lemma nP_prodl : forall n, node_ok n -> nP n = prodl (map fst (npr n)).
Proof. intros n H. apply H. Qed.

Lemma pair_nodes_ok : forall lv, level_ok lv -> level_ok (pair_nodes lv).
Proof.
  intros lv [Hn Hc]. split.
  - revert Hn Hc. induction lv as [| a | a b l IH] using list_ind2; intros Hn Hc; [constructor|constructor|].
    cbn [pair_nodes]. inversion Hn as [|? ? Ha Hn']; subst. inversion Hn' as [|? ? Hb Hl]; subst.
    rewrite !flat_cons, !map_app in Hc. apply pcop_app in Hc. destruct Hc as (_ & Hc & Hx).
    constructor.
    + apply join_ok; auto. rewrite (nP_prodl a Ha), (nP_prodl b Hb). apply gcd_prodl_prodl.
      eapply Forall_impl; [|exact Hx]. intros p Hp. cbn beta in Hp. apply Forall_app in Hp. apply Hp.
    + apply IH; [exact Hl|]. apply pcop_app in Hc. apply Hc.
  - rewrite split_level, map_app in Hc. apply pcop_app in Hc. apply Hc.
Qed.

Lemma node_levels_ok : forall fuel lv, level_ok lv -> Forall level_ok (node_levels fuel lv).
Proof.
  induction fuel as [|f IH]; intros lv H; [constructor|]. cbn [node_levels].
  destruct lv as [|a lv]; [constructor|]. constructor; [exact H|]. apply IH. apply pair_nodes_ok. exact H.
Qed.

Lemma odd_last_cons : forall lv lvs, odd_last (lv :: lvs) = odd_tail lv ++ odd_last lvs.
Proof. reflexivity. Qed.

Lemma odd_tail_in : forall lv n, In n (odd_tail lv) -> In n lv.
Proof.
  intros lv n. unfold odd_tail. destruct (Nat.odd (length lv)) eqn:Ho; [|intros []].
  intros [<-|[]]. apply nth_In. destruct lv; [discriminate Ho|]. cbn [length]. lia.
Qed.

Lemma odd_last_ok : forall lvs, Forall level_ok lvs -> Forall node_ok (odd_last lvs).
Proof.
  induction 1 as [|lv lvs [Hlv _] _ IH]; [constructor|]. rewrite odd_last_cons. apply Forall_app. split; [|exact IH].
  apply Forall_forall. intros n Hn. rewrite Forall_forall in Hlv. apply Hlv. apply odd_tail_in. exact Hn.
Qed.

(* the nodes handed to the inner system partition the primes (with their residues) *)
Lemma levels_perm : forall fuel lv, (length lv <= fuel)%nat ->
  Permutation (flat lv) (flat (odd_last (node_levels fuel lv))).
Proof.
  induction fuel as [|f IH]; intros lv Hl.
  - destruct lv; [constructor|cbn in Hl; lia].
  - destruct lv as [|a lv]; [constructor|]. cbn [node_levels]. rewrite odd_last_cons, flat_app.
    rewrite (split_level (a :: lv)).
    eapply perm_trans; [apply Permutation_app_comm|]. apply Permutation_app_head. apply IH.
    pose proof (pair_nodes_length (a :: lv)). lia.
Qed.

(* ---------------------------------------------------------------- the whole conversion *)
Lemma flat_leaves : forall lr prs, flat (map (leaf lr) prs) = prs.
Proof. intros lr. induction prs as [|pr prs IH]; [reflexivity|]. cbn [map]. rewrite flat_cons, IH. reflexivity. Qed.

Lemma map_snd_combine : forall (A B : Type) (a : list A) (b : list B),
  length a = length b -> map snd (combine a b) = b.
Proof. induction a; destruct b; intros H; try discriminate; cbn; [reflexivity|]. f_equal. apply IHa. cbn in H. lia. Qed.

Definition Enodes (lr : bool) (prs : list (Z * Z)) : list node := odd_last (node_levels (length prs) (map (leaf lr) prs)).

Lemma Enodes_perm : forall lr prs, Permutation prs (flat (Enodes lr prs)).
Proof.
  intros lr prs. rewrite <- (flat_leaves lr prs) at 1. apply levels_perm. rewrite map_length. lia.
Qed.

Lemma Enodes_nonempty : forall lr prs, prs <> [] -> Enodes lr prs <> [].
Proof.
  intros lr prs Hne E0. pose proof (Enodes_perm lr prs) as Hp. rewrite E0 in Hp.
  apply Permutation_sym, Permutation_nil in Hp. contradiction.
Qed.

Lemma fixed_as_nodes : forall lr prs, prs <> [] ->
  fixed_RnsToRing lr (map fst prs) (map snd prs) =
  Some (RnsToRing_dom (map nP (Enodes lr prs)) (map nL (Enodes lr prs))).
Proof.
  intros lr prs Hne. set (E := Enodes lr prs).
  assert (Hf : (0 < length prs)%nat) by (destruct prs; [congruence|cbn; lia]).
  assert (H : map fst prs = map nP (map (leaf lr) prs)) by (rewrite map_map; reflexivity).
  unfold fixed_RnsToRing, fixed_tree, fixed_mods, fixed_reds.
  assert (Hn1 : map fst prs <> []) by (destruct prs; [congruence|discriminate]).
  assert (Hn2 : length (map snd prs) = length (map fst prs)) by (rewrite !map_length; reflexivity).
  rewrite (enough_same_length (map fst prs) (map snd prs) Hn1 Hn2).
  rewrite map_length. rewrite H, build_tree_nodes.
  destruct (odd_levels_nodes lr prs (length prs) Hf _ 0%nat eq_refl) as [O1 O2].
  cbn [skipn] in O1, O2. rewrite O1, O2. fold (Enodes lr prs). fold E.
  destruct (dom_mk_wf (map nP E)) as [W P].
  destruct (dom_RnsToRing_spec (dom_mk (map nP E)) (map nL E) W) as (_ & _ & R). rewrite R, P.
  rewrite enough_same_length; [reflexivity| |rewrite !map_length; reflexivity].
  intro E0. apply map_eq_nil in E0. exact (Enodes_nonempty lr prs Hne E0).
Qed.

Lemma Forall2_maps : forall (A : Type) (R : Z -> Z -> Prop) (f g : A -> Z) l,
  Forall2 R (map f l) (map g l) -> Forall (fun x => R (f x) (g x)) l.
Proof. induction l; intros H; cbn [map] in H; inversion H; subst; constructor; auto. Qed.

(* the common core: for either body, as soon as the leaves satisfy the node invariant *)
Lemma fixed_tree_general : forall lr prs, prs <> [] -> good_moduli (map fst prs) ->
  Forall (fun pr => (lr = true /\ 0 < fst pr) \/ 0 <= snd pr < fst pr) prs ->
  exists V, fixed_RnsToRing lr (map fst prs) (map snd prs) = Some V /\
  0 <= V < prodl (map fst prs) /\ Forall (fun pr => V mod fst pr = snd pr mod fst pr) prs.
Proof.
  intros lr prs Hprs [Hpos Hcop] Hleaf.
  rewrite (fixed_as_nodes lr prs Hprs). set (E := Enodes lr prs) in *.
  exists (RnsToRing_dom (map nP E) (map nL E)). split; [reflexivity|]. set (V := RnsToRing_dom (map nP E) (map nL E)).
  set (primes := map fst prs) in *.
  assert (Hleaves : level_ok (map (leaf lr) prs)).
  { split.
    - apply Forall_forall. intros n Hn. apply in_map_iff in Hn. destruct Hn as [pr [<- Hin]].
      apply leaf_ok. rewrite Forall_forall in Hleaf. apply Hleaf. exact Hin.
    - rewrite flat_leaves. exact Hcop. }
  assert (HE : Forall node_ok E) by (apply odd_last_ok, node_levels_ok, Hleaves).
  pose proof (Enodes_perm lr prs) as Hperm. fold E in Hperm.
  assert (Hblocks : map nP E = map prodl (map (fun n => map fst (npr n)) E)).
  { rewrite map_map. apply map_ext_in. intros n Hn. rewrite Forall_forall in HE. apply nP_prodl, HE, Hn. }
  assert (Hflat : map fst (flat E) = concat (map (fun n => map fst (npr n)) E)).
  { unfold flat. rewrite concat_map, map_map. reflexivity. }
  assert (Hpermf : Permutation primes (map fst (flat E))) by (apply Permutation_map; exact Hperm).
  assert (HEne : E <> []) by (apply Enodes_nonempty; exact Hprs).
  assert (Hgood : good_moduli (map nP E)).
  { split.
    - apply Forall_forall. intros q Hq. apply in_map_iff in Hq. destruct Hq as [n [<- Hn]].
      rewrite Forall_forall in HE. destruct (HE n Hn) as (_ & _ & L & _). lia.
    - rewrite Hblocks. apply pcop_concat_prod. rewrite <- Hflat. eapply pcop_perm; [exact Hpermf|exact Hcop]. }
  assert (Hprod : prodl (map nP E) = prodl primes).
  { rewrite Hblocks, <- prodl_concat, <- Hflat. symmetry. apply prodl_perm. exact Hpermf. }
  assert (Hhd : 0 <= hd 0 (map nL E) < hd 1 (map nP E)).
  { destruct E as [|e E']; [congruence|]. cbn [map hd]. inversion HE as [|? ? Hn0 _]. apply Hn0. }
  destruct (garner_dom (map nP E) (map nL E)) as (_ & _ & Hrange & Hres).
  - intro E0. apply map_eq_nil in E0. contradiction.
  - exact Hgood.
  - rewrite !map_length. reflexivity.
  - exact Hhd.
  - fold (RnsToRing_dom (map nP E) (map nL E)) in Hrange, Hres. fold V in Hrange, Hres.
    rewrite Hprod in Hrange. split; [exact Hrange|].
    assert (Hnodes : Forall (fun n => V mod nP n = nL n mod nP n) E) by (apply Forall2_maps in Hres; exact Hres).
    apply Forall_forall. intros pr Hin.
    assert (Hin' : In pr (flat E)) by (eapply Permutation_in; eassumption).
    unfold flat in Hin'. apply in_concat in Hin'. destruct Hin' as [blk [Hb Hpr]].
    apply in_map_iff in Hb. destruct Hb as [n [<- Hn]].
    rewrite Forall_forall in HE, Hnodes.
    destruct (HE n Hn) as (Pn & Posn & Ln & CLn & _). specialize (Hnodes n Hn).
    rewrite Forall_forall in CLn, Posn. specialize (CLn pr Hpr). specialize (Posn pr Hpr).
    assert (Hd : (fst pr | nP n)) by (rewrite Pn; apply prodl_divide, in_map, Hpr).
    rewrite (Zmod_div_mod (fst pr) (nP n) V Posn ltac:(lia) Hd), Hnodes.
    rewrite <- (Zmod_div_mod (fst pr) (nP n) (nL n) Posn ltac:(lia) Hd). exact CLn.
Qed.

(* the body before the repair (a left leaf returns the residue as it comes): canonical residues *)
Definition Fixed_tree_stmt : Prop :=
  forall primes res, primes <> [] -> good_moduli primes -> canonical res primes ->
  exists V, fixed_RnsToRing false primes res = Some V /\
  0 <= V < prodl primes /\ RingToRns primes V = res /\
  forall x, 0 <= x < prodl primes -> RingToRns primes x = res -> x = V.
(* the repaired body (a left leaf is reduced): ANY representatives as residues *)
Definition Fixed_tree_any_stmt (lr : bool) : Prop :=
  forall primes res, primes <> [] -> good_moduli primes -> length res = length primes ->
  exists V, fixed_RnsToRing lr primes res = Some V /\
  0 <= V < prodl primes /\ Forall2 (fun p r => V mod p = r mod p) primes res /\
  forall x, 0 <= x < prodl primes -> Forall2 (fun p r => x mod p = r mod p) primes res -> x = V.

Lemma canonical_combine : forall res primes, canonical res primes ->
  Forall (fun pr => 0 <= snd pr < fst pr) (combine primes res).
Proof. induction 1; cbn [combine]; constructor; auto. Qed.

Lemma residues_from_pairs : forall V primes res, length res = length primes ->
  Forall (fun pr => V mod fst pr = snd pr) (combine primes res) -> RingToRns primes V = res.
Proof.
  intros V. induction primes as [|p ps IH]; intros [|r rs] Hl H; try discriminate; [reflexivity|].
  cbn [combine] in H. inversion H; subst. cbn [RingToRns map fst snd] in *. f_equal; [assumption|].
  apply IH; [cbn in Hl; lia|assumption].
Qed.

Lemma pairs_setup : forall (primes res : list Z), primes <> [] -> length res = length primes ->
  let prs := combine primes res in map fst prs = primes /\ map snd prs = res /\ prs <> [].
Proof.
  intros primes res Hne Hl prs.
  assert (E1 : map fst prs = primes) by (apply map_fst_combine; symmetry; exact Hl).
  split; [exact E1|]. split; [apply map_snd_combine; symmetry; exact Hl|].
  intro E. rewrite E in E1. cbn in E1. congruence.
Qed.

Theorem fixed_tree_correct : Fixed_tree_stmt.
Proof.
  intros primes res Hne Hg Hcan.
  pose proof (canonical_length _ _ Hcan) as Hlen.
  destruct (pairs_setup primes res Hne Hlen) as (Efst & Esnd & Hprs). set (prs := combine primes res) in *.
  assert (Hcanp : Forall (fun pr => 0 <= snd pr < fst pr) prs) by (apply canonical_combine; exact Hcan).
  destruct (fixed_tree_general false prs Hprs) as (V & EV & Hr & Hc).
  - rewrite Efst. exact Hg.
  - eapply Forall_impl; [|exact Hcanp]. intros pr H. right. exact H.
  - rewrite Efst, Esnd in EV. rewrite Efst in Hr. exists V. split; [exact EV|]. split; [exact Hr|].
    assert (Hrr : RingToRns primes V = res).
    { apply residues_from_pairs; [exact Hlen|]. fold prs. rewrite Forall_forall in *. intros pr Hin.
      rewrite (Hc pr Hin). apply Z.mod_small. apply Hcanp. exact Hin. }
    split; [exact Hrr|].
    intros x Hx Hxr. apply (unique primes); auto. apply RingToRns_eq_Forall. congruence.
Qed.

Lemma pairs_Forall2 : forall V primes res, length res = length primes ->
  Forall (fun pr => V mod fst pr = snd pr mod fst pr) (combine primes res) ->
  Forall2 (fun p r => V mod p = r mod p) primes res.
Proof. intros V primes res Hl H. apply Forall_combine_Forall2; [symmetry; exact Hl|exact H]. Qed.

Theorem fixed_tree_any : Fixed_tree_any_stmt true.
Proof.
  intros primes res Hne Hg Hlen.
  destruct (pairs_setup primes res Hne Hlen) as (Efst & Esnd & Hprs). set (prs := combine primes res) in *.
  destruct (fixed_tree_general true prs Hprs) as (V & EV & Hr & Hc).
  - rewrite Efst. exact Hg.
  - destruct Hg as [Hpos _]. rewrite <- Efst in Hpos. apply Forall_forall. intros pr Hin. left. split; [reflexivity|].
    unfold allpos in Hpos. rewrite Forall_forall in Hpos. apply Hpos. apply in_map. exact Hin.
  - rewrite Efst, Esnd in EV. rewrite Efst in Hr. exists V. split; [exact EV|]. split; [exact Hr|].
    assert (HF : Forall2 (fun p r => V mod p = r mod p) primes res) by (apply pairs_Forall2; assumption).
    split; [exact HF|].
    intros x Hx Hxr. apply (unique primes); auto. eapply Forall2_cong_Forall; eassumption.
Qed.

(* without the reduction of the left leaf the unrestricted statement is false: one prime 7, residue 10 *)
Lemma fixed_tree_any_unreduced_refuted : ~ Fixed_tree_any_stmt false.
Proof.
  intro H. destruct (H [7] [10]) as (V & E & [_ R] & _); [discriminate| |reflexivity|].
  - split; repeat constructor; lia.
  - vm_compute in E. inversion E; subst. vm_compute in R. discriminate R.
Qed.

(* ---------------------------------------------------------------- RNSsystemFixed objects: constructors, copy, assignment, use *)
Definition fmembers_all : list fmember := [FMtree; FMrns].
Definition fsrc_repo (lr : bool) : fsrc := mkFsrc fmembers_all fmembers_all lr dsrc_repo.

Inductive fexp : Type :=
  | Fmk (ps : list Z)                 (* RNSsystemFixed(const array&) *)
  | Fdefault                          (* RNSsystemFixed() *)
  | Fcopy (e : fexp)                  (* RNSsystemFixed(const Self_t&) : member by member *)
  | Fassign (dst src : fexp)          (* implicit operator= : member by member, onto ANY earlier object *)
  | Fuse (e : fexp) (rs : list Z).    (* the object after RnsToRing(rs) (the inner _RNS is not const) *)
Fixpoint feval (fs : fsrc) (e : fexp) : FixRNS :=
  match e with
  | Fmk ps => fix_mk fs ps
  | Fdefault => fix_default
  | Fcopy e => fix_copy fs (feval fs e)
  | Fassign d s => fix_assign fs (feval fs d) (feval fs s)
  | Fuse e rs => fst (fix_RnsToRing fs (feval fs e) rs)
  end.
Fixpoint fprimes (e : fexp) : list Z :=
  match e with
  | Fmk ps => ps
  | Fdefault => []
  | Fcopy e => fprimes e
  | Fassign d s => fprimes s
  | Fuse e _ => fprimes e
  end.

Definition fix_spec (ps : list Z) : FixRNS := mkFixRNS (fixed_tree ps) (dom_mk (fixed_mods (fixed_tree ps))).

Lemma dom_ensure_ck_id : forall S, dom_wf S -> dom_ensure_ck S = S.
Proof.
  intros [p c] H. unfold dom_wf in H. cbn [d_ck d_primes] in H. unfold dom_ensure_ck. cbn [d_ck d_primes].
  destruct c; [rewrite <- H|]; reflexivity.
Qed.

Lemma feval_spec : forall lr e, feval (fsrc_repo lr) e = fix_spec (fprimes e).
Proof.
  intros lr. induction e as [ps| |e IH|d IHd s IHs|e IH rs]; cbn [feval fprimes].
  - unfold fix_mk, fix_spec. cbn [fsrc_repo fs_dom dsrc_repo ds_set]. rewrite dom_setPrimes_repo. reflexivity.
  - reflexivity.
  - rewrite IH. unfold fix_copy, fix_spec. cbn [fsrc_repo fs_copy fs_dom dsrc_repo ds_copy fmembers_all fmem existsb fmember_eqb orb f_tree f_rns].
    rewrite dom_copy_all. reflexivity.
  - rewrite IHd, IHs. unfold fix_assign, fix_spec. cbn [fsrc_repo fs_assign fs_dom dsrc_repo ds_assign fmembers_all fmem existsb fmember_eqb orb f_tree f_rns].
    rewrite dom_assign_all. reflexivity.
  - rewrite IH. unfold fix_RnsToRing, fix_spec. cbn [f_tree f_rns].
    destruct (dom_mk_wf (fixed_mods (fixed_tree (fprimes e)))) as [W _].
    unfold dom_RnsToRing, dom_RnsToMixedRadix. rewrite (dom_ensure_ck_id _ W). cbn [fst]. reflexivity.
Qed.

(* every answer of an RNSsystemFixed object is that of the conversion function of its primes (fixed_RnsToRing, to which
   C14_fixed_tree / C14_fixed_tree_any_residues apply), whatever constructors, copies, assignments and earlier
   conversions produced it *)
Definition Fix_history_stmt (fs : fsrc) : Prop :=
  forall (e : fexp) (rs : list Z),
  snd (fix_RnsToRing fs (feval fs e) rs) = fixed_RnsToRing (fs_leaf fs) (fprimes e) rs.

Lemma fixed_tree_level0 : forall ps rs, enough (nth 0 (fixed_tree ps) []) rs = enough ps rs.
Proof.
  intros [|p ps] rs; [reflexivity|]. unfold fixed_tree. cbn [length build_tree].
  destruct (pair_level (p :: ps)) as [nx cur] eqn:E. cbn [nth].
  assert (L : length cur = length (p :: ps)) by (change cur with (snd (nx, cur)); rewrite <- E; apply stored_length).
  unfold enough. destruct cur as [|c cur]; [discriminate L|]. rewrite L. reflexivity.
Qed.

Lemma fix_history : forall lr, Fix_history_stmt (fsrc_repo lr).
Proof.
  intros lr e rs. rewrite feval_spec. unfold fix_RnsToRing, fix_spec, fixed_RnsToRing. cbn [f_tree f_rns fsrc_repo fs_leaf].
  set (t := fixed_tree (fprimes e)).
  destruct (dom_RnsToRing (dom_mk (fixed_mods t)) (fixed_reds lr t rs)) as [R' v] eqn:E. cbn [snd].
  destruct (dom_mk_wf (fixed_mods t)) as [_ P]. rewrite P.
  unfold t at 1. rewrite fixed_tree_level0.
  unfold fixed_mods, fixed_reds. rewrite !map_length, Nat.eqb_refl, andb_true_r. reflexivity.
Qed.

(* history: the copy constructor before 380857a did not copy _RNS (it did not even compile); a copy that drops the inner
   system has no defined conversion *)
Lemma fix_history_copy_without_rns_refuted : ~ Fix_history_stmt (mkFsrc [FMtree] fmembers_all false dsrc_repo).
Proof.
  intro H. specialize (H (Fcopy (Fmk [3; 5; 7])) [1; 2; 3]). vm_compute in H. discriminate H.
Qed.

Definition fhexp (h : fhist) (primes other : list Z) : fexp :=
  let use ps e := Fuse e (repeat 1 (length ps)) in
  match h with
  | FHfresh => Fmk primes
  | FHreuse => use primes (Fmk primes)
  | FHassigncold => Fassign Fdefault (Fmk primes)
  | FHassignwarm => Fassign (use other (Fmk other)) (use primes (Fmk primes))
  | FHassigncc => Fassign (use other (Fmk other)) (Fmk primes)
  | FHcopycold => Fcopy (Fmk primes)
  | FHcopywarm => Fcopy (use primes (Fmk primes))
  | FHcopy2 => Fcopy (Fcopy (use primes (Fmk primes)))
  | FHcopyassign => Fassign Fdefault (Fcopy (Fmk primes))
  end.
Lemma fix_obtain_fhexp : forall fs h primes other, fix_obtain fs h primes other = feval fs (fhexp h primes other).
Proof. intros fs h primes other. destruct h; reflexivity. Qed.

Example fixed_tree_hyps : good_moduli [7; 10; 9; 11; 13] /\ canonical [6; 0; 8; 3; 12] [7; 10; 9; 11; 13].
Proof. split; [split|]; repeat constructor; try lia; reflexivity. Qed.
Example fixed_tree_example : fixed_RnsToRing false [7; 10; 9; 11; 13] [6; 0; 8; 3; 12] = Some 56510.
Proof. vm_compute. reflexivity. Qed.
Example fixed_tree_any_example : fixed_RnsToRing true [7; 10; 9; 11; 13] [-1; 20; -1; 14; 25] = Some 56510.
Proof. vm_compute. reflexivity. Qed.
