(* C14 proofs, part 2: Garner's mixed radix conversion as coded (Horner evaluation mod p_i, reciprocal table),
   for every list of pairwise coprime positive moduli:  digits in range, value in [0, prod), residues, inverse maps. *)
From Coq Require Import ZArith Znumtheory Bool List Lia.
From C14 Require Import Model ProofsArith.
Import ListNotations.
Local Open Scope Z_scope.
Ltac Zify.zify_post_hook ::= Z.div_mod_to_equations.

(* ---------------------------------------------------------------- mixed radix value *)
(* l = [(p_0,m_0); (p_1,m_1); ...]  (oldest first):  m_0 + p_0 (m_1 + p_1 (m_2 + ...)) = sum m_j prod_{l<j} p_l *)
Fixpoint mrval (l : list (Z * Z)) : Z :=
  match l with
  | [] => 0
  | pm :: tl => snd pm + fst pm * mrval tl
  end.
Definition prodp (l : list (Z * Z)) : Z := prodl (map fst l).

Lemma prodp_cons : forall pm l, prodp (pm :: l) = fst pm * prodp l.
Proof. reflexivity. Qed.

Lemma prodl_rev : forall l, prodl (rev l) = prodl l.
Proof.
  induction l as [|x l IH]; [reflexivity|].
  cbn [rev]. rewrite prodl_app, IH, !prodl_cons. change (prodl []) with 1. ring.
Qed.

Lemma prodp_rev : forall l, prodp (rev l) = prodp l.
Proof. intros. unfold prodp. rewrite map_rev. apply prodl_rev. Qed.

Lemma prodp_app1 : forall l pm, prodp (l ++ [pm]) = prodp l * fst pm.
Proof. intros. unfold prodp. rewrite map_app, prodl_app. cbn [map]. rewrite prodl_cons. change (prodl []) with 1. ring. Qed.

Lemma mrval_app1 : forall l pm, mrval (l ++ [pm]) = mrval l + prodp l * snd pm.
Proof.
  induction l as [|x l IH]; intros pm.
  - cbn [app mrval]. change (prodp []) with 1. ring.
  - rewrite <- app_comm_cons. cbn [mrval]. rewrite IH, prodp_cons. ring.
Qed.

Definition digits_ok (l : list (Z * Z)) : Prop := Forall (fun pm => 0 <= snd pm < fst pm) l.

Lemma digits_range : forall l, digits_ok l -> 0 <= mrval l < prodp l.
Proof.
  induction 1 as [|pm l H _ IH].
  - cbn. lia.
  - cbn [mrval]. rewrite prodp_cons. nia.
Qed.

(* ---------------------------------------------------------------- Horner evaluation mod pi *)
Lemma horner_fold : forall pi d acc, 0 < pi ->
  fold_left (fun tmp pm => (tmp * fst pm + snd pm) mod pi) d acc mod pi
  = (acc * prodp d + mrval (rev d)) mod pi.
Proof.
  intros pi d. induction d as [|pm d IH]; intros acc Hpi.
  - cbn [fold_left rev mrval]. change (prodp []) with 1. f_equal. ring.
  - cbn [fold_left rev]. rewrite IH by exact Hpi. rewrite mrval_app1, prodp_cons, prodp_rev.
    rewrite (Z.add_mod ((acc * fst pm + snd pm) mod pi * prodp d)) by lia.
    rewrite Z.mul_mod_idemp_l by lia. rewrite <- Z.add_mod by lia. f_equal. ring.
Qed.

Lemma horner_int_spec : forall pi done, 0 < pi -> horner_int pi done mod pi = mrval (rev done) mod pi.
Proof.
  intros pi [|[p m] tl] Hpi; [reflexivity|].
  cbn [horner_int rev]. rewrite horner_fold by exact Hpi.
  rewrite mrval_app1, prodp_rev. cbn [snd]. f_equal. ring.
Qed.

Lemma fold_left_ext_Z : forall (A : Type) (f g : Z -> A -> Z) l a,
  (forall x y, f x y = g x y) -> fold_left f l a = fold_left g l a.
Proof. induction l; intros; cbn [fold_left]; [reflexivity|]. rewrite H. apply IHl; exact H. Qed.

Lemma horner_dom_spec : forall pi done, 0 < pi -> horner_dom pi done mod pi = mrval (rev done) mod pi.
Proof.
  intros pi [|[p m] tl] Hpi; [reflexivity|].
  cbn [horner_dom rev].
  rewrite (fold_left_ext_Z _ _ (fun tmp pm => (tmp * fst pm + snd pm) mod pi)).
  - rewrite horner_fold by exact Hpi. rewrite mrval_app1, prodp_rev. cbn [snd].
    rewrite (Z.add_mod (m mod pi * prodp tl)) by lia. rewrite Z.mul_mod_idemp_l by lia.
    rewrite <- Z.add_mod by lia. f_equal. ring.
  - intros x y. rewrite (Z.add_mod (x * (fst y mod pi))) by lia.
    rewrite Z.mul_mod_idemp_r, Z.mod_mod by lia. rewrite <- Z.add_mod by lia. reflexivity.
Qed.

(* ---------------------------------------------------------------- one Garner step *)
Lemma garner_step : forall V P pi ri Y ck,
  0 < pi -> (pi | Y - (ri - V)) -> (pi | ck * P - 1) ->
  (pi | (V + P * ((Y * ck) mod pi)) - ri).
Proof.
  intros V P pi ri Y ck Hpi [k1 H1] [k2 H2].
  pose proof (Z.div_mod (Y * ck) pi ltac:(lia)) as D.
  set (Q := (Y * ck) / pi) in *. set (m := (Y * ck) mod pi) in *.
  exists (k1 + Y * k2 - P * Q).
  assert (E : P * (Y * ck) = Y + Y * k2 * pi).
  { replace (P * (Y * ck)) with (Y * (ck * P)) by ring. replace (ck * P) with (1 + k2 * pi) by lia. ring. }
  replace m with (Y * ck - pi * Q) by lia.
  replace (P * (Y * ck - pi * Q)) with (P * (Y * ck) - P * pi * Q) by ring. rewrite E.
  replace Y with (ri - V + k1 * pi) at 1 by lia. ring.
Qed.

Lemma add_multiple_mod : forall V P m p, 0 < p -> (p | P) -> (V + P * m) mod p = V mod p.
Proof.
  intros V P m p Hp [c Hc]. subst P. replace (V + c * p * m) with (V + (c * m) * p) by ring.
  apply Z_mod_plus_full.
Qed.

(* ---------------------------------------------------------------- the loop, generically *)
Section Loop.
  Variable hor : Z -> list (Z * Z) -> Z.               (* Horner value of the digits so far, in domain pi *)
  Variable dig : Z -> Z -> Z -> Z -> Z.                (* pi ri tmp cki -> new digit *)
  Variable inr : Z -> Z -> Prop.                       (* inr p m: m is a representative the domain of p hands out *)
  Hypothesis inr_pos : forall p m, inr p m -> 0 < p.
  Hypothesis hor_ok : forall pi done, 0 < pi -> hor pi done mod pi = mrval (rev done) mod pi.
  Hypothesis dig_ok : forall pi ri tmp cki V P, 0 < pi -> tmp mod pi = V mod pi -> (pi | cki * P - 1) ->
      inr pi (dig pi ri tmp cki) /\ (pi | (V + P * dig pi ri tmp cki) - ri).
  Definition digits_inr (l : list (Z * Z)) : Prop := Forall (fun pm => inr (fst pm) (snd pm)) l.

  Fixpoint mr_loop_gen (done : list (Z * Z)) (todo : list (Z * Z * Z)) : list (Z * Z) :=
    match todo with
    | [] => done
    | t :: tl =>
        let pi := fst (fst t) in
        mr_loop_gen ((pi, dig pi (snd (fst t)) (hor pi done) (snd t)) :: done) tl
    end.

  (* reciprocals are what they must be, relative to the product P of the moduli already done *)
  Fixpoint todo_ok (P : Z) (todo : list (Z * Z * Z)) : Prop :=
    match todo with
    | [] => True
    | t :: tl => 0 < fst (fst t) /\ (fst (fst t) | snd t * P - 1) /\ todo_ok (fst (fst t) * P) tl
    end.

  Definition res_ok (V : Z) (procd : list (Z * Z)) : Prop :=
    Forall (fun pr => V mod fst pr = snd pr mod fst pr) procd.

  (* done: (p_j, m_j) most recent first;  procd: (p_j, r_j) oldest first *)
  Definition Inv (done procd : list (Z * Z)) : Prop :=
    map fst (rev done) = map fst procd /\ digits_inr done /\ res_ok (mrval (rev done)) procd.

  Lemma mr_loop_gen_inv : forall todo done procd,
    Inv done procd -> todo_ok (prodp done) todo -> Inv (mr_loop_gen done todo) (procd ++ map fst todo).
  Proof.
    induction todo as [|[[pi ri] cki] tl IH]; intros done procd HI HT.
    - cbn [mr_loop_gen map]. rewrite app_nil_r. exact HI.
    - cbn [mr_loop_gen map fst snd]. cbn [todo_ok fst snd] in HT. destruct HT as (Hpi & Hck & HT).
      destruct HI as (Hp & Hd & Hr).
      set (V := mrval (rev done)) in *. set (tmp := hor pi done).
      assert (Htmp : tmp mod pi = V mod pi) by (apply hor_ok; exact Hpi).
      destruct (dig_ok pi ri tmp cki V (prodp done) Hpi Htmp Hck) as [Hm Hcong].
      set (m := dig pi ri tmp cki) in *.
      replace (procd ++ (pi, ri) :: map fst tl) with ((procd ++ [(pi, ri)]) ++ map fst tl)
        by (rewrite <- app_assoc; reflexivity).
      apply IH.
      + unfold Inv. cbn [rev]. rewrite mrval_app1, prodp_rev. cbn [snd]. fold V. repeat split.
        * rewrite !map_app, Hp. reflexivity.
        * constructor; [cbn [fst snd]; exact Hm|exact Hd].
        * unfold res_ok. apply Forall_app. split.
          -- unfold res_ok in Hr. rewrite Forall_forall in *. intros pr Hin.
             assert (Hin2 : In (fst pr) (map fst done)).
             { apply in_rev. rewrite <- map_rev, Hp. apply in_map. exact Hin. }
             assert (Hpos : 0 < fst pr).
             { apply in_map_iff in Hin2. destruct Hin2 as [pm [E Hpm]].
               unfold digits_inr in Hd. rewrite Forall_forall in Hd. rewrite <- E. exact (inr_pos _ _ (Hd pm Hpm)). }
             rewrite add_multiple_mod; [apply Hr; exact Hin|exact Hpos|].
             apply prodl_divide. exact Hin2.
          -- constructor; [|constructor]. cbn [fst snd]. apply mod_eq_divide; [exact Hpi|exact Hcong].
      + rewrite prodp_cons. cbn [fst]. exact HT.
  Qed.

  Lemma mr_loop_gen_fst : forall todo done,
    map fst (rev (mr_loop_gen done todo)) = map fst (rev done) ++ map (fun t => fst (fst t)) todo.
  Proof.
    induction todo as [|t tl IH]; intros done.
    - cbn. rewrite app_nil_r. reflexivity.
    - cbn [mr_loop_gen map]. rewrite IH. cbn [rev]. rewrite map_app. cbn [map fst]. rewrite <- app_assoc. reflexivity.
  Qed.
End Loop.

Lemma mr_loop_int_gen : forall todo done,
  mr_loop_int done todo = mr_loop_gen horner_int (fun pi ri tmp cki => ((ri - tmp) * cki) mod pi) done todo.
Proof. induction todo as [|[[pi ri] cki] tl IH]; intros; cbn [mr_loop_int mr_loop_gen fst snd]; [reflexivity|apply IH]. Qed.

Lemma mr_loop_dom_gen : forall todo done,
  mr_loop_dom done todo = mr_loop_gen horner_dom (fun pi ri tmp cki => (((ri - tmp) mod pi) * cki) mod pi) done todo.
Proof. induction todo as [|[[pi ri] cki] tl IH]; intros; cbn [mr_loop_dom mr_loop_gen fst snd]; [reflexivity|apply IH]. Qed.

Lemma dig_int_ok : forall pi ri tmp cki V P, 0 < pi -> tmp mod pi = V mod pi -> (pi | cki * P - 1) ->
  0 <= ((ri - tmp) * cki) mod pi < pi /\ (pi | (V + P * (((ri - tmp) * cki) mod pi)) - ri).
Proof.
  intros. split; [apply Z.mod_pos_bound; lia|]. apply garner_step; auto.
  apply mod_eq_divide in H0; [|exact H]. destruct H0 as [k Hk]. exists (- k). lia.
Qed.

Lemma dig_dom_ok : forall pi ri tmp cki V P, 0 < pi -> tmp mod pi = V mod pi -> (pi | cki * P - 1) ->
  0 <= (((ri - tmp) mod pi) * cki) mod pi < pi /\ (pi | (V + P * ((((ri - tmp) mod pi) * cki) mod pi)) - ri).
Proof.
  intros. split; [apply Z.mod_pos_bound; lia|]. apply garner_step; auto.
  apply mod_eq_divide in H0; [|exact H]. destruct H0 as [k Hk].
  exists (- k - (ri - tmp) / pi). pose proof (Z.div_mod (ri - tmp) pi ltac:(lia)). lia.
Qed.

(* ---------------------------------------------------------------- the reciprocal table *)
Lemma ck_prod_int_ok : forall pk prev, 0 < pk -> ck_prod_int pk prev mod pk = prodl prev mod pk.
Proof.
  intros pk [|p0 tl] Hpk; [reflexivity|]. cbn [ck_prod_int]. rewrite prodl_cons.
  revert p0. induction tl as [|a tl IH]; intros p0.
  - cbn [fold_left]. change (prodl []) with 1. f_equal. ring.
  - cbn [fold_left]. rewrite IH, prodl_cons. rewrite Z.mul_mod_idemp_l by lia. f_equal. ring.
Qed.

Lemma ck_prod_dom_ok : forall pk prev, 0 < pk -> ck_prod_dom pk prev mod pk = prodl prev mod pk.
Proof.
  intros pk [|p0 tl] Hpk; [reflexivity|]. cbn [ck_prod_dom]. rewrite prodl_cons.
  assert (G : forall tl acc, fold_left (fun prod pi => (prod * (pi mod pk)) mod pk) tl acc mod pk = (acc * prodl tl) mod pk).
  { induction tl0 as [|a tl0 IH]; intros acc.
    - cbn [fold_left]. change (prodl []) with 1. f_equal. ring.
    - cbn [fold_left]. rewrite IH, prodl_cons. rewrite Z.mul_mod_idemp_r by lia.
      rewrite Z.mul_mod_idemp_l by lia. f_equal. ring. }
  rewrite G. apply Z.mul_mod_idemp_l. lia.
Qed.

Lemma todo_of_cons : forall p ps r rs c cs,
  todo_of (p :: ps) (r :: rs) (c :: cs) = (p, r, c) :: todo_of ps rs cs.
Proof. reflexivity. Qed.

Lemma ck_loop_ok : forall ckprod,
  (forall pk prev, 0 < pk -> ckprod pk prev mod pk = prodl prev mod pk) ->
  forall rest prev rs, allpos rest -> pcop rest ->
  Forall (fun q => Forall (fun p => Z.gcd q p = 1) rest) prev ->
  todo_ok (prodl prev) (todo_of rest rs (ck_loop ckprod prev rest)).
Proof.
  intros ckprod Hck. induction rest as [|pk tl IH]; intros prev rs Hpos Hc Hprev.
  - destruct rs; exact I.
  - destruct rs as [|r rs]; [exact I|]. cbn [ck_loop]. rewrite todo_of_cons.
    inversion Hpos as [|? ? Hpk Hpos']; subst. destruct Hc as [Hpktl Hc].
    cbn [todo_ok fst snd]. split; [exact Hpk|]. split.
    + rewrite (invmod_cong _ (prodl prev)) by (apply Hck; exact Hpk).
      apply invmod_spec; [exact Hpk|]. apply gcd_prodl.
      eapply Forall_impl; [|exact Hprev]. intros q Hq. cbn beta in Hq. inversion Hq; subst. assumption.
    + replace (pk * prodl prev) with (prodl (prev ++ [pk]))
        by (rewrite prodl_app, prodl_cons; change (prodl []) with 1; ring).
      apply IH; [exact Hpos'|exact Hc|]. apply Forall_app. split.
      * eapply Forall_impl; [|exact Hprev]. intros q Hq. cbn beta in Hq. inversion Hq; subst. assumption.
      * constructor; [exact Hpktl|constructor].
Qed.

Lemma ck_loop_length : forall ckprod rest prev, length (ck_loop ckprod prev rest) = length rest.
Proof. induction rest; intros; cbn [ck_loop length]; [reflexivity|]. rewrite IHrest. reflexivity. Qed.

(* ---------------------------------------------------------------- list plumbing *)
Lemma map_fst_combine : forall (A B : Type) (a : list A) (b : list B),
  length a = length b -> map fst (combine a b) = a.
Proof. induction a; destruct b; intros H; try discriminate; cbn; [reflexivity|]. f_equal. apply IHa. cbn in H. lia. Qed.

Lemma combine_fst_snd : forall (A B : Type) (l : list (A * B)), combine (map fst l) (map snd l) = l.
Proof. induction l as [|[a b] l IH]; cbn; [reflexivity|]. rewrite IH. reflexivity. Qed.

Lemma Forall_combine_Forall2 : forall (A B : Type) (R : A -> B -> Prop) a b,
  length a = length b -> Forall (fun x => R (fst x) (snd x)) (combine a b) -> Forall2 R a b.
Proof.
  induction a; destruct b; intros H F; try discriminate; [constructor|].
  cbn in *. inversion F; subst. constructor; [assumption|]. apply IHa; [lia|assumption].
Qed.

Lemma Forall_pairs_Forall2 : forall (A B : Type) (R : B -> A -> Prop) (l : list (A * B)),
  Forall (fun x => R (snd x) (fst x)) l -> Forall2 R (map snd l) (map fst l).
Proof. induction 1; cbn; constructor; assumption. Qed.

(* MixedRadixToRing is the mixed radix value *)
Lemma MixedRadixToRing_spec : forall l, MixedRadixToRing (map fst l) (map snd l) = mrval l.
Proof.
  intros l. unfold MixedRadixToRing. rewrite combine_fst_snd.
  rewrite <- (rev_involutive l) at 2. destruct (rev l) as [|[p m] tl]; [reflexivity|].
  cbn [rev]. rewrite mrval_app1. cbn [snd].
  assert (G : forall d acc, fold_left (fun res pm => res * fst pm + snd pm) d acc = acc * prodp d + mrval (rev d)).
  { induction d as [|pm d IH]; intros acc.
    - cbn [fold_left rev mrval]. change (prodp []) with 1. ring.
    - cbn [fold_left rev]. rewrite IH, mrval_app1, prodp_cons, prodp_rev. ring. }
  rewrite G, prodp_rev. ring.
Qed.

(* ---------------------------------------------------------------- the conversion as a whole *)
Definition good_moduli (ps : list Z) : Prop := allpos ps /\ pcop ps.

(* what both RnsToMixedRadix variants establish; stated once *)
Definition Garner_post (ps rs mix : list Z) : Prop :=
  let V := MixedRadixToRing ps mix in
  length mix = length ps /\
  Forall2 (fun m p => 0 <= m < p) mix ps /\
  0 <= V < prodl ps /\
  Forall2 (fun p r => V mod p = r mod p) ps rs.

(* the same with the range of the representatives (inr) and of the value (vr) left open: canonical and balanced domains *)
Definition Garner_postG (inr vr : Z -> Z -> Prop) (ps rs mix : list Z) : Prop :=
  let V := MixedRadixToRing ps mix in
  length mix = length ps /\
  Forall2 (fun m p => inr p m) mix ps /\
  vr (prodl ps) V /\
  Forall2 (fun p r => V mod p = r mod p) ps rs.

Section Whole.
  Variable hor : Z -> list (Z * Z) -> Z.
  Variable dig : Z -> Z -> Z -> Z -> Z.
  Variable inr vr : Z -> Z -> Prop.
  Hypothesis inr_pos : forall p m, inr p m -> 0 < p.
  Hypothesis range_ok : forall l, Forall (fun pm => inr (fst pm) (snd pm)) l -> vr (prodp l) (mrval l).
  Hypothesis hor_ok : forall pi done, 0 < pi -> hor pi done mod pi = mrval (rev done) mod pi.
  Hypothesis dig_ok : forall pi ri tmp cki V P, 0 < pi -> tmp mod pi = V mod pi -> (pi | cki * P - 1) ->
      inr pi (dig pi ri tmp cki) /\ (pi | (V + P * dig pi ri tmp cki) - ri).

  Lemma garner_whole_g : forall p0 ps r0 rs cks,
    length rs = length ps -> length cks = length ps -> inr p0 r0 ->
    todo_ok p0 (todo_of ps rs cks) ->
    Garner_postG inr vr (p0 :: ps) (r0 :: rs)
      (map snd (rev (mr_loop_gen hor dig [(p0, r0)] (todo_of ps rs cks)))).
  Proof.
    intros p0 ps r0 rs cks Hlen Hlck Hr0 Htodo.
    set (todo := todo_of ps rs cks) in *.
    set (final := mr_loop_gen hor dig [(p0, r0)] todo).
    assert (Hfsttodo : map fst todo = combine ps rs).
    { unfold todo, todo_of. apply map_fst_combine. rewrite combine_length. lia. }
    assert (HI : Inv inr final ([(p0, r0)] ++ map fst todo)).
    { apply (mr_loop_gen_inv hor dig inr inr_pos hor_ok dig_ok).
      - unfold Inv. cbn [rev app map fst mrval snd]. repeat split.
        + constructor; [cbn [fst snd]; exact Hr0|constructor].
        + constructor; [|constructor]. cbn [fst snd]. f_equal. ring.
      - unfold prodp. cbn [map fst prodl fold_right]. rewrite Z.mul_1_r. exact Htodo. }
    rewrite Hfsttodo in HI. destruct HI as (Hp & Hd & Hr).
    assert (Hprimes : map fst (rev final) = p0 :: ps).
    { rewrite Hp. cbn [app map fst]. f_equal. apply map_fst_combine. lia. }
    unfold Garner_postG. rewrite <- Hprimes. rewrite MixedRadixToRing_spec.
    assert (Hd' : digits_inr inr (rev final)) by (apply Forall_rev; exact Hd).
    repeat split.
    - rewrite !map_length. reflexivity.
    - apply Forall_pairs_Forall2 with (R := fun m p => inr p m). exact Hd'.
    - apply (range_ok _ Hd').
    - rewrite Hprimes. apply Forall_combine_Forall2; [cbn [length]; lia|]. exact Hr.
  Qed.
End Whole.

Section WholeCanonical.
  Variable hor : Z -> list (Z * Z) -> Z.
  Variable dig : Z -> Z -> Z -> Z -> Z.
  Variable ckprod : Z -> list Z -> Z.
  Hypothesis hor_ok : forall pi done, 0 < pi -> hor pi done mod pi = mrval (rev done) mod pi.
  Hypothesis dig_ok : forall pi ri tmp cki V P, 0 < pi -> tmp mod pi = V mod pi -> (pi | cki * P - 1) ->
      0 <= dig pi ri tmp cki < pi /\ (pi | (V + P * dig pi ri tmp cki) - ri).
  Hypothesis ckprod_ok : forall pk prev, 0 < pk -> ckprod pk prev mod pk = prodl prev mod pk.

  Lemma garner_whole : forall p0 ps r0 rs,
    good_moduli (p0 :: ps) -> length rs = length ps -> 0 <= r0 < p0 ->
    Garner_post (p0 :: ps) (r0 :: rs)
      (map snd (rev (mr_loop_gen hor dig [(p0, r0)] (todo_of ps rs (ck_loop ckprod [p0] ps))))).
  Proof.
    intros p0 ps r0 rs [Hpos Hc] Hlen Hr0.
    inversion Hpos as [|? ? Hp0 Hpos']; subst. destruct Hc as [Hc0 Hc].
    apply (garner_whole_g hor dig (fun p m => 0 <= m < p) (fun P V => 0 <= V < P)); auto.
    - intros; lia.
    - exact digits_range.
    - apply ck_loop_length.
    - replace p0 with (prodl [p0]) at 1 by (cbn; lia). apply ck_loop_ok; auto.
  Qed.
End WholeCanonical.

Theorem RnsToMixedRadix_int_spec : forall ps rs,
  ps <> [] -> good_moduli ps -> length rs = length ps -> 0 <= hd 0 rs < hd 1 ps ->
  Garner_post ps rs (RnsToMixedRadix_int ps (ComputeCk_int ps) rs).
Proof.
  intros [|p0 ps] rs Hne Hg Hl Hr0; [congruence|]. destruct rs as [|r0 rs]; [discriminate|].
  cbn [hd] in Hr0. cbn [length] in Hl.
  unfold RnsToMixedRadix_int, ComputeCk_int, ComputeCk_with. cbn [tl]. rewrite mr_loop_int_gen.
  apply garner_whole; auto using horner_int_spec, dig_int_ok, ck_prod_int_ok.
Qed.

Theorem RnsToMixedRadix_dom_spec : forall ps rs,
  ps <> [] -> good_moduli ps -> length rs = length ps -> 0 <= hd 0 rs < hd 1 ps ->
  Garner_post ps rs (RnsToMixedRadix_dom ps (ComputeCk_dom ps) rs).
Proof.
  intros [|p0 ps] rs Hne Hg Hl Hr0; [congruence|]. destruct rs as [|r0 rs]; [discriminate|].
  cbn [hd] in Hr0. cbn [length] in Hl.
  unfold RnsToMixedRadix_dom, ComputeCk_dom, ComputeCk_with. cbn [tl]. rewrite mr_loop_dom_gen.
  apply garner_whole; auto using horner_dom_spec, dig_dom_ok, ck_prod_dom_ok.
Qed.
