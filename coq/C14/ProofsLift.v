(* C14 proofs, part 7: incremental lifting.  Starting from r_0 mod p_0, the two-modulus functor (repaired shape
   cra_reduce_fixed) is applied with M = p_0 ... p_{k-1}, D = p_k for k = 1, 2, ...: EVERY intermediate value is the
   integer of [0, p_0 ... p_k) with the residues r_0 .. r_k (unique by C14_unique), for every list of pairwise coprime
   moduli; residues may be any representatives. *)
From Coq Require Import ZArith Znumtheory Bool List Lia.
From C14 Require Import Model ProofsArith ProofsGarner ProofsSystem ProofsFixed.
Import ListNotations.
Local Open Scope Z_scope.
Ltac Zify.zify_post_hook ::= Z.div_mod_to_equations.

Definition congr_all (x : Z) (l : list (Z * Z)) : Prop := Forall (fun pr => x mod fst pr = snd pr mod fst pr) l.

Lemma lift_chain_spec : forall todo pre M x,
  M = prodp pre -> 0 <= x < M -> congr_all x pre -> good_moduli (map fst (pre ++ todo)) ->
  let ys := lift_chain cra_reduce_fixed M x todo in
  length ys = length todo /\
  forall k, (k < length todo)%nat ->
    let prek := pre ++ firstn (S k) todo in
    0 <= nth k ys 0 < prodp prek /\ congr_all (nth k ys 0) prek.
Proof.
  induction todo as [|[p r] tl IH]; intros pre M x HM Hx Hc Hg ys.
  - split; [reflexivity|]. intros k Hk. cbn in Hk. lia.
  - unfold ys. cbn [lift_chain]. set (y := cra_reduce_fixed M p x (r mod p)).
    destruct Hg as [Hpos Hcop]. rewrite map_app in Hpos, Hcop. cbn [map fst] in Hpos, Hcop.
    apply Forall_app in Hpos. destruct Hpos as [Hpp Hpt]. inversion Hpt as [|? ? Hp Hpt']; subst.
    apply pcop_app in Hcop. destruct Hcop as (Hcp & Hct & Hx2). destruct Hct as [Hptl Hctl].
    assert (Hgcd : Z.gcd (prodp pre) p = 1).
    { unfold prodp. apply gcd_prodl. eapply Forall_impl; [|exact Hx2]. intros q Hq. cbn beta in Hq.
      inversion Hq; subst. assumption. }
    destruct (functor_fixed_canonical (prodp pre) p x (r mod p) Hx Hp Hgcd) as (Yr & YM & Yp & _). fold y in Yr, YM, Yp.
    rewrite Z.mod_mod in Yp by lia.
    assert (Hy : congr_all y (pre ++ [(p, r)])).
    { apply Forall_app. split; [|constructor; [exact Yp|constructor]].
      unfold congr_all in *. rewrite Forall_forall in *. intros pr Hin.
      assert (Hq : 0 < fst pr) by (apply Hpp; apply in_map; exact Hin).
      assert (Hd : (fst pr | prodp pre)) by (apply prodl_divide, in_map, Hin).
      rewrite (Zmod_div_mod (fst pr) (prodp pre) y Hq ltac:(lia) Hd), YM. apply Hc. exact Hin. }
    assert (HP : prodp (pre ++ [(p, r)]) = prodp pre * p) by (rewrite prodp_app1; reflexivity).
    destruct (IH (pre ++ [(p, r)]) (prodp pre * p) y) as [L K].
    + symmetry. exact HP.
    + exact Yr.
    + exact Hy.
    + rewrite <- app_assoc. cbn [app]. split.
      * rewrite map_app. apply Forall_app. split; assumption.
      * rewrite map_app. apply pcop_app. repeat split; assumption.
    + split; [cbn [length]; f_equal; exact L|].
      intros [|k] Hk; cbn [nth firstn].
      * rewrite HP. split; [exact Yr|exact Hy].
      * specialize (K k ltac:(cbn [length] in Hk; lia)). cbn zeta in K. rewrite <- app_assoc in K. exact K.
Qed.

Definition Lift_chain_stmt (f : Z -> Z -> Z -> Z -> Z) : Prop :=
  forall ps rs, ps <> [] -> good_moduli ps -> length rs = length ps ->
  let xs := lift_run f ps rs in
  length xs = length ps /\
  forall k, (k < length ps)%nat ->
    let x := nth k xs 0 in
    0 <= x < prodl (firstn (S k) ps) /\
    Forall2 (fun p r => x mod p = r mod p) (firstn (S k) ps) (firstn (S k) rs).

Lemma congr_all_Forall2 : forall x ps rs, length rs = length ps -> congr_all x (combine ps rs) ->
  Forall2 (fun p r => x mod p = r mod p) ps rs.
Proof. intros x ps rs Hl H. apply Forall_combine_Forall2; [symmetry; exact Hl|exact H]. Qed.

Theorem lift_chain_correct : Lift_chain_stmt cra_reduce_fixed.
Proof.
  intros [|p0 ps] rs Hne Hg Hl xs; [congruence|]. destruct rs as [|r0 rs]; [discriminate|].
  cbn [length] in Hl. assert (Hl' : length rs = length ps) by lia.
  pose proof Hg as [Hpos Hcop]. inversion Hpos as [|? ? Hp0 Hpos']; subst.
  unfold xs, lift_run.
  destruct (lift_chain_spec (combine ps rs) [(p0, r0)] p0 (r0 mod p0)) as [L K].
  - unfold prodp. cbn. lia.
  - apply Z.mod_pos_bound. exact Hp0.
  - constructor; [cbn [fst snd]; apply Z.mod_mod; lia|constructor].
  - cbn [app map fst]. rewrite map_fst_combine by (symmetry; exact Hl'). exact Hg.
  - rewrite combine_length, Hl', Nat.min_id in L, K.
    split; [cbn [length]; f_equal; exact L|].
    intros [|k] Hk; cbn [nth].
    + cbn [firstn]. split.
      * cbn. rewrite Z.mul_1_r. apply Z.mod_pos_bound. exact Hp0.
      * constructor; [apply Z.mod_mod; lia|constructor].
    + specialize (K k ltac:(cbn [length] in Hk; lia)). cbn zeta in K. destruct K as [K1 K2].
      assert (E : [(p0, r0)] ++ firstn (S k) (combine ps rs) = combine (firstn (S (S k)) (p0 :: ps)) (firstn (S (S k)) (r0 :: rs))).
      { rewrite combine_firstn. reflexivity. }
      rewrite E in K1, K2. split.
      * unfold prodp in K1. rewrite map_fst_combine in K1 by (rewrite !firstn_length; cbn [length]; lia). exact K1.
      * apply congr_all_Forall2; [rewrite !firstn_length; cbn [length]; lia|exact K2].
Qed.

(* with the unrepaired functor body (the product of the two residues taken in the ring) the chain leaves the range *)
Lemma lift_chain_unrepaired_refuted : ~ Lift_chain_stmt cra_reduce.
Proof.
  intro H. destruct (H [3; 5] [2; 1]) as [_ K]; [discriminate| |reflexivity|].
  - split; repeat constructor; lia.
  - destruct (K 1%nat ltac:(cbn; lia)) as [[_ R] _]. vm_compute in R. discriminate R.
Qed.

Example lift_chain_example : lift_run cra_reduce_fixed [7; 10; 9; 11] [6; 0; 8; 3] = [6; 20; 440; 1070].
Proof. vm_compute. reflexivity. Qed.

(* ---------------------------------------------------------------- the value of the non-reducing functor *)
(* ChineseRemainder<Ring,Domain,false> is documented as not reducing: res = A + (e - A) (M^-1 mod D) M.  Its value is
   pinned down modulo M D: reduced into [0, M D) it IS the canonical lift (the value of the REDUCE = true functor). *)
Definition Functor_noreduce_value_stmt : Prop :=
  forall M D A e, 0 <= A < M -> 0 < D -> Z.gcd M D = 1 ->
  cra_noreduce M D A e = A + (e - A) * (invmod M D * M) /\
  (cra_noreduce M D A e) mod (M * D) = cra_reduce_fixed M D A e.
Lemma functor_noreduce_value : Functor_noreduce_value_stmt.
Proof.
  intros M D A e HA HD Hg. split.
  - unfold cra_noreduce, cra_C12. rewrite invmod_mod. ring.
  - destruct (functor_noreduce_congruent M D A e HD Hg) as [DM DD].
    destruct (functor_fixed_canonical M D A e HA HD Hg) as (_ & _ & _ & U).
    set (f := cra_noreduce M D A e) in *.
    assert (HMD : 0 < M * D) by nia.
    apply U.
    + apply Z.mod_pos_bound. exact HMD.
    + rewrite <- (Zmod_div_mod M (M * D) f ltac:(lia) HMD ltac:(exists D; ring)).
      rewrite <- (Z.mod_small A M HA). apply mod_eq_divide; [lia|exact DM].
    + rewrite <- (Zmod_div_mod D (M * D) f HD HMD ltac:(exists M; ring)).
      apply mod_eq_divide; [exact HD|exact DD].
Qed.
Example functor_noreduce_example : cra_noreduce 3 5 2 1 = -4 /\ (-4) mod 15 = cra_reduce_fixed 3 5 2 1.
Proof. split; vm_compute; reflexivity. Qed.
