(* C14 proofs, part 4: polynomial CRT (Poly1CRT<Field> over GF(p)): Newton-style incremental interpolation with the
   reciprocal polynomials ck_k = prod_{j<k}(X - a_j) / prod_{j<k}(a_k - a_j).
   Proved: for every prime p, pairwise distinct points (mod p) and all residues, RnsToRing returns a polynomial with
   canonical coefficients, fewer coefficients than points + 1, that takes the given values; hence RingToRns o RnsToRing = id.
   (Uniqueness of the interpolating polynomial - root counting over a field - is not proved here.) *)
From Coq Require Import ZArith Znumtheory Bool List Lia Setoid Morphisms.
(* second half of the file: uniqueness of the interpolant, so that the polynomial CRT obeys the full law *)
From C14 Require Import Model ProofsArith ProofsGarner.
Import ListNotations.
Local Open Scope Z_scope.

(* ---------------------------------------------------------------- congruence mod p as a setoid *)
Definition cg (p a b : Z) : Prop := (p | a - b).
Global Instance cg_equiv p : Equivalence (cg p).
Proof.
  split.
  - intros a. exists 0. lia.
  - intros a b [k H]. exists (-k). lia.
  - intros a b c [k H] [j J]. exists (k + j). lia.
Qed.
Global Instance cg_add p : Proper (cg p ==> cg p ==> cg p) Z.add.
Proof. intros a b [k H] c d [j J]. exists (k + j). lia. Qed.
Global Instance cg_sub p : Proper (cg p ==> cg p ==> cg p) Z.sub.
Proof. intros a b [k H] c d [j J]. exists (k - j). lia. Qed.
Global Instance cg_mul p : Proper (cg p ==> cg p ==> cg p) Z.mul.
Proof. intros a b [k H] c d [j J]. exists (k * c + b * j). nia. Qed.
Global Instance cg_opp p : Proper (cg p ==> cg p) Z.opp.
Proof. intros a b [k H]. exists (-k). lia. Qed.
Lemma cg_mod : forall p a, cg p (a mod p) a.
Proof.
  intros p a. destruct (Z.eq_dec p 0) as [->|H]; [rewrite Zmod_0_r; reflexivity|].
  exists (- (a / p)). pose proof (Z.div_mod a p H). lia.
Qed.
Lemma cg_eq_mod : forall p a b, 0 < p -> (cg p a b <-> a mod p = b mod p).
Proof. intros. unfold cg. symmetry. apply mod_eq_divide; assumption. Qed.
Lemma gcd_cg : forall p a b, cg p a b -> Z.gcd a p = Z.gcd b p.
Proof.
  intros p a b [k H]. replace a with (b + k * p) by lia.
  rewrite (Z.gcd_comm (b + k * p)), (Z.gcd_comm b). apply Z.gcd_add_mult_diag_r.
Qed.

Section Poly.
  Variable p : Z.
  Hypothesis Hp : prime p.
  Let Hpos : 0 < p. Proof. destruct Hp. lia. Qed.
  Local Notation "a == b" := (cg p a b) (at level 70).

  (* evaluation over Z, without reductions *)
  Definition zeval (a : list Z) (x : Z) : Z := fold_right (fun c acc => acc * x + c) 0 a.
  Lemma zeval_cons : forall c a x, zeval (c :: a) x = zeval a x * x + c.
  Proof. reflexivity. Qed.

  Lemma peval_zeval : forall a x, peval p a x == zeval a x.
  Proof.
    induction a as [|c a IH]; intros x; [reflexivity|].
    cbn [peval fold_right]. fold (peval p a x). rewrite cg_mod, IH. reflexivity.
  Qed.

  Lemma zeval_padd : forall a b x, zeval (padd p a b) x == zeval a x + zeval b x.
  Proof.
    induction a as [|c a IH]; intros b x.
    - cbn [padd]. change (zeval [] x) with 0. rewrite Z.add_0_l. reflexivity.
    - destruct b as [|d b].
      + cbn [padd]. change (zeval [] x) with 0. rewrite Z.add_0_r. reflexivity.
      + cbn [padd]. rewrite !zeval_cons, cg_mod, IH.
        replace ((zeval a x + zeval b x) * x + (c + d)) with (zeval a x * x + c + (zeval b x * x + d)) by ring. reflexivity.
  Qed.

  Lemma zeval_pscale : forall c a x, zeval (pscale p c a) x == c * zeval a x.
  Proof.
    induction a as [|d a IH]; intros x.
    - cbn. rewrite Z.mul_0_r. reflexivity.
    - unfold pscale in *. cbn [map]. rewrite !zeval_cons, cg_mod, IH.
      replace (c * zeval a x * x + c * d) with (c * (zeval a x * x + d)) by ring. reflexivity.
  Qed.

  Lemma zeval_pmul_lin : forall c0 a x, zeval (pmul_lin p c0 a) x == (x + c0) * zeval a x.
  Proof.
    intros. unfold pmul_lin. rewrite zeval_padd, zeval_pscale, zeval_cons.
    replace (c0 * zeval a x + (zeval a x * x + 0)) with ((x + c0) * zeval a x) by ring. reflexivity.
  Qed.

  (* shapes: lengths and canonical coefficients *)
  Definition canon (a : list Z) : Prop := Forall (fun c => 0 <= c < p) a.

  Lemma padd_length : forall a b, length (padd p a b) = Nat.max (length a) (length b).
  Proof.
    induction a as [|c a IH]; intros b; [reflexivity|]. destruct b as [|d b]; [reflexivity|].
    cbn [padd length Nat.max]. rewrite IH. reflexivity.
  Qed.
  Lemma pscale_length : forall c a, length (pscale p c a) = length a.
  Proof. intros. apply map_length. Qed.
  Lemma pmul_lin_length : forall c a, length (pmul_lin p c a) = S (length a).
  Proof. intros. unfold pmul_lin. rewrite padd_length, pscale_length. cbn [length]. lia. Qed.
  Lemma padd_canon : forall a b, canon a -> canon b -> canon (padd p a b).
  Proof.
    induction a as [|c a IH]; intros b Ha Hb; [exact Hb|]. destruct b as [|d b]; [exact Ha|].
    cbn [padd]. inversion Ha; inversion Hb; subst. constructor; [apply Z.mod_pos_bound; exact Hpos|apply IH; assumption].
  Qed.
  Lemma pscale_canon : forall c a, canon (pscale p c a).
  Proof. intros. unfold pscale, canon. apply Forall_forall. intros x Hin. apply in_map_iff in Hin. destruct Hin as [y [<- _]]. apply Z.mod_pos_bound; exact Hpos. Qed.

  (* prod_{a in l} (x - a) *)
  Definition prodpts (x : Z) (l : list Z) : Z := fold_right (fun a acc => (x - a) * acc) 1 l.
  Lemma prodpts_in : forall x l, In x l -> prodpts x l = 0.
  Proof.
    induction l as [|a l IH]; intros H; [destruct H|]. cbn [prodpts fold_right]. destruct H as [->|H].
    - rewrite Z.sub_diag. reflexivity.
    - fold (prodpts x l). rewrite IH by exact H. ring.
  Qed.
  Lemma prodpts_coprime : forall x l, Forall (fun a => ~ (p | x - a)) l -> Z.gcd (prodpts x l) p = 1.
  Proof.
    induction 1 as [|a l Ha _ IH]; [apply Z.gcd_1_l|].
    cbn [prodpts fold_right]. fold (prodpts x l). apply Zgcd_1_rel_prime. apply rel_prime_sym. apply rel_prime_mult.
    - apply prime_rel_prime; assumption.
    - apply rel_prime_sym. apply Zgcd_1_rel_prime. exact IH.
  Qed.

  (* what the reciprocal polynomial of a point must satisfy, relative to the points already done *)
  Fixpoint ptodo_ok (seen : list Z) (todo : list (Z * Z * list Z)) : Prop :=
    match todo with
    | [] => True
    | t :: tl =>
        (forall a, In a seen -> zeval (snd t) a == 0) /\ zeval (snd t) (fst (fst t)) == 1 /\
        length (snd t) = S (length seen) /\ canon (snd t) /\
        ptodo_ok (fst (fst t) :: seen) tl
    end.

  Lemma poly_ck_loop_ok : forall rest prod prevpt seen rs,
    (forall x, zeval prod x == prodpts x seen) -> length prod = S (length seen) ->
    Forall (fun b => Forall (fun a => ~ (p | b - a)) (prevpt :: seen)) rest ->
    ForallOrdPairs (fun a b => ~ (p | b - a)) rest ->
    ptodo_ok (prevpt :: seen) (combine (combine rest rs) (poly_ck_loop p prod prevpt rest)).
  Proof.
    induction rest as [|ak tl IH]; intros prod prevpt seen rs Hprod Hlen Hd Hdd.
    - destruct rs; exact I.
    - destruct rs as [|r rs]; [exact I|]. cbn [poly_ck_loop combine ptodo_ok fst snd].
      set (prod' := pmul_lin p (- prevpt mod p) prod).
      assert (Hprod' : forall x, zeval prod' x == prodpts x (prevpt :: seen)).
      { intros x. unfold prod'. rewrite zeval_pmul_lin, cg_mod, Hprod. cbn [prodpts fold_right].
        replace (x + - prevpt) with (x - prevpt) by ring. reflexivity. }
      inversion Hd as [|? ? Hak Hd']; subst. inversion Hdd as [|? ? Haktl Hdd']; subst.
      set (invC := invmod (peval p prod' ak) p).
      assert (Hinv : invC * zeval prod' ak == 1).
      { assert (Hg : Z.gcd (peval p prod' ak) p = 1).
        { rewrite (gcd_cg p _ (prodpts ak (prevpt :: seen))); [apply prodpts_coprime; exact Hak|].
          rewrite peval_zeval. apply Hprod'. }
        destruct (invmod_spec (peval p prod' ak) p Hpos Hg) as [Hd1 _]. fold invC in Hd1.
        rewrite <- peval_zeval. exact Hd1. }
      repeat split.
      + intros a Hin. rewrite zeval_pscale, Hprod', (prodpts_in a _ Hin). rewrite Z.mul_0_r. reflexivity.
      + rewrite zeval_pscale. exact Hinv.
      + rewrite pscale_length. unfold prod'. rewrite pmul_lin_length, Hlen. reflexivity.
      + apply pscale_canon.
      + apply IH.
        * exact Hprod'.
        * unfold prod'. rewrite pmul_lin_length, Hlen. reflexivity.
        * rewrite Forall_forall in *. intros b Hb. constructor; [apply Haktl; exact Hb|apply Hd'; exact Hb].
        * exact Hdd'.
  Qed.

  (* the interpolation loop *)
  Lemma poly_rns_loop_ok : forall todo I seen rsseen,
    ptodo_ok seen todo -> length seen = length rsseen ->
    Forall (fun ar => zeval I (fst ar) == snd ar) (combine seen rsseen) ->
    (length I <= length seen)%nat -> canon I ->
    let I' := poly_rns_loop p I todo in
    Forall (fun ar => zeval I' (fst ar) == snd ar) (combine seen rsseen ++ map fst todo) /\
    (length I' <= length seen + length todo)%nat /\ canon I'.
  Proof.
    induction todo as [|[[ai ri] cki] tl IH]; intros I seen rsseen Hok Hl HI Hlen Hc.
    - cbn [poly_rns_loop map length]. rewrite app_nil_r. repeat split; auto. lia.
    - cbn [poly_rns_loop map length fst snd]. cbn [ptodo_ok fst snd] in Hok.
      destruct Hok as (Hz & H1 & Hlck & Hcck & Hok).
      set (addon := (ri - peval p I ai) mod p).
      set (I1 := padd p I (pscale p addon cki)).
      assert (HI1 : Forall (fun ar => zeval I1 (fst ar) == snd ar) (combine (ai :: seen) (ri :: rsseen))).
      { cbn [combine]. constructor.
        - cbn [fst snd]. unfold I1. rewrite zeval_padd, zeval_pscale, H1. unfold addon. rewrite cg_mod, peval_zeval.
          replace (zeval I ai + (ri - zeval I ai) * 1) with ri by ring. reflexivity.
        - rewrite Forall_forall in *. intros ar Hin. unfold I1. rewrite zeval_padd, zeval_pscale.
          rewrite (Hz (fst ar)) by (destruct ar as [ar1 ar2]; apply in_combine_l in Hin; exact Hin).
          rewrite Z.mul_0_r, Z.add_0_r. apply HI. exact Hin. }
      destruct (IH I1 (ai :: seen) (ri :: rsseen) Hok) as (R1 & R2 & R3).
      + cbn [length]. lia.
      + exact HI1.
      + unfold I1. rewrite padd_length, pscale_length, Hlck. cbn [length]. lia.
      + apply padd_canon; [exact Hc|apply pscale_canon].
      + fold I1. repeat split; [|cbn [length] in R2; lia|exact R3].
        rewrite Forall_forall in *. intros ar Hin. apply R1. cbn [combine].
        apply in_app_or in Hin. destruct Hin as [Hin|[<-|Hin]].
        * apply in_or_app. left. right. exact Hin.
        * apply in_or_app. left. left. reflexivity.
        * apply in_or_app. right. exact Hin.
  Qed.

  (* pairwise distinct mod p *)
  Definition distinct_mod (pts : list Z) : Prop := ForallOrdPairs (fun a b => ~ (p | b - a)) pts.

  Definition Poly_interpolation_post (pts rs I : list Z) : Prop :=
    (length I <= length pts)%nat /\                       (* degree < number of points *)
    canon I /\                                            (* coefficients in [0, p) *)
    poly_RingToRns p pts I = map (fun r => r mod p) rs.   (* takes the given values: RingToRns (RnsToRing rs) = rs *)

  Lemma poly_ck_loop_length : forall rest prod prevpt, length (poly_ck_loop p prod prevpt rest) = length rest.
  Proof. induction rest as [|a tl IH]; intros; cbn [poly_ck_loop length]; [reflexivity|]. rewrite IH. reflexivity. Qed.

  Lemma peval_range : forall a x, 0 <= peval p a x < p.
  Proof. intros [|c a] x; cbn [peval fold_right]; [lia|apply Z.mod_pos_bound; exact Hpos]. Qed.

  Lemma map_combine_eq : forall (f g : Z -> Z) pts rs, length pts = length rs ->
    Forall (fun ar => f (fst ar) = g (snd ar)) (combine pts rs) -> map f pts = map g rs.
  Proof.
    induction pts as [|a pts IH]; intros [|r rs] Hl HF; try discriminate; [reflexivity|].
    cbn [combine map] in *. inversion HF; subst. f_equal; [assumption|]. apply IH; [cbn in Hl; lia|assumption].
  Qed.

  Lemma poly_RnsToRing_spec : forall pts rs, pts <> [] -> distinct_mod pts -> length rs = length pts ->
    Poly_interpolation_post pts rs (poly_RnsToRing p pts rs).
  Proof.
    intros [|a0 ps] rs Hne Hd Hl; [congruence|]. destruct rs as [|r0 rs]; [discriminate|].
    cbn [length] in Hl. unfold poly_RnsToRing, poly_ComputeCk.
    inversion Hd as [|? ? Ha0 Hd']; subst.
    assert (Hok : ptodo_ok [a0] (combine (combine ps rs) (poly_ck_loop p [1] a0 ps))).
    { apply (poly_ck_loop_ok ps [1] a0 [] rs).
      - intros x. cbn. reflexivity.
      - reflexivity.
      - rewrite Forall_forall in *. intros b Hb. constructor; [apply Ha0; exact Hb|constructor].
      - exact Hd'. }
    set (todo := combine (combine ps rs) (poly_ck_loop p [1] a0 ps)) in *.
    assert (Hlt : length todo = length ps).
    { unfold todo. rewrite !combine_length, poly_ck_loop_length. lia. }
    assert (Hft : map fst todo = combine ps rs).
    { unfold todo. apply map_fst_combine. rewrite combine_length, poly_ck_loop_length. lia. }
    destruct (poly_rns_loop_ok todo [r0 mod p] [a0] [r0] Hok eq_refl) as (R1 & R2 & R3).
    - constructor; [|constructor]. cbn [fst snd]. cbn. rewrite cg_mod. replace (0 * a0 + r0) with r0 by ring. reflexivity.
    - cbn. lia.
    - constructor; [apply Z.mod_pos_bound; exact Hpos|constructor].
    - rewrite Hft in R1. unfold Poly_interpolation_post. repeat split.
      + cbn [length] in *. lia.
      + exact R3.
      + unfold poly_RingToRns. apply map_combine_eq; [cbn [length]; lia|].
        cbn [combine app] in R1. cbn [combine]. rewrite Forall_forall in *. intros ar Hin.
        specialize (R1 ar Hin). rewrite <- peval_zeval in R1. apply cg_eq_mod in R1; [|exact Hpos].
        rewrite <- R1. symmetry. apply Z.mod_small. apply peval_range.
  Qed.
End Poly.

(* statement closed in Properties.v *)
Definition Poly_interpolation_stmt : Prop :=
  forall p pts rs, prime p -> pts <> [] -> distinct_mod p pts -> length rs = length pts ->
  Poly_interpolation_post p pts rs (poly_RnsToRing p pts rs).
(* ---------------------------------------------------------------- uniqueness of the interpolant (root counting over GF(p)) *)
Section Unique.
  Variable p : Z.
  Hypothesis Hp : prime p.
  Let Hpos : 0 < p. Proof. destruct Hp. lia. Qed.
  Local Notation "a == b" := (cg p a b) (at level 70).

  (* synthetic division by (X - x0), over Z: a = (X - x0) * sdiv a x0 + a(x0) *)
  Fixpoint sdiv (a : list Z) (x0 : Z) : list Z :=
    match a with
    | [] => []
    | c :: a' => match a' with [] => [] | _ => zeval a' x0 :: sdiv a' x0 end
    end.

  Lemma sdiv_spec : forall a x0 x, zeval a x = (x - x0) * zeval (sdiv a x0) x + zeval a x0.
  Proof.
    induction a as [|c a' IH]; intros x0 x; [cbn; ring|].
    destruct a' as [|d a''].
    - cbn. ring.
    - change (sdiv (c :: d :: a'') x0) with (zeval (d :: a'') x0 :: sdiv (d :: a'') x0).
      rewrite !(zeval_cons c), (zeval_cons (zeval (d :: a'') x0)). rewrite (IH x0 x). ring.
  Qed.

  Lemma sdiv_length : forall a x0, length (sdiv a x0) = pred (length a).
  Proof.
    induction a as [|c a' IH]; intros x0; [reflexivity|]. destruct a' as [|d a'']; [reflexivity|].
    change (sdiv (c :: d :: a'') x0) with (zeval (d :: a'') x0 :: sdiv (d :: a'') x0).
    cbn [length pred]. rewrite IH. reflexivity.
  Qed.

  Definition allzero (a : list Z) : Prop := Forall (fun c => c == 0) a.

  Lemma sdiv_allzero : forall a x0, allzero (sdiv a x0) -> zeval a x0 == 0 -> allzero a.
  Proof.
    induction a as [|c a' IH]; intros x0 Hq H0; [constructor|].
    destruct a' as [|d a''].
    - constructor; [|constructor]. cbn in H0. rewrite <- H0. replace (0 * x0 + c) with c by ring. reflexivity.
    - change (sdiv (c :: d :: a'') x0) with (zeval (d :: a'') x0 :: sdiv (d :: a'') x0) in Hq.
      inversion Hq as [|? ? Hq0 Hq']; subst.
      constructor; [|apply (IH x0); assumption].
      rewrite zeval_cons in H0. rewrite Hq0 in H0. rewrite <- H0. replace (0 * x0 + c) with c by ring. reflexivity.
  Qed.

  (* a polynomial with fewer coefficients than it has roots (pairwise distinct mod p) vanishes mod p *)
  Lemma roots_allzero : forall pts a, distinct_mod p pts -> (length a <= length pts)%nat ->
    (forall x, In x pts -> zeval a x == 0) -> allzero a.
  Proof.
    induction pts as [|x0 pts IH]; intros a Hd Hl Hr.
    - destruct a; [constructor|cbn in Hl; lia].
    - inversion Hd as [|? ? Hx0 Hd']; subst.
      apply (sdiv_allzero a x0); [|apply Hr; left; reflexivity].
      apply IH; [exact Hd'| |].
      + rewrite sdiv_length. cbn [length] in Hl. lia.
      + intros x Hin. assert (Hax : zeval a x == 0) by (apply Hr; right; exact Hin).
        rewrite (sdiv_spec a x0 x) in Hax. rewrite (Hr x0 (or_introl eq_refl)) in Hax. rewrite Z.add_0_r in Hax.
        unfold cg in *. rewrite Z.sub_0_r in *.
        rewrite Forall_forall in Hx0. specialize (Hx0 x Hin).
        destruct (prime_mult p Hp _ _ Hax) as [H|H]; [contradiction|exact H].
  Qed.

  (* coefficientwise difference over Z *)
  Fixpoint psub (a b : list Z) : list Z :=
    match a, b with
    | [], _ => map Z.opp b
    | _, [] => a
    | x :: a', y :: b' => (x - y) :: psub a' b'
    end.
  Lemma zeval_map_opp : forall b x, zeval (map Z.opp b) x = - zeval b x.
  Proof. induction b as [|c b IH]; intros x; [reflexivity|]. cbn [map]. rewrite !zeval_cons, IH. ring. Qed.
  Lemma zeval_psub : forall a b x, zeval (psub a b) x = zeval a x - zeval b x.
  Proof.
    induction a as [|c a IH]; intros b x.
    - cbn [psub]. rewrite zeval_map_opp. change (zeval [] x) with 0. ring.
    - destruct b as [|d b]; [cbn [psub]; change (zeval [] x) with 0; ring|].
      cbn [psub]. rewrite !zeval_cons, IH. ring.
  Qed.
  Lemma psub_length : forall a b, length (psub a b) = Nat.max (length a) (length b).
  Proof.
    induction a as [|c a IH]; intros b; [cbn [psub length Nat.max]; apply map_length|].
    destruct b as [|d b]; [reflexivity|]. cbn [psub length Nat.max]. rewrite IH. reflexivity.
  Qed.
  Lemma psub_nth : forall a b i, nth i (psub a b) 0 = nth i a 0 - nth i b 0.
  Proof.
    induction a as [|c a IH]; intros b i.
    - cbn [psub]. replace (nth i [] 0) with 0 by (destruct i; reflexivity).
      change 0 with (Z.opp 0) at 1. rewrite map_nth. ring.
    - destruct b as [|d b].
      + cbn [psub]. replace (nth i [] 0) with 0 by (destruct i; reflexivity). ring.
      + cbn [psub]. destruct i; cbn [nth]; [ring|apply IH].
  Qed.
  Lemma allzero_nth : forall a i, allzero a -> nth i a 0 == 0.
  Proof.
    induction a as [|c a IH]; intros i H; [destruct i; reflexivity|].
    inversion H; subst. destruct i; cbn [nth]; [assumption|apply IH; assumption].
  Qed.
  Lemma canon_nth : forall a i, canon p a -> 0 <= nth i a 0 < p.
  Proof.
    induction a as [|c a IH]; intros i H; [destruct i; cbn; lia|].
    inversion H; subst. destruct i; cbn [nth]; [assumption|apply IH; assumption].
  Qed.

  (* two canonical polynomials with at most n coefficients that agree (as evaluated by the code) on n distinct points are equal *)
  Lemma interpolant_unique : forall pts I J, distinct_mod p pts -> canon p I -> canon p J ->
    (length I <= length pts)%nat -> (length J <= length pts)%nat ->
    poly_RingToRns p pts J = poly_RingToRns p pts I -> forall i, nth i J 0 = nth i I 0.
  Proof.
    intros pts I J Hd HI HJ HlI HlJ He i.
    assert (Hz : allzero (psub J I)).
    { apply (roots_allzero pts); [exact Hd|rewrite psub_length; lia|].
      intros x Hin. rewrite zeval_psub.
      assert (Ex : peval p J x = peval p I x).
      { unfold poly_RingToRns in He. clear - He Hin. induction pts as [|y pts IH]; [destruct Hin|].
        cbn [map] in He. inversion He. destruct Hin as [->|Hin]; [assumption|apply IH; assumption]. }
      rewrite <- (peval_zeval p J x), <- (peval_zeval p I x), Ex. unfold cg. rewrite Z.sub_diag, Z.sub_0_r. apply Z.divide_0_r. }
    pose proof (allzero_nth _ i Hz) as Hn. rewrite psub_nth in Hn. unfold cg in Hn. rewrite Z.sub_0_r in Hn.
    apply (divide_mod_small p); [exact Hpos|exact Hn|apply canon_nth; exact HJ|apply canon_nth; exact HI].
  Qed.
End Unique.

(* the full law: existence (interpolation) and uniqueness *)
Definition Poly_crt_full_stmt : Prop :=
  forall p pts rs, prime p -> pts <> [] -> distinct_mod p pts -> length rs = length pts ->
  Poly_interpolation_post p pts rs (poly_RnsToRing p pts rs) /\
  (forall J, canon p J -> (length J <= length pts)%nat -> poly_RingToRns p pts J = map (fun r => r mod p) rs ->
             forall i, nth i J 0 = nth i (poly_RnsToRing p pts rs) 0) /\
  (* hence RnsToRing o RingToRns = id on canonical polynomials of degree < n *)
  (forall J, canon p J -> (length J <= length pts)%nat ->
             forall i, nth i (poly_RnsToRing p pts (poly_RingToRns p pts J)) 0 = nth i J 0).
Lemma poly_interpolation : Poly_interpolation_stmt.
Proof. intros p pts rs Hp. apply poly_RnsToRing_spec. exact Hp. Qed.

Lemma peval_mod_id : forall p a x, 0 < p -> peval p a x mod p = peval p a x.
Proof. intros p [|c a] x Hp; cbn [peval fold_right]; [apply Z.mod_0_l; lia|apply Z.mod_mod; lia]. Qed.

Lemma poly_crt_full : Poly_crt_full_stmt.
Proof.
  intros p pts rs Hp Hne Hd Hl.
  pose proof (poly_interpolation p pts rs Hp Hne Hd Hl) as (L1 & C1 & E1).
  split; [repeat split; assumption|]. split.
  - intros J HJ HlJ EJ. apply (interpolant_unique p Hp pts); auto. rewrite EJ, E1. reflexivity.
  - intros J HJ HlJ i.
    assert (Hl2 : length (poly_RingToRns p pts J) = length pts) by (unfold poly_RingToRns; apply map_length).
    pose proof (poly_interpolation p pts (poly_RingToRns p pts J) Hp Hne Hd Hl2) as (L2 & C2 & E2).
    symmetry. apply (interpolant_unique p Hp pts); auto.
    rewrite E2. unfold poly_RingToRns. rewrite map_map. apply map_ext. intros x. symmetry. apply peval_mod_id.
    destruct Hp; lia.
Qed.

Example poly_example : prime 7 /\ distinct_mod 7 [1; 2; 3] /\ poly_RnsToRing 7 [1; 2; 3] [1; 4; 2] = [0; 0; 1].
Proof.
  split; [apply prime_intro; [lia|]; intros n Hn; assert (n = 1 \/ n = 2 \/ n = 3 \/ n = 4 \/ n = 5 \/ n = 6) as [->|[->|[->|[->|[->| ->]]]]] by lia;
          apply Zgcd_1_rel_prime; reflexivity|].
  split; [|vm_compute; reflexivity].
  repeat constructor; intros [k Hk]; lia.
Qed.
