(* C14 proofs, part 3: the conversions as a pair of mutually inverse maps, the system objects with their lazy
   caches under every history of construction / copy / assignment / setPrimes / use, and the two-modulus functor. *)
From Coq Require Import ZArith Znumtheory Bool List Lia.
From C14 Require Import Model ProofsArith ProofsGarner.
Import ListNotations.
Local Open Scope Z_scope.
Ltac Zify.zify_post_hook ::= Z.div_mod_to_equations.

(* ---------------------------------------------------------------- Z-level conversions *)
Definition RnsToRing_int (ps rs : list Z) : Z :=
  MixedRadixToRing ps (RnsToMixedRadix_int ps (ComputeCk_int ps) rs).
Definition RnsToRing_dom (ps rs : list Z) : Z :=
  MixedRadixToRing ps (RnsToMixedRadix_dom ps (ComputeCk_dom ps) rs).

(* residues are canonical *)
Definition canonical (rs ps : list Z) : Prop := Forall2 (fun r p => 0 <= r < p) rs ps.

Lemma canonical_length : forall rs ps, canonical rs ps -> length rs = length ps.
Proof. induction 1; cbn [length]; [reflexivity|]. f_equal; assumption. Qed.

Lemma canonical_hd : forall rs ps, ps <> [] -> canonical rs ps -> 0 <= hd 0 rs < hd 1 ps.
Proof. intros rs ps Hne H. destruct H; [congruence|]. cbn [hd]. assumption. Qed.

Lemma Forall2_map_eq : forall (f : Z -> Z) ps rs, Forall2 (fun p r => f p = r) ps rs -> map f ps = rs.
Proof. induction 1; cbn [map]; [reflexivity|]. f_equal; assumption. Qed.

Lemma Forall2_map_r : forall (R : Z -> Z -> Prop) (f : Z -> Z) l,
  Forall2 R l (map f l) -> Forall (fun x => R x (f x)) l.
Proof. induction l; intros H; cbn [map] in H; inversion H; subst; constructor; auto. Qed.

Section Inverse.
  (* for either variant of RnsToMixedRadix *)
  Variable R2M : list Z -> list Z -> list Z.
  Hypothesis R2M_spec : forall ps rs, ps <> [] -> good_moduli ps -> length rs = length ps ->
      0 <= hd 0 rs < hd 1 ps -> Garner_post ps rs (R2M ps rs).
  Let R2R ps rs := MixedRadixToRing ps (R2M ps rs).

  Lemma RingToRns_RnsToRing_gen : forall ps rs, ps <> [] -> good_moduli ps -> canonical rs ps ->
    RingToRns ps (R2R ps rs) = rs.
  Proof.
    intros ps rs Hne Hg Hc.
    destruct (R2M_spec ps rs Hne Hg (canonical_length _ _ Hc) (canonical_hd _ _ Hne Hc)) as (_ & _ & _ & Hres).
    unfold RingToRns. apply Forall2_map_eq. unfold R2R.
    set (V := MixedRadixToRing ps (R2M ps rs)) in *. clearbody V.
    revert Hres. clear - Hc. intro Hres. revert Hres.
    induction Hc as [|r p rs ps Hr Hc IH]; intros Hres; inversion Hres as [|? ? ? ? H1 H2]; subst; constructor.
    - rewrite H1. apply Z.mod_small; exact Hr.
    - apply IH; assumption.
  Qed.

  Lemma RnsToRing_RingToRns_gen : forall ps a, ps <> [] -> good_moduli ps ->
    R2R ps (RingToRns ps a) = a mod prodl ps.
  Proof.
    intros ps a Hne Hg. pose proof Hg as [Hpos Hcop].
    assert (HP : 0 < prodl ps) by (apply prodl_pos; exact Hpos).
    assert (Hhd : 0 <= hd 0 (RingToRns ps a) < hd 1 ps).
    { destruct ps as [|p0 ps]; [congruence|]. cbn [RingToRns map hd]. inversion Hpos; subst.
      apply Z.mod_pos_bound; assumption. }
    destruct (R2M_spec ps (RingToRns ps a) Hne Hg ltac:(unfold RingToRns; apply map_length) Hhd) as (_ & _ & Hrange & Hres).
    apply (crt_unique ps); auto.
    - apply Z.mod_pos_bound; exact HP.
    - unfold RingToRns in Hres. apply Forall2_map_r in Hres.
      unfold allpos in Hpos. rewrite Forall_forall in *. intros p Hin. fold (R2R ps (map (fun p => a mod p) ps)) in Hres.
      change (RingToRns ps a) with (map (fun p => a mod p) ps).
      rewrite (Hres p Hin). rewrite Z.mod_mod by (specialize (Hpos p Hin); lia).
      apply Zmod_div_mod; [apply Hpos; exact Hin|exact HP|apply prodl_divide; exact Hin].
  Qed.
End Inverse.

(* ---------------------------------------------------------------- IntRNSsystem objects *)
(* invariant of the caches: each holds the value ComputeCk / ComputeProd compute for the primes of the object
   (for an object without primes: the empty table and the empty product 1) *)
Definition int_wf (S : IntRNS) : Prop :=
  i_ck S = ComputeCk_int (i_primes S) /\ i_prod S = prodl (i_primes S).

Lemma int_ensure_ck_spec : forall S, i_ck S = [] \/ i_ck S = ComputeCk_int (i_primes S) ->
  i_ck (int_ensure_ck S) = ComputeCk_int (i_primes S) /\ i_primes (int_ensure_ck S) = i_primes S /\
  i_prod (int_ensure_ck S) = i_prod S.
Proof.
  intros S Hck. unfold int_ensure_ck. destruct (i_ck S) eqn:E.
  - cbn [i_primes i_ck i_prod]. auto.
  - destruct Hck as [Hck|Hck]; [discriminate|]. rewrite E. auto.
Qed.

Lemma int_ensure_prod_spec : forall S, i_prod S = 1 \/ i_prod S = prodl (i_primes S) ->
  i_prod (int_ensure_prod S) = prodl (i_primes S) /\ i_primes (int_ensure_prod S) = i_primes S /\
  i_ck (int_ensure_prod S) = i_ck S.
Proof.
  intros S Hp. unfold int_ensure_prod. destruct (Z.eqb_spec (i_prod S) 1) as [E|E].
  - cbn [i_primes i_prod i_ck]. rewrite E, fold_left_mul, Z.mul_1_l. auto.
  - destruct Hp as [Hp|Hp]; [congruence|]. auto.
Qed.

Lemma int_mk_tt_wf : forall ps, int_wf (int_mk_tt CkEmpty ps) /\ i_primes (int_mk_tt CkEmpty ps) = ps.
Proof.
  intros ps. unfold int_mk_tt.
  destruct (int_ensure_prod_spec (mkIntRNS ps 1 [])) as (P1 & P2 & P3); [left; reflexivity|].
  destruct (int_ensure_ck_spec (int_ensure_prod (mkIntRNS ps 1 []))) as (C1 & C2 & C3); [left; rewrite P3; reflexivity|].
  cbn [i_primes] in *. unfold int_wf. rewrite C1, C2, C3, P1, P2. auto.
Qed.
Lemma int_mk_wf : forall ps, int_wf (int_mk ps) /\ i_primes (int_mk ps) = ps.
Proof. exact int_mk_tt_wf. Qed.

Lemma int_RnsToMixedRadix_spec : forall S rs, int_wf S ->
  int_wf (fst (int_RnsToMixedRadix S rs)) /\ i_primes (fst (int_RnsToMixedRadix S rs)) = i_primes S /\
  snd (int_RnsToMixedRadix S rs) = RnsToMixedRadix_int (i_primes S) (ComputeCk_int (i_primes S)) rs.
Proof.
  intros S rs [Hc Hp]. unfold int_RnsToMixedRadix. cbn [fst snd].
  destruct (int_ensure_ck_spec S (or_intror Hc)) as (C & P & Q). unfold int_wf. rewrite P, C, Q. auto.
Qed.

Lemma int_RnsToRing_spec : forall S rs, int_wf S ->
  int_wf (fst (int_RnsToRing S rs)) /\ i_primes (fst (int_RnsToRing S rs)) = i_primes S /\
  snd (int_RnsToRing S rs) = RnsToRing_int (i_primes S) rs.
Proof.
  intros S rs H. unfold int_RnsToRing.
  destruct (int_RnsToMixedRadix_spec S rs H) as (W & P & M).
  destruct (int_RnsToMixedRadix S rs) as [S' mix]. cbn [fst snd] in *. rewrite P, M. auto.
Qed.

Lemma int_product_spec : forall S, int_wf S ->
  int_wf (fst (int_product S)) /\ i_primes (fst (int_product S)) = i_primes S /\
  snd (int_product S) = prodl (i_primes S).
Proof. intros S H. unfold int_product. cbn [fst snd]. repeat split; apply H. Qed.

Lemma int_Reciprocals_spec : forall S, int_wf S ->
  int_wf (fst (int_Reciprocals S)) /\ i_primes (fst (int_Reciprocals S)) = i_primes S /\
  snd (int_Reciprocals S) = ComputeCk_int (i_primes S).
Proof. intros S H. unfold int_Reciprocals. cbn [fst snd]. repeat split; apply H. Qed.

(* every way of obtaining an IntRNSsystem object: constructors, copy, assignment, and any earlier use *)
Inductive iexp : Type :=
  | Imk (ps : list Z)                 (* IntRNSsystem(const array& primes) *)
  | Imktt (ps : list Z)               (* the templated converting constructor IntRNSsystem(const Container<TT,Alloc<TT>>&) *)
  | Idefault                          (* IntRNSsystem() *)
  | Icopy (e : iexp)                  (* IntRNSsystem(const IntRNSsystem&) *)
  | Iassign (dst src : iexp)          (* operator= *)
  | Imix (e : iexp) (rs : list Z)     (* the object after RnsToMixedRadix(rs) *)
  | Irns (e : iexp) (rs : list Z)     (* the object after RnsToRing(rs) *)
  | Iprod (e : iexp)                  (* the object after product() *)
  | Irecip (e : iexp).                (* the object after Reciprocals() / reciprocal(i) *)

Fixpoint ieval (src : cksrc) (ci : ckinit) (e : iexp) : IntRNS :=
  match e with
  | Imk ps => int_mk ps
  | Imktt ps => int_mk_tt ci ps
  | Idefault => int_default
  | Icopy e => int_copy src (ieval src ci e)
  | Iassign d s => int_assign (ieval src ci d) (ieval src ci s)
  | Imix e rs => fst (int_RnsToMixedRadix (ieval src ci e) rs)
  | Irns e rs => fst (int_RnsToRing (ieval src ci e) rs)
  | Iprod e => fst (int_product (ieval src ci e))
  | Irecip e => fst (int_Reciprocals (ieval src ci e))
  end.

(* the moduli the object is meant to stand for *)
Fixpoint iprimes (e : iexp) : list Z :=
  match e with
  | Imk ps | Imktt ps => ps
  | Idefault => []
  | Icopy e => iprimes e
  | Iassign d s => iprimes s
  | Imix e _ | Irns e _ | Iprod e | Irecip e => iprimes e
  end.

Lemma ieval_wf : forall e, int_wf (ieval FromCk CkEmpty e) /\ i_primes (ieval FromCk CkEmpty e) = iprimes e.
Proof.
  induction e as [ps|ps| |e IH|d IHd s IHs|e IH rs|e IH rs|e IH|e IH]; cbn [ieval iprimes].
  - apply int_mk_wf.
  - apply int_mk_tt_wf.
  - split; [split; reflexivity|reflexivity].
  - destruct IH as [W P]. unfold int_copy. split; [exact W|exact P].
  - exact IHs.
  - destruct IH as [W P]. destruct (int_RnsToMixedRadix_spec _ rs W) as (W' & P' & _). split; [exact W'|congruence].
  - destruct IH as [W P]. destruct (int_RnsToRing_spec _ rs W) as (W' & P' & _). split; [exact W'|congruence].
  - destruct IH as [W P]. destruct (int_product_spec _ W) as (W' & P' & _). split; [exact W'|congruence].
  - destruct IH as [W P]. destruct (int_Reciprocals_spec _ W) as (W' & P' & _). split; [exact W'|congruence].
Qed.

(* the histories of the correspondence run are instances *)
Definition hexp (tt : bool) (h : hist) (primes other : list Z) : iexp :=
  let mk := if tt then Imktt else Imk in
  let warm e := Iprod (Irns e (ones (length (iprimes e)))) in
  match h with
  | Hfresh => mk primes
  | Hreuse => Irns (mk primes) (ones (length primes))
  | Hcopycold => Icopy (mk primes)
  | Hcopywarm => Icopy (warm (mk primes))
  | Hcopy2 => Icopy (Icopy (Irns (mk primes) (ones (length primes))))
  | Hassigncold => Iassign Idefault (mk primes)
  | Hassignwarm => Iassign (warm (Imk other)) (warm (mk primes))
  | Hsetcold | Hsetwarm => mk primes
  end.
Lemma int_obtain_hexp : forall src ci (tt : bool) h primes other,
  int_obtain src (if tt then int_mk_tt ci else int_mk) h primes other = ieval src ci (hexp tt h primes other).
Proof. intros src ci tt h primes other. destruct tt, h; reflexivity. Qed.

(* ---------------------------------------------------------------- RNSsystem<RING,Domain> objects *)
Definition dom_wf (S : DomRNS) : Prop := d_ck S = ComputeCk_dom (d_primes S).

Lemma dom_ensure_ck_spec : forall S, d_ck S = [] \/ d_ck S = ComputeCk_dom (d_primes S) ->
  dom_wf (dom_ensure_ck S) /\ d_primes (dom_ensure_ck S) = d_primes S /\
  d_ck (dom_ensure_ck S) = ComputeCk_dom (d_primes S).
Proof.
  intros S Hck. unfold dom_ensure_ck, dom_wf. destruct (d_ck S) eqn:E.
  - cbn [d_primes d_ck]. auto.
  - destruct Hck as [Hck|Hck]; [congruence|]. rewrite E. auto.
Qed.

Lemma dom_mk_wf : forall ps, dom_wf (dom_mk ps) /\ d_primes (dom_mk ps) = ps.
Proof.
  intros ps. unfold dom_mk. destruct (dom_ensure_ck_spec (mkDomRNS ps [])) as (W & P & _); [left; reflexivity|]. auto.
Qed.

Lemma dom_RnsToMixedRadix_spec : forall S rs, dom_wf S ->
  dom_wf (fst (dom_RnsToMixedRadix S rs)) /\ d_primes (fst (dom_RnsToMixedRadix S rs)) = d_primes S /\
  snd (dom_RnsToMixedRadix S rs) = RnsToMixedRadix_dom (d_primes S) (ComputeCk_dom (d_primes S)) rs.
Proof.
  intros S rs H. unfold dom_RnsToMixedRadix. cbn [fst snd].
  destruct (dom_ensure_ck_spec S (or_intror H)) as (W & P & C). rewrite P, C. auto.
Qed.

Lemma dom_RnsToRing_spec : forall S rs, dom_wf S ->
  dom_wf (fst (dom_RnsToRing S rs)) /\ d_primes (fst (dom_RnsToRing S rs)) = d_primes S /\
  snd (dom_RnsToRing S rs) = RnsToRing_dom (d_primes S) rs.
Proof.
  intros S rs H. unfold dom_RnsToRing.
  destruct (dom_RnsToMixedRadix_spec S rs H) as (W & P & M).
  destruct (dom_RnsToMixedRadix S rs) as [S' mix]. cbn [fst snd] in *. rewrite P, M. auto.
Qed.

Lemma dom_Reciprocals_spec : forall S, dom_wf S ->
  dom_wf (fst (dom_Reciprocals S)) /\ d_primes (fst (dom_Reciprocals S)) = d_primes S /\
  snd (dom_Reciprocals S) = ComputeCk_dom (d_primes S).
Proof. intros S H. unfold dom_Reciprocals. cbn [fst snd]. auto. Qed.

Inductive dexp : Type :=
  | Dmk (ps : list Z)                 (* RNSsystem(domains) *)
  | Ddefault                          (* RNSsystem() *)
  | Dcopy (e : dexp)                  (* RNSsystem(const Self_t&) *)
  | Dassign (dst src : dexp)          (* operator= *)
  | Dset (e : dexp) (ps : list Z)     (* setPrimes(domains) on an existing object *)
  | Dmix (e : dexp) (rs : list Z)
  | Drns (e : dexp) (rs : list Z)
  | Drecip (e : dexp).

Fixpoint deval (e : dexp) : DomRNS :=
  match e with
  | Dmk ps => dom_mk ps
  | Ddefault => dom_default
  | Dcopy e => dom_copy (deval e)
  | Dassign d s => dom_assign (deval d) (deval s)
  | Dset e ps => dom_setPrimes (deval e) ps
  | Dmix e rs => fst (dom_RnsToMixedRadix (deval e) rs)
  | Drns e rs => fst (dom_RnsToRing (deval e) rs)
  | Drecip e => fst (dom_Reciprocals (deval e))
  end.

Fixpoint dprimes (e : dexp) : list Z :=
  match e with
  | Dmk ps => ps
  | Ddefault => []
  | Dcopy e => dprimes e
  | Dassign d s => dprimes s
  | Dset _ ps => ps
  | Dmix e _ | Drns e _ | Drecip e => dprimes e
  end.

Lemma deval_wf : forall e, dom_wf (deval e) /\ d_primes (deval e) = dprimes e.
Proof.
  induction e as [ps| |e IH|d IHd s IHs|e IH ps|e IH rs|e IH rs|e IH]; cbn [deval dprimes].
  - apply dom_mk_wf.
  - split; reflexivity.
  - destruct IH as [W P]. unfold dom_copy, dom_wf in *. cbn [d_ck d_primes]. split; [exact W|exact P].
  - exact IHs.
  - apply dom_mk_wf.
  - destruct IH as [W P]. destruct (dom_RnsToMixedRadix_spec _ rs W) as (W' & P' & _). split; [exact W'|congruence].
  - destruct IH as [W P]. destruct (dom_RnsToRing_spec _ rs W) as (W' & P' & _). split; [exact W'|congruence].
  - destruct IH as [W P]. destruct (dom_Reciprocals_spec _ W) as (W' & P' & _). split; [exact W'|congruence].
Qed.

Definition hdexp (h : hist) (primes other : list Z) : dexp :=
  let warm e := Drns e (ones (length (dprimes e))) in
  match h with
  | Hfresh => Dmk primes
  | Hreuse => warm (Dmk primes)
  | Hcopycold => Dcopy (Dmk primes)
  | Hcopywarm => Dcopy (warm (Dmk primes))
  | Hcopy2 => Dcopy (Dcopy (warm (Dmk primes)))
  | Hassigncold => Dassign Ddefault (Dmk primes)
  | Hassignwarm => Dassign (warm (Dmk other)) (warm (Dmk primes))
  | Hsetcold => Dset Ddefault primes
  | Hsetwarm => Dset (warm (Dmk other)) primes
  end.
Lemma dom_obtain_hdexp : forall h primes other, dom_obtain h primes other = deval (hdexp h primes other).
Proof. intros h primes other. destruct h; reflexivity. Qed.

(* ---------------------------------------------------------------- statements (closed in Properties.v) *)

(* (1) the reciprocal table: c_k (p_0 ... p_{k-1}) == 1 (mod p_k), 0 <= c_k < p_k, for k >= 1 *)
Fixpoint ck_table_ok (P : Z) (ps cks : list Z) : Prop :=
  match ps, cks with
  | [], [] => True
  | p :: ps', c :: cks' => (p | c * P - 1) /\ 0 <= c < p /\ ck_table_ok (p * P) ps' cks'
  | _, _ => False
  end.
Definition Reciprocals_stmt (compute : list Z -> list Z) : Prop :=
  forall p0 ps, good_moduli (p0 :: ps) ->
  exists c0 cks, compute (p0 :: ps) = c0 :: cks /\ ck_table_ok p0 ps cks.

Lemma ck_loop_table : forall ckprod,
  (forall pk prev, 0 < pk -> ckprod pk prev mod pk = prodl prev mod pk) ->
  forall rest prev, allpos rest -> pcop rest ->
  Forall (fun q => Forall (fun p => Z.gcd q p = 1) rest) prev ->
  ck_table_ok (prodl prev) rest (ck_loop ckprod prev rest).
Proof.
  intros ckprod Hck. induction rest as [|pk tl IH]; intros prev Hpos Hc Hprev; [exact I|].
  cbn [ck_loop ck_table_ok]. inversion Hpos as [|? ? Hpk Hpos']; subst. destruct Hc as [Hpktl Hc].
  assert (Hg : Z.gcd (prodl prev) pk = 1).
  { apply gcd_prodl. eapply Forall_impl; [|exact Hprev]. intros q Hq. cbn beta in Hq. inversion Hq; subst. assumption. }
  rewrite (invmod_cong _ (prodl prev)) by (apply Hck; exact Hpk).
  destruct (invmod_spec (prodl prev) pk Hpk Hg) as [Hd Hr]. repeat split; try exact Hd; try apply Hr.
  replace (pk * prodl prev) with (prodl (prev ++ [pk]))
    by (rewrite prodl_app, prodl_cons; change (prodl []) with 1; ring).
  apply IH; [exact Hpos'|exact Hc|]. apply Forall_app. split.
  - eapply Forall_impl; [|exact Hprev]. intros q Hq. cbn beta in Hq. inversion Hq; subst. assumption.
  - constructor; [exact Hpktl|constructor].
Qed.

Lemma reciprocals_int : Reciprocals_stmt ComputeCk_int.
Proof.
  intros p0 ps [Hpos Hc]. inversion Hpos; subst. destruct Hc as [Hc0 Hc].
  exists 0, (ck_loop ck_prod_int [p0] ps). split; [reflexivity|].
  replace p0 with (prodl [p0]) at 1 by (cbn; lia).
  apply ck_loop_table; auto using ck_prod_int_ok.
Qed.
Lemma reciprocals_dom : Reciprocals_stmt ComputeCk_dom.
Proof.
  intros p0 ps [Hpos Hc]. inversion Hpos; subst. destruct Hc as [Hc0 Hc].
  exists 0, (ck_loop ck_prod_dom [p0] ps). split; [reflexivity|].
  replace p0 with (prodl [p0]) at 1 by (cbn; lia).
  apply ck_loop_table; auto using ck_prod_dom_ok.
Qed.

(* (2) mixed radix digits and reconstruction.  IntRNSsystem copies residu[0] unreduced into mixrad[0]
   (residu[i], i >= 1, may be any representative), hence the hypothesis on the first residue only. *)
Definition Garner_stmt (R2M : list Z -> list Z -> list Z) : Prop :=
  forall ps rs, ps <> [] -> good_moduli ps -> length rs = length ps -> 0 <= hd 0 rs < hd 1 ps ->
  let mix := R2M ps rs in
  let V := MixedRadixToRing ps mix in
  length mix = length ps /\
  Forall2 (fun m p => 0 <= m < p) mix ps /\          (* every digit below its modulus *)
  0 <= V < prodl ps /\                                (* value in [0, product) *)
  Forall2 (fun p r => V mod p = r mod p) ps rs.       (* with the given residues *)

Lemma garner_int : Garner_stmt (fun ps rs => RnsToMixedRadix_int ps (ComputeCk_int ps) rs).
Proof. exact RnsToMixedRadix_int_spec. Qed.
Lemma garner_dom : Garner_stmt (fun ps rs => RnsToMixedRadix_dom ps (ComputeCk_dom ps) rs).
Proof. exact RnsToMixedRadix_dom_spec. Qed.

(* (3) uniqueness *)
Definition Unique_stmt : Prop :=
  forall ps x y, good_moduli ps -> 0 <= x < prodl ps -> 0 <= y < prodl ps ->
  Forall (fun p => x mod p = y mod p) ps -> x = y.
Lemma unique : Unique_stmt.
Proof. intros ps x y [Hp Hc]. apply crt_unique; assumption. Qed.

(* ... and the coprimality hypothesis is necessary: 0 and 12 are two integers of [0, 4*6) with the same residues mod 4 and 6 *)
Definition Unique_no_coprime_stmt : Prop :=
  forall ps x y, allpos ps -> 0 <= x < prodl ps -> 0 <= y < prodl ps ->
  Forall (fun p => x mod p = y mod p) ps -> x = y.
Lemma unique_needs_coprime : ~ Unique_no_coprime_stmt.
Proof.
  intro H. specialize (H [4; 6] 0 12). cbn in H.
  assert (E : 0 = 12); [|discriminate E].
  apply H; try lia; repeat constructor; lia.
Qed.

(* (4) the conversions are mutually inverse *)
Definition Inverse_stmt (R2R : list Z -> list Z -> Z) : Prop :=
  forall ps, ps <> [] -> good_moduli ps ->
  (forall rs, canonical rs ps -> RingToRns ps (R2R ps rs) = rs) /\
  (forall a, R2R ps (RingToRns ps a) = a mod prodl ps) /\
  (forall a, canonical (RingToRns ps a) ps).

Lemma RingToRns_canonical : forall ps a, allpos ps -> canonical (RingToRns ps a) ps.
Proof.
  induction 1; cbn [RingToRns map]; constructor; [apply Z.mod_pos_bound; assumption|assumption].
Qed.

Lemma inverse_int : Inverse_stmt RnsToRing_int.
Proof.
  intros ps Hne Hg. repeat split.
  - intros rs Hc. apply (RingToRns_RnsToRing_gen _ RnsToMixedRadix_int_spec); assumption.
  - intros a. apply (RnsToRing_RingToRns_gen _ RnsToMixedRadix_int_spec); assumption.
  - intros a. apply RingToRns_canonical. apply Hg.
Qed.
Lemma inverse_dom : Inverse_stmt RnsToRing_dom.
Proof.
  intros ps Hne Hg. repeat split.
  - intros rs Hc. apply (RingToRns_RnsToRing_gen _ RnsToMixedRadix_dom_spec); assumption.
  - intros a. apply (RnsToRing_RingToRns_gen _ RnsToMixedRadix_dom_spec); assumption.
  - intros a. apply RingToRns_canonical. apply Hg.
Qed.

(* (5) the answers of a system object do not depend on how it was obtained *)
Definition Int_history_stmt (src : cksrc) (ci : ckinit) : Prop :=
  forall (e : iexp) (rs : list Z) (a : Z),
  let S := ieval src ci e in
  snd (int_RnsToMixedRadix S rs) = RnsToMixedRadix_int (iprimes e) (ComputeCk_int (iprimes e)) rs /\
  snd (int_RnsToRing S rs) = RnsToRing_int (iprimes e) rs /\
  snd (int_product S) = prodl (iprimes e) /\
  snd (int_Reciprocals S) = ComputeCk_int (iprimes e) /\
  int_RingToRns S a = RingToRns (iprimes e) a.

Lemma int_history : Int_history_stmt FromCk CkEmpty.
Proof.
  intros e rs a S. destruct (ieval_wf e) as [W P]. fold S in W, P.
  destruct (int_RnsToMixedRadix_spec S rs W) as (_ & _ & E1).
  destruct (int_RnsToRing_spec S rs W) as (_ & _ & E2).
  destruct (int_product_spec S W) as (_ & _ & E3).
  destruct (int_Reciprocals_spec S W) as (_ & _ & E4).
  rewrite E1, E2, E3, E4. unfold int_RingToRns. rewrite P. auto.
Qed.

(* the copy map of the unrepaired constructor, _ck(R._primes), does not have the property *)
Lemma int_history_from_primes_refuted : ~ Int_history_stmt FromPrimes CkEmpty.
Proof.
  intro H. destruct (H (Icopy (Imk [3; 5; 7])) [1; 2; 3] 0) as (_ & E & _).
  vm_compute in E. discriminate E.
Qed.

(* a converting constructor that sizes _ck in its initialiser list (ComputeCk then sees a non-empty table of zeros
   and returns at once) does not have the property either: moduli 3, 5, 7 from a vector<int>, residues of 52 *)
Lemma int_history_presized_refuted : ~ Int_history_stmt FromCk CkSized.
Proof.
  intro H. destruct (H (Imktt [3; 5; 7]) [1; 2; 3] 0) as (_ & E & _).
  vm_compute in E. discriminate E.
Qed.

Definition Dom_history_stmt : Prop :=
  forall (e : dexp) (rs : list Z) (a : Z),
  let S := deval e in
  snd (dom_RnsToMixedRadix S rs) = RnsToMixedRadix_dom (dprimes e) (ComputeCk_dom (dprimes e)) rs /\
  snd (dom_RnsToRing S rs) = RnsToRing_dom (dprimes e) rs /\
  snd (dom_Reciprocals S) = ComputeCk_dom (dprimes e) /\
  dom_RingToRns S a = RingToRns (dprimes e) a.

Lemma dom_history : Dom_history_stmt.
Proof.
  intros e rs a S. destruct (deval_wf e) as [W P]. fold S in W, P.
  destruct (dom_RnsToMixedRadix_spec S rs W) as (_ & _ & E1).
  destruct (dom_RnsToRing_spec S rs W) as (_ & _ & E2).
  destruct (dom_Reciprocals_spec S W) as (_ & _ & E4).
  rewrite E1, E2, E4. unfold dom_RingToRns. rewrite P. auto.
Qed.

(* (6) end to end: whatever the history, RnsToRing returns THE integer of [0, prod) with the given residues *)
Definition Int_end_to_end_stmt : Prop :=
  forall (e : iexp) (rs : list Z), iprimes e <> [] -> good_moduli (iprimes e) -> canonical rs (iprimes e) ->
  let V := snd (int_RnsToRing (ieval FromCk CkEmpty e) rs) in
  0 <= V < prodl (iprimes e) /\ RingToRns (iprimes e) V = rs /\
  forall x, 0 <= x < prodl (iprimes e) -> RingToRns (iprimes e) x = rs -> x = V.

Lemma RingToRns_eq_Forall : forall ps x y, RingToRns ps x = RingToRns ps y -> Forall (fun p => x mod p = y mod p) ps.
Proof.
  induction ps as [|p ps IH]; intros x y H; [constructor|].
  cbn [RingToRns map] in H. inversion H. constructor; [assumption|]. apply IH. assumption.
Qed.

Lemma int_end_to_end : Int_end_to_end_stmt.
Proof.
  intros e rs Hne Hg Hc V.
  destruct (int_history e rs 0) as (_ & E & _). unfold V. rewrite E.
  destruct (garner_int (iprimes e) rs Hne Hg (canonical_length _ _ Hc) (canonical_hd _ _ Hne Hc)) as (_ & _ & Hr & _).
  destruct (inverse_int (iprimes e) Hne Hg) as (I1 & _ & _).
  fold (RnsToRing_int (iprimes e) rs) in Hr.
  split; [exact Hr|]. split; [apply I1; exact Hc|].
  intros x Hx Hxr. apply (unique (iprimes e)); auto.
  apply RingToRns_eq_Forall. rewrite Hxr. symmetry. apply I1. exact Hc.
Qed.

Definition Dom_end_to_end_stmt : Prop :=
  forall (e : dexp) (rs : list Z), dprimes e <> [] -> good_moduli (dprimes e) -> canonical rs (dprimes e) ->
  let V := snd (dom_RnsToRing (deval e) rs) in
  0 <= V < prodl (dprimes e) /\ RingToRns (dprimes e) V = rs /\
  forall x, 0 <= x < prodl (dprimes e) -> RingToRns (dprimes e) x = rs -> x = V.

Lemma dom_end_to_end : Dom_end_to_end_stmt.
Proof.
  intros e rs Hne Hg Hc V.
  destruct (dom_history e rs 0) as (_ & E & _). unfold V. rewrite E.
  destruct (garner_dom (dprimes e) rs Hne Hg (canonical_length _ _ Hc) (canonical_hd _ _ Hne Hc)) as (_ & _ & Hr & _).
  destruct (inverse_dom (dprimes e) Hne Hg) as (I1 & _ & _).
  fold (RnsToRing_dom (dprimes e) rs) in Hr.
  split; [exact Hr|]. split; [apply I1; exact Hc|].
  intros x Hx Hxr. apply (unique (dprimes e)); auto.
  apply RingToRns_eq_Forall. rewrite Hxr. symmetry. apply I1. exact Hc.
Qed.

(* ---------------------------------------------------------------- the two-modulus functor *)
Lemma invmod_mod : forall M D, invmod (M mod D) D = invmod M D.
Proof. intros. apply invmod_cong. destruct (Z.eq_dec D 0) as [->|H]; [rewrite !Zmod_0_r; reflexivity|apply Z.mod_mod; exact H]. Qed.

(* as coded after the repair (and the shape a repaired functor must have): the unique lift *)
Definition Functor_canonical_stmt (f : Z -> Z -> Z -> Z -> Z) : Prop :=
  forall M D A e, 0 <= A < M -> 0 < D -> Z.gcd M D = 1 ->
  let res := f M D A e in
  0 <= res < M * D /\ res mod M = A /\ res mod D = e mod D /\
  forall x, 0 <= x < M * D -> x mod M = A -> x mod D = e mod D -> x = res.

Lemma functor_fixed_canonical : Functor_canonical_stmt cra_reduce_fixed.
Proof.
  intros M D A e HA HD Hg res.
  assert (Hres : 0 <= res < M * D /\ res mod M = A /\ res mod D = e mod D).
  { unfold res, cra_reduce_fixed. rewrite invmod_mod.
    destruct (invmod_spec M D HD Hg) as [[k Hk] Hu]. set (u := invmod M D) in *.
    set (s := (e - A mod D) mod D).
    set (t := (s * u) mod D).
    assert (Ht : 0 <= t < D) by (apply Z.mod_pos_bound; exact HD).
    split; [nia|]. split.
    - rewrite Z.add_comm, Z_mod_plus_full. apply Z.mod_small; exact HA.
    - apply mod_eq_divide; [exact HD|].
      pose proof (Z.div_mod (s * u) D ltac:(lia)) as D1. fold t in D1.
      pose proof (Z.div_mod (e - A mod D) D ltac:(lia)) as D2. fold s in D2.
      pose proof (Z.div_mod A D ltac:(lia)) as D3.
      exists (A / D - (e - A mod D) / D + s * k - (s * u) / D * M).
      replace t with (s * u - D * (s * u / D)) by lia.
      replace ((s * u - D * (s * u / D)) * M) with (s * (u * M) - D * (s * u / D) * M) by ring.
      replace (u * M) with (1 + k * D) by lia.
      replace (s * (1 + k * D)) with (s + s * k * D) by ring.
      replace s with (e - A mod D - D * ((e - A mod D) / D)) at 1 by lia.
      replace (A mod D) with (A - D * (A / D)) at 1 by lia. ring. }
  destruct Hres as (R1 & R2 & R3). repeat split; try apply R1; auto.
  intros x Hx HxM HxD.
  apply (crt_unique [M; D]).
  - repeat constructor; lia.
  - cbn [pcop]. repeat split; repeat constructor. exact Hg.
  - cbn [prodl fold_right]. lia.
  - cbn [prodl fold_right]. lia.
  - repeat constructor; congruence.
Qed.

(* the functor before the repair, and the non-reducing variant: congruent to the right value ... *)
Definition Functor_congruent_stmt (f : Z -> Z -> Z -> Z -> Z) : Prop :=
  forall M D A e, 0 < D -> Z.gcd M D = 1 ->
  (M | f M D A e - A) /\ (D | f M D A e - e).

Lemma functor_reduce_congruent : Functor_congruent_stmt cra_reduce.
Proof.
  intros M D A e HD Hg. unfold cra_reduce, cra_C12. rewrite invmod_mod.
  destruct (invmod_spec M D HD Hg) as [[k Hk] Hu]. set (u := invmod M D) in *.
  set (s := (e - A mod D) mod D). split.
  - exists (s * u). ring.
  - pose proof (Z.div_mod (e - A mod D) D ltac:(lia)) as D2. fold s in D2.
    pose proof (Z.div_mod A D ltac:(lia)) as D3.
    exists (A / D - (e - A mod D) / D + s * k).
    replace (s * (u * M)) with (s * (1 + k * D)) by (f_equal; lia).
    replace (s * (1 + k * D)) with (s + s * k * D) by ring.
    replace s with (e - A mod D - D * ((e - A mod D) / D)) at 1 by lia.
    replace (A mod D) with (A - D * (A / D)) at 1 by lia. ring.
Qed.

Lemma functor_noreduce_congruent : Functor_congruent_stmt cra_noreduce.
Proof.
  intros M D A e HD Hg. unfold cra_noreduce, cra_C12. rewrite invmod_mod.
  destruct (invmod_spec M D HD Hg) as [[k Hk] Hu]. set (u := invmod M D) in *. split.
  - exists ((e - A) * u). ring.
  - exists ((e - A) * k).
    replace ((e - A) * (u * M)) with ((e - A) * (1 + k * D)) by (f_equal; lia). ring.
Qed.

(* ... but not the canonical one (M = 3, D = 5, A = 2, e = 1 gives 26, not 11) *)
Lemma functor_reduce_canonical_refuted : ~ Functor_canonical_stmt cra_reduce.
Proof.
  intro H. destruct (H 3 5 2 1) as ([_ R] & _); try lia; [reflexivity|].
  vm_compute in R. discriminate R.
Qed.

(* ---------------------------------------------------------------- the hypotheses are satisfiable *)
Example good_moduli_example : good_moduli [7; 10; 9; 11] /\ canonical [6; 0; 8; 3] [7; 10; 9; 11].
Proof.
  split; [split|]; repeat constructor; try lia; reflexivity.
Qed.
Example end_to_end_example :
  snd (int_RnsToRing (ieval FromCk CkEmpty (Icopy (Iprod (Irns (Imktt [7; 10; 9; 11]) [1; 1; 1; 1])))) [6; 0; 8; 3]) = 1070.
Proof. vm_compute. reflexivity. Qed.
