(* C14 proofs, part 3: the conversions as a pair of mutually inverse maps, the system objects with their lazy
   caches under every history of construction / copy / assignment / setPrimes / use, and the two-modulus functor. *)
From Coq Require Import ZArith Znumtheory Bool List Lia.
From C14 Require Import Model ProofsArith ProofsGarner.
Import ListNotations.
Local Open Scope Z_scope.
Ltac Zify.zify_post_hook ::= Z.div_mod_to_equations.

(* ---------------------------------------------------------------- Z-level conversions *)
Definition RnsToRing_int (ps rs : list Z) : Z :=
  MixedRadixToRing ps (RnsToMixedRadix_int ps (ComputeCk_int ps) rs).
Definition RnsToRing_dom (ps rs : list Z) : Z :=
  MixedRadixToRing ps (RnsToMixedRadix_dom ps (ComputeCk_dom ps) rs).

(* residues are canonical *)
Definition canonical (rs ps : list Z) : Prop := Forall2 (fun r p => 0 <= r < p) rs ps.

Lemma canonical_length : forall rs ps, canonical rs ps -> length rs = length ps.
Proof. induction 1; cbn [length]; [reflexivity|]. f_equal; assumption. Qed.

Lemma canonical_hd : forall rs ps, ps <> [] -> canonical rs ps -> 0 <= hd 0 rs < hd 1 ps.
Proof. intros rs ps Hne H. destruct H; [congruence|]. cbn [hd]. assumption. Qed.

Lemma Forall2_map_eq : forall (f : Z -> Z) ps rs, Forall2 (fun p r => f p = r) ps rs -> map f ps = rs.
Proof. induction 1; cbn [map]; [reflexivity|]. f_equal; assumption. Qed.

Lemma Forall2_map_r : forall (R : Z -> Z -> Prop) (f : Z -> Z) l,
  Forall2 R l (map f l) -> Forall (fun x => R x (f x)) l.
Proof. induction l; intros H; cbn [map] in H; inversion H; subst; constructor; auto. Qed.

Section Inverse.
  (* for either variant of RnsToMixedRadix *)
  Variable R2M : list Z -> list Z -> list Z.
  Hypothesis R2M_spec : forall ps rs, ps <> [] -> good_moduli ps -> length rs = length ps ->
      0 <= hd 0 rs < hd 1 ps -> Garner_post ps rs (R2M ps rs).
  Let R2R ps rs := MixedRadixToRing ps (R2M ps rs).

  Lemma RingToRns_RnsToRing_gen : forall ps rs, ps <> [] -> good_moduli ps -> canonical rs ps ->
    RingToRns ps (R2R ps rs) = rs.
  Proof.
    intros ps rs Hne Hg Hc.
    destruct (R2M_spec ps rs Hne Hg (canonical_length _ _ Hc) (canonical_hd _ _ Hne Hc)) as (_ & _ & _ & Hres).
    unfold RingToRns. apply Forall2_map_eq. unfold R2R.
    set (V := MixedRadixToRing ps (R2M ps rs)) in *. clearbody V.
    revert Hres. clear - Hc. intro Hres. revert Hres.
    induction Hc as [|r p rs ps Hr Hc IH]; intros Hres; inversion Hres as [|? ? ? ? H1 H2]; subst; constructor.
    - rewrite H1. apply Z.mod_small; exact Hr.
    - apply IH; assumption.
  Qed.

  Lemma RnsToRing_RingToRns_gen : forall ps a, ps <> [] -> good_moduli ps ->
    R2R ps (RingToRns ps a) = a mod prodl ps.
  Proof.
    intros ps a Hne Hg. pose proof Hg as [Hpos Hcop].
    assert (HP : 0 < prodl ps) by (apply prodl_pos; exact Hpos).
    assert (Hhd : 0 <= hd 0 (RingToRns ps a) < hd 1 ps).
    { destruct ps as [|p0 ps]; [congruence|]. cbn [RingToRns map hd]. inversion Hpos; subst.
      apply Z.mod_pos_bound; assumption. }
    destruct (R2M_spec ps (RingToRns ps a) Hne Hg ltac:(unfold RingToRns; apply map_length) Hhd) as (_ & _ & Hrange & Hres).
    apply (crt_unique ps); auto.
    - apply Z.mod_pos_bound; exact HP.
    - unfold RingToRns in Hres. apply Forall2_map_r in Hres.
      unfold allpos in Hpos. rewrite Forall_forall in *. intros p Hin. fold (R2R ps (map (fun p => a mod p) ps)) in Hres.
      change (RingToRns ps a) with (map (fun p => a mod p) ps).
      rewrite (Hres p Hin). rewrite Z.mod_mod by (specialize (Hpos p Hin); lia).
      apply Zmod_div_mod; [apply Hpos; exact Hin|exact HP|apply prodl_divide; exact Hin].
  Qed.
End Inverse.

(* ---------------------------------------------------------------- IntRNSsystem objects *)
Definition RnsToRing_int_h (hr : bool) (ps rs : list Z) : Z :=
  MixedRadixToRing ps (RnsToMixedRadix_int_h hr ps (ComputeCk_int ps) rs).

(* the facts about the source as they are in /repo (read by the check on every run); the first digit reduced or not *)
Definition imembers_all : list imember := [IMprimes; IMprod; IMck].
Definition isrc_repo (hr : bool) : isrc := mkIsrc FromCk CkEmpty imembers_all hr.

(* invariant of the caches: each holds the value ComputeCk / ComputeProd compute for the primes of the object
   (for an object without primes: the empty table and the empty product 1) *)
Definition int_wf (S : IntRNS) : Prop :=
  i_ck S = ComputeCk_int (i_primes S) /\ i_prod S = prodl (i_primes S).

Lemma int_ensure_ck_spec : forall S, i_ck S = [] \/ i_ck S = ComputeCk_int (i_primes S) ->
  i_ck (int_ensure_ck S) = ComputeCk_int (i_primes S) /\ i_primes (int_ensure_ck S) = i_primes S /\
  i_prod (int_ensure_ck S) = i_prod S.
Proof.
  intros S Hck. unfold int_ensure_ck. destruct (i_ck S) eqn:E.
  - cbn [i_primes i_ck i_prod]. auto.
  - destruct Hck as [Hck|Hck]; [discriminate|]. rewrite E. auto.
Qed.

Lemma int_ensure_prod_spec : forall S, i_prod S = 1 \/ i_prod S = prodl (i_primes S) ->
  i_prod (int_ensure_prod S) = prodl (i_primes S) /\ i_primes (int_ensure_prod S) = i_primes S /\
  i_ck (int_ensure_prod S) = i_ck S.
Proof.
  intros S Hp. unfold int_ensure_prod. destruct (Z.eqb_spec (i_prod S) 1) as [E|E].
  - cbn [i_primes i_prod i_ck]. rewrite E, fold_left_mul, Z.mul_1_l. auto.
  - destruct Hp as [Hp|Hp]; [congruence|]. auto.
Qed.

Lemma int_mk_tt_wf : forall ps, int_wf (int_mk_tt CkEmpty ps) /\ i_primes (int_mk_tt CkEmpty ps) = ps.
Proof.
  intros ps. unfold int_mk_tt.
  destruct (int_ensure_prod_spec (mkIntRNS ps 1 [])) as (P1 & P2 & P3); [left; reflexivity|].
  destruct (int_ensure_ck_spec (int_ensure_prod (mkIntRNS ps 1 []))) as (C1 & C2 & C3); [left; rewrite P3; reflexivity|].
  cbn [i_primes] in *. unfold int_wf. rewrite C1, C2, C3, P1, P2. auto.
Qed.
Lemma int_mk_wf : forall ps, int_wf (int_mk ps) /\ i_primes (int_mk ps) = ps.
Proof. exact int_mk_tt_wf. Qed.

Lemma int_assign_all : forall d s, int_assign imembers_all d s = s.
Proof. intros d [p q c]. reflexivity. Qed.

Lemma int_RnsToMixedRadix_spec : forall hr S rs, int_wf S ->
  int_wf (fst (int_RnsToMixedRadix hr S rs)) /\ i_primes (fst (int_RnsToMixedRadix hr S rs)) = i_primes S /\
  snd (int_RnsToMixedRadix hr S rs) =
    if enough (i_primes S) rs then Some (RnsToMixedRadix_int_h hr (i_primes S) (ComputeCk_int (i_primes S)) rs) else None.
Proof.
  intros hr S rs [Hc Hp]. unfold int_RnsToMixedRadix. cbn [fst snd].
  destruct (int_ensure_ck_spec S (or_intror Hc)) as (C & P & Q). unfold int_wf. rewrite P, C, Q. auto.
Qed.

Lemma int_RnsToRing_spec : forall hr S rs, int_wf S ->
  int_wf (fst (int_RnsToRing hr S rs)) /\ i_primes (fst (int_RnsToRing hr S rs)) = i_primes S /\
  snd (int_RnsToRing hr S rs) = if enough (i_primes S) rs then Some (RnsToRing_int_h hr (i_primes S) rs) else None.
Proof.
  intros hr S rs H. unfold int_RnsToRing.
  destruct (int_RnsToMixedRadix_spec hr S rs H) as (W & P & M).
  destruct (int_RnsToMixedRadix hr S rs) as [S' mix]. cbn [fst snd] in *. rewrite P, M.
  destruct (enough (i_primes S) rs); auto.
Qed.

Lemma int_product_spec : forall S, int_wf S ->
  int_wf (fst (int_product S)) /\ i_primes (fst (int_product S)) = i_primes S /\
  snd (int_product S) = prodl (i_primes S).
Proof. intros S H. unfold int_product. cbn [fst snd]. repeat split; apply H. Qed.

Lemma int_Reciprocals_spec : forall S, int_wf S ->
  int_wf (fst (int_Reciprocals S)) /\ i_primes (fst (int_Reciprocals S)) = i_primes S /\
  snd (int_Reciprocals S) = ComputeCk_int (i_primes S).
Proof. intros S H. unfold int_Reciprocals. cbn [fst snd]. repeat split; apply H. Qed.

(* every way of obtaining an IntRNSsystem object: constructors, copy, assignment, and any earlier use *)
Inductive iexp : Type :=
  | Imk (ps : list Z)                 (* IntRNSsystem(const array& primes) *)
  | Imktt (ps : list Z)               (* the templated converting constructor IntRNSsystem(const Container<TT,Alloc<TT>>&) *)
  | Idefault                          (* IntRNSsystem() *)
  | Icopy (e : iexp)                  (* IntRNSsystem(const IntRNSsystem&) *)
  | Iassign (dst src : iexp)          (* operator= : member by member, onto ANY earlier object dst *)
  | Imix (e : iexp) (rs : list Z)     (* the object after RnsToMixedRadix(rs) *)
  | Irns (e : iexp) (rs : list Z)     (* the object after RnsToRing(rs) *)
  | Iprod (e : iexp)                  (* the object after product() *)
  | Irecip (e : iexp).                (* the object after Reciprocals() / reciprocal(i) *)

Fixpoint ieval (f : isrc) (e : iexp) : IntRNS :=
  match e with
  | Imk ps => int_mk ps
  | Imktt ps => int_mk_tt (is_tt f) ps
  | Idefault => int_default
  | Icopy e => int_copy (is_copy f) (ieval f e)
  | Iassign d s => int_assign (is_assign f) (ieval f d) (ieval f s)
  | Imix e rs => fst (int_RnsToMixedRadix (is_head f) (ieval f e) rs)
  | Irns e rs => fst (int_RnsToRing (is_head f) (ieval f e) rs)
  | Iprod e => fst (int_product (ieval f e))
  | Irecip e => fst (int_Reciprocals (ieval f e))
  end.

(* the moduli the object is meant to stand for *)
Fixpoint iprimes (e : iexp) : list Z :=
  match e with
  | Imk ps | Imktt ps => ps
  | Idefault => []
  | Icopy e => iprimes e
  | Iassign d s => iprimes s
  | Imix e _ | Irns e _ | Iprod e | Irecip e => iprimes e
  end.

Lemma ieval_wf : forall hr e, int_wf (ieval (isrc_repo hr) e) /\ i_primes (ieval (isrc_repo hr) e) = iprimes e.
Proof.
  intros hr. induction e as [ps|ps| |e IH|d IHd s IHs|e IH rs|e IH rs|e IH|e IH]; cbn [ieval iprimes isrc_repo is_copy is_tt is_assign is_head].
  - apply int_mk_wf.
  - apply int_mk_tt_wf.
  - split; [split; reflexivity|reflexivity].
  - destruct IH as [W P]. unfold int_copy. split; [exact W|exact P].
  - rewrite int_assign_all. exact IHs.
  - destruct IH as [W P]. destruct (int_RnsToMixedRadix_spec hr _ rs W) as (W' & P' & _). split; [exact W'|congruence].
  - destruct IH as [W P]. destruct (int_RnsToRing_spec hr _ rs W) as (W' & P' & _). split; [exact W'|congruence].
  - destruct IH as [W P]. destruct (int_product_spec _ W) as (W' & P' & _). split; [exact W'|congruence].
  - destruct IH as [W P]. destruct (int_Reciprocals_spec _ W) as (W' & P' & _). split; [exact W'|congruence].
Qed.

(* every history of the correspondence run (all 15 names of the harness) is an instance *)
Definition hexp (tt : bool) (h : hist) (primes other : list Z) : iexp :=
  let mk := if tt then Imktt else Imk in
  let use ps e := Irns e (ones (length ps)) in
  let warm ps e := Iprod (use ps e) in
  match h with
  | Hfresh => mk primes
  | Hreuse => use primes (mk primes)
  | Hcopycold => Icopy (mk primes)
  | Hcopywarm | Hcopymod => Icopy (warm primes (mk primes))
  | Hcopy2 => Icopy (Icopy (use primes (mk primes)))
  | Hassigncold => Iassign Idefault (mk primes)
  | Hassignwarm | Hassignsame => Iassign (warm other (Imk other)) (warm primes (mk primes))
  | Hassigncc => Iassign (Irecip (warm other (Imk other))) (mk primes)
  | Hsetcold | Hsetwarm | Hsetsame | Hsetback | Hdfltcopyset => mk primes
  end.
Lemma int_obtain_hexp : forall f (tt : bool) h primes other,
  int_obtain f (if tt then int_mk_tt (is_tt f) else int_mk) h primes other = ieval f (hexp tt h primes other).
Proof. intros f tt h primes other. destruct tt, h; reflexivity. Qed.

(* ---------------------------------------------------------------- RNSsystem<RING,Domain> objects *)
Definition dom_wf (S : DomRNS) : Prop := d_ck S = ComputeCk_dom (d_primes S).

Lemma dom_ensure_ck_spec : forall S, d_ck S = [] \/ d_ck S = ComputeCk_dom (d_primes S) ->
  dom_wf (dom_ensure_ck S) /\ d_primes (dom_ensure_ck S) = d_primes S /\
  d_ck (dom_ensure_ck S) = ComputeCk_dom (d_primes S).
Proof.
  intros S Hck. unfold dom_ensure_ck, dom_wf. destruct (d_ck S) eqn:E.
  - cbn [d_primes d_ck]. auto.
  - destruct Hck as [Hck|Hck]; [congruence|]. rewrite E. auto.
Qed.

Lemma dom_mk_wf : forall ps, dom_wf (dom_mk ps) /\ d_primes (dom_mk ps) = ps.
Proof.
  intros ps. unfold dom_mk. destruct (dom_ensure_ck_spec (mkDomRNS ps [])) as (W & P & _); [left; reflexivity|]. auto.
Qed.

(* the statement list of setPrimes as it is in /repo builds, from ANY object, what the constructor builds *)
Lemma dom_setPrimes_repo : forall S ps, dom_setPrimes set_prog_repo S ps = dom_mk ps.
Proof. intros [p c] ps. reflexivity. Qed.
Lemma dom_copy_all : forall R, dom_copy dmembers_all R = R.
Proof. intros [p c]. reflexivity. Qed.
Lemma dom_assign_all : forall d s, dom_assign dmembers_all d s = s.
Proof. intros d [p c]. reflexivity. Qed.

Lemma dom_RnsToMixedRadix_spec : forall S rs, dom_wf S ->
  dom_wf (fst (dom_RnsToMixedRadix S rs)) /\ d_primes (fst (dom_RnsToMixedRadix S rs)) = d_primes S /\
  snd (dom_RnsToMixedRadix S rs) =
    if enough (d_primes S) rs then Some (RnsToMixedRadix_dom (d_primes S) (ComputeCk_dom (d_primes S)) rs) else None.
Proof.
  intros S rs H. unfold dom_RnsToMixedRadix. cbn [fst snd].
  destruct (dom_ensure_ck_spec S (or_intror H)) as (W & P & C). rewrite P, C. auto.
Qed.

Lemma dom_RnsToRing_spec : forall S rs, dom_wf S ->
  dom_wf (fst (dom_RnsToRing S rs)) /\ d_primes (fst (dom_RnsToRing S rs)) = d_primes S /\
  snd (dom_RnsToRing S rs) = if enough (d_primes S) rs then Some (RnsToRing_dom (d_primes S) rs) else None.
Proof.
  intros S rs H. unfold dom_RnsToRing.
  destruct (dom_RnsToMixedRadix_spec S rs H) as (W & P & M).
  destruct (dom_RnsToMixedRadix S rs) as [S' mix]. cbn [fst snd] in *. rewrite P, M.
  destruct (enough (d_primes S) rs); auto.
Qed.

Lemma dom_Reciprocals_spec : forall S, dom_wf S ->
  dom_wf (fst (dom_Reciprocals S)) /\ d_primes (fst (dom_Reciprocals S)) = d_primes S /\
  snd (dom_Reciprocals S) = ComputeCk_dom (d_primes S).
Proof. intros S H. unfold dom_Reciprocals. cbn [fst snd]. auto. Qed.

Inductive dexp : Type :=
  | Dmk (ps : list Z)                 (* RNSsystem(domains) *)
  | Ddefault                          (* RNSsystem() *)
  | Dcopy (e : dexp)                  (* RNSsystem(const Self_t&) *)
  | Dassign (dst src : dexp)          (* operator= : member by member, onto ANY earlier object dst *)
  | Dset (e : dexp) (ps : list Z)     (* setPrimes(domains) on ANY earlier object e, statement by statement *)
  | Dmix (e : dexp) (rs : list Z)
  | Drns (e : dexp) (rs : list Z)
  | Drecip (e : dexp).

Fixpoint deval (f : dsrc) (e : dexp) : DomRNS :=
  match e with
  | Dmk ps => dom_mk ps
  | Ddefault => dom_default
  | Dcopy e => dom_copy (ds_copy f) (deval f e)
  | Dassign d s => dom_assign (ds_assign f) (deval f d) (deval f s)
  | Dset e ps => dom_setPrimes (ds_set f) (deval f e) ps
  | Dmix e rs => fst (dom_RnsToMixedRadix (deval f e) rs)
  | Drns e rs => fst (dom_RnsToRing (deval f e) rs)
  | Drecip e => fst (dom_Reciprocals (deval f e))
  end.

Fixpoint dprimes (e : dexp) : list Z :=
  match e with
  | Dmk ps => ps
  | Ddefault => []
  | Dcopy e => dprimes e
  | Dassign d s => dprimes s
  | Dset _ ps => ps
  | Dmix e _ | Drns e _ | Drecip e => dprimes e
  end.

Lemma deval_wf : forall e, dom_wf (deval dsrc_repo e) /\ d_primes (deval dsrc_repo e) = dprimes e.
Proof.
  induction e as [ps| |e IH|d IHd s IHs|e IH ps|e IH rs|e IH rs|e IH]; cbn [deval dprimes dsrc_repo ds_copy ds_assign ds_set].
  - apply dom_mk_wf.
  - split; reflexivity.
  - rewrite dom_copy_all. exact IH.
  - rewrite dom_assign_all. exact IHs.
  - rewrite dom_setPrimes_repo. apply dom_mk_wf.
  - destruct IH as [W P]. destruct (dom_RnsToMixedRadix_spec _ rs W) as (W' & P' & _). split; [exact W'|congruence].
  - destruct IH as [W P]. destruct (dom_RnsToRing_spec _ rs W) as (W' & P' & _). split; [exact W'|congruence].
  - destruct IH as [W P]. destruct (dom_Reciprocals_spec _ W) as (W' & P' & _). split; [exact W'|congruence].
Qed.

Definition hdexp (h : hist) (primes other : list Z) : dexp :=
  let use ps e := Drns e (ones (length ps)) in
  match h with
  | Hfresh => Dmk primes
  | Hreuse => use primes (Dmk primes)
  | Hcopycold => Dcopy (Dmk primes)
  | Hcopywarm | Hcopymod => Dcopy (use primes (Dmk primes))
  | Hcopy2 => Dcopy (Dcopy (use primes (Dmk primes)))
  | Hassigncold => Dassign Ddefault (Dmk primes)
  | Hassignwarm | Hassignsame => Dassign (use other (Dmk other)) (use primes (Dmk primes))
  | Hassigncc => Dassign (Drecip (use other (Dmk other))) (Dmk primes)
  | Hsetcold => Dset Ddefault primes
  | Hsetwarm | Hsetsame => Dset (use other (Dmk other)) primes
  | Hsetback => Dset (Drecip (use other (Dset (use primes (Dmk primes)) other))) primes
  | Hdfltcopyset => Dset (Dcopy Ddefault) primes
  end.
Lemma dom_obtain_hdexp : forall f h primes other, dom_obtain f h primes other = deval f (hdexp h primes other).
Proof. intros f h primes other. destruct h; reflexivity. Qed.

(* ---------------------------------------------------------------- statements (closed in Properties.v) *)

(* (1) the reciprocal table: c_k (p_0 ... p_{k-1}) == 1 (mod p_k), 0 <= c_k < p_k, for k >= 1 *)
Fixpoint ck_table_ok (P : Z) (ps cks : list Z) : Prop :=
  match ps, cks with
  | [], [] => True
  | p :: ps', c :: cks' => (p | c * P - 1) /\ 0 <= c < p /\ ck_table_ok (p * P) ps' cks'
  | _, _ => False
  end.
Definition Reciprocals_stmt (compute : list Z -> list Z) : Prop :=
  forall p0 ps, good_moduli (p0 :: ps) ->
  exists c0 cks, compute (p0 :: ps) = c0 :: cks /\ ck_table_ok p0 ps cks.

Lemma ck_loop_table : forall ckprod,
  (forall pk prev, 0 < pk -> ckprod pk prev mod pk = prodl prev mod pk) ->
  forall rest prev, allpos rest -> pcop rest ->
  Forall (fun q => Forall (fun p => Z.gcd q p = 1) rest) prev ->
  ck_table_ok (prodl prev) rest (ck_loop ckprod prev rest).
Proof.
  intros ckprod Hck. induction rest as [|pk tl IH]; intros prev Hpos Hc Hprev; [exact I|].
  cbn [ck_loop ck_table_ok]. inversion Hpos as [|? ? Hpk Hpos']; subst. destruct Hc as [Hpktl Hc].
  assert (Hg : Z.gcd (prodl prev) pk = 1).
  { apply gcd_prodl. eapply Forall_impl; [|exact Hprev]. intros q Hq. cbn beta in Hq. inversion Hq; subst. assumption. }
  rewrite (invmod_cong _ (prodl prev)) by (apply Hck; exact Hpk).
  destruct (invmod_spec (prodl prev) pk Hpk Hg) as [Hd Hr]. repeat split; try exact Hd; try apply Hr.
  replace (pk * prodl prev) with (prodl (prev ++ [pk]))
    by (rewrite prodl_app, prodl_cons; change (prodl []) with 1; ring).
  apply IH; [exact Hpos'|exact Hc|]. apply Forall_app. split.
  - eapply Forall_impl; [|exact Hprev]. intros q Hq. cbn beta in Hq. inversion Hq; subst. assumption.
  - constructor; [exact Hpktl|constructor].
Qed.

Lemma reciprocals_int : Reciprocals_stmt ComputeCk_int.
Proof.
  intros p0 ps [Hpos Hc]. inversion Hpos; subst. destruct Hc as [Hc0 Hc].
  exists 0, (ck_loop ck_prod_int [p0] ps). split; [reflexivity|].
  replace p0 with (prodl [p0]) at 1 by (cbn; lia).
  apply ck_loop_table; auto using ck_prod_int_ok.
Qed.
Lemma reciprocals_dom : Reciprocals_stmt ComputeCk_dom.
Proof.
  intros p0 ps [Hpos Hc]. inversion Hpos; subst. destruct Hc as [Hc0 Hc].
  exists 0, (ck_loop ck_prod_dom [p0] ps). split; [reflexivity|].
  replace p0 with (prodl [p0]) at 1 by (cbn; lia).
  apply ck_loop_table; auto using ck_prod_dom_ok.
Qed.

(* (2) mixed radix digits and reconstruction.  IntRNSsystem copies residu[0] unreduced into mixrad[0]
   (residu[i], i >= 1, may be any representative), hence the hypothesis on the first residue only. *)
Definition Garner_stmt (R2M : list Z -> list Z -> list Z) : Prop :=
  forall ps rs, ps <> [] -> good_moduli ps -> length rs = length ps -> 0 <= hd 0 rs < hd 1 ps ->
  let mix := R2M ps rs in
  let V := MixedRadixToRing ps mix in
  length mix = length ps /\
  Forall2 (fun m p => 0 <= m < p) mix ps /\          (* every digit below its modulus *)
  0 <= V < prodl ps /\                                (* value in [0, product) *)
  Forall2 (fun p r => V mod p = r mod p) ps rs.       (* with the given residues *)

Lemma garner_int : Garner_stmt (fun ps rs => RnsToMixedRadix_int ps (ComputeCk_int ps) rs).
Proof. exact RnsToMixedRadix_int_spec. Qed.
Lemma garner_dom : Garner_stmt (fun ps rs => RnsToMixedRadix_dom ps (ComputeCk_dom ps) rs).
Proof. exact RnsToMixedRadix_dom_spec. Qed.

(* (3) uniqueness *)
Definition Unique_stmt : Prop :=
  forall ps x y, good_moduli ps -> 0 <= x < prodl ps -> 0 <= y < prodl ps ->
  Forall (fun p => x mod p = y mod p) ps -> x = y.
Lemma unique : Unique_stmt.
Proof. intros ps x y [Hp Hc]. apply crt_unique; assumption. Qed.

(* ... and the coprimality hypothesis is necessary: 0 and 12 are two integers of [0, 4*6) with the same residues mod 4 and 6 *)
Definition Unique_no_coprime_stmt : Prop :=
  forall ps x y, allpos ps -> 0 <= x < prodl ps -> 0 <= y < prodl ps ->
  Forall (fun p => x mod p = y mod p) ps -> x = y.
Lemma unique_needs_coprime : ~ Unique_no_coprime_stmt.
Proof.
  intro H. specialize (H [4; 6] 0 12). cbn in H.
  assert (E : 0 = 12); [|discriminate E].
  apply H; try lia; repeat constructor; lia.
Qed.

(* (4) the conversions are mutually inverse *)
Definition Inverse_stmt (R2R : list Z -> list Z -> Z) : Prop :=
  forall ps, ps <> [] -> good_moduli ps ->
  (forall rs, canonical rs ps -> RingToRns ps (R2R ps rs) = rs) /\
  (forall a, R2R ps (RingToRns ps a) = a mod prodl ps) /\
  (forall a, canonical (RingToRns ps a) ps).

Lemma RingToRns_canonical : forall ps a, allpos ps -> canonical (RingToRns ps a) ps.
Proof.
  induction 1; cbn [RingToRns map]; constructor; [apply Z.mod_pos_bound; assumption|assumption].
Qed.

Lemma inverse_int : Inverse_stmt RnsToRing_int.
Proof.
  intros ps Hne Hg. repeat split.
  - intros rs Hc. apply (RingToRns_RnsToRing_gen _ RnsToMixedRadix_int_spec); assumption.
  - intros a. apply (RnsToRing_RingToRns_gen _ RnsToMixedRadix_int_spec); assumption.
  - intros a. apply RingToRns_canonical. apply Hg.
Qed.
Lemma inverse_dom : Inverse_stmt RnsToRing_dom.
Proof.
  intros ps Hne Hg. repeat split.
  - intros rs Hc. apply (RingToRns_RnsToRing_gen _ RnsToMixedRadix_dom_spec); assumption.
  - intros a. apply (RnsToRing_RingToRns_gen _ RnsToMixedRadix_dom_spec); assumption.
  - intros a. apply RingToRns_canonical. apply Hg.
Qed.

(* (2b) ANY representatives as residues.  With the first digit reduced (mixrad[0] = residu[0] mod p_0, the repaired
   body) the head hypothesis of Garner_stmt disappears; with the first residue copied as it comes (the body before the
   repair) the unrestricted statement is false: moduli 3, 5, residues 18, 2 give the digits 18, 3 and the value 27. *)
Definition Garner_any_stmt (R2M : list Z -> list Z -> list Z) : Prop :=
  forall ps rs, ps <> [] -> good_moduli ps -> length rs = length ps ->
  let mix := R2M ps rs in
  let V := MixedRadixToRing ps mix in
  length mix = length ps /\
  Forall2 (fun m p => 0 <= m < p) mix ps /\
  0 <= V < prodl ps /\
  Forall2 (fun p r => V mod p = r mod p) ps rs.

Lemma garner_int_any : Garner_any_stmt (fun ps rs => RnsToMixedRadix_int_h true ps (ComputeCk_int ps) rs).
Proof.
  intros [|p0 ps] rs Hne Hg Hl; [congruence|]. destruct rs as [|r0 rs]; [discriminate|].
  unfold RnsToMixedRadix_int_h. cbn [reduce_head].
  assert (Hp0 : 0 < p0) by (destruct Hg as [Hpos _]; inversion Hpos; assumption).
  destruct (garner_int (p0 :: ps) (r0 mod p0 :: rs) Hne Hg Hl) as (L & D & R & C).
  - cbn [hd]. apply Z.mod_pos_bound. exact Hp0.
  - cbv zeta. split; [exact L|]. split; [exact D|]. split; [exact R|].
    inversion C as [|? ? ? ? C0 C1]; subst. constructor; [|exact C1].
    rewrite C0. apply Z.mod_mod. lia.
Qed.

Lemma garner_int_any_unreduced_refuted : ~ Garner_any_stmt (fun ps rs => RnsToMixedRadix_int_h false ps (ComputeCk_int ps) rs).
Proof.
  intro H. destruct (H [3; 5] [18; 2]) as (_ & _ & [_ R] & _); [discriminate| |reflexivity|].
  - split; repeat constructor; lia.
  - vm_compute in R. discriminate R.
Qed.

(* (5) the answers of a system object do not depend on how it was obtained.  `f` = the facts about the source (copy map,
   converting constructor, members operator= assigns, first digit reduced); a conversion on an object without primes
   or with too few residues has no answer (None), as in the code *)
Definition Int_history_stmt (f : isrc) : Prop :=
  forall (e : iexp) (rs : list Z) (a : Z),
  let S := ieval f e in
  let ps := iprimes e in
  snd (int_RnsToMixedRadix (is_head f) S rs) =
    (if enough ps rs then Some (RnsToMixedRadix_int_h (is_head f) ps (ComputeCk_int ps) rs) else None) /\
  snd (int_RnsToRing (is_head f) S rs) = (if enough ps rs then Some (RnsToRing_int_h (is_head f) ps rs) else None) /\
  snd (int_product S) = prodl ps /\
  snd (int_Reciprocals S) = ComputeCk_int ps /\
  int_RingToRns S a = RingToRns ps a.

Lemma int_history : forall hr, Int_history_stmt (isrc_repo hr).
Proof.
  intros hr e rs a S ps. destruct (ieval_wf hr e) as [W P]. fold S in W, P. fold ps in P.
  destruct (int_RnsToMixedRadix_spec hr S rs W) as (_ & _ & E1).
  destruct (int_RnsToRing_spec hr S rs W) as (_ & _ & E2).
  destruct (int_product_spec S W) as (_ & _ & E3).
  destruct (int_Reciprocals_spec S W) as (_ & _ & E4).
  cbn [isrc_repo is_head]. rewrite E1, E2, E3, E4. unfold int_RingToRns. rewrite P. auto.
Qed.

(* the copy map of the unrepaired constructor, _ck(R._primes), does not have the property *)
Lemma int_history_from_primes_refuted : ~ Int_history_stmt (mkIsrc FromPrimes CkEmpty imembers_all false).
Proof.
  intro H. destruct (H (Icopy (Imk [3; 5; 7])) [1; 2; 3] 0) as (_ & E & _).
  vm_compute in E. discriminate E.
Qed.

(* a converting constructor that sizes _ck in its initialiser list (ComputeCk then sees a non-empty table of zeros
   and returns at once) does not have the property either: moduli 3, 5, 7 from a vector<int>, residues of 52 *)
Lemma int_history_presized_refuted : ~ Int_history_stmt (mkIsrc FromCk CkSized imembers_all false).
Proof.
  intro H. destruct (H (Imktt [3; 5; 7]) [1; 2; 3] 0) as (_ & E & _).
  vm_compute in E. discriminate E.
Qed.

(* an operator= that does not assign _ck does not have it: a used system on 11, 13, 17 assigned from one on 3, 5, 7 *)
Lemma int_history_assign_without_ck_refuted : ~ Int_history_stmt (mkIsrc FromCk CkEmpty [IMprimes; IMprod] false).
Proof.
  intro H. destruct (H (Iassign (Imk [11; 13; 17]) (Imk [3; 5; 7])) [1; 2; 3] 0) as (_ & E & _).
  vm_compute in E. discriminate E.
Qed.

Definition Dom_history_stmt (f : dsrc) : Prop :=
  forall (e : dexp) (rs : list Z) (a : Z),
  let S := deval f e in
  let ps := dprimes e in
  snd (dom_RnsToMixedRadix S rs) = (if enough ps rs then Some (RnsToMixedRadix_dom ps (ComputeCk_dom ps) rs) else None) /\
  snd (dom_RnsToRing S rs) = (if enough ps rs then Some (RnsToRing_dom ps rs) else None) /\
  snd (dom_Reciprocals S) = ComputeCk_dom ps /\
  dom_RingToRns S a = RingToRns ps a.

Lemma dom_history : Dom_history_stmt dsrc_repo.
Proof.
  intros e rs a S ps. destruct (deval_wf e) as [W P]. fold S in W, P. fold ps in P.
  destruct (dom_RnsToMixedRadix_spec S rs W) as (_ & _ & E1).
  destruct (dom_RnsToRing_spec S rs W) as (_ & _ & E2).
  destruct (dom_Reciprocals_spec S W) as (_ & _ & E4).
  rewrite E1, E2, E4. unfold dom_RingToRns. rewrite P. auto.
Qed.

(* setPrimes without `_ck.resize(0)` (the stale table survives ComputeCk's guard), and an operator= that assigns only
   _primes, do not have the property *)
Lemma dom_history_set_without_reset_refuted :
  ~ Dom_history_stmt (mkDsrc dmembers_all dmembers_all [SAllocPrimes0; SCopyPrimes; SComputeCk]).
Proof.
  intro H. destruct (H (Dset (Dmk [11; 13; 17]) [3; 5; 7]) [1; 2; 3] 0) as (_ & E & _).
  vm_compute in E. discriminate E.
Qed.
Lemma dom_history_assign_without_ck_refuted :
  ~ Dom_history_stmt (mkDsrc dmembers_all [DMprimes] set_prog_repo).
Proof.
  intro H. destruct (H (Dassign (Dmk [11; 13; 17]) (Dmk [3; 5; 7])) [1; 2; 3] 0) as (_ & E & _).
  vm_compute in E. discriminate E.
Qed.

(* (6) end to end: whatever the history, RnsToRing returns THE integer of [0, prod) with the given residues *)
Definition Int_end_to_end_stmt : Prop :=
  forall (e : iexp) (rs : list Z), iprimes e <> [] -> good_moduli (iprimes e) -> canonical rs (iprimes e) ->
  exists V, snd (int_RnsToRing false (ieval (isrc_repo false) e) rs) = Some V /\
  0 <= V < prodl (iprimes e) /\ RingToRns (iprimes e) V = rs /\
  forall x, 0 <= x < prodl (iprimes e) -> RingToRns (iprimes e) x = rs -> x = V.

Lemma RingToRns_eq_Forall : forall ps x y, RingToRns ps x = RingToRns ps y -> Forall (fun p => x mod p = y mod p) ps.
Proof.
  induction ps as [|p ps IH]; intros x y H; [constructor|].
  cbn [RingToRns map] in H. inversion H. constructor; [assumption|]. apply IH. assumption.
Qed.

Lemma enough_same_length : forall ps rs, ps <> [] -> length rs = length ps -> enough ps rs = true.
Proof. intros [|p ps] rs Hne Hl; [congruence|]. unfold enough. rewrite Hl. apply Nat.leb_refl. Qed.

Lemma RnsToRing_int_h_false : forall ps rs, RnsToRing_int_h false ps rs = RnsToRing_int ps rs.
Proof. reflexivity. Qed.

Lemma int_end_to_end : Int_end_to_end_stmt.
Proof.
  intros e rs Hne Hg Hc.
  destruct (int_history false e rs 0) as (_ & E & _). cbn [isrc_repo is_head] in E.
  rewrite (enough_same_length _ _ Hne (canonical_length _ _ Hc)), RnsToRing_int_h_false in E.
  exists (RnsToRing_int (iprimes e) rs). split; [exact E|].
  destruct (garner_int (iprimes e) rs Hne Hg (canonical_length _ _ Hc) (canonical_hd _ _ Hne Hc)) as (_ & _ & Hr & _).
  destruct (inverse_int (iprimes e) Hne Hg) as (I1 & _ & _).
  fold (RnsToRing_int (iprimes e) rs) in Hr.
  split; [exact Hr|]. split; [apply I1; exact Hc|].
  intros x Hx Hxr. apply (unique (iprimes e)); auto.
  apply RingToRns_eq_Forall. rewrite Hxr. symmetry. apply I1. exact Hc.
Qed.

(* the same for ANY representatives as residues, for the body that reduces the first digit *)
Definition Int_end_to_end_any_stmt : Prop :=
  forall (e : iexp) (rs : list Z), iprimes e <> [] -> good_moduli (iprimes e) -> length rs = length (iprimes e) ->
  exists V, snd (int_RnsToRing true (ieval (isrc_repo true) e) rs) = Some V /\
  0 <= V < prodl (iprimes e) /\ Forall2 (fun p r => V mod p = r mod p) (iprimes e) rs /\
  forall x, 0 <= x < prodl (iprimes e) -> Forall2 (fun p r => x mod p = r mod p) (iprimes e) rs -> x = V.

Lemma Forall2_cong_Forall : forall ps rs x y,
  Forall2 (fun p r => x mod p = r mod p) ps rs -> Forall2 (fun p r => y mod p = r mod p) ps rs ->
  Forall (fun p => x mod p = y mod p) ps.
Proof.
  intros ps rs x y H. induction H; intros H2; inversion H2; subst; constructor; [congruence|auto].
Qed.

Lemma int_end_to_end_any : Int_end_to_end_any_stmt.
Proof.
  intros e rs Hne Hg Hl.
  destruct (int_history true e rs 0) as (_ & E & _). cbn [isrc_repo is_head] in E.
  rewrite (enough_same_length _ _ Hne Hl) in E.
  exists (RnsToRing_int_h true (iprimes e) rs). split; [exact E|].
  destruct (garner_int_any (iprimes e) rs Hne Hg Hl) as (_ & _ & Hr & Hc).
  fold (RnsToRing_int_h true (iprimes e) rs) in Hr, Hc.
  split; [exact Hr|]. split; [exact Hc|].
  intros x Hx Hxr. apply (unique (iprimes e)); auto.
  eapply Forall2_cong_Forall; eassumption.
Qed.

Definition Dom_end_to_end_stmt : Prop :=
  forall (e : dexp) (rs : list Z), dprimes e <> [] -> good_moduli (dprimes e) -> canonical rs (dprimes e) ->
  exists V, snd (dom_RnsToRing (deval dsrc_repo e) rs) = Some V /\
  0 <= V < prodl (dprimes e) /\ RingToRns (dprimes e) V = rs /\
  forall x, 0 <= x < prodl (dprimes e) -> RingToRns (dprimes e) x = rs -> x = V.

Lemma dom_end_to_end : Dom_end_to_end_stmt.
Proof.
  intros e rs Hne Hg Hc.
  destruct (dom_history e rs 0) as (_ & E & _).
  rewrite (enough_same_length _ _ Hne (canonical_length _ _ Hc)) in E.
  exists (RnsToRing_dom (dprimes e) rs). split; [exact E|].
  destruct (garner_dom (dprimes e) rs Hne Hg (canonical_length _ _ Hc) (canonical_hd _ _ Hne Hc)) as (_ & _ & Hr & _).
  destruct (inverse_dom (dprimes e) Hne Hg) as (I1 & _ & _).
  fold (RnsToRing_dom (dprimes e) rs) in Hr.
  split; [exact Hr|]. split; [apply I1; exact Hc|].
  intros x Hx Hxr. apply (unique (dprimes e)); auto.
  apply RingToRns_eq_Forall. rewrite Hxr. symmetry. apply I1. exact Hc.
Qed.

(* (7) where the code has no answer the model has none: a system without primes, too few residues, and for
   RNSsystem::MixedRadixToRing (which tests it) a digit array of another size *)
Definition Undefined_stmt : Prop :=
  (forall hr rs, snd (int_RnsToRing hr int_default rs) = None) /\
  (forall rs, snd (dom_RnsToRing dom_default rs) = None) /\
  (forall mix, dom_MixedRadixToRing dom_default mix = None) /\
  (forall ps mix, length mix <> length ps -> dom_MixedRadixToRing (dom_mk ps) mix = None).
Lemma undefined_cases : Undefined_stmt.
Proof.
  split; [|split; [|split]].
  - intros hr rs. reflexivity.
  - intros rs. reflexivity.
  - intros mix. reflexivity.
  - intros ps mix Hl. unfold dom_MixedRadixToRing. destruct (dom_mk_wf ps) as [_ P]. rewrite P.
    destruct ps as [|p ps]; [reflexivity|]. destruct (Nat.eqb_spec (length (p :: ps)) (length mix)); [congruence|reflexivity].
Qed.

(* ---------------------------------------------------------------- the two-modulus functor *)
Lemma invmod_mod : forall M D, invmod (M mod D) D = invmod M D.
Proof. intros. apply invmod_cong. destruct (Z.eq_dec D 0) as [->|H]; [rewrite !Zmod_0_r; reflexivity|apply Z.mod_mod; exact H]. Qed.

(* as coded after the repair (and the shape a repaired functor must have): the unique lift *)
Definition Functor_canonical_stmt (f : Z -> Z -> Z -> Z -> Z) : Prop :=
  forall M D A e, 0 <= A < M -> 0 < D -> Z.gcd M D = 1 ->
  let res := f M D A e in
  0 <= res < M * D /\ res mod M = A /\ res mod D = e mod D /\
  forall x, 0 <= x < M * D -> x mod M = A -> x mod D = e mod D -> x = res.

Lemma functor_fixed_canonical : Functor_canonical_stmt cra_reduce_fixed.
Proof.
  intros M D A e HA HD Hg res.
  assert (Hres : 0 <= res < M * D /\ res mod M = A /\ res mod D = e mod D).
  { unfold res, cra_reduce_fixed. rewrite invmod_mod.
    destruct (invmod_spec M D HD Hg) as [[k Hk] Hu]. set (u := invmod M D) in *.
    set (s := (e - A mod D) mod D).
    set (t := (s * u) mod D).
    assert (Ht : 0 <= t < D) by (apply Z.mod_pos_bound; exact HD).
    split; [nia|]. split.
    - rewrite Z.add_comm, Z_mod_plus_full. apply Z.mod_small; exact HA.
    - apply mod_eq_divide; [exact HD|].
      pose proof (Z.div_mod (s * u) D ltac:(lia)) as D1. fold t in D1.
      pose proof (Z.div_mod (e - A mod D) D ltac:(lia)) as D2. fold s in D2.
      pose proof (Z.div_mod A D ltac:(lia)) as D3.
      exists (A / D - (e - A mod D) / D + s * k - (s * u) / D * M).
      replace t with (s * u - D * (s * u / D)) by lia.
      replace ((s * u - D * (s * u / D)) * M) with (s * (u * M) - D * (s * u / D) * M) by ring.
      replace (u * M) with (1 + k * D) by lia.
      replace (s * (1 + k * D)) with (s + s * k * D) by ring.
      replace s with (e - A mod D - D * ((e - A mod D) / D)) at 1 by lia.
      replace (A mod D) with (A - D * (A / D)) at 1 by lia. ring. }
  destruct Hres as (R1 & R2 & R3). repeat split; try apply R1; auto.
  intros x Hx HxM HxD.
  apply (crt_unique [M; D]).
  - repeat constructor; lia.
  - cbn [pcop]. repeat split; repeat constructor. exact Hg.
  - cbn [prodl fold_right]. lia.
  - cbn [prodl fold_right]. lia.
  - repeat constructor; congruence.
Qed.

(* the functor before the repair, and the non-reducing variant: congruent to the right value ... *)
Definition Functor_congruent_stmt (f : Z -> Z -> Z -> Z -> Z) : Prop :=
  forall M D A e, 0 < D -> Z.gcd M D = 1 ->
  (M | f M D A e - A) /\ (D | f M D A e - e).

Lemma functor_reduce_congruent : Functor_congruent_stmt cra_reduce.
Proof.
  intros M D A e HD Hg. unfold cra_reduce, cra_C12. rewrite invmod_mod.
  destruct (invmod_spec M D HD Hg) as [[k Hk] Hu]. set (u := invmod M D) in *.
  set (s := (e - A mod D) mod D). split.
  - exists (s * u). ring.
  - pose proof (Z.div_mod (e - A mod D) D ltac:(lia)) as D2. fold s in D2.
    pose proof (Z.div_mod A D ltac:(lia)) as D3.
    exists (A / D - (e - A mod D) / D + s * k).
    replace (s * (u * M)) with (s * (1 + k * D)) by (f_equal; lia).
    replace (s * (1 + k * D)) with (s + s * k * D) by ring.
    replace s with (e - A mod D - D * ((e - A mod D) / D)) at 1 by lia.
    replace (A mod D) with (A - D * (A / D)) at 1 by lia. ring.
Qed.

Lemma functor_noreduce_congruent : Functor_congruent_stmt cra_noreduce.
Proof.
  intros M D A e HD Hg. unfold cra_noreduce, cra_C12. rewrite invmod_mod.
  destruct (invmod_spec M D HD Hg) as [[k Hk] Hu]. set (u := invmod M D) in *. split.
  - exists ((e - A) * u). ring.
  - exists ((e - A) * k).
    replace ((e - A) * (u * M)) with ((e - A) * (1 + k * D)) by (f_equal; lia). ring.
Qed.

(* ... but not the canonical one (M = 3, D = 5, A = 2, e = 1 gives 26, not 11) *)
Lemma functor_reduce_canonical_refuted : ~ Functor_canonical_stmt cra_reduce.
Proof.
  intro H. destruct (H 3 5 2 1) as ([_ R] & _); try lia; [reflexivity|].
  vm_compute in R. discriminate R.
Qed.

(* ---------------------------------------------------------------- the hypotheses are satisfiable *)
Example good_moduli_example : good_moduli [7; 10; 9; 11] /\ canonical [6; 0; 8; 3] [7; 10; 9; 11].
Proof.
  split; [split|]; repeat constructor; try lia; reflexivity.
Qed.
Example end_to_end_example :
  snd (int_RnsToRing false (ieval (isrc_repo false) (Icopy (Iprod (Irns (Imktt [7; 10; 9; 11]) [1; 1; 1; 1])))) [6; 0; 8; 3]) = Some 1070.
Proof. vm_compute. reflexivity. Qed.
Example end_to_end_any_example :
  snd (int_RnsToRing true (ieval (isrc_repo true) (Iassign (Imk [3; 5]) (Imk [7; 10; 9; 11]))) [-1; 20; -1; 14]) = Some 1070.
Proof. vm_compute. reflexivity. Qed.
Example functor_hyps_example : 0 <= 2 < 3 /\ 0 < 5 /\ Z.gcd 3 5 = 1 /\ cra_reduce_fixed 3 5 2 1 = 11.
Proof. repeat split; try lia. Qed.
