(* C14 property theorems.  Nothing but statements closed by `exact`, each followed by Print Assumptions.
   Moduli lists: any length >= 1, any order, every modulus > 0, pairwise coprime (good_moduli).
   "int" = IntRNSsystem (Integer residues), "dom" = RNSsystem<RING,Domain> (residues are domain elements).
   Statements: ProofsSystem.v (Reciprocals_stmt, Garner_stmt, Garner_any_stmt, Unique_stmt, Unique_no_coprime_stmt, Inverse_stmt,
   *_history_stmt, *_end_to_end*_stmt, Undefined_stmt, Functor_*_stmt), ProofsPoly.v (Poly_crt_full_stmt), ProofsBalanced.v
   (Balanced_stmt, Fixed_pair_stmt), ProofsFixed.v (Fixed_tree_stmt, Fixed_tree_any_stmt, Fix_history_stmt), ProofsLift.v
   (Lift_chain_stmt, Functor_noreduce_value_stmt).
   Facts about the source that the object theorems take as parameters (isrc / dsrc / fsrc: copy maps, members assigned by
   operator=, statement list of setPrimes, converting constructor, first digit / left leaf reduced or not) are read from
   /repo by checks/C14.py on every run; the theorems are stated for the values found there (isrc_repo, dsrc_repo,
   fsrc_repo) and the `_refuted` twins show that each fact matters. *)
From Coq Require Import ZArith List.
From C14 Require Import Model ProofsArith ProofsGarner ProofsSystem ProofsPoly ProofsBalanced ProofsFixed ProofsLift.
Import ListNotations.
Local Open Scope Z_scope.

(* modular inverse used for the reciprocals: exact for every modulus p > 0 and every b coprime to p *)
Theorem C14_inverse_exact : forall b p, 0 < p -> Z.gcd b p = 1 -> (p | invmod b p * b - 1) /\ 0 <= invmod b p < p.
Proof. exact invmod_spec. Qed.
Print Assumptions C14_inverse_exact.

(* ComputeCk: c_k (p_0 ... p_{k-1}) == 1 (mod p_k), 0 <= c_k < p_k *)
Theorem C14_int_reciprocals : Reciprocals_stmt ComputeCk_int.   Proof. exact reciprocals_int. Qed.
Print Assumptions C14_int_reciprocals.
Theorem C14_dom_reciprocals : Reciprocals_stmt ComputeCk_dom.   Proof. exact reciprocals_dom. Qed.
Print Assumptions C14_dom_reciprocals.

(* RnsToMixedRadix + MixedRadixToRing: digits below their moduli, value in [0, prod), given residues *)
Theorem C14_int_mixed_radix : Garner_stmt (fun ps rs => RnsToMixedRadix_int ps (ComputeCk_int ps) rs).
Proof. exact garner_int. Qed.
Print Assumptions C14_int_mixed_radix.
Theorem C14_dom_mixed_radix : Garner_stmt (fun ps rs => RnsToMixedRadix_dom ps (ComputeCk_dom ps) rs).
Proof. exact garner_dom. Qed.
Print Assumptions C14_dom_mixed_radix.
(* the two theorems above need the FIRST residue canonical (Garner_stmt: 0 <= hd rs < hd ps): IntRNSsystem copied it into
   mixrad[0] as it comes.  With the first digit reduced (repair frag/C14.fix-3) ANY representatives are right ... *)
Theorem C14_int_mixed_radix_any_residues : Garner_any_stmt (fun ps rs => RnsToMixedRadix_int_h true ps (ComputeCk_int ps) rs).
Proof. exact garner_int_any. Qed.
Print Assumptions C14_int_mixed_radix_any_residues.
(* ... and for the body that copies it the unrestricted statement is false (moduli 3, 5, residues 18, 2: digits 18, 3, value 27) *)
Theorem C14_int_mixed_radix_unreduced_head_refuted :
  ~ Garner_any_stmt (fun ps rs => RnsToMixedRadix_int_h false ps (ComputeCk_int ps) rs).
Proof. exact garner_int_any_unreduced_refuted. Qed.
Print Assumptions C14_int_mixed_radix_unreduced_head_refuted.

(* uniqueness of the integer in [0, prod) with given residues *)
Theorem C14_unique : Unique_stmt.                               Proof. exact unique. Qed.
Print Assumptions C14_unique.
(* the same statement without "pairwise coprime" is false (moduli 4, 6: 0 and 12): the hypothesis is necessary *)
Theorem C14_unique_needs_coprime_refuted : ~ Unique_no_coprime_stmt.
Proof. exact unique_needs_coprime. Qed.
Print Assumptions C14_unique_needs_coprime_refuted.

(* RingToRns and RnsToRing are mutually inverse (RnsToRing o RingToRns = reduction mod prod) *)
Theorem C14_int_conversions_inverse : Inverse_stmt RnsToRing_int.   Proof. exact inverse_int. Qed.
Print Assumptions C14_int_conversions_inverse.
Theorem C14_dom_conversions_inverse : Inverse_stmt RnsToRing_dom.   Proof. exact inverse_dom. Qed.
Print Assumptions C14_dom_conversions_inverse.

(* every answer of a system object is the value of the conversion functions on the primes it stands for, for EVERY history
   of constructors (plain, templated converting, default), copies, assignments (member by member, onto any earlier
   object), setPrimes (statement by statement, on any earlier object) and earlier calls; on an object without primes or
   with too few residues there is no answer (None), as in the code.  Source facts (read on every run): copy map FromCk,
   converting constructor CkEmpty, operator= assigns all members, setPrimes = allocate(0); copy; _ck.resize(0); ComputeCk() *)
Theorem C14_int_history_independent : forall head_reduced, Int_history_stmt (isrc_repo head_reduced).
Proof. exact int_history. Qed.
Print Assumptions C14_int_history_independent.
Theorem C14_dom_history_independent : Dom_history_stmt dsrc_repo.         Proof. exact dom_history. Qed.
Print Assumptions C14_dom_history_independent.
(* each source fact matters: the copy map _ck(R._primes) of the copy constructor before 18d368d (history) ... *)
Theorem C14_int_copy_from_primes_refuted : ~ Int_history_stmt (mkIsrc FromPrimes CkEmpty imembers_all false).
Proof. exact int_history_from_primes_refuted. Qed.
Print Assumptions C14_int_copy_from_primes_refuted.
(* ... a converting constructor that sizes _ck in its initialiser list (ComputeCk tests _ck.size()) ... *)
Theorem C14_int_ctor_presized_refuted : ~ Int_history_stmt (mkIsrc FromCk CkSized imembers_all false).
Proof. exact int_history_presized_refuted. Qed.
Print Assumptions C14_int_ctor_presized_refuted.
(* ... an operator= that does not assign _ck ... *)
Theorem C14_int_assign_without_ck_refuted : ~ Int_history_stmt (mkIsrc FromCk CkEmpty [IMprimes; IMprod] false).
Proof. exact int_history_assign_without_ck_refuted. Qed.
Print Assumptions C14_int_assign_without_ck_refuted.
Theorem C14_dom_assign_without_ck_refuted : ~ Dom_history_stmt (mkDsrc dmembers_all [DMprimes] set_prog_repo).
Proof. exact dom_history_assign_without_ck_refuted. Qed.
Print Assumptions C14_dom_assign_without_ck_refuted.
(* ... a setPrimes without `_ck.resize(0)` *)
Theorem C14_dom_setPrimes_without_reset_refuted :
  ~ Dom_history_stmt (mkDsrc dmembers_all dmembers_all [SAllocPrimes0; SCopyPrimes; SComputeCk]).
Proof. exact dom_history_set_without_reset_refuted. Qed.
Print Assumptions C14_dom_setPrimes_without_reset_refuted.

(* end to end: any history, canonical residues: RnsToRing is THE integer of [0, prod) with these residues *)
Theorem C14_int_end_to_end : Int_end_to_end_stmt.               Proof. exact int_end_to_end. Qed.
Print Assumptions C14_int_end_to_end.
Theorem C14_dom_end_to_end : Dom_end_to_end_stmt.               Proof. exact dom_end_to_end. Qed.
Print Assumptions C14_dom_end_to_end.
(* the same for ANY representatives as residues (IntRNSsystem takes raw integers), for the body that reduces the first digit *)
Theorem C14_int_end_to_end_any_residues : Int_end_to_end_any_stmt.   Proof. exact int_end_to_end_any. Qed.
Print Assumptions C14_int_end_to_end_any_residues.
(* where the code has no answer (no primes; RNSsystem::MixedRadixToRing with a digit array of another size) the model has none *)
Theorem C14_undefined_where_the_code_is : Undefined_stmt.      Proof. exact undefined_cases. Qed.
Print Assumptions C14_undefined_where_the_code_is.

(* ChineseRemainder<Ring,Domain,true> as repaired: the unique lift in [0, M*D) *)
Theorem C14_functor_canonical : Functor_canonical_stmt cra_reduce_fixed.
Proof. exact functor_fixed_canonical. Qed.
Print Assumptions C14_functor_canonical.
(* before the repair / REDUCE = false: right residues only *)
Theorem C14_functor_unrepaired_congruent : Functor_congruent_stmt cra_reduce.
Proof. exact functor_reduce_congruent. Qed.
Print Assumptions C14_functor_unrepaired_congruent.
Theorem C14_functor_unrepaired_range_refuted : ~ Functor_canonical_stmt cra_reduce.
Proof. exact functor_reduce_canonical_refuted. Qed.
Print Assumptions C14_functor_unrepaired_range_refuted.
Theorem C14_functor_noreduce_congruent : Functor_congruent_stmt cra_noreduce.
Proof. exact functor_noreduce_congruent. Qed.
Print Assumptions C14_functor_noreduce_congruent.
(* REDUCE = false, the value: res = A + (e - A) (M^-1 mod D) M, and reduced into [0, M D) it is the canonical lift *)
Theorem C14_functor_noreduce_value : Functor_noreduce_value_stmt.
Proof. exact functor_noreduce_value. Qed.
Print Assumptions C14_functor_noreduce_value.

(* Poly1CRT over GF(p), p prime, points pairwise distinct mod p: RnsToRing has canonical coefficients, degree below the
   number of points and takes the given values (RingToRns o RnsToRing = id); it is the ONLY such polynomial; and
   RnsToRing o RingToRns = id on canonical polynomials of degree below the number of points. *)
Theorem C14_poly_crt : Poly_crt_full_stmt.   Proof. exact poly_crt_full. Qed.
Print Assumptions C14_poly_crt.

(* RNSsystem over ModularBalanced domains, odd pairwise coprime moduli: balanced digits, 2|V| <= prod - 1, the given
   residues, and V is the only integer of that range with these residues *)
Theorem C14_balanced_domains : Balanced_stmt.   Proof. exact balanced. Qed.
Print Assumptions C14_balanced_domains.

(* RNSsystemFixed: one combination step of the product tree is exact ... *)
Theorem C14_fixed_pair_step : Fixed_pair_stmt.   Proof. exact fixed_pair. Qed.
Print Assumptions C14_fixed_pair_step.
(* ... and so is the whole conversion (constructor tree, recursion RnsToRingLeft/RnsToRingRight over the stored tree, inner
   unbalanced RNSsystem) for EVERY number of primes >= 1 (any order, pairwise coprime): the result is in [0, prod), has the
   given residues, and is the only such integer.  Body in which a left leaf returns the residue as it comes: CANONICAL
   residues ... *)
Theorem C14_fixed_tree : Fixed_tree_stmt.   Proof. exact fixed_tree_correct. Qed.
Print Assumptions C14_fixed_tree.
(* ... body in which RnsToRingLeft reduces a left leaf (repair frag/C14.fix-4): ANY representatives as residues ... *)
Theorem C14_fixed_tree_any_residues : Fixed_tree_any_stmt true.   Proof. exact fixed_tree_any. Qed.
Print Assumptions C14_fixed_tree_any_residues.
(* ... which is false without that reduction (one prime 7, residue 10 gives 10) *)
Theorem C14_fixed_tree_unreduced_leaf_refuted : ~ Fixed_tree_any_stmt false.
Proof. exact fixed_tree_any_unreduced_refuted. Qed.
Print Assumptions C14_fixed_tree_unreduced_leaf_refuted.
(* RNSsystemFixed objects { tree, inner RNSsystem }: every answer is that of the conversion function of the primes, for every
   history of constructors, member-wise copies and assignments and earlier conversions *)
Theorem C14_fixed_history_independent : forall leaf_reduced, Fix_history_stmt (fsrc_repo leaf_reduced).
Proof. exact fix_history. Qed.
Print Assumptions C14_fixed_history_independent.
(* history (before 380857a): a copy constructor that does not copy the inner _RNS *)
Theorem C14_fixed_copy_without_rns_refuted : ~ Fix_history_stmt (mkFsrc [FMtree] fmembers_all false dsrc_repo).
Proof. exact fix_history_copy_without_rns_refuted. Qed.
Print Assumptions C14_fixed_copy_without_rns_refuted.

(* incremental lifting by the (repaired) two-modulus functor over any list of pairwise coprime moduli: every intermediate
   value x_k is in [0, p_0 ... p_k) and has the residues r_0 .. r_k (any representatives); unique by C14_unique *)
Theorem C14_lift_chain : Lift_chain_stmt cra_reduce_fixed.   Proof. exact lift_chain_correct. Qed.
Print Assumptions C14_lift_chain.
Theorem C14_lift_chain_unrepaired_refuted : ~ Lift_chain_stmt cra_reduce.
Proof. exact lift_chain_unrepaired_refuted. Qed.
Print Assumptions C14_lift_chain_unrepaired_refuted.
