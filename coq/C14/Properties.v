(* C14 property theorems (placeholder while the pipeline is brought up). *)
From Coq Require Import ZArith List.
From C14 Require Import Model.
Import ListNotations.
Local Open Scope Z_scope.
Theorem C14_copy_example : snd (int_RnsToRing (int_copy FromPrimes (int_mk [3;5;7])) [1;2;3]) = 1. Proof. vm_compute. reflexivity. Qed.
Print Assumptions C14_copy_example.
