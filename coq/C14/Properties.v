(* C14 property theorems.  Nothing but statements closed by `exact`, each followed by Print Assumptions.
   Moduli lists: any length >= 1, any order, every modulus > 0, pairwise coprime (good_moduli).
   "int" = IntRNSsystem (Integer residues), "dom" = RNSsystem<RING,Domain> (residues are domain elements).
   Statements: ProofsSystem.v (Reciprocals_stmt, Garner_stmt, Unique_stmt, Inverse_stmt, *_history_stmt,
   *_end_to_end_stmt, Functor_*_stmt). *)
From Coq Require Import ZArith List.
From C14 Require Import Model ProofsArith ProofsGarner ProofsSystem ProofsPoly ProofsBalanced.
Import ListNotations.
Local Open Scope Z_scope.

(* modular inverse used for the reciprocals: exact for every modulus p > 0 and every b coprime to p *)
Theorem C14_inverse_exact : forall b p, 0 < p -> Z.gcd b p = 1 -> (p | invmod b p * b - 1) /\ 0 <= invmod b p < p.
Proof. exact invmod_spec. Qed.
Print Assumptions C14_inverse_exact.

(* ComputeCk: c_k (p_0 ... p_{k-1}) == 1 (mod p_k), 0 <= c_k < p_k *)
Theorem C14_int_reciprocals : Reciprocals_stmt ComputeCk_int.   Proof. exact reciprocals_int. Qed.
Print Assumptions C14_int_reciprocals.
Theorem C14_dom_reciprocals : Reciprocals_stmt ComputeCk_dom.   Proof. exact reciprocals_dom. Qed.
Print Assumptions C14_dom_reciprocals.

(* RnsToMixedRadix + MixedRadixToRing: digits below their moduli, value in [0, prod), given residues *)
Theorem C14_int_mixed_radix : Garner_stmt (fun ps rs => RnsToMixedRadix_int ps (ComputeCk_int ps) rs).
Proof. exact garner_int. Qed.
Print Assumptions C14_int_mixed_radix.
Theorem C14_dom_mixed_radix : Garner_stmt (fun ps rs => RnsToMixedRadix_dom ps (ComputeCk_dom ps) rs).
Proof. exact garner_dom. Qed.
Print Assumptions C14_dom_mixed_radix.

(* uniqueness of the integer in [0, prod) with given residues *)
Theorem C14_unique : Unique_stmt.                               Proof. exact unique. Qed.
Print Assumptions C14_unique.

(* RingToRns and RnsToRing are mutually inverse (RnsToRing o RingToRns = reduction mod prod) *)
Theorem C14_int_conversions_inverse : Inverse_stmt RnsToRing_int.   Proof. exact inverse_int. Qed.
Print Assumptions C14_int_conversions_inverse.
Theorem C14_dom_conversions_inverse : Inverse_stmt RnsToRing_dom.   Proof. exact inverse_dom. Qed.
Print Assumptions C14_dom_conversions_inverse.

(* every answer of a system object is that of a freshly constructed one, for EVERY history of constructors,
   copies, assignments, setPrimes and earlier calls (copy map as in the repaired source: _ck from _ck) *)
Theorem C14_int_history_independent : Int_history_stmt FromCk.  Proof. exact int_history. Qed.
Print Assumptions C14_int_history_independent.
Theorem C14_dom_history_independent : Dom_history_stmt.         Proof. exact dom_history. Qed.
Print Assumptions C14_dom_history_independent.
(* the copy map _ck(R._primes) of the unrepaired constructor does not have the property *)
Theorem C14_int_copy_from_primes_refuted : ~ Int_history_stmt FromPrimes.
Proof. exact int_history_from_primes_refuted. Qed.
Print Assumptions C14_int_copy_from_primes_refuted.

(* end to end: any history, canonical residues: RnsToRing is THE integer of [0, prod) with these residues *)
Theorem C14_int_end_to_end : Int_end_to_end_stmt.               Proof. exact int_end_to_end. Qed.
Print Assumptions C14_int_end_to_end.
Theorem C14_dom_end_to_end : Dom_end_to_end_stmt.               Proof. exact dom_end_to_end. Qed.
Print Assumptions C14_dom_end_to_end.

(* ChineseRemainder<Ring,Domain,true> as repaired: the unique lift in [0, M*D) *)
Theorem C14_functor_canonical : Functor_canonical_stmt cra_reduce_fixed.
Proof. exact functor_fixed_canonical. Qed.
Print Assumptions C14_functor_canonical.
(* before the repair / REDUCE = false: right residues only *)
Theorem C14_functor_unrepaired_congruent : Functor_congruent_stmt cra_reduce.
Proof. exact functor_reduce_congruent. Qed.
Print Assumptions C14_functor_unrepaired_congruent.
Theorem C14_functor_unrepaired_range_refuted : ~ Functor_canonical_stmt cra_reduce.
Proof. exact functor_reduce_canonical_refuted. Qed.
Print Assumptions C14_functor_unrepaired_range_refuted.
Theorem C14_functor_noreduce_congruent : Functor_congruent_stmt cra_noreduce.
Proof. exact functor_noreduce_congruent. Qed.
Print Assumptions C14_functor_noreduce_congruent.

(* Poly1CRT over GF(p), p prime, points pairwise distinct mod p: RnsToRing has canonical coefficients, degree below the
   number of points and takes the given values (RingToRns o RnsToRing = id); it is the ONLY such polynomial; and
   RnsToRing o RingToRns = id on canonical polynomials of degree below the number of points. *)
Theorem C14_poly_crt : Poly_crt_full_stmt.   Proof. exact poly_crt_full. Qed.
Print Assumptions C14_poly_crt.

(* RNSsystem over ModularBalanced domains, odd pairwise coprime moduli: balanced digits, 2|V| <= prod - 1, the given
   residues, and V is the only integer of that range with these residues *)
Theorem C14_balanced_domains : Balanced_stmt.   Proof. exact balanced. Qed.
Print Assumptions C14_balanced_domains.

(* RNSsystemFixed: one combination step of the product tree is exact (partial: the recursion over the tree is not proved) *)
Theorem C14_fixed_pair_step_partial : Fixed_pair_stmt.   Proof. exact fixed_pair. Qed.
Print Assumptions C14_fixed_pair_step_partial.
