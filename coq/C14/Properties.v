(* C14 property theorems.  Nothing but statements closed by `exact`, each followed by Print Assumptions.
   Moduli lists: any length >= 1, any order, every modulus > 0, pairwise coprime (good_moduli).
   "int" = IntRNSsystem (Integer residues), "dom" = RNSsystem<RING,Domain> (residues are domain elements).
   Statements: ProofsSystem.v (Reciprocals_stmt, Garner_stmt, Unique_stmt, Unique_no_coprime_stmt, Inverse_stmt,
   *_history_stmt, *_end_to_end_stmt, Functor_*_stmt), ProofsPoly.v (Poly_crt_full_stmt), ProofsBalanced.v (Balanced_stmt,
   Fixed_pair_stmt), ProofsFixed.v (Fixed_tree_stmt), ProofsLift.v (Lift_chain_stmt). *)
From Coq Require Import ZArith List.
From C14 Require Import Model ProofsArith ProofsGarner ProofsSystem ProofsPoly ProofsBalanced ProofsFixed ProofsLift.
Import ListNotations.
Local Open Scope Z_scope.

(* modular inverse used for the reciprocals: exact for every modulus p > 0 and every b coprime to p *)
Theorem C14_inverse_exact : forall b p, 0 < p -> Z.gcd b p = 1 -> (p | invmod b p * b - 1) /\ 0 <= invmod b p < p.
Proof. exact invmod_spec. Qed.
Print Assumptions C14_inverse_exact.

(* ComputeCk: c_k (p_0 ... p_{k-1}) == 1 (mod p_k), 0 <= c_k < p_k *)
Theorem C14_int_reciprocals : Reciprocals_stmt ComputeCk_int.   Proof. exact reciprocals_int. Qed.
Print Assumptions C14_int_reciprocals.
Theorem C14_dom_reciprocals : Reciprocals_stmt ComputeCk_dom.   Proof. exact reciprocals_dom. Qed.
Print Assumptions C14_dom_reciprocals.

(* RnsToMixedRadix + MixedRadixToRing: digits below their moduli, value in [0, prod), given residues *)
Theorem C14_int_mixed_radix : Garner_stmt (fun ps rs => RnsToMixedRadix_int ps (ComputeCk_int ps) rs).
Proof. exact garner_int. Qed.
Print Assumptions C14_int_mixed_radix.
Theorem C14_dom_mixed_radix : Garner_stmt (fun ps rs => RnsToMixedRadix_dom ps (ComputeCk_dom ps) rs).
Proof. exact garner_dom. Qed.
Print Assumptions C14_dom_mixed_radix.

(* uniqueness of the integer in [0, prod) with given residues *)
Theorem C14_unique : Unique_stmt.                               Proof. exact unique. Qed.
Print Assumptions C14_unique.
(* the same statement without "pairwise coprime" is false (moduli 4, 6: 0 and 12): the hypothesis is necessary *)
Theorem C14_unique_needs_coprime_refuted : ~ Unique_no_coprime_stmt.
Proof. exact unique_needs_coprime. Qed.
Print Assumptions C14_unique_needs_coprime_refuted.

(* RingToRns and RnsToRing are mutually inverse (RnsToRing o RingToRns = reduction mod prod) *)
Theorem C14_int_conversions_inverse : Inverse_stmt RnsToRing_int.   Proof. exact inverse_int. Qed.
Print Assumptions C14_int_conversions_inverse.
Theorem C14_dom_conversions_inverse : Inverse_stmt RnsToRing_dom.   Proof. exact inverse_dom. Qed.
Print Assumptions C14_dom_conversions_inverse.

(* every answer of a system object is that of a freshly constructed one, for EVERY history of constructors (plain,
   templated converting, default), copies, assignments, setPrimes and earlier calls.  The two facts about the source the
   statement depends on are read from /repo on every run: the copy constructor takes _ck from _ck (FromCk) and the
   converting constructor leaves _ck empty (CkEmpty) *)
Theorem C14_int_history_independent : Int_history_stmt FromCk CkEmpty.  Proof. exact int_history. Qed.
Print Assumptions C14_int_history_independent.
Theorem C14_dom_history_independent : Dom_history_stmt.         Proof. exact dom_history. Qed.
Print Assumptions C14_dom_history_independent.
(* the copy map _ck(R._primes) of the unrepaired constructor does not have the property *)
Theorem C14_int_copy_from_primes_refuted : ~ Int_history_stmt FromPrimes CkEmpty.
Proof. exact int_history_from_primes_refuted. Qed.
Print Assumptions C14_int_copy_from_primes_refuted.
(* a converting constructor that sizes _ck in its initialiser list does not have it either (ComputeCk tests _ck.size()) *)
Theorem C14_int_ctor_presized_refuted : ~ Int_history_stmt FromCk CkSized.
Proof. exact int_history_presized_refuted. Qed.
Print Assumptions C14_int_ctor_presized_refuted.

(* end to end: any history, canonical residues: RnsToRing is THE integer of [0, prod) with these residues *)
Theorem C14_int_end_to_end : Int_end_to_end_stmt.               Proof. exact int_end_to_end. Qed.
Print Assumptions C14_int_end_to_end.
Theorem C14_dom_end_to_end : Dom_end_to_end_stmt.               Proof. exact dom_end_to_end. Qed.
Print Assumptions C14_dom_end_to_end.

(* ChineseRemainder<Ring,Domain,true> as repaired: the unique lift in [0, M*D) *)
Theorem C14_functor_canonical : Functor_canonical_stmt cra_reduce_fixed.
Proof. exact functor_fixed_canonical. Qed.
Print Assumptions C14_functor_canonical.
(* before the repair / REDUCE = false: right residues only *)
Theorem C14_functor_unrepaired_congruent : Functor_congruent_stmt cra_reduce.
Proof. exact functor_reduce_congruent. Qed.
Print Assumptions C14_functor_unrepaired_congruent.
Theorem C14_functor_unrepaired_range_refuted : ~ Functor_canonical_stmt cra_reduce.
Proof. exact functor_reduce_canonical_refuted. Qed.
Print Assumptions C14_functor_unrepaired_range_refuted.
Theorem C14_functor_noreduce_congruent : Functor_congruent_stmt cra_noreduce.
Proof. exact functor_noreduce_congruent. Qed.
Print Assumptions C14_functor_noreduce_congruent.

(* Poly1CRT over GF(p), p prime, points pairwise distinct mod p: RnsToRing has canonical coefficients, degree below the
   number of points and takes the given values (RingToRns o RnsToRing = id); it is the ONLY such polynomial; and
   RnsToRing o RingToRns = id on canonical polynomials of degree below the number of points. *)
Theorem C14_poly_crt : Poly_crt_full_stmt.   Proof. exact poly_crt_full. Qed.
Print Assumptions C14_poly_crt.

(* RNSsystem over ModularBalanced domains, odd pairwise coprime moduli: balanced digits, 2|V| <= prod - 1, the given
   residues, and V is the only integer of that range with these residues *)
Theorem C14_balanced_domains : Balanced_stmt.   Proof. exact balanced. Qed.
Print Assumptions C14_balanced_domains.

(* RNSsystemFixed: one combination step of the product tree is exact ... *)
Theorem C14_fixed_pair_step : Fixed_pair_stmt.   Proof. exact fixed_pair. Qed.
Print Assumptions C14_fixed_pair_step.
(* ... and so is the whole recursion RnsToRingLeft/RnsToRingRight over the stored tree followed by the inner unbalanced
   RNSsystem, for EVERY number of primes >= 1 (any order, pairwise coprime, canonical residues): the result is in
   [0, prod), has the given residues, and is the only such integer *)
Theorem C14_fixed_tree : Fixed_tree_stmt.   Proof. exact fixed_tree_correct. Qed.
Print Assumptions C14_fixed_tree.

(* incremental lifting by the (repaired) two-modulus functor over any list of pairwise coprime moduli: every intermediate
   value x_k is in [0, p_0 ... p_k) and has the residues r_0 .. r_k (any representatives); unique by C14_unique *)
Theorem C14_lift_chain : Lift_chain_stmt cra_reduce_fixed.   Proof. exact lift_chain_correct. Qed.
Print Assumptions C14_lift_chain.
Theorem C14_lift_chain_unrepaired_refuted : ~ Lift_chain_stmt cra_reduce.
Proof. exact lift_chain_unrepaired_refuted. Qed.
Print Assumptions C14_lift_chain_unrepaired_refuted.
