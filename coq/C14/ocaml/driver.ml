(* C14 driver for the extracted model.  One case per line (see harness/c14_rns.C for the result format):
     int <cksrc> <ttck> <members operator= assigns> <first digit reduced 0|1> <ctor> <order> <hist> n p1..pn r1..rn na a1..a_na k o1..ok
          (the first four: facts read from the source; ctor: element type of the constructor argument, Integer = plain constructor;
           order: the entry point called first; o = the unrelated system used as assignment target / to warm caches)
     rns <members copied> <members assigned> <statements of setPrimes> <order> <hist> n p1..pn r1..rn na a1..a_na k o1..ok
     rnsexc <3 facts> n p1..pn m d1..dm                        (MixedRadixToRing: no primes / wrong number of digits -> EXCEPTION)
     fixed <members copied> <members assigned> <left leaf reduced 0|1> <3 RNSsystem facts> <hist> n p1..pn r1..rn k o1..ok
     bal <order> n p1..pn r1..rn na a1..a_na                  (balanced residue domains; the answers do not depend on the history)
     fixed n p1..pn r1..rn
     cra <reduce|noreduce|fixed> M D A e
     lift <reduce|fixed> n p1..pn r1..rn
     poly p n a1..an r1..rn d c0..cd                                                              *)
let zs = z_of_string
let sl l = String.concat " " (List.map string_of_z l)
let grp l = if l = [] then "" else sl l ^ " "
let rec take n l = if n <= 0 then [] else match l with [] -> failwith "short line" | x :: t -> x :: take (n - 1) t
let rec drop n l = if n <= 0 then l else match l with [] -> failwith "short line" | _ :: t -> drop (n - 1) t
let hist_of = function
  | "fresh" -> Model.Hfresh | "reuse" -> Model.Hreuse | "copycold" -> Model.Hcopycold | "copywarm" -> Model.Hcopywarm
  | "copy2" -> Model.Hcopy2 | "copymod" -> Model.Hcopymod | "assigncold" -> Model.Hassigncold | "assignwarm" -> Model.Hassignwarm
  | "assignsame" -> Model.Hassignsame | "assigncc" -> Model.Hassigncc | "setcold" -> Model.Hsetcold | "setwarm" -> Model.Hsetwarm
  | "setsame" -> Model.Hsetsame | "setback" -> Model.Hsetback | "dfltcopyset" -> Model.Hdfltcopyset
  | s -> failwith ("hist " ^ s)
let fhist_of = function
  | "fresh" -> Model.FHfresh | "reuse" -> Model.FHreuse | "assigncold" -> Model.FHassigncold | "assignwarm" | "assignsame" -> Model.FHassignwarm
  | "assigncc" -> Model.FHassigncc | "copycold" -> Model.FHcopycold | "copywarm" -> Model.FHcopywarm | "copy2" -> Model.FHcopy2
  | "copyassign" -> Model.FHcopyassign | s -> failwith ("fhist " ^ s)
let src_of = function
  | "primes" -> Model.FromPrimes | "ck" -> Model.FromCk | "nothing" -> Model.FromNothing | s -> failwith ("cksrc " ^ s)
let ckinit_of = function "empty" -> Model.CkEmpty | "sized" -> Model.CkSized | s -> failwith ("ckinit " ^ s)
let order_of = function
  | "mix" -> Model.Fmix | "ring" -> Model.Fring | "recip" -> Model.Frecip | "recipi" -> Model.Frecipi
  | "prod" -> Model.Fprod | "rns" -> Model.Frns | s -> failwith ("order " ^ s)
(* facts read from the source, as comma-separated member / statement names ("-" = none) *)
let names s = if s = "-" then [] else String.split_on_char ',' s
let imembers s = List.map (function "primes" -> Model.IMprimes | "prod" -> Model.IMprod | "ck" -> Model.IMck | x -> failwith ("imember " ^ x)) (names s)
let dmembers s = List.map (function "primes" -> Model.DMprimes | "ck" -> Model.DMck | x -> failwith ("dmember " ^ x)) (names s)
let fmembers s = List.map (function "tree" -> Model.FMtree | "rns" -> Model.FMrns | x -> failwith ("fmember " ^ x)) (names s)
let setprog s = List.map (function "alloc" -> Model.SAllocPrimes0 | "copy" -> Model.SCopyPrimes | "resize" -> Model.SResizeCk0
                                 | "compute" -> Model.SComputeCk | x -> failwith ("set_stmt " ^ x)) (names s)
let flag s = (s = "1")
let dsrc_of c a p = { Model.ds_copy = dmembers c; Model.ds_assign = dmembers a; Model.ds_set = setprog p }
let ostr = function Some v -> string_of_z v | None -> "UNDEFINED"
let strip_trailing_zeros l =
  let rec go = function [] -> [] | x :: t -> if x = Model.Z0 then go t else x :: t in
  List.rev (go (List.rev l))
let parse_sys rest =
  match rest with
  | ns :: rest ->
    let n = int_of_string ns in
    let p = List.map zs (take n rest) in
    let r = List.map zs (take n (drop n rest)) in
    (p, r, drop (2 * n) rest)
  | _ -> failwith "short line"
let () = run_lines (fun toks ->
  match toks with
  | "int" :: src :: ttck :: asg :: head :: ctor :: order :: h :: rest ->
    let (p, r, rest) = parse_sys rest in
    (match rest with
     | nas :: rest ->
       let na = int_of_string nas in
       let al = List.map zs (take na rest) in
       let rest = drop na rest in
       let ks = List.hd rest and os = List.tl rest in
       let o = List.map zs (take (int_of_string ks) os) in
       let f = { Model.is_copy = src_of src; Model.is_tt = ckinit_of ttck; Model.is_assign = imembers asg; Model.is_head = flag head } in
       let mk = if ctor = "Integer" then Model.int_mk else Model.int_mk_tt (ckinit_of ttck) in
       (match Model.int_run f mk (order_of order) (hist_of h) p o r al with
        | None -> "UNDEFINED"
        | Some ((((((((((mix, v), pr), rrs), ck), v2), pacc), ck2), v3), p2), first) ->
          let rr = List.concat (List.map fst rrs) and back = List.map snd rrs in
          let rr0 = (match List.rev rrs with [] -> [] | (x, _) :: _ -> x) in
          grp mix ^ "| " ^ string_of_z v ^ " | " ^ string_of_z pr ^ " | " ^ grp rr ^ "| " ^ grp back ^ "| " ^ grp ck ^ "| " ^ string_of_z v2
          ^ " | " ^ string_of_int (List.length pacc) ^ " " ^ grp pacc ^ "| " ^ grp pacc ^ "| " ^ grp ck2 ^ "| " ^ string_of_z v3
          ^ " | " ^ string_of_z p2 ^ " | " ^ grp rr0 ^ "| " ^ grp first)
  | _ -> "BAD-LINE")
  | "rns" :: cp :: asg :: prog :: order :: h :: rest ->
    let (p, r, rest) = parse_sys rest in
    (match rest with
     | nas :: rest ->
       let na = int_of_string nas in
       let al = List.map zs (take na rest) in
       let rest = drop na rest in
       let ks = List.hd rest and os = List.tl rest in
       let o = List.map zs (take (int_of_string ks) os) in
       (match Model.dom_run (dsrc_of cp asg prog) (order_of order) (hist_of h) p o r al with
        | None -> "UNDEFINED"
        | Some ((((((((((mix, v), rrs), ck), v2), pacc), ck2), v3), mixe), mixo), first) ->
          let rr = List.concat (List.map fst rrs) and back = List.map snd rrs in
          let rr0 = (match List.rev rrs with [] -> [] | (x, _) :: _ -> x) in
          grp mix ^ "| " ^ string_of_z v ^ " | " ^ grp rr ^ "| " ^ grp back ^ "| " ^ grp ck ^ "| " ^ string_of_z v2
          ^ " | " ^ string_of_int (List.length pacc) ^ " " ^ grp pacc ^ "| " ^ grp pacc ^ "| " ^ grp ck2 ^ "| " ^ string_of_z v3
          ^ " | " ^ grp mixe ^ "| " ^ grp mixo ^ "| " ^ grp rr0 ^ "| " ^ grp first)
  | _ -> "BAD-LINE")
  | "ringrns" :: cp :: asg :: prog :: h :: rest ->
    (* RNSsystem<RING != Integer, Domain>: the same model; digits | V | residues of a | back *)
    let (p, r, rest) = parse_sys rest in
    let a = zs (List.hd rest) in
    let ks = List.hd (List.tl rest) and os = List.tl (List.tl rest) in
    let o = List.map zs (take (int_of_string ks) os) in
    (match Model.dom_run (dsrc_of cp asg prog) Model.Fmix (hist_of h) p o r [a] with
     | None -> "UNDEFINED"
     | Some ((((((((((mix, v), rrs), _), _), _), _), _), _), _), _) ->
       grp mix ^ "| " ^ string_of_z v ^ " | " ^ grp (List.concat (List.map fst rrs)) ^ "| " ^ grp (List.map snd rrs))
  | "rnsexc" :: cp :: asg :: prog :: rest ->
    (* RNSsystem::MixedRadixToRing on a system with the primes p (possibly none) and a digit array of any size *)
    (match rest with
     | ns :: rest ->
       let n = int_of_string ns in
       let p = List.map zs (take n rest) in
       let rest = drop n rest in
       let m = int_of_string (List.hd rest) in
       let mix = List.map zs (take m (List.tl rest)) in
       (match Model.dom_exc_run (dsrc_of cp asg prog) p mix with Some v -> string_of_z v | None -> "EXCEPTION")
     | _ -> "BAD-LINE")
  | "bal" :: order :: rest ->
    let (p, r, rest) = parse_sys rest in
    (match rest with
     | nas :: rest ->
       let al = List.map zs (take (int_of_string nas) rest) in
       let (((mix, v), rrs), ck) = Model.bal_run p r al in
       let rr = List.concat (List.map fst rrs) and back = List.map snd rrs in
       let rr0 = (match List.rev rrs with [] -> [] | (x, _) :: _ -> x) in
       let last1 l = (match List.rev l with [] -> [] | x :: _ -> [x]) in
       let first = (match order with
           | "mix" | "prod" -> mix | "ring" -> [v] | "recip" -> ck | "recipi" -> last1 ck
           | "rns" -> (match rrs with [] -> [] | (x, _) :: _ -> x) | s -> failwith ("order " ^ s)) in
       grp mix ^ "| " ^ string_of_z v ^ " | " ^ grp rr ^ "| " ^ grp back ^ "| " ^ grp ck ^ "| " ^ string_of_z v
       ^ " | " ^ string_of_int (List.length p) ^ " " ^ grp p ^ "| " ^ grp p ^ "| " ^ grp ck ^ "| " ^ string_of_z v
       ^ " | " ^ grp mix ^ "| " ^ grp mix ^ "| " ^ grp rr0 ^ "| " ^ grp first
     | _ -> "BAD-LINE")
  | "fixed" :: fcp :: fasg :: leaf :: cp :: asg :: prog :: h :: rest ->
    let (p, r, rest) = parse_sys rest in
    let ks = List.hd rest and os = List.tl rest in
    let o = List.map zs (take (int_of_string ks) os) in
    let fs = { Model.fs_copy = fmembers fcp; Model.fs_assign = fmembers fasg; Model.fs_leaf = flag leaf; Model.fs_dom = dsrc_of cp asg prog } in
    let ((v, v2), t) = Model.fix_run fs (fhist_of h) p o r in
    ostr v ^ " " ^ ostr v2 ^ " | " ^ string_of_int (List.length t) ^ " "
    ^ String.concat "" (List.map (fun lv -> string_of_int (List.length lv) ^ " " ^ grp lv) t)
  | ["cra"; variant; m; d; a; e] ->
    let f = (match variant with
        | "reduce" -> Model.cra_reduce | "noreduce" -> Model.cra_noreduce | "fixed" -> Model.cra_reduce_fixed
        | s -> failwith ("variant " ^ s)) in
    let v = string_of_z (f (zs m) (zs d) (zs a) (zs e)) in v ^ " " ^ v ^ " " ^ v
  | "lift" :: variant :: rest ->
    let (p, r, _) = parse_sys rest in
    let f = (match variant with "reduce" -> Model.cra_reduce | "fixed" -> Model.cra_reduce_fixed | s -> failwith ("variant " ^ s)) in
    let rc = List.map2 (fun x q -> Model.Z.modulo x q) r p in
    grp (Model.lift_run f p r) ^ "| " ^ ostr (snd (Model.dom_RnsToRing (Model.dom_mk p) rc))
  | "poly" :: ps :: rest ->
    let p = zs ps in
    let (pts, r, rest) = parse_sys rest in
    (match rest with
     | ds :: cs ->
       let c = List.map zs (take (int_of_string ds + 1) cs) in
       let c = strip_trailing_zeros (List.map (fun x -> Model.Z.modulo x p) c) in
       let cks = Model.poly_ComputeCk p pts in
       let ckstr = String.concat "" (List.map (fun ck -> let ck = strip_trailing_zeros ck in
                                                 string_of_int (List.length ck - 1) ^ " " ^ grp ck) cks) in
       grp (strip_trailing_zeros (Model.poly_RnsToRing p pts r)) ^ "| " ^ grp (Model.poly_RingToRns p pts c)
       ^ "| " ^ string_of_int (List.length pts) ^ " " ^ grp (List.map (fun x -> Model.Z.modulo x p) pts) ^ "| " ^ ckstr ^ "| 1"
  | _ -> "BAD-LINE")
  | ["skip"] -> "SKIP"
  | _ -> "BAD-LINE")
