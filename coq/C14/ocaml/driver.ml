(* C14 driver for the extracted model.  One case per line (see harness/c14_rns.C for the result format):
     int <cksrc> <ttck> <ctor> <order> <hist> n p1..pn r1..rn na a1..a_na k o1..ok
          (cksrc/ttck: facts read from the source; ctor: element type of the constructor argument, Integer = plain constructor;
           order: the entry point called first; o = the unrelated system used to warm caches)
     rns <order> <hist> n p1..pn r1..rn na a1..a_na k o1..ok
     bal <order> n p1..pn r1..rn na a1..a_na                  (balanced residue domains; the answers do not depend on the history)
     fixed n p1..pn r1..rn
     cra <reduce|noreduce|fixed> M D A e
     lift <reduce|fixed> n p1..pn r1..rn
     poly p n a1..an r1..rn d c0..cd                                                              *)
let zs = z_of_string
let sl l = String.concat " " (List.map string_of_z l)
let grp l = if l = [] then "" else sl l ^ " "
let rec take n l = if n <= 0 then [] else match l with [] -> failwith "short line" | x :: t -> x :: take (n - 1) t
let rec drop n l = if n <= 0 then l else match l with [] -> failwith "short line" | _ :: t -> drop (n - 1) t
let hist_of = function
  | "fresh" | "freshtt" -> Model.Hfresh | "reuse" -> Model.Hreuse | "copycold" -> Model.Hcopycold
  | "copywarm" | "copymod" -> Model.Hcopywarm | "copy2" -> Model.Hcopy2 | "assigncold" -> Model.Hassigncold
  | "assignwarm" | "assignsame" | "assigncc" -> Model.Hassignwarm | "setcold" | "dfltcopyset" -> Model.Hsetcold
  | "setwarm" | "setsame" | "setback" -> Model.Hsetwarm
  | s -> failwith ("hist " ^ s)
let src_of = function
  | "primes" -> Model.FromPrimes | "ck" -> Model.FromCk | "nothing" -> Model.FromNothing | s -> failwith ("cksrc " ^ s)
let ckinit_of = function "empty" -> Model.CkEmpty | "sized" -> Model.CkSized | s -> failwith ("ckinit " ^ s)
let order_of = function
  | "mix" -> Model.Fmix | "ring" -> Model.Fring | "recip" -> Model.Frecip | "recipi" -> Model.Frecipi
  | "prod" -> Model.Fprod | "rns" -> Model.Frns | s -> failwith ("order " ^ s)
let strip_trailing_zeros l =
  let rec go = function [] -> [] | x :: t -> if x = Model.Z0 then go t else x :: t in
  List.rev (go (List.rev l))
let parse_sys rest =
  match rest with
  | ns :: rest ->
    let n = int_of_string ns in
    let p = List.map zs (take n rest) in
    let r = List.map zs (take n (drop n rest)) in
    (p, r, drop (2 * n) rest)
  | _ -> failwith "short line"
let () = run_lines (fun toks ->
  match toks with
  | "int" :: src :: ttck :: ctor :: order :: h :: rest ->
    let (p, r, rest) = parse_sys rest in
    (match rest with
     | nas :: rest ->
       let na = int_of_string nas in
       let al = List.map zs (take na rest) in
       let rest = drop na rest in
       let ks = List.hd rest and os = List.tl rest in
       let o = List.map zs (take (int_of_string ks) os) in
       let mk = if ctor = "Integer" then Model.int_mk else Model.int_mk_tt (ckinit_of ttck) in
       let (((((((mix, v), pr), rrs), ck), v2), p2), first) = Model.int_run (src_of src) mk (order_of order) (hist_of h) p o r al in
       let rr = List.concat (List.map fst rrs) and back = List.map snd rrs in
       let rr0 = (match List.rev rrs with [] -> [] | (x, _) :: _ -> x) in
       grp mix ^ "| " ^ string_of_z v ^ " | " ^ string_of_z pr ^ " | " ^ grp rr ^ "| " ^ grp back ^ "| " ^ grp ck ^ "| " ^ string_of_z v2
       ^ " | " ^ string_of_int (List.length p) ^ " " ^ grp p ^ "| " ^ grp p ^ "| " ^ grp ck ^ "| " ^ string_of_z v
       ^ " | " ^ string_of_z p2 ^ " | " ^ grp rr0 ^ "| " ^ grp first
  | _ -> "BAD-LINE")
  | "rns" :: order :: h :: rest ->
    let (p, r, rest) = parse_sys rest in
    (match rest with
     | nas :: rest ->
       let na = int_of_string nas in
       let al = List.map zs (take na rest) in
       let rest = drop na rest in
       let ks = List.hd rest and os = List.tl rest in
       let o = List.map zs (take (int_of_string ks) os) in
       let (((((mix, v), rrs), ck), v2), first) = Model.dom_run (order_of order) (hist_of h) p o r al in
       let rr = List.concat (List.map fst rrs) and back = List.map snd rrs in
       let rr0 = (match List.rev rrs with [] -> [] | (x, _) :: _ -> x) in
       grp mix ^ "| " ^ string_of_z v ^ " | " ^ grp rr ^ "| " ^ grp back ^ "| " ^ grp ck ^ "| " ^ string_of_z v2
       ^ " | " ^ string_of_int (List.length p) ^ " " ^ grp p ^ "| " ^ grp p ^ "| " ^ grp ck ^ "| " ^ string_of_z v
       ^ " | " ^ grp mix ^ "| " ^ grp mix ^ "| " ^ grp rr0 ^ "| " ^ grp first
  | _ -> "BAD-LINE")
  | "bal" :: order :: rest ->
    let (p, r, rest) = parse_sys rest in
    (match rest with
     | nas :: rest ->
       let al = List.map zs (take (int_of_string nas) rest) in
       let (((mix, v), rrs), ck) = Model.bal_run p r al in
       let rr = List.concat (List.map fst rrs) and back = List.map snd rrs in
       let rr0 = (match List.rev rrs with [] -> [] | (x, _) :: _ -> x) in
       let last1 l = (match List.rev l with [] -> [] | x :: _ -> [x]) in
       let first = (match order with
           | "mix" | "prod" -> mix | "ring" -> [v] | "recip" -> ck | "recipi" -> last1 ck
           | "rns" -> (match rrs with [] -> [] | (x, _) :: _ -> x) | s -> failwith ("order " ^ s)) in
       grp mix ^ "| " ^ string_of_z v ^ " | " ^ grp rr ^ "| " ^ grp back ^ "| " ^ grp ck ^ "| " ^ string_of_z v
       ^ " | " ^ string_of_int (List.length p) ^ " " ^ grp p ^ "| " ^ grp p ^ "| " ^ grp ck ^ "| " ^ string_of_z v
       ^ " | " ^ grp mix ^ "| " ^ grp mix ^ "| " ^ grp rr0 ^ "| " ^ grp first
     | _ -> "BAD-LINE")
  | "fixed" :: rest ->
    let (p, r, _) = parse_sys rest in
    let v = string_of_z (Model.fixed_RnsToRing p r) in
    let t = Model.fixed_tree p in
    v ^ " " ^ v ^ " | " ^ string_of_int (List.length t) ^ " "
    ^ String.concat "" (List.map (fun lv -> string_of_int (List.length lv) ^ " " ^ grp lv) t)
  | ["cra"; variant; m; d; a; e] ->
    let f = (match variant with
        | "reduce" -> Model.cra_reduce | "noreduce" -> Model.cra_noreduce | "fixed" -> Model.cra_reduce_fixed
        | s -> failwith ("variant " ^ s)) in
    let v = string_of_z (f (zs m) (zs d) (zs a) (zs e)) in v ^ " " ^ v ^ " " ^ v
  | "lift" :: variant :: rest ->
    let (p, r, _) = parse_sys rest in
    let f = (match variant with "reduce" -> Model.cra_reduce | "fixed" -> Model.cra_reduce_fixed | s -> failwith ("variant " ^ s)) in
    let rc = List.map2 (fun x q -> Model.Z.modulo x q) r p in
    grp (Model.lift_run f p r) ^ "| " ^ string_of_z (snd (Model.dom_RnsToRing (Model.dom_mk p) rc))
  | "poly" :: ps :: rest ->
    let p = zs ps in
    let (pts, r, rest) = parse_sys rest in
    (match rest with
     | ds :: cs ->
       let c = List.map zs (take (int_of_string ds + 1) cs) in
       let c = strip_trailing_zeros (List.map (fun x -> Model.Z.modulo x p) c) in
       let cks = Model.poly_ComputeCk p pts in
       let ckstr = String.concat "" (List.map (fun ck -> let ck = strip_trailing_zeros ck in
                                                 string_of_int (List.length ck - 1) ^ " " ^ grp ck) cks) in
       grp (strip_trailing_zeros (Model.poly_RnsToRing p pts r)) ^ "| " ^ grp (Model.poly_RingToRns p pts c)
       ^ "| " ^ string_of_int (List.length pts) ^ " " ^ grp (List.map (fun x -> Model.Z.modulo x p) pts) ^ "| " ^ ckstr ^ "| 1"
  | _ -> "BAD-LINE")
  | ["skip"] -> "SKIP"
  | _ -> "BAD-LINE")
