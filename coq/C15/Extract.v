(* Extraction of the executable model for the correspondence run (ExtrOcamlBasic only). *)
From Coq Require Import ZArith.
From Coq Require Extraction.
From Coq Require Import ExtrOcamlBasic.
From C15 Require Import Model ModelPoly ModelRm ModelExt ModelRu ModelRat.
Extraction Language OCaml.
Cd "ocaml".
Extraction "model.ml" run_ring run_gcd5 run_gcd4 run_divmod run_divmod_w run_powmod run_q gcdext invmod run_poly run_pdivmod run_rm run_rudiv run_rudiv_op run_ext run_ext_byref run_polyB run_pdivmodin run_pgcdx run_ppdivmod run_ppmod run_rm_expw run_qmuldiv run_rushift run_rulmul.
Cd "..".
