(* C15 — destination may alias an operand.   Executable model, no proofs in this file.

   A small imperative core: objects passed by reference live in a store  loc -> Z .
   Locations of the caller's objects are  U p  (p : positive); the locals / temporaries a C++ body
   declares live in the disjoint namespace  T n  (constructor discrimination: a local can never alias
   a caller's object).  A state monad threads the store.

   The multi-step bodies are modelled after the code, statement by statement, over locations:
     modular-ruint.inl      (Modular<ruint<K>,ruint<K>>  = "same",  Modular<ruint<K>,ruint<K+1>> = "diff")
     montgomery-ruint.inl   (Montgomery<ruint<K>>)
     modular-integer.inl    (Modular<Integer>)
     gmp++_int_mul.C        (Integer::axpy/axpyin/maxpy/maxpyin/axmy/axmyin, with the &res == &b tests)
     gmp++_int_gcd.C        (gcd(g,u,v,a,b), gcd(u,v,a,b))
     gmp++_int_div.C        (Integer::divmod(q,r,a,b))
     gmp++_int_pow.C        (powmod(Res,n,int64 e,m))
     qfield.h               (QField<Rational>::neg/negin/inv/invin, by-value forms)
     givrataddsub.C         (Rational::operator+= -=;  *= and /= of givratmuldiv.C, both Reduce and NoReduce mode: ModelRat.v)
   The primitive steps (one RecInt free function, one mpz_* call) are atomic exact operations:
   they read all their operands, then write their destination.  That the real primitives behave like
   this under aliasing is what the alias harness checks on every run (harness/c15_*.C). *)
From Coq Require Import ZArith List Bool.
Import ListNotations.
Local Open Scope Z_scope.
Arguments Z.mul : simpl never.
Arguments Z.add : simpl never.
Arguments Z.pow : simpl never.

(* ------------------------------------------------------------------ store and monad *)
Inductive loc : Type := U (p : positive) | T (n : nat).

Definition loc_eqb (x y : loc) : bool :=
  match x, y with
  | U p, U q => Pos.eqb p q
  | T n, T m => Nat.eqb n m
  | _, _ => false
  end.

Definition store := loc -> Z.
Definition upd (h : store) (l : loc) (v : Z) : store := fun x => if loc_eqb x l then v else h x.

Definition M (A : Type) := store -> A * store.
Definition ret {A} (a : A) : M A := fun h => (a, h).
Definition bind {A B} (c : M A) (f : A -> M B) : M B := fun h => let (a, h1) := c h in f a h1.
Definition load (l : loc) : M Z := fun h => (h l, h).
Definition stor (l : loc) (v : Z) : M unit := fun h => (tt, upd h l v).
Definition exec {A} (c : M A) (h : store) : store := snd (c h).
Definition value {A} (c : M A) (h : store) : A := fst (c h).

Notation "x <- c1 ;; c2" := (bind c1 (fun x => c2)) (at level 61, c1 at next level, right associativity).
Notation "c1 ;; c2" := (bind c1 (fun _ => c2)) (at level 61, right associativity).

(* an operand of a primitive: an object (by location) or a value held in a const member of the domain
   object (_p, _r3, ...: never a destination, so it needs no location) *)
Inductive arg : Type := L (l : loc) | K (z : Z).
Definition rd (a : arg) : M Z := match a with L l => load l | K z => ret z end.
Definition skip : M unit := ret tt.
Definition when (c : bool) (m : M unit) : M unit := if c then m else skip.

(* ------------------------------------------------------------------ pure helpers *)
(* modular inverse as the code computes it is not the subject here: a concrete total function
   (extended Euclid with fuel) so that the model runs; alias theorems hold for whatever it returns. *)
Fixpoint egcd_fuel (n : nat) (a b x lastx : Z) : Z * Z :=
  match n with
  | O => (a, lastx)
  | S n' => if b =? 0 then (a, lastx)
            else let q := a / b in egcd_fuel n' b (a - q * b) (lastx - q * x) x
  end.
(* invmod a p : u with a u = gcd (mod p), 0 <= u < p  (mpz_invert / RecInt::inv_mod for invertible a) *)
Definition invmod (a p : Z) : Z :=
  let '(g, u) := egcd_fuel (2 * Z.to_nat (Z.log2 (Z.abs p + 2)) + 4) (a mod p) p 0 1 in u mod p.

(* mpz_gcdext(g,s,t,a,b): g = gcd >= 0 and the cofactors GMP documents
   (|s| < |b|/(2g), |t| < |a|/(2g) in the general case; the listed exceptional cases). *)
Fixpoint xgcd_fuel (n : nat) (a b s0 s1 t0 t1 : Z) : Z * Z * Z :=
  match n with
  | O => (a, s0, t0)
  | S n' => if b =? 0 then (a, s0, t0)
            else let q := a / b in xgcd_fuel n' b (a - q * b) s1 (s0 - q * s1) t1 (t0 - q * t1)
  end.
Definition gcdext (a b : Z) : Z * Z * Z :=
  let aa := Z.abs a in let ab := Z.abs b in
  if aa =? ab then (if aa =? 0 then (0, 0, 0) else (aa, 0, Z.sgn b))
  else if ab =? 0 then (aa, Z.sgn a, 0)
  else if aa =? 0 then (ab, 0, Z.sgn b)
  else
    let '(g, s, t) := xgcd_fuel (2 * Z.to_nat (Z.log2 (aa + ab)) + 4) aa ab 1 0 0 1 in
    if ab =? 2 * g then (g, Z.sgn a, (g - aa) / b)
    else if aa =? 2 * g then (g, (g - ab) / a, Z.sgn b)
    else (g, s * Z.sgn a, t * Z.sgn b).

(* ================================================================== RecInt primitives (atomic) *)
Section RecInt.
  Variable W : Z.          (* 2^(2^K): the size of Element = ruint<K> *)

  Definition ru_copy (r : loc) (a : arg) : M unit := x <- rd a ;; stor r x.
  Definition ru_reset (r : loc) : M unit := stor r 0.
  Definition ru_add (r : loc) (a b : arg) : M unit := x <- rd a ;; y <- rd b ;; stor r ((x + y) mod W).
  Definition ru_addc (r : loc) (a b : arg) : M bool :=
    x <- rd a ;; y <- rd b ;; stor r ((x + y) mod W) ;; ret (W <=? x + y).
  Definition ru_sub (r : loc) (a b : arg) : M unit := x <- rd a ;; y <- rd b ;; stor r ((x - y) mod W).
  Definition ru_mul (r : loc) (a b : arg) : M unit := x <- rd a ;; y <- rd b ;; stor r ((x * y) mod W).
  Definition ru_lmul (r : loc) (a b : arg) : M unit := x <- rd a ;; y <- rd b ;; stor r (x * y).  (* r : ruint<K+1> *)
  Definition ru_addmul (r : loc) (a b : arg) : M unit :=
    v <- load r ;; x <- rd a ;; y <- rd b ;; stor r ((v + x * y) mod W).
  Definition ru_modn (r : loc) (a p : arg) : M unit := x <- rd a ;; m <- rd p ;; stor r (x mod m).
  Definition ru_invmod (r : loc) (a p : arg) : M unit := x <- rd a ;; m <- rd p ;; stor r (invmod x m).
  Definition ru_lt (a b : arg) : M bool := x <- rd a ;; y <- rd b ;; ret (x <? y).
  Definition ru_ge (a b : arg) : M bool := x <- rd a ;; y <- rd b ;; ret (y <=? x).
  Definition ru_is0 (a : arg) : M bool := x <- rd a ;; ret (x =? 0).

  (* ================================================================ modular-ruint.inl *)
  Section ModularRuint.
    Variable same : bool.   (* true: Compute_t = Storage_t (SAME_RECINT), false: Compute_t twice as large *)
    Variable p : Z.         (* _p *)

    (* _mul : C tmp; lmul/mul(tmp,a,b); mod_n(r,tmp,p) *)
    Definition mr_mul (r a b : loc) : M unit :=
      (if same then ru_mul (T 0) (L a) (L b) else ru_lmul (T 0) (L a) (L b)) ;;
      ru_modn r (L (T 0)) (K p).

    (* sub (as repaired): const bool lt = (a < b); sub(r,a,b); if (lt) add(r,_p) *)
    Definition mr_sub (r a b : loc) : M unit :=
      c <- ru_lt (L a) (L b) ;;
      ru_sub r (L a) (L b) ;;
      when c (ru_add r (L r) (K p)).

    Definition mr_add (r a b : loc) : M unit :=
      ru_add r (L a) (L b) ;;
      c <- ru_ge (L r) (K p) ;; when c (ru_sub r (L r) (K p)).

    Definition mr_neg (r a : loc) : M unit :=
      z <- ru_is0 (L a) ;; if z then ru_reset r else ru_sub r (K p) (L a).

    Definition mr_inv (r a : loc) : M unit := ru_invmod r (L a) (K p).

    (* _mulin: diff: C tmp; lmul(tmp,r,a); mod_n(r,tmp,p)    same: mod_n(mul(r,a),p) *)
    Definition mr_mulin (r a : loc) : M unit :=
      if same then ru_mul r (L r) (L a) ;; ru_modn r (L r) (K p)
      else ru_lmul (T 0) (L r) (L a) ;; ru_modn r (L (T 0)) (K p).

    (* div (as repaired): Element ib; return mul(r, a, inv(ib,b)) *)
    Definition mr_div (r a b : loc) : M unit := mr_inv (T 1) b ;; mr_mul r a (T 1).

    (* divin: Element ia; return mulin(r, inv(ia,a)) *)
    Definition mr_divin (r a : loc) : M unit := mr_inv (T 1) a ;; mr_mulin r (T 1).

    Definition mr_addin (r a : loc) : M unit :=
      ru_add r (L r) (L a) ;;
      c <- ru_ge (L r) (K p) ;; when c (ru_sub r (L r) (K p)).

    (* subin: if (r < a) add(r, _p - a) else sub(r, a) *)
    Definition mr_subin (r a : loc) : M unit :=
      c <- ru_lt (L r) (L a) ;;
      if c then ru_sub (T 2) (K p) (L a) ;; ru_add r (L r) (L (T 2))
      else ru_sub r (L r) (L a).

    Definition mr_negin (r : loc) : M unit :=
      z <- ru_is0 (L r) ;; if z then ru_reset r else ru_sub r (K p) (L r).

    Definition mr_invin (r : loc) : M unit := mr_inv r r.

    (* _axpy (as repaired)
              diff: C tmp; E ab; lmul(tmp,a,b); mod_n(ab,tmp,p); add(r,ab,c); if (r >= p) sub(r,p)
              same: E tmp; copy(tmp,c); addmul(tmp,a,b); mod_n(r,tmp,p) *)
    Definition mr_axpy (r a b c : loc) : M unit :=
      if same then ru_copy (T 0) (L c) ;; ru_addmul (T 0) (L a) (L b) ;; ru_modn r (L (T 0)) (K p)
      else ru_lmul (T 0) (L a) (L b) ;; ru_modn (T 6) (L (T 0)) (K p) ;; ru_add r (L (T 6)) (L c) ;;
           g <- ru_ge (L r) (K p) ;; when g (ru_sub r (L r) (K p)).

    (* _axpyin diff: E tmp = r; return r = _axpy(r,a,b,tmp,p)     same: addmul(r,a,b); mod_n(r,p) *)
    Definition mr_axpyin (r a b : loc) : M unit :=
      if same then ru_addmul r (L a) (L b) ;; ru_modn r (L r) (K p)
      else ru_copy (T 3) (L r) ;; mr_axpy r a b (T 3).

    (* maxpy (as repaired): Element ab; _mul(ab,a,b); sub(r,c,ab) *)
    Definition mr_maxpy (r a b c : loc) : M unit := mr_mul (T 7) a b ;; mr_sub r c (T 7).

    (* axmy (as repaired): Element ab; _mul(ab,a,b); sub(r,ab,c) *)
    Definition mr_axmy (r a b c : loc) : M unit := mr_mul (T 7) a b ;; mr_sub r (T 7) c.

    (* _maxpyin diff: E tmp; _mul(tmp,a,b); if (r < tmp) { sub(tmp,p,tmp); add(r,tmp) } else sub(r,tmp)
                same (as repaired): E tmp; tmp = -r; addmul(tmp,a,b); mod_n(r,tmp,p); negin-like *)
    Definition mr_maxpyin (r a b : loc) : M unit :=
      if same then
        (z <- ru_is0 (L r) ;; if z then ru_reset (T 0) else ru_sub (T 0) (K p) (L r)) ;;
        ru_addmul (T 0) (L a) (L b) ;; ru_modn r (L (T 0)) (K p) ;; mr_negin r
      else
        mr_mul (T 4) a b ;;
        c <- ru_lt (L r) (L (T 4)) ;;
        if c then ru_sub (T 4) (K p) (L (T 4)) ;; ru_add r (L r) (L (T 4))
        else ru_sub r (L r) (L (T 4)).

    (* axmyin: Element rc(r); axmy(r,a,b,rc) *)
    Definition mr_axmyin (r a b : loc) : M unit := ru_copy (T 5) (L r) ;; mr_axmy r a b (T 5).
  End ModularRuint.

  (* ================================================================ montgomery-ruint.inl *)
  Section MontgomeryRuint.
    Variables p p1 r3 : Z.     (* _p, _p1 = -p^-1 mod W, _r3 = W^3 mod p *)

    (* mg_reduc(a, LargeElement b): b0 = b.Low*p1; (r,a|b0) = b0*p + b; if (r || a >= p) a -= p *)
    Definition redc (t : Z) : Z :=
      let m := ((t mod W) * p1) mod W in
      let s := (m * p + t) / W in
      let a := s mod W in
      if (W <=? s) || (p <=? a) then (a - p) mod W else a.
    Definition mg_reduc (r : loc) (t : arg) : M unit := x <- rd t ;; stor r (redc x).

    (* mul: LargeElement res; lmul(res,a,b); mg_reduc(r,res) *)
    Definition mg_mul (r : loc) (a b : arg) : M unit := ru_lmul (T 0) a b ;; mg_reduc r (L (T 0)).
    Definition mg_mulin (r : loc) (a : arg) : M unit := ru_lmul (T 0) (L r) a ;; mg_reduc r (L (T 0)).

    (* sub (as repaired): const bool lt = (a < b); sub(r,a,b); if (lt) add(r,_p) *)
    Definition mg_sub (r a b : loc) : M unit :=
      c <- ru_lt (L a) (L b) ;;
      ru_sub r (L a) (L b) ;;
      when c (ru_add r (L r) (K p)).

    Definition mg_add (r a b : loc) : M unit :=
      c <- ru_addc r (L a) (L b) ;; g <- ru_ge (L r) (K p) ;;
      when (c || g) (ru_sub r (L r) (K p)).

    Definition mg_neg (r a : loc) : M unit :=
      z <- ru_is0 (L a) ;; if z then ru_reset r else ru_sub r (K p) (L a).

    (* inv: inv_mod(r,a,_p); return mulin(r,_r3) *)
    Definition mg_inv (r a : loc) : M unit := ru_invmod r (L a) (K p) ;; mg_mulin r (K r3).
    (* div (as repaired): Element ib; return mul(r, a, inv(ib,b)) *)
    Definition mg_div (r a b : loc) : M unit := mg_inv (T 1) b ;; mg_mul r (L a) (L (T 1)).
    Definition mg_divin (r a : loc) : M unit := mg_inv (T 1) a ;; mg_mulin r (L (T 1)).

    Definition mg_addin (r a : loc) : M unit :=
      c <- ru_addc r (L r) (L a) ;; g <- ru_ge (L r) (K p) ;;
      when (c || g) (ru_sub r (L r) (K p)).

    Definition mg_subin (r a : loc) : M unit :=
      c <- ru_lt (L r) (L a) ;;
      if c then ru_sub (T 2) (K p) (L a) ;; ru_add r (L r) (L (T 2))
      else ru_sub r (L r) (L a).

    Definition mg_negin (r : loc) : M unit :=
      z <- ru_is0 (L r) ;; if z then ru_reset r else ru_sub r (K p) (L r).
    Definition mg_invin (r : loc) : M unit := mg_inv r r.

    (* axpy / maxpy / axmy (as repaired): Element ab; mul(ab,a,b); add(r,ab,c) / sub(r,c,ab) / sub(r,ab,c) *)
    Definition mg_axpy (r a b c : loc) : M unit := mg_mul (T 4) (L a) (L b) ;; mg_add r (T 4) c.
    Definition mg_axpyin (r a b : loc) : M unit := mg_mul (T 3) (L a) (L b) ;; mg_addin r (T 3).
    Definition mg_maxpy (r a b c : loc) : M unit := mg_mul (T 4) (L a) (L b) ;; mg_sub r c (T 4).
    Definition mg_maxpyin (r a b : loc) : M unit := mg_mul (T 3) (L a) (L b) ;; mg_subin r (T 3).
    Definition mg_axmy (r a b c : loc) : M unit := mg_mul (T 4) (L a) (L b) ;; mg_sub r (T 4) c.
    Definition mg_axmyin (r a b : loc) : M unit := mg_mul (T 3) (L a) (L b) ;; mg_sub r (T 3) r.
  End MontgomeryRuint.
End RecInt.

(* ================================================================== Integer primitives (one mpz call) *)
Definition I_set (r : loc) (a : arg) : M unit := x <- rd a ;; stor r x.
Definition I_add (r : loc) (a b : arg) : M unit := x <- rd a ;; y <- rd b ;; stor r (x + y).
Definition I_sub (r : loc) (a b : arg) : M unit := x <- rd a ;; y <- rd b ;; stor r (x - y).
Definition I_mul (r : loc) (a b : arg) : M unit := x <- rd a ;; y <- rd b ;; stor r (x * y).
Definition I_neg (r : loc) (a : arg) : M unit := x <- rd a ;; stor r (- x).
Definition I_mod (r : loc) (a m : arg) : M unit := x <- rd a ;; y <- rd m ;; stor r (x mod Z.abs y).   (* mpz_mod *)
Definition I_addmul (r : loc) (a b : arg) : M unit := v <- load r ;; x <- rd a ;; y <- rd b ;; stor r (v + x * y).
Definition I_submul (r : loc) (a b : arg) : M unit := v <- load r ;; x <- rd a ;; y <- rd b ;; stor r (v - x * y).
Definition I_invert (r : loc) (a m : arg) : M unit := x <- rd a ;; y <- rd m ;; stor r (invmod x (Z.abs y)).
Definition I_powm (r : loc) (a : arg) (e : Z) (m : arg) : M unit :=
  x <- rd a ;; y <- rd m ;; stor r ((x ^ e) mod Z.abs y).
Definition I_is0 (a : arg) : M bool := x <- rd a ;; ret (x =? 0).
Definition I_neg0 (a : arg) : M bool := x <- rd a ;; ret (x <? 0).
(* mpz_gcdext(g,s,t,a,b): reads a and b, then writes g, s, t (outputs pairwise distinct) *)
Definition I_gcdext (g s t : loc) (a b : arg) : M unit :=
  x <- rd a ;; y <- rd b ;;
  let '(gg, ss, tt') := gcdext x y in stor g gg ;; stor s ss ;; stor t tt'.
(* mpz_tdiv_qr(q,r,a,b) *)
Definition I_tdiv_qr (q r : loc) (a b : arg) : M unit :=
  x <- rd a ;; y <- rd b ;; stor q (Z.quot x y) ;; stor r (Z.rem x y).

(* ------------------------------------------------------------------ gmp++_int_mul.C *)
Definition Int_axpyin (res a x : loc) : M unit :=
  za <- I_is0 (L a) ;; zx <- I_is0 (L x) ;;
  if za || zx then skip else I_addmul res (L a) (L x).
Definition Int_maxpyin (res a x : loc) : M unit :=
  za <- I_is0 (L a) ;; zx <- I_is0 (L x) ;;
  if za || zx then skip else I_submul res (L a) (L x).
Definition Int_negin (res : loc) : M unit := I_neg res (L res).
Definition Int_axmyin (res a x : loc) : M unit := Int_maxpyin res a x ;; Int_negin res.

Definition Int_axpy (res a x b : loc) : M unit :=
  if loc_eqb res b then Int_axpyin res a x
  else za <- I_is0 (L a) ;; zx <- I_is0 (L x) ;;
       if za || zx then I_set res (L b)
       else I_mul res (L a) (L x) ;; I_add res (L res) (L b).
Definition Int_maxpy (res a x b : loc) : M unit :=
  za <- I_is0 (L a) ;; zx <- I_is0 (L x) ;;
  if za || zx then I_set res (L b)
  else if loc_eqb res b then Int_maxpyin res a x
  else I_mul res (L a) (L x) ;; I_sub res (L b) (L res).
Definition Int_axmy (res a x b : loc) : M unit :=
  if loc_eqb res b then Int_axmyin res a x
  else za <- I_is0 (L a) ;; zx <- I_is0 (L x) ;;
       if za || zx then I_neg res (L b)
       else I_mul res (L a) (L x) ;; I_sub res (L res) (L b).

(* ------------------------------------------------------------------ gmp++_int_gcd.C *)
(* Integer& gcd(g,u,v,a,b) (as repaired: no "v = 1" first):
   mpz_gcdext(g,u,v,a,b); if (g < 0) { negin(u); negin(v); negin(g) } *)
Definition Int_gcd5 (g u v a b : loc) : M unit :=
  I_gcdext g u v (L a) (L b) ;;
  n <- I_neg0 (L g) ;; when n (Int_negin u ;; Int_negin v ;; Int_negin g).
(* Integer gcd(u,v,a,b): same with a local Res (T 6), returned by value *)
Definition Int_gcd4 (u v a b : loc) : M Z :=
  stor (T 6) 1 ;;
  I_gcdext (T 6) u v (L a) (L b) ;;
  n <- I_neg0 (L (T 6)) ;; when n (Int_negin u ;; Int_negin v ;; Int_negin (T 6)) ;;
  load (T 6).

(* ------------------------------------------------------------------ gmp++_int_div.C *)
(* divmod(q,r,a,b) (as repaired): if (b > 0) mpz_fdiv_qr(q,r,a,b); else mpz_cdiv_qr(q,r,a,b) *)
Definition I_fdiv_qr (q r : loc) (a b : arg) : M unit :=
  x <- rd a ;; y <- rd b ;; stor q (x / y) ;; stor r (x mod y).
Definition I_cdiv_qr (q r : loc) (a b : arg) : M unit :=
  x <- rd a ;; y <- rd b ;; stor q (- ((- x) / y)) ;; stor r (x + ((- x) / y) * y).
Definition Int_divmod (q r a b : loc) : M unit :=
  vb <- load b ;;
  if 0 <? vb then I_fdiv_qr q r (L a) (L b) else I_cdiv_qr q r (L a) (L b).

(* divmod(q, int64_t& r, a, int64_t b) (as repaired: a < 0 is read before q is written):
   aneg = a < 0; r = mpz_tdiv_q_ui(q, a, |b|); if (aneg && r) { q -= 1; r = |b| - r }; if (b < 0) negin(q)
   divmod(q, uint64_t& r, a, uint64_t b): the same without the last step (sg = false) *)
Definition Int_divmod_w (sg : bool) (q a : loc) (b : Z) : M Z :=
  n <- I_neg0 (L a) ;;
  x <- load a ;;
  stor q (Z.quot x (Z.abs b)) ;;
  let r := Z.abs (Z.rem x (Z.abs b)) in
  (if n && negb (r =? 0) then I_sub q (L q) (K 1) else skip) ;;
  (if sg && (b <? 0) then I_neg q (L q) else skip) ;;
  ret (if n && negb (r =? 0) then Z.abs b - r else r).

(* ------------------------------------------------------------------ gmp++_int_pow.C *)
(* powmod(Res,n,int64 e,m): if (e < 0) { inv(ninv,n,m); powmod(Res,ninv,|e|,m) } else powmod(Res,n,e,m)
   (as repaired: the inverse goes to a local Integer ninv) *)
Definition Int_powmod (res n : loc) (e : Z) (m : loc) : M unit :=
  if e <? 0 then I_invert (T 7) (L n) (L m) ;; I_powm res (L (T 7)) (Z.abs e) (L m)
  else I_powm res (L n) e (L m).

(* ================================================================== modular-integer.inl *)
Section ModularInteger.
  Variable p : Z.
  Definition mi_mul (r a b : loc) : M unit := I_mul r (L a) (L b) ;; I_mod r (L r) (K p).
  Definition mi_sub (r a b : loc) : M unit :=
    I_sub r (L a) (L b) ;; n <- I_neg0 (L r) ;; when n (I_add r (L r) (K p)).
  Definition mi_add (r a b : loc) : M unit :=
    I_add r (L a) (L b) ;; v <- load r ;; when (p <=? v) (I_sub r (L r) (K p)).
  Definition mi_neg (r a : loc) : M unit :=
    z <- I_is0 (L a) ;; if z then I_set r (L a) else I_sub r (K p) (L a).
  Definition mi_negin (r : loc) : M unit :=
    z <- I_is0 (L r) ;; if z then skip else I_sub r (K p) (L r).
  Definition mi_inv (r a : loc) : M unit := I_invert r (L a) (K p).
  Definition mi_div (r a b : loc) : M unit := mi_inv (T 1) b ;; mi_mul r a (T 1).
  Definition mi_mulin (r a : loc) : M unit := I_mul r (L r) (L a) ;; I_mod r (L r) (K p).
  Definition mi_divin (r a : loc) : M unit := mi_inv (T 1) a ;; mi_mulin r (T 1).
  Definition mi_addin (r a : loc) : M unit :=
    I_add r (L r) (L a) ;; v <- load r ;; when (p <=? v) (I_sub r (L r) (K p)).
  Definition mi_subin (r a : loc) : M unit :=
    I_sub r (L r) (L a) ;; n <- I_neg0 (L r) ;; when n (I_add r (L r) (K p)).
  Definition mi_invin (r : loc) : M unit := I_set (T 2) (L r) ;; I_invert r (L (T 2)) (K p).
  Definition mi_axpy (r a b c : loc) : M unit := Int_axpy r a b c ;; I_mod r (L r) (K p).
  Definition mi_axpyin (r a b : loc) : M unit := Int_axpyin r a b ;; I_mod r (L r) (K p).
  Definition mi_axmy (r a b c : loc) : M unit := Int_axmy r a b c ;; I_mod r (L r) (K p).
  Definition mi_maxpy (r a b c : loc) : M unit :=
    I_set (T 3) (L c) ;; Int_maxpy r a b c ;; I_mod r (L r) (K p).
  Definition mi_maxpyin (r a b : loc) : M unit := Int_maxpyin r a b ;; I_mod r (L r) (K p).
  Definition mi_axmyin (r a b : loc) : M unit := mi_maxpyin r a b ;; mi_negin r.
End ModularInteger.

(* ================================================================== Rational / QField<Rational> *)
(* a Rational object q is the pair of Integer objects (num, den) = (U q~0, U q~1); a local Rational n
   is (T (2n+100), T (2n+101)) *)
Definition rat := (loc * loc)%type.
Definition Rat (q : positive) : rat := (U (xO q), U (xI q)).
Definition num (r : rat) := fst r.
Definition den (r : rat) := snd r.

Definition Q_neg (r a : rat) : M unit := I_neg (num r) (L (num a)) ;; I_set (den r) (L (den a)).
Definition Q_negin (r : rat) : M unit := I_neg (num r) (L (num r)).
Definition Q_invin (r : rat) : M unit :=
  n <- I_neg0 (L (num r)) ;;
  x <- load (num r) ;; y <- load (den r) ;; stor (num r) y ;; stor (den r) x ;;      (* std::swap *)
  when n (Int_negin (num r) ;; Int_negin (den r)).
(* inv(r,a): if (&r == &a) return invin(r);  (4bcc635) *)
Definition Q_inv (r a : rat) : M unit :=
  if loc_eqb (num r) (num a) then Q_invin r else
  n <- I_neg0 (L (num a)) ;;
  I_set (num r) (L (den a)) ;; I_set (den r) (L (num a)) ;;
  when n (Int_negin (num r) ;; Int_negin (den r)).
(* r = a op b through the by-value operators: the result is built in a temporary Rational, then assigned *)
Definition Q_byvalue2 (f : Z -> Z -> Z -> Z -> Z * Z) (r a b : rat) : M unit :=
  an <- load (num a) ;; ad <- load (den a) ;; bn <- load (num b) ;; bd <- load (den b) ;;
  stor (T 100) (fst (f an ad bn bd)) ;; stor (T 101) (snd (f an ad bn bd)) ;;
  I_set (num r) (L (T 100)) ;; I_set (den r) (L (T 101)).

(* Rational::operator+= / -= (givrataddsub.C), flags = Reduce.  sg = 1 for +=, -1 for -= *)
Definition Rat_pluseq_body (sg : Z) (t r : rat) : M unit :=
  rn <- load (num r) ;;
  if rn =? 0 then skip else                                   (* isZero(r) *)
  tn <- load (num t) ;;
  if tn =? 0 then                                              (* isZero( *this) *)
    (x <- load (num r) ;; stor (num t) (sg * x)) ;; I_set (den t) (L (den r))
  else
  td <- load (den t) ;; rd' <- load (den r) ;;
  if (td =? 1) && (rd' =? 1) then                              (* both integers: num += r.num *)
    x <- load (num r) ;; y <- load (num t) ;; stor (num t) (y + sg * x)
  else
  let d1 := Z.gcd td rd' in                                    (* Integer d1 = gcd(den, r.den) *)
  if d1 =? 1 then
    (* num *= r.den; num += r.num * den; den *= r.den *)
    I_mul (num t) (L (num t)) (L (den r)) ;;
    (x <- load (num r) ;; y <- load (den t) ;; v <- load (num t) ;; stor (num t) (v + sg * (x * y))) ;;
    I_mul (den t) (L (den t)) (L (den r))
  else
    (* num *= (r.den / d1); num += r.num * (den / d1); d2 = gcd(num,d1); num /= d2;
       den /= d1; den *= r.den; den /= d2 *)
    (x <- load (den r) ;; v <- load (num t) ;; stor (num t) (v * Z.quot x d1)) ;;
    (x <- load (num r) ;; y <- load (den t) ;; v <- load (num t) ;; stor (num t) (v + sg * (x * Z.quot y d1))) ;;
    v <- load (num t) ;;
    let d2 := Z.gcd v d1 in
    stor (num t) (Z.quot v d2) ;;
    (y <- load (den t) ;; stor (den t) (Z.quot y d1)) ;;
    I_mul (den t) (L (den t)) (L (den r)) ;;
    (y <- load (den t) ;; stor (den t) (Z.quot y d2)).

(* if (&r == this) return *this += Rational(r);   (36986de) *)
Definition Rat_pluseq (sg : Z) (t r : rat) : M unit :=
  if loc_eqb (num t) (num r) then
    I_set (T 102) (L (num r)) ;; I_set (T 103) (L (den r)) ;; Rat_pluseq_body sg t (T 102, T 103)
  else Rat_pluseq_body sg t r.

(* ================================================================== the bodies as found before the repairs
   (frag/C15.fix-*.diff); kept so that the defect each repair removes is a checked statement (ProofsOld.v) and
   so that the extracted model can be run against an unrepaired tree *)
Definition mr_sub_old (W p : Z) (r a b : loc) : M unit :=
  c <- ru_lt (L a) (L b) ;;
  if c then ru_sub W r (K p) (L b) ;; ru_add W r (L r) (L a)
  else ru_sub W r (L a) (L b).
Definition mr_div_old (W : Z) (same : bool) (p : Z) (r a b : loc) : M unit := mr_inv p r b ;; mr_mulin W same p r a.
Definition mr_axpy_old (W : Z) (same : bool) (p : Z) (r a b c : loc) : M unit :=
  if same then ru_copy r (L c) ;; ru_addmul W r (L a) (L b) ;; ru_modn r (L r) (K p)
  else ru_lmul (T 0) (L a) (L b) ;; ru_modn r (L (T 0)) (K p) ;; ru_add W r (L r) (L c) ;;
       g <- ru_ge (L r) (K p) ;; when g (ru_sub W r (L r) (K p)).
Definition mr_maxpy_old (W : Z) (same : bool) (p : Z) (r a b c : loc) : M unit :=
  mr_mul W same p r a b ;; mr_sub_old W p r c r.
Definition Int_gcd5_old (g u v a b : loc) : M unit :=
  stor v 1 ;;
  I_gcdext g u v (L a) (L b) ;;
  n <- I_neg0 (L g) ;; when n (Int_negin u ;; Int_negin v ;; Int_negin g).
Definition Int_divmod_old (q r a b : loc) : M unit :=
  I_tdiv_qr q r (L a) (L b) ;;
  n <- I_neg0 (L r) ;;
  when n (vb <- load b ;;
          if 0 <? vb then I_sub q (L q) (K 1) ;; I_add r (L r) (L b)
          else I_add q (L q) (K 1) ;; I_sub r (L r) (L b)).
Definition Int_divmod_w_old (sg : bool) (q a : loc) (b : Z) : M Z :=
  x <- load a ;;
  stor q (Z.quot x (Z.abs b)) ;;
  let r := Z.abs (Z.rem x (Z.abs b)) in
  n <- I_neg0 (L a) ;;
  (if n && negb (r =? 0) then I_sub q (L q) (K 1) else skip) ;;
  (if sg && (b <? 0) then I_neg q (L q) else skip) ;;
  ret (if n && negb (r =? 0) then Z.abs b - r else r).
Definition Int_powmod_old (res n : loc) (e : Z) (m : loc) : M unit :=
  if e <? 0 then I_invert res (L n) (L m) ;; I_powm res (L res) (Z.abs e) (L m)
  else I_powm res (L n) e (L m).

(* ================================================================== Z-level wrappers for extraction *)
(* positions of an operation are given as class indices (positive): equal index = same object *)
Definition mk4 (ir ia ib ic : positive) (vr va vb vc : Z) : store :=
  upd (upd (upd (upd (fun _ => 0) (U ic) vc) (U ib) vb) (U ia) va) (U ir) vr.
Definition dump4 (h : store) (ir ia ib ic : positive) : list Z := [h (U ir); h (U ia); h (U ib); h (U ic)].

(* fam 0 = Modular<ruint> diff, 1 = Modular<ruint> same, 2 = Montgomery<ruint>, 3 = Modular<Integer>, 4 = Integer *)
Definition op4 := loc -> loc -> loc -> loc -> M unit.
Definition lift3 (f : loc -> loc -> loc -> M unit) : op4 := fun r a b _ => f r a b.
Definition lift2 (f : loc -> loc -> M unit) : op4 := fun r a _ _ => f r a.
Definition lift1 (f : loc -> M unit) : op4 := fun r _ _ _ => f r.

Definition mr_op (W p : Z) (same : bool) (op : nat) : op4 :=
  match op with
  | 0 => lift3 (mr_add W p) | 1 => lift3 (mr_sub W p) | 2 => lift3 (mr_mul W same p) | 3 => lift3 (mr_div W same p)
  | 4 => lift2 (mr_neg W p) | 5 => lift2 (mr_inv p)
  | 6 => mr_axpy W same p | 7 => mr_axmy W same p | 8 => mr_maxpy W same p
  | 9 => lift3 (mr_axpyin W same p) | 10 => lift3 (mr_axmyin W same p) | 11 => lift3 (mr_maxpyin W same p)
  | 12 => lift2 (mr_addin W p) | 13 => lift2 (mr_subin W p) | 14 => lift2 (mr_mulin W same p) | 15 => lift2 (mr_divin W same p)
  | 16 => lift1 (mr_negin W p) | _ => lift1 (mr_invin p)
  end%nat.
Definition mg_op (W p p1 r3 : Z) (op : nat) : op4 :=
  match op with
  | 0 => lift3 (mg_add W p) | 1 => lift3 (mg_sub W p)
  | 2 => lift3 (fun r a b => mg_mul W p p1 r (L a) (L b)) | 3 => lift3 (mg_div W p p1 r3)
  | 4 => lift2 (mg_neg W p) | 5 => lift2 (mg_inv W p p1 r3)
  | 6 => mg_axpy W p p1 | 7 => mg_axmy W p p1 | 8 => mg_maxpy W p p1
  | 9 => lift3 (mg_axpyin W p p1) | 10 => lift3 (mg_axmyin W p p1) | 11 => lift3 (mg_maxpyin W p p1)
  | 12 => lift2 (mg_addin W p) | 13 => lift2 (mg_subin W p)
  | 14 => lift2 (fun r a => mg_mulin W p p1 r (L a)) | 15 => lift2 (mg_divin W p p1 r3)
  | 16 => lift1 (mg_negin W p) | _ => lift1 (mg_invin W p p1 r3)
  end%nat.
Definition mi_op (p : Z) (op : nat) : op4 :=
  match op with
  | 0 => lift3 (mi_add p) | 1 => lift3 (mi_sub p) | 2 => lift3 (mi_mul p) | 3 => lift3 (mi_div p)
  | 4 => lift2 (mi_neg p) | 5 => lift2 (mi_inv p)
  | 6 => mi_axpy p | 7 => mi_axmy p | 8 => mi_maxpy p
  | 9 => lift3 (mi_axpyin p) | 10 => lift3 (mi_axmyin p) | 11 => lift3 (mi_maxpyin p)
  | 12 => lift2 (mi_addin p) | 13 => lift2 (mi_subin p) | 14 => lift2 (mi_mulin p) | 15 => lift2 (mi_divin p)
  | 16 => lift1 (mi_negin p) | _ => lift1 (mi_invin p)
  end%nat.
Definition int_op (op : nat) : op4 :=
  match op with
  | 6 => Int_axpy | 7 => Int_axmy | 8 => Int_maxpy
  | 9 => lift3 Int_axpyin | 10 => lift3 Int_axmyin | _ => lift3 Int_maxpyin
  end%nat.

(* run a ring operation: result = final values of the four position objects *)
Definition run_ring (fam : nat) (W p p1 r3 : Z) (op : nat) (ir ia ib ic : positive) (vr va vb vc : Z) : list Z :=
  let f := match fam with
           | 0 => mr_op W p false op | 1 => mr_op W p true op | 2 => mg_op W p p1 r3 op
           | 3 => mi_op p op | _ => int_op op end%nat in
  dump4 (exec (f (U ir) (U ia) (U ib) (U ic)) (mk4 ir ia ib ic vr va vb vc)) ir ia ib ic.

(* gcd(g,u,v,a,b): five positions *)
Definition run_gcd5 (ig iu iv ia ib : positive) (vg vu vv va vb : Z) : list Z :=
  let h0 := upd (upd (upd (upd (upd (fun _ => 0) (U ib) vb) (U ia) va) (U iv) vv) (U iu) vu) (U ig) vg in
  let h := exec (Int_gcd5 (U ig) (U iu) (U iv) (U ia) (U ib)) h0 in
  [h (U ig); h (U iu); h (U iv); h (U ia); h (U ib)].
Definition run_gcd4 (iu iv ia ib : positive) (vu vv va vb : Z) : list Z :=
  let h0 := mk4 iu iv ia ib vu vv va vb in
  let '(g, h) := Int_gcd4 (U iu) (U iv) (U ia) (U ib) h0 in
  [g; h (U iu); h (U iv); h (U ia); h (U ib)].
Definition run_divmod (iq ir ia ib : positive) (vq vr va vb : Z) : list Z :=
  let h0 := mk4 iq ir ia ib vq vr va vb in
  dump4 (exec (Int_divmod (U iq) (U ir) (U ia) (U ib)) h0) iq ir ia ib.
Definition run_divmod_w (sg : bool) (iq ia : positive) (vq va b : Z) : list Z :=
  let h0 := upd (upd (fun _ => 0) (U ia) va) (U iq) vq in
  let '(r, h) := Int_divmod_w sg (U iq) (U ia) b h0 in [h (U iq); h (U ia); r].
Definition run_powmod (ir inn im : positive) (vr vn e vm : Z) : list Z :=
  let h0 := mk4 ir inn im im vr vn vm vm in
  let h := exec (Int_powmod (U ir) (U inn) e (U im)) h0 in [h (U ir); h (U inn); h (U im)].

(* Rational objects: positions are rational indices; values (num, den) *)
Definition mkq (i : positive) (n d : Z) (h : store) : store := upd (upd h (snd (Rat i)) d) (fst (Rat i)) n.
Definition dumpq (h : store) (i : positive) : list Z := [h (fst (Rat i)); h (snd (Rat i))].
(* op: 0 neg  1 inv  2 negin  3 invin  4 +=  5 -= *)
Definition run_q (op : nat) (ir ia : positive) (rn rd' an ad : Z) : list Z :=
  let h0 := mkq ir rn rd' (mkq ia an ad (fun _ => 0)) in
  let c := match op with
           | 0 => Q_neg (Rat ir) (Rat ia) | 1 => Q_inv (Rat ir) (Rat ia)
           | 2 => Q_negin (Rat ir) | 3 => Q_invin (Rat ir)
           | 4 => Rat_pluseq 1 (Rat ir) (Rat ia) | _ => Rat_pluseq (-1) (Rat ir) (Rat ia) end%nat in
  let h := exec c h0 in dumpq h ir ++ dumpq h ia.
