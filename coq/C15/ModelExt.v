(* C15 — Extension<BaseField> (src/kernel/field/extension.h) and the remaining three-address entry points of
   Poly1Dom<Domain,Dense> (givpoly1gcd.inl, givpoly1muldiv.inl, givpoly1addsub.inl, givpoly1misc.inl) over the
   polynomial store of ModelPoly.v.   Executable model, no proofs in this file.

   Extension: an element is a polynomial reduced modulo _irred.  _irred is a const member of the domain object: a
   VALUE (a Section variable below), never a location — no destination can be _irred.  Every body is modelled
   statement by statement on top of the Poly1Dom entry points of ModelPoly.v (which keep their own guards and
   temporaries).  maxpy / maxpyin / axmy / axmyin take their operands BY VALUE (`const PolElement a`): the call
   copies each argument into a fresh object before the body runs — modelled as V_copy into a local T n.  The
   same bodies with the operands taken by const reference (seeded change C15-m6) are kept as E_*_byref.

   Poly1Dom: guards are loc_eqb tests, locals are T n, the order of the assignments is preserved; the Euclid loop of
   gcd(F,S,T,A,B) / lcm / invmod is a Fixpoint on fuel whose body is the code's loop body; coefficient loops are
   atomic read-then-write steps when they are index based on a destination resized to its own size or read all
   their operands first (assign, add, sub, neg, div by a coefficient), and contracts with a hazard
   (junk) when they are not (pdivmod, pmod).  invmod(S0,A,B) is modelled statement by statement (P_invmod) with the
   S half of the same loop body as gcd(F,S0,T0,A,B); div(Q,A,B) is ModelPoly.P_div; modin(A,B) is one store write
   whose value is the in place algorithm run round by round on cell lists (pmodin_gen), B's cells being those of the
   current A at every round when B is the object A.
   _irred (Extension) is a VALUE: an operand that is either a caller object or a domain constant is a `parg`.
   Locals: T 0..T 9, T 70..T 72 belong to ModelPoly.v; T 20..T 34 Extension; T 40.. Poly1Dom here (T 73..T 75 invmod).
   Scalars (Type_t locals r0, r1, tt, m) are values of the monad, not objects. *)
From Coq Require Import ZArith List Bool.
From C15 Require Import Model ModelPoly.
Import ListNotations.
Local Open Scope Z_scope.

(* ------------------------------------------------------------------ value level *)
Section ExtValues.
  Variable p : Z.
  (* pdeg1 pz pc ple1 pge leadv pconst pdivsc set0: ModelPoly.v *)
  Definition pmodv (a b : poly) : poly := strip0 p (psubv p a (strip0 p (pmulv p (pdivv p a b) b))).
  Definition nz1 (c : Z) : Z := if c =? 0 then 1 else c.                (* if (isZero(r1)) r1 = one *)
  Definition pmulsc (a : poly) (c : Z) : poly := strip0 p (pscal p c a).              (* mulin(R, u) *)

  (* the state of the extended Euclid loop shared by gcd(F,S0,T0,A,B), lcm and invmod *)
  Record xst : Type := XS { xF : poly; xG : poly; xS0 : poly; xS1 : poly; xT0 : poly; xT1 : poly }.
  Definition xstepv (s : xst) : xst :=
    let Q := pdivv p (xF s) (xG s) in
    let r1 := nz1 (leadv p (pmodv (xF s) (xG s))) in
    XS (strip0 p (xG s)) (pdivsc p (pmodv (xF s) (xG s)) r1)
       (strip0 p (xS1 s)) (pdivsc p (strip0 p (psubv p (xS0 s) (strip0 p (pmulv p Q (xS1 s))))) r1)
       (strip0 p (xT1 s)) (pdivsc p (strip0 p (psubv p (xT0 s) (strip0 p (pmulv p Q (xT1 s))))) r1).
  Fixpoint xloopv (n : nat) (s : xst) : xst :=
    match n with
    | O => s
    | S n' => if pz p (xG s) then s else xloopv n' (xstepv s)
    end.
  Definition xfuel (a b : poly) : nat := S (S (pdeg1 p a + pdeg1 p b)).

  (* invmod(S0, A, B) on values: the code's algorithm, the S half of the loop above *)
  Record yst : Type := YS { yF : poly; yG : poly; yS0 : poly; yS1 : poly }.
  Definition ystepv (s : yst) : yst :=
    let Q := pdivv p (yF s) (yG s) in
    let r1 := nz1 (leadv p (pmodv (yF s) (yG s))) in
    YS (strip0 p (yG s)) (pdivsc p (pmodv (yF s) (yG s)) r1)
       (strip0 p (yS1 s)) (pdivsc p (strip0 p (psubv p (yS0 s) (strip0 p (pmulv p Q (yS1 s))))) r1).
  Fixpoint yloopv (n : nat) (s : yst) : yst :=
    match n with
    | O => s
    | S n' => if pz p (yG s) then s else yloopv n' (ystepv s)
    end.
  Definition pinvmodv (a b : poly) : poly :=
    if ple1 p a || ple1 p b then pconst p (invmod (leadv p a) p)
    else yS0 (yloopv (xfuel a b)
                (YS (pdivsc p (strip0 p a) (leadv p a)) (pdivsc p (strip0 p b) (leadv p b))
                    (pconst p (invmod (leadv p a) p)) [])).

  (* modin(A,B), givpoly1muldiv.inl:333-369, on big endian cell lists (reverse iterators): ra the cells of A, rb those of
     B.  One round of `for (; i>=0; --i)`: l = lc(A)/lc(B); the cells *ai - l * *bi are produced from the top; the
     first inner loop leaves the top cell in place while they are zero (one extra --i each), the second writes the
     others below it, the third moves the rest of A up and a zero closes the written part; the cells below keep their
     old content.  Within a round every cell is read before it is written (aai trails ai; bi is at the offset of ai).
     Result: the cells and the number j of extra decrements of i *)
  Fixpoint map2z (f : Z -> Z -> Z) (a b : list Z) : list Z :=
    match a, b with x :: a', y :: b' => f x y :: map2z f a' b' | _, _ => [] end.
  Fixpoint lead0 (l : list Z) : nat :=
    match l with c :: r => if c =? 0 then S (lead0 r) else O | [] => O end.
  Definition modin_round (ra rb : list Z) : list Z * nat :=
    let l := (hd 0 ra * invmod (hd 0 rb) p) mod p in
    let ts := map2z (fun x y => (x - l * y) mod p) (tl ra) (tl rb) in
    let j := lead0 ts in
    (skipn j ts ++ skipn (length (tl rb)) (tl ra) ++ [0] ++ skipn (length ra - j) ra, j).
  (* the rounds; self = B is the same object as A: its cells are those of the current A at every round *)
  Fixpoint modin_loop (fuel : nat) (self : bool) (rb ra : list Z) (i : Z) : list Z * Z :=
    match fuel with
    | O => (ra, i)
    | S f => if i <? 0 then (ra, i)
             else let '(ra', j) := modin_round ra (if self then rev (strip0 p (rev ra)) else rb) in
                  modin_loop f self rb ra' (i - Z.of_nat j - 1)
    end.
  (* i = A.size() - B.size(); if (i >= 0) { rounds; A.erase(A.begin(), A.begin() + (A.size() - B.size() - i)); }
     return setdegree(A)        (A and B normalised representations) *)
  Definition pmodin_gen (self : bool) (a b : poly) : poly :=
    let i := Z.of_nat (length (strip0 p a)) - Z.of_nat (length (strip0 p b)) in
    if i <? 0 then strip0 p a
    else let '(ra, i') := modin_loop (S (length (strip0 p a))) self (rev (strip0 p b)) (rev (strip0 p a)) i in
         strip0 p (rev (firstn (Z.to_nat (Z.of_nat (length (strip0 p b)) + i')) ra)).
  Definition pmodinv (a b : poly) : poly := pmodin_gen false a b.

  (* pseudo division: pdivmod(Q,R,m,A,B)  m A = Q B + R with m = lc(B)^(deg A - deg B + 1), all iterations run *)
  Definition ppdivmodv (a b : poly) : poly * poly * Z :=
    if pz p a then ([], [], 1)
    else if pc p b then (strip0 p a, [], leadv p b)
    else if pc p a then ([], strip0 p a, 1)
    else if negb (pge p a b) then ([], strip0 p a, 1)
    else let m := (leadv p b ^ Z.of_nat (S (pdeg1 p a - pdeg1 p b))) mod p in
         (pdivv p (pmulsc a m) b, pmodv (pmulsc a m) b, m).
  Definition ppdq (a b : poly) : poly := fst (fst (ppdivmodv a b)).
  Definition ppdr (a b : poly) : poly := snd (fst (ppdivmodv a b)).
  Definition ppdm (a b : poly) : Z := snd (ppdivmodv a b).
  (* pmod(R,m,A,B): one multiplication by lc(B) per iteration that is actually run *)
  Fixpoint ppmod_loop (n : nat) (r b : poly) (m : Z) : poly * Z :=
    match n with
    | O => (r, m)
    | S n' =>
      let r := strip0 p r in
      if negb (pge p r b) then (r, m)
      else let t := repeat 0 (pdeg1 p r - pdeg1 p b)%nat ++ [leadv p r] in       (* lc(R) X^(deg R - deg B) *)
           ppmod_loop n' (psubv p (pscal p (leadv p b) r) (pmulv p t (strip0 p b))) b ((m * leadv p b) mod p)
    end.
  Definition ppmodv (a b : poly) : poly * Z :=
    if pz p a then ([], 1)
    else if pc p b then ([], leadv p b)
    else if pc p a then (strip0 p a, 1)
    else if negb (pge p a b) then (strip0 p a, 1)
    else let '(r, m) := ppmod_loop (S (length a)) a b 1 in (strip0 p r, m).
  Definition ppmr (a b : poly) : poly := fst (ppmodv a b).
  Definition ppmm (a b : poly) : Z := snd (ppmodv a b).
End ExtValues.

(* ------------------------------------------------------------------ further steps *)
(* an operand that is a caller object or a constant of the domain object (Extension's _irred) *)
Inductive parg : Type := PL (l : loc) | PK (v : poly).
Definition prd (a : parg) : PM poly := match a with PL l => pload l | PK v => pret v end.

Section ExtSteps.
  Variable p : Z.
  (* PolElement cc(c): the copy constructor of the coefficient vector (exact copy) *)
  Definition V_copy (r a : loc) : PM unit := x <-- pload a ;;; pstor r x.
  Definition V_const (r : loc) (c : Z) : PM unit := pstor r (pconst p c).           (* assign(R, c) / assign(R, Degree(0), c) *)
  Definition V_assign_arg (r : loc) (a : parg) : PM unit := x <-- prd a ;;; pstor r (strip0 p x).   (* assign(R, A) *)
  Definition V_leadcoef (a : loc) : PM Z := x <-- pload a ;;; pret (leadv p x).
  Definition V_iszero (a : loc) : PM bool := x <-- pload a ;;; pret (pz p x).
  (* mulin(R,u): an index loop on R *)
  Definition V_mulsc_in (r : loc) (c : Z) : PM unit := x <-- pload r ;;; pstor r (pmulsc p x c).
  (* modin(A,B): the in place remainder, round by round (pmodin_gen); when B is the object A itself every round reads
     the cells that the previous one has written *)
  Definition V_modin (a : loc) (b : parg) : PM unit :=
    x <-- pload a ;;; y <-- prd b ;;;
    pstor a (pmodin_gen p (match b with PL l => loc_eqb a l | PK _ => false end) x y).

  (* ---------------------------------------------------------------- givpoly1gcd.inl: the extended Euclid loop
     the loop body shared by gcd(F,S0,T0,A,B), lcm and invmod:   R1 = T 45, Q = T 47, TMP = T 48, TMP2 = T 49
       divmod(Q,R1,F,G); leadcoef(r1,R1); if (isZero(r1)) r1 = one; assign(F,G); div(G,R1,r1);          X_head
       mul(TMP,Q,S1); sub(TMP2,S0,TMP); assign(S0,S1); div(S1,TMP2,r1);                                  X_half S
       mul(TMP,Q,T1); sub(TMP2,T0,TMP); assign(T0,T1); div(T1,TMP2,r1);                                  X_half T
     invmod has the head and the S half only *)
  Definition X_head (f g : loc) : PM Z :=
    P_divmod p (T 47) (T 45) f g ;;;
    c <-- V_leadcoef (T 45) ;;;
    V_assign p f g ;;;
    V_divsc p g (T 45) (nz1 c) ;;;
    pret (nz1 c).
  Definition X_half (s0 s1 : loc) (r1 : Z) : PM unit :=
    P_mul p (T 48) (T 47) s1 ;;; V_sub p (T 49) s0 (T 48) ;;; V_assign p s0 s1 ;;; V_divsc p s1 (T 49) r1.
  Definition X_step (f g s0 s1 t0 t1 : loc) : PM unit :=
    r1 <-- X_head f g ;;; X_half s0 s1 r1 ;;; X_half t0 t1 r1.
  (* while (! isZero(G)) { ... } *)
  Fixpoint X_loop (n : nat) (f g s0 s1 t0 t1 : loc) : PM unit :=
    match n with
    | O => pskip
    | S n' => z <-- V_iszero g ;;; if z then pskip else X_step f g s0 s1 t0 t1 ;;; X_loop n' f g s0 s1 t0 t1
    end.
  Definition I_step (f g s0 s1 : loc) : PM unit := r1 <-- X_head f g ;;; X_half s0 s1 r1.
  Fixpoint I_loop (n : nat) (f g s0 s1 : loc) : PM unit :=
    match n with
    | O => pskip
    | S n' => z <-- V_iszero g ;;; if z then pskip else I_step f g s0 s1 ;;; I_loop n' f g s0 s1
    end.

  (* invmod(S0,A,B), givpoly1gcd.inl:131-185.   F = T 73, G = T 74, S1 = T 75
       degree(degF,A); degree(degG,B);
       if (degF <= 0 || degG <= 0) return assign(S0, Degree(0), inv(tt, leadcoef(r0,A)));
       assign(F,A); assign(G,B); leadcoef(r0,F); leadcoef(r1,G); divin(F,r0); divin(G,r1);
       assign(S0, Degree(0), inv(tt,r0)); assign(S1, zero);          -- S0 is written AFTER A and B have been saved
       while (! isZero(G)) { head; S half }  return S0 *)
  Definition P_invmod (s0 a : loc) (b : parg) : PM unit :=
    x <-- pload a ;;; y <-- prd b ;;;
    if ple1 p x || ple1 p y then
      c <-- V_leadcoef a ;;; V_const s0 (invmod c p)
    else
      V_assign p (T 73) a ;;; V_assign_arg (T 74) b ;;;
      r0 <-- V_leadcoef (T 73) ;;; r1 <-- V_leadcoef (T 74) ;;;
      V_divsc p (T 73) (T 73) r0 ;;; V_divsc p (T 74) (T 74) r1 ;;;
      V_const s0 (invmod r0 p) ;;; V_zero (T 75) ;;;
      I_loop (xfuel p x y) (T 73) (T 74) s0 (T 75).
  (* a broken order, kept so that its failure is a checked statement: S0 initialised (from leadcoef(A)) before A and
     B are saved into F and G *)
  Definition P_invmod_s0_first (s0 a : loc) (b : parg) : PM unit :=
    x <-- pload a ;;; y <-- prd b ;;;
    if ple1 p x || ple1 p y then
      c <-- V_leadcoef a ;;; V_const s0 (invmod c p)
    else
      c <-- V_leadcoef a ;;; V_const s0 (invmod c p) ;;;
      V_assign p (T 73) a ;;; V_assign_arg (T 74) b ;;;
      r0 <-- V_leadcoef (T 73) ;;; r1 <-- V_leadcoef (T 74) ;;;
      V_divsc p (T 73) (T 73) r0 ;;; V_divsc p (T 74) (T 74) r1 ;;;
      V_zero (T 75) ;;;
      I_loop (xfuel p x y) (T 73) (T 74) s0 (T 75).
End ExtSteps.

(* ================================================================== Extension<BaseField> *)
Section Extension.
  Variable p : Z.
  Variable irred : poly.                 (* _irred *)
  Definition V_modin_k (r : loc) : PM unit := V_modin p r (PK irred).         (* _pD.modin(r, _irred) *)

  Definition E_add (r a b : loc) : PM unit := V_add p r a b.
  Definition E_sub (r a b : loc) : PM unit := V_sub p r a b.
  Definition E_neg (r a : loc) : PM unit := V_neg p r a.
  (* mul: return _pD.modin(_pD.mul(r,a,b), _irred) *)
  Definition E_mul (r a b : loc) : PM unit := P_mul p r a b ;;; V_modin_k r.
  (* inv: return _pD.invmod(r, a, _irred) *)
  Definition E_inv (r a : loc) : PM unit := P_invmod p r a (PK irred).
  (* div: PolElement ib; inv(ib, b); return mul(r, a, ib) *)
  Definition E_div (r a b : loc) : PM unit := E_inv (T 20) b ;;; E_mul r a (T 20).
  Definition E_addin (r b : loc) : PM unit := V_addin p r b.
  Definition E_subin (r b : loc) : PM unit := V_subin p r b.
  Definition E_negin (r : loc) : PM unit := V_negin p r.
  (* axpy: if (&r == &c) { PolElement cc(c); return addin(mul(r,a,b),cc); } return addin(mul(r,a,b),c) *)
  Definition E_axpy (r a b c : loc) : PM unit :=
    if loc_eqb r c then V_copy (T 21) c ;;; E_mul r a b ;;; E_addin r (T 21)
    else E_mul r a b ;;; E_addin r c.
  (* the bodies of the four operations whose operands are declared `const PolElement` *)
  Definition E_maxpy_body (r a b c : loc) : PM unit := P_maxpy p r a b c ;;; V_modin_k r.
  Definition E_maxpyin_body (r a b : loc) : PM unit := P_maxpyin p r a b ;;; V_modin_k r.
  Definition E_axmy_body (r a b c : loc) : PM unit := E_mul r a b ;;; E_subin r c.
  (* by value: the arguments are copied into the parameter objects before the body runs *)
  Definition E_maxpy (r a b c : loc) : PM unit :=
    V_copy (T 22) a ;;; V_copy (T 23) b ;;; V_copy (T 24) c ;;; E_maxpy_body r (T 22) (T 23) (T 24).
  Definition E_maxpyin (r a b : loc) : PM unit :=
    V_copy (T 25) a ;;; V_copy (T 26) b ;;; E_maxpyin_body r (T 25) (T 26).
  Definition E_axmy (r a b c : loc) : PM unit :=
    V_copy (T 30) a ;;; V_copy (T 31) b ;;; V_copy (T 32) c ;;; E_axmy_body r (T 30) (T 31) (T 32).
  (* axmyin: maxpyin(r,a,b); return negin(r)   (its own parameters by value, then maxpyin's) *)
  Definition E_axmyin (r a b : loc) : PM unit :=
    V_copy (T 33) a ;;; V_copy (T 34) b ;;; E_maxpyin r (T 33) (T 34) ;;; E_negin r.
  (* mulin: return _pD.modin(_pD.mulin(r,b), _irred) *)
  Definition E_mulin (r b : loc) : PM unit := P_mulin p r b ;;; V_modin_k r.
  (* invin: PolElement a(r); return _pD.invmod(r, a, _irred) *)
  Definition E_invin (r : loc) : PM unit := V_copy (T 27) r ;;; P_invmod p r (T 27) (PK irred).
  (* divin: PolElement tmp; inv(tmp,b); return _pD.modin(_pD.mulin(r,tmp), _irred) *)
  Definition E_divin (r b : loc) : PM unit := E_inv (T 28) b ;;; P_mulin p r (T 28) ;;; V_modin_k r.
  (* axpyin: PolElement tmp; _pD.mul(tmp,b,c); return _pD.modin(_pD.addin(r,tmp), _irred) *)
  Definition E_axpyin (r b c : loc) : PM unit := P_mul p (T 29) b c ;;; V_addin p r (T 29) ;;; V_modin_k r.

  (* seeded change C15-m6: `const PolElement&` parameters *)
  Definition E_maxpy_byref (r a b c : loc) : PM unit := E_maxpy_body r a b c.
  Definition E_maxpyin_byref (r a b : loc) : PM unit := E_maxpyin_body r a b.
  Definition E_axmy_byref (r a b c : loc) : PM unit := E_axmy_body r a b c.
  Definition E_axmyin_byref (r a b : loc) : PM unit := E_maxpyin_byref r a b ;;; E_negin r.

  (* 0 add 1 sub 2 mul 3 div 4 neg 5 inv 6 axpy 7 axmy 8 maxpy
     9 axpyin 10 axmyin 11 maxpyin 12 addin 13 subin 14 mulin 15 divin 16 negin 17.. invin *)
  Definition ext_op (op : nat) : pop4 :=
    match op with
    | 0 => fun r a b _ => E_add r a b | 1 => fun r a b _ => E_sub r a b | 2 => fun r a b _ => E_mul r a b
    | 3 => fun r a b _ => E_div r a b | 4 => fun r a _ _ => E_neg r a | 5 => fun r a _ _ => E_inv r a
    | 6 => E_axpy | 7 => E_axmy | 8 => E_maxpy
    | 9 => fun r a b _ => E_axpyin r a b | 10 => fun r a b _ => E_axmyin r a b | 11 => fun r a b _ => E_maxpyin r a b
    | 12 => fun r a _ _ => E_addin r a | 13 => fun r a _ _ => E_subin r a | 14 => fun r a _ _ => E_mulin r a
    | 15 => fun r a _ _ => E_divin r a | 16 => fun r _ _ _ => E_negin r | _ => fun r _ _ _ => E_invin r
    end%nat.
  Definition ext_op_byref (op : nat) : pop4 :=
    match op with
    | 7 => E_axmy_byref | 8 => E_maxpy_byref
    | 10 => fun r a b _ => E_axmyin_byref r a b | 11 => fun r a b _ => E_maxpyin_byref r a b
    | n => ext_op n
    end%nat.
End Extension.

(* ================================================================== Poly1Dom: givpoly1muldiv.inl *)
Section PolyB.
  Variable p : Z.
  (* divmodin(Q,R,B): if (&Q == &B) { Rep Bt; assign(Bt,B); return divmodin(Q,R,Bt); }  div(Q,R,B); return maxpyin(R,Q,B) *)
  Definition DMI_body (q r b : loc) : PM unit := P_div p q r b ;;; P_maxpyin p r q b.
  Definition P_divmodin (q r b : loc) : PM unit :=
    if loc_eqb q b then V_assign p (T 40) b ;;; DMI_body q r (T 40) else DMI_body q r b.
  Definition P_divmodin_unguarded (q r b : loc) : PM unit := DMI_body q r b.

  (* divin(Q,A): Rep B; div(B,Q,A); return assign(Q,B) *)
  Definition P_divin (q a : loc) : PM unit := P_div p (T 60) q a ;;; V_assign p q (T 60).
  (* modin(A,B) *)
  Definition P_modin (a b : loc) : PM unit := V_modin p a (PL b).
  (* invmod(R,A,B) *)
  Definition P_invmod_l (r a b : loc) : PM unit := P_invmod p r a (PL b).
  (* div(R,P,u) *)
  Definition P_divsc (r a : loc) (u : Z) : PM unit := V_divsc p r a u.

  (* pdivmod(Q,R,m,A,B): if (an output is A or B) { Rep Qt, Rt; pdivmod(Qt,Rt,m,A,B); assign(R,Rt); return assign(Q,Qt); }
     the body: early returns, then Q.resize; assign(R,A); a coefficient loop that reads B and writes Q and R *)
  Definition V_pdivmod_body (q r a b : loc) : PM Z :=
    x <-- pload a ;;; y <-- pload b ;;;
    let bad := loc_eqb q a || loc_eqb q b || loc_eqb r a || loc_eqb r b in
    pstor r (if bad then junk p x y else ppdr p x y) ;;;
    pstor q (if bad then junk p y x else ppdq p x y) ;;;
    pret (ppdm p x y).
  Definition P_pdivmod (q r a b : loc) : PM Z :=
    if loc_eqb q a || loc_eqb q b || loc_eqb r a || loc_eqb r b then
      m <-- V_pdivmod_body (T 64) (T 65) a b ;;; V_assign p r (T 65) ;;; V_assign p q (T 64) ;;; pret m
    else V_pdivmod_body q r a b.
  (* pmod(R,m,A,B): if (&R == &B) { Rep Rt; pmod(Rt,m,A,B); return assign(R,Rt); }
     the body: assign(R,A) (a no-op on the same object) then an in-place loop on R that reads B *)
  Definition V_pmod_body (r a b : loc) : PM Z :=
    x <-- pload a ;;; y <-- pload b ;;;
    pstor r (if loc_eqb r b then junk p x y else ppmr p x y) ;;; pret (ppmm p x y).
  Definition P_pmod (r a b : loc) : PM Z :=
    if loc_eqb r b then m <-- V_pmod_body (T 66) a b ;;; V_assign p r (T 66) ;;; pret m
    else V_pmod_body r a b.
  Definition P_pmod_unguarded (r a b : loc) : PM Z := V_pmod_body r a b.

  (* ---------------------------------------------------------------- givpoly1addsub.inl, scalar forms *)
  (* add(R,P,val): if (isZero(P)) { R.resize(1); R[0] = val } else { assign(R,P); add(R[0],P[0],val) } setdegree(R)
     — P[0] is read AFTER R has been assigned *)
  Definition P_add_sc (r a : loc) (v : Z) : PM unit :=
    x <-- pload a ;;;
    if pz p x then V_const p r v
    else V_assign p r a ;;;
         x' <-- pload a ;;; y <-- pload r ;;; pstor r (strip0 p (set0 y ((hd 0 x' + v) mod p))).
  (* sub(R,P,val) *)
  Definition P_sub_sc (r a : loc) (v : Z) : PM unit :=
    x <-- pload a ;;;
    if pz p x then V_const p r (- v)
    else V_assign p r a ;;;
         x' <-- pload a ;;; y <-- pload r ;;; pstor r (strip0 p (set0 y ((hd 0 x' - v) mod p))).
  (* sub(R,val,P): if (P.size() == 0) { R.resize(1); R[0] = val } else { neg(R,P); addin(R[0],val) } setdegree(R)
     (R[0] is -P[0]; R may be the same object as P) *)
  Definition P_sc_sub (r a : loc) (v : Z) : PM unit :=
    x <-- pload a ;;;
    if pz p x then V_const p r v
    else V_neg p r a ;;; y <-- pload r ;;; pstor r (strip0 p (set0 y ((hd 0 y + v) mod p))).

  (* ---------------------------------------------------------------- givpoly1gcd.inl *)
  (* gcd(F,S0,T0,A,B) after its guard: G = T 43, S1 = T 44, T1 = T 46 *)
  Definition X_gcd_body (f s t a b : loc) : PM unit :=
    x <-- pload a ;;; y <-- pload b ;;;                     (* degree(degF,A); degree(degG,B) *)
    if pz p x || pc p y then
      c <-- V_leadcoef p b ;;;
      V_const p t (invmod c p) ;;; V_zero s ;;; V_assign p f b ;;; V_mulsc_in p f (invmod c p)
    else if pz p y || pc p x then
      c <-- V_leadcoef p a ;;;
      V_const p s (invmod c p) ;;; V_zero t ;;; V_assign p f a ;;; V_mulsc_in p f (invmod c p)
    else
      V_assign p f a ;;; V_assign p (T 43) b ;;;
      r0 <-- V_leadcoef p f ;;; r1 <-- V_leadcoef p (T 43) ;;;
      V_divsc p f f r0 ;;; V_divsc p (T 43) (T 43) r1 ;;;
      V_const p s (invmod r0 p) ;;; V_zero (T 44) ;;; V_zero t ;;; V_const p (T 46) (invmod r1 p) ;;;
      X_loop p (xfuel p x y) f (T 43) s (T 44) t (T 46).
  (* if (an output is A or B) { Rep At, Bt; assign(At,A); assign(Bt,B); return gcd(F,S0,T0,At,Bt); } *)
  Definition P_gcdx (f s t a b : loc) : PM unit :=
    if loc_eqb f a || loc_eqb f b || loc_eqb s a || loc_eqb s b || loc_eqb t a || loc_eqb t b then
      V_assign p (T 41) a ;;; V_assign p (T 42) b ;;; X_gcd_body f s t (T 41) (T 42)
    else X_gcd_body f s t a b.
  Definition P_gcdx_unguarded (f s t a b : loc) : PM unit := X_gcd_body f s t a b.

  (* lcm(F,A,B) after its guard: G = T 43, S0 = T 52, T0 = T 53, S1 = T 44, T1 = T 46 *)
  Definition L_body (f a b : loc) : PM unit :=
    x <-- pload a ;;; y <-- pload b ;;;
    if pz p x then V_zero f
    else if pz p y then V_zero f
    else if pc p y then V_assign p f a
    else if pc p x then V_assign p f b
    else
      (if pge p x y then V_assign p f a ;;; V_assign p (T 43) b
       else V_assign p f b ;;; V_assign p (T 43) a) ;;;
      r0 <-- V_leadcoef p f ;;; r1 <-- V_leadcoef p (T 43) ;;;
      V_divsc p f f r0 ;;; V_divsc p (T 43) (T 43) r1 ;;;
      V_const p (T 52) (invmod r0 p) ;;; V_zero (T 44) ;;; V_zero (T 53) ;;; V_const p (T 46) (invmod r1 p) ;;;
      X_loop p (xfuel p x y) f (T 43) (T 52) (T 44) (T 53) (T 46) ;;;
      g <-- pload (T 43) ;;;
      if ple1 p g then (if pge p x y then P_mul p f (T 44) a else P_mul p f (T 46) a)
      else P_mul p f a b.
  (* if (&F == &A || &F == &B) { Rep T; lcm(T,A,B); return assign(F,T); } *)
  Definition P_lcm (f a b : loc) : PM unit :=
    if loc_eqb f a || loc_eqb f b then L_body (T 50) a b ;;; V_assign p f (T 50) else L_body f a b.
  Definition P_lcm_unguarded (f a b : loc) : PM unit := L_body f a b.

  (* ---------------------------------------------------------------- givpoly1misc.inl: powmod(W,P,pwr,U)
     if (&W == &U) { Rep Ut; assign(Ut,U); return powmod(W,P,pwr,Ut); }
     mod(puiss,P,U); mod(W,one,U); while (n > 0) { if (n & 1) { mulin(W,puiss); modin(W,U); }
                                                   sqr(tmp,puiss); mod(puiss,tmp,U); n >>= 1; }  return setDegree(W)
     (givpoly1misc.inl:255-284; P^0 mod U is zero when U is a non zero constant)
     puiss = T 61, tmp = T 62; `one` is a member of the domain object, no caller object: T 67, set before the body *)
  Definition PW_odd (w u : loc) : PM unit := P_mulin p w (T 61) ;;; V_modin p w (PL u).
  Definition PW_sq (u : loc) : PM unit := P_sqr p (T 62) (T 61) ;;; P_mod p (T 61) (T 62) u.
  Fixpoint PW_loop (e : positive) (w u : loc) : PM unit :=
    match e with
    | xH => PW_odd w u ;;; PW_sq u
    | xO e' => PW_sq u ;;; PW_loop e' w u
    | xI e' => PW_odd w u ;;; PW_sq u ;;; PW_loop e' w u
    end.
  Definition PW_body (w a : loc) (e : Z) (u : loc) : PM unit :=
    P_mod p (T 61) a u ;;; V_const p (T 67) 1 ;;; P_mod p w (T 67) u ;;;
    match e with Z0 => pskip | Zpos e' => PW_loop e' w u | Zneg e' => PW_loop e' w u end ;;;
    V_assign p w w.
  Definition P_powmod (w a : loc) (e : Z) (u : loc) : PM unit :=
    if loc_eqb w u then V_assign p (T 63) u ;;; PW_body w a e (T 63) else PW_body w a e u.
End PolyB.

(* ------------------------------------------------------------------ Z-level wrappers for extraction *)
(* result = final values of the four position objects r a b c (as run_poly) *)
Definition run_ext (p : Z) (irred : poly) (op : nat) (ir ia ib ic : positive) (vr va vb vc : poly) : list poly :=
  let h := pexec (ext_op p irred op (U ir) (U ia) (U ib) (U ic)) (pmk4 ir ia ib ic vr va vb vc) in
  [h (U ir); h (U ia); h (U ib); h (U ic)].
Definition run_ext_byref (p : Z) (irred : poly) (op : nat) (ir ia ib ic : positive) (vr va vb vc : poly) : list poly :=
  let h := pexec (ext_op_byref p irred op (U ir) (U ia) (U ib) (U ic)) (pmk4 ir ia ib ic vr va vb vc) in
  [h (U ir); h (U ia); h (U ib); h (U ic)].

(* single destination entry points; k = the coefficient / exponent argument when there is one
   0 lcm(r,a,b)  1 divin(r,a)  2 modin(r,a)  3 powmod(r,a,k,b)  4 add(r,a,k)  5 sub(r,a,k)  6 sub(r,k,a)  8 invmod(r,a,b)
   7, 9.. div(r,a,k) *)
Definition polyB_op (p : Z) (k : Z) (op : nat) : pop4 :=
  match op with
  | 0 => fun r a b _ => P_lcm p r a b | 1 => fun r a _ _ => P_divin p r a | 2 => fun r a _ _ => P_modin p r a
  | 3 => fun r a b _ => P_powmod p r a k b
  | 4 => fun r a _ _ => P_add_sc p r a k | 5 => fun r a _ _ => P_sub_sc p r a k | 6 => fun r a _ _ => P_sc_sub p r a k
  | 8 => fun r a b _ => P_invmod_l p r a b
  | _ => fun r a _ _ => P_divsc p r a k
  end%nat.
Definition run_polyB (p : Z) (k : Z) (op : nat) (ir ia ib ic : positive) (vr va vb vc : poly) : list poly :=
  let h := pexec (polyB_op p k op (U ir) (U ia) (U ib) (U ic)) (pmk4 ir ia ib ic vr va vb vc) in
  [h (U ir); h (U ia); h (U ib); h (U ic)].
(* divmodin(Q,R,B): final values of q r b *)
Definition run_pdivmodin (p : Z) (iq ir ib : positive) (vq vr vb : poly) : list poly :=
  let h := pexec (P_divmodin p (U iq) (U ir) (U ib)) (pmk4 iq ir ib ib vq vr vb vb) in
  [h (U iq); h (U ir); h (U ib)].
(* gcd(F,S,T,A,B): final values of f s t a b *)
Definition pmk5 (i1 i2 i3 i4 i5 : positive) (v1 v2 v3 v4 v5 : poly) : pstore :=
  pupd (pmk4 i2 i3 i4 i5 v2 v3 v4 v5) (U i1) v1.
Definition run_pgcdx (p : Z) (jf js jt ja jb : positive) (vf vs vt va vb : poly) : list poly :=
  let h := pexec (P_gcdx p (U jf) (U js) (U jt) (U ja) (U jb)) (pmk5 jf js jt ja jb vf vs vt va vb) in
  [h (U jf); h (U js); h (U jt); h (U ja); h (U jb)].
(* pdivmod(Q,R,m,A,B): final values of q r a b, then the constant polynomial m;  pmod(R,m,A,B): r a b then m *)
Definition run_ppdivmod (p : Z) (iq ir ia ib : positive) (vq vr va vb : poly) : list poly :=
  let '(m, h) := P_pdivmod p (U iq) (U ir) (U ia) (U ib) (pmk4 iq ir ia ib vq vr va vb) in
  [h (U iq); h (U ir); h (U ia); h (U ib); [m]].
Definition run_ppmod (p : Z) (ir ia ib : positive) (vr va vb : poly) : list poly :=
  let '(m, h) := P_pmod p (U ir) (U ia) (U ib) (pmk4 ir ia ib ib vr va vb vb) in
  [h (U ir); h (U ia); h (U ib); [m]].
