(* C15 — polynomial three-address forms of Poly1Dom<Domain,Dense> over a store  loc -> list Z .
   Executable model, no proofs in this file.

   What is modelled statement by statement is the ENTRY-POINT logic of givpoly1muldiv.inl / givpoly1axpy.inl /
   givpoly1gcd.inl / givpoly1misc.inl: the `&R == &P` guards with their temporaries, the locals, the order of the
   assignments (e.g. gcd(G,P,Q): assign(U,..) before assign(G,..)), the remainder loop of gcd.
   The coefficient loops below the entry points are CONTRACTS with an explicit hazard:
     V_mul R P Q   writes  pmulv (P) (Q)  into R when R is neither P nor Q, and  junk  otherwise
                   (the loop resizes and overwrites R while it still reads P and Q through iterators);
     V_sqr, V_reverse_copy likewise.  add/sub/neg/assign/div are index based / read everything before the
                   destination is resized: atomic read-then-write steps.
   The contracts on distinct objects are checked on every run by the alias harness (python polynomial
   specification of the call on distinct objects); the theorems (ProofsPoly.v) show that no entry point reaches a
   hazard, for every alias pattern, so removing a guard or swapping two assignments falsifies a theorem.
   Coefficients live in Z/p, p the prime modulus of the coefficient ring. *)
From Coq Require Import ZArith List Bool.
From C15 Require Import Model.
Import ListNotations.
Local Open Scope Z_scope.

Definition poly := list Z.
Definition pstore := loc -> poly.
Definition pupd (h : pstore) (l : loc) (v : poly) : pstore := fun x => if loc_eqb x l then v else h x.
Definition PM (A : Type) := pstore -> A * pstore.
Definition pret {A} (a : A) : PM A := fun h => (a, h).
Definition pbind {A B} (c : PM A) (f : A -> PM B) : PM B := fun h => let (a, h1) := c h in f a h1.
Definition pload (l : loc) : PM poly := fun h => (h l, h).
Definition pstor (l : loc) (v : poly) : PM unit := fun h => (tt, pupd h l v).
Definition pexec {A} (c : PM A) (h : pstore) : pstore := snd (c h).
Definition pskip : PM unit := pret tt.
Notation "x <-- c1 ;;; c2" := (pbind c1 (fun x => c2)) (at level 61, c1 at next level, right associativity).
Notation "c1 ;;; c2" := (pbind c1 (fun _ => c2)) (at level 61, right associativity).

(* ------------------------------------------------------------------ value level (Z/p[X], dense, little endian) *)
Section Values.
  Variable p : Z.
  Fixpoint strip0 (l : poly) : poly :=             (* drop leading (= trailing in the list) zero coefficients *)
    match l with
    | [] => []
    | c :: r => match strip0 r with [] => if c mod p =? 0 then [] else [c mod p] | r' => (c mod p) :: r' end
    end.
  Fixpoint paddv (a b : poly) : poly :=
    match a, b with
    | [], _ => b | _, [] => a
    | x :: a', y :: b' => ((x + y) mod p) :: paddv a' b'
    end.
  Definition pnegv (a : poly) : poly := map (fun x => (- x) mod p) a.
  Definition pscal (c : Z) (a : poly) : poly := map (fun x => (c * x) mod p) a.
  Fixpoint pmulv (a b : poly) : poly :=
    match a with
    | [] => []
    | x :: a' => paddv (pscal x b) (0 :: pmulv a' b)
    end.
  Definition psubv (a b : poly) : poly := paddv a (pnegv b).
  Definition lead (a : poly) : Z := last a 0.
  (* quotient of the Euclidean division, by fuel on the degree difference; b in normal form and non zero *)
  Fixpoint pdiv_fuel (n : nat) (a b : poly) : poly :=
    match n with
    | O => []
    | S n' =>
      let a := strip0 a in
      if (length a <? length b)%nat then []
      else let d := (length a - length b)%nat in
           let c := (lead a * invmod (lead b) p) mod p in
           let t := repeat 0 d ++ [c] in
           paddv t (pdiv_fuel n' (psubv a (pmulv t b)) b)
    end.
  Definition pdivv (a b : poly) : poly :=
    let b := strip0 b in strip0 (pdiv_fuel (S (length a)) a b).
  (* what a hazardous call leaves in its destination: anything but the right value; a concrete choice so that
     the model runs *)
  Definition junk (a b : poly) : poly := 1 :: 1 :: paddv a b.
End Values.

(* ------------------------------------------------------------------ steps *)
Section Steps.
  Variable p : Z.
  Definition V_assign (r a : loc) : PM unit := x <-- pload a ;;; pstor r (strip0 p x).
  Definition V_add (r a b : loc) : PM unit := x <-- pload a ;;; y <-- pload b ;;; pstor r (strip0 p (paddv p x y)).
  Definition V_sub (r a b : loc) : PM unit := x <-- pload a ;;; y <-- pload b ;;; pstor r (strip0 p (psubv p x y)).
  Definition V_neg (r a : loc) : PM unit := x <-- pload a ;;; pstor r (strip0 p (pnegv p x)).
  Definition V_addin (r a : loc) : PM unit := V_add r r a.
  Definition V_subin (r a : loc) : PM unit := V_sub r r a.
  Definition V_negin (r : loc) : PM unit := V_neg r r.
  Definition V_div (q a b : loc) : PM unit := x <-- pload a ;;; y <-- pload b ;;; pstor q (pdivv p x y).
  Definition V_reversein (r : loc) : PM unit := x <-- pload r ;;; pstor r (strip0 p (rev x)).
  (* contracts with a hazard *)
  Definition V_mul_body (r a b : loc) : PM unit :=
    x <-- pload a ;;; y <-- pload b ;;;
    pstor r (if loc_eqb r a || loc_eqb r b then junk p x y else strip0 p (pmulv p x y)).
  Definition V_sqr_body (r a : loc) : PM unit :=
    x <-- pload a ;;; pstor r (if loc_eqb r a then junk p x x else strip0 p (pmulv p x x)).
  Definition V_reverse_copy (r a : loc) : PM unit :=
    x <-- pload a ;;; pstor r (if loc_eqb r a then junk p x x else strip0 p (rev x)).

  (* ---------------------------------------------------------------- entry points (as in /repo's current tree) *)
  (* mul(R,P,Q): if (&R == &P || &R == &Q) { Rep T; mul(T,P,Q); return assign(R,T); } ... *)
  Definition P_mul (r a b : loc) : PM unit :=
    if loc_eqb r a || loc_eqb r b then V_mul_body (T 0) a b ;;; V_assign r (T 0)
    else V_mul_body r a b.
  Definition P_sqr (r a : loc) : PM unit :=
    if loc_eqb r a then V_sqr_body (T 0) a ;;; V_assign r (T 0) else V_sqr_body r a.
  (* reverse(P,Q): if (&P == &Q) return reversein(P); P.resize(Q.size()); reverse_copy(...) *)
  Definition P_reverse (r a : loc) : PM unit :=
    if loc_eqb r a then V_reversein r else V_reverse_copy r a.
  (* mulin(R,P): Rep tmp; mul(tmp,R,P); assign(R,tmp) *)
  Definition P_mulin (r a : loc) : PM unit := P_mul (T 1) r a ;;; V_assign r (T 1).
  (* axpy(r,a,x,y): if (&r == &y) { Rep T; axpy(T,a,x,y); return assign(r,T); } return addin(mul(r,a,x), y) *)
  Definition P_axpy (r a x y : loc) : PM unit :=
    if loc_eqb r y then (P_mul (T 2) a x ;;; V_addin (T 2) y) ;;; V_assign r (T 2)
    else P_mul r a x ;;; V_addin r y.
  (* axmy(r,a,x,y): if (&r == &y) { Rep T; axmy(T,a,x,y); return assign(r,T); } return subin(mul(r,a,x), y) *)
  Definition P_axmy (r a x y : loc) : PM unit :=
    if loc_eqb r y then (P_mul (T 2) a x ;;; V_subin (T 2) y) ;;; V_assign r (T 2)
    else P_mul r a x ;;; V_subin r y.
  (* maxpy(r,a,b,c): Rep tmp; return sub(r, c, mul(tmp,a,b)) *)
  Definition P_maxpy (r a b c : loc) : PM unit := P_mul (T 3) a b ;;; V_sub r c (T 3).
  (* axpyin(r,a,x): Rep tmp; assign(tmp,r); return axpy(r,a,x,tmp) *)
  Definition P_axpyin (r a x : loc) : PM unit := V_assign (T 4) r ;;; P_axpy r a x (T 4).
  (* maxpyin(r,a,b): Rep tmp; return subin(r, mul(tmp,a,b)) *)
  Definition P_maxpyin (r a b : loc) : PM unit := P_mul (T 3) a b ;;; V_subin r (T 3).
  (* axmyin(r,a,x): maxpyin(r,a,x); return negin(r) *)
  Definition P_axmyin (r a x : loc) : PM unit := P_maxpyin r a x ;;; V_negin r.
  (* divmod(Q,R,A,B): if (an output is A or B) { Rep Qt, Rt; divmod(Qt,Rt,A,B); assign(Q,Qt); return assign(R,Rt); }
                       div(Q,A,B); return maxpy(R,Q,B,A) *)
  Definition P_divmod (q r a b : loc) : PM unit :=
    if loc_eqb q a || loc_eqb q b || loc_eqb r a || loc_eqb r b then
      (V_div (T 5) a b ;;; P_maxpy (T 6) (T 5) b a) ;;; V_assign q (T 5) ;;; V_assign r (T 6)
    else V_div q a b ;;; P_maxpy r q b a.
  (* mod(R,A,B): Rep Q; divmod(Q,R,A,B); return R *)
  Definition P_mod (r a b : loc) : PM unit := P_divmod (T 7) r a b.

  (* gcd(G,P,Q): degrees; early returns; (U,G) <- (larger, smaller) — the local U is assigned FIRST —;
     do { mod(R,U,G); if (R == 0) break; assign(U,G); assign(G,R); } while (1); if (deg G <= 0) assign(G, one) *)
  Fixpoint gcd_loop (n : nat) (g : loc) : PM unit :=
    match n with
    | O => pskip
    | S n' =>
      P_mod (T 9) (T 8) g ;;;
      rr <-- pload (T 9) ;;;
      match rr with
      | [] => pskip
      | _ => V_assign (T 8) g ;;; V_assign g (T 9) ;;; gcd_loop n' g
      end
    end.
  Definition P_gcd (g a b : loc) : PM unit :=
    x <-- pload a ;;; y <-- pload b ;;;
    let dx := length (strip0 p x) in let dy := length (strip0 p y) in      (* degree + 1; 0 for the zero polynomial *)
    if (dx =? 0)%nat || (dy =? 1)%nat then V_assign g b
    else if (dy =? 0)%nat || (dx =? 1)%nat then V_assign g a
    else
      (if (dy <=? dx)%nat then V_assign (T 8) a ;;; V_assign g b
       else V_assign (T 8) b ;;; V_assign g a) ;;;
      gcd_loop (S (dx + dy)) g ;;;
      gg <-- pload g ;;;
      if (length gg <=? 1)%nat then pstor g [1] else pskip.
  (* the two seeded / historical variants, kept so that their failure is a checked statement (ProofsPoly.v):
     mul without its guard, and gcd with the two assignments of the "deg P < deg Q" branch swapped *)
  Definition P_mul_unguarded (r a b : loc) : PM unit := V_mul_body r a b.
  Definition P_gcd_swapped (g a b : loc) : PM unit :=
    x <-- pload a ;;; y <-- pload b ;;;
    let dx := length (strip0 p x) in let dy := length (strip0 p y) in
    if (dx =? 0)%nat || (dy =? 1)%nat then V_assign g b
    else if (dy =? 0)%nat || (dx =? 1)%nat then V_assign g a
    else
      (if (dy <=? dx)%nat then V_assign (T 8) a ;;; V_assign g b
       else V_assign g a ;;; V_assign (T 8) b) ;;;
      gcd_loop (S (dx + dy)) g ;;;
      gg <-- pload g ;;;
      if (length gg <=? 1)%nat then pstor g [1] else pskip.
End Steps.

(* ------------------------------------------------------------------ Z-level wrappers for extraction *)
Definition pmk4 (ir ia ib ic : positive) (vr va vb vc : poly) : pstore :=
  pupd (pupd (pupd (pupd (fun _ => []) (U ic) vc) (U ib) vb) (U ia) va) (U ir) vr.
Definition pop4 := loc -> loc -> loc -> loc -> PM unit.
(* 0 mul 1 sqr 2 reverse 3 mulin 4 axpy 5 axmy 6 maxpy 7 axpyin 8 maxpyin 9 axmyin 10 mod 11 gcd | divmod apart *)
Definition poly_op (p : Z) (op : nat) : pop4 :=
  match op with
  | 0 => fun r a b _ => P_mul p r a b | 1 => fun r a _ _ => P_sqr p r a | 2 => fun r a _ _ => P_reverse p r a
  | 3 => fun r a _ _ => P_mulin p r a | 4 => P_axpy p | 5 => P_axmy p | 6 => P_maxpy p
  | 7 => fun r a b _ => P_axpyin p r a b | 8 => fun r a b _ => P_maxpyin p r a b | 9 => fun r a b _ => P_axmyin p r a b
  | 10 => fun r a b _ => P_mod p r a b | _ => fun r a b _ => P_gcd p r a b
  end%nat.
Definition run_poly (p : Z) (op : nat) (ir ia ib ic : positive) (vr va vb vc : poly) : list poly :=
  let h := pexec (poly_op p op (U ir) (U ia) (U ib) (U ic)) (pmk4 ir ia ib ic vr va vb vc) in
  [h (U ir); h (U ia); h (U ib); h (U ic)].
Definition run_pdivmod (p : Z) (iq ir ia ib : positive) (vq vr va vb : poly) : list poly :=
  let h := pexec (P_divmod p (U iq) (U ir) (U ia) (U ib)) (pmk4 iq ir ia ib vq vr va vb) in
  [h (U iq); h (U ir); h (U ia); h (U ib)].
