(* C15 — polynomial three-address forms of Poly1Dom<Domain,Dense> over a store  loc -> list Z .
   Executable model, no proofs in this file.

   What is modelled statement by statement is the ENTRY-POINT logic of givpoly1muldiv.inl / givpoly1axpy.inl /
   givpoly1gcd.inl / givpoly1misc.inl: the `&R == &P` guards with their temporaries, the locals, the order of the
   assignments (e.g. gcd(G,P,Q): assign(U,..) before assign(G,..)), the remainder loop of gcd.
   The coefficient loops below the entry points are CONTRACTS with an explicit hazard:
     V_mul R P Q   writes  pmulv (P) (Q)  into R when R is neither P nor Q, and  junk  otherwise
                   (the loop resizes and overwrites R while it still reads P and Q through iterators);
     V_sqr, V_reverse_copy, V_invmodpowx_body, V_multrunc (the iterator form of mul) likewise.
                   add/sub/neg/assign/div by a coefficient are index based / read everything before the
                   destination is resized: atomic read-then-write steps.
   div(Q,A,B) (givpoly1muldiv.inl:230-269) is modelled statement by statement (P_div): the two degree tests, the
   constant-divisor branch with its local copy b0 of B[0], the fast division through reverse / invmodpowx / the
   truncated product into the resized Q / reversein.  degree(d,P) also normalises P in place (const_cast +
   setdegree, givpoly1misc.inl:105-116) without changing its value: the model keeps the caller's list and takes the
   normal form at the reads that follow such a call (V_coef0, V_reverse_copy_n).
   The contracts on distinct objects are checked on every run by the alias harness (python polynomial
   specification of the call on distinct objects); the theorems (ProofsPoly.v) show that no entry point reaches a
   hazard, for every alias pattern, so removing a guard or swapping two assignments falsifies a theorem.
   Coefficients live in Z/p, p the prime modulus of the coefficient ring. *)
From Coq Require Import ZArith List Bool.
From C15 Require Import Model.
Import ListNotations.
Local Open Scope Z_scope.

Definition poly := list Z.
Definition pstore := loc -> poly.
Definition pupd (h : pstore) (l : loc) (v : poly) : pstore := fun x => if loc_eqb x l then v else h x.
Definition PM (A : Type) := pstore -> A * pstore.
Definition pret {A} (a : A) : PM A := fun h => (a, h).
Definition pbind {A B} (c : PM A) (f : A -> PM B) : PM B := fun h => let (a, h1) := c h in f a h1.
Definition pload (l : loc) : PM poly := fun h => (h l, h).
Definition pstor (l : loc) (v : poly) : PM unit := fun h => (tt, pupd h l v).
Definition pexec {A} (c : PM A) (h : pstore) : pstore := snd (c h).
Definition pskip : PM unit := pret tt.
Notation "x <-- c1 ;;; c2" := (pbind c1 (fun x => c2)) (at level 61, c1 at next level, right associativity).
Notation "c1 ;;; c2" := (pbind c1 (fun _ => c2)) (at level 61, right associativity).

(* ------------------------------------------------------------------ value level (Z/p[X], dense, little endian) *)
Section Values.
  Variable p : Z.
  Fixpoint strip0 (l : poly) : poly :=             (* drop leading (= trailing in the list) zero coefficients *)
    match l with
    | [] => []
    | c :: r => match strip0 r with [] => if c mod p =? 0 then [] else [c mod p] | r' => (c mod p) :: r' end
    end.
  Fixpoint paddv (a b : poly) : poly :=
    match a, b with
    | [], _ => b | _, [] => a
    | x :: a', y :: b' => ((x + y) mod p) :: paddv a' b'
    end.
  Definition pnegv (a : poly) : poly := map (fun x => (- x) mod p) a.
  Definition pscal (c : Z) (a : poly) : poly := map (fun x => (c * x) mod p) a.
  Fixpoint pmulv (a b : poly) : poly :=
    match a with
    | [] => []
    | x :: a' => paddv (pscal x b) (0 :: pmulv a' b)
    end.
  Definition psubv (a b : poly) : poly := paddv a (pnegv b).
  Definition lead (a : poly) : Z := last a 0.
  Definition pdeg1 (a : poly) : nat := length (strip0 a).               (* degree + 1; 0 for the zero polynomial *)
  Definition pz (a : poly) : bool := (pdeg1 a =? 0)%nat.                 (* deg < 0 / isZero *)
  Definition pc (a : poly) : bool := (pdeg1 a =? 1)%nat.                 (* deg = 0 *)
  Definition ple1 (a : poly) : bool := (pdeg1 a <=? 1)%nat.              (* deg <= 0 *)
  Definition pge (a b : poly) : bool := (pdeg1 b <=? pdeg1 a)%nat.       (* deg a >= deg b *)
  Definition leadv (a : poly) : Z := lead (strip0 a).                    (* leadcoef: 0 for the zero polynomial *)
  Definition pconst (c : Z) : poly := strip0 [c].                        (* assign(P, Degree(0), c) *)
  Definition pdivsc (a : poly) (c : Z) : poly := strip0 (pscal (invmod c p) a).     (* div(R, P, u) / divin(R, u) *)
  Definition set0 (a : poly) (c : Z) : poly := match a with [] => [c] | _ :: t => c :: t end.
  (* std::vector::resize(n): the first n coefficients, zero filled *)
  Definition ptrunc (n : nat) (a : poly) : poly := firstn n (a ++ repeat 0 n).
  (* power series inverse of a modulo X^n (what invmodpowx's Newton iteration computes), one coefficient per round:
     r is the running remainder (1 - a (g_0 + ... + g_{k-1} X^{k-1})) / X^k *)
  Fixpoint pinvser (n : nat) (r a : poly) : poly :=
    match n with
    | O => []
    | S n' => let c := (hd 0 r * invmod (hd 0 a) p) mod p in c :: pinvser n' (tl (psubv r (pscal c a))) a
    end.
  Definition pinvpowx (a : poly) (n : nat) : poly := strip0 (pinvser n [1] a).
  Definition pdegx (a b : poly) : nat := S (pdeg1 a - pdeg1 b).          (* degX = degA - degB + 1 *)
  (* div(Q,A,B) on values: the code's three routes (B non zero) *)
  Definition pdivv (a b : poly) : poly :=
    if pge a b then
      if pc b then pdivsc a (hd 0 (strip0 b))
      else strip0 (rev (ptrunc (pdegx a b)
                          (pmulv (pinvpowx (strip0 (rev (strip0 b))) (pdegx a b)) (strip0 (rev (strip0 a))))))
    else [].
  (* what a hazardous call leaves in its destination: anything but the right value; a concrete choice so that
     the model runs *)
  Definition junk (a b : poly) : poly := 1 :: 1 :: paddv a b.
End Values.

(* ------------------------------------------------------------------ steps *)
Section Steps.
  Variable p : Z.
  Definition V_assign (r a : loc) : PM unit := x <-- pload a ;;; pstor r (strip0 p x).
  Definition V_add (r a b : loc) : PM unit := x <-- pload a ;;; y <-- pload b ;;; pstor r (strip0 p (paddv p x y)).
  Definition V_sub (r a b : loc) : PM unit := x <-- pload a ;;; y <-- pload b ;;; pstor r (strip0 p (psubv p x y)).
  Definition V_neg (r a : loc) : PM unit := x <-- pload a ;;; pstor r (strip0 p (pnegv p x)).
  Definition V_addin (r a : loc) : PM unit := V_add r r a.
  Definition V_subin (r a : loc) : PM unit := V_sub r r a.
  Definition V_negin (r : loc) : PM unit := V_neg r r.
  Definition V_reversein (r : loc) : PM unit := x <-- pload r ;;; pstor r (strip0 p (rev x)).
  Definition V_zero (r : loc) : PM unit := pstor r [].                              (* assign(R, zero) *)
  (* div(R,P,u), u a coefficient held in a local: R.resize(P.size()) then an index loop: R may be P *)
  Definition V_divsc (r a : loc) (c : Z) : PM unit := x <-- pload a ;;; pstor r (pdivsc p x c).
  (* B[0] of an object that degree() has just normalised *)
  Definition V_coef0 (a : loc) : PM Z := x <-- pload a ;;; pret (hd 0 (strip0 p x)).
  Definition V_resize (r : loc) (n : nat) : PM unit := z <-- pload r ;;; pstor r (ptrunc n z).       (* R.resize(n) *)
  (* contracts with a hazard *)
  Definition V_mul_body (r a b : loc) : PM unit :=
    x <-- pload a ;;; y <-- pload b ;;;
    pstor r (if loc_eqb r a || loc_eqb r b then junk p x y else strip0 p (pmulv p x y)).
  Definition V_sqr_body (r a : loc) : PM unit :=
    x <-- pload a ;;; pstor r (if loc_eqb r a then junk p x x else strip0 p (pmulv p x x)).
  Definition V_reverse_copy (r a : loc) : PM unit :=
    x <-- pload a ;;; pstor r (if loc_eqb r a then junk p x x else strip0 p (rev x)).
  (* the same on an operand that degree() has just normalised *)
  Definition V_reverse_copy_n (r a : loc) : PM unit :=
    x <-- pload a ;;; pstor r (if loc_eqb r a then junk p x x else strip0 p (rev (strip0 p x))).
  (* invmodpowx(G,A,l) after its guard: assign(G,one); inv(G[0],A[0]); Newton iterations that read A and rewrite G *)
  Definition V_invmodpowx_body (g a : loc) (l : nat) : PM unit :=
    x <-- pload a ;;; pstor g (if loc_eqb g a then junk p x x else pinvpowx p x l).
  (* mul(R, R.begin(), R.end(), P, .., Q, ..) (givpoly1kara.inl:65,105): the product truncated / zero filled to the
     CURRENT size of R, written through iterators while P and Q are read; no setdegree *)
  Definition V_multrunc (r a b : loc) : PM unit :=
    z <-- pload r ;;; x <-- pload a ;;; y <-- pload b ;;;
    pstor r (if loc_eqb r a || loc_eqb r b then junk p x y else ptrunc (length z) (pmulv p x y)).

  (* ---------------------------------------------------------------- entry points (as in /repo's current tree) *)
  (* mul(R,P,Q): if (&R == &P || &R == &Q) { Rep T; mul(T,P,Q); return assign(R,T); } ... *)
  Definition P_mul (r a b : loc) : PM unit :=
    if loc_eqb r a || loc_eqb r b then V_mul_body (T 0) a b ;;; V_assign r (T 0)
    else V_mul_body r a b.
  Definition P_sqr (r a : loc) : PM unit :=
    if loc_eqb r a then V_sqr_body (T 0) a ;;; V_assign r (T 0) else V_sqr_body r a.
  (* reverse(P,Q): if (&P == &Q) return reversein(P); P.resize(Q.size()); reverse_copy(...) *)
  Definition P_reverse (r a : loc) : PM unit :=
    if loc_eqb r a then V_reversein r else V_reverse_copy r a.
  Definition P_reverse_n (r a : loc) : PM unit :=
    if loc_eqb r a then V_reversein r else V_reverse_copy_n r a.
  (* invmodpowx(G,A,l): if (&G == &A) { Rep At; assign(At,A); return invmodpowx(G,At,l); } ... *)
  Definition P_invmodpowx (g a : loc) (l : nat) : PM unit :=
    if loc_eqb g a then V_assign (T 72) a ;;; V_invmodpowx_body g (T 72) l else V_invmodpowx_body g a l.
  (* mulin(R,P): Rep tmp; mul(tmp,R,P); assign(R,tmp) *)
  Definition P_mulin (r a : loc) : PM unit := P_mul (T 1) r a ;;; V_assign r (T 1).
  (* axpy(r,a,x,y): if (&r == &y) { Rep T; axpy(T,a,x,y); return assign(r,T); } return addin(mul(r,a,x), y) *)
  Definition P_axpy (r a x y : loc) : PM unit :=
    if loc_eqb r y then (P_mul (T 2) a x ;;; V_addin (T 2) y) ;;; V_assign r (T 2)
    else P_mul r a x ;;; V_addin r y.
  (* axmy(r,a,x,y): if (&r == &y) { Rep T; axmy(T,a,x,y); return assign(r,T); } return subin(mul(r,a,x), y) *)
  Definition P_axmy (r a x y : loc) : PM unit :=
    if loc_eqb r y then (P_mul (T 2) a x ;;; V_subin (T 2) y) ;;; V_assign r (T 2)
    else P_mul r a x ;;; V_subin r y.
  (* maxpy(r,a,b,c): Rep tmp; return sub(r, c, mul(tmp,a,b)) *)
  Definition P_maxpy (r a b c : loc) : PM unit := P_mul (T 3) a b ;;; V_sub r c (T 3).
  (* axpyin(r,a,x): Rep tmp; assign(tmp,r); return axpy(r,a,x,tmp) *)
  Definition P_axpyin (r a x : loc) : PM unit := V_assign (T 4) r ;;; P_axpy r a x (T 4).
  (* maxpyin(r,a,b): Rep tmp; return subin(r, mul(tmp,a,b)) *)
  Definition P_maxpyin (r a b : loc) : PM unit := P_mul (T 3) a b ;;; V_subin r (T 3).
  (* axmyin(r,a,x): maxpyin(r,a,x); return negin(r) *)
  Definition P_axmyin (r a x : loc) : PM unit := P_maxpyin r a x ;;; V_negin r.
  (* div(Q,A,B), givpoly1muldiv.inl:230-269.   T = T 70, S = T 71
       degree(degB,B); degree(degA,A);
       if (degA < degB) return assign(Q, zero);
       if (degB == 0) { const Type_t b0(B[0]); return div(Q, A, b0); }        -- b0 is copied BEFORE Q is written
       degX = degA - degB + 1; Rep T, S;
       reverse(T,B); invmodpowx(S,T,degX); reverse(T,A); Q.resize(degX); mul(Q, Q.begin(), Q.end(), S,.., T,..);
       return reversein(Q) *)
  Definition P_div_gen (q a b : loc) (l : nat) : PM unit :=
    P_reverse_n (T 70) b ;;; P_invmodpowx (T 71) (T 70) l ;;; P_reverse_n (T 70) a ;;;
    V_resize q l ;;; V_multrunc q (T 71) (T 70) ;;; V_reversein q.
  Definition P_div (q a b : loc) : PM unit :=
    y <-- pload b ;;; x <-- pload a ;;;
    if pge p x y then
      if pc p y then b0 <-- V_coef0 b ;;; V_divsc q a b0
      else P_div_gen q a b (pdegx p x y)
    else V_zero q.
  (* the body before repair 1eb01b7: `return div(Q, A, B[0])` — the divisor is a REFERENCE to the cell 0 of B.
     div(R,P,u): R.resize(P.size()); for (i) R[i] = P[i] / u — u is read at every round; round 0 is the only one that
     can change it (when R is B) *)
  Definition V_cell0 (a : loc) : PM Z := x <-- pload a ;;; pret (hd 0 x mod p).
  Definition V_divsc_byref (r a ub : loc) : PM unit :=
    x <-- pload a ;;;
    z <-- pload r ;;; pstor r (ptrunc (length x) z) ;;;                                             (* R.resize(sP) *)
    u <-- V_cell0 ub ;;; z <-- pload r ;;; pstor r (set0 z ((invmod u p * hd 0 x) mod p)) ;;;        (* i = 0 *)
    u <-- V_cell0 ub ;;; z <-- pload r ;;; pstor r (strip0 p (hd 0 z :: tl (pscal p (invmod u p) x))).   (* i >= 1; setdegree *)
  Definition P_div_b0_reverted (q a b : loc) : PM unit :=
    y <-- pload b ;;; x <-- pload a ;;;
    if pge p x y then
      if pc p y then V_divsc_byref q a b
      else P_div_gen q a b (pdegx p x y)
    else V_zero q.
  (* divmod(Q,R,A,B): if (an output is A or B) { Rep Qt, Rt; divmod(Qt,Rt,A,B); assign(Q,Qt); return assign(R,Rt); }
                       div(Q,A,B); return maxpy(R,Q,B,A) *)
  Definition P_divmod (q r a b : loc) : PM unit :=
    if loc_eqb q a || loc_eqb q b || loc_eqb r a || loc_eqb r b then
      (P_div (T 5) a b ;;; P_maxpy (T 6) (T 5) b a) ;;; V_assign q (T 5) ;;; V_assign r (T 6)
    else P_div q a b ;;; P_maxpy r q b a.
  (* mod(R,A,B): Rep Q; divmod(Q,R,A,B); return R *)
  Definition P_mod (r a b : loc) : PM unit := P_divmod (T 7) r a b.

  (* gcd(G,P,Q): degrees; early returns; (U,G) <- (larger, smaller) — the local U is assigned FIRST —;
     do { mod(R,U,G); if (R == 0) break; assign(U,G); assign(G,R); } while (1); if (deg G <= 0) assign(G, one) *)
  Fixpoint gcd_loop (n : nat) (g : loc) : PM unit :=
    match n with
    | O => pskip
    | S n' =>
      P_mod (T 9) (T 8) g ;;;
      rr <-- pload (T 9) ;;;
      match rr with
      | [] => pskip
      | _ => V_assign (T 8) g ;;; V_assign g (T 9) ;;; gcd_loop n' g
      end
    end.
  Definition P_gcd (g a b : loc) : PM unit :=
    x <-- pload a ;;; y <-- pload b ;;;
    let dx := length (strip0 p x) in let dy := length (strip0 p y) in      (* degree + 1; 0 for the zero polynomial *)
    if (dx =? 0)%nat || (dy =? 1)%nat then V_assign g b
    else if (dy =? 0)%nat || (dx =? 1)%nat then V_assign g a
    else
      (if (dy <=? dx)%nat then V_assign (T 8) a ;;; V_assign g b
       else V_assign (T 8) b ;;; V_assign g a) ;;;
      gcd_loop (S (dx + dy)) g ;;;
      gg <-- pload g ;;;
      if (length gg <=? 1)%nat then pstor g [1] else pskip.
  (* the two seeded / historical variants, kept so that their failure is a checked statement (ProofsPoly.v):
     mul without its guard, and gcd with the two assignments of the "deg P < deg Q" branch swapped *)
  Definition P_mul_unguarded (r a b : loc) : PM unit := V_mul_body r a b.
  Definition P_gcd_swapped (g a b : loc) : PM unit :=
    x <-- pload a ;;; y <-- pload b ;;;
    let dx := length (strip0 p x) in let dy := length (strip0 p y) in
    if (dx =? 0)%nat || (dy =? 1)%nat then V_assign g b
    else if (dy =? 0)%nat || (dx =? 1)%nat then V_assign g a
    else
      (if (dy <=? dx)%nat then V_assign (T 8) a ;;; V_assign g b
       else V_assign g a ;;; V_assign (T 8) b) ;;;
      gcd_loop (S (dx + dy)) g ;;;
      gg <-- pload g ;;;
      if (length gg <=? 1)%nat then pstor g [1] else pskip.
End Steps.

(* ------------------------------------------------------------------ Z-level wrappers for extraction *)
Definition pmk4 (ir ia ib ic : positive) (vr va vb vc : poly) : pstore :=
  pupd (pupd (pupd (pupd (fun _ => []) (U ic) vc) (U ib) vb) (U ia) va) (U ir) vr.
Definition pop4 := loc -> loc -> loc -> loc -> PM unit.
(* 0 mul 1 sqr 2 reverse 3 mulin 4 axpy 5 axmy 6 maxpy 7 axpyin 8 maxpyin 9 axmyin 10 mod 12 div(r,a,b)
   13 div(r,a,b) before 1eb01b7   11, 14.. gcd | divmod apart *)
Definition poly_op (p : Z) (op : nat) : pop4 :=
  match op with
  | 0 => fun r a b _ => P_mul p r a b | 1 => fun r a _ _ => P_sqr p r a | 2 => fun r a _ _ => P_reverse p r a
  | 3 => fun r a _ _ => P_mulin p r a | 4 => P_axpy p | 5 => P_axmy p | 6 => P_maxpy p
  | 7 => fun r a b _ => P_axpyin p r a b | 8 => fun r a b _ => P_maxpyin p r a b | 9 => fun r a b _ => P_axmyin p r a b
  | 10 => fun r a b _ => P_mod p r a b | 12 => fun r a b _ => P_div p r a b
  | 13 => fun r a b _ => P_div_b0_reverted p r a b | _ => fun r a b _ => P_gcd p r a b
  end%nat.
Definition run_poly (p : Z) (op : nat) (ir ia ib ic : positive) (vr va vb vc : poly) : list poly :=
  let h := pexec (poly_op p op (U ir) (U ia) (U ib) (U ic)) (pmk4 ir ia ib ic vr va vb vc) in
  [h (U ir); h (U ia); h (U ib); h (U ic)].
Definition run_pdivmod (p : Z) (iq ir ia ib : positive) (vq vr va vb : poly) : list poly :=
  let h := pexec (P_divmod p (U iq) (U ir) (U ia) (U ib)) (pmk4 iq ir ia ib vq vr va vb) in
  [h (U iq); h (U ir); h (U ia); h (U ib)].
