(* C15 — destination may alias an operand.   Executable model, part 5: Rational::operator*= and operator/=
   (givratmuldiv.C) = QField<Rational>::mulin / divin (qfield.h:77-78), and Rational::reduce() (givratmisc.C).
   No proofs in this file.

   Same imperative core as Model.v.  A Rational object is the pair of Integer objects (num, den) = Model.rat; two Rational
   objects are the same object or disjoint.  The static  Rational::flags  is the boolean parameter  noreduce
   (true: Rational::NoReduce, false: Rational::Reduce).  Every branch of the two bodies is modelled, in the order of the
   source; one Integer operator (one mpz call) is one atomic step: it reads its operands, then writes its destination.
   `Integer /= Integer` is the truncated quotient (mpz_tdiv_q): Z.quot;  gcd(Integer, Integer) is nonnegative: Z.gcd.

   Locals (T n) used here:  104, 105 the temporary Rational(0)   106 d1   107 d2   108 t (reduce)   109 the temporaries
   (r.num / d2), (r.den / d1), ... of the general paths *)
From Coq Require Import ZArith List Bool.
From C15 Require Import Model.
Import ListNotations.
Local Open Scope Z_scope.

(* ------------------------------------------------------------------ Integer steps used by the two bodies *)
(* Integer d = gcd(a, b) *)
Definition I_gcd (r : loc) (a b : arg) : M unit := x <- rd a ;; y <- rd b ;; stor r (Z.gcd x y).
(* r = a / b  (Integer::operator/, a temporary) and  r /= b *)
Definition I_quot (r : loc) (a b : arg) : M unit := x <- rd a ;; y <- rd b ;; stor r (Z.quot x y).
(* isOne(Rational) = isOne(num) && isOne(den);  isInteger = isOne(den);  isZero = isZero(num) *)
Definition Q_isone (r : rat) : M bool := n <- load (num r) ;; d <- load (den r) ;; ret ((n =? 1) && (d =? 1)).
Definition Q_isint (r : rat) : M bool := d <- load (den r) ;; ret (d =? 1).
Definition Q_is0 (r : rat) : M bool := n <- load (num r) ;; ret (n =? 0).

(* Rational& Rational::operator= (const Rational& r): if (this == &r) return *this; num.logcpy(r.num); den.logcpy(r.den) *)
Definition Q_assign (t r : rat) : M unit :=
  if loc_eqb (num t) (num r) then skip else I_set (num t) (L (num r)) ;; I_set (den t) (L (den r)).

(* Rational& Rational::reduce(): Integer t = gcd(num, den); if (!isOne(t)) { num /= t; den /= t; } *)
Definition Rat_reduce (t : rat) : M unit :=
  I_gcd (T 108) (L (num t)) (L (den t)) ;;
  g <- load (T 108) ;;
  if g =? 1 then skip
  else I_quot (num t) (L (num t)) (L (T 108)) ;; I_quot (den t) (L (den t)) (L (T 108)).

(* ------------------------------------------------------------------ Rational::operator*= (const Rational& r)
     if (isZero(r)) return *this = Rational(0);
     if (isZero( *this)) return *this;
     if (isOne(r)) return *this;
     if (isOne( *this)) return *this = r;
     if (isInteger( *this) && isInteger(r)) { num *= r.num; return *this; }
     if ((absCompare(den, r.den) == 0) || (Rational::flags == Rational::NoReduce)) { num *= r.num; den *= r.den; return *this; }
     Integer d1 = gcd(num, r.den); Integer d2 = gcd(den, r.num);
     num /= d1; num *= (r.num / d2); den /= d2; den *= (r.den / d1); return *this; *)
Definition Rat_muleq (noreduce : bool) (t r : rat) : M unit :=
  z <- Q_is0 r ;;
  if z then stor (T 104) 0 ;; stor (T 105) 1 ;; Q_assign t (T 104, T 105) else
  z <- Q_is0 t ;;
  if z then skip else
  o <- Q_isone r ;;
  if o then skip else
  o <- Q_isone t ;;
  if o then Q_assign t r else
  i1 <- Q_isint t ;; i2 <- Q_isint r ;;
  if i1 && i2 then I_mul (num t) (L (num t)) (L (num r)) else
  td <- load (den t) ;; rd' <- load (den r) ;;
  if (Z.abs td =? Z.abs rd') || noreduce then
    I_mul (num t) (L (num t)) (L (num r)) ;;
    I_mul (den t) (L (den t)) (L (den r))
  else
    I_gcd (T 106) (L (num t)) (L (den r)) ;;
    I_gcd (T 107) (L (den t)) (L (num r)) ;;
    I_quot (num t) (L (num t)) (L (T 106)) ;;
    I_quot (T 109) (L (num r)) (L (T 107)) ;; I_mul (num t) (L (num t)) (L (T 109)) ;;
    I_quot (den t) (L (den t)) (L (T 107)) ;;
    I_quot (T 109) (L (den r)) (L (T 106)) ;; I_mul (den t) (L (den t)) (L (T 109)).

(* ------------------------------------------------------------------ Rational::operator/= (const Rational& r)
     if (isZero(r)) throw GivMathDivZero(...);                       (nothing has been written)
     if (isZero( *this)) return *this;
     if (isOne(r)) return *this;
     if (isOne( *this)) { if (sign(r.num)<0) { Integer::neg(this->num, r.den); Integer::neg(this->den, r.num); }
                          else { this->num = r.den; this->den = r.num; }  return *this; }
 A:  if (compare(this->den, r.den) == 0) {
         if (sign(r.num)<0) { Integer::neg(this->den, r.num); Integer::negin(this->num); } else { this->den = r.num; }
         return this->reduce(); }
 B:  if (Rational::flags == Rational::NoReduce) {
         if (sign(r.num)<0) { this->num *= r.den; this->den *= r.num; Integer::negin(this->num); Integer::negin(this->den); }
         else { this->num *= r.den; this->den *= r.num; }
         return *this; }
     Integer d1 = gcd(this->num, r.num); Integer d2 = gcd(this->den, r.den);
     this->num /= d1; this->num *= (r.den / d2); this->den /= d2; this->den *= (r.num / d1);
     if (sign(den) < 0) { Integer::negin(this->num); Integer::negin(this->den); }
     return *this;
   b_first = false: the order of the source (A before B).
   b_first = true : the seeded change C15-m8 (seeded/C15-m8/patch.diff): block B moved in front of block A. *)
Definition Rat_diveq_A (t r : rat) : M unit :=
  n <- I_neg0 (L (num r)) ;;
  (if n then I_neg (den t) (L (num r)) ;; Int_negin (num t) else I_set (den t) (L (num r))) ;;
  Rat_reduce t.
Definition Rat_diveq_B (t r : rat) : M unit :=
  n <- I_neg0 (L (num r)) ;;
  if n then I_mul (num t) (L (num t)) (L (den r)) ;; I_mul (den t) (L (den t)) (L (num r)) ;;
            Int_negin (num t) ;; Int_negin (den t)
  else I_mul (num t) (L (num t)) (L (den r)) ;; I_mul (den t) (L (den t)) (L (num r)).
Definition Rat_diveq_general (t r : rat) : M unit :=
  I_gcd (T 106) (L (num t)) (L (num r)) ;;
  I_gcd (T 107) (L (den t)) (L (den r)) ;;
  I_quot (num t) (L (num t)) (L (T 106)) ;;
  I_quot (T 109) (L (den r)) (L (T 107)) ;; I_mul (num t) (L (num t)) (L (T 109)) ;;
  I_quot (den t) (L (den t)) (L (T 107)) ;;
  I_quot (T 109) (L (num r)) (L (T 106)) ;; I_mul (den t) (L (den t)) (L (T 109)) ;;
  n <- I_neg0 (L (den t)) ;; when n (Int_negin (num t) ;; Int_negin (den t)).

Definition Rat_diveq_gen (b_first : bool) (noreduce : bool) (t r : rat) : M unit :=
  z <- Q_is0 r ;;
  if z then skip else
  z <- Q_is0 t ;;
  if z then skip else
  o <- Q_isone r ;;
  if o then skip else
  o <- Q_isone t ;;
  if o then
    n <- I_neg0 (L (num r)) ;;
    if n then I_neg (num t) (L (den r)) ;; I_neg (den t) (L (num r))
    else I_set (num t) (L (den r)) ;; I_set (den t) (L (num r))
  else
  td <- load (den t) ;; rd' <- load (den r) ;;
  if b_first then
    if noreduce then Rat_diveq_B t r
    else if td =? rd' then Rat_diveq_A t r
    else Rat_diveq_general t r
  else
    if td =? rd' then Rat_diveq_A t r
    else if noreduce then Rat_diveq_B t r
    else Rat_diveq_general t r.
Definition Rat_diveq : bool -> rat -> rat -> M unit := Rat_diveq_gen false.
Definition Rat_diveq_m8 : bool -> rat -> rat -> M unit := Rat_diveq_gen true.

(* ------------------------------------------------------------------ Z-level wrapper for extraction
   op: 0 `*=`  1 `/=`  2.. `/=` with the seeded order C15-m8;   positions are rational indices (equal index = same object),
   values (num, den);  result = [rn; rd; an; ad] after the call  r op= a *)
Definition run_qmuldiv (op : nat) (noreduce : bool) (ir ia : positive) (rn rd' an ad : Z) : list Z :=
  let h0 := mkq ir rn rd' (mkq ia an ad (fun _ => 0)) in
  let c := match op with
           | 0 => Rat_muleq noreduce (Rat ir) (Rat ia)
           | 1 => Rat_diveq noreduce (Rat ir) (Rat ia)
           | _ => Rat_diveq_m8 noreduce (Rat ir) (Rat ia) end%nat in
  let h := exec c h0 in dumpq h ir ++ dumpq h ia.
