(* C15 — destination may alias an operand.   Executable model, part 3: RecInt modular integers rmint<K,MG> and
   RecInt unsigned division.   No proofs in this file.

   Same imperative core as Model.v (store loc -> Z, caller objects U p, locals T n, state monad).
   One rmint object = one location holding its  .Value ; the static module  p  and, for MG_ACTIVE, the static
   constants  p1 = -p^-1 mod W  and  r = W mod p  (rmgrmint.h: there is no r2 / r3 in this class) are constants
   K z , never a destination.  W = 2^(2^K) is the size of ruint<K>.

   Bodies modelled statement by statement after /repo/src/kernel/recint:
     rmadd.h rmsub.h rmneg.h rmmul.h rmdiv.h                      (shared by MG_INACTIVE = MGI and MG_ACTIVE = MGA)
     rmbreduc.h rmbinv.h rmbaddmul.h rmbexp.h rmbmul.h rmbrmint.h  (MGI: reduction = mod_n)
     rmgreduc.h rmginv.h rmgaddmul.h rmgexp.h rmgmul.h rmgrmint.h  (MGA: reduction = Montgomery reduction, to_mg)
     rudiv.h                                                      (div, udiv_qrnd, div_q, div_r, native-word forms)
   Primitive steps (one ruint free function) are atomic exact operations: they read all their operands, then write
   their destination(s); the new ones are below, the others are Model.ru_*.

   Locals (T n) used here:  0 resmul/res (ruint<K+1>)   1 ci (div)   2 res (MGA addmul)   3,4 get_ruint(b), get_ruint(c)
     5 the local rmint built from a native word   6 x (MGA exp)   10 a0 (MGA reduction)   11 res (to_mg)
     12 the temporary  a.p - b.Value  of sub(a,b)
     20 aa  21 bb (generic div)   22 r (div_q)   23 q (div_r)   24 bb(b) (word forms)   25 rr (word form)
     30..45 the window table g[0..15] of the MGA exp(a,b,const ruint<K>&)   50 the local copy c of its exponent *)
From Coq Require Import ZArith List Bool.
From C15 Require Import Model.
Import ListNotations.
Local Open Scope Z_scope.

(* b^e mod n by square and multiply (what exp_mod leaves: a = (n == 1) ? 0 : 1 when e = 0) *)
Fixpoint powm_pos (x : Z) (e : positive) (m : Z) : Z :=
  match e with
  | xH => x mod m
  | xO e' => let y := powm_pos x e' m in (y * y) mod m
  | xI e' => let y := powm_pos x e' m in (((y * y) mod m) * x) mod m
  end.
Definition expmod (x e m : Z) : Z := match e with Zpos q => powm_pos x q m | _ => 1 mod m end.

(* limbs and 4-bit windows of a ruint exponent (rmgexp.h: limb = __RECINT_LIMB_BITS = 64 bits, NB_WIN = 64/4 windows
   per limb, mask = 0xf);  NBLIMB<K>::value = 2^(K-6) = log2 W / 64 *)
Definition LIMB : Z := 2 ^ 64.
Definition NB_WIN : nat := 16.
Definition limb_of (c : Z) (i : nat) : Z := (c / LIMB ^ Z.of_nat i) mod LIMB.            (* *originalTab[i] *)
Definition win_of (x : Z) (j : nat) : nat := Z.to_nat ((x / 2 ^ (4 * Z.of_nat j)) mod 16).   (* (exp >> (j<<2)) & mask *)
Definition nlimbs (W : Z) : nat := Z.to_nat (Z.log2 W / 64).
(* the local table  rmint<K,MGA> g[16] *)
Definition G (i : nat) : loc := T (30 + i).

(* ================================================================== more RecInt primitives (atomic) *)
Section RecIntMore.
  Variable W : Z.

  (* lsquare(res, b): ruint<K+1> res = b^2 *)
  Definition ru_lsquare (r : loc) (a : arg) : M unit := x <- rd a ;; stor r (x * x).
  (* laddmul(res, b, c, d): ruint<K+1> res = b c + d *)
  Definition ru_laddmul (r : loc) (a b d : arg) : M unit :=
    x <- rd a ;; y <- rd b ;; z <- rd d ;; stor r (x * y + z).
  (* laddmul(bool& r, ah, al, b, c, d): (r, ah|al) = b c + d, d a ruint<K> or a ruint<K+1> *)
  Definition ru_laddmul_c (ah al : loc) (b c d : arg) : M bool :=
    x <- rd b ;; y <- rd c ;; z <- rd d ;;
    stor al ((x * y + z) mod W) ;; stor ah (((x * y + z) / W) mod W) ;; ret (W <=? (x * y + z) / W).
  (* mul(a0, a.Low, p1) for a ruint<K+1> a *)
  Definition ru_mul_low (r : loc) (a b : arg) : M unit :=
    x <- rd a ;; y <- rd b ;; stor r (((x mod W) * y) mod W).
  (* ruint<K+1> res (= 0); copy(res.High, b) *)
  Definition ru_to_high (r : loc) (a : arg) : M unit := x <- rd a ;; stor r (x * W).
  (* exp_mod(a, b, T c, n) *)
  Definition ru_expmod (r : loc) (b : arg) (e : Z) (n : arg) : M unit :=
    x <- rd b ;; m <- rd n ;; stor r (expmod x e m).
  (* exp_mod(a, b, const ruint<K>& c0, n0) (ruexp.h: x(b), c(c0), n(n0) are copied before a is written) *)
  Definition ru_expmod_l (r : loc) (b e n : arg) : M unit :=
    x <- rd b ;; c <- rd e ;; m <- rd n ;; stor r (expmod x c m).
  (* div_r(r, x, y) on by-value temporaries x, y (rmdiv.h mod: the operands are the results of get_ruint) *)
  Definition ru_divr (r : loc) (a b : arg) : M unit := x <- rd a ;; y <- rd b ;; stor r (x mod y).

  (* ---- rudiv.h primitives *)
  (* normalization(d, b): d = number of zero bits in front of b (all the bits when b = 0) *)
  Definition norm_d (b : Z) : Z := Z.log2 W - (if b =? 0 then 0 else Z.log2 b + 1).
  Definition ru_normalization (b : arg) : M Z := x <- rd b ;; ret (norm_d x).
  (* left_shift(bb, b, d) in ruint<K>;  left_shift(aa, a, d) with aa a ruint<K+1>;  right_shift(r, a, d) *)
  Definition ru_lshift (r : loc) (a : arg) (d : Z) : M unit := x <- rd a ;; stor r ((x * 2 ^ d) mod W).
  Definition ru_lshift_wide (r : loc) (a : arg) (d : Z) : M unit := x <- rd a ;; stor r ((x * 2 ^ d) mod (W * W)).
  Definition ru_rshift (r : loc) (a : arg) (d : Z) : M unit := x <- rd a ;; stor r (x / 2 ^ d).
  (* right_shift_1(z, q, a): q = a >> 1, z = the lost bit *)
  Definition ru_rshift1 (q : loc) (a : arg) : M bool := x <- rd a ;; stor q (x / 2) ;; ret (Z.odd x).
  (* div_2_1(q, r, aa.High, aa.Low, bb): (aa.High|aa.Low) = q bb + r; its operands are locals of the caller *)
  Definition ru_div_2_1 (q r : loc) (aa bb : loc) : M unit :=
    n <- load aa ;; y <- load bb ;;
    stor q ((((n / W) * W + n mod W) / y) mod W) ;; stor r (((n / W) * W + n mod W) mod y).

  (* ================================================================ rmint<K,MG>: what MGI and MGA share *)
  Section RmShared.
    Variable p : Z.          (* rmint<K,MG>::p *)

    (* add(a,b,c): bool r; add(r, a.Value, b.Value, c.Value); if (r || a.Value >= a.p) sub(a.Value, a.p) *)
    Definition rm_add (a b c : loc) : M unit :=
      cy <- ru_addc W a (L b) (L c) ;; g <- ru_ge (L a) (K p) ;;
      when (cy || g) (ru_sub W a (L a) (K p)).
    (* add(a,b): bool r; add(r, a.Value, b.Value); if (r || a.Value >= a.p) sub(a.Value, a.p) *)
    Definition rm_addin (a b : loc) : M unit :=
      cy <- ru_addc W a (L a) (L b) ;; g <- ru_ge (L a) (K p) ;;
      when (cy || g) (ru_sub W a (L a) (K p)).

    (* sub(a,b,c) (58e2703): if (b < c) { sub(a.Value, b.Value, c.Value); add(a.Value, a.p); }
                             else sub(a.Value, b.Value, c.Value) *)
    Definition rm_sub (a b c : loc) : M unit :=
      lt <- ru_lt (L b) (L c) ;;
      if lt then ru_sub W a (L b) (L c) ;; ru_add W a (L a) (K p)
      else ru_sub W a (L b) (L c).
    (* the body before 58e2703: if (b < c) { sub(a.Value, a.p, c.Value); add(a.Value, b.Value); } else sub(...) *)
    Definition rm_sub_old (a b c : loc) : M unit :=
      lt <- ru_lt (L b) (L c) ;;
      if lt then ru_sub W a (K p) (L c) ;; ru_add W a (L a) (L b)
      else ru_sub W a (L b) (L c).
    (* sub(a,b): if (a < b) add(a.Value, a.p - b.Value) else sub(a.Value, b.Value)
       (a.p - b.Value is a ruint temporary) *)
    Definition rm_subin (a b : loc) : M unit :=
      lt <- ru_lt (L a) (L b) ;;
      if lt then ru_sub W (T 12) (K p) (L b) ;; ru_add W a (L a) (L (T 12))
      else ru_sub W a (L a) (L b).

    (* neg(a,b): if (b.Value == 0) return (a = 0); sub(a.Value, a.p, b.Value) *)
    Definition rm_neg (a b : loc) : M unit :=
      z <- ru_is0 (L b) ;; if z then ru_reset a else ru_sub W a (K p) (L b).
    (* neg(a): if (a.Value == 0) return a; sub(a.Value, a.p, a.Value) *)
    Definition rm_negin (a : loc) : M unit :=
      z <- ru_is0 (L a) ;; if z then skip else ru_sub W a (K p) (L a).
  End RmShared.

  (* ================================================================ rmint<K,MG>: reduction and what depends on it *)
  Section Rmint.
    Variable mg : bool.      (* false: MG_INACTIVE   true: MG_ACTIVE *)
    Variables p p1 r : Z.    (* p;  MGA only: p1 = -p^-1 mod W,  r = W mod p *)

    (* ---- rmgreduc.h *)
    (* reduction(t, const ruint<K+1>& a): bool r; ruint<K> a0; mul(a0, a.Low, p1); laddmul(r, t.Value, a0, a0, p, a);
       if (r || t.Value >= p) sub(t.Value, p) *)
    Definition rmg_reduc_wide (t a : loc) : M unit :=
      ru_mul_low (T 10) (L a) (K p1) ;;
      cy <- ru_laddmul_c t (T 10) (L (T 10)) (K p) (L a) ;;
      g <- ru_ge (L t) (K p) ;; when (cy || g) (ru_sub W t (L t) (K p)).
    (* reduction(t, const ruint<K>& a) (also reduction(t, rmint c) = reduction(t, c.Value), reduction(t) = reduction(t, t.Value)):
       mul(a0, a, p1); laddmul(r, t.Value, a0, a0, p, a); if (r || t.Value >= p) sub(t.Value, p) *)
    Definition rmg_reduc (t : loc) (a : arg) : M unit :=
      ru_mul W (T 10) a (K p1) ;;
      cy <- ru_laddmul_c t (T 10) (L (T 10)) (K p) a ;;
      g <- ru_ge (L t) (K p) ;; when (cy || g) (ru_sub W t (L t) (K p)).
    (* to_mg(a, b): ruint<K+1> res; copy(res.High, b.Value); mod_n(a.Value, res, p)     to_mg(a) = to_mg(a, a) *)
    Definition rmg_to_mg (a b : loc) : M unit := ru_to_high (T 11) (L b) ;; ru_modn a (L (T 11)) (K p).

    (* reduction(a, resmul) with resmul a local ruint<K+1>:  MGI mod_n(t.Value, a, t.p)   MGA as above *)
    Definition rm_reduc_wide (t a : loc) : M unit :=
      if mg then rmg_reduc_wide t a else ru_modn t (L a) (K p).

    (* ---- rmmul.h *)
    (* mul(a,b,c): ruint<K+1> resmul; lmul(resmul, b.Value, c.Value); reduction(a, resmul) *)
    Definition rm_mul (a b c : loc) : M unit := ru_lmul (T 0) (L b) (L c) ;; rm_reduc_wide a (T 0).
    (* mul(a,b): ruint<K+1> resmul; lmul(resmul, a.Value, b.Value); reduction(a, resmul) *)
    Definition rm_mulin (a b : loc) : M unit := ru_lmul (T 0) (L a) (L b) ;; rm_reduc_wide a (T 0).
    (* square(a,b): ruint<K+1> res; lsquare(res, b.Value); reduction(a, res)        square(a) = square(a, a) *)
    Definition rm_square (a b : loc) : M unit := ru_lsquare (T 0) (L b) ;; rm_reduc_wide a (T 0).
    Definition rm_squarein (a : loc) : M unit := rm_square a a.

    (* ---- rmbinv.h / rmginv.h
       MGI inv(a,b): inv_mod(a.Value, b.Value, a.p)                 inv(a): inv_mod(a.Value, a.Value, a.p)
       MGA inv(a,b): reduction(a, b); inv_mod(a.Value, a.Value, a.p); return to_mg(a)
           inv(a):   reduction(a);    inv_mod(a.Value, a.Value, a.p); return to_mg(a) *)
    Definition rm_inv (a b : loc) : M unit :=
      if mg then rmg_reduc a (L b) ;; ru_invmod a (L a) (K p) ;; rmg_to_mg a a
      else ru_invmod a (L b) (K p).
    Definition rm_invin (a : loc) : M unit :=
      if mg then rmg_reduc a (L a) ;; ru_invmod a (L a) (K p) ;; rmg_to_mg a a
      else ru_invmod a (L a) (K p).

    (* ---- rmdiv.h *)
    (* div(a,b,c): rmint ci; inv(ci, c); if (ci.Value == 0) reset(a.Value); else mul(a, b, ci)      div(a,b) = div(a, a, b) *)
    Definition rm_div (a b c : loc) : M unit :=
      rm_inv (T 1) c ;; z <- ru_is0 (L (T 1)) ;; if z then ru_reset a else rm_mul a b (T 1).
    Definition rm_divin (a b : loc) : M unit := rm_div a a b.

    (* ---- rmbaddmul.h / rmgaddmul.h
       MGI addmul(a,b,c): ruint<K+1> res; laddmul(res, b.Value, c.Value, a.Value); reduction(a, res)
       MGA addmul(a,b,c): rmint res; mul(res, b, c); return add(a, res) *)
    Definition rm_addmul (a b c : loc) : M unit :=
      if mg then rm_mul (T 2) b c ;; rm_addin p a (T 2)
      else ru_laddmul (T 0) (L b) (L c) (L a) ;; rm_reduc_wide a (T 0).

    (* ---- mod (rmdiv.h): div_r(a.Value, get_ruint(b), get_ruint(c)); get_ready(a)       mod(a,b) = the same with b := a, c := b
       get_ruint(x): MGI return x.Value (a copy)      MGA rmint ap(x); return reduction(ap).Value
       get_ready(a): MGI mod_n(a.Value, a.p)          MGA to_mg(a) *)
    Definition rm_get_ruint (t x : loc) : M unit := ru_copy t (L x) ;; when mg (rmg_reduc t (L t)).
    Definition rm_get_ready (a : loc) : M unit := if mg then rmg_to_mg a a else ru_modn a (L a) (K p).
    Definition rm_mod (a b c : loc) : M unit :=
      rm_get_ruint (T 3) b ;; rm_get_ruint (T 4) c ;; ru_divr a (L (T 3)) (L (T 4)) ;; rm_get_ready a.
    Definition rm_modin (a b : loc) : M unit := rm_mod a a b.

    (* ---- rmbexp.h / rmgexp.h, exponent a native unsigned word e
       MGI exp(a,b,e): exp_mod(a.Value, b.Value, e, a.p)
       MGA exp(a,b,e): UDItype exp = e; rmint x; copy(x, b); copy(a.Value, r);
                       while (exp != 0) { if (exp & 1) mul(a, a, x); mul(x, x, x); exp = exp >> 1; }   (64 bits = fuel) *)
    Fixpoint rmg_exp_loop (fuel : nat) (a x : loc) (e : Z) : M unit :=
      match fuel with
      | O => skip
      | S f => if e =? 0 then skip
               else when (Z.odd e) (rm_mul a a x) ;; rm_mul x x x ;; rmg_exp_loop f a x (e / 2)
      end.
    Definition rm_exp (e : Z) (a b : loc) : M unit :=
      if mg then ru_copy (T 6) (L b) ;; ru_copy a (K r) ;; rmg_exp_loop 64 a (T 6) e
      else ru_expmod a (L b) e (K p).

    (* ---- rmbexp.h / rmgexp.h, exponent a ruint<K> c: an OBJECT (location c; exp(a, b, a.Value) is a legal call)
       MGI exp(a,b,c): exp_mod(a.Value, b.Value, c, a.p)
       MGA exp(a,b,c0), 16-entry window table (nl = NBLIMB<K>::value limbs, from the top; 16 windows per limb, from the top):
           const ruint<K> c(c0);                                          (the repair: rm_expw; without it: rm_expw_old)
           pointers_list(originalTab, c);                                 (pointers INTO c: the limbs are read in the loop)
           copy(g[0].Value, r); for (i=1;i<16;i++) mul(g[i], g[i-1], b);
           copy(a.Value, r);
           for (i = nl-1; i > 0; i--) { exp = **tab;
               for (j = NB_WIN-1; j >= 0; j--) { mul(a, a, g[(exp >> (j<<2)) & mask]); square(a,a) x 4 }  tab--; }
           exp = **tab;
           for (j = NB_WIN-1; j > 0; j--) { mul(a, a, g[(exp >> (j<<2)) & mask]); square(a,a) x 4 }
           mul(a, a, g[exp & mask]);
       `exp = **tab` is the load of limb i of the object c AT THAT MOMENT: load c, then limb_of. *)
    Fixpoint rmg_table (n : nat) (b : loc) : M unit :=               (* for (i = 1; i <= n; i++) mul(g[i], g[i-1], b) *)
      match n with
      | O => skip
      | S k => rmg_table k b ;; rm_mul (G (S k)) (G k) b
      end.
    Definition rmg_win (a : loc) (x : Z) (j : nat) : M unit :=
      rm_mul a a (G (win_of x j)) ;; rm_square a a ;; rm_square a a ;; rm_square a a ;; rm_square a a.
    Fixpoint rmg_wins (n : nat) (a : loc) (x : Z) : M unit :=        (* for (j = n-1; j >= 0; j--) *)
      match n with
      | O => skip
      | S j => rmg_win a x j ;; rmg_wins j a x
      end.
    Fixpoint rmg_wins1 (n : nat) (a : loc) (x : Z) : M unit :=       (* for (j = n; j > 0; j--) *)
      match n with
      | O => skip
      | S j => rmg_win a x (S j) ;; rmg_wins1 j a x
      end.
    Fixpoint rmg_limbs (n : nat) (a c : loc) : M unit :=             (* for (i = n; i > 0; i--) { exp = **tab; ...; tab--; } *)
      match n with
      | O => skip
      | S i => v <- load c ;; rmg_wins NB_WIN a (limb_of v (S i)) ;; rmg_limbs i a c
      end.
    Definition rmg_expw_body (nl : nat) (a b c : loc) : M unit :=
      ru_copy (G 0) (K r) ;;
      rmg_table 15 b ;;
      ru_copy a (K r) ;;
      rmg_limbs (nl - 1) a c ;;
      v <- load c ;;
      rmg_wins1 (NB_WIN - 1) a (limb_of v 0) ;;
      rm_mul a a (G (win_of (limb_of v 0) 0)).
    Definition rm_expw (nl : nat) (a b c : loc) : M unit :=
      if mg then ru_copy (T 50) (L c) ;; rmg_expw_body nl a b (T 50)
      else ru_expmod_l a (L b) (L c) (K p).
    Definition rm_expw_old (nl : nat) (a b c : loc) : M unit :=
      if mg then rmg_expw_body nl a b c
      else ru_expmod_l a (L b) (L c) (K p).

    (* ---- rmbrmint.h / rmgrmint.h: the local rmint built from a native word w (T n):
       MGI unsigned: Value(b) { mod_n(Value, p); }     signed: Value(|b|) { mod_n(Value, p); if (b < 0) neg( *this); }
       MGA unsigned: Value(b) { to_mg( *this); }       signed: Value(|b|) { mod_n(Value, p); if (b < 0) sub(Value, p, Value); to_mg( *this); }
       w < 0: the signed constructor; w >= 0: the unsigned one (the signed one differs, for w >= 0 in MGA, by a
       mod_n before to_mg which does not change the value left) *)
    Definition rm_of_word (t : loc) (w : Z) : M unit :=
      if mg then
        if w <? 0 then stor t (- w) ;; ru_modn t (L t) (K p) ;; ru_sub W t (K p) (L t) ;; rmg_to_mg t t
        else stor t w ;; rmg_to_mg t t
      else
        if w <? 0 then stor t (- w) ;; ru_modn t (L t) (K p) ;; rm_negin p t
        else stor t w ;; ru_modn t (L t) (K p).

    (* native-word overloads: rmint cp(c); then the rmint/rmint form
       (rmadd.h inlines the body of add after building cp / bp: the same statements) *)
    Definition rm_add_w (w : Z) (a b : loc) : M unit := rm_of_word (T 5) w ;; rm_add p a b (T 5).
    Definition rm_sub_w (w : Z) (a b : loc) : M unit := rm_of_word (T 5) w ;; rm_sub p a b (T 5).
    Definition rm_mul_w (w : Z) (a b : loc) : M unit := rm_of_word (T 5) w ;; rm_mul a b (T 5).
    Definition rm_div_w (w : Z) (a b : loc) : M unit := rm_of_word (T 5) w ;; rm_div a b (T 5).
    Definition rm_mod_w (w : Z) (a b : loc) : M unit := rm_of_word (T 5) w ;; rm_mod a b (T 5).
    Definition rm_inv_w (w : Z) (a : loc) : M unit := rm_of_word (T 5) w ;; rm_inv a (T 5).
    Definition rm_addin_w (w : Z) (a : loc) : M unit := rm_of_word (T 5) w ;; rm_addin p a (T 5).
    Definition rm_subin_w (w : Z) (a : loc) : M unit := rm_of_word (T 5) w ;; rm_subin p a (T 5).
    Definition rm_mulin_w (w : Z) (a : loc) : M unit := rm_of_word (T 5) w ;; rm_mul a a (T 5).    (* mul(a, a, br) *)
    Definition rm_divin_w (w : Z) (a : loc) : M unit := rm_of_word (T 5) w ;; rm_div a a (T 5).    (* div(a, a, br) *)
    Definition rm_modin_w (w : Z) (a : loc) : M unit := rm_of_word (T 5) w ;; rm_mod a a (T 5).    (* mod(a, a, br) *)
    Definition rm_addmul_w (w : Z) (a b : loc) : M unit := rm_of_word (T 5) w ;; rm_addmul a b (T 5).
  End Rmint.

  (* ================================================================ rudiv.h *)
  (* div(q,r,a,b), generic: UDItype d; ruint<K+1> aa; ruint<K> bb; normalization(d, b); left_shift(aa, a, d);
     left_shift(bb, b, d); div_2_1(q, r, aa.High, aa.Low, bb); right_shift(r, r, d) *)
  Definition rd_div_generic (q r a b : loc) : M unit :=
    d <- ru_normalization (L b) ;;
    ru_lshift_wide (T 20) (L a) d ;;
    ru_lshift (T 21) (L b) d ;;
    ru_div_2_1 q r (T 20) (T 21) ;;
    ru_rshift r (L r) d.
  (* one limb: udiv_qrnd(q.Value, r.Value, a.Value, b.Value):  sdiv x{a/b, a%b}; q = x.quot; r = x.rem; *)
  Definition rd_udiv_qrnd (q r a b : loc) : M unit :=
    x <- load a ;; y <- load b ;; stor q (x / y) ;; stor r (x mod y).
  (* a seeded breaking change:  q = a / b; r = a % b;  *)
  Definition rd_udiv_qrnd_seeded (q r a b : loc) : M unit :=
    (x <- load a ;; y <- load b ;; stor q (x / y)) ;;
    (x <- load a ;; y <- load b ;; stor r (x mod y)).
  Definition rd_div (one_limb : bool) (q r a b : loc) : M unit :=
    if one_limb then rd_udiv_qrnd q r a b else rd_div_generic q r a b.

  (* div_q(q,a,b): ruint<K> r; div(q, r, a, b)          div_r(r,a,b): ruint<K> q; div(q, r, a, b) *)
  Definition rd_div_q (one_limb : bool) (q a b : loc) : M unit := rd_div one_limb q (T 22) a b.
  Definition rd_div_r (one_limb : bool) (r a b : loc) : M unit := rd_div one_limb (T 23) r a b.
  (* div_q(q, a, T b): ruint<K> r, bb(b); div(q, r, a, bb) *)
  Definition rd_div_q_w (one_limb : bool) (w : Z) (q a : loc) : M unit :=
    stor (T 24) w ;; rd_div one_limb q (T 22) a (T 24).
  (* div(q, T& r, a, T b): if (b == 2) { bool z; right_shift_1(z, q, a); r = z ? 1 : 0; }
                           else { ruint<K> bb(b), rr; div(q, rr, a, bb); r = static_cast<T>(rr); }
     the native word r is the value returned *)
  Definition rd_div_w (one_limb : bool) (w : Z) (q a : loc) : M Z :=
    if w =? 2 then z <- ru_rshift1 q (L a) ;; ret (if z then 1 else 0)
    else stor (T 24) w ;; rd_div one_limb q (T 25) a (T 24) ;; load (T 25).
  (* div_r(T& r, a, T b): ruint<K> q; div(q, r, a, b) *)
  Definition rd_div_r_w (one_limb : bool) (w : Z) (a : loc) : M Z := rd_div_w one_limb w (T 23) a.
End RecIntMore.

(* ================================================================== Z-level wrappers for extraction *)
(* operation numbers of rm_op  (w = the native word of the word overloads, the exponent of exp)
   the destination is only written ("pure destination"):
     0 add(a,b,c)  1 sub(a,b,c)  2 neg(a,b)  3 mul(a,b,c)  4 square(a,b)  5 inv(a,b)  6 div(a,b,c)  7 mod(a,b,c)
     8 exp(a,b,w)  9 add(a,b,T w)  10 sub(a,b,T w)  11 mul(a,b,T w)  12 div(a,b,T w)  13 mod(a,b,T w)  14 inv(a,T w)
   the destination is also read ("in place"):
     15 add(a,b)  16 sub(a,b)  17 neg(a)  18 mul(a,b)  19 square(a)  20 inv(a)  21 div(a,b)  22 mod(a,b)
     23 addmul(a,b,c)  24 add(a,T w)  25 sub(a,T w)  26 mul(a,T w)  27 div(a,T w)  28 mod(a,T w)  29, 31.. addmul(a,b,T w)
   30 exp(a,b,const ruint<K>& c): the destination is only written; the exponent is the OBJECT at the third position
      (nl = nlimbs W limbs)
   positions: a = the destination (first location), b, c = the second and third *)
Definition rm_op (mg : bool) (W p p1 r : Z) (w : Z) (op : nat) : op4 :=
  match op with
  | 0 => lift3 (rm_add W p) | 1 => lift3 (rm_sub W p) | 2 => lift2 (rm_neg W p)
  | 3 => lift3 (rm_mul W mg p p1) | 4 => lift2 (rm_square W mg p p1) | 5 => lift2 (rm_inv W mg p p1)
  | 6 => lift3 (rm_div W mg p p1) | 7 => lift3 (rm_mod W mg p p1) | 8 => lift2 (rm_exp W mg p p1 r w)
  | 9 => lift2 (rm_add_w W mg p w) | 10 => lift2 (rm_sub_w W mg p w) | 11 => lift2 (rm_mul_w W mg p p1 w)
  | 12 => lift2 (rm_div_w W mg p p1 w) | 13 => lift2 (rm_mod_w W mg p p1 w) | 14 => lift1 (rm_inv_w W mg p p1 w)
  | 15 => lift2 (rm_addin W p) | 16 => lift2 (rm_subin W p) | 17 => lift1 (rm_negin W p)
  | 18 => lift2 (rm_mulin W mg p p1) | 19 => lift1 (rm_squarein W mg p p1) | 20 => lift1 (rm_invin W mg p p1)
  | 21 => lift2 (rm_divin W mg p p1) | 22 => lift2 (rm_modin W mg p p1) | 23 => lift3 (rm_addmul W mg p p1)
  | 24 => lift1 (rm_addin_w W mg p w) | 25 => lift1 (rm_subin_w W mg p w) | 26 => lift1 (rm_mulin_w W mg p p1 w)
  | 27 => lift1 (rm_divin_w W mg p p1 w) | 28 => lift1 (rm_modin_w W mg p p1 w)
  | 30 => lift3 (rm_expw W mg p p1 r (nlimbs W))
  | _ => lift2 (rm_addmul_w W mg p p1 w)
  end%nat.

(* run an rmint operation: result = final values of the four position objects [r; a; b; c].
   op = 100: the sub(a,b,c) body before 58e2703 (to run the model against an unrepaired tree)
   op = 101: exp(a,b,const ruint<K>& c) of MGA without the copy of the exponent (rm_expw_old) *)
Definition run_rm (mg : bool) (W p p1 r : Z) (op : nat) (ir ia ib ic : positive) (vr va vb vc : Z) (w : Z) : list Z :=
  let f := if Nat.eqb op 100 then lift3 (rm_sub_old W p)
           else if Nat.eqb op 101 then lift3 (rm_expw_old W mg p p1 r (nlimbs W))
           else rm_op mg W p p1 r w op in
  dump4 (exec (f (U ir) (U ia) (U ib) (U ic)) (mk4 ir ia ib ic vr va vb vc)) ir ia ib ic.
(* exp(a, b, const ruint<K>& c) of rmint<K,MGA> with an explicit number of limbs: positions r (destination), a (base),
   e (exponent object); old = true: the body without the copy of the exponent.  Result = final values of [r; a; e] *)
Definition run_rm_expw (old : bool) (W p p1 r : Z) (nl : nat) (ir ia ie : positive) (vr va ve : Z) : list Z :=
  let h0 := upd (upd (upd (fun _ => 0) (U ie) ve) (U ia) va) (U ir) vr in
  let c := if old then rm_expw_old W true p p1 r nl (U ir) (U ia) (U ie)
           else rm_expw W true p p1 r nl (U ir) (U ia) (U ie) in
  let h := exec c h0 in [h (U ir); h (U ia); h (U ie)].

(* div(q,r,a,b): result = final values of [q; r; a; b] *)
Definition run_rudiv (one_limb : bool) (W : Z) (iq ir ia ib : positive) (vq vr va vb : Z) : list Z :=
  dump4 (exec (rd_div W one_limb (U iq) (U ir) (U ia) (U ib)) (mk4 iq ir ia ib vq vr va vb)) iq ir ia ib.
(* the other entry points of rudiv.h, positions (x, y, a, b) = (iq, ir, ia, ib):
   op 0 div(q=x, r=y, a, b)    1 div_q(x, a, b)    2 div_r(x, a, b)    3 div_q(x, a, T vb)
      4 div(x, T& r, a, T vb): the word r is appended to the result    5 div_r(T& r, a, T vb): r appended
      6.. the seeded udiv_qrnd body (q = a / b; r = a % b;)
   result = final values of [x; y; a; b] (++ [r] for 4 and 5) *)
Definition run_rudiv_op (op : nat) (one_limb : bool) (W : Z) (iq ir ia ib : positive) (vq vr va vb : Z) : list Z :=
  let h0 := mk4 iq ir ia ib vq vr va vb in
  let fin (c : M unit) := dump4 (exec c h0) iq ir ia ib in
  match op with
  | 0 => fin (rd_div W one_limb (U iq) (U ir) (U ia) (U ib))
  | 1 => fin (rd_div_q W one_limb (U iq) (U ia) (U ib))
  | 2 => fin (rd_div_r W one_limb (U iq) (U ia) (U ib))
  | 3 => fin (rd_div_q_w W one_limb vb (U iq) (U ia))
  | 4 => let '(rw, h) := rd_div_w W one_limb vb (U iq) (U ia) h0 in dump4 h iq ir ia ib ++ [rw]
  | 5 => let '(rw, h) := rd_div_r_w W one_limb vb (U ia) h0 in dump4 h iq ir ia ib ++ [rw]
  | _ => fin (rd_udiv_qrnd_seeded (U iq) (U ir) (U ia) (U ib))
  end%nat.
