(* C15 — destination may alias an operand.   Executable model, part 4: RecInt shifts and long multiplication, one
   recursion level deep (rushift.h left_shift, rumul.h lmul_naive / lmul_kara).   No proofs in this file.

   Same imperative core as Model.v.  A ruint<K> object is built from two ruint<K-1> halves (ruruint.h: members High, Low):
   here a PAIR of locations (High, Low); two ruint<K> objects are the same object or disjoint, so that  b == a  means
   b.High == a.High and b.Low == a.Low.  The caller's object q is  Ru q = (U q~1, U q~0); a local ruint<K> is a pair of T n.
   Wh = 2^hb is the size of a half, hb = NBBITS<K-1>::value its number of bits.
   The body at level K is modelled statement by statement; the functions it calls on halves (level K-1) are atomic
   exact steps: they read all their operands, then write their destination(s).

   Locals (T n) used here:  70 ahd   71 the temporary (a.Low >> defect) of the seeded body
     72,73 blcl (High, Low)   74,75 bcmid (High, Low)   76 bb   77 cc   78,79 bc (High, Low) *)
From Coq Require Import ZArith List Bool.
From C15 Require Import Model.
Import ListNotations.
Local Open Scope Z_scope.

Definition ru2 := (loc * loc)%type.
Definition Ru (q : positive) : ru2 := (U (xI q), U (xO q)).
Definition hi (x : ru2) : loc := fst x.
Definition lo (x : ru2) : loc := snd x.

Section Halves.
  Variable Wh : Z.          (* 2^NBBITS<K-1> *)

  (* ---------------------------------------------------------------- steps on halves (level K-1), atomic *)
  Definition h_copy (r a : loc) : M unit := x <- load a ;; stor r x.
  Definition h_reset (r : loc) : M unit := stor r 0.
  (* left_shift(r, a, d) / right_shift(r, a, d) at level K-1 (d >= 0; a shift by the width or more leaves 0) *)
  Definition h_lshift (r a : loc) (d : Z) : M unit := x <- load a ;; stor r ((x * 2 ^ d) mod Wh).
  Definition h_rshift (r a : loc) (d : Z) : M unit := x <- load a ;; stor r (x / 2 ^ d).
  (* r |= a *)
  Definition h_orin (r a : loc) : M unit := v <- load r ;; x <- load a ;; stor r (Z.lor v x).
  (* left_shift_1(z, r, a): r = a << 1, z = the lost bit *)
  Definition h_lshift1 (r a : loc) : M bool := x <- load a ;; stor r ((2 * x) mod Wh) ;; ret (Wh <=? 2 * x).
  (* set_lowest_bit(r) *)
  Definition h_setlow (r : loc) : M unit := v <- load r ;; stor r (Z.lor v 1).
  (* add(z, r, a, b): r = a + b, z = the carry;   add(z, r, a) = add(z, r, r, a);   add_1(z, r) *)
  Definition h_addc (r a b : loc) : M bool :=
    x <- load a ;; y <- load b ;; stor r ((x + y) mod Wh) ;; ret (Wh <=? x + y).
  (* add(r, k) with a small native k *)
  Definition h_addk (r : loc) (k : Z) : M unit := v <- load r ;; stor r ((v + k) mod Wh).
  (* the wide forms: a ruint<K> seen as High|Low *)
  Definition wide (h : store) (x : ru2) : Z := h (hi x) * Wh + h (lo x).
  Definition w_store (x : ru2) (v : Z) : M unit := stor (lo x) (v mod Wh) ;; stor (hi x) ((v / Wh) mod Wh).
  (* lmul(a, b, c) at level K-1: a.High|a.Low = b * c *)
  Definition w_lmul (a : ru2) (b c : loc) : M unit := x <- load b ;; y <- load c ;; w_store a (x * y).
  (* laddmul(z, a, b, c, d) with d a ruint<K>: (z, a) = b c + d;  laddmul(a, b, c, d) with d a half: a = b c + d *)
  Definition w_laddmul_c (a : ru2) (b c : loc) (d : ru2) : M bool :=
    x <- load b ;; y <- load c ;; dh <- load (hi d) ;; dl <- load (lo d) ;;
    w_store a (x * y + (dh * Wh + dl)) ;; ret (Wh <=? (x * y + (dh * Wh + dl)) / Wh).
  Definition w_laddmul (a : ru2) (b c d : loc) : M unit :=
    x <- load b ;; y <- load c ;; z <- load d ;; w_store a (x * y + z).
  (* add_1(a) on a ruint<K> *)
  Definition w_add1 (a : ru2) : M unit := ah <- load (hi a) ;; al <- load (lo a) ;; w_store a (ah * Wh + al + 1).
  (* sub(z, a, b) on ruint<K>: a -= b, z = the borrow *)
  Definition w_subc (a b : ru2) : M bool :=
    ah <- load (hi a) ;; al <- load (lo a) ;; bh <- load (hi b) ;; bl <- load (lo b) ;;
    w_store a (ah * Wh + al - (bh * Wh + bl)) ;; ret (ah * Wh + al <? bh * Wh + bl).

  (* ---------------------------------------------------------------- rushift.h: left_shift(b, a, d), ruint<K>, K above a limb
       const DItype defect(NBBITS<K-1> - d);
       if (d == 0) copy(b, a);                                  (copy: if (&a == &b) return; copy(High); copy(Low))
       else if (d == 1) left_shift_1(b, a);                     (bool z, zl; left_shift_1(z, b.High, a.High);
                                                                 left_shift_1(zl, b.Low, a.Low); if (zl) set_lowest_bit(b.High))
       else if (UDItype(d) > NBBITS<K>) reset(b);               (reset(b.High); reset(b.Low))
       else if (defect > 0) { ruint<K-1> ahd; left_shift(ahd, a.High, d); right_shift(b.High, a.Low, defect);
                              b.High |= ahd; left_shift(b.Low, a.Low, d); }
       else if (defect < 0) { left_shift(b.High, a.Low, -defect); reset(b.Low); }
       else { copy(b.High, a.Low); reset(b.Low); }
     seeded = true: the change C15-m1 (seeded/C15-m1/patch.diff) of the branch defect > 0:
              left_shift(b.Low, a.Low, d); left_shift(b.High, a.High, d); b.High |= (a.Low >> defect); *)
  Definition ru_left_shift_gen (seeded : bool) (hb : Z) (d : Z) (b a : ru2) : M unit :=
    let defect := hb - d in
    if d =? 0 then
      (if loc_eqb (hi b) (hi a) then skip else h_copy (hi b) (hi a) ;; h_copy (lo b) (lo a))
    else if d =? 1 then
      h_lshift1 (hi b) (hi a) ;; zl <- h_lshift1 (lo b) (lo a) ;; when zl (h_setlow (hi b))
    else if 2 * hb <? d then h_reset (hi b) ;; h_reset (lo b)
    else if 0 <? defect then
      (if seeded then
         h_lshift (lo b) (lo a) d ;; h_lshift (hi b) (hi a) d ;;
         h_rshift (T 71) (lo a) defect ;; h_orin (hi b) (T 71)
       else
         h_lshift (T 70) (hi a) d ;; h_rshift (hi b) (lo a) defect ;; h_orin (hi b) (T 70) ;; h_lshift (lo b) (lo a) d)
    else if defect <? 0 then h_lshift (hi b) (lo a) (- defect) ;; h_reset (lo b)
    else h_copy (hi b) (lo a) ;; h_reset (lo b).
  Definition ru_left_shift : Z -> Z -> ru2 -> ru2 -> M unit := ru_left_shift_gen false.
  Definition ru_left_shift_m1 : Z -> Z -> ru2 -> ru2 -> M unit := ru_left_shift_gen true.

  (* ---------------------------------------------------------------- rumul.h: lmul_naive(ah, al, b, c)   ("this function is safe,
     ah|al is correctly computed even if b, c are really ah or al")
       bool rmid, rlow; ruint<K> bcmid, blcl;
       lmul_naive(blcl, b.Low, c.Low);
       lmul_naive(bcmid, b.High, c.Low);  laddmul(rmid, bcmid, b.Low, c.High, bcmid);
       laddmul(ah, b.High, c.High, bcmid.High);
       copy(al.Low, blcl.Low);  add(rlow, al.High, blcl.High, bcmid.Low);
       if (rlow) add_1(ah);  if (rmid) add_1(rmid, ah.High); *)
  Definition BLCL : ru2 := (T 72, T 73).
  Definition BCMID : ru2 := (T 74, T 75).
  Definition ru_lmul_naive (ah al b c : ru2) : M unit :=
    w_lmul BLCL (lo b) (lo c) ;;
    w_lmul BCMID (hi b) (lo c) ;;
    rmid <- w_laddmul_c BCMID (lo b) (hi c) BCMID ;;
    w_laddmul ah (hi b) (hi c) (hi BCMID) ;;
    h_copy (lo al) (lo BLCL) ;;
    rlow <- h_addc (hi al) (hi BLCL) (lo BCMID) ;;
    when rlow (w_add1 ah) ;;
    when rmid (h_addk (hi ah) 1).

  (* ---------------------------------------------------------------- rumul.h: lmul_kara(ah, al, b, c)   ("FIXME NOT safe - if al or ah
     is the variable than b or c, then pb")
       ruint<K-1> bb, cc; ruint<K> bc; bool rb, rc, r, rt1 = false, rt2 = false, rt3, rt4, rt5, rt6;
       add(rb, bb, b.High, b.Low);  add(rc, cc, c.High, c.Low);
       lmul(ah, b.High, c.High);  lmul(al, b.Low, c.Low);  lmul(bc, bb, cc);
       if (rb) add(rt1, bc.High, cc);  if (rc) add(rt2, bc.High, bb);
       sub(rt3, bc, ah);  sub(rt4, bc, al);
       r = (rb&rc)+rt1+rt2-rt3-rt4;
       add(rt5, al.High, bc.Low);  if (rt5) add_1(ah);
       add(rt6, ah.Low, bc.High);  if (rt6 || r) add(ah.High, rt6 + r); *)
  Definition BC : ru2 := (T 78, T 79).
  Definition b2z (b : bool) : Z := if b then 1 else 0.
  Definition ru_lmul_kara (ah al b c : ru2) : M unit :=
    rb <- h_addc (T 76) (hi b) (lo b) ;;
    rc <- h_addc (T 77) (hi c) (lo c) ;;
    w_lmul ah (hi b) (hi c) ;;
    w_lmul al (lo b) (lo c) ;;
    w_lmul BC (T 76) (T 77) ;;
    rt1 <- (if rb then h_addc (hi BC) (hi BC) (T 77) else ret false) ;;
    rt2 <- (if rc then h_addc (hi BC) (hi BC) (T 76) else ret false) ;;
    rt3 <- w_subc BC ah ;;
    rt4 <- w_subc BC al ;;
    let r := negb (b2z (rb && rc) + b2z rt1 + b2z rt2 - b2z rt3 - b2z rt4 =? 0) in      (* r is a bool *)
    rt5 <- h_addc (hi al) (hi al) (lo BC) ;;
    when rt5 (w_add1 ah) ;;
    rt6 <- h_addc (lo ah) (lo ah) (hi BC) ;;
    when (rt6 || r) (h_addk (hi ah) (b2z rt6 + b2z r)).
End Halves.

(* ------------------------------------------------------------------ Z-level wrappers for extraction
   positions are object indices (equal index = same object); values are (High, Low) *)
Definition mkru (i : positive) (vh vl : Z) (h : store) : store := upd (upd h (lo (Ru i)) vl) (hi (Ru i)) vh.
Definition dumpru (h : store) (i : positive) : list Z := [h (hi (Ru i)); h (lo (Ru i))].
(* left_shift(b, a, d): result = [b.High; b.Low; a.High; a.Low]; seeded = the C15-m1 body *)
Definition run_rushift (seeded : bool) (Wh hb d : Z) (ib ia : positive) (bh bl ah al : Z) : list Z :=
  let h0 := mkru ib bh bl (mkru ia ah al (fun _ => 0)) in
  let h := exec (ru_left_shift_gen Wh seeded hb d (Ru ib) (Ru ia)) h0 in dumpru h ib ++ dumpru h ia.
(* lmul_naive / lmul_kara (ah, al, b, c): result = the (High, Low) of ah, al, b, c *)
Definition run_rulmul (kara : bool) (Wh : Z) (iah ial ib ic : positive)
                      (ahh ahl alh all bh bl ch cl : Z) : list Z :=
  let h0 := mkru iah ahh ahl (mkru ial alh all (mkru ib bh bl (mkru ic ch cl (fun _ => 0)))) in
  let f := if kara then ru_lmul_kara else ru_lmul_naive in
  let h := exec (f Wh (Ru iah) (Ru ial) (Ru ib) (Ru ic)) h0 in
  dumpru h iah ++ dumpru h ial ++ dumpru h ib ++ dumpru h ic.
