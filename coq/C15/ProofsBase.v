(* C15 proofs, part 1: what is proved of an operation, and the symbolic-execution tactic.

   An operation of the model takes LOCATIONS.  The caller's objects are  U p ; which of them coincide is
   simply which positives are equal, so a statement quantified over all positives covers every alias pattern
   (r=a, r=b, r=c, a=b, all equal, ...).

   Reference call ("fresh destination"): destination U 1, operands U 2, U 3, U 4 — four distinct objects.
     fresh op g va vb vc  = the value left in the destination by that call when the destination initially
                            holds g and the operands hold va, vb, vc.

   Pure_dest op : for EVERY store and EVERY choice of locations r a b c (equal or not) and every g,
                  the value left in r equals  fresh op g (h a) (h b) (h c):
                  same value as with a distinct destination, whatever the destination held before.
   Inplace op   : the same for the forms that also read r (axpyin, addin, ...): g is the value of r.
   Frame op     : no caller object other than the destination changes. *)
From Coq Require Import ZArith List Bool Lia.
From C15 Require Import Model.
Import ListNotations.
Local Open Scope Z_scope.

Definition fresh (op : op4) (g va vb vc : Z) : Z :=
  exec (op (U 1) (U 2) (U 3) (U 4)) (mk4 1 2 3 4 g va vb vc) (U 1).

Definition Pure_dest (op : op4) : Prop :=
  forall (h : store) (r a b c : positive) (g : Z),
    exec (op (U r) (U a) (U b) (U c)) h (U r) = fresh op g (h (U a)) (h (U b)) (h (U c)).

Definition Inplace (op : op4) : Prop :=
  forall (h : store) (r a b c : positive),
    exec (op (U r) (U a) (U b) (U c)) h (U r) = fresh op (h (U r)) (h (U a)) (h (U b)) (h (U c)).

Definition Frame (op : op4) : Prop :=
  forall (h : store) (r a b c l : positive), l <> r ->
    exec (op (U r) (U a) (U b) (U c)) h (U l) = h (U l).

(* consequences in the words of the property *)
Lemma pure_dest_alias_independent : forall op, Pure_dest op ->
  forall h h' r a b c r' a' b' c',
    h (U a) = h' (U a') -> h (U b) = h' (U b') -> h (U c) = h' (U c') ->
    exec (op (U r) (U a) (U b) (U c)) h (U r) = exec (op (U r') (U a') (U b') (U c')) h' (U r').
Proof.
  intros op H h h' r a b c r' a' b' c' Ea Eb Ec.
  rewrite (H h r a b c 0), (H h' r' a' b' c' 0), Ea, Eb, Ec. reflexivity.
Qed.

Lemma inplace_alias_independent : forall op, Inplace op ->
  forall h h' r a b c r' a' b' c',
    h (U r) = h' (U r') -> h (U a) = h' (U a') -> h (U b) = h' (U b') -> h (U c) = h' (U c') ->
    exec (op (U r) (U a) (U b) (U c)) h (U r) = exec (op (U r') (U a') (U b') (U c')) h' (U r').
Proof.
  intros op H h h' r a b c r' a' b' c' Er Ea Eb Ec.
  rewrite (H h r a b c), (H h' r' a' b' c'), Er, Ea, Eb, Ec. reflexivity.
Qed.

(* ------------------------------------------------------------------ tactics *)
(* decide, for every two location variables in the context, whether they are the same object *)
Ltac split_locs :=
  repeat match goal with
         | x : positive, y : positive |- _ =>
           lazymatch goal with
           | _ : x <> y |- _ => fail
           | _ : y <> x |- _ => fail
           | _ => idtac
           end;
           destruct (Pos.eq_dec x y) as [->|?]
         end.

Ltac pos_facts :=
  rewrite ?Pos.eqb_refl;
  repeat match goal with
         | H : ?x <> ?y |- context [Pos.eqb ?x ?y] => rewrite (proj2 (Pos.eqb_neq x y) H)
         | H : ?x <> ?y |- context [Pos.eqb ?y ?x] => rewrite (proj2 (Pos.eqb_neq y x) (not_eq_sym H))
         end.

(* destruct a condition that is itself free of conditionals *)
Ltac split_cond :=
  match goal with
  | |- context [if ?c then _ else _] =>
    lazymatch c with
    | Pos.eqb _ _ => fail
    | context [if _ then _ else _] => fail
    | context [match _ with _ => _ end] => fail
    | _ => destruct c eqn:?
    end
  end.

(* a stuck  let '(x, y) := e in ...  on an uninterpreted function of the operand values (gcdext) *)
Ltac split_pair :=
  match goal with
  | |- context [match ?e with pair _ _ => _ end] =>
    lazymatch e with
    | context [if _ then _ else _] => fail
    | context [match _ with _ => _ end] => fail
    | _ => destruct e
    end
  end.

(* symbolic execution: unfold the whole model (not the uninterpreted value functions invmod, gcdext, redc, nor Z
   arithmetic), decide location tests, split the conditions on operand values *)
Ltac run :=
  cbv [fresh exec value bind ret load stor rd upd when skip fst snd mk4 dump4 mkq dumpq lift3 lift2 lift1 loc_eqb Nat.eqb
       rat Rat num den
       ru_copy ru_reset ru_add ru_addc ru_sub ru_mul ru_lmul ru_addmul ru_modn ru_invmod ru_lt ru_ge ru_is0
       mr_mul mr_sub mr_add mr_neg mr_inv mr_mulin mr_div mr_divin mr_addin mr_subin mr_negin mr_invin
       mr_axpy mr_axpyin mr_maxpy mr_axmy mr_maxpyin mr_axmyin
       mg_reduc mg_mul mg_mulin mg_sub mg_add mg_neg mg_inv mg_div mg_divin mg_addin mg_subin mg_negin mg_invin
       mg_axpy mg_axpyin mg_maxpy mg_maxpyin mg_axmy mg_axmyin
       I_set I_add I_sub I_mul I_neg I_mod I_addmul I_submul I_invert I_powm I_is0 I_neg0 I_gcdext I_tdiv_qr
       I_fdiv_qr I_cdiv_qr
       Int_axpyin Int_maxpyin Int_negin Int_axmyin Int_axpy Int_maxpy Int_axmy Int_gcd5 Int_gcd4 Int_divmod
       Int_divmod_w Int_powmod
       mi_mul mi_sub mi_add mi_neg mi_negin mi_inv mi_div mi_mulin mi_divin mi_addin mi_subin mi_invin
       mi_axpy mi_axpyin mi_axmy mi_maxpy mi_maxpyin mi_axmyin
       Q_neg Q_negin Q_invin Q_inv Rat_pluseq_body Rat_pluseq
       mr_op mg_op mi_op int_op].
Ltac step := run; cbn [Pos.eqb]; pos_facts; cbv iota.
Ltac solve_op := step; repeat (first [split_cond | split_pair]; step); try reflexivity.

(* what remains when the code takes a different route for an aliased destination (the &res == &b tests of the
   Integer fused forms): the two routes compute the same integer *)
Ltac bool_hyps :=
  repeat match goal with
         | H : _ || _ = true |- _ => apply orb_true_iff in H; destruct H
         | H : _ || _ = false |- _ => apply orb_false_iff in H; destruct H
         | H : _ && _ = true |- _ => apply andb_true_iff in H; destruct H
         | H : (_ =? _) = true |- _ => apply Z.eqb_eq in H
         | H : (_ =? _) = false |- _ => apply Z.eqb_neq in H
         end.
Ltac fin := try reflexivity; bool_hyps; try (f_equal; nia); try nia.

(* ------------------------------------------------------------------ the ring interface as a family of operations
   operation numbers of Model.mr_op / mg_op / mi_op:
   0 add 1 sub 2 mul 3 div 4 neg 5 inv 6 axpy 7 axmy 8 maxpy            (destination is only written)
   9 axpyin 10 axmyin 11 maxpyin 12 addin 13 subin 14 mulin 15 divin 16 negin 17.. invin   (destination is also read) *)
Definition Ring_alias_free (f : nat -> op4) : Prop :=
  (forall n, (n <= 8)%nat -> Pure_dest (f n)) /\
  (forall n, (9 <= n)%nat -> Inplace (f n)) /\
  (forall n, Frame (f n)).
Ltac cases_nat k n := lazymatch k with O => idtac | S ?k' => destruct n as [|n]; [ | cases_nat k' n ] end.
Ltac each_op n := cases_nat 18%nat n; try lia.
