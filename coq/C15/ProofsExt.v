(* C15 proofs, part 5: Extension<BaseField> and the remaining Poly1Dom entry points (ModelExt.v).
   For every store and every choice of locations (every alias pattern) the value left in each destination is the
   value of the call on distinct objects, a function of the operand VALUES only; no other caller object changes. *)
From Coq Require Import ZArith List Bool Lia.
From C15 Require Import Model ProofsBase ModelPoly ProofsPoly ModelExt.
Import ListNotations.
Local Open Scope Z_scope.

Ltac erun :=
  cbv [freshP pexec pbind pret pload pstor pupd pskip pmk4 pmk5 loc_eqb Nat.eqb fst snd orb
       V_assign V_add V_sub V_neg V_addin V_subin V_negin V_div V_reversein V_mul_body V_sqr_body V_reverse_copy
       P_mul P_sqr P_reverse P_mulin P_axpy P_axmy P_maxpy P_axpyin P_maxpyin P_axmyin P_divmod P_mod poly_op
       V_copy V_zero V_const V_leadcoef V_iszero V_divsc V_mulsc_in V_modin V_invmod V_modin_k V_invmod_k
       E_add E_sub E_neg E_mul E_inv E_div E_addin E_subin E_negin E_axpy
       E_maxpy_body E_maxpyin_body E_axmy_body E_maxpy E_maxpyin E_axmy E_axmyin E_mulin E_invin E_divin E_axpyin
       E_maxpy_byref E_maxpyin_byref E_axmy_byref E_axmyin_byref ext_op ext_op_byref
       DMI_body P_divmodin P_divmodin_unguarded P_divin P_modin P_divsc
       V_pdivmod_body P_pdivmod V_pmod_body P_pmod P_pmod_unguarded P_add_sc P_sub_sc P_sc_sub
       X_step X_gcd_body P_gcdx P_gcdx_unguarded L_body P_lcm P_lcm_unguarded
       PW_odd PW_sq PW_body P_powmod polyB_op pmodv].
Ltac estep := repeat (progress (erun; cbn [Pos.eqb]; pos_facts; cbv iota)).
Ltac esolve := estep; repeat (first [split_cond | split_pair]; estep); rewrite ?strip0_idem, ?strip0_pdivv; try reflexivity.

(* ================================================================== Extension<BaseField> *)
Definition Ext_alias_free (p : Z) (irred : poly) : Prop :=
  (forall n, (n <= 8)%nat -> Pure_destP (ext_op p irred n)) /\
  (forall n, (9 <= n)%nat -> InplaceP (ext_op p irred n)) /\
  (forall n, FrameP (ext_op p irred n)).

Lemma ext_pure : forall p irred n, (n <= 8)%nat -> Pure_destP (ext_op p irred n).
Proof. intros p irred n Hn h r a b c g. each_op n; split_locs; esolve. Qed.
Lemma ext_inplace : forall p irred n, (9 <= n)%nat -> InplaceP (ext_op p irred n).
Proof. intros p irred n Hn h r a b c. each_op n; split_locs; esolve. Qed.
Lemma ext_frame : forall p irred n, FrameP (ext_op p irred n).
Proof. intros p irred n h r a b c l N. each_op n; split_locs; esolve. Qed.
Lemma ext_alias_free : forall p irred, Ext_alias_free p irred.
Proof. intros. split; [|split]; intros; [apply ext_pure|apply ext_inplace|apply ext_frame]; assumption. Qed.

(* the values left by the calls on distinct objects are the genuine ones *)
Lemma fresh_ext_mul_value : forall p irred g a b c,
  freshP (ext_op p irred 2) g a b c = pmodv p (strip0 p (pmulv p a b)) irred.
Proof. intros. esolve. Qed.
Lemma fresh_ext_axmy_value : forall p irred g a b c,
  freshP (ext_op p irred 7) g a b c = strip0 p (psubv p (pmodv p (strip0 p (pmulv p a b)) irred) c).
Proof. intros. esolve. Qed.
Lemma fresh_ext_div_value : forall p irred g a b c,
  freshP (ext_op p irred 3) g a b c = pmodv p (strip0 p (pmulv p a (pinvmodv p b irred))) irred.
Proof. intros. esolve. Qed.

(* seeded change C15-m6 (operands of axmy by const reference): over GF(7)[X]/(X^2+1), axmy(r,a,b,r) returns 0 *)
Lemma ext_axmy_byref_refuted : ~ Pure_destP (ext_op_byref 7 [1; 0; 1] 7).
Proof.
  intro H. specialize (H (pst [(1%positive, [3; 4]); (2%positive, [2; 1]); (3%positive, [5; 6])])
                         1%positive 2%positive 3%positive 1%positive []).
  vm_compute in H. discriminate H.
Qed.
Example ext_axmy_byvalue_example :
  let h := pst [(1%positive, [3; 4]); (2%positive, [2; 1]); (3%positive, [5; 6])] in
  pexec (ext_op 7 [1; 0; 1] 7 (U 1) (U 2) (U 3) (U 1)) h (U 1) = [1; 6] /\
  freshP (ext_op 7 [1; 0; 1] 7) [] (h (U 2)) (h (U 3)) (h (U 1)) = [1; 6] /\
  pexec (ext_op_byref 7 [1; 0; 1] 7 (U 1) (U 2) (U 3) (U 1)) h (U 1) = [].
Proof. vm_compute. repeat split. Qed.
Example ext_alias_example :      (* div(r,a,r) and invin(r) over GF(7)[X]/(X^2+1) *)
  let h := pst [(1%positive, [2; 1]); (2%positive, [6; 4])] in
  pexec (ext_op 7 [1; 0; 1] 3 (U 1) (U 2) (U 1) (U 1)) h (U 1) = [6; 6] /\
  pexec (ext_op 7 [1; 0; 1] 17 (U 1) (U 1) (U 1) (U 1)) h (U 1) = [6; 4].
Proof. vm_compute. repeat split. Qed.

(* ================================================================== normal forms
   strip0 only looks at the coefficients modulo p: used where a guard copies an OPERAND with assign (which
   normalises) before the body runs — divmodin (Bt), gcd (At, Bt), powmod (Ut) *)
Definition ceq (p : Z) (a b : poly) : Prop := forall i, nth i a 0 mod p = nth i b 0 mod p.

Lemma nth_nil0 : forall i, nth i (@nil Z) 0 = 0.
Proof. destruct i; reflexivity. Qed.

Lemma ceq_strip0 : forall p a, ceq p (strip0 p a) a.
Proof.
  intros p a. induction a as [|c r IH]; intro i; [reflexivity|].
  rewrite strip0_cons. destruct (strip0 p r) as [|c' r'] eqn:E.
  - destruct i as [|j].
    + destruct (Z.eqb_spec (c mod p) 0) as [e|e]; cbn [nth]; [rewrite e; apply Zmod_0_l | apply Zmod_mod].
    + specialize (IH j). rewrite nth_nil0 in IH. cbn [nth]. rewrite <- IH.
      destruct (c mod p =? 0); destruct j; reflexivity.
  - destruct i as [|j]; cbn [nth]; [apply Zmod_mod | apply (IH j)].
Qed.

Lemma strip0_zero : forall p a, (forall i, nth i a 0 mod p = 0) -> strip0 p a = [].
Proof.
  intros p a. induction a as [|c r IH]; intro H; [reflexivity|].
  rewrite strip0_cons, IH by (intro i; apply (H (S i))).
  specialize (H 0%nat). cbn [nth] in H. rewrite H. reflexivity.
Qed.

Lemma ceq_strip0_eq : forall p a b, ceq p a b -> strip0 p a = strip0 p b.
Proof.
  intros p a. induction a as [|c r IH]; intros b H.
  - symmetry. apply strip0_zero. intro i. rewrite <- (H i), nth_nil0. apply Zmod_0_l.
  - destruct b as [|d s].
    + apply strip0_zero. intro i. rewrite (H i), nth_nil0. apply Zmod_0_l.
    + rewrite !strip0_cons. rewrite (IH s) by (intro i; apply (H (S i))).
      pose proof (H 0%nat) as H0. cbn [nth] in H0. rewrite H0. reflexivity.
Qed.

Lemma nth_paddv : forall p u v i, nth i (paddv p u v) 0 mod p = (nth i u 0 + nth i v 0) mod p.
Proof.
  intros p u. induction u as [|x u IH]; intros v i.
  - cbn [paddv]. rewrite nth_nil0. reflexivity.
  - destruct v as [|y v]; cbn [paddv].
    + rewrite nth_nil0, Z.add_0_r. reflexivity.
    + destruct i as [|j]; cbn [nth]; [apply Zmod_mod | apply IH].
Qed.

Lemma nth_pscal : forall p c b i, nth i (pscal p c b) 0 mod p = (c * nth i b 0) mod p.
Proof.
  intros p c b. unfold pscal. induction b as [|x b IH]; intro i.
  - cbn [map]. rewrite nth_nil0, Z.mul_0_r. reflexivity.
  - destruct i as [|j]; cbn [map nth]; [apply Zmod_mod | apply IH].
Qed.

Lemma ceq_paddv : forall p u u' v v', ceq p u u' -> ceq p v v' -> ceq p (paddv p u v) (paddv p u' v').
Proof.
  intros p u u' v v' Hu Hv i. rewrite !nth_paddv.
  rewrite Zplus_mod, (Hu i), (Hv i), <- Zplus_mod. reflexivity.
Qed.
Lemma ceq_pscal : forall p c b b', ceq p b b' -> ceq p (pscal p c b) (pscal p c b').
Proof.
  intros p c b b' H i. rewrite !nth_pscal. rewrite Zmult_mod, (H i), <- Zmult_mod. reflexivity.
Qed.
Lemma ceq_cons : forall p c l l', ceq p l l' -> ceq p (c :: l) (c :: l').
Proof. intros p c l l' H [|j]; cbn [nth]; [reflexivity | apply H]. Qed.

Lemma ceq_pmulv_r : forall p a b b', ceq p b b' -> ceq p (pmulv p a b) (pmulv p a b').
Proof.
  intros p a b b' H. induction a as [|x a IH]; [intro; reflexivity|].
  cbn [pmulv]. apply ceq_paddv; [apply ceq_pscal; exact H | apply ceq_cons; exact IH].
Qed.

Lemma strip0_pmulv_strip0_r : forall p a b, strip0 p (pmulv p a (strip0 p b)) = strip0 p (pmulv p a b).
Proof. intros. apply ceq_strip0_eq, ceq_pmulv_r, ceq_strip0. Qed.
Lemma pdivv_strip0_r : forall p a b, pdivv p a (strip0 p b) = pdivv p a b.
Proof. intros. unfold pdivv. rewrite strip0_idem. reflexivity. Qed.
Lemma pmodv_strip0_r : forall p a b, pmodv p a (strip0 p b) = pmodv p a b.
Proof. intros. unfold pmodv. rewrite pdivv_strip0_r, strip0_pmulv_strip0_r. reflexivity. Qed.
Lemma pdeg1_strip0 : forall p a, pdeg1 p (strip0 p a) = pdeg1 p a.
Proof. intros. unfold pdeg1. rewrite strip0_idem. reflexivity. Qed.
Lemma pz_strip0 : forall p a, pz p (strip0 p a) = pz p a.
Proof. intros. unfold pz. rewrite pdeg1_strip0. reflexivity. Qed.
Lemma pc_strip0 : forall p a, pc p (strip0 p a) = pc p a.
Proof. intros. unfold pc. rewrite pdeg1_strip0. reflexivity. Qed.
Lemma ple1_strip0 : forall p a, ple1 p (strip0 p a) = ple1 p a.
Proof. intros. unfold ple1. rewrite pdeg1_strip0. reflexivity. Qed.
Lemma pge_strip0 : forall p a b, pge p (strip0 p a) (strip0 p b) = pge p a b.
Proof. intros. unfold pge. rewrite !pdeg1_strip0. reflexivity. Qed.
Lemma leadv_strip0 : forall p a, leadv p (strip0 p a) = leadv p a.
Proof. intros. unfold leadv. rewrite strip0_idem. reflexivity. Qed.
Lemma xfuel_strip0 : forall p a b, xfuel p (strip0 p a) (strip0 p b) = xfuel p a b.
Proof. intros. unfold xfuel. rewrite !pdeg1_strip0. reflexivity. Qed.
Lemma strip0_pmodv : forall p a b, strip0 p (pmodv p a b) = pmodv p a b.
Proof. intros. unfold pmodv. apply strip0_idem. Qed.
Lemma strip0_pdivsc : forall p a c, strip0 p (pdivsc p a c) = pdivsc p a c.
Proof. intros. unfold pdivsc. apply strip0_idem. Qed.
Lemma strip0_pmulsc : forall p a c, strip0 p (pmulsc p a c) = pmulsc p a c.
Proof. intros. unfold pmulsc. apply strip0_idem. Qed.
Lemma strip0_pconst : forall p c, strip0 p (pconst p c) = pconst p c.
Proof. intros. unfold pconst. apply strip0_idem. Qed.
Ltac nrm := rewrite ?strip0_idem, ?strip0_pdivv, ?pdivv_strip0_r, ?strip0_pmulv_strip0_r, ?pz_strip0, ?pc_strip0,
                    ?ple1_strip0, ?pge_strip0, ?leadv_strip0, ?xfuel_strip0, ?strip0_pdivsc, ?strip0_pmulsc, ?strip0_pconst.

(* ================================================================== divmodin(Q,R,B): Q and R distinct objects, B any *)
Definition divmodin_val (p : Z) (r b : poly) : poly * poly :=
  (pdivv p r b, strip0 p (psubv p r (strip0 p (pmulv p (pdivv p r b) b)))).
Definition Poly_divmodin_alias_free : Prop :=
  forall p (h : pstore) (q r b : positive), q <> r ->
    let h' := pexec (P_divmodin p (U q) (U r) (U b)) h in
    (h' (U q), h' (U r)) = divmodin_val p (h (U r)) (h (U b)) /\
    (forall l, l <> q -> l <> r -> h' (U l) = h (U l)).
Lemma poly_divmodin_alias_free : Poly_divmodin_alias_free.
Proof.
  intros p h q r b N. cbv zeta. unfold divmodin_val. split.
  - split_locs; esolve; nrm; reflexivity.
  - intros l L1 L2. split_locs; esolve.
Qed.
(* without the guard: divmodin(Q,R,Q) over GF(101) *)
Lemma poly_divmodin_unguarded_refuted :
  exists (h : pstore) (q r b : positive), q <> r /\
    pexec (P_divmodin_unguarded 101 (U q) (U r) (U b)) h (U r) <> snd (divmodin_val 101 (h (U r)) (h (U b))).
Proof.
  exists (pst [(1%positive, [71; 31; 91; 2]); (2%positive, [66; 45; 76; 6; 3; 69; 1])]), 1%positive, 2%positive, 1%positive.
  split; [discriminate|]. vm_compute. discriminate.
Qed.
Example poly_divmodin_example :
  let h := pst [(1%positive, [71; 31; 91; 2]); (2%positive, [66; 45; 76; 6; 3; 69; 1])] in
  let h' := pexec (P_divmodin 101 (U 1) (U 2) (U 1)) h in (h' (U 1), h' (U 2)) = ([53; 2; 37; 51], [40; 78; 38]).
Proof. vm_compute. reflexivity. Qed.

(* ================================================================== the extended Euclid loop *)
Definition stl (f g s0 s1 t0 t1 : loc) (h : pstore) : xst := XS (h f) (h g) (h s0) (h s1) (h t0) (h t1).

Lemma pexec_load : forall B (l : loc) (k : poly -> PM B) h, pexec (pbind (pload l) k) h = pexec (k (h l)) h.
Proof. reflexivity. Qed.

Lemma V_iszero_run : forall p g h, V_iszero p g h = (pz p (h g), h).
Proof. reflexivity. Qed.

Section XLoop.
  Variable p : Z.
  Variables f g s0 s1 t0 t1 : loc.
  Variable keep : loc -> Prop.            (* the locations the loop body does not write *)
  Hypothesis step_spec : forall h, stl f g s0 s1 t0 t1 (pexec (X_step p f g s0 s1 t0 t1) h) = xstepv p (stl f g s0 s1 t0 t1 h).
  Hypothesis step_frame : forall h l, keep l -> pexec (X_step p f g s0 s1 t0 t1) h l = h l.

  Lemma X_loop_spec : forall n h,
    stl f g s0 s1 t0 t1 (pexec (X_loop p n f g s0 s1 t0 t1) h) = xloopv p n (stl f g s0 s1 t0 t1 h).
  Proof.
    induction n as [|n IH]; intro h; [reflexivity|].
    cbn [X_loop xloopv]. rewrite pexec_bind, V_iszero_run. cbn [fst snd].
    change (xG (stl f g s0 s1 t0 t1 h)) with (h g).
    destruct (pz p (h g)); [reflexivity|].
    rewrite pexec_bind, IH. f_equal. apply step_spec.
  Qed.
  Lemma X_loop_frame : forall n h l, keep l -> pexec (X_loop p n f g s0 s1 t0 t1) h l = h l.
  Proof.
    induction n as [|n IH]; intros h l K; [reflexivity|].
    cbn [X_loop]. rewrite pexec_bind, V_iszero_run. cbn [fst snd].
    destruct (pz p (h g)); [reflexivity|].
    rewrite pexec_bind, IH by exact K. apply step_frame. exact K.
  Qed.
End XLoop.

Ltac xstep_tac := intros; unfold stl, xstepv; cbn [xF xG xS0 xS1 xT0 xT1]; f_equal; esolve; nrm; try reflexivity.

(* instance of gcd(F,S0,T0,A,B): F, S0, T0 caller objects *)
Lemma xstep_gcd : forall p (f s t : positive) h, f <> s -> f <> t -> s <> t ->
  stl (U f) (T 43) (U s) (T 44) (U t) (T 46) (pexec (X_step p (U f) (T 43) (U s) (T 44) (U t) (T 46)) h)
  = xstepv p (stl (U f) (T 43) (U s) (T 44) (U t) (T 46) h).
Proof. xstep_tac. Qed.

Definition keepU (ex : list positive) (x : loc) : Prop := match x with U l => ~ In l ex | T _ => False end.
Ltac keep_facts :=
  repeat match goal with
         | K : keepU _ (T _) |- _ => contradiction K
         | K : keepU ?ex (U ?l) |- _ =>
           cbn [keepU In] in K;
           repeat match type of K with
                  | context [?x = l] =>
                    lazymatch goal with
                    | _ : l <> x |- _ => fail
                    | _ => assert (l <> x) by (intro; subst; apply K; tauto)
                    end
                  end;
           clear K
         end.
Lemma xstep_gcd_frame : forall p (f s t : positive) h l, keepU [f; s; t] l ->
  pexec (X_step p (U f) (T 43) (U s) (T 44) (U t) (T 46)) h l = h l.
Proof. intros p f s t h [l|n] K; keep_facts. esolve. Qed.

(* ================================================================== gcd(F,S0,T0,A,B) *)
Definition gcdx_val (p : Z) (x y : poly) : poly * poly * poly :=
  if pz p x || pc p y then (pmulsc p (strip0 p y) (invmod (leadv p y) p), [], pconst p (invmod (leadv p y) p))
  else if pz p y || pc p x then (pmulsc p (strip0 p x) (invmod (leadv p x) p), pconst p (invmod (leadv p x) p), [])
  else let s := xloopv p (xfuel p x y)
                  (XS (pdivsc p (strip0 p x) (leadv p x)) (pdivsc p (strip0 p y) (leadv p y))
                      (pconst p (invmod (leadv p x) p)) [] [] (pconst p (invmod (leadv p y) p))) in
       (xF s, xS0 s, xT0 s).
Lemma gcdx_val_strip0 : forall p x y, gcdx_val p (strip0 p x) (strip0 p y) = gcdx_val p x y.
Proof. intros. unfold gcdx_val. nrm. reflexivity. Qed.

(* the body after the guard: symbolic execution of the prefix, the loop by X_loop_spec *)
Ltac gcdx_body_script p f s t N1 N2 N3 :=
  cbv zeta; unfold X_gcd_body, gcdx_val; rewrite !pexec_load;
  match goal with |- context [if ?c then _ else _] => destruct c end;
  [ split; [|intros l L1 L2 L3]; esolve; nrm; reflexivity | ];
  match goal with |- context [if ?c then _ else _] => destruct c end;
  [ split; [|intros l L1 L2 L3]; esolve; nrm; reflexivity | ];
  rewrite !pexec_bind;
  match goal with |- context [pexec (X_loop p ?n _ _ _ _ _ _) ?hh] =>
    let H := fresh "H" in let n0 := fresh "n" in
    let E := fresh "E" in let EF := fresh "EF" in let ES := fresh "ES" in let ET := fresh "ET" in let EH := fresh "EH" in
    set (H := hh); set (n0 := n);
    pose proof (X_loop_spec p (U f) (T 43) (U s) (T 44) (U t) (T 46) (fun h0 => xstep_gcd p f s t h0 N1 N2 N3) n0 H) as E;
    pose proof (f_equal xF E) as EF; pose proof (f_equal xS0 E) as ES; pose proof (f_equal xT0 E) as ET;
    cbn [stl xF xS0 xT0] in EF, ES, ET;
    split;
    [ rewrite EF, ES, ET; clear E EF ES ET;
      match goal with |- (xF (xloopv p n0 ?st), _, _) = (xF (xloopv p n0 ?st'), _, _) =>
        assert (EH : st = st') by (unfold H, stl; f_equal; esolve; nrm; reflexivity) end;
      rewrite EH; reflexivity
    | let l := fresh "l" in let L1 := fresh "L" in let L2 := fresh "L" in let L3 := fresh "L" in
      intros l L1 L2 L3;
      rewrite (X_loop_frame p (U f) (T 43) (U s) (T 44) (U t) (T 46) (keepU [f; s; t]) (xstep_gcd_frame p f s t) n0 H (U l))
        by (cbn [keepU In]; intuition congruence);
      unfold H; esolve ]
  end.

Lemma gcdx_body_U : forall p h (f s t a b : positive),
  f <> s -> f <> t -> s <> t -> a <> f -> a <> s -> a <> t -> b <> f -> b <> s -> b <> t ->
  let h' := pexec (X_gcd_body p (U f) (U s) (U t) (U a) (U b)) h in
  (h' (U f), h' (U s), h' (U t)) = gcdx_val p (h (U a)) (h (U b)) /\ (forall l, l <> f -> l <> s -> l <> t -> h' (U l) = h (U l)).
Proof. intros p h f s t a b N1 N2 N3 A1 A2 A3 B1 B2 B3. gcdx_body_script p f s t N1 N2 N3. Qed.

Lemma gcdx_body_T : forall p h (f s t : positive), f <> s -> f <> t -> s <> t ->
  let h' := pexec (X_gcd_body p (U f) (U s) (U t) (T 41) (T 42)) h in
  (h' (U f), h' (U s), h' (U t)) = gcdx_val p (h (T 41)) (h (T 42)) /\ (forall l, l <> f -> l <> s -> l <> t -> h' (U l) = h (U l)).
Proof. intros p h f s t N1 N2 N3. gcdx_body_script p f s t N1 N2 N3. Qed.

(* F, S0, T0 pairwise distinct objects (three results); each of them may be A or B, and A may be B *)
Definition Poly_gcd_bezout_alias_free : Prop :=
  forall p (h : pstore) (f s t a b : positive), f <> s -> f <> t -> s <> t ->
    let h' := pexec (P_gcdx p (U f) (U s) (U t) (U a) (U b)) h in
    (h' (U f), h' (U s), h' (U t)) = gcdx_val p (h (U a)) (h (U b)) /\
    (forall l, l <> f -> l <> s -> l <> t -> h' (U l) = h (U l)).

Ltac neq_hyps :=
  repeat match goal with
         | H : _ || _ = false |- _ => apply orb_false_iff in H; destruct H
         | H : (_ =? _)%positive = false |- _ => apply Pos.eqb_neq in H
         end.

Lemma poly_gcd_bezout_alias_free : Poly_gcd_bezout_alias_free.
Proof.
  intros p h f s t a b N1 N2 N3. cbv zeta. unfold P_gcdx. cbn [loc_eqb].
  match goal with |- context [if ?c then _ else _] => destruct c eqn:G end.
  - do 2 rewrite pexec_bind.
    match goal with |- context [pexec (X_gcd_body _ _ _ _ _ _) ?hh] => set (H1 := hh) end.
    destruct (gcdx_body_T p H1 f s t N1 N2 N3) as [EV EFr].
    assert (E41 : H1 (T 41) = strip0 p (h (U a))) by (unfold H1; esolve).
    assert (E42 : H1 (T 42) = strip0 p (h (U b))) by (unfold H1; esolve).
    split.
    + rewrite EV, E41, E42. apply gcdx_val_strip0.
    + intros l L1 L2 L3. rewrite EFr by assumption. unfold H1. esolve.
  - neq_hyps. apply gcdx_body_U; auto.
Qed.

(* without the guard (the body run on the caller's objects): gcd(F,S,T,A,F) over GF(101) *)
Lemma poly_gcd_bezout_unguarded_refuted :
  exists (h : pstore) (f s t a b : positive), f <> s /\ f <> t /\ s <> t /\
    pexec (P_gcdx_unguarded 101 (U f) (U s) (U t) (U a) (U b)) h (U f) <> fst (fst (gcdx_val 101 (h (U a)) (h (U b)))).
Proof.
  exists (pst [(1%positive, [71; 31; 91; 1]); (2%positive, [66; 45; 76; 6; 3; 69; 1])]),
         2%positive, 3%positive, 4%positive, 1%positive, 2%positive.
  repeat (split; [discriminate|]). vm_compute. discriminate.
Qed.
Example poly_gcd_bezout_example :      (* P = (x-2)(x-3)(x-5), Q = (x-2)(x-3)(x-4)(x-6)(x-8)(x-9): gcd(P,Q,T,P,Q) *)
  let h := pst [(1%positive, [71; 31; 91; 1]); (2%positive, [66; 45; 76; 6; 3; 69; 1])] in
  let h' := pexec (P_gcdx 101 (U 1) (U 2) (U 3) (U 1) (U 2)) h in
  (h' (U 1), h' (U 2), h' (U 3)) = ([6; 96; 1], [72; 13; 15; 59], [42]).
Proof. vm_compute. reflexivity. Qed.

(* ================================================================== lcm(F,A,B) *)
Lemma xstep_lcmU : forall p (f : positive) h,
  stl (U f) (T 43) (T 52) (T 44) (T 53) (T 46) (pexec (X_step p (U f) (T 43) (T 52) (T 44) (T 53) (T 46)) h)
  = xstepv p (stl (U f) (T 43) (T 52) (T 44) (T 53) (T 46) h).
Proof. xstep_tac. Qed.
Lemma xstep_lcmU_frame : forall p (f : positive) h l, keepU [f] l ->
  pexec (X_step p (U f) (T 43) (T 52) (T 44) (T 53) (T 46)) h l = h l.
Proof. intros p f h [l|n] K; keep_facts. esolve. Qed.
Lemma xstep_lcmT : forall p h,
  stl (T 50) (T 43) (T 52) (T 44) (T 53) (T 46) (pexec (X_step p (T 50) (T 43) (T 52) (T 44) (T 53) (T 46)) h)
  = xstepv p (stl (T 50) (T 43) (T 52) (T 44) (T 53) (T 46) h).
Proof. xstep_tac. Qed.
Lemma xstep_lcmT_frame : forall p h l, keepU [] l ->
  pexec (X_step p (T 50) (T 43) (T 52) (T 44) (T 53) (T 46)) h l = h l.
Proof. intros p h [l|n] K; keep_facts. esolve. Qed.

Definition lcm_val (p : Z) (x y : poly) : poly :=
  if pz p x then [] else if pz p y then [] else if pc p y then strip0 p x else if pc p x then strip0 p y
  else
    let u := if pge p x y then x else y in
    let v := if pge p x y then y else x in
    let s := xloopv p (xfuel p x y)
               (XS (pdivsc p (strip0 p u) (leadv p u)) (pdivsc p (strip0 p v) (leadv p v))
                   (pconst p (invmod (leadv p u) p)) [] [] (pconst p (invmod (leadv p v) p))) in
    if ple1 p (xG s) then (if pge p x y then strip0 p (pmulv p (xS1 s) x) else strip0 p (pmulv p (xT1 s) x))
    else strip0 p (pmulv p x y).
Lemma strip0_lcm_val : forall p x y, strip0 p (lcm_val p x y) = lcm_val p x y.
Proof.
  intros. unfold lcm_val. cbv zeta.
  repeat match goal with |- context [if ?c then _ else _] => destruct c end; nrm; reflexivity.
Qed.

Ltac early_branch := match goal with |- context [if ?c then _ else _] => destruct c end; [ split; intros; esolve; nrm; reflexivity | ].
Ltac lcm_body_script p h F a b spec K frm :=
  cbv zeta; unfold L_body, lcm_val; rewrite !pexec_load;
  early_branch; early_branch; early_branch; early_branch;
  match goal with |- context [pge p ?x ?y] => destruct (pge p x y) end;
  rewrite !pexec_bind;
  match goal with |- context [snd (X_loop p ?n F ?g ?s0 ?s1 ?t0 ?t1 ?hh)] =>
    let H := fresh "H" in let n0 := fresh "n" in let H3 := fresh "H" in
    let E := fresh "E" in let EG := fresh "EG" in let ES := fresh "ES" in let ET := fresh "ET" in let EH := fresh "EH" in
    let Ea := fresh "Ea" in let Eb := fresh "Eb" in
    set (H := hh); set (n0 := n);
    pose proof (X_loop_spec p F g s0 s1 t0 t1 spec n0 H) as E;
    match type of E with _ = xloopv p n0 ?st =>
      match goal with |- context [xloopv p n0 ?st'] =>
        assert (EH : st = st') by (unfold H, stl; f_equal; esolve; nrm; reflexivity) end end;
    rewrite EH in E; clear EH;
    pose proof (f_equal xG E) as EG; pose proof (f_equal xS1 E) as ES; pose proof (f_equal xT1 E) as ET;
    cbn [stl xG xS1 xT1] in EG, ES, ET; clear E;
    assert (Ea : pexec (X_loop p n0 F g s0 s1 t0 t1) H (U a) = h (U a))
      by (rewrite (X_loop_frame p F g s0 s1 t0 t1 K frm n0 H (U a)) by (cbn [keepU In]; intuition congruence); unfold H; esolve);
    assert (Eb : pexec (X_loop p n0 F g s0 s1 t0 t1) H (U b) = h (U b))
      by (rewrite (X_loop_frame p F g s0 s1 t0 t1 K frm n0 H (U b)) by (cbn [keepU In]; intuition congruence); unfold H; esolve);
    split;
    [ unfold pexec in EG, ES, ET, Ea, Eb |- *;
      set (H3 := snd (X_loop p n0 F g s0 s1 t0 t1 H)) in *;
      change (fst (pload (T 43) H3)) with (H3 (T 43)); change (snd (pload (T 43) H3)) with H3;
      rewrite EG;
      match goal with |- context [if ?c then _ else _] => destruct c end;
      estep; rewrite ?ES, ?ET, ?Ea, ?Eb; reflexivity
    | intros;
      match goal with |- _ (U ?l) = _ =>
        let El := fresh "El" in let H3 := fresh "H" in
        assert (El : pexec (X_loop p n0 F g s0 s1 t0 t1) H (U l) = h (U l))
          by (rewrite (X_loop_frame p F g s0 s1 t0 t1 K frm n0 H (U l)) by (cbn [keepU In]; intuition congruence); unfold H; esolve);
        unfold pexec in El |- *;
        set (H3 := snd (X_loop p n0 F g s0 s1 t0 t1 H)) in *;
        change (fst (pload (T 43) H3)) with (H3 (T 43)); change (snd (pload (T 43) H3)) with H3;
        repeat match goal with |- context [if ?c then _ else _] => destruct c end;
        estep; exact El
      end ]
  end.

Lemma lcm_body_U : forall p h (f a b : positive), a <> f -> b <> f ->
  let h' := pexec (L_body p (U f) (U a) (U b)) h in
  h' (U f) = lcm_val p (h (U a)) (h (U b)) /\ (forall l, l <> f -> h' (U l) = h (U l)).
Proof.
  intros p h f a b A1 B1.
  lcm_body_script p h (U f) a b (xstep_lcmU p f) (keepU [f]) (xstep_lcmU_frame p f).
Qed.
Lemma lcm_body_T : forall p h (a b : positive),
  let h' := pexec (L_body p (T 50) (U a) (U b)) h in
  h' (T 50) = lcm_val p (h (U a)) (h (U b)) /\ (forall l, h' (U l) = h (U l)).
Proof.
  intros p h a b.
  lcm_body_script p h (T 50) a b (xstep_lcmT p) (keepU []) (xstep_lcmT_frame p).
Qed.

Definition Poly_lcm_alias_free : Prop :=
  forall p (h : pstore) (f a b : positive),
    let h' := pexec (P_lcm p (U f) (U a) (U b)) h in
    h' (U f) = lcm_val p (h (U a)) (h (U b)) /\ (forall l, l <> f -> h' (U l) = h (U l)).
Lemma poly_lcm_alias_free : Poly_lcm_alias_free.
Proof.
  intros p h f a b. cbv zeta. unfold P_lcm. cbn [loc_eqb].
  match goal with |- context [if ?c then _ else _] => destruct c eqn:G end.
  - rewrite pexec_bind.
    destruct (lcm_body_T p h a b) as [EV EFr]. unfold pexec in EV, EFr.
    set (H1 := snd (L_body p (T 50) (U a) (U b) h)) in *.
    split.
    + esolve. rewrite EV. apply strip0_lcm_val.
    + intros l L1. esolve. apply EFr.
  - neq_hyps. apply lcm_body_U; auto.
Qed.
(* without the guard: lcm(F,F,B) over GF(101) *)
Lemma poly_lcm_unguarded_refuted :
  exists (h : pstore) (f a b : positive),
    pexec (P_lcm_unguarded 101 (U f) (U a) (U b)) h (U f) <> lcm_val 101 (h (U a)) (h (U b)).
Proof.
  exists (pst [(1%positive, [71; 31; 91; 1]); (2%positive, [66; 45; 76; 6; 3; 69; 1])]), 1%positive, 1%positive, 2%positive.
  vm_compute. discriminate.
Qed.
Example poly_lcm_example :
  pexec (P_lcm 101 (U 1) (U 1) (U 2)) (pst [(1%positive, [71; 31; 91; 1]); (2%positive, [66; 45; 76; 6; 3; 69; 1])]) (U 1)
  = [78; 89; 70; 13; 26; 79; 62; 42].
Proof. vm_compute. reflexivity. Qed.

(* ================================================================== pdivmod(Q,R,m,A,B), pmod(R,m,A,B) *)
Ltac all_branches := repeat match goal with |- context [if ?c then _ else _] => destruct c end.
Lemma strip0_ppdq : forall p x y, strip0 p (ppdq p x y) = ppdq p x y.
Proof. intros. unfold ppdq, ppdivmodv. all_branches; cbn [fst snd]; nrm; reflexivity. Qed.
Lemma strip0_ppdr : forall p x y, strip0 p (ppdr p x y) = ppdr p x y.
Proof. intros. unfold ppdr, ppdivmodv. all_branches; cbn [fst snd]; rewrite ?strip0_pmodv; nrm; reflexivity. Qed.
Lemma strip0_ppmr : forall p x y, strip0 p (ppmr p x y) = ppmr p x y.
Proof.
  intros. unfold ppmr, ppmodv. all_branches; cbn [fst snd]; nrm; try reflexivity.
  destruct (ppmod_loop p (S (length x)) x y 1). cbn [fst]. apply strip0_idem.
Qed.

Definition Poly_pdivmod_alias_free : Prop :=
  forall p (h : pstore) (q r a b : positive), q <> r ->
    let res := P_pdivmod p (U q) (U r) (U a) (U b) h in
    (snd res (U q), snd res (U r), fst res) = (ppdq p (h (U a)) (h (U b)), ppdr p (h (U a)) (h (U b)), ppdm p (h (U a)) (h (U b))) /\
    (forall l, l <> q -> l <> r -> snd res (U l) = h (U l)).
Lemma poly_pdivmod_alias_free : Poly_pdivmod_alias_free.
Proof.
  intros p h q r a b N. cbv zeta. split.
  - split_locs; esolve; rewrite ?strip0_ppdq, ?strip0_ppdr; reflexivity.
  - intros l L1 L2. split_locs; esolve.
Qed.
Definition Poly_pmod_alias_free : Prop :=
  forall p (h : pstore) (r a b : positive),
    let res := P_pmod p (U r) (U a) (U b) h in
    (snd res (U r), fst res) = (ppmr p (h (U a)) (h (U b)), ppmm p (h (U a)) (h (U b))) /\
    (forall l, l <> r -> snd res (U l) = h (U l)).
Lemma poly_pmod_alias_free : Poly_pmod_alias_free.
Proof.
  intros p h r a b. cbv zeta. split.
  - split_locs; esolve; rewrite ?strip0_ppmr; reflexivity.
  - intros l L1. split_locs; esolve.
Qed.
Lemma poly_pmod_unguarded_refuted :
  exists (h : pstore) (r a b : positive),
    snd (P_pmod_unguarded 101 (U r) (U a) (U b) h) (U r) <> ppmr 101 (h (U a)) (h (U b)).
Proof.
  exists (pst [(1%positive, [71; 31; 91; 2]); (2%positive, [66; 45; 76; 6; 3; 69; 1])]), 1%positive, 2%positive, 1%positive.
  vm_compute. discriminate.
Qed.
Example poly_pdivmod_example :
  let h := pst [(1%positive, [71; 31; 91; 2]); (2%positive, [66; 45; 76; 6; 3; 69; 1])] in
  let res := P_pdivmod 101 (U 1) (U 2) (U 2) (U 1) h in
  (snd res (U 1), snd res (U 2), fst res) = ([40; 32; 87; 8], [34; 36; 2], 16) /\
  let res' := P_pmod 101 (U 1) (U 2) (U 1) h in (snd res' (U 1), fst res') = ([34; 36; 2], 16).
Proof. vm_compute. split; reflexivity. Qed.

(* ================================================================== single destination entry points: divin, modin, scalar forms *)
Lemma hd_nth0 : forall (l : poly), hd 0 l = nth 0 l 0.
Proof. destruct l; reflexivity. Qed.
Lemma hd_strip0_mod : forall p x, hd 0 (strip0 p x) mod p = hd 0 x mod p.
Proof. intros. rewrite !hd_nth0. apply ceq_strip0. Qed.
Lemma add_hd_strip0 : forall p x v, (hd 0 (strip0 p x) + v) mod p = (hd 0 x + v) mod p.
Proof. intros. rewrite Zplus_mod, hd_strip0_mod, <- Zplus_mod. reflexivity. Qed.
Lemma sub_hd_strip0 : forall p x v, (hd 0 (strip0 p x) - v) mod p = (hd 0 x - v) mod p.
Proof. intros. rewrite Zminus_mod, hd_strip0_mod, <- Zminus_mod. reflexivity. Qed.

Ltac bsolve := esolve; rewrite ?add_hd_strip0, ?sub_hd_strip0; nrm; try reflexivity.
Lemma polyB_pure_sc : forall p k n, In n [4; 5; 6; 7]%nat -> Pure_destP (polyB_op p k n).
Proof.
  intros p k n Hn h r a b c g. cbn [In] in Hn.
  repeat (destruct Hn as [<-|Hn]; [split_locs; bsolve|]). contradiction.
Qed.
Lemma polyB_inplace : forall p k n, In n [1; 2]%nat -> InplaceP (polyB_op p k n).
Proof.
  intros p k n Hn h r a b c. cbn [In] in Hn.
  repeat (destruct Hn as [<-|Hn]; [split_locs; bsolve|]). contradiction.
Qed.
Lemma polyB_frame_sc : forall p k n, In n [1; 2; 4; 5; 6; 7]%nat -> FrameP (polyB_op p k n).
Proof.
  intros p k n Hn h r a b c l N. cbn [In] in Hn.
  repeat (destruct Hn as [<-|Hn]; [split_locs; bsolve|]). contradiction.
Qed.

(* ================================================================== powmod(W,P,pwr,U) *)
Definition pw_oddv (p : Z) (W P Uv : poly) : poly := pmodv p (strip0 p (pmulv p W P)) Uv.
Definition pw_sqv (p : Z) (P Uv : poly) : poly := pmodv p (strip0 p (pmulv p P P)) Uv.
Fixpoint pw_loopv (p : Z) (e : positive) (W P Uv : poly) : poly * poly :=
  match e with
  | xH => (pw_oddv p W P Uv, pw_sqv p P Uv)
  | xO e' => pw_loopv p e' W (pw_sqv p P Uv) Uv
  | xI e' => pw_loopv p e' (pw_oddv p W P Uv) (pw_sqv p P Uv) Uv
  end.
Definition powmod_val (p : Z) (x : poly) (e : Z) (u : poly) : poly :=
  strip0 p (match e with
            | Z0 => pconst p 1
            | Zpos e' => fst (pw_loopv p e' (pconst p 1) (pmodv p x u) u)
            | Zneg e' => fst (pw_loopv p e' (pconst p 1) (pmodv p x u) u)
            end).
Lemma pw_loopv_strip0 : forall p e W P Uv, pw_loopv p e W P (strip0 p Uv) = pw_loopv p e W P Uv.
Proof.
  intros p e. induction e as [e IH|e IH|]; intros W P Uv; cbn [pw_loopv]; unfold pw_oddv, pw_sqv;
    rewrite ?pmodv_strip0_r, ?IH; reflexivity.
Qed.
Lemma powmod_val_strip0 : forall p x e u, powmod_val p x e (strip0 p u) = powmod_val p x e u.
Proof. intros. unfold powmod_val. destruct e; rewrite ?pw_loopv_strip0, ?pmodv_strip0_r; reflexivity. Qed.

Definition keep2 (ex : list positive) (x : loc) : Prop := x = T 63 \/ keepU ex x.

Section PWLoop.
  Variable p : Z.
  Variables w u : loc.
  Variable keep : loc -> Prop.
  Hypothesis Ku : keep u.
  Hypothesis odd_w : forall h, pexec (PW_odd p w u) h w = pw_oddv p (h w) (h (T 61)) (h u).
  Hypothesis odd_61 : forall h, pexec (PW_odd p w u) h (T 61) = h (T 61).
  Hypothesis odd_frame : forall h l, keep l -> pexec (PW_odd p w u) h l = h l.
  Hypothesis sq_61 : forall h, pexec (PW_sq p u) h (T 61) = pw_sqv p (h (T 61)) (h u).
  Hypothesis sq_w : forall h, pexec (PW_sq p u) h w = h w.
  Hypothesis sq_frame : forall h l, keep l -> pexec (PW_sq p u) h l = h l.

  Lemma PW_loop_spec : forall e h,
    (pexec (PW_loop p e w u) h w, pexec (PW_loop p e w u) h (T 61)) = pw_loopv p e (h w) (h (T 61)) (h u) /\
    (forall l, keep l -> pexec (PW_loop p e w u) h l = h l).
  Proof.
    induction e as [e IH|e IH|]; intro h; cbn [PW_loop pw_loopv]; rewrite ?pexec_bind.
    - set (h1 := snd (PW_odd p w u h)). set (h2 := snd (PW_sq p u h1)).
      assert (E1w : h1 w = pw_oddv p (h w) (h (T 61)) (h u)) by apply odd_w.
      assert (E161 : h1 (T 61) = h (T 61)) by apply odd_61.
      assert (E1u : h1 u = h u) by (apply odd_frame; exact Ku).
      assert (E2w : h2 w = h1 w) by apply sq_w.
      assert (E261 : h2 (T 61) = pw_sqv p (h1 (T 61)) (h1 u)) by apply sq_61.
      assert (E2u : h2 u = h1 u) by (apply sq_frame; exact Ku).
      destruct (IH h2) as [IV IF]. split.
      + rewrite IV, E2w, E261, E2u, E1w, E161, E1u. reflexivity.
      + intros l K. rewrite IF by exact K. transitivity (h1 l); [apply (sq_frame h1 l K) | apply (odd_frame h l K)].
    - set (h2 := snd (PW_sq p u h)).
      assert (E2w : h2 w = h w) by apply sq_w.
      assert (E261 : h2 (T 61) = pw_sqv p (h (T 61)) (h u)) by apply sq_61.
      assert (E2u : h2 u = h u) by (apply sq_frame; exact Ku).
      destruct (IH h2) as [IV IF]. split.
      + rewrite IV, E2w, E261, E2u. reflexivity.
      + intros l K. rewrite IF by exact K. apply (sq_frame h l K).
    - set (h1 := snd (PW_odd p w u h)).
      assert (E1w : h1 w = pw_oddv p (h w) (h (T 61)) (h u)) by apply odd_w.
      assert (E161 : h1 (T 61) = h (T 61)) by apply odd_61.
      assert (E1u : h1 u = h u) by (apply odd_frame; exact Ku).
      split.
      + rewrite (sq_w h1), (sq_61 h1), E1w, E161, E1u. reflexivity.
      + intros l K. rewrite (sq_frame h1 l K). apply (odd_frame h l K).
  Qed.
End PWLoop.

Ltac pw_facts :=
  intros; unfold pw_oddv, pw_sqv;
  try match goal with
      | K : keep2 _ _ |- _ => destruct K as [->|K]; [| match goal with l : loc |- _ => destruct l; keep_facts end]
      end;
  esolve; nrm; try reflexivity.

Lemma pw_loop_U : forall p (w u : positive), w <> u -> forall e h,
  (pexec (PW_loop p e (U w) (U u)) h (U w), pexec (PW_loop p e (U w) (U u)) h (T 61))
  = pw_loopv p e (h (U w)) (h (T 61)) (h (U u)) /\
  (forall l, keep2 [w] l -> pexec (PW_loop p e (U w) (U u)) h l = h l).
Proof.
  intros p w u N. apply PW_loop_spec with (keep := keep2 [w]).
  - right. cbn [keepU In]. intuition congruence.
  - pw_facts.
  - pw_facts.
  - pw_facts.
  - pw_facts.
  - pw_facts.
  - pw_facts.
Qed.
Lemma pw_loop_T : forall p (w : positive) e h,
  (pexec (PW_loop p e (U w) (T 63)) h (U w), pexec (PW_loop p e (U w) (T 63)) h (T 61))
  = pw_loopv p e (h (U w)) (h (T 61)) (h (T 63)) /\
  (forall l, keep2 [w] l -> pexec (PW_loop p e (U w) (T 63)) h l = h l).
Proof.
  intros p w. apply PW_loop_spec with (keep := keep2 [w]).
  - left. reflexivity.
  - pw_facts.
  - pw_facts.
  - pw_facts.
  - pw_facts.
  - pw_facts.
  - pw_facts.
Qed.

(* the body after the guard, U the caller's object (W is not U) or the local copy Ut *)
Ltac pw_body_script p h w a e LL uloc :=
  cbv zeta; unfold PW_body, powmod_val; do 3 rewrite pexec_bind;
  destruct e as [|e|e];
  [ split; intros; split_locs; esolve; nrm; reflexivity | | ];
  (match goal with |- context [snd (PW_loop p e (U w) uloc ?hh)] =>
     let H1 := fresh "H" in let H3 := fresh "H" in let LV := fresh "LV" in let LF := fresh "LF" in
     let Ew := fresh "Ew" in let E61 := fresh "E61" in let Eu := fresh "Eu" in
     set (H1 := hh);
     destruct (LL e H1) as [LV LF]; apply (f_equal fst) in LV; cbn [fst] in LV;
     assert (Ew : H1 (U w) = pconst p 1) by (unfold H1; esolve);
     assert (E61 : H1 (T 61) = pmodv p (h (U a)) (h uloc)) by (unfold H1; split_locs; esolve; nrm; reflexivity);
     assert (Eu : H1 uloc = h uloc) by (unfold H1; esolve);
     rewrite Ew, E61, Eu in LV;
     unfold pexec in LV, LF |- *;
     set (H3 := snd (PW_loop p e (U w) uloc H1)) in *;
     split;
     [ estep; rewrite LV; reflexivity
     | intros; estep;
       match goal with |- H3 (U ?l) = _ =>
         rewrite (LF (U l)) by (right; cbn [keepU In]; intuition congruence); unfold H1; esolve end ]
   end).

Lemma pw_body_U : forall p h (w a u : positive) e, w <> u ->
  let h' := pexec (PW_body p (U w) (U a) e (U u)) h in
  h' (U w) = powmod_val p (h (U a)) e (h (U u)) /\ (forall l, l <> w -> h' (U l) = h (U l)).
Proof.
  intros p h w a u e N. pw_body_script p h w a e (pw_loop_U p w u N) (U u).
Qed.
Lemma pw_body_T : forall p h (w a : positive) e,
  let h' := pexec (PW_body p (U w) (U a) e (T 63)) h in
  h' (U w) = powmod_val p (h (U a)) e (h (T 63)) /\ (forall l, l <> w -> h' (U l) = h (U l)).
Proof.
  intros p h w a e. pw_body_script p h w a e (pw_loop_T p w) (T 63).
Qed.

Definition Poly_powmod_alias_free : Prop :=
  forall p (h : pstore) (w a u : positive) (e : Z),
    let h' := pexec (P_powmod p (U w) (U a) e (U u)) h in
    h' (U w) = powmod_val p (h (U a)) e (h (U u)) /\ (forall l, l <> w -> h' (U l) = h (U l)).
Lemma poly_powmod_alias_free : Poly_powmod_alias_free.
Proof.
  intros p h w a u e. cbv zeta. unfold P_powmod. cbn [loc_eqb].
  destruct (Pos.eqb_spec w u) as [<-|N].
  - rewrite pexec_bind.
    set (H1 := snd (V_assign p (T 63) (U w) h)).
    destruct (pw_body_T p H1 w a e) as [EV EFr].
    assert (E63 : H1 (T 63) = strip0 p (h (U w))) by (unfold H1; esolve).
    assert (Ea : H1 (U a) = h (U a)) by (unfold H1; esolve).
    split.
    + rewrite EV, E63, Ea. apply powmod_val_strip0.
    + intros l L1. rewrite EFr by exact L1. unfold H1. esolve.
  - apply pw_body_U. exact N.
Qed.
Example poly_powmod_example :       (* powmod(U, P, 5, U) over GF(101) *)
  pexec (P_powmod 101 (U 1) (U 2) 5 (U 1)) (pst [(1%positive, [66; 45; 76; 1]); (2%positive, [3; 1])]) (U 1) = [54; 28; 87].
Proof. vm_compute. reflexivity. Qed.

(* ================================================================== the single destination entry points together
   ModelExt.polyB_op: 0 lcm 3 powmod 4 add(R,P,c) 5 sub(R,P,c) 6 sub(R,c,P) 7 div(R,P,c): destination only written;
   1 divin 2 modin: destination also read *)
Definition PolyB_alias_free (p k : Z) : Prop :=
  (forall n, In n [0; 3; 4; 5; 6; 7]%nat -> Pure_destP (polyB_op p k n)) /\
  (forall n, In n [1; 2]%nat -> InplaceP (polyB_op p k n)) /\
  (forall n, (n <= 7)%nat -> FrameP (polyB_op p k n)).

Lemma polyB_alias_free : forall p k, PolyB_alias_free p k.
Proof.
  intros p k. split; [|split].
  - intros n Hn. cbn [In] in Hn. destruct Hn as [<-|[<-|Hn]].
    + intros h r a b c g. unfold freshP. cbn [polyB_op].
      destruct (poly_lcm_alias_free p h r a b) as [E1 _].
      destruct (poly_lcm_alias_free p (pmk4 1 2 3 4 g (h (U a)) (h (U b)) (h (U c))) 1%positive 2%positive 3%positive) as [E2 _].
      cbv zeta in E1, E2. rewrite E1, E2. reflexivity.
    + intros h r a b c g. unfold freshP. cbn [polyB_op].
      destruct (poly_powmod_alias_free p h r a b k) as [E1 _].
      destruct (poly_powmod_alias_free p (pmk4 1 2 3 4 g (h (U a)) (h (U b)) (h (U c))) 1%positive 2%positive 3%positive k) as [E2 _].
      cbv zeta in E1, E2. rewrite E1, E2. reflexivity.
    + apply polyB_pure_sc. cbn [In]. tauto.
  - apply polyB_inplace.
  - intros n Hn. cases_nat 8%nat n; try lia.
    + intros h r a b c l N. apply (proj2 (poly_lcm_alias_free p h r a b)). exact N.
    + apply polyB_frame_sc. cbn [In]. tauto.
    + apply polyB_frame_sc. cbn [In]. tauto.
    + intros h r a b c l N. apply (proj2 (poly_powmod_alias_free p h r a b k)). exact N.
    + apply polyB_frame_sc. cbn [In]. tauto.
    + apply polyB_frame_sc. cbn [In]. tauto.
    + apply polyB_frame_sc. cbn [In]. tauto.
    + apply polyB_frame_sc. cbn [In]. tauto.
Qed.
Example polyB_scalar_example :       (* add(R,R,c), sub(R,c,R), div(R,R,c) over GF(101) *)
  let h := pst [(1%positive, [100; 45; 76])] in
  (pexec (polyB_op 101 1 4 (U 1) (U 1) (U 1) (U 1)) h (U 1), pexec (polyB_op 101 5 6 (U 1) (U 1) (U 1) (U 1)) h (U 1),
   pexec (polyB_op 101 2 7 (U 1) (U 1) (U 1) (U 1)) h (U 1)) = ([0; 45; 76], [6; 56; 25], [50; 73; 38]).
Proof. vm_compute. reflexivity. Qed.
Example polyB_divin_modin_example :       (* divin(R,A), modin(R,A), divin(R,R), modin(R,R) over GF(101) *)
  let h := pst [(1%positive, [66; 45; 76; 6; 3; 69; 1]); (2%positive, [71; 31; 91; 2])] in
  (pexec (polyB_op 101 0 1 (U 1) (U 2) (U 1) (U 1)) h (U 1), pexec (polyB_op 101 0 2 (U 1) (U 2) (U 1) (U 1)) h (U 1),
   pexec (polyB_op 101 0 1 (U 1) (U 1) (U 1) (U 1)) h (U 1), pexec (polyB_op 101 0 2 (U 1) (U 1) (U 1) (U 1)) h (U 1))
  = ([53; 2; 37; 51], [40; 78; 38], [1], []).
Proof. vm_compute. reflexivity. Qed.
