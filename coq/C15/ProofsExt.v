(* C15 proofs, part 5: Extension<BaseField> and the remaining Poly1Dom entry points (ModelExt.v).
   For every store and every choice of locations (every alias pattern) the value left in each destination is the
   value of the call on distinct objects, a function of the operand VALUES only; no other caller object changes. *)
From Coq Require Import ZArith List Bool Lia.
From C15 Require Import Model ProofsBase ModelPoly ProofsPoly ModelExt.
Import ListNotations.
Local Open Scope Z_scope.

(* ---- modin(A,B), the in place remainder round by round (ModelExt.pmodin_gen): modin(A,A) runs exactly one round — the
        sizes are equal, i = 0, and the loop variable only decreases — and that round reads the same cells whether B is the
        object A or a distinct object with the same value: the value is the one of the call on distinct objects *)
Lemma pmodin_self : forall p x, pmodin_gen p true x x = pmodin_gen p false x x.
Proof.
  intros p x. unfold pmodin_gen. rewrite Z.sub_diag. change (0 <? 0) with false. cbv iota.
  cbn [modin_loop]. change (0 <? 0) with false. cbv iota.
  rewrite rev_involutive, strip0_idem.
  destruct (modin_round p (rev (strip0 p x)) (rev (strip0 p x))) as [ra j].
  destruct (length (strip0 p x)) as [|n]; [reflexivity|].
  cbn [modin_loop].
  assert (E : (0 - Z.of_nat j - 1 <? 0) = true) by (apply Z.ltb_lt; lia).
  rewrite E. reflexivity.
Qed.
Lemma strip0_pmodin : forall p s a b, strip0 p (pmodin_gen p s a b) = pmodin_gen p s a b.
Proof.
  intros. unfold pmodin_gen. destruct (_ <? 0); [apply strip0_idem|].
  destruct (modin_loop _ _ _ _ _ _). apply strip0_idem.
Qed.
Lemma pmodin_strip0_r : forall p s a b, pmodin_gen p s a (strip0 p b) = pmodin_gen p s a b.
Proof. intros. unfold pmodin_gen. rewrite strip0_idem. reflexivity. Qed.

Ltac erun :=
  cbv [freshP pexec pbind pret pload pstor pupd pskip pmk4 pmk5 loc_eqb Nat.eqb fst snd orb
       V_assign V_add V_sub V_neg V_addin V_subin V_negin V_reversein V_mul_body V_sqr_body V_reverse_copy
       V_zero V_divsc V_coef0 V_resize V_reverse_copy_n V_invmodpowx_body V_multrunc P_reverse_n P_invmodpowx
       P_div_gen P_div
       P_mul P_sqr P_reverse P_mulin P_axpy P_axmy P_maxpy P_axpyin P_maxpyin P_axmyin P_divmod P_mod poly_op
       prd V_copy V_const V_assign_arg V_leadcoef V_iszero V_mulsc_in V_modin V_modin_k
       E_add E_sub E_neg E_mul E_inv E_div E_addin E_subin E_negin E_axpy
       E_maxpy_body E_maxpyin_body E_axmy_body E_maxpy E_maxpyin E_axmy E_axmyin E_mulin E_invin E_divin E_axpyin
       E_maxpy_byref E_maxpyin_byref E_axmy_byref E_axmyin_byref ext_op ext_op_byref
       DMI_body P_divmodin P_divmodin_unguarded P_divin P_modin P_divsc P_invmod_l
       V_pdivmod_body P_pdivmod V_pmod_body P_pmod P_pmod_unguarded P_add_sc P_sub_sc P_sc_sub
       X_head X_half X_step I_step P_invmod X_gcd_body P_gcdx P_gcdx_unguarded L_body P_lcm P_lcm_unguarded
       PW_odd PW_sq PW_body P_powmod polyB_op pmodinv].
Ltac estep := repeat (progress (erun; cbn [Pos.eqb]; pos_facts; cbv iota)).
(* the same with the value functions pmodv / pdivv opened: where a specification that mentions them is compared with
   an execution of P_div (the conditions of the three routes are then split on both sides together) *)
Ltac estepv := repeat (progress (erun; cbv [pmodv pdivv]; cbn [Pos.eqb]; pos_facts; cbv iota)).
(* a condition already decided may come back when a later statement reads the same operands again *)
Ltac use_conds :=
  repeat match goal with
         | H : ?c = true |- context [if ?c then _ else _] => rewrite H
         | H : ?c = false |- context [if ?c then _ else _] => rewrite H
         end.
Ltac econd := rewrite ?strip0_idem; repeat (progress (use_conds; estep; rewrite ?strip0_idem)).
Ltac econdv := rewrite ?strip0_idem; repeat (progress (use_conds; estepv; rewrite ?strip0_idem)).
Ltac esolve := estep; econd; repeat (first [split_cond | split_pair]; estep; econd);
               rewrite ?length_ptrunc, ?strip0_idem, ?strip0_pdivsc, ?strip0_pdivv, ?pmodin_self, ?strip0_pmodin; try reflexivity.
Ltac esolvev := estepv; econdv; repeat (first [split_cond | split_pair]; estepv; econdv);
                rewrite ?length_ptrunc, ?strip0_idem, ?strip0_pdivsc, ?strip0_pdivv, ?pmodin_self, ?strip0_pmodin; try reflexivity.

Lemma pexec_load : forall B (l : loc) (k : poly -> PM B) h, pexec (pbind (pload l) k) h = pexec (k (h l)) h.
Proof. reflexivity. Qed.
Lemma pexec_ret : forall A B (v : A) (k : A -> PM B) h, pexec (pbind (pret v) k) h = pexec (k v) h.
Proof. reflexivity. Qed.

(* ================================================================== normal forms
   strip0 only looks at the coefficients modulo p: used where a guard copies an OPERAND with assign (which
   normalises) before the body runs — divmodin (Bt), gcd (At, Bt), powmod (Ut) *)
Definition ceq (p : Z) (a b : poly) : Prop := forall i, nth i a 0 mod p = nth i b 0 mod p.

Lemma nth_nil0 : forall i, nth i (@nil Z) 0 = 0.
Proof. destruct i; reflexivity. Qed.

Lemma ceq_strip0 : forall p a, ceq p (strip0 p a) a.
Proof.
  intros p a. induction a as [|c r IH]; intro i; [reflexivity|].
  rewrite strip0_cons. destruct (strip0 p r) as [|c' r'] eqn:E.
  - destruct i as [|j].
    + destruct (Z.eqb_spec (c mod p) 0) as [e|e]; cbn [nth]; [rewrite e; apply Zmod_0_l | apply Zmod_mod].
    + specialize (IH j). rewrite nth_nil0 in IH. cbn [nth]. rewrite <- IH.
      destruct (c mod p =? 0); destruct j; reflexivity.
  - destruct i as [|j]; cbn [nth]; [apply Zmod_mod | apply (IH j)].
Qed.

Lemma strip0_zero : forall p a, (forall i, nth i a 0 mod p = 0) -> strip0 p a = [].
Proof.
  intros p a. induction a as [|c r IH]; intro H; [reflexivity|].
  rewrite strip0_cons, IH by (intro i; apply (H (S i))).
  specialize (H 0%nat). cbn [nth] in H. rewrite H. reflexivity.
Qed.

Lemma ceq_strip0_eq : forall p a b, ceq p a b -> strip0 p a = strip0 p b.
Proof.
  intros p a. induction a as [|c r IH]; intros b H.
  - symmetry. apply strip0_zero. intro i. rewrite <- (H i), nth_nil0. apply Zmod_0_l.
  - destruct b as [|d s].
    + apply strip0_zero. intro i. rewrite (H i), nth_nil0. apply Zmod_0_l.
    + rewrite !strip0_cons. rewrite (IH s) by (intro i; apply (H (S i))).
      pose proof (H 0%nat) as H0. cbn [nth] in H0. rewrite H0. reflexivity.
Qed.

Lemma nth_paddv : forall p u v i, nth i (paddv p u v) 0 mod p = (nth i u 0 + nth i v 0) mod p.
Proof.
  intros p u. induction u as [|x u IH]; intros v i.
  - cbn [paddv]. rewrite nth_nil0. reflexivity.
  - destruct v as [|y v]; cbn [paddv].
    + rewrite nth_nil0, Z.add_0_r. reflexivity.
    + destruct i as [|j]; cbn [nth]; [apply Zmod_mod | apply IH].
Qed.

Lemma nth_pscal : forall p c b i, nth i (pscal p c b) 0 mod p = (c * nth i b 0) mod p.
Proof.
  intros p c b. unfold pscal. induction b as [|x b IH]; intro i.
  - cbn [map]. rewrite nth_nil0, Z.mul_0_r. reflexivity.
  - destruct i as [|j]; cbn [map nth]; [apply Zmod_mod | apply IH].
Qed.

Lemma ceq_paddv : forall p u u' v v', ceq p u u' -> ceq p v v' -> ceq p (paddv p u v) (paddv p u' v').
Proof.
  intros p u u' v v' Hu Hv i. rewrite !nth_paddv.
  rewrite Zplus_mod, (Hu i), (Hv i), <- Zplus_mod. reflexivity.
Qed.
Lemma ceq_pscal : forall p c b b', ceq p b b' -> ceq p (pscal p c b) (pscal p c b').
Proof.
  intros p c b b' H i. rewrite !nth_pscal. rewrite Zmult_mod, (H i), <- Zmult_mod. reflexivity.
Qed.
Lemma ceq_cons : forall p c l l', ceq p l l' -> ceq p (c :: l) (c :: l').
Proof. intros p c l l' H [|j]; cbn [nth]; [reflexivity | apply H]. Qed.

Lemma ceq_pmulv_r : forall p a b b', ceq p b b' -> ceq p (pmulv p a b) (pmulv p a b').
Proof.
  intros p a b b' H. induction a as [|x a IH]; [intro; reflexivity|].
  cbn [pmulv]. apply ceq_paddv; [apply ceq_pscal; exact H | apply ceq_cons; exact IH].
Qed.

Lemma strip0_pmulv_strip0_r : forall p a b, strip0 p (pmulv p a (strip0 p b)) = strip0 p (pmulv p a b).
Proof. intros. apply ceq_strip0_eq, ceq_pmulv_r, ceq_strip0. Qed.
Lemma pdeg1_strip0 : forall p a, pdeg1 p (strip0 p a) = pdeg1 p a.
Proof. intros. unfold pdeg1. rewrite strip0_idem. reflexivity. Qed.
Lemma pz_strip0 : forall p a, pz p (strip0 p a) = pz p a.
Proof. intros. unfold pz. rewrite pdeg1_strip0. reflexivity. Qed.
Lemma pc_strip0 : forall p a, pc p (strip0 p a) = pc p a.
Proof. intros. unfold pc. rewrite pdeg1_strip0. reflexivity. Qed.
Lemma ple1_strip0 : forall p a, ple1 p (strip0 p a) = ple1 p a.
Proof. intros. unfold ple1. rewrite pdeg1_strip0. reflexivity. Qed.
Lemma pge_strip0 : forall p a b, pge p (strip0 p a) (strip0 p b) = pge p a b.
Proof. intros. unfold pge. rewrite !pdeg1_strip0. reflexivity. Qed.
Lemma pge_strip0_r : forall p a b, pge p a (strip0 p b) = pge p a b.
Proof. intros. unfold pge. rewrite pdeg1_strip0. reflexivity. Qed.
Lemma pdegx_strip0_r : forall p a b, pdegx p a (strip0 p b) = pdegx p a b.
Proof. intros. unfold pdegx. rewrite pdeg1_strip0. reflexivity. Qed.
Lemma pdivv_strip0_r : forall p a b, pdivv p a (strip0 p b) = pdivv p a b.
Proof. intros. unfold pdivv. rewrite pge_strip0_r, pc_strip0, pdegx_strip0_r, !strip0_idem. reflexivity. Qed.
Lemma pmodv_strip0_r : forall p a b, pmodv p a (strip0 p b) = pmodv p a b.
Proof. intros. unfold pmodv. rewrite pdivv_strip0_r, strip0_pmulv_strip0_r. reflexivity. Qed.
Lemma leadv_strip0 : forall p a, leadv p (strip0 p a) = leadv p a.
Proof. intros. unfold leadv. rewrite strip0_idem. reflexivity. Qed.
Lemma xfuel_strip0 : forall p a b, xfuel p (strip0 p a) (strip0 p b) = xfuel p a b.
Proof. intros. unfold xfuel. rewrite !pdeg1_strip0. reflexivity. Qed.
Lemma strip0_pmodv : forall p a b, strip0 p (pmodv p a b) = pmodv p a b.
Proof. intros. unfold pmodv. apply strip0_idem. Qed.
Lemma strip0_pmulsc : forall p a c, strip0 p (pmulsc p a c) = pmulsc p a c.
Proof. intros. unfold pmulsc. apply strip0_idem. Qed.
Lemma strip0_pconst : forall p c, strip0 p (pconst p c) = pconst p c.
Proof. intros. unfold pconst. apply strip0_idem. Qed.
Ltac nrm_r := rewrite ?strip0_idem, ?pge_strip0_r, ?pc_strip0, ?pdegx_strip0_r.
Ltac nrm := rewrite ?strip0_idem, ?strip0_pdivv, ?pdivv_strip0_r, ?strip0_pmulv_strip0_r, ?pz_strip0, ?pc_strip0,
                    ?ple1_strip0, ?pge_strip0, ?leadv_strip0, ?xfuel_strip0, ?strip0_pdivsc, ?strip0_pmulsc, ?strip0_pconst.

(* ================================================================== divmodin(Q,R,B): Q and R distinct objects, B any *)
Definition divmodin_val (p : Z) (r b : poly) : poly * poly :=
  (pdivv p r b, strip0 p (psubv p r (strip0 p (pmulv p (pdivv p r b) b)))).
Definition Poly_divmodin_alias_free : Prop :=
  forall p (h : pstore) (q r b : positive), q <> r ->
    let h' := pexec (P_divmodin p (U q) (U r) (U b)) h in
    (h' (U q), h' (U r)) = divmodin_val p (h (U r)) (h (U b)) /\
    (forall l, l <> q -> l <> r -> h' (U l) = h (U l)).
Lemma poly_divmodin_alias_free : Poly_divmodin_alias_free.
Proof.
  intros p h q r b N. cbv zeta. unfold divmodin_val. split.
  - split_locs; estepv; nrm_r; esolvev; nrm; reflexivity.
  - intros l L1 L2. split_locs; estep; nrm_r; esolve.
Qed.
(* without the guard: divmodin(Q,R,Q) over GF(101) *)
Lemma poly_divmodin_unguarded_refuted :
  exists (h : pstore) (q r b : positive), q <> r /\
    pexec (P_divmodin_unguarded 101 (U q) (U r) (U b)) h (U r) <> snd (divmodin_val 101 (h (U r)) (h (U b))).
Proof.
  exists (pst [(1%positive, [71; 31; 91; 2]); (2%positive, [66; 45; 76; 6; 3; 69; 1])]), 1%positive, 2%positive, 1%positive.
  split; [discriminate|]. vm_compute. discriminate.
Qed.
Example poly_divmodin_example :
  let h := pst [(1%positive, [71; 31; 91; 2]); (2%positive, [66; 45; 76; 6; 3; 69; 1])] in
  let h' := pexec (P_divmodin 101 (U 1) (U 2) (U 1)) h in (h' (U 1), h' (U 2)) = ([53; 2; 37; 51], [40; 78; 38]).
Proof. vm_compute. reflexivity. Qed.

(* ================================================================== the extended Euclid loop *)
Definition stl (f g s0 s1 t0 t1 : loc) (h : pstore) : xst := XS (h f) (h g) (h s0) (h s1) (h t0) (h t1).

Lemma V_iszero_run : forall p g h, V_iszero p g h = (pz p (h g), h).
Proof. reflexivity. Qed.

Section XLoop.
  Variable p : Z.
  Variables f g s0 s1 t0 t1 : loc.
  Variable keep : loc -> Prop.            (* the locations the loop body does not write *)
  Hypothesis step_spec : forall h, stl f g s0 s1 t0 t1 (pexec (X_step p f g s0 s1 t0 t1) h) = xstepv p (stl f g s0 s1 t0 t1 h).
  Hypothesis step_frame : forall h l, keep l -> pexec (X_step p f g s0 s1 t0 t1) h l = h l.

  Lemma X_loop_spec : forall n h,
    stl f g s0 s1 t0 t1 (pexec (X_loop p n f g s0 s1 t0 t1) h) = xloopv p n (stl f g s0 s1 t0 t1 h).
  Proof.
    induction n as [|n IH]; intro h; [reflexivity|].
    cbn [X_loop xloopv]. rewrite pexec_bind, V_iszero_run. cbn [fst snd].
    change (xG (stl f g s0 s1 t0 t1 h)) with (h g).
    destruct (pz p (h g)); [reflexivity|].
    rewrite pexec_bind, IH. f_equal. apply step_spec.
  Qed.
  Lemma X_loop_frame : forall n h l, keep l -> pexec (X_loop p n f g s0 s1 t0 t1) h l = h l.
  Proof.
    induction n as [|n IH]; intros h l K; [reflexivity|].
    cbn [X_loop]. rewrite pexec_bind, V_iszero_run. cbn [fst snd].
    destruct (pz p (h g)); [reflexivity|].
    rewrite pexec_bind, IH by exact K. apply step_frame. exact K.
  Qed.
End XLoop.

Ltac xstep_tac := intros; unfold stl, xstepv; cbn [xF xG xS0 xS1 xT0 xT1]; f_equal; esolvev; nrm; try reflexivity.

(* instance of gcd(F,S0,T0,A,B): F, S0, T0 caller objects *)
Lemma xstep_gcd : forall p (f s t : positive) h, f <> s -> f <> t -> s <> t ->
  stl (U f) (T 43) (U s) (T 44) (U t) (T 46) (pexec (X_step p (U f) (T 43) (U s) (T 44) (U t) (T 46)) h)
  = xstepv p (stl (U f) (T 43) (U s) (T 44) (U t) (T 46) h).
Proof. xstep_tac. Qed.

Definition keepU (ex : list positive) (x : loc) : Prop := match x with U l => ~ In l ex | T _ => False end.
Ltac keep_facts :=
  repeat match goal with
         | K : keepU _ (T _) |- _ => contradiction K
         | K : keepU ?ex (U ?l) |- _ =>
           cbn [keepU In] in K;
           repeat match type of K with
                  | context [?x = l] =>
                    lazymatch goal with
                    | _ : l <> x |- _ => fail
                    | _ => assert (l <> x) by (intro; subst; apply K; tauto)
                    end
                  end;
           clear K
         end.
Lemma xstep_gcd_frame : forall p (f s t : positive) h l, keepU [f; s; t] l ->
  pexec (X_step p (U f) (T 43) (U s) (T 44) (U t) (T 46)) h l = h l.
Proof. intros p f s t h [l|n] K; keep_facts. esolve. Qed.


(* ================================================================== invmod(S0,A,B): head + S half of the same body *)
Definition stl4 (f g s0 s1 : loc) (h : pstore) : yst := YS (h f) (h g) (h s0) (h s1).
Section ILoop.
  Variable p : Z.
  Variables f g s0 s1 : loc.
  Variable keep : loc -> Prop.
  Hypothesis step_spec : forall h, stl4 f g s0 s1 (pexec (I_step p f g s0 s1) h) = ystepv p (stl4 f g s0 s1 h).
  Hypothesis step_frame : forall h l, keep l -> pexec (I_step p f g s0 s1) h l = h l.

  Lemma I_loop_spec : forall n h,
    stl4 f g s0 s1 (pexec (I_loop p n f g s0 s1) h) = yloopv p n (stl4 f g s0 s1 h).
  Proof.
    induction n as [|n IH]; intro h; [reflexivity|].
    cbn [I_loop yloopv]. rewrite pexec_bind, V_iszero_run. cbn [fst snd].
    change (yG (stl4 f g s0 s1 h)) with (h g).
    destruct (pz p (h g)); [reflexivity|].
    rewrite pexec_bind, IH. f_equal. apply step_spec.
  Qed.
  Lemma I_loop_frame : forall n h l, keep l -> pexec (I_loop p n f g s0 s1) h l = h l.
  Proof.
    induction n as [|n IH]; intros h l K; [reflexivity|].
    cbn [I_loop]. rewrite pexec_bind, V_iszero_run. cbn [fst snd].
    destruct (pz p (h g)); [reflexivity|].
    rewrite pexec_bind, IH by exact K. apply step_frame. exact K.
  Qed.
End ILoop.

Ltac istep_tac := intros; unfold stl4, ystepv; cbn [yF yG yS0 yS1]; f_equal; esolvev; nrm; try reflexivity.
(* S0 a caller object; S0 the local ib of Extension::div (T 20) or tmp of Extension::divin (T 28) *)
Lemma istep_U : forall p (r : positive) h,
  stl4 (T 73) (T 74) (U r) (T 75) (pexec (I_step p (T 73) (T 74) (U r) (T 75)) h) = ystepv p (stl4 (T 73) (T 74) (U r) (T 75) h).
Proof. istep_tac. Qed.
Lemma istep_U_frame : forall p (r : positive) h l, keepU [r] l -> pexec (I_step p (T 73) (T 74) (U r) (T 75)) h l = h l.
Proof. intros p r h [l|n] K; keep_facts. esolve. Qed.
Lemma istep_T20 : forall p h,
  stl4 (T 73) (T 74) (T 20) (T 75) (pexec (I_step p (T 73) (T 74) (T 20) (T 75)) h) = ystepv p (stl4 (T 73) (T 74) (T 20) (T 75) h).
Proof. istep_tac. Qed.
Lemma istep_T20_frame : forall p h l, keepU [] l -> pexec (I_step p (T 73) (T 74) (T 20) (T 75)) h l = h l.
Proof. intros p h [l|n] K; keep_facts. esolve. Qed.
Lemma istep_T28 : forall p h,
  stl4 (T 73) (T 74) (T 28) (T 75) (pexec (I_step p (T 73) (T 74) (T 28) (T 75)) h) = ystepv p (stl4 (T 73) (T 74) (T 28) (T 75) h).
Proof. istep_tac. Qed.
Lemma istep_T28_frame : forall p h l, keepU [] l -> pexec (I_step p (T 73) (T 74) (T 28) (T 75)) h l = h l.
Proof. intros p h [l|n] K; keep_facts. esolve. Qed.

(* the body: symbolic execution of the prefix (S0 is written after A and B have been saved), the loop by I_loop_spec *)
Ltac invmod_script p S0 spec K frm :=
  unfold P_invmod, pinvmodv; cbn [prd]; repeat (rewrite pexec_load || rewrite pexec_ret); cbv beta;
  match goal with |- context [if ?c then _ else _] => destruct c end;
  [ split; intros; esolve; nrm; reflexivity | ];
  rewrite !pexec_bind;
  match goal with |- context [pexec (I_loop p ?n ?f ?g _ ?s1) ?hh] =>
    let H := fresh "H" in let n0 := fresh "n" in let E := fresh "E" in let EH := fresh "EH" in
    set (H := hh); set (n0 := n);
    pose proof (f_equal yS0 (I_loop_spec p f g S0 s1 spec n0 H)) as E; cbn [stl4 yS0] in E;
    split;
    [ rewrite E; clear E;
      match goal with |- yS0 (yloopv p n0 ?st) = yS0 (yloopv p n0 ?st') =>
        assert (EH : st = st') by (unfold H, stl4; f_equal; esolve; nrm; reflexivity) end;
      rewrite EH; reflexivity
    | intros;
      match goal with |- _ (U ?l) = _ =>
        rewrite (I_loop_frame p f g S0 s1 K frm n0 H (U l)) by (cbn [keepU In]; intuition congruence);
        unfold H; esolve end ]
  end.

(* B a constant of the domain (Extension: _irred); S0 may be A *)
Lemma invmod_UK : forall p bv h (r a : positive),
  pexec (P_invmod p (U r) (U a) (PK bv)) h (U r) = pinvmodv p (h (U a)) bv /\
  (forall l, l <> r -> pexec (P_invmod p (U r) (U a) (PK bv)) h (U l) = h (U l)).
Proof.
  intros p bv h r a. destruct (Pos.eq_dec r a) as [->|N].
  - invmod_script p (U a) (istep_U p a) (keepU [a]) (istep_U_frame p a).
  - invmod_script p (U r) (istep_U p r) (keepU [r]) (istep_U_frame p r).
Qed.
Lemma invmod_UT27 : forall p bv h (r : positive),
  pexec (P_invmod p (U r) (T 27) (PK bv)) h (U r) = pinvmodv p (h (T 27)) bv /\
  (forall l, l <> r -> pexec (P_invmod p (U r) (T 27) (PK bv)) h (U l) = h (U l)).
Proof. intros p bv h r. invmod_script p (U r) (istep_U p r) (keepU [r]) (istep_U_frame p r). Qed.
Lemma invmod_T20 : forall p bv h (a : positive),
  pexec (P_invmod p (T 20) (U a) (PK bv)) h (T 20) = pinvmodv p (h (U a)) bv /\
  (forall l, pexec (P_invmod p (T 20) (U a) (PK bv)) h (U l) = h (U l)).
Proof. intros p bv h a. invmod_script p (T 20) (istep_T20 p) (keepU []) (istep_T20_frame p). Qed.
Lemma invmod_T28 : forall p bv h (a : positive),
  pexec (P_invmod p (T 28) (U a) (PK bv)) h (T 28) = pinvmodv p (h (U a)) bv /\
  (forall l, pexec (P_invmod p (T 28) (U a) (PK bv)) h (U l) = h (U l)).
Proof. intros p bv h a. invmod_script p (T 28) (istep_T28 p) (keepU []) (istep_T28_frame p). Qed.

(* invmod(S0,A,B) on caller objects: S0 may be A, B or both, A may be B *)
Definition Poly_invmod_alias_free : Prop :=
  forall p (h : pstore) (r a b : positive),
    let h' := pexec (P_invmod_l p (U r) (U a) (U b)) h in
    h' (U r) = pinvmodv p (h (U a)) (h (U b)) /\ (forall l, l <> r -> h' (U l) = h (U l)).
Lemma poly_invmod_alias_free : Poly_invmod_alias_free.
Proof.
  intros p h r a b. cbv zeta. unfold P_invmod_l.
  split_locs;
    match goal with |- pexec (P_invmod p (U ?s) _ _) _ _ = _ /\ _ =>
      invmod_script p (U s) (istep_U p s) (keepU [s]) (istep_U_frame p s) end.
Qed.
(* S0 initialised before A and B are saved: invmod(A, A, B) over GF(101) returns 1 *)
Lemma poly_invmod_s0_first_refuted :
  exists (h : pstore) (r a b : positive),
    pexec (P_invmod_s0_first 101 (U r) (U a) (PL (U b))) h (U r) <> pinvmodv 101 (h (U a)) (h (U b)).
Proof.
  exists (pst [(1%positive, [3; 1; 4; 1]); (2%positive, [66; 45; 76; 6; 3; 69; 1])]), 1%positive, 1%positive, 2%positive.
  vm_compute. discriminate.
Qed.
Example poly_invmod_example :       (* invmod(A,A,B), invmod(B,A,B) and the call on three objects agree; the broken order does not *)
  let h := pst [(1%positive, [3; 1; 4; 1]); (2%positive, [66; 45; 76; 6; 3; 69; 1])] in
  (pexec (P_invmod_l 101 (U 1) (U 1) (U 2)) h (U 1), pexec (P_invmod_l 101 (U 2) (U 1) (U 2)) h (U 2),
   pexec (P_invmod_l 101 (U 3) (U 1) (U 2)) h (U 3), pexec (P_invmod_s0_first 101 (U 1) (U 1) (PL (U 2))) h (U 1))
  = ([39; 24; 78; 62; 3; 97], [39; 24; 78; 62; 3; 97], [39; 24; 78; 62; 3; 97], [1]).
Proof. vm_compute. reflexivity. Qed.

(* ================================================================== Extension<BaseField> *)
Definition Ext_alias_free (p : Z) (irred : poly) : Prop :=
  (forall n, (n <= 8)%nat -> Pure_destP (ext_op p irred n)) /\
  (forall n, (9 <= n)%nat -> InplaceP (ext_op p irred n)) /\
  (forall n, FrameP (ext_op p irred n)).

(* the four operations that run invmod's loop: value and frame from the invmod lemmas *)
Lemma ext_inv_vf : forall p irred h (r a : positive),
  pexec (E_inv p irred (U r) (U a)) h (U r) = pinvmodv p (h (U a)) irred /\
  (forall l, l <> r -> pexec (E_inv p irred (U r) (U a)) h (U l) = h (U l)).
Proof. intros. apply invmod_UK. Qed.
Lemma ext_div_vf : forall p irred h (r a b : positive),
  pexec (E_div p irred (U r) (U a) (U b)) h (U r)
  = pmodinv p (strip0 p (pmulv p (h (U a)) (pinvmodv p (h (U b)) irred))) irred /\
  (forall l, l <> r -> pexec (E_div p irred (U r) (U a) (U b)) h (U l) = h (U l)).
Proof.
  intros p irred h r a b. unfold E_div, E_inv. rewrite pexec_bind.
  destruct (invmod_T20 p irred h b) as [EV EF]. unfold pexec in EV, EF.
  set (H1 := snd (P_invmod p (T 20) (U b) (PK irred) h)) in *.
  split.
  - destruct (Pos.eq_dec r a) as [->|N]; estep; rewrite ?EV, ?EF, ?strip0_idem; reflexivity.
  - intros l L. destruct (Pos.eq_dec r a) as [->|N]; estep; rewrite ?EF; reflexivity.
Qed.
Lemma ext_divin_vf : forall p irred h (r b : positive),
  pexec (E_divin p irred (U r) (U b)) h (U r)
  = pmodinv p (strip0 p (pmulv p (h (U r)) (pinvmodv p (h (U b)) irred))) irred /\
  (forall l, l <> r -> pexec (E_divin p irred (U r) (U b)) h (U l) = h (U l)).
Proof.
  intros p irred h r b. unfold E_divin, E_inv. rewrite pexec_bind.
  destruct (invmod_T28 p irred h b) as [EV EF]. unfold pexec in EV, EF.
  set (H1 := snd (P_invmod p (T 28) (U b) (PK irred) h)) in *.
  split.
  - estep; rewrite ?EV, ?EF, ?strip0_idem; reflexivity.
  - intros l L. estep; rewrite ?EF; reflexivity.
Qed.
Lemma ext_invin_vf : forall p irred h (r : positive),
  pexec (E_invin p irred (U r)) h (U r) = pinvmodv p (h (U r)) irred /\
  (forall l, l <> r -> pexec (E_invin p irred (U r)) h (U l) = h (U l)).
Proof.
  intros p irred h r. unfold E_invin. rewrite pexec_bind.
  set (H1 := snd (V_copy (T 27) (U r) h)).
  destruct (invmod_UT27 p irred H1 r) as [EV EF].
  split.
  - rewrite EV. unfold H1. estep. reflexivity.
  - intros l L. rewrite EF by exact L. unfold H1. estep. reflexivity.
Qed.

Lemma ext_pure : forall p irred n, (n <= 8)%nat -> Pure_destP (ext_op p irred n).
Proof.
  intros p irred n Hn h r a b c g. each_op n.
  4: { unfold freshP. cbn [ext_op].
       rewrite (proj1 (ext_div_vf p irred h r a b)),
               (proj1 (ext_div_vf p irred (pmk4 1 2 3 4 g (h (U a)) (h (U b)) (h (U c))) 1 2 3)). reflexivity. }
  5: { unfold freshP. cbn [ext_op].
       rewrite (proj1 (ext_inv_vf p irred h r a)),
               (proj1 (ext_inv_vf p irred (pmk4 1 2 3 4 g (h (U a)) (h (U b)) (h (U c))) 1 2)). reflexivity. }
  all: split_locs; esolve.
Qed.
Lemma ext_inplace : forall p irred n, (9 <= n)%nat -> InplaceP (ext_op p irred n).
Proof.
  intros p irred n Hn h r a b c. each_op n.
  7: { unfold freshP. cbn [ext_op].
       rewrite (proj1 (ext_divin_vf p irred h r a)),
               (proj1 (ext_divin_vf p irred (pmk4 1 2 3 4 (h (U r)) (h (U a)) (h (U b)) (h (U c))) 1 2)). reflexivity. }
  8: { unfold freshP. cbn [ext_op].
       rewrite (proj1 (ext_invin_vf p irred h r)),
               (proj1 (ext_invin_vf p irred (pmk4 1 2 3 4 (h (U r)) (h (U a)) (h (U b)) (h (U c))) 1)). reflexivity. }
  8: { unfold freshP. cbn [ext_op].
       rewrite (proj1 (ext_invin_vf p irred h r)),
               (proj1 (ext_invin_vf p irred (pmk4 1 2 3 4 (h (U r)) (h (U a)) (h (U b)) (h (U c))) 1)). reflexivity. }
  all: split_locs; esolve.
Qed.
Lemma ext_frame : forall p irred n, FrameP (ext_op p irred n).
Proof.
  intros p irred n h r a b c l N. each_op n.
  4: { cbn [ext_op]. apply ext_div_vf. exact N. }
  5: { cbn [ext_op]. apply ext_inv_vf. exact N. }
  14: { cbn [ext_op]. apply ext_divin_vf. exact N. }
  15: { cbn [ext_op]. apply ext_invin_vf. exact N. }
  15: { cbn [ext_op]. apply ext_invin_vf. exact N. }
  all: split_locs; esolve.
Qed.
Lemma ext_alias_free : forall p irred, Ext_alias_free p irred.
Proof. intros. split; [|split]; intros; [apply ext_pure|apply ext_inplace|apply ext_frame]; assumption. Qed.

(* the values left by the calls on distinct objects are the genuine ones *)
Lemma fresh_ext_mul_value : forall p irred g a b c,
  freshP (ext_op p irred 2) g a b c = pmodinv p (strip0 p (pmulv p a b)) irred.
Proof. intros. esolve. Qed.
Lemma fresh_ext_axmy_value : forall p irred g a b c,
  freshP (ext_op p irred 7) g a b c = strip0 p (psubv p (pmodinv p (strip0 p (pmulv p a b)) irred) c).
Proof. intros. esolve. Qed.
Lemma fresh_ext_div_value : forall p irred g a b c,
  freshP (ext_op p irred 3) g a b c = pmodinv p (strip0 p (pmulv p a (pinvmodv p b irred))) irred.
Proof.
  intros. unfold freshP. cbn [ext_op]. rewrite (proj1 (ext_div_vf p irred (pmk4 1 2 3 4 g a b c) 1 2 3)). reflexivity.
Qed.

(* seeded change C15-m6 (operands of axmy by const reference): over GF(7)[X]/(X^2+1), axmy(r,a,b,r) returns 0 *)
Lemma ext_axmy_byref_refuted : ~ Pure_destP (ext_op_byref 7 [1; 0; 1] 7).
Proof.
  intro H. specialize (H (pst [(1%positive, [3; 4]); (2%positive, [2; 1]); (3%positive, [5; 6])])
                         1%positive 2%positive 3%positive 1%positive []).
  vm_compute in H. discriminate H.
Qed.
Example ext_axmy_byvalue_example :
  let h := pst [(1%positive, [3; 4]); (2%positive, [2; 1]); (3%positive, [5; 6])] in
  pexec (ext_op 7 [1; 0; 1] 7 (U 1) (U 2) (U 3) (U 1)) h (U 1) = [1; 6] /\
  freshP (ext_op 7 [1; 0; 1] 7) [] (h (U 2)) (h (U 3)) (h (U 1)) = [1; 6] /\
  pexec (ext_op_byref 7 [1; 0; 1] 7 (U 1) (U 2) (U 3) (U 1)) h (U 1) = [].
Proof. vm_compute. repeat split. Qed.
Example ext_alias_example :      (* div(r,a,r) and invin(r) over GF(7)[X]/(X^2+1) *)
  let h := pst [(1%positive, [2; 1]); (2%positive, [6; 4])] in
  pexec (ext_op 7 [1; 0; 1] 3 (U 1) (U 2) (U 1) (U 1)) h (U 1) = [6; 6] /\
  pexec (ext_op 7 [1; 0; 1] 17 (U 1) (U 1) (U 1) (U 1)) h (U 1) = [6; 4].
Proof. vm_compute. repeat split. Qed.

(* ================================================================== gcd(F,S0,T0,A,B) *)
Definition gcdx_val (p : Z) (x y : poly) : poly * poly * poly :=
  if pz p x || pc p y then (pmulsc p (strip0 p y) (invmod (leadv p y) p), [], pconst p (invmod (leadv p y) p))
  else if pz p y || pc p x then (pmulsc p (strip0 p x) (invmod (leadv p x) p), pconst p (invmod (leadv p x) p), [])
  else let s := xloopv p (xfuel p x y)
                  (XS (pdivsc p (strip0 p x) (leadv p x)) (pdivsc p (strip0 p y) (leadv p y))
                      (pconst p (invmod (leadv p x) p)) [] [] (pconst p (invmod (leadv p y) p))) in
       (xF s, xS0 s, xT0 s).
Lemma gcdx_val_strip0 : forall p x y, gcdx_val p (strip0 p x) (strip0 p y) = gcdx_val p x y.
Proof. intros. unfold gcdx_val. nrm. reflexivity. Qed.

(* the body after the guard: symbolic execution of the prefix, the loop by X_loop_spec *)
Ltac gcdx_body_script p f s t N1 N2 N3 :=
  cbv zeta; unfold X_gcd_body, gcdx_val; rewrite !pexec_load;
  match goal with |- context [if ?c then _ else _] => destruct c end;
  [ split; [|intros l L1 L2 L3]; esolve; nrm; reflexivity | ];
  match goal with |- context [if ?c then _ else _] => destruct c end;
  [ split; [|intros l L1 L2 L3]; esolve; nrm; reflexivity | ];
  rewrite !pexec_bind;
  match goal with |- context [pexec (X_loop p ?n _ _ _ _ _ _) ?hh] =>
    let H := fresh "H" in let n0 := fresh "n" in
    let E := fresh "E" in let EF := fresh "EF" in let ES := fresh "ES" in let ET := fresh "ET" in let EH := fresh "EH" in
    set (H := hh); set (n0 := n);
    pose proof (X_loop_spec p (U f) (T 43) (U s) (T 44) (U t) (T 46) (fun h0 => xstep_gcd p f s t h0 N1 N2 N3) n0 H) as E;
    pose proof (f_equal xF E) as EF; pose proof (f_equal xS0 E) as ES; pose proof (f_equal xT0 E) as ET;
    cbn [stl xF xS0 xT0] in EF, ES, ET;
    split;
    [ rewrite EF, ES, ET; clear E EF ES ET;
      match goal with |- (xF (xloopv p n0 ?st), _, _) = (xF (xloopv p n0 ?st'), _, _) =>
        assert (EH : st = st') by (unfold H, stl; f_equal; esolve; nrm; reflexivity) end;
      rewrite EH; reflexivity
    | let l := fresh "l" in let L1 := fresh "L" in let L2 := fresh "L" in let L3 := fresh "L" in
      intros l L1 L2 L3;
      rewrite (X_loop_frame p (U f) (T 43) (U s) (T 44) (U t) (T 46) (keepU [f; s; t]) (xstep_gcd_frame p f s t) n0 H (U l))
        by (cbn [keepU In]; intuition congruence);
      unfold H; esolve ]
  end.

Lemma gcdx_body_U : forall p h (f s t a b : positive),
  f <> s -> f <> t -> s <> t -> a <> f -> a <> s -> a <> t -> b <> f -> b <> s -> b <> t ->
  let h' := pexec (X_gcd_body p (U f) (U s) (U t) (U a) (U b)) h in
  (h' (U f), h' (U s), h' (U t)) = gcdx_val p (h (U a)) (h (U b)) /\ (forall l, l <> f -> l <> s -> l <> t -> h' (U l) = h (U l)).
Proof. intros p h f s t a b N1 N2 N3 A1 A2 A3 B1 B2 B3. gcdx_body_script p f s t N1 N2 N3. Qed.

Lemma gcdx_body_T : forall p h (f s t : positive), f <> s -> f <> t -> s <> t ->
  let h' := pexec (X_gcd_body p (U f) (U s) (U t) (T 41) (T 42)) h in
  (h' (U f), h' (U s), h' (U t)) = gcdx_val p (h (T 41)) (h (T 42)) /\ (forall l, l <> f -> l <> s -> l <> t -> h' (U l) = h (U l)).
Proof. intros p h f s t N1 N2 N3. gcdx_body_script p f s t N1 N2 N3. Qed.

(* F, S0, T0 pairwise distinct objects (three results); each of them may be A or B, and A may be B *)
Definition Poly_gcd_bezout_alias_free : Prop :=
  forall p (h : pstore) (f s t a b : positive), f <> s -> f <> t -> s <> t ->
    let h' := pexec (P_gcdx p (U f) (U s) (U t) (U a) (U b)) h in
    (h' (U f), h' (U s), h' (U t)) = gcdx_val p (h (U a)) (h (U b)) /\
    (forall l, l <> f -> l <> s -> l <> t -> h' (U l) = h (U l)).

Ltac neq_hyps :=
  repeat match goal with
         | H : _ || _ = false |- _ => apply orb_false_iff in H; destruct H
         | H : (_ =? _)%positive = false |- _ => apply Pos.eqb_neq in H
         end.

Lemma poly_gcd_bezout_alias_free : Poly_gcd_bezout_alias_free.
Proof.
  intros p h f s t a b N1 N2 N3. cbv zeta. unfold P_gcdx. cbn [loc_eqb].
  match goal with |- context [if ?c then _ else _] => destruct c eqn:G end.
  - do 2 rewrite pexec_bind.
    match goal with |- context [pexec (X_gcd_body _ _ _ _ _ _) ?hh] => set (H1 := hh) end.
    destruct (gcdx_body_T p H1 f s t N1 N2 N3) as [EV EFr].
    assert (E41 : H1 (T 41) = strip0 p (h (U a))) by (unfold H1; esolve).
    assert (E42 : H1 (T 42) = strip0 p (h (U b))) by (unfold H1; esolve).
    split.
    + rewrite EV, E41, E42. apply gcdx_val_strip0.
    + intros l L1 L2 L3. rewrite EFr by assumption. unfold H1. esolve.
  - neq_hyps. apply gcdx_body_U; auto.
Qed.

(* without the guard (the body run on the caller's objects): gcd(F,S,T,A,F) over GF(101) *)
Lemma poly_gcd_bezout_unguarded_refuted :
  exists (h : pstore) (f s t a b : positive), f <> s /\ f <> t /\ s <> t /\
    pexec (P_gcdx_unguarded 101 (U f) (U s) (U t) (U a) (U b)) h (U f) <> fst (fst (gcdx_val 101 (h (U a)) (h (U b)))).
Proof.
  exists (pst [(1%positive, [71; 31; 91; 1]); (2%positive, [66; 45; 76; 6; 3; 69; 1])]),
         2%positive, 3%positive, 4%positive, 1%positive, 2%positive.
  repeat (split; [discriminate|]). vm_compute. discriminate.
Qed.
Example poly_gcd_bezout_example :      (* P = (x-2)(x-3)(x-5), Q = (x-2)(x-3)(x-4)(x-6)(x-8)(x-9): gcd(P,Q,T,P,Q) *)
  let h := pst [(1%positive, [71; 31; 91; 1]); (2%positive, [66; 45; 76; 6; 3; 69; 1])] in
  let h' := pexec (P_gcdx 101 (U 1) (U 2) (U 3) (U 1) (U 2)) h in
  (h' (U 1), h' (U 2), h' (U 3)) = ([6; 96; 1], [72; 13; 15; 59], [42]).
Proof. vm_compute. reflexivity. Qed.

(* ================================================================== lcm(F,A,B) *)
Lemma xstep_lcmU : forall p (f : positive) h,
  stl (U f) (T 43) (T 52) (T 44) (T 53) (T 46) (pexec (X_step p (U f) (T 43) (T 52) (T 44) (T 53) (T 46)) h)
  = xstepv p (stl (U f) (T 43) (T 52) (T 44) (T 53) (T 46) h).
Proof. xstep_tac. Qed.
Lemma xstep_lcmU_frame : forall p (f : positive) h l, keepU [f] l ->
  pexec (X_step p (U f) (T 43) (T 52) (T 44) (T 53) (T 46)) h l = h l.
Proof. intros p f h [l|n] K; keep_facts. esolve. Qed.
Lemma xstep_lcmT : forall p h,
  stl (T 50) (T 43) (T 52) (T 44) (T 53) (T 46) (pexec (X_step p (T 50) (T 43) (T 52) (T 44) (T 53) (T 46)) h)
  = xstepv p (stl (T 50) (T 43) (T 52) (T 44) (T 53) (T 46) h).
Proof. xstep_tac. Qed.
Lemma xstep_lcmT_frame : forall p h l, keepU [] l ->
  pexec (X_step p (T 50) (T 43) (T 52) (T 44) (T 53) (T 46)) h l = h l.
Proof. intros p h [l|n] K; keep_facts. esolve. Qed.

Definition lcm_val (p : Z) (x y : poly) : poly :=
  if pz p x then [] else if pz p y then [] else if pc p y then strip0 p x else if pc p x then strip0 p y
  else
    let u := if pge p x y then x else y in
    let v := if pge p x y then y else x in
    let s := xloopv p (xfuel p x y)
               (XS (pdivsc p (strip0 p u) (leadv p u)) (pdivsc p (strip0 p v) (leadv p v))
                   (pconst p (invmod (leadv p u) p)) [] [] (pconst p (invmod (leadv p v) p))) in
    if ple1 p (xG s) then (if pge p x y then strip0 p (pmulv p (xS1 s) x) else strip0 p (pmulv p (xT1 s) x))
    else strip0 p (pmulv p x y).
Lemma strip0_lcm_val : forall p x y, strip0 p (lcm_val p x y) = lcm_val p x y.
Proof.
  intros. unfold lcm_val. cbv zeta.
  repeat match goal with |- context [if ?c then _ else _] => destruct c end; nrm; reflexivity.
Qed.

Ltac early_branch := match goal with |- context [if ?c then _ else _] => destruct c end; [ split; intros; esolve; nrm; reflexivity | ].
Ltac lcm_body_script p h F a b spec K frm :=
  cbv zeta; unfold L_body, lcm_val; rewrite !pexec_load;
  early_branch; early_branch; early_branch; early_branch;
  match goal with |- context [pge p ?x ?y] => destruct (pge p x y) end;
  rewrite !pexec_bind;
  match goal with |- context [snd (X_loop p ?n F ?g ?s0 ?s1 ?t0 ?t1 ?hh)] =>
    let H := fresh "H" in let n0 := fresh "n" in let H3 := fresh "H" in
    let E := fresh "E" in let EG := fresh "EG" in let ES := fresh "ES" in let ET := fresh "ET" in let EH := fresh "EH" in
    let Ea := fresh "Ea" in let Eb := fresh "Eb" in
    set (H := hh); set (n0 := n);
    pose proof (X_loop_spec p F g s0 s1 t0 t1 spec n0 H) as E;
    match type of E with _ = xloopv p n0 ?st =>
      match goal with |- context [xloopv p n0 ?st'] =>
        assert (EH : st = st') by (unfold H, stl; f_equal; esolve; nrm; reflexivity) end end;
    rewrite EH in E; clear EH;
    pose proof (f_equal xG E) as EG; pose proof (f_equal xS1 E) as ES; pose proof (f_equal xT1 E) as ET;
    cbn [stl xG xS1 xT1] in EG, ES, ET; clear E;
    assert (Ea : pexec (X_loop p n0 F g s0 s1 t0 t1) H (U a) = h (U a))
      by (rewrite (X_loop_frame p F g s0 s1 t0 t1 K frm n0 H (U a)) by (cbn [keepU In]; intuition congruence); unfold H; esolve);
    assert (Eb : pexec (X_loop p n0 F g s0 s1 t0 t1) H (U b) = h (U b))
      by (rewrite (X_loop_frame p F g s0 s1 t0 t1 K frm n0 H (U b)) by (cbn [keepU In]; intuition congruence); unfold H; esolve);
    split;
    [ unfold pexec in EG, ES, ET, Ea, Eb |- *;
      set (H3 := snd (X_loop p n0 F g s0 s1 t0 t1 H)) in *;
      change (fst (pload (T 43) H3)) with (H3 (T 43)); change (snd (pload (T 43) H3)) with H3;
      rewrite EG;
      match goal with |- context [if ?c then _ else _] => destruct c end;
      estep; rewrite ?ES, ?ET, ?Ea, ?Eb; reflexivity
    | intros;
      match goal with |- _ (U ?l) = _ =>
        let El := fresh "El" in let H3 := fresh "H" in
        assert (El : pexec (X_loop p n0 F g s0 s1 t0 t1) H (U l) = h (U l))
          by (rewrite (X_loop_frame p F g s0 s1 t0 t1 K frm n0 H (U l)) by (cbn [keepU In]; intuition congruence); unfold H; esolve);
        unfold pexec in El |- *;
        set (H3 := snd (X_loop p n0 F g s0 s1 t0 t1 H)) in *;
        change (fst (pload (T 43) H3)) with (H3 (T 43)); change (snd (pload (T 43) H3)) with H3;
        repeat match goal with |- context [if ?c then _ else _] => destruct c end;
        estep; exact El
      end ]
  end.

Lemma lcm_body_U : forall p h (f a b : positive), a <> f -> b <> f ->
  let h' := pexec (L_body p (U f) (U a) (U b)) h in
  h' (U f) = lcm_val p (h (U a)) (h (U b)) /\ (forall l, l <> f -> h' (U l) = h (U l)).
Proof.
  intros p h f a b A1 B1.
  lcm_body_script p h (U f) a b (xstep_lcmU p f) (keepU [f]) (xstep_lcmU_frame p f).
Qed.
Lemma lcm_body_T : forall p h (a b : positive),
  let h' := pexec (L_body p (T 50) (U a) (U b)) h in
  h' (T 50) = lcm_val p (h (U a)) (h (U b)) /\ (forall l, h' (U l) = h (U l)).
Proof.
  intros p h a b.
  lcm_body_script p h (T 50) a b (xstep_lcmT p) (keepU []) (xstep_lcmT_frame p).
Qed.

Definition Poly_lcm_alias_free : Prop :=
  forall p (h : pstore) (f a b : positive),
    let h' := pexec (P_lcm p (U f) (U a) (U b)) h in
    h' (U f) = lcm_val p (h (U a)) (h (U b)) /\ (forall l, l <> f -> h' (U l) = h (U l)).
Lemma poly_lcm_alias_free : Poly_lcm_alias_free.
Proof.
  intros p h f a b. cbv zeta. unfold P_lcm. cbn [loc_eqb].
  match goal with |- context [if ?c then _ else _] => destruct c eqn:G end.
  - rewrite pexec_bind.
    destruct (lcm_body_T p h a b) as [EV EFr]. unfold pexec in EV, EFr.
    set (H1 := snd (L_body p (T 50) (U a) (U b) h)) in *.
    split.
    + esolve. rewrite EV. apply strip0_lcm_val.
    + intros l L1. esolve. apply EFr.
  - neq_hyps. apply lcm_body_U; auto.
Qed.
(* without the guard: lcm(F,F,B) over GF(101) *)
Lemma poly_lcm_unguarded_refuted :
  exists (h : pstore) (f a b : positive),
    pexec (P_lcm_unguarded 101 (U f) (U a) (U b)) h (U f) <> lcm_val 101 (h (U a)) (h (U b)).
Proof.
  exists (pst [(1%positive, [71; 31; 91; 1]); (2%positive, [66; 45; 76; 6; 3; 69; 1])]), 1%positive, 1%positive, 2%positive.
  vm_compute. discriminate.
Qed.
Example poly_lcm_example :
  pexec (P_lcm 101 (U 1) (U 1) (U 2)) (pst [(1%positive, [71; 31; 91; 1]); (2%positive, [66; 45; 76; 6; 3; 69; 1])]) (U 1)
  = [78; 89; 70; 13; 26; 79; 62; 42].
Proof. vm_compute. reflexivity. Qed.

(* ================================================================== pdivmod(Q,R,m,A,B), pmod(R,m,A,B) *)
Ltac all_branches := repeat match goal with |- context [if ?c then _ else _] => destruct c end.
Lemma strip0_ppdq : forall p x y, strip0 p (ppdq p x y) = ppdq p x y.
Proof. intros. unfold ppdq, ppdivmodv. all_branches; cbn [fst snd]; nrm; reflexivity. Qed.
Lemma strip0_ppdr : forall p x y, strip0 p (ppdr p x y) = ppdr p x y.
Proof. intros. unfold ppdr, ppdivmodv. all_branches; cbn [fst snd]; rewrite ?strip0_pmodv; nrm; reflexivity. Qed.
Lemma strip0_ppmr : forall p x y, strip0 p (ppmr p x y) = ppmr p x y.
Proof.
  intros. unfold ppmr, ppmodv. all_branches; cbn [fst snd]; nrm; try reflexivity.
  destruct (ppmod_loop p (S (length x)) x y 1). cbn [fst]. apply strip0_idem.
Qed.

Definition Poly_pdivmod_alias_free : Prop :=
  forall p (h : pstore) (q r a b : positive), q <> r ->
    let res := P_pdivmod p (U q) (U r) (U a) (U b) h in
    (snd res (U q), snd res (U r), fst res) = (ppdq p (h (U a)) (h (U b)), ppdr p (h (U a)) (h (U b)), ppdm p (h (U a)) (h (U b))) /\
    (forall l, l <> q -> l <> r -> snd res (U l) = h (U l)).
Lemma poly_pdivmod_alias_free : Poly_pdivmod_alias_free.
Proof.
  intros p h q r a b N. cbv zeta. split.
  - split_locs; esolve; rewrite ?strip0_ppdq, ?strip0_ppdr; reflexivity.
  - intros l L1 L2. split_locs; esolve.
Qed.
Definition Poly_pmod_alias_free : Prop :=
  forall p (h : pstore) (r a b : positive),
    let res := P_pmod p (U r) (U a) (U b) h in
    (snd res (U r), fst res) = (ppmr p (h (U a)) (h (U b)), ppmm p (h (U a)) (h (U b))) /\
    (forall l, l <> r -> snd res (U l) = h (U l)).
Lemma poly_pmod_alias_free : Poly_pmod_alias_free.
Proof.
  intros p h r a b. cbv zeta. split.
  - split_locs; esolve; rewrite ?strip0_ppmr; reflexivity.
  - intros l L1. split_locs; esolve.
Qed.
Lemma poly_pmod_unguarded_refuted :
  exists (h : pstore) (r a b : positive),
    snd (P_pmod_unguarded 101 (U r) (U a) (U b) h) (U r) <> ppmr 101 (h (U a)) (h (U b)).
Proof.
  exists (pst [(1%positive, [71; 31; 91; 2]); (2%positive, [66; 45; 76; 6; 3; 69; 1])]), 1%positive, 2%positive, 1%positive.
  vm_compute. discriminate.
Qed.
Example poly_pdivmod_example :
  let h := pst [(1%positive, [71; 31; 91; 2]); (2%positive, [66; 45; 76; 6; 3; 69; 1])] in
  let res := P_pdivmod 101 (U 1) (U 2) (U 2) (U 1) h in
  (snd res (U 1), snd res (U 2), fst res) = ([40; 32; 87; 8], [34; 36; 2], 16) /\
  let res' := P_pmod 101 (U 1) (U 2) (U 1) h in (snd res' (U 1), fst res') = ([34; 36; 2], 16).
Proof. vm_compute. split; reflexivity. Qed.

(* ================================================================== single destination entry points: divin, modin, scalar forms *)
Lemma hd_nth0 : forall (l : poly), hd 0 l = nth 0 l 0.
Proof. destruct l; reflexivity. Qed.
Lemma hd_strip0_mod : forall p x, hd 0 (strip0 p x) mod p = hd 0 x mod p.
Proof. intros. rewrite !hd_nth0. apply ceq_strip0. Qed.
Lemma add_hd_strip0 : forall p x v, (hd 0 (strip0 p x) + v) mod p = (hd 0 x + v) mod p.
Proof. intros. rewrite Zplus_mod, hd_strip0_mod, <- Zplus_mod. reflexivity. Qed.
Lemma sub_hd_strip0 : forall p x v, (hd 0 (strip0 p x) - v) mod p = (hd 0 x - v) mod p.
Proof. intros. rewrite Zminus_mod, hd_strip0_mod, <- Zminus_mod. reflexivity. Qed.

Ltac bsolve := esolve; rewrite ?add_hd_strip0, ?sub_hd_strip0; nrm; try reflexivity.
Lemma polyB_pure_sc : forall p k n, In n [4; 5; 6; 7]%nat -> Pure_destP (polyB_op p k n).
Proof.
  intros p k n Hn h r a b c g. cbn [In] in Hn.
  repeat (destruct Hn as [<-|Hn]; [split_locs; bsolve|]). contradiction.
Qed.
Lemma polyB_inplace : forall p k n, In n [1; 2]%nat -> InplaceP (polyB_op p k n).
Proof.
  intros p k n Hn h r a b c. cbn [In] in Hn.
  repeat (destruct Hn as [<-|Hn]; [split_locs; bsolve|]). contradiction.
Qed.
Lemma polyB_frame_sc : forall p k n, In n [1; 2; 4; 5; 6; 7]%nat -> FrameP (polyB_op p k n).
Proof.
  intros p k n Hn h r a b c l N. cbn [In] in Hn.
  repeat (destruct Hn as [<-|Hn]; [split_locs; bsolve|]). contradiction.
Qed.

(* modin(A,B): A may be B; the value is the one of the rounds run with B a distinct object (pmodinv) *)
Definition Poly_modin_alias_free : Prop :=
  forall p (h : pstore) (a b : positive),
    let h' := pexec (P_modin p (U a) (U b)) h in
    h' (U a) = pmodinv p (h (U a)) (h (U b)) /\ (forall l, l <> a -> h' (U l) = h (U l)).
Lemma poly_modin_alias_free : Poly_modin_alias_free.
Proof.
  intros p h a b. cbv zeta. split.
  - split_locs; esolve.
  - intros l L. split_locs; esolve.
Qed.

(* ================================================================== powmod(W,P,pwr,U) *)
Definition pw_oddv (p : Z) (W P Uv : poly) : poly := pmodinv p (strip0 p (pmulv p W P)) Uv.      (* mulin; modin *)
Definition pw_sqv (p : Z) (P Uv : poly) : poly := pmodv p (strip0 p (pmulv p P P)) Uv.
Fixpoint pw_loopv (p : Z) (e : positive) (W P Uv : poly) : poly * poly :=
  match e with
  | xH => (pw_oddv p W P Uv, pw_sqv p P Uv)
  | xO e' => pw_loopv p e' W (pw_sqv p P Uv) Uv
  | xI e' => pw_loopv p e' (pw_oddv p W P Uv) (pw_sqv p P Uv) Uv
  end.
Definition powmod_val (p : Z) (x : poly) (e : Z) (u : poly) : poly :=
  strip0 p (match e with
            | Z0 => pmodv p (pconst p 1) u                      (* mod(W, one, U): zero when U is a non zero constant *)
            | Zpos e' => fst (pw_loopv p e' (pmodv p (pconst p 1) u) (pmodv p x u) u)
            | Zneg e' => fst (pw_loopv p e' (pmodv p (pconst p 1) u) (pmodv p x u) u)
            end).
Lemma pw_loopv_strip0 : forall p e W P Uv, pw_loopv p e W P (strip0 p Uv) = pw_loopv p e W P Uv.
Proof.
  intros p e. induction e as [e IH|e IH|]; intros W P Uv; cbn [pw_loopv]; unfold pw_oddv, pw_sqv;
    unfold pmodinv; rewrite ?pmodv_strip0_r, ?pmodin_strip0_r, ?IH; reflexivity.
Qed.
Lemma powmod_val_strip0 : forall p x e u, powmod_val p x e (strip0 p u) = powmod_val p x e u.
Proof. intros. unfold powmod_val. destruct e; rewrite ?pw_loopv_strip0, ?pmodv_strip0_r; reflexivity. Qed.

Definition keep2 (ex : list positive) (x : loc) : Prop := x = T 63 \/ keepU ex x.

Section PWLoop.
  Variable p : Z.
  Variables w u : loc.
  Variable keep : loc -> Prop.
  Hypothesis Ku : keep u.
  Hypothesis odd_w : forall h, pexec (PW_odd p w u) h w = pw_oddv p (h w) (h (T 61)) (h u).
  Hypothesis odd_61 : forall h, pexec (PW_odd p w u) h (T 61) = h (T 61).
  Hypothesis odd_frame : forall h l, keep l -> pexec (PW_odd p w u) h l = h l.
  Hypothesis sq_61 : forall h, pexec (PW_sq p u) h (T 61) = pw_sqv p (h (T 61)) (h u).
  Hypothesis sq_w : forall h, pexec (PW_sq p u) h w = h w.
  Hypothesis sq_frame : forall h l, keep l -> pexec (PW_sq p u) h l = h l.

  Lemma PW_loop_spec : forall e h,
    (pexec (PW_loop p e w u) h w, pexec (PW_loop p e w u) h (T 61)) = pw_loopv p e (h w) (h (T 61)) (h u) /\
    (forall l, keep l -> pexec (PW_loop p e w u) h l = h l).
  Proof.
    induction e as [e IH|e IH|]; intro h; cbn [PW_loop pw_loopv]; rewrite ?pexec_bind.
    - set (h1 := snd (PW_odd p w u h)). set (h2 := snd (PW_sq p u h1)).
      assert (E1w : h1 w = pw_oddv p (h w) (h (T 61)) (h u)) by apply odd_w.
      assert (E161 : h1 (T 61) = h (T 61)) by apply odd_61.
      assert (E1u : h1 u = h u) by (apply odd_frame; exact Ku).
      assert (E2w : h2 w = h1 w) by apply sq_w.
      assert (E261 : h2 (T 61) = pw_sqv p (h1 (T 61)) (h1 u)) by apply sq_61.
      assert (E2u : h2 u = h1 u) by (apply sq_frame; exact Ku).
      destruct (IH h2) as [IV IF]. split.
      + rewrite IV, E2w, E261, E2u, E1w, E161, E1u. reflexivity.
      + intros l K. rewrite IF by exact K. transitivity (h1 l); [apply (sq_frame h1 l K) | apply (odd_frame h l K)].
    - set (h2 := snd (PW_sq p u h)).
      assert (E2w : h2 w = h w) by apply sq_w.
      assert (E261 : h2 (T 61) = pw_sqv p (h (T 61)) (h u)) by apply sq_61.
      assert (E2u : h2 u = h u) by (apply sq_frame; exact Ku).
      destruct (IH h2) as [IV IF]. split.
      + rewrite IV, E2w, E261, E2u. reflexivity.
      + intros l K. rewrite IF by exact K. apply (sq_frame h l K).
    - set (h1 := snd (PW_odd p w u h)).
      assert (E1w : h1 w = pw_oddv p (h w) (h (T 61)) (h u)) by apply odd_w.
      assert (E161 : h1 (T 61) = h (T 61)) by apply odd_61.
      assert (E1u : h1 u = h u) by (apply odd_frame; exact Ku).
      split.
      + rewrite (sq_w h1), (sq_61 h1), E1w, E161, E1u. reflexivity.
      + intros l K. rewrite (sq_frame h1 l K). apply (odd_frame h l K).
  Qed.
End PWLoop.

Ltac pw_facts :=
  intros; unfold pw_oddv, pw_sqv;
  try match goal with
      | K : keep2 _ _ |- _ => destruct K as [->|K]; [| match goal with l : loc |- _ => destruct l; keep_facts end]
      end;
  esolvev; nrm; try reflexivity.

Lemma pw_loop_U : forall p (w u : positive), w <> u -> forall e h,
  (pexec (PW_loop p e (U w) (U u)) h (U w), pexec (PW_loop p e (U w) (U u)) h (T 61))
  = pw_loopv p e (h (U w)) (h (T 61)) (h (U u)) /\
  (forall l, keep2 [w] l -> pexec (PW_loop p e (U w) (U u)) h l = h l).
Proof.
  intros p w u N. apply PW_loop_spec with (keep := keep2 [w]).
  - right. cbn [keepU In]. intuition congruence.
  - pw_facts.
  - pw_facts.
  - pw_facts.
  - pw_facts.
  - pw_facts.
  - pw_facts.
Qed.
Lemma pw_loop_T : forall p (w : positive) e h,
  (pexec (PW_loop p e (U w) (T 63)) h (U w), pexec (PW_loop p e (U w) (T 63)) h (T 61))
  = pw_loopv p e (h (U w)) (h (T 61)) (h (T 63)) /\
  (forall l, keep2 [w] l -> pexec (PW_loop p e (U w) (T 63)) h l = h l).
Proof.
  intros p w. apply PW_loop_spec with (keep := keep2 [w]).
  - left. reflexivity.
  - pw_facts.
  - pw_facts.
  - pw_facts.
  - pw_facts.
  - pw_facts.
  - pw_facts.
Qed.

(* the body after the guard, U the caller's object (W is not U) or the local copy Ut: statement after statement *)
Lemma pexec_seq : forall A B (c : PM A) (d : PM B) h, pexec (c ;;; d) h = pexec d (pexec c h).
Proof. intros. unfold pexec, pbind. destruct (c h). reflexivity. Qed.

Section PWBody.
  Variable p : Z.
  Variables w a : positive.
  Variable u : loc.
  Hypothesis m61_v : forall h, pexec (P_mod p (T 61) (U a) u) h (T 61) = pmodv p (h (U a)) (h u).
  Hypothesis m61_u : forall h, pexec (P_mod p (T 61) (U a) u) h u = h u.
  Hypothesis m61_f : forall h l, pexec (P_mod p (T 61) (U a) u) h (U l) = h (U l).
  Hypothesis c67_u : forall h, pexec (V_const p (T 67) 1) h u = h u.
  Hypothesis mw_v : forall h, pexec (P_mod p (U w) (T 67) u) h (U w) = pmodv p (h (T 67)) (h u).
  Hypothesis mw_61 : forall h, pexec (P_mod p (U w) (T 67) u) h (T 61) = h (T 61).
  Hypothesis mw_u : forall h, pexec (P_mod p (U w) (T 67) u) h u = h u.
  Hypothesis mw_f : forall h l, l <> w -> pexec (P_mod p (U w) (T 67) u) h (U l) = h (U l).
  Hypothesis loop : forall e h,
    (pexec (PW_loop p e (U w) u) h (U w), pexec (PW_loop p e (U w) u) h (T 61)) = pw_loopv p e (h (U w)) (h (T 61)) (h u) /\
    (forall l, keep2 [w] l -> pexec (PW_loop p e (U w) u) h l = h l).

  Lemma PW_body_spec : forall e h,
    pexec (PW_body p (U w) (U a) e u) h (U w) = powmod_val p (h (U a)) e (h u) /\
    (forall l, l <> w -> pexec (PW_body p (U w) (U a) e u) h (U l) = h (U l)).
  Proof.
    intros e h. unfold PW_body. rewrite !pexec_seq.
    set (h1 := pexec (P_mod p (T 61) (U a) u) h).
    set (h2 := pexec (V_const p (T 67) 1) h1).
    set (h3 := pexec (P_mod p (U w) (T 67) u) h2).
    assert (E2u : h2 u = h u) by (unfold h2, h1; rewrite c67_u, m61_u; reflexivity).
    assert (E3w : h3 (U w) = pmodv p (pconst p 1) (h u)) by (unfold h3; rewrite mw_v, E2u; reflexivity).
    assert (E361 : h3 (T 61) = pmodv p (h (U a)) (h u)).
    { unfold h3. rewrite mw_61. change (h2 (T 61)) with (h1 (T 61)). apply m61_v. }
    assert (E3u : h3 u = h u) by (unfold h3; rewrite mw_u; exact E2u).
    assert (E3f : forall l, l <> w -> h3 (U l) = h (U l)).
    { intros l L. unfold h3. rewrite mw_f by exact L. change (h2 (U l)) with (h1 (U l)). apply m61_f. }
    assert (AV : forall hh, pexec (V_assign p (U w) (U w)) hh (U w) = strip0 p (hh (U w))) by (intro; esolve).
    assert (AF : forall hh l, l <> w -> pexec (V_assign p (U w) (U w)) hh (U l) = hh (U l)) by (intros; esolve).
    unfold powmod_val.
    destruct e as [|e|e].
    - change (pexec pskip h3) with h3. split; [rewrite AV, E3w; reflexivity | intros l L; rewrite AF by exact L; apply E3f; exact L].
    - destruct (loop e h3) as [LV LF]. apply (f_equal fst) in LV. cbn [fst] in LV. rewrite E3w, E361, E3u in LV. split.
      + rewrite AV, LV. reflexivity.
      + intros l L. rewrite AF by exact L. rewrite (LF (U l)) by (right; cbn [keepU In]; intuition congruence). apply E3f; exact L.
    - destruct (loop e h3) as [LV LF]. apply (f_equal fst) in LV. cbn [fst] in LV. rewrite E3w, E361, E3u in LV. split.
      + rewrite AV, LV. reflexivity.
      + intros l L. rewrite AF by exact L. rewrite (LF (U l)) by (right; cbn [keepU In]; intuition congruence). apply E3f; exact L.
  Qed.
End PWBody.

Lemma pw_body_U : forall p h (w a u : positive) e, w <> u ->
  let h' := pexec (PW_body p (U w) (U a) e (U u)) h in
  h' (U w) = powmod_val p (h (U a)) e (h (U u)) /\ (forall l, l <> w -> h' (U l) = h (U l)).
Proof.
  intros p h w a u e N. cbv zeta. apply PW_body_spec.
  - intro h0. split_locs; esolvev.
  - intro h0. split_locs; esolve.
  - intros h0 l. split_locs; esolve.
  - intro h0. esolve.
  - intro h0. esolvev.
  - intro h0. esolve.
  - intro h0. esolve.
  - intros h0 l L. split_locs; esolve.
  - apply pw_loop_U. exact N.
Qed.
Lemma pw_body_T : forall p h (w a : positive) e,
  let h' := pexec (PW_body p (U w) (U a) e (T 63)) h in
  h' (U w) = powmod_val p (h (U a)) e (h (T 63)) /\ (forall l, l <> w -> h' (U l) = h (U l)).
Proof.
  intros p h w a e. cbv zeta. apply PW_body_spec.
  - intro h0. esolvev.
  - intro h0. esolve.
  - intros h0 l. split_locs; esolve.
  - intro h0. esolve.
  - intro h0. esolvev.
  - intro h0. esolve.
  - intro h0. esolve.
  - intros h0 l L. split_locs; esolve.
  - apply pw_loop_T.
Qed.

Definition Poly_powmod_alias_free : Prop :=
  forall p (h : pstore) (w a u : positive) (e : Z),
    let h' := pexec (P_powmod p (U w) (U a) e (U u)) h in
    h' (U w) = powmod_val p (h (U a)) e (h (U u)) /\ (forall l, l <> w -> h' (U l) = h (U l)).
Lemma poly_powmod_alias_free : Poly_powmod_alias_free.
Proof.
  intros p h w a u e. cbv zeta. unfold P_powmod. cbn [loc_eqb].
  destruct (Pos.eqb_spec w u) as [<-|N].
  - rewrite pexec_bind.
    set (H1 := snd (V_assign p (T 63) (U w) h)).
    destruct (pw_body_T p H1 w a e) as [EV EFr].
    assert (E63 : H1 (T 63) = strip0 p (h (U w))) by (unfold H1; esolve).
    assert (Ea : H1 (U a) = h (U a)) by (unfold H1; esolve).
    split.
    + rewrite EV, E63, Ea. apply powmod_val_strip0.
    + intros l L1. rewrite EFr by exact L1. unfold H1. esolve.
  - apply pw_body_U. exact N.
Qed.
Example poly_powmod_example :       (* powmod(U, P, 5, U) over GF(101) *)
  pexec (P_powmod 101 (U 1) (U 2) 5 (U 1)) (pst [(1%positive, [66; 45; 76; 1]); (2%positive, [3; 1])]) (U 1) = [54; 28; 87].
Proof. vm_compute. reflexivity. Qed.
Example poly_powmod_const_modulus_example :       (* P^0 mod U and P^3 mod U, U = 66 a constant: zero; P^0 mod (X^3+..) = 1 *)
  let h := pst [(1%positive, [66]); (2%positive, [3; 1]); (3%positive, [66; 45; 76; 1])] in
  (pexec (P_powmod 101 (U 1) (U 2) 0 (U 1)) h (U 1), pexec (P_powmod 101 (U 4) (U 2) 3 (U 1)) h (U 4),
   pexec (P_powmod 101 (U 3) (U 2) 0 (U 3)) h (U 3)) = ([], [], [1]).
Proof. vm_compute. reflexivity. Qed.

(* ================================================================== the single destination entry points together
   ModelExt.polyB_op: 0 lcm 3 powmod 4 add(R,P,c) 5 sub(R,P,c) 6 sub(R,c,P) 7 div(R,P,c): destination only written;
   1 divin 2 modin: destination also read *)
Definition PolyB_alias_free (p k : Z) : Prop :=
  (forall n, In n [0; 3; 4; 5; 6; 7]%nat -> Pure_destP (polyB_op p k n)) /\
  (forall n, In n [1; 2]%nat -> InplaceP (polyB_op p k n)) /\
  (forall n, (n <= 7)%nat -> FrameP (polyB_op p k n)).

Lemma polyB_alias_free : forall p k, PolyB_alias_free p k.
Proof.
  intros p k. split; [|split].
  - intros n Hn. cbn [In] in Hn. destruct Hn as [<-|[<-|Hn]].
    + intros h r a b c g. unfold freshP. cbn [polyB_op].
      destruct (poly_lcm_alias_free p h r a b) as [E1 _].
      destruct (poly_lcm_alias_free p (pmk4 1 2 3 4 g (h (U a)) (h (U b)) (h (U c))) 1%positive 2%positive 3%positive) as [E2 _].
      cbv zeta in E1, E2. rewrite E1, E2. reflexivity.
    + intros h r a b c g. unfold freshP. cbn [polyB_op].
      destruct (poly_powmod_alias_free p h r a b k) as [E1 _].
      destruct (poly_powmod_alias_free p (pmk4 1 2 3 4 g (h (U a)) (h (U b)) (h (U c))) 1%positive 2%positive 3%positive k) as [E2 _].
      cbv zeta in E1, E2. rewrite E1, E2. reflexivity.
    + apply polyB_pure_sc. cbn [In]. tauto.
  - apply polyB_inplace.
  - intros n Hn. cases_nat 8%nat n; try lia.
    + intros h r a b c l N. apply (proj2 (poly_lcm_alias_free p h r a b)). exact N.
    + apply polyB_frame_sc. cbn [In]. tauto.
    + apply polyB_frame_sc. cbn [In]. tauto.
    + intros h r a b c l N. apply (proj2 (poly_powmod_alias_free p h r a b k)). exact N.
    + apply polyB_frame_sc. cbn [In]. tauto.
    + apply polyB_frame_sc. cbn [In]. tauto.
    + apply polyB_frame_sc. cbn [In]. tauto.
    + apply polyB_frame_sc. cbn [In]. tauto.
Qed.
Example polyB_scalar_example :       (* add(R,R,c), sub(R,c,R), div(R,R,c) over GF(101) *)
  let h := pst [(1%positive, [100; 45; 76])] in
  (pexec (polyB_op 101 1 4 (U 1) (U 1) (U 1) (U 1)) h (U 1), pexec (polyB_op 101 5 6 (U 1) (U 1) (U 1) (U 1)) h (U 1),
   pexec (polyB_op 101 2 7 (U 1) (U 1) (U 1) (U 1)) h (U 1)) = ([0; 45; 76], [6; 56; 25], [50; 73; 38]).
Proof. vm_compute. reflexivity. Qed.
Example polyB_divin_modin_example :       (* divin(R,A), modin(R,A), divin(R,R), modin(R,R) over GF(101) *)
  let h := pst [(1%positive, [66; 45; 76; 6; 3; 69; 1]); (2%positive, [71; 31; 91; 2])] in
  (pexec (polyB_op 101 0 1 (U 1) (U 2) (U 1) (U 1)) h (U 1), pexec (polyB_op 101 0 2 (U 1) (U 2) (U 1) (U 1)) h (U 1),
   pexec (polyB_op 101 0 1 (U 1) (U 1) (U 1) (U 1)) h (U 1), pexec (polyB_op 101 0 2 (U 1) (U 1) (U 1) (U 1)) h (U 1))
  = ([53; 2; 37; 51], [40; 78; 38], [1], []).
Proof. vm_compute. reflexivity. Qed.
