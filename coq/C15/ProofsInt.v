(* C15 proofs, part 3: multi-output Integer operations, powmod, and the Rational / QField<Rational> forms.
   Statements give the values left in the destinations as explicit functions of the operand VALUES, for arbitrary
   (possibly equal) locations; destinations of one call are distinct objects of each other. *)
From Coq Require Import ZArith List Bool Lia.
From C15 Require Import Model ProofsBase.
Import ListNotations.
Local Open Scope Z_scope.

(* ---- gcd(g,u,v,a,b) : every output may be the same object as a or b *)
Definition gcd_spec (x y : Z) : Z * Z * Z :=
  let '(g, s, t) := gcdext x y in if g <? 0 then (- g, - s, - t) else (g, s, t).

Definition Gcd5_alias_free : Prop :=
  forall (h : store) (g u v a b : positive), g <> u -> g <> v -> u <> v ->
    let h' := exec (Int_gcd5 (U g) (U u) (U v) (U a) (U b)) h in
    (h' (U g), h' (U u), h' (U v)) = gcd_spec (h (U a)) (h (U b)) /\
    (forall l, l <> g -> l <> u -> l <> v -> h' (U l) = h (U l)).

Lemma gcd5_alias_free : Gcd5_alias_free.
Proof.
  intros h g u v a b N1 N2 N3. cbv zeta. unfold gcd_spec. split.
  - split_locs; solve_op; fin.
  - intros l L1 L2 L3. split_locs; solve_op; fin.
Qed.

Definition Gcd4_alias_free : Prop :=
  forall (h : store) (u v a b : positive), u <> v ->
    let res := Int_gcd4 (U u) (U v) (U a) (U b) h in
    (fst res, snd res (U u), snd res (U v)) = gcd_spec (h (U a)) (h (U b)) /\
    (forall l, l <> u -> l <> v -> snd res (U l) = h (U l)).

Lemma gcd4_alias_free : Gcd4_alias_free.
Proof.
  intros h u v a b N. cbv zeta. unfold gcd_spec. split.
  - split_locs; solve_op; fin.
  - intros l L1 L2. split_locs; solve_op; fin.
Qed.

(* ---- divmod(q,r,a,b) : q and r may each be the same object as a or b *)
Definition divmod_spec (x y : Z) : Z * Z :=
  if 0 <? y then (x / y, x mod y) else (- ((- x) / y), x + ((- x) / y) * y).

Definition Divmod_alias_free : Prop :=
  forall (h : store) (q r a b : positive), q <> r ->
    let h' := exec (Int_divmod (U q) (U r) (U a) (U b)) h in
    (h' (U q), h' (U r)) = divmod_spec (h (U a)) (h (U b)) /\
    (forall l, l <> q -> l <> r -> h' (U l) = h (U l)).

Lemma divmod_alias_free : Divmod_alias_free.
Proof.
  intros h q r a b N. cbv zeta. unfold divmod_spec. split.
  - split_locs; solve_op; fin.
  - intros l L1 L2. split_locs; solve_op; fin.
Qed.

(* the value computed is the Euclidean quotient and remainder: a = b q + r, 0 <= r < |b| *)
Lemma divmod_spec_euclid : forall x y, y <> 0 ->
  let '(q, r) := divmod_spec x y in x = y * q + r /\ 0 <= r < Z.abs y.
Proof.
  intros x y Hy. unfold divmod_spec. destruct (Z.ltb_spec 0 y).
  - pose proof (Z.div_mod x y Hy). pose proof (Z.mod_pos_bound x y H). split; lia.
  - assert (Hn : y < 0) by lia.
    pose proof (Z.div_mod (- x) y Hy). pose proof (Z.mod_neg_bound (- x) y Hn).
    split; nia.
Qed.

(* ---- divmod(q, int64_t& r, a, b) / divmod(q, uint64_t& r, a, b) : q may be the same object as a *)
Definition divmod_w_spec (sg : bool) (x b : Z) : Z * Z :=
  let r := Z.abs (Z.rem x (Z.abs b)) in
  let corr := (x <? 0) && negb (r =? 0) in
  let q1 := if corr then Z.quot x (Z.abs b) - 1 else Z.quot x (Z.abs b) in
  (if sg && (b <? 0) then - q1 else q1, if corr then Z.abs b - r else r).

Definition Divmod_w_alias_free : Prop :=
  forall (sg : bool) (h : store) (q a : positive) (b : Z),
    let res := Int_divmod_w sg (U q) (U a) b h in
    (snd res (U q), fst res) = divmod_w_spec sg (h (U a)) b /\
    (forall l, l <> q -> snd res (U l) = h (U l)).

Lemma divmod_w_alias_free : Divmod_w_alias_free.
Proof.
  intros sg h q a b. cbv zeta. unfold divmod_w_spec. split.
  - split_locs; solve_op; fin.
  - intros l L. split_locs; solve_op; fin.
Qed.

(* ---- powmod(Res, n, int64_t e, m) : Res may be the same object as n or m *)
Definition powmod_spec (x e y : Z) : Z :=
  if e <? 0 then (invmod x (Z.abs y) ^ Z.abs e) mod Z.abs y else (x ^ e) mod Z.abs y.

Definition Powmod_alias_free : Prop :=
  forall (h : store) (res n m : positive) (e : Z),
    let h' := exec (Int_powmod (U res) (U n) e (U m)) h in
    h' (U res) = powmod_spec (h (U n)) e (h (U m)) /\
    (forall l, l <> res -> h' (U l) = h (U l)).

Lemma powmod_alias_free : Powmod_alias_free.
Proof.
  intros h res n m e. cbv zeta. unfold powmod_spec. split.
  - split_locs; solve_op; fin.
  - intros l L. split_locs; solve_op; fin.
Qed.

(* ---- Rational objects: (num, den) = two Integer objects; two Rational objects are the same or disjoint *)
Definition freshQ (op : rat -> rat -> M unit) (gn gd an ad : Z) : list Z :=
  dumpq (exec (op (Rat 1) (Rat 2)) (mkq 1 gn gd (mkq 2 an ad (fun _ => 0)))) 1.

Definition Pure_destQ (op : rat -> rat -> M unit) : Prop :=
  forall (h : store) (r a : positive) (gn gd : Z),
    dumpq (exec (op (Rat r) (Rat a)) h) r = freshQ op gn gd (h (fst (Rat a))) (h (snd (Rat a))).
Definition InplaceQ (op : rat -> rat -> M unit) : Prop :=
  forall (h : store) (r a : positive),
    dumpq (exec (op (Rat r) (Rat a)) h) r
    = freshQ op (h (fst (Rat r))) (h (snd (Rat r))) (h (fst (Rat a))) (h (snd (Rat a))).
Definition FrameQ (op : rat -> rat -> M unit) : Prop :=
  forall (h : store) (r a l : positive), l <> r ->
    dumpq (exec (op (Rat r) (Rat a)) h) l = dumpq h l.

Ltac runq := unfold Pure_destQ, InplaceQ, FrameQ, freshQ; intros; split_locs; solve_op; fin.

Definition QField_alias_free : Prop :=
  Pure_destQ Q_neg /\ Pure_destQ Q_inv /\
  InplaceQ (fun r _ => Q_negin r) /\ InplaceQ (fun r _ => Q_invin r) /\
  InplaceQ (Rat_pluseq 1) /\ InplaceQ (Rat_pluseq (-1)) /\
  FrameQ Q_neg /\ FrameQ Q_inv /\ FrameQ (fun r _ => Q_negin r) /\ FrameQ (fun r _ => Q_invin r) /\
  FrameQ (Rat_pluseq 1) /\ FrameQ (Rat_pluseq (-1)).

Lemma qfield_alias_free : QField_alias_free.
Proof.
  repeat split.
  - runq. - runq. - runq. - runq. - runq. - runq. - runq. - runq. - runq. - runq. - runq. - runq.
Qed.
