(* C15 proofs: Montgomery<ruint<K>>, montgomery-ruint.inl.  Every operation, for every alias pattern: symbolic execution (ProofsBase.solve_op) after
   deciding which location variables coincide (15 partitions of four positions). *)
From Coq Require Import ZArith List Bool Lia.
From C15 Require Import Model ProofsBase.
Local Open Scope Z_scope.

Lemma mg_pure : forall W p p1 r3 n, (n <= 8)%nat -> Pure_dest (mg_op W p p1 r3 n).
Proof. intros W p p1 r3 n Hn h r a b c g. each_op n; split_locs; solve_op; fin. Qed.
Lemma mg_inplace : forall W p p1 r3 n, (9 <= n)%nat -> Inplace (mg_op W p p1 r3 n).
Proof. intros W p p1 r3 n Hn h r a b c. each_op n; split_locs; solve_op; fin. Qed.
Lemma mg_frame : forall W p p1 r3 n, Frame (mg_op W p p1 r3 n).
Proof. intros W p p1 r3 n h r a b c l N. each_op n; split_locs; solve_op; fin. Qed.
Lemma mg_alias_free : forall W p p1 r3, Ring_alias_free (mg_op W p p1 r3).
Proof. intros. split; [|split]; intros; [apply mg_pure|apply mg_inplace|apply mg_frame]; assumption. Qed.
