(* C15 proofs: Modular<Integer> (modular-integer.inl) and the fused Integer forms with their &res == &b tests (gmp++_int_mul.C).  Every operation, for every alias pattern: symbolic execution (ProofsBase.solve_op) after
   deciding which location variables coincide (15 partitions of four positions). *)
From Coq Require Import ZArith List Bool Lia.
From C15 Require Import Model ProofsBase.
Local Open Scope Z_scope.

Lemma mi_pure : forall p n, (n <= 8)%nat -> Pure_dest (mi_op p n).
Proof. intros p n Hn h r a b c g. each_op n; split_locs; solve_op; fin. Qed.
Lemma mi_inplace : forall p n, (9 <= n)%nat -> Inplace (mi_op p n).
Proof. intros p n Hn h r a b c. each_op n; split_locs; solve_op; fin. Qed.
Lemma mi_frame : forall p n, Frame (mi_op p n).
Proof. intros p n h r a b c l N. each_op n; split_locs; solve_op; fin. Qed.
Lemma mi_alias_free : forall p, Ring_alias_free (mi_op p).
Proof. intros. split; [|split]; intros; [apply mi_pure|apply mi_inplace|apply mi_frame]; assumption. Qed.

(* Integer fused forms (int_op: 6 axpy, 7 axmy, 8 maxpy pure; 9 axpyin, 10 axmyin, every other number maxpyin) *)
Definition Int_fused_alias_free : Prop :=
  (forall n, (6 <= n <= 8)%nat -> Pure_dest (int_op n)) /\
  (forall n, (n < 6 \/ 8 < n)%nat -> Inplace (int_op n)) /\
  (forall n, Frame (int_op n)).

Lemma int_fused_alias_free : Int_fused_alias_free.
Proof.
  split; [|split].
  - intros n Hn h r a b c g. cases_nat 11%nat n; try lia; split_locs; solve_op; fin.
  - intros n Hn h r a b c. cases_nat 11%nat n; try lia; split_locs; solve_op; fin.
  - intros n h r a b c l N. cases_nat 11%nat n; split_locs; solve_op; fin.
Qed.
