(* C15 proofs: Modular<ruint<K>,ruint<K>> (same = true) and Modular<ruint<K>,ruint<K+1>> (same = false), modular-ruint.inl.  Every operation, for every alias pattern: symbolic execution (ProofsBase.solve_op) after
   deciding which location variables coincide (15 partitions of four positions). *)
From Coq Require Import ZArith List Bool Lia.
From C15 Require Import Model ProofsBase.
Local Open Scope Z_scope.

Lemma mr_pure : forall W p same n, (n <= 8)%nat -> Pure_dest (mr_op W p same n).
Proof. intros W p same n Hn h r a b c g. each_op n; destruct same; split_locs; solve_op; fin. Qed.
Lemma mr_inplace : forall W p same n, (9 <= n)%nat -> Inplace (mr_op W p same n).
Proof. intros W p same n Hn h r a b c. each_op n; destruct same; split_locs; solve_op; fin. Qed.
Lemma mr_frame : forall W p same n, Frame (mr_op W p same n).
Proof. intros W p same n h r a b c l N. each_op n; destruct same; split_locs; solve_op; fin. Qed.
Lemma mr_alias_free : forall W p same, Ring_alias_free (mr_op W p same).
Proof. intros. split; [|split]; intros; [apply mr_pure|apply mr_inplace|apply mr_frame]; assumption. Qed.
