(* C15, the defects the repairs frag/C15.fix-*.diff remove, as checked statements about the bodies as found
   (Model.*_old): each alias-independence statement that now holds is REFUTED for the old body by a concrete store. *)
From Coq Require Import ZArith List Bool Lia.
From C15 Require Import Model ProofsBase ProofsInt.
Import ListNotations.
Local Open Scope Z_scope.

Definition W64 : Z := 2 ^ 64.
Definition st (l : list (positive * Z)) : store :=
  fold_right (fun pv h => upd h (U (fst pv)) (snd pv)) (fun _ => 0) l.

(* Modular<ruint<6>>(101)::sub(x, x, y), x = 5, y = 7: 188 instead of 99 *)
Lemma mr_sub_old_refuted : ~ Pure_dest (lift3 (mr_sub_old W64 101)).
Proof.
  intro H. specialize (H (st [(1%positive, 5); (2%positive, 7)]) 1%positive 1%positive 2%positive 3%positive 0).
  vm_compute in H. discriminate H.
Qed.
(* div(x, x, y), x = 5, y = 7 mod 101: 33 instead of 44 *)
Lemma mr_div_old_refuted : ~ Pure_dest (lift3 (mr_div_old W64 false 101)).
Proof.
  intro H. specialize (H (st [(1%positive, 5); (2%positive, 7)]) 1%positive 1%positive 2%positive 3%positive 0).
  vm_compute in H. discriminate H.
Qed.
(* axpy(x, a, b, x), a = 5, b = 7, x = 11 mod 101 (Compute_t larger): 70 instead of 46 *)
Lemma mr_axpy_old_refuted : ~ Pure_dest (mr_axpy_old W64 false 101).
Proof.
  intro H. specialize (H (st [(1%positive, 11); (2%positive, 5); (3%positive, 7)]) 1%positive 2%positive 3%positive 1%positive 0).
  vm_compute in H. discriminate H.
Qed.
(* maxpy(x, a, b, x): 0 instead of x - a b *)
Lemma mr_maxpy_old_refuted : ~ Pure_dest (mr_maxpy_old W64 false 101).
Proof.
  intro H. specialize (H (st [(1%positive, 11); (2%positive, 5); (3%positive, 7)]) 1%positive 2%positive 3%positive 1%positive 0).
  vm_compute in H. discriminate H.
Qed.
(* gcd(g, u, a, a, b) with a = 12, b = 18: g = 1 *)
Lemma gcd5_old_refuted :
  exists (h : store) (g u v a b : positive), g <> u /\ g <> v /\ u <> v /\
    exec (Int_gcd5_old (U g) (U u) (U v) (U a) (U b)) h (U g) <> fst (fst (gcd_spec (h (U a)) (h (U b)))).
Proof.
  exists (st [(3%positive, 12); (4%positive, 18)]), 1%positive, 2%positive, 3%positive, 3%positive, 4%positive.
  repeat split; try discriminate; vm_compute; discriminate.
Qed.
(* divmod(q, b, a, b) with a = -7, b = 2: q = -2 instead of -4 *)
Lemma divmod_old_refuted :
  exists (h : store) (q r a b : positive), q <> r /\
    exec (Int_divmod_old (U q) (U r) (U a) (U b)) h (U q) <> fst (divmod_spec (h (U a)) (h (U b))).
Proof.
  exists (st [(3%positive, -7); (2%positive, 2)]), 1%positive, 2%positive, 3%positive, 2%positive.
  split; [discriminate|]. vm_compute. discriminate.
Qed.
(* divmod(a, r, a, 2) with a = -1: q = 0 instead of -1 *)
Lemma divmod_w_old_refuted :
  exists (h : store) (q a : positive) (b : Z),
    snd (Int_divmod_w_old true (U q) (U a) b h) (U q) <> fst (divmod_w_spec true (h (U a)) b).
Proof.
  exists (st [(1%positive, -1)]), 1%positive, 1%positive, 2. vm_compute. discriminate.
Qed.
(* powmod(m, n, -2, m) with n = 3, m = 7: 0 instead of 4 *)
Lemma powmod_old_refuted :
  exists (h : store) (res n m : positive) (e : Z),
    exec (Int_powmod_old (U res) (U n) e (U m)) h (U res) <> powmod_spec (h (U n)) e (h (U m)).
Proof.
  exists (st [(1%positive, 7); (2%positive, 3)]), 1%positive, 2%positive, 1%positive, (-2). vm_compute. discriminate.
Qed.

(* and the repaired bodies on the same stores (the hypotheses of the theorems are satisfiable; values as expected) *)
Example mr_sub_new_example :
  exec (mr_sub W64 101 (U 1) (U 1) (U 2)) (st [(1%positive, 5); (2%positive, 7)]) (U 1) = 99.
Proof. vm_compute. reflexivity. Qed.
Example gcd5_new_example :
  let h' := exec (Int_gcd5 (U 1) (U 2) (U 3) (U 3) (U 4)) (st [(3%positive, 12); (4%positive, 18)]) in
  (h' (U 1), h' (U 2), h' (U 3)) = (6, -1, 1).
Proof. vm_compute. reflexivity. Qed.
Example divmod_new_example :
  let h' := exec (Int_divmod (U 1) (U 2) (U 3) (U 2)) (st [(3%positive, -7); (2%positive, 2)]) in
  (h' (U 1), h' (U 2)) = (-4, 1).
Proof. vm_compute. reflexivity. Qed.
