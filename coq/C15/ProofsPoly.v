(* C15 proofs, part 4: the polynomial entry points (ModelPoly.v).
   For every store and every choice of locations (every alias pattern) the value left in the destination is the
   value of the call on distinct objects — and that value is the genuine product / sum / remainder / gcd, never the
   `junk` of a hazardous coefficient loop: the guards and the order of the assignments keep every hazard unreachable. *)
From Coq Require Import ZArith List Bool Lia.
From C15 Require Import Model ProofsBase ModelPoly.
Import ListNotations.
Local Open Scope Z_scope.

Definition freshP (op : pop4) (g va vb vc : poly) : poly :=
  pexec (op (U 1) (U 2) (U 3) (U 4)) (pmk4 1 2 3 4 g va vb vc) (U 1).
Definition Pure_destP (op : pop4) : Prop :=
  forall (h : pstore) (r a b c : positive) (g : poly),
    pexec (op (U r) (U a) (U b) (U c)) h (U r) = freshP op g (h (U a)) (h (U b)) (h (U c)).
Definition InplaceP (op : pop4) : Prop :=
  forall (h : pstore) (r a b c : positive),
    pexec (op (U r) (U a) (U b) (U c)) h (U r) = freshP op (h (U r)) (h (U a)) (h (U b)) (h (U c)).
Definition FrameP (op : pop4) : Prop :=
  forall (h : pstore) (r a b c l : positive), l <> r ->
    pexec (op (U r) (U a) (U b) (U c)) h (U l) = h (U l).

Lemma strip0_cons : forall p c r,
  strip0 p (c :: r) = match strip0 p r with [] => if c mod p =? 0 then [] else [c mod p] | r' => (c mod p) :: r' end.
Proof. reflexivity. Qed.
Lemma strip0_idem : forall p l, strip0 p (strip0 p l) = strip0 p l.
Proof.
  intros p l. induction l as [|c r IH]; [reflexivity|].
  rewrite strip0_cons. destruct (strip0 p r) as [|c' r'] eqn:E.
  - destruct (Z.eqb_spec (c mod p) 0) as [e|e]; [reflexivity|].
    rewrite strip0_cons. cbn [strip0]. rewrite Zmod_mod.
    destruct (Z.eqb_spec (c mod p) 0); [contradiction|reflexivity].
  - rewrite strip0_cons, IH, Zmod_mod. reflexivity.
Qed.

Lemma strip0_pdivsc : forall p a c, strip0 p (pdivsc p a c) = pdivsc p a c.
Proof. intros. unfold pdivsc. apply strip0_idem. Qed.
Lemma strip0_pdivv : forall p a b, strip0 p (pdivv p a b) = pdivv p a b.
Proof.
  intros. unfold pdivv. destruct (pge p a b); [|reflexivity].
  destruct (pc p b); [apply strip0_pdivsc | apply strip0_idem].
Qed.
Lemma length_ptrunc : forall n (a : poly), length (ptrunc n a) = n.
Proof. intros. unfold ptrunc. rewrite firstn_length, app_length, repeat_length. lia. Qed.

Ltac prun :=
  cbv [freshP pexec pbind pret pload pstor pupd pskip pmk4 loc_eqb Nat.eqb fst snd orb
       V_assign V_add V_sub V_neg V_addin V_subin V_negin V_reversein V_mul_body V_sqr_body V_reverse_copy
       V_zero V_divsc V_coef0 V_resize V_reverse_copy_n V_invmodpowx_body V_multrunc P_reverse_n P_invmodpowx
       P_div_gen P_div pdivv
       P_mul P_sqr P_reverse P_mulin P_axpy P_axmy P_maxpy P_axpyin P_maxpyin P_axmyin P_divmod P_mod poly_op].
Ltac pstep := repeat (progress (prun; cbn [Pos.eqb]; pos_facts; cbv iota)).
Ltac psolve := pstep; repeat (first [split_cond | split_pair]; pstep);
               rewrite ?length_ptrunc, ?strip0_idem, ?strip0_pdivsc, ?strip0_pdivv; try reflexivity.

(* ---- operation numbers of ModelPoly.poly_op: 0 mul 1 sqr 2 reverse 4 axpy 5 axmy 6 maxpy 10 mod: destination only
        written; 3 mulin 7 axpyin 8 maxpyin 9 axmyin: destination also read.  (11 gcd: below.) *)
Definition Poly_alias_free (p : Z) : Prop :=
  (forall n, In n [0; 1; 2; 4; 5; 6; 10]%nat -> Pure_destP (poly_op p n)) /\
  (forall n, In n [3; 7; 8; 9]%nat -> InplaceP (poly_op p n)) /\
  (forall n, (n <= 10)%nat -> FrameP (poly_op p n)).

Lemma poly_alias_free : forall p, Poly_alias_free p.
Proof.
  intro p. split; [|split].
  - intros n Hn h r a b c g. cbn [In] in Hn.
    repeat (destruct Hn as [<-|Hn]; [split_locs; psolve|]). contradiction.
  - intros n Hn h r a b c. cbn [In] in Hn.
    repeat (destruct Hn as [<-|Hn]; [split_locs; psolve|]). contradiction.
  - intros n Hn h r a b c l N. cases_nat 11%nat n; try lia; split_locs; psolve.
Qed.

(* the values: the genuine results, not junk *)
Lemma fresh_mul_value : forall p g a b c, freshP (poly_op p 0) g a b c = strip0 p (pmulv p a b).
Proof. intros. psolve. Qed.
Lemma fresh_sqr_value : forall p g a b c, freshP (poly_op p 1) g a b c = strip0 p (pmulv p a a).
Proof. intros. psolve. Qed.
Lemma fresh_reverse_value : forall p g a b c, freshP (poly_op p 2) g a b c = strip0 p (rev a).
Proof. intros. psolve. Qed.
Lemma fresh_axpy_value : forall p g a x y,
  freshP (poly_op p 4) g a x y = strip0 p (paddv p (strip0 p (pmulv p a x)) y).
Proof. intros. psolve. Qed.
Lemma fresh_mod_value : forall p g a b c,
  freshP (poly_op p 10) g a b c = strip0 p (psubv p a (strip0 p (pmulv p (pdivv p a b) b))).
Proof. intros. psolve. Qed.

Definition Poly_mul_never_junk : Prop :=
  forall p (h : pstore) (r a b : positive),
    pexec (P_mul p (U r) (U a) (U b)) h (U r) = strip0 p (pmulv p (h (U a)) (h (U b))).
Lemma poly_mul_never_junk : Poly_mul_never_junk.
Proof.
  intros p h r a b. pose proof (proj1 (poly_alias_free p) 0%nat (or_introl eq_refl) h r a b 1%positive []) as H.
  cbn [poly_op] in H. rewrite H. apply fresh_mul_value.
Qed.

(* ---- div(Q,A,B): Q may be A, B or both; the value is the one of pdivv (the same three routes on values), the
        hazards of reverse / invmodpowx / the iterator product are never reached *)
Definition Poly_div_alias_free : Prop :=
  forall p (h : pstore) (q a b : positive),
    let h' := pexec (P_div p (U q) (U a) (U b)) h in
    h' (U q) = pdivv p (h (U a)) (h (U b)) /\ (forall l, l <> q -> h' (U l) = h (U l)).
Lemma poly_div_alias_free : Poly_div_alias_free.
Proof.
  intros p h q a b. cbv zeta. split.
  - split_locs; psolve.
  - intros l L. split_locs; psolve.
Qed.
(* ---- divmod(Q,R,A,B): two outputs (distinct objects of each other), each may be A or B *)
Definition divmod_val (p : Z) (a b : poly) : poly * poly :=
  (pdivv p a b, strip0 p (psubv p a (strip0 p (pmulv p (pdivv p a b) b)))).
Definition Poly_divmod_alias_free : Prop :=
  forall p (h : pstore) (q r a b : positive), q <> r ->
    let h' := pexec (P_divmod p (U q) (U r) (U a) (U b)) h in
    (h' (U q), h' (U r)) = divmod_val p (h (U a)) (h (U b)) /\
    (forall l, l <> q -> l <> r -> h' (U l) = h (U l)).

Lemma poly_divmod_alias_free : Poly_divmod_alias_free.
Proof.
  intros p h q r a b N. cbv zeta. unfold divmod_val. split.
  - split_locs; psolve.
  - intros l L1 L2. split_locs; psolve.
Qed.

(* ---- gcd(G,P,Q): G may be P or Q; the remainder loop by induction on its fuel *)
Definition modv (p : Z) (u g : poly) : poly := strip0 p (psubv p u (strip0 p (pmulv p (pdivv p u g) g))).
Fixpoint gcdv (p : Z) (n : nat) (u g : poly) : poly :=
  match n with
  | O => g
  | S n' => match modv p u g with [] => g | r => gcdv p n' (strip0 p g) (strip0 p r) end
  end.
Definition gcd_val (p : Z) (x y : poly) : poly :=
  let dx := length (strip0 p x) in let dy := length (strip0 p y) in
  if (dx =? 0)%nat || (dy =? 1)%nat then strip0 p y
  else if (dy =? 0)%nat || (dx =? 1)%nat then strip0 p x
  else let g := if (dy <=? dx)%nat then gcdv p (S (dx + dy)) (strip0 p x) (strip0 p y)
                else gcdv p (S (dx + dy)) (strip0 p y) (strip0 p x) in
       if (length g <=? 1)%nat then [1] else g.

Lemma pexec_bind : forall A B (c : PM A) (f : A -> PM B) h,
  pexec (pbind c f) h = pexec (f (fst (c h))) (snd (c h)).
Proof. intros. unfold pexec, pbind. destruct (c h). reflexivity. Qed.

Lemma mod_step : forall p h g,
  let h2 := snd (P_mod p (T 9) (T 8) (U g) h) in
  h2 (T 9) = modv p (h (T 8)) (h (U g)) /\ h2 (U g) = h (U g) /\ h2 (T 8) = h (T 8).
Proof. intros p h g. cbv zeta. unfold modv. repeat split; psolve. Qed.

Lemma gcd_loop_value : forall p n h g,
  pexec (gcd_loop p n (U g)) h (U g) = gcdv p n (h (T 8)) (h (U g)).
Proof.
  intros p n. induction n as [|n IH]; intros h g; [reflexivity|].
  cbn [gcd_loop gcdv]. rewrite pexec_bind.
  destruct (mod_step p h g) as (E9 & Eg & E8).
  set (h2 := snd (P_mod p (T 9) (T 8) (U g) h)) in *.
  rewrite pexec_bind. change (fst (pload (T 9) h2)) with (h2 (T 9)). change (snd (pload (T 9) h2)) with h2.
  rewrite E9. destruct (modv p (h (T 8)) (h (U g))) as [|c r] eqn:Em.
  - change (pexec pskip h2 (U g)) with (h2 (U g)). exact Eg.
  - rewrite !pexec_bind. rewrite IH. f_equal.
    all: prun; rewrite ?Pos.eqb_refl; cbv iota; prun; cbn [Pos.eqb]; rewrite ?Eg, ?E9; reflexivity.
Qed.

Definition Poly_gcd_alias_free : Prop :=
  forall p (h : pstore) (g a b : positive),
    pexec (P_gcd p (U g) (U a) (U b)) h (U g) = gcd_val p (h (U a)) (h (U b)).

Lemma poly_gcd_alias_free : Poly_gcd_alias_free.
Proof.
  intros p h g a b. unfold P_gcd, gcd_val.
  rewrite !pexec_bind. change (fst (pload (U a) h)) with (h (U a)). change (snd (pload (U a) h)) with h.
  change (fst (pload (U b) h)) with (h (U b)). change (snd (pload (U b) h)) with h. cbv zeta.
  set (dx := length (strip0 p (h (U a)))). set (dy := length (strip0 p (h (U b)))).
  destruct ((dx =? 0)%nat || (dy =? 1)%nat); [split_locs; psolve|].
  destruct ((dy =? 0)%nat || (dx =? 1)%nat); [split_locs; psolve|].
  rewrite !pexec_bind.
  match goal with |- context [gcd_loop p ?n (U g) ?hh] => set (h1 := hh); set (h3 := snd (gcd_loop p n (U g) h1)) end.
  assert (E3 : h3 (U g) = gcdv p (S (dx + dy)) (h1 (T 8)) (h1 (U g))) by apply gcd_loop_value.
  change (fst (pload (U g) h3)) with (h3 (U g)). change (snd (pload (U g) h3)) with h3.
  assert (E1 : h1 (T 8) = (if (dy <=? dx)%nat then strip0 p (h (U a)) else strip0 p (h (U b))) /\
               h1 (U g) = (if (dy <=? dx)%nat then strip0 p (h (U b)) else strip0 p (h (U a)))).
  { unfold h1. destruct (dy <=? dx)%nat; split; split_locs; psolve. }
  destruct E1 as [E8 Eg]. rewrite E3, E8, Eg.
  destruct (dy <=? dx)%nat;
    match goal with |- context [(length ?x <=? 1)%nat] => destruct (length x <=? 1)%nat end;
    try (prun; rewrite ?Pos.eqb_refl; reflexivity);
    try (change (pexec pskip h3 (U g)) with (h3 (U g)); rewrite E3, E8, Eg; reflexivity).
Qed.

(* ---- the variants without the protection violate the statements (concrete stores over GF(101)) *)
Definition pst (l : list (positive * poly)) : pstore :=
  fold_right (fun pv h => pupd h (U (fst pv)) (snd pv)) (fun _ => []) l.
Lemma poly_mul_unguarded_refuted : ~ Pure_destP (fun r a b _ => P_mul_unguarded 101 r a b).
Proof.
  intro H. specialize (H (pst [(1%positive, [1; 2; 3])]) 1%positive 1%positive 1%positive 2%positive []).
  vm_compute in H. discriminate H.
Qed.
(* seeded change C15-m4: P = (x-2)(x-3)(x-5), Q = (x-2)(x-3)(x-4)(x-6)(x-8)(x-9), gcd(G, P, G) with G = Q returns P *)
Lemma poly_gcd_swapped_refuted :
  exists (h : pstore) (g a b : positive),
    pexec (P_gcd_swapped 101 (U g) (U a) (U b)) h (U g) <> gcd_val 101 (h (U a)) (h (U b)).
Proof.
  exists (pst [(1%positive, [71; 31; 91; 1]); (2%positive, [66; 45; 76; 6; 3; 69; 1])]), 2%positive, 1%positive, 2%positive.
  vm_compute. discriminate.
Qed.
(* repair 1eb01b7 undone (the divisor B[0] read through a reference after Q has been written): div(B, A, B) with
   A = 6X + 6, B = 2 over GF(101) leaves 2X + 3 instead of 3X + 3 *)
Lemma poly_div_b0_reverted_refuted :
  exists (h : pstore) (q a b : positive),
    pexec (P_div_b0_reverted 101 (U q) (U a) (U b)) h (U q) <> pdivv 101 (h (U a)) (h (U b)).
Proof.
  exists (pst [(1%positive, [6; 6]); (2%positive, [2])]), 2%positive, 1%positive, 2%positive.
  vm_compute. discriminate.
Qed.
Example poly_div_example :       (* div(B,A,B): constant divisor; div(A,A,B), div(B,A,B): fast division *)
  let h := pst [(1%positive, [6; 6]); (2%positive, [2]); (3%positive, [66; 45; 76; 6; 3; 69; 1]); (4%positive, [71; 31; 91; 2])] in
  (pexec (P_div 101 (U 2) (U 1) (U 2)) h (U 2), pexec (P_div_b0_reverted 101 (U 2) (U 1) (U 2)) h (U 2),
   pexec (P_div 101 (U 3) (U 3) (U 4)) h (U 3), pexec (P_div 101 (U 4) (U 3) (U 4)) h (U 4))
  = ([3; 3], [3; 2], [53; 2; 37; 51], [53; 2; 37; 51]).
Proof. vm_compute. reflexivity. Qed.
Example poly_gcd_example :
  pexec (P_gcd 101 (U 2) (U 1) (U 2)) (pst [(1%positive, [71; 31; 91; 1]); (2%positive, [66; 45; 76; 6; 3; 69; 1])]) (U 2)
  = [29; 60; 89].
Proof. vm_compute. reflexivity. Qed.
