(* C15 proofs: Rational::operator*= and operator/= (ModelRat.v), both values of Rational::flags, t and r the same
   Rational object or disjoint ones; the seeded order C15-m8 of operator/= is refuted. *)
From Coq Require Import ZArith List Bool Lia.
From C15 Require Import Model ProofsBase ProofsInt ModelRat.
Import ListNotations.
Local Open Scope Z_scope.

Ltac unfq :=
  cbv [I_gcd I_quot Q_isone Q_isint Q_is0 Q_assign Rat_reduce Rat_muleq
       Rat_diveq_A Rat_diveq_B Rat_diveq_general Rat_diveq_gen Rat_diveq Rat_diveq_m8].
(* conditions comparing a value with itself (the same object on both sides) are decided first *)
Ltac refl_conds := rewrite ?Z.eqb_refl; cbn [orb andb negb]; cbv iota.
Ltac stepq := step; refl_conds; step.
Ltac solve_q := stepq; repeat (first [split_cond | split_pair]; stepq); try reflexivity.
Ltac runq2 := unfold InplaceQ, FrameQ, freshQ; intros; split_locs; unfq; solve_q; fin.

Definition QMulDiv_alias_free : Prop :=
  forall noreduce : bool,
    InplaceQ (Rat_muleq noreduce) /\ FrameQ (Rat_muleq noreduce) /\
    InplaceQ (Rat_diveq noreduce) /\ FrameQ (Rat_diveq noreduce).

Lemma muleq_inplace : forall nr, InplaceQ (Rat_muleq nr).
Proof. intros nr. runq2. Qed.
Lemma muleq_frame : forall nr, FrameQ (Rat_muleq nr).
Proof. intros nr. runq2. Qed.
Lemma diveq_inplace : forall nr, InplaceQ (Rat_diveq nr).
Proof. intros nr. runq2. Qed.
Lemma diveq_frame : forall nr, FrameQ (Rat_diveq nr).
Proof. intros nr. runq2. Qed.

Lemma qmuldiv_alias_free : QMulDiv_alias_free.
Proof.
  intros nr. repeat split.
  - apply muleq_inplace. - apply muleq_frame. - apply diveq_inplace. - apply diveq_frame.
Qed.

(* the statements are about all stores; two runs: x *= x and x /= x on 2/3 and on -2/3, both flags
   (Rat 1 = (U 2, U 3), Rat 2 = (U 4, U 5)) *)
Definition q23 (n : Z) : store := mkq 1 n 3 (mkq 2 n 3 (fun _ => 0)).
Example qmuldiv_example :
  dumpq (exec (Rat_muleq false (Rat 1) (Rat 1)) (q23 2)) 1 = [4; 9] /\
  dumpq (exec (Rat_muleq false (Rat 1) (Rat 2)) (q23 2)) 1 = [4; 9] /\
  dumpq (exec (Rat_diveq false (Rat 1) (Rat 1)) (q23 2)) 1 = [1; 1] /\
  dumpq (exec (Rat_diveq true (Rat 1) (Rat 1)) (q23 2)) 1 = [1; 1] /\
  dumpq (exec (Rat_diveq true (Rat 1) (Rat 2)) (q23 2)) 1 = [1; 1] /\
  dumpq (exec (Rat_diveq true (Rat 1) (Rat 1)) (q23 (-2))) 1 = [1; 1] /\
  dumpq (exec (Rat_diveq true (Rat 1) (Rat 2)) (q23 (-2))) 1 = [1; 1] /\
  run_qmuldiv 1 true 1 2 2 3 5 7 = [14; 15; 5; 7] /\
  run_qmuldiv 1 false 1 2 6 35 (-9) 14 = [-4; 15; -9; 14] /\
  run_qmuldiv 0 false 1 2 6 35 (-7) 9 = [-2; 15; -7; 9].
Proof. vm_compute. repeat split; reflexivity. Qed.

(* seeded change C15-m8: the NoReduce block of operator/= in front of the equal-denominator block.
   r /= r on 2/3 with flags = NoReduce:  num *= r.den  gives 6, then  den *= r.num  reads the NEW num: 18.
   6/18 = 1/3 instead of 1 (a distinct r holding 2/3 gives 6/6) *)
Example diveq_m8_example :
  dumpq (exec (Rat_diveq_m8 true (Rat 1) (Rat 1)) (q23 2)) 1 = [6; 18] /\
  dumpq (exec (Rat_diveq_m8 true (Rat 1) (Rat 2)) (q23 2)) 1 = [6; 6].
Proof. vm_compute. split; reflexivity. Qed.
Lemma diveq_m8_refuted : ~ InplaceQ (Rat_diveq_m8 true).
Proof.
  intro H. specialize (H (q23 2) 1%positive 1%positive). vm_compute in H. discriminate H.
Qed.
(* not even the VALUE survives: 6 * 6 <> 6 * 18 *)
Lemma diveq_m8_value_refuted :
  ~ (forall (h : store) (r a : positive),
       match dumpq (exec (Rat_diveq_m8 true (Rat r) (Rat a)) h) r,
             freshQ (Rat_diveq_m8 true) (h (fst (Rat r))) (h (snd (Rat r))) (h (fst (Rat a))) (h (snd (Rat a))) with
       | [n; d], [n'; d'] => n * d' = n' * d
       | _, _ => False
       end).
Proof.
  intro H. specialize (H (q23 2) 1%positive 1%positive). vm_compute in H. discriminate H.
Qed.
