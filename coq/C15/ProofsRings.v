(* C15 proofs, part 2: the ring families with multi-word elements and the fused Integer forms.
   Every operation, for every alias pattern: by symbolic execution (ProofsBase.solve_op) after deciding which of the
   location variables coincide (15 partitions of four positions). *)
From Coq Require Import ZArith List Bool Lia.
From C15 Require Import Model ProofsBase.
Local Open Scope Z_scope.

(* operation numbers of Model.mr_op / mg_op / mi_op:
   0 add 1 sub 2 mul 3 div 4 neg 5 inv 6 axpy 7 axmy 8 maxpy            (destination is only written)
   9 axpyin 10 axmyin 11 maxpyin 12 addin 13 subin 14 mulin 15 divin 16 negin 17.. invin   (destination is also read) *)
Definition Ring_alias_free (f : nat -> op4) : Prop :=
  (forall n, (n <= 8)%nat -> Pure_dest (f n)) /\
  (forall n, (9 <= n)%nat -> Inplace (f n)) /\
  (forall n, Frame (f n)).

Ltac cases_nat k n := lazymatch k with O => idtac | S ?k' => destruct n as [|n]; [ | cases_nat k' n ] end.
Ltac each_op n := cases_nat 18%nat n; try lia.

Lemma mr_alias_free : forall W p same, Ring_alias_free (mr_op W p same).
Proof.
  intros W p same. split; [|split].
  - intros n Hn h r a b c g. each_op n; destruct same; split_locs; solve_op.
  - intros n Hn h r a b c. each_op n; destruct same; split_locs; solve_op.
  - intros n h r a b c l N. each_op n; destruct same; split_locs; solve_op.
Qed.

Lemma mg_alias_free : forall W p p1 r3, Ring_alias_free (mg_op W p p1 r3).
Proof.
  intros W p p1 r3. split; [|split].
  - intros n Hn h r a b c g. each_op n; split_locs; solve_op.
  - intros n Hn h r a b c. each_op n; split_locs; solve_op.
  - intros n h r a b c l N. each_op n; split_locs; solve_op.
Qed.

Lemma mi_alias_free : forall p, Ring_alias_free (mi_op p).
Proof.
  intros p. split; [|split].
  - intros n Hn h r a b c g. each_op n; split_locs; solve_op.
  - intros n Hn h r a b c. each_op n; split_locs; solve_op.
  - intros n h r a b c l N. each_op n; split_locs; solve_op.
Qed.

(* Integer fused forms (int_op: 6 axpy, 7 axmy, 8 maxpy pure; 9 axpyin, 10 axmyin, others maxpyin in place) *)
Definition Int_fused_alias_free : Prop :=
  (forall n, (6 <= n <= 8)%nat -> Pure_dest (int_op n)) /\
  (forall n, (n < 6 \/ 8 < n)%nat -> Inplace (int_op n)) /\
  (forall n, Frame (int_op n)).

Lemma int_fused_alias_free : Int_fused_alias_free.
Proof.
  split; [|split].
  - intros n Hn h r a b c g. cases_nat 11%nat n; try lia; split_locs; solve_op.
  - intros n Hn h r a b c. cases_nat 11%nat n; try lia; split_locs; solve_op.
  - intros n h r a b c l N. cases_nat 11%nat n; split_locs; solve_op.
Qed.
